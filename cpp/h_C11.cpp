// h_C11.cpp — harness for C11: operation sequences on real GaussianMixture /
// Gaussian / ParticleSet objects.  Case: kind gm | gauss | pset, meta c l ci q
// (constructor arguments), word ops (tokens, see props/C11.py), mat <name>
// (+ int <name>.r, <name>.c) for every noise covariance.  After the constructor
// (step 0) and after every operation: every public descriptor, every storage
// matrix with its real dimensions (subclass exposing the protected members) and
// the per-component accessor views taken through the public accessors.
#define VF_MAIN
#include "common.hpp"
#include <BayesFilters/Gaussian.h>
#include <BayesFilters/GaussianMixture.h>
#include <BayesFilters/ParticleSet.h>
#include <memory>

using namespace bfl;
using namespace Eigen;

struct XGM : public GaussianMixture {
    XGM(std::size_t c, std::size_t l, std::size_t ci, bool q) : GaussianMixture(c, l, ci, q) {}
    XGM() : GaussianMixture() {}
    XGM(std::size_t c, std::size_t d) : GaussianMixture(c, d) {}
    MatrixXd& M() { return mean_; }
    MatrixXd& C() { return covariance_; }
    VectorXd& W() { return weight_; }
};
struct XG : public Gaussian {
    XG(std::size_t l, std::size_t ci, bool q) : Gaussian(l, ci, q) {}
    XG() : Gaussian() {}
    explicit XG(std::size_t l) : Gaussian(l) {}
    MatrixXd& M() { return mean_; }
    MatrixXd& C() { return covariance_; }
    VectorXd& W() { return weight_; }
};
struct XPS : public ParticleSet {
    XPS(std::size_t c, std::size_t l, std::size_t ci, bool q) : ParticleSet(c, l, ci, q) {}
    XPS() : ParticleSet() {}
    XPS(std::size_t c, std::size_t d) : ParticleSet(c, d) {}
    XPS(const ParticleSet& p) : ParticleSet(p) {}
    MatrixXd& M() { return mean_; }
    MatrixXd& C() { return covariance_; }
    VectorXd& W() { return weight_; }
    MatrixXd& St() { return state_; }
};

static std::vector<long> ints(const std::string& s) {
    std::vector<long> v; std::stringstream ss(s); std::string t;
    while (std::getline(ss, t, ',')) v.push_back(std::stol(t));
    return v;
}
static std::string P(int k, const char* s) { return std::to_string(k) + "." + s; }

static MatrixXd getq(const vf::Case& c, const std::string& name) {
    long r = c.integer(name + ".r"), cl = c.integer(name + ".c");
    if (r == 0 || cl == 0) return MatrixXd::Zero(r, cl);
    return c.mat(name);
}

// fill through the public accessors of GaussianMixture
static long fill_gm(GaussianMixture& g, long b) {
    Ref<MatrixXd> m = g.GaussianMixture::mean();
    for (long j = 0; j < m.cols(); j++) for (long i = 0; i < m.rows(); i++) m(i, j) = double(b + j * m.rows() + i);
    b += m.rows() * m.cols();
    Ref<MatrixXd> cv = g.GaussianMixture::covariance();
    for (long j = 0; j < cv.cols(); j++) for (long i = 0; i < cv.rows(); i++) cv(i, j) = double(b + j * cv.rows() + i);
    b += cv.rows() * cv.cols();
    Ref<VectorXd> w = g.GaussianMixture::weight();
    for (long i = 0; i < w.size(); i++) w(i) = double(b + i);
    return b + w.size();
}

template <class X>
static void dump_fields(int k, X& g, int ret) {
    vf::out_int(P(k, "components"), g.components);
    vf::out_int(P(k, "quat"), g.use_quaternion ? 1 : 0);
    vf::out_int(P(k, "dcc"), g.dim_circular_component);
    vf::out_int(P(k, "dim"), g.dim);
    vf::out_int(P(k, "dl"), g.dim_linear);
    vf::out_int(P(k, "dc"), g.dim_circular);
    vf::out_int(P(k, "dn"), g.dim_noise);
    vf::out_int(P(k, "dcov"), g.dim_covariance);
    vf::out_int(P(k, "ret"), ret);
    vf::out_mat(P(k, "mean"), g.M());
    vf::out_mat(P(k, "cov"), g.C());
    vf::out_mat(P(k, "w"), g.W());
}

// accessor views; returns false (and prints acc_oob 1) if an accessor would leave the storage
template <class X>
static bool dump_acc(int k, X& g) {
    GaussianMixture& b = g;
    const long n = b.components, d = b.dim, dc = b.dim_covariance;
    bool ok = n <= g.M().cols() && d <= g.M().rows() && n <= g.W().size() && dc <= g.C().rows() && dc * n <= g.C().cols();
    vf::out_int(P(k, "acc_oob"), ok ? 0 : 1);
    if (!ok) return false;
    vf::Entry e("GaussianMixture::accessors");
    const GaussianMixture& cb = g;
    MatrixXd amean(g.M().rows(), n), acov(g.C().rows(), dc * n), emean(d, n), ecov(dc, dc * n);
    VectorXd aw(n);
    bool const_same = true;
    for (long i = 0; i < n; i++) {
        amean.col(i) = b.GaussianMixture::mean(i);
        acov.middleCols(dc * i, dc) = b.GaussianMixture::covariance(i);
        aw(i) = b.GaussianMixture::weight(i);
        for (long j = 0; j < d; j++) emean(j, i) = b.GaussianMixture::mean(i, j);
        for (long j = 0; j < dc; j++) for (long kk = 0; kk < dc; kk++) ecov(j, dc * i + kk) = b.GaussianMixture::covariance(i, j, kk);
        // const overloads address the same cells
        const_same = const_same && cb.GaussianMixture::mean(i).data() == b.GaussianMixture::mean(i).data()
                     && cb.GaussianMixture::covariance(i).data() == b.GaussianMixture::covariance(i).data()
                     && &cb.GaussianMixture::weight(i) == &b.GaussianMixture::weight(i);
    }
    vf::out_mat(P(k, "amean"), amean);
    vf::out_mat(P(k, "acov"), acov);
    vf::out_mat(P(k, "aw"), aw);
    vf::out_mat(P(k, "emean"), emean);
    vf::out_mat(P(k, "ecov"), ecov);
    vf::out_int(P(k, "const_same"), const_same ? 1 : 0);
    return true;
}

static void dump_gauss_acc(int k, XG& g) {
    vf::Entry e("Gaussian::accessors");
    MatrixXd m = g.mean();
    MatrixXd cv = g.covariance();
    vf::out_mat(P(k, "gmean"), m);
    vf::out_mat(P(k, "gcov"), cv);
    vf::out_num(P(k, "gweight"), g.weight());
}

static bool dump_ps(int k, XPS& p, int ret) {
    dump_fields(k, p, ret);
    vf::out_mat(P(k, "state"), p.St());
    if (!dump_acc(k, p)) return false;
    const long n = p.components, d = p.dim;
    bool ok = n <= p.St().cols() && d <= p.St().rows();
    vf::out_int(P(k, "state_oob"), ok ? 0 : 1);
    if (!ok) return false;
    vf::Entry e("ParticleSet::accessors");
    MatrixXd astate(p.St().rows(), n), estate(d, n);
    for (long i = 0; i < n; i++) {
        astate.col(i) = p.state(i);
        for (long j = 0; j < d; j++) estate(j, i) = p.state(i, j);
    }
    vf::out_mat(P(k, "astate"), astate);
    vf::out_mat(P(k, "estate"), estate);
    return true;
}

static long fill_ps(XPS& p, long b) {
    b = fill_gm(p, b);
    Ref<MatrixXd> s = p.state();
    for (long j = 0; j < s.cols(); j++) for (long i = 0; i < s.rows(); i++) s(i, j) = double(b + j * s.rows() + i);
    return b;
}

static void do_resize(XG& g, const std::vector<long>& v) { vf::Entry e("Gaussian::resize"); g.resize(v.at(0), v.at(1)); }
static void do_resize(XGM& g, const std::vector<long>& v) { vf::Entry e("GaussianMixture::resize"); g.resize(v.at(0), v.at(1), v.at(2)); }

template <class X>
static void run_gm(const vf::Case& c, std::unique_ptr<X> g, bool gauss, void (*extra)(int, X&)) {
    const auto& ops = c.word("ops");
    dump_fields(0, *g, 1);
    bool go = dump_acc(0, *g);
    if (go && extra) extra(0, *g);
    for (size_t k0 = 0; go && k0 < ops.size(); k0++) {
        const std::string& tok = ops[k0];
        const int k = int(k0) + 1;
        const std::string rest = tok.substr(1);
        int ret = 1;
        switch (tok[0]) {
        case 'F': { vf::Entry e("fill"); fill_gm(*g, std::stol(rest)); break; }
        case 'C': { vf::Entry e("copy-constructor"); std::unique_ptr<X> n(new X(*g)); g = std::move(n); break; }
        case 'M': { vf::Entry e("move-constructor"); std::unique_ptr<X> n(new X(std::move(*g))); g = std::move(n); break; }
        case 'S': { vf::Entry e("copy-assignment"); std::unique_ptr<X> n(new X()); *n = *g; g = std::move(n); break; }
        case 'R': {
            auto v = ints(rest);
            do_resize(*g, v);
            break;
        }
        case 'A': { MatrixXd q = getq(c, rest); vf::Entry e("GaussianMixture::augmentWithNoise"); ret = g->augmentWithNoise(q) ? 1 : 0; break; }
        default: std::fprintf(stderr, "BFL_VERIF_HARNESS bad op %s\n", tok.c_str()); std::exit(3);
        }
        dump_fields(k, *g, ret);
        go = dump_acc(k, *g);
        if (go && extra) extra(k, *g);
        if (!go) vf::out_int("stopped", k);
    }
}

static void gauss_extra(int k, XG& g) { dump_gauss_acc(k, g); }

static void run_ps(const vf::Case& c, std::unique_ptr<XPS> p) {
    const auto& ops = c.word("ops");
    bool go = dump_ps(0, *p, 1);
    for (size_t k0 = 0; go && k0 < ops.size(); k0++) {
        const std::string& tok = ops[k0];
        const int k = int(k0) + 1;
        const std::string rest = tok.substr(1);
        int ret = 1;
        switch (tok[0]) {
        case 'F': { vf::Entry e("fill"); fill_ps(*p, std::stol(rest)); break; }
        case 'C': { vf::Entry e("copy-constructor"); std::unique_ptr<XPS> n(new XPS(*p)); p = std::move(n); break; }
        case 'M': { vf::Entry e("move-constructor"); std::unique_ptr<XPS> n(new XPS(std::move(*p))); p = std::move(n); break; }
        case 'S': { vf::Entry e("copy-assignment"); std::unique_ptr<XPS> n(new XPS()); *n = *p; p = std::move(n); break; }
        case 'R': { auto v = ints(rest); vf::Entry e("ParticleSet::resize"); p->resize(v.at(0), v.at(1), v.at(2)); break; }
        case 'A': { MatrixXd q = getq(c, rest); vf::Entry e("GaussianMixture::augmentWithNoise"); ret = p->augmentWithNoise(q) ? 1 : 0; break; }
        case 'P': case 'Q': {
            auto v = ints(rest);
            XPS rhs(v.at(0), v.at(1), v.at(2), v.at(3) != 0);
            fill_ps(rhs, v.at(4));
            if (tok[0] == 'P') { vf::Entry e("ParticleSet::operator+="); ParticleSet& r = (*p += rhs); if (&r != p.get()) ret = -1; }
            else { vf::Entry e("operator+(ParticleSet,ParticleSet)"); std::unique_ptr<XPS> n(new XPS(*p + rhs)); p = std::move(n); }
            break;
        }
        case 'D': { XPS rhs(*p); vf::Entry e("ParticleSet::operator+="); *p += rhs; break; }
        case 'E': { vf::Entry e("operator+(ParticleSet,ParticleSet)"); std::unique_ptr<XPS> n(new XPS(*p + *p)); p = std::move(n); break; }
        default: std::fprintf(stderr, "BFL_VERIF_HARNESS bad op %s\n", tok.c_str()); std::exit(3);
        }
        go = dump_ps(k, *p, ret);
        if (!go) vf::out_int("stopped", k);
    }
}

int main() {
    vf::Case c;
    while (vf::read_case(std::cin, c)) {
        const long cc = c.mi("c"), l = c.mi("l"), ci = c.mi("ci");
        const bool q = c.mi("q") != 0;
        const std::string ctor = c.m("ctor", "full");   // full: (c, l, ci, q); two: (c, dim) / Gaussian(l); default: ()
        vf::out_begin(c.id);
        if (c.kind == "gm") {
            std::unique_ptr<XGM> g;
            { vf::Entry e("GaussianMixture::GaussianMixture");
              if (ctor == "default") g.reset(new XGM()); else if (ctor == "two") g.reset(new XGM(cc, l)); else g.reset(new XGM(cc, l, ci, q)); }
            run_gm<XGM>(c, std::move(g), false, nullptr);
        } else if (c.kind == "gauss") {
            std::unique_ptr<XG> g;
            { vf::Entry e("Gaussian::Gaussian");
              if (ctor == "default") g.reset(new XG()); else if (ctor == "two") g.reset(new XG(l)); else g.reset(new XG(l, ci, q)); }
            run_gm<XG>(c, std::move(g), true, gauss_extra);
        } else if (c.kind == "pset") {
            std::unique_ptr<XPS> p;
            { vf::Entry e("ParticleSet::ParticleSet");
              if (ctor == "default") p.reset(new XPS()); else if (ctor == "two") p.reset(new XPS(cc, l)); else p.reset(new XPS(cc, l, ci, q)); }
            run_ps(c, std::move(p));
        } else {
            std::fprintf(stderr, "BFL_VERIF_HARNESS unknown kind %s\n", c.kind.c_str());
            return 3;
        }
        vf::out_end();
    }
    return 0;
}
