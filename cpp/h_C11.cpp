// h_C11.cpp — harness for C11: operation sequences on real GaussianMixture /
// Gaussian / ParticleSet objects.  Case: kind gm | gauss | pset, meta c l ci q
// ctor (constructor arguments and overload), word ops (tokens, see props/C11.py),
// mat <name> (+ int <name>.r, <name>.c) for every noise covariance.  After the
// constructor (step 0) and after every operation: every public descriptor, every
// storage matrix with its real dimensions (subclass exposing the protected
// members) and the views taken through EVERY public accessor overload (block and
// element, const and non-const, whole-matrix), plus the overloads that rely on
// default arguments (constructors without use_quaternion, resize without
// dim_circular).
//
// Operations outside the premises of the model ("outside": square augmentation
// of a 0-component object, += of a mismatched or aliased operand, augmentation
// with the object's own covariance()) are executed only in a build that turns the
// undefined behaviour into a detectable failure (Eigen assertions: exit 42;
// AddressSanitizer for the dangling Ref); otherwise the sequence stops with
// "skipped <k>".  If such an operation returns normally, "<k>.survived 1" is
// printed; the plug-in only counts it (outside the property, nothing to report).
#define VF_MAIN
#include "common.hpp"
#include <BayesFilters/Gaussian.h>
#include <BayesFilters/GaussianMixture.h>
#include <BayesFilters/ParticleSet.h>
#include <memory>

using namespace bfl;
using namespace Eigen;

#ifdef NDEBUG
static const bool kEigenAssert = false;
#else
static const bool kEigenAssert = true;
#endif
#if defined(__SANITIZE_ADDRESS__)
static const bool kAsan = true;
#else
static const bool kAsan = false;
#endif

struct XGM : public GaussianMixture {
    XGM(std::size_t c, std::size_t l, std::size_t ci, bool q) : GaussianMixture(c, l, ci, q) {}
    XGM(std::size_t c, std::size_t l, std::size_t ci) : GaussianMixture(c, l, ci) {}   // default use_quaternion
    XGM(std::size_t c, std::size_t d) : GaussianMixture(c, d) {}
    XGM() : GaussianMixture() {}
    MatrixXd& M() { return mean_; }
    MatrixXd& C() { return covariance_; }
    VectorXd& W() { return weight_; }
};
struct XG : public Gaussian {
    XG(std::size_t l, std::size_t ci, bool q) : Gaussian(l, ci, q) {}
    XG(std::size_t l, std::size_t ci) : Gaussian(l, ci) {}                              // default use_quaternion
    explicit XG(std::size_t l) : Gaussian(l) {}
    XG() : Gaussian() {}
    MatrixXd& M() { return mean_; }
    MatrixXd& C() { return covariance_; }
    VectorXd& W() { return weight_; }
};
struct XPS : public ParticleSet {
    XPS(std::size_t c, std::size_t l, std::size_t ci, bool q) : ParticleSet(c, l, ci, q) {}
    XPS(std::size_t c, std::size_t l, std::size_t ci) : ParticleSet(c, l, ci) {}        // default use_quaternion
    XPS(std::size_t c, std::size_t d) : ParticleSet(c, d) {}
    XPS() : ParticleSet() {}
    XPS(const ParticleSet& p) : ParticleSet(p) {}
    MatrixXd& M() { return mean_; }
    MatrixXd& C() { return covariance_; }
    VectorXd& W() { return weight_; }
    MatrixXd& St() { return state_; }
};

static std::vector<long> ints(const std::string& s) {
    std::vector<long> v; std::stringstream ss(s); std::string t;
    while (std::getline(ss, t, ',')) v.push_back(std::stol(t));
    return v;
}
static std::string P(int k, const char* s) { return std::to_string(k) + "." + s; }

static MatrixXd getq(const vf::Case& c, const std::string& name) {
    long r = c.integer(name + ".r"), cl = c.integer(name + ".c");
    if (r == 0 || cl == 0) return MatrixXd::Zero(r, cl);
    return c.mat(name);
}

// bitwise equality of two doubles (uninitialised cells may hold NaN patterns)
static bool beq(double x, double y) { return std::memcmp(&x, &y, sizeof x) == 0; }

// fill through the public whole-matrix accessors of GaussianMixture
static long fill_gm(GaussianMixture& g, long b) {
    Ref<MatrixXd> m = g.GaussianMixture::mean();
    for (long j = 0; j < m.cols(); j++) for (long i = 0; i < m.rows(); i++) m(i, j) = double(b + j * m.rows() + i);
    b += m.rows() * m.cols();
    Ref<MatrixXd> cv = g.GaussianMixture::covariance();
    for (long j = 0; j < cv.cols(); j++) for (long i = 0; i < cv.rows(); i++) cv(i, j) = double(b + j * cv.rows() + i);
    b += cv.rows() * cv.cols();
    Ref<VectorXd> w = g.GaussianMixture::weight();
    for (long i = 0; i < w.size(); i++) w(i) = double(b + i);
    return b + w.size();
}

template <class X>
static void dump_fields(int k, X& g, int ret) {
    vf::out_int(P(k, "components"), g.components);
    vf::out_int(P(k, "quat"), g.use_quaternion ? 1 : 0);
    vf::out_int(P(k, "dcc"), g.dim_circular_component);
    vf::out_int(P(k, "dim"), g.dim);
    vf::out_int(P(k, "dl"), g.dim_linear);
    vf::out_int(P(k, "dc"), g.dim_circular);
    vf::out_int(P(k, "dn"), g.dim_noise);
    vf::out_int(P(k, "dcov"), g.dim_covariance);
    vf::out_int(P(k, "ret"), ret);
    vf::out_mat(P(k, "mean"), g.M());
    vf::out_mat(P(k, "cov"), g.C());
    vf::out_mat(P(k, "w"), g.W());
}

// names of accessor overloads that do not address the storage cell they should
struct Bad {
    std::vector<std::string> v;
    void chk(bool ok, const char* what) { if (!ok) { for (auto& s : v) if (s == what) return; v.push_back(what); } }
    void out(int k, const char* field) { if (v.empty()) v.push_back("-"); vf::out_word(P(k, field), v); }
};

// GaussianMixture accessors; returns false (and prints acc_oob 1) if an accessor would leave the storage
template <class X>
static bool dump_acc(int k, X& g) {
    GaussianMixture& b = g;
    const GaussianMixture& cb = g;
    const long n = b.components, d = b.dim, dc = b.dim_covariance;
    bool ok = n <= g.M().cols() && d <= g.M().rows() && n <= g.W().size() && dc <= g.C().rows() && dc * n <= g.C().cols();
    vf::out_int(P(k, "acc_oob"), ok ? 0 : 1);
    if (!ok) return false;
    vf::Entry e("GaussianMixture::accessors");
    MatrixXd amean(g.M().rows(), n), acov(g.C().rows(), dc * n), emean(d, n), ecov(dc, dc * n);
    VectorXd aw(n);
    Bad bad;
    // whole-matrix accessors, non-const and const
    {
        Ref<MatrixXd> m = b.GaussianMixture::mean(); const Ref<const MatrixXd> cm = cb.GaussianMixture::mean();
        bad.chk(m.data() == g.M().data() && m.rows() == g.M().rows() && m.cols() == g.M().cols() && m.outerStride() == g.M().rows(), "mean()");
        bad.chk(cm.data() == g.M().data() && cm.rows() == g.M().rows() && cm.cols() == g.M().cols(), "mean()const");
        Ref<MatrixXd> cv = b.GaussianMixture::covariance(); const Ref<const MatrixXd> ccv = cb.GaussianMixture::covariance();
        bad.chk(cv.data() == g.C().data() && cv.rows() == g.C().rows() && cv.cols() == g.C().cols(), "covariance()");
        bad.chk(ccv.data() == g.C().data() && ccv.rows() == g.C().rows() && ccv.cols() == g.C().cols(), "covariance()const");
        Ref<VectorXd> w = b.GaussianMixture::weight(); const Ref<const VectorXd> cw = cb.GaussianMixture::weight();
        bad.chk(w.data() == g.W().data() && w.size() == g.W().size(), "weight()");
        bad.chk(cw.data() == g.W().data() && cw.size() == g.W().size(), "weight()const");
    }
    for (long i = 0; i < n; i++) {
        Ref<VectorXd> mi = b.GaussianMixture::mean(i);
        const Ref<const VectorXd> cmi = cb.GaussianMixture::mean(i);
        Ref<MatrixXd> ci = b.GaussianMixture::covariance(i);
        const Ref<const MatrixXd> cci = cb.GaussianMixture::covariance(i);
        amean.col(i) = mi;
        acov.middleCols(dc * i, dc) = ci;
        aw(i) = b.GaussianMixture::weight(i);
        // const block overloads: same cells (address and extent)
        bad.chk(cmi.data() == mi.data() && cmi.size() == mi.size(), "mean(i)const");
        bad.chk(cci.data() == ci.data() && cci.rows() == ci.rows() && cci.cols() == ci.cols() && cci.outerStride() == ci.outerStride(), "covariance(i)const");
        bad.chk(&cb.GaussianMixture::weight(i) == &b.GaussianMixture::weight(i), "weight(i)const");
        for (long j = 0; j < d; j++) {
            emean(j, i) = b.GaussianMixture::mean(i, j);
            bad.chk(&cb.GaussianMixture::mean(i, j) == &b.GaussianMixture::mean(i, j) && beq(cb.GaussianMixture::mean(i, j), emean(j, i)), "mean(i,j)const");
        }
        for (long j = 0; j < dc; j++) for (long kk = 0; kk < dc; kk++) {
            ecov(j, dc * i + kk) = b.GaussianMixture::covariance(i, j, kk);
            bad.chk(&cb.GaussianMixture::covariance(i, j, kk) == &b.GaussianMixture::covariance(i, j, kk)
                    && beq(cb.GaussianMixture::covariance(i, j, kk), ecov(j, dc * i + kk)), "covariance(i,j,k)const");
        }
    }
    vf::out_mat(P(k, "amean"), amean);
    vf::out_mat(P(k, "acov"), acov);
    vf::out_mat(P(k, "aw"), aw);
    vf::out_mat(P(k, "emean"), emean);
    vf::out_mat(P(k, "ecov"), ecov);
    bad.out(k, "acc_bad");
    return true;
}

// Gaussian::mean() / mean(i) / covariance() / covariance(i,j) / weight(), non-const and const
static void dump_gauss_acc(int k, XG& g) {
    vf::Entry e("Gaussian::accessors");
    Gaussian& b = g;
    const Gaussian& cb = g;
    const long d = std::min<long>(b.dim, g.M().rows()), dc = std::min<long>(b.dim_covariance, g.C().rows());
    MatrixXd m = b.mean();
    MatrixXd cv = b.covariance();
    vf::out_mat(P(k, "gmean"), m);
    vf::out_mat(P(k, "gcov"), cv);
    vf::out_num(P(k, "gweight"), b.weight());
    MatrixXd gemean(d, 1), gecov(dc, std::min<long>(dc, g.C().cols()));
    Bad bad;
    {
        Ref<VectorXd> r = b.mean(); const Ref<const VectorXd> cr = cb.mean();
        bad.chk(cr.data() == r.data() && cr.size() == r.size(), "Gaussian::mean()const");
        Ref<MatrixXd> c = b.covariance(); const Ref<const MatrixXd> cc = cb.covariance();
        bad.chk(cc.data() == c.data() && cc.rows() == c.rows() && cc.cols() == c.cols(), "Gaussian::covariance()const");
        bad.chk(&cb.weight() == &b.weight(), "Gaussian::weight()const");
    }
    for (long i = 0; i < d; i++) {
        gemean(i, 0) = b.mean(i);
        bad.chk(&cb.mean(i) == &b.mean(i) && beq(cb.mean(i), gemean(i, 0)), "Gaussian::mean(i)const");
    }
    for (long i = 0; i < gecov.rows(); i++) for (long j = 0; j < gecov.cols(); j++) {
        gecov(i, j) = b.covariance(i, j);
        bad.chk(&cb.covariance(i, j) == &b.covariance(i, j) && beq(cb.covariance(i, j), gecov(i, j)), "Gaussian::covariance(i,j)const");
    }
    vf::out_mat(P(k, "gemean"), gemean);
    vf::out_mat(P(k, "gecov"), gecov);
    bad.out(k, "gacc_bad");
}

static bool dump_ps(int k, XPS& p, int ret) {
    dump_fields(k, p, ret);
    vf::out_mat(P(k, "state"), p.St());
    if (!dump_acc(k, p)) return false;
    const long n = p.components, d = p.dim;
    bool ok = n <= p.St().cols() && d <= p.St().rows();
    vf::out_int(P(k, "state_oob"), ok ? 0 : 1);
    if (!ok) return false;
    vf::Entry e("ParticleSet::accessors");
    ParticleSet& b = p;
    const ParticleSet& cb = p;
    MatrixXd astate(p.St().rows(), n), estate(d, n);
    Bad bad;
    {
        Ref<MatrixXd> s = b.state(); const Ref<const MatrixXd> cs = cb.state();
        bad.chk(s.data() == p.St().data() && s.rows() == p.St().rows() && s.cols() == p.St().cols(), "state()");
        bad.chk(cs.data() == p.St().data() && cs.rows() == p.St().rows() && cs.cols() == p.St().cols(), "state()const");
    }
    for (long i = 0; i < n; i++) {
        Ref<MatrixXd> si = b.state(i);
        const Ref<const MatrixXd> csi = cb.state(i);
        astate.col(i) = si;
        bad.chk(csi.data() == si.data() && csi.rows() == si.rows() && csi.cols() == si.cols(), "state(i)const");
        for (long j = 0; j < d; j++) {
            estate(j, i) = b.state(i, j);
            bad.chk(&cb.state(i, j) == &b.state(i, j) && beq(cb.state(i, j), estate(j, i)), "state(i,j)const");
        }
    }
    vf::out_mat(P(k, "astate"), astate);
    vf::out_mat(P(k, "estate"), estate);
    bad.out(k, "sacc_bad");
    return true;
}

static long fill_ps(XPS& p, long b) {
    b = fill_gm(p, b);
    Ref<MatrixXd> s = p.state();
    for (long j = 0; j < s.cols(); j++) for (long i = 0; i < s.rows(); i++) s(i, j) = double(b + j * s.rows() + i);
    return b;
}

// an operation outside the model's premises: returns false if this build cannot detect the failure
// (the sequence then stops with "skipped k"); otherwise announces it and lets the caller execute it
static bool enter_outside(int k, const std::string& tok, bool need_asan) {
    const bool can = need_asan ? kAsan : kEigenAssert;
    if (!can) { vf::out_int("skipped", k); return false; }
    std::fprintf(stderr, "BFL_VERIF_EXPECT outside step=%d op=%s\n", k, tok.c_str());
    std::fflush(stderr);
    std::cout.flush();
    return true;
}

// square augmentation of an object without components: unsigned `components - 1`
static bool augment_outside(const GaussianMixture& g, const MatrixXd& q) { return q.rows() == q.cols() && g.components == 0; }
// ... which does not even assert when every block is empty: the loop just runs 2^64 times
static bool augment_hangs(const GaussianMixture& g, const MatrixXd& q) { return augment_outside(g, q) && g.dim_covariance + q.rows() == 0; }
// g.augmentWithNoise(g.covariance()): dangling Ref as soon as covariance_ is reallocated
static bool self_augment_dangling(XGM& g) { return g.C().rows() == g.C().cols() && g.C().rows() > 0; }
static bool self_augment_dangling(XG& g) { return g.C().rows() == g.C().cols() && g.C().rows() > 0; }
static bool self_augment_dangling(XPS& g) { return g.C().rows() == g.C().cols() && g.C().rows() > 0; }

static void do_resize(XG& g, const std::vector<long>& v, bool dflt) {
    vf::Entry e("Gaussian::resize");
    if (dflt) g.resize(v.at(0)); else g.resize(v.at(0), v.at(1));
}
static void do_resize(XGM& g, const std::vector<long>& v, bool dflt) {
    vf::Entry e("GaussianMixture::resize");
    if (dflt) g.resize(v.at(0), v.at(1)); else g.resize(v.at(0), v.at(1), v.at(2));
}
static void do_base_resize(XG& g, const std::vector<long>& v) {
    vf::Entry e("GaussianMixture::resize(via GaussianMixture&)");
    GaussianMixture& b = g;
    b.resize(v.at(0), v.at(1), v.at(2));
}
static void do_base_resize(XGM&, const std::vector<long>&) { std::fprintf(stderr, "BFL_VERIF_HARNESS B on a mixture\n"); std::exit(3); }

template <class X>
static void run_gm(const vf::Case& c, std::unique_ptr<X> g, void (*extra)(int, X&)) {
    const auto& ops = c.word("ops");
    dump_fields(0, *g, 1);
    bool go = dump_acc(0, *g);
    if (go && extra) extra(0, *g);
    for (size_t k0 = 0; go && k0 < ops.size(); k0++) {
        const std::string& tok = ops[k0];
        const int k = int(k0) + 1;
        const std::string rest = tok.substr(1);
        int ret = 1;
        bool outside = false;
        switch (tok[0]) {
        case 'F': { vf::Entry e("fill"); fill_gm(*g, std::stol(rest)); break; }
        case 'C': { vf::Entry e("copy-constructor"); std::unique_ptr<X> n(new X(*g)); g = std::move(n); break; }
        case 'M': { vf::Entry e("move-constructor"); std::unique_ptr<X> n(new X(std::move(*g))); g = std::move(n); break; }
        case 'S': { vf::Entry e("copy-assignment"); std::unique_ptr<X> n(new X()); *n = *g; g = std::move(n); break; }
        case 'R': do_resize(*g, ints(rest), false); break;
        case 'r': do_resize(*g, ints(rest), true); break;
        case 'B': do_base_resize(*g, ints(rest)); break;
        case 'A': {
            MatrixXd q = getq(c, rest);
            outside = augment_outside(*g, q);
            if (augment_hangs(*g, q)) { vf::out_int("skipped", k); return; }
            if (outside && !enter_outside(k, tok, false)) return;
            vf::Entry e("GaussianMixture::augmentWithNoise");
            ret = g->augmentWithNoise(q) ? 1 : 0;
            break;
        }
        case 'W': {
            GaussianMixture& b = *g;
            outside = self_augment_dangling(*g) || augment_outside(*g, g->C());
            if (augment_hangs(*g, g->C())) { vf::out_int("skipped", k); return; }
            if (outside && !enter_outside(k, tok, !augment_outside(*g, g->C()))) return;
            vf::Entry e("GaussianMixture::augmentWithNoise");
            ret = g->augmentWithNoise(b.GaussianMixture::covariance()) ? 1 : 0;
            break;
        }
        default: std::fprintf(stderr, "BFL_VERIF_HARNESS bad op %s\n", tok.c_str()); std::exit(3);
        }
        if (outside) vf::out_int(P(k, "survived"), 1);
        dump_fields(k, *g, ret);
        go = dump_acc(k, *g);
        if (go && extra) extra(k, *g);
        if (!go) vf::out_int("stopped", k);
    }
}

static void gauss_extra(int k, XG& g) { dump_gauss_acc(k, g); }

static bool concat_mismatch(XPS& p, XPS& rhs) {
    return rhs.St().rows() != p.St().rows() || rhs.M().rows() != p.M().rows() || rhs.C().rows() != p.C().rows()
           || rhs.C().cols() != long(p.dim_covariance * rhs.components) || rhs.M().cols() != long(rhs.components)
           || rhs.St().cols() != long(rhs.components) || rhs.W().size() != long(rhs.components);
}

static void run_ps(const vf::Case& c, std::unique_ptr<XPS> p) {
    const auto& ops = c.word("ops");
    bool go = dump_ps(0, *p, 1);
    for (size_t k0 = 0; go && k0 < ops.size(); k0++) {
        const std::string& tok = ops[k0];
        const int k = int(k0) + 1;
        const std::string rest = tok.substr(1);
        int ret = 1;
        bool outside = false;
        switch (tok[0]) {
        case 'F': { vf::Entry e("fill"); fill_ps(*p, std::stol(rest)); break; }
        case 'C': { vf::Entry e("copy-constructor"); std::unique_ptr<XPS> n(new XPS(*p)); p = std::move(n); break; }
        case 'M': { vf::Entry e("move-constructor"); std::unique_ptr<XPS> n(new XPS(std::move(*p))); p = std::move(n); break; }
        case 'S': { vf::Entry e("copy-assignment"); std::unique_ptr<XPS> n(new XPS()); *n = *p; p = std::move(n); break; }
        case 'R': { auto v = ints(rest); vf::Entry e("ParticleSet::resize"); p->resize(v.at(0), v.at(1), v.at(2)); break; }
        case 'r': { auto v = ints(rest); vf::Entry e("ParticleSet::resize"); p->resize(v.at(0), v.at(1)); break; }
        case 'A': {
            MatrixXd q = getq(c, rest);
            outside = augment_outside(*p, q);
            if (augment_hangs(*p, q)) { vf::out_int("skipped", k); return; }
            if (outside && !enter_outside(k, tok, false)) return;
            vf::Entry e("GaussianMixture::augmentWithNoise");
            GaussianMixture& b = *p;                 // virtual: the ParticleSet override must run
            ret = b.augmentWithNoise(q) ? 1 : 0;
            break;
        }
        case 'W': {
            outside = self_augment_dangling(*p) || augment_outside(*p, p->C());
            if (augment_hangs(*p, p->C())) { vf::out_int("skipped", k); return; }
            if (outside && !enter_outside(k, tok, !augment_outside(*p, p->C()))) return;
            vf::Entry e("GaussianMixture::augmentWithNoise");
            ret = p->augmentWithNoise(p->covariance()) ? 1 : 0;
            break;
        }
        case 'P': case 'Q': {
            auto v = ints(rest);
            XPS rhs(v.at(0), v.at(1), v.at(2), v.at(3) != 0);
            fill_ps(rhs, v.at(4));
            outside = concat_mismatch(*p, rhs);
            if (outside && !enter_outside(k, tok, false)) return;
            if (tok[0] == 'P') { vf::Entry e("ParticleSet::operator+="); ParticleSet& r = (*p += rhs); if (&r != p.get()) ret = -1; }
            else { vf::Entry e("operator+(ParticleSet,ParticleSet)"); std::unique_ptr<XPS> n(new XPS(*p + rhs)); p = std::move(n); }
            break;
        }
        case 'D': { XPS rhs(*p); vf::Entry e("ParticleSet::operator+="); *p += rhs; break; }
        case 'E': { vf::Entry e("operator+(ParticleSet,ParticleSet)"); std::unique_ptr<XPS> n(new XPS(*p + *p)); p = std::move(n); break; }
        case 'Z': {                                   // p += p: the operand is the object itself
            outside = p->components > 0;
            if (outside && !enter_outside(k, tok, false)) return;
            vf::Entry e("ParticleSet::operator+=");
            *p += *p;
            break;
        }
        default: std::fprintf(stderr, "BFL_VERIF_HARNESS bad op %s\n", tok.c_str()); std::exit(3);
        }
        if (outside) vf::out_int(P(k, "survived"), 1);
        go = dump_ps(k, *p, ret);
        if (!go) vf::out_int("stopped", k);
    }
}

int main() {
    vf::Case c;
    while (vf::read_case(std::cin, c)) {
        const long cc = c.mi("c"), l = c.mi("l"), ci = c.mi("ci");
        const bool q = c.mi("q") != 0;
        // full: (c, l, ci, q); noq: (c, l, ci) with the default use_quaternion; two: (c, dim) / Gaussian(l); default: ()
        const std::string ctor = c.m("ctor", "full");
        vf::out_begin(c.id);
        if (c.kind == "gm") {
            std::unique_ptr<XGM> g;
            { vf::Entry e("GaussianMixture::GaussianMixture");
              if (ctor == "default") g.reset(new XGM()); else if (ctor == "two") g.reset(new XGM(cc, l));
              else if (ctor == "noq") g.reset(new XGM(cc, l, ci)); else g.reset(new XGM(cc, l, ci, q)); }
            run_gm<XGM>(c, std::move(g), nullptr);
        } else if (c.kind == "gauss") {
            std::unique_ptr<XG> g;
            { vf::Entry e("Gaussian::Gaussian");
              if (ctor == "default") g.reset(new XG()); else if (ctor == "two") g.reset(new XG(l));
              else if (ctor == "noq") g.reset(new XG(l, ci)); else g.reset(new XG(l, ci, q)); }
            run_gm<XG>(c, std::move(g), gauss_extra);
        } else if (c.kind == "pset") {
            std::unique_ptr<XPS> p;
            { vf::Entry e("ParticleSet::ParticleSet");
              if (ctor == "default") p.reset(new XPS()); else if (ctor == "two") p.reset(new XPS(cc, l));
              else if (ctor == "noq") p.reset(new XPS(cc, l, ci)); else p.reset(new XPS(cc, l, ci, q)); }
            run_ps(c, std::move(p));
        } else {
            std::fprintf(stderr, "BFL_VERIF_HARNESS unknown kind %s\n", c.kind.c_str());
            return 3;
        }
        vf::out_end();
    }
    return 0;
}
