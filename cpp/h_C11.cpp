// h_C11.cpp — harness for C11: operation sequences on a pool of real
// GaussianMixture / Gaussian / ParticleSet objects.  Case: kind gm | gauss | pset,
// meta c l ci q ctor (constructor arguments and overload of slot 0), word pool
// (layouts c,l,ci,q of the further slots), word ops (tokens, see props/C11.py),
// mat <name> (+ int <name>.r, <name>.c) for every noise covariance.  Upper-case
// tokens act on the object in focus; lower-case tokens are the special member
// functions between slots / from temporaries (called through references to the
// library class, as user code does) and move the focus to their target.  After the
// constructor (step 0) and after every operation, for the object in focus
// ("<k>.slot"): every public descriptor, every
// storage matrix with its real dimensions (subclass exposing the protected
// members) and the views taken through EVERY public accessor overload (block and
// element, const and non-const, whole-matrix), plus the overloads that rely on
// default arguments (constructors without use_quaternion, resize without
// dim_circular).
//
// Operations outside the premises of the model ("outside": square augmentation
// of a 0-component object, += of a mismatched or aliased operand, augmentation
// with the object's own covariance()) are executed only in a build that turns the
// undefined behaviour into a detectable failure (Eigen assertions: exit 42;
// AddressSanitizer for the dangling Ref); otherwise the sequence stops with
// "skipped <k>".  If such an operation returns normally, "<k>.survived 1" is
// printed; the plug-in only counts it (outside the property, nothing to report).
#define VF_MAIN
#include "common.hpp"
#include <BayesFilters/Gaussian.h>
#include <BayesFilters/GaussianMixture.h>
#include <BayesFilters/ParticleSet.h>
#include <memory>

using namespace bfl;
using namespace Eigen;

#ifdef NDEBUG
static const bool kEigenAssert = false;
#else
static const bool kEigenAssert = true;
#endif
#if defined(__SANITIZE_ADDRESS__)
static const bool kAsan = true;
#else
static const bool kAsan = false;
#endif

struct XGM : public GaussianMixture {
    XGM(std::size_t c, std::size_t l, std::size_t ci, bool q) : GaussianMixture(c, l, ci, q) {}
    XGM(std::size_t c, std::size_t l, std::size_t ci) : GaussianMixture(c, l, ci) {}   // default use_quaternion
    XGM(std::size_t c, std::size_t d) : GaussianMixture(c, d) {}
    XGM() : GaussianMixture() {}
    XGM(const GaussianMixture& g) : GaussianMixture(g) {}
    XGM(GaussianMixture&& g) : GaussianMixture(std::move(g)) {}
    MatrixXd& M() { return mean_; }
    MatrixXd& C() { return covariance_; }
    VectorXd& W() { return weight_; }
};
struct XG : public Gaussian {
    XG(std::size_t l, std::size_t ci, bool q) : Gaussian(l, ci, q) {}
    XG(std::size_t l, std::size_t ci) : Gaussian(l, ci) {}                              // default use_quaternion
    explicit XG(std::size_t l) : Gaussian(l) {}
    XG() : Gaussian() {}
    XG(const Gaussian& g) : Gaussian(g) {}
    XG(Gaussian&& g) : Gaussian(std::move(g)) {}
    MatrixXd& M() { return mean_; }
    MatrixXd& C() { return covariance_; }
    VectorXd& W() { return weight_; }
};
struct XPS : public ParticleSet {
    XPS(std::size_t c, std::size_t l, std::size_t ci, bool q) : ParticleSet(c, l, ci, q) {}
    XPS(std::size_t c, std::size_t l, std::size_t ci) : ParticleSet(c, l, ci) {}        // default use_quaternion
    XPS(std::size_t c, std::size_t d) : ParticleSet(c, d) {}
    XPS() : ParticleSet() {}
    XPS(const ParticleSet& p) : ParticleSet(p) {}
    XPS(ParticleSet&& p) : ParticleSet(std::move(p)) {}
    MatrixXd& M() { return mean_; }
    MatrixXd& C() { return covariance_; }
    VectorXd& W() { return weight_; }
    MatrixXd& St() { return state_; }
};

static std::vector<long> ints(const std::string& s) {
    std::vector<long> v; std::stringstream ss(s); std::string t;
    while (std::getline(ss, t, ',')) v.push_back(std::stol(t));
    return v;
}
static std::string P(int k, const char* s) { return std::to_string(k) + "." + s; }

static MatrixXd getq(const vf::Case& c, const std::string& name) {
    long r = c.integer(name + ".r"), cl = c.integer(name + ".c");
    if (r == 0 || cl == 0) return MatrixXd::Zero(r, cl);
    return c.mat(name);
}

// bitwise equality of two doubles (uninitialised cells may hold NaN patterns)
static bool beq(double x, double y) { return std::memcmp(&x, &y, sizeof x) == 0; }

// fill through the public whole-matrix accessors of GaussianMixture
static long fill_gm(GaussianMixture& g, long b) {
    Ref<MatrixXd> m = g.GaussianMixture::mean();
    for (long j = 0; j < m.cols(); j++) for (long i = 0; i < m.rows(); i++) m(i, j) = double(b + j * m.rows() + i);
    b += m.rows() * m.cols();
    Ref<MatrixXd> cv = g.GaussianMixture::covariance();
    for (long j = 0; j < cv.cols(); j++) for (long i = 0; i < cv.rows(); i++) cv(i, j) = double(b + j * cv.rows() + i);
    b += cv.rows() * cv.cols();
    Ref<VectorXd> w = g.GaussianMixture::weight();
    for (long i = 0; i < w.size(); i++) w(i) = double(b + i);
    return b + w.size();
}

// ... through the NON-CONST ELEMENT accessors of every component: mean(i, j), covariance(i, j, k), weight(i)
static void fill_el_gm(GaussianMixture& g, long b) {
    const long n = g.components, d = g.dim, v = g.dim_covariance;
    for (long i = 0; i < n; i++) for (long j = 0; j < d; j++) g.GaussianMixture::mean(i, j) = double(b + i * d + j);
    b += d * n;
    for (long i = 0; i < n; i++) for (long k = 0; k < v; k++) for (long j = 0; j < v; j++)
        g.GaussianMixture::covariance(i, j, k) = double(b + (i * v + k) * v + j);
    b += v * v * n;
    for (long i = 0; i < n; i++) g.GaussianMixture::weight(i) = double(b + i);
}
// ... through the NON-CONST BLOCK accessors: mean(i) = column, covariance(i) = block (weight(i) has no block form)
static void fill_blk_gm(GaussianMixture& g, long b) {
    const long n = g.components, d = g.dim, v = g.dim_covariance;
    const long nm = d * n, nc = v * v * n;
    for (long i = 0; i < n; i++) {
        VectorXd col(d);
        for (long r = 0; r < d; r++) col(r) = double(b + i * d + r);
        g.GaussianMixture::mean(i) = col;
        MatrixXd blk(v, v);
        for (long k = 0; k < v; k++) for (long r = 0; r < v; r++) blk(r, k) = double(b + nm + (i * v + k) * v + r);
        g.GaussianMixture::covariance(i) = blk;
        g.GaussianMixture::weight(i) = double(b + nm + nc + i);
    }
}
// a one-component Gaussian: its own accessors mean(j), covariance(j, k), weight() / mean(), covariance()
static void fill_el_gauss(Gaussian& g, long b) {
    const long d = g.dim, v = g.dim_covariance;
    for (long j = 0; j < d; j++) g.mean(j) = double(b + j);
    for (long k = 0; k < v; k++) for (long j = 0; j < v; j++) g.covariance(j, k) = double(b + d + k * v + j);
    g.weight() = double(b + d + v * v);
}
static void fill_blk_gauss(Gaussian& g, long b) {
    const long d = g.dim, v = g.dim_covariance;
    VectorXd col(d);
    for (long r = 0; r < d; r++) col(r) = double(b + r);
    g.mean() = col;
    MatrixXd blk(v, v);
    for (long k = 0; k < v; k++) for (long r = 0; r < v; r++) blk(r, k) = double(b + d + k * v + r);
    g.covariance() = blk;
    g.weight() = double(b + d + v * v);
}

template <class X>
static void dump_fields(int k, X& g, int ret) {
    vf::out_int(P(k, "components"), g.components);
    vf::out_int(P(k, "quat"), g.use_quaternion ? 1 : 0);
    vf::out_int(P(k, "dcc"), g.dim_circular_component);
    vf::out_int(P(k, "dim"), g.dim);
    vf::out_int(P(k, "dl"), g.dim_linear);
    vf::out_int(P(k, "dc"), g.dim_circular);
    vf::out_int(P(k, "dn"), g.dim_noise);
    vf::out_int(P(k, "dcov"), g.dim_covariance);
    vf::out_int(P(k, "ret"), ret);
    vf::out_mat(P(k, "mean"), g.M());
    vf::out_mat(P(k, "cov"), g.C());
    vf::out_mat(P(k, "w"), g.W());
}

// names of accessor overloads that do not address the storage cell they should
struct Bad {
    std::vector<std::string> v;
    void chk(bool ok, const char* what) { if (!ok) { for (auto& s : v) if (s == what) return; v.push_back(what); } }
    void out(int k, const char* field) { if (v.empty()) v.push_back("-"); vf::out_word(P(k, field), v); }
};

// GaussianMixture accessors; returns false (and prints acc_oob 1) if an accessor would leave the storage
template <class X>
static bool dump_acc(int k, X& g) {
    GaussianMixture& b = g;
    const GaussianMixture& cb = g;
    const long n = b.components, d = b.dim, dc = b.dim_covariance;
    bool ok = n <= g.M().cols() && d <= g.M().rows() && n <= g.W().size() && dc <= g.C().rows() && dc * n <= g.C().cols();
    vf::out_int(P(k, "acc_oob"), ok ? 0 : 1);
    if (!ok) return false;
    vf::Entry e("GaussianMixture::accessors");
    MatrixXd amean(g.M().rows(), n), acov(g.C().rows(), dc * n), emean(d, n), ecov(dc, dc * n);
    VectorXd aw(n);
    Bad bad;
    // whole-matrix accessors, non-const and const
    {
        Ref<MatrixXd> m = b.GaussianMixture::mean(); const Ref<const MatrixXd> cm = cb.GaussianMixture::mean();
        bad.chk(m.data() == g.M().data() && m.rows() == g.M().rows() && m.cols() == g.M().cols() && m.outerStride() == g.M().rows(), "mean()");
        bad.chk(cm.data() == g.M().data() && cm.rows() == g.M().rows() && cm.cols() == g.M().cols(), "mean()const");
        Ref<MatrixXd> cv = b.GaussianMixture::covariance(); const Ref<const MatrixXd> ccv = cb.GaussianMixture::covariance();
        bad.chk(cv.data() == g.C().data() && cv.rows() == g.C().rows() && cv.cols() == g.C().cols(), "covariance()");
        bad.chk(ccv.data() == g.C().data() && ccv.rows() == g.C().rows() && ccv.cols() == g.C().cols(), "covariance()const");
        Ref<VectorXd> w = b.GaussianMixture::weight(); const Ref<const VectorXd> cw = cb.GaussianMixture::weight();
        bad.chk(w.data() == g.W().data() && w.size() == g.W().size(), "weight()");
        bad.chk(cw.data() == g.W().data() && cw.size() == g.W().size(), "weight()const");
    }
    for (long i = 0; i < n; i++) {
        Ref<VectorXd> mi = b.GaussianMixture::mean(i);
        const Ref<const VectorXd> cmi = cb.GaussianMixture::mean(i);
        Ref<MatrixXd> ci = b.GaussianMixture::covariance(i);
        const Ref<const MatrixXd> cci = cb.GaussianMixture::covariance(i);
        amean.col(i) = mi;
        acov.middleCols(dc * i, dc) = ci;
        aw(i) = b.GaussianMixture::weight(i);
        // const block overloads: same cells (address and extent)
        bad.chk(cmi.data() == mi.data() && cmi.size() == mi.size(), "mean(i)const");
        bad.chk(cci.data() == ci.data() && cci.rows() == ci.rows() && cci.cols() == ci.cols() && cci.outerStride() == ci.outerStride(), "covariance(i)const");
        bad.chk(&cb.GaussianMixture::weight(i) == &b.GaussianMixture::weight(i), "weight(i)const");
        for (long j = 0; j < d; j++) {
            emean(j, i) = b.GaussianMixture::mean(i, j);
            bad.chk(&cb.GaussianMixture::mean(i, j) == &b.GaussianMixture::mean(i, j) && beq(cb.GaussianMixture::mean(i, j), emean(j, i)), "mean(i,j)const");
        }
        for (long j = 0; j < dc; j++) for (long kk = 0; kk < dc; kk++) {
            ecov(j, dc * i + kk) = b.GaussianMixture::covariance(i, j, kk);
            bad.chk(&cb.GaussianMixture::covariance(i, j, kk) == &b.GaussianMixture::covariance(i, j, kk)
                    && beq(cb.GaussianMixture::covariance(i, j, kk), ecov(j, dc * i + kk)), "covariance(i,j,k)const");
        }
    }
    vf::out_mat(P(k, "amean"), amean);
    vf::out_mat(P(k, "acov"), acov);
    vf::out_mat(P(k, "aw"), aw);
    vf::out_mat(P(k, "emean"), emean);
    vf::out_mat(P(k, "ecov"), ecov);
    bad.out(k, "acc_bad");
    // the parts the algorithms address through dim_noise: head / tail of the mean, corners of the covariance
    const long dn = b.dim_noise;
    const bool parts_ok = dn <= d && dn <= dc && g.M().rows() == d && g.C().rows() == dc;
    vf::out_int(P(k, "parts_oob"), parts_ok ? 0 : 1);
    if (parts_ok) {
        MatrixXd smean(d - dn, n), nmean(dn, n), scov(dc - dn, (dc - dn) * n), ncov(dn, dn * n);
        for (long i = 0; i < n; i++) {
            smean.col(i) = cb.GaussianMixture::mean(i).head(d - dn);
            nmean.col(i) = b.GaussianMixture::mean(i).tail(dn);
            scov.middleCols((dc - dn) * i, dc - dn) = cb.GaussianMixture::covariance(i).topLeftCorner(dc - dn, dc - dn);
            ncov.middleCols(dn * i, dn) = b.GaussianMixture::covariance(i).bottomRightCorner(dn, dn);
        }
        vf::out_mat(P(k, "smean"), smean);
        vf::out_mat(P(k, "nmean"), nmean);
        vf::out_mat(P(k, "scov"), scov);
        vf::out_mat(P(k, "ncov"), ncov);
    }
    return true;
}

// Gaussian::mean() / mean(i) / covariance() / covariance(i,j) / weight(), non-const and const
static void dump_gauss_acc(int k, XG& g) {
    vf::Entry e("Gaussian::accessors");
    Gaussian& b = g;
    const Gaussian& cb = g;
    const long d = std::min<long>(b.dim, g.M().rows()), dc = std::min<long>(b.dim_covariance, g.C().rows());
    MatrixXd m = b.mean();
    MatrixXd cv = b.covariance();
    vf::out_mat(P(k, "gmean"), m);
    vf::out_mat(P(k, "gcov"), cv);
    vf::out_num(P(k, "gweight"), b.weight());
    MatrixXd gemean(d, 1), gecov(dc, std::min<long>(dc, g.C().cols()));
    Bad bad;
    {
        Ref<VectorXd> r = b.mean(); const Ref<const VectorXd> cr = cb.mean();
        bad.chk(cr.data() == r.data() && cr.size() == r.size(), "Gaussian::mean()const");
        Ref<MatrixXd> c = b.covariance(); const Ref<const MatrixXd> cc = cb.covariance();
        bad.chk(cc.data() == c.data() && cc.rows() == c.rows() && cc.cols() == c.cols(), "Gaussian::covariance()const");
        bad.chk(&cb.weight() == &b.weight(), "Gaussian::weight()const");
    }
    for (long i = 0; i < d; i++) {
        gemean(i, 0) = b.mean(i);
        bad.chk(&cb.mean(i) == &b.mean(i) && beq(cb.mean(i), gemean(i, 0)), "Gaussian::mean(i)const");
    }
    for (long i = 0; i < gecov.rows(); i++) for (long j = 0; j < gecov.cols(); j++) {
        gecov(i, j) = b.covariance(i, j);
        bad.chk(&cb.covariance(i, j) == &b.covariance(i, j) && beq(cb.covariance(i, j), gecov(i, j)), "Gaussian::covariance(i,j)const");
    }
    vf::out_mat(P(k, "gemean"), gemean);
    vf::out_mat(P(k, "gecov"), gecov);
    bad.out(k, "gacc_bad");
}

static bool dump_ps(int k, XPS& p, int ret) {
    dump_fields(k, p, ret);
    vf::out_mat(P(k, "state"), p.St());
    if (!dump_acc(k, p)) return false;
    const long n = p.components, d = p.dim;
    bool ok = n <= p.St().cols() && d <= p.St().rows();
    vf::out_int(P(k, "state_oob"), ok ? 0 : 1);
    if (!ok) return false;
    vf::Entry e("ParticleSet::accessors");
    ParticleSet& b = p;
    const ParticleSet& cb = p;
    MatrixXd astate(p.St().rows(), n), estate(d, n);
    Bad bad;
    {
        Ref<MatrixXd> s = b.state(); const Ref<const MatrixXd> cs = cb.state();
        bad.chk(s.data() == p.St().data() && s.rows() == p.St().rows() && s.cols() == p.St().cols(), "state()");
        bad.chk(cs.data() == p.St().data() && cs.rows() == p.St().rows() && cs.cols() == p.St().cols(), "state()const");
    }
    for (long i = 0; i < n; i++) {
        Ref<MatrixXd> si = b.state(i);
        const Ref<const MatrixXd> csi = cb.state(i);
        astate.col(i) = si;
        bad.chk(csi.data() == si.data() && csi.rows() == si.rows() && csi.cols() == si.cols(), "state(i)const");
        for (long j = 0; j < d; j++) {
            estate(j, i) = b.state(i, j);
            bad.chk(&cb.state(i, j) == &b.state(i, j) && beq(cb.state(i, j), estate(j, i)), "state(i,j)const");
        }
    }
    vf::out_mat(P(k, "astate"), astate);
    vf::out_mat(P(k, "estate"), estate);
    bad.out(k, "sacc_bad");
    const long dn = p.dim_noise;
    if (dn <= d && p.St().rows() == d) {
        MatrixXd sstate(d - dn, n), nstate(dn, n);
        for (long i = 0; i < n; i++) {
            sstate.col(i) = cb.state(i).col(0).head(d - dn);
            nstate.col(i) = b.state(i).col(0).tail(dn);
        }
        vf::out_mat(P(k, "sstate"), sstate);
        vf::out_mat(P(k, "nstate"), nstate);
    }
    return true;
}

static long fill_ps(ParticleSet& p, long b) {
    b = fill_gm(p, b);
    Ref<MatrixXd> s = p.state();
    for (long j = 0; j < s.cols(); j++) for (long i = 0; i < s.rows(); i++) s(i, j) = double(b + j * s.rows() + i);
    return b;
}

static void fill_el_ps(ParticleSet& p, long b) {
    fill_el_gm(p, b);
    const long n = p.components, d = p.dim, v = p.dim_covariance;
    b += d * n + v * v * n + n;
    for (long i = 0; i < n; i++) for (long j = 0; j < d; j++) p.state(i, j) = double(b + i * d + j);
}
static void fill_blk_ps(ParticleSet& p, long b) {
    fill_blk_gm(p, b);
    const long n = p.components, d = p.dim, v = p.dim_covariance;
    b += d * n + v * v * n + n;
    for (long i = 0; i < n; i++) {
        VectorXd col(d);
        for (long r = 0; r < d; r++) col(r) = double(b + i * d + r);
        p.state(i) = col;
    }
}
static void do_fill_el(XGM& g, long b) { fill_el_gm(g, b); }
static void do_fill_blk(XGM& g, long b) { fill_blk_gm(g, b); }
static void do_fill_el(XG& g, long b) { if (g.components == 1) fill_el_gauss(g, b); else fill_el_gm(g, b); }
static void do_fill_blk(XG& g, long b) { if (g.components == 1) fill_blk_gauss(g, b); else fill_blk_gm(g, b); }

// an operation outside the model's premises: returns false if this build cannot detect the failure
// (the sequence then stops with "skipped k"); otherwise announces it and lets the caller execute it
static bool enter_outside(int k, const std::string& tok, bool need_asan) {
    const bool can = need_asan ? kAsan : kEigenAssert;
    if (!can) { vf::out_int("skipped", k); return false; }
    std::fprintf(stderr, "BFL_VERIF_EXPECT outside step=%d op=%s\n", k, tok.c_str());
    std::fflush(stderr);
    std::cout.flush();
    return true;
}

// square augmentation of an object without components: unsigned `components - 1`
static bool augment_outside(const GaussianMixture& g, const MatrixXd& q) { return q.rows() == q.cols() && g.components == 0; }
// ... which does not even assert when every block is empty: the loop just runs 2^64 times
static bool augment_hangs(const GaussianMixture& g, const MatrixXd& q) { return augment_outside(g, q) && g.dim_covariance + q.rows() == 0; }
// g.augmentWithNoise(g.covariance()): dangling Ref as soon as covariance_ is reallocated
static bool self_augment_dangling(XGM& g) { return g.C().rows() == g.C().cols() && g.C().rows() > 0; }
static bool self_augment_dangling(XG& g) { return g.C().rows() == g.C().cols() && g.C().rows() > 0; }
static bool self_augment_dangling(XPS& g) { return g.C().rows() == g.C().cols() && g.C().rows() > 0; }

static void do_resize(XG& g, const std::vector<long>& v, bool dflt) {
    vf::Entry e("Gaussian::resize");
    if (dflt) g.resize(v.at(0)); else g.resize(v.at(0), v.at(1));
}
static void do_resize(XGM& g, const std::vector<long>& v, bool dflt) {
    vf::Entry e("GaussianMixture::resize");
    if (dflt) g.resize(v.at(0), v.at(1)); else g.resize(v.at(0), v.at(1), v.at(2));
}
static void do_base_resize(XG& g, const std::vector<long>& v) {
    vf::Entry e("GaussianMixture::resize(via GaussianMixture&)");
    GaussianMixture& b = g;
    b.resize(v.at(0), v.at(1), v.at(2));
}
static void do_base_resize(XGM&, const std::vector<long>&) { std::fprintf(stderr, "BFL_VERIF_HARNESS B on a mixture\n"); std::exit(3); }

// ---------------------------------------------------------------- the pool of objects
template <class X> struct BaseOf;
template <> struct BaseOf<XGM> { typedef GaussianMixture type; };
template <> struct BaseOf<XG> { typedef Gaussian type; };
template <> struct BaseOf<XPS> { typedef ParticleSet type; };

template <class X> struct Pool {
    std::vector<std::unique_ptr<X>> s;
    long cur = 0;
    X& at(long i) {
        if (i < 0 || size_t(i) >= s.size() || !s[i]) { std::fprintf(stderr, "BFL_VERIF_HARNESS bad slot %ld\n", i); std::exit(3); }
        return *s[i];
    }
    void put(long i, std::unique_ptr<X> n) { at(i); s[i] = std::move(n); }
    X& focus() { return at(cur); }
};

static XGM* construct(XGM*, long c, long l, long ci, bool q) { return new XGM(c, l, ci, q); }
static XG* construct(XG*, long, long l, long ci, bool q) { return new XG(l, ci, q); }
static XPS* construct(XPS*, long c, long l, long ci, bool q) { return new XPS(c, l, ci, q); }

// temporaries: a constructor call, and functions that return an object by value
static GaussianMixture make_temp(GaussianMixture*, long c, long l, long ci, bool q) { return GaussianMixture(c, l, ci, q); }
static Gaussian make_temp(Gaussian*, long, long l, long ci, bool q) { return Gaussian(l, ci, q); }
static ParticleSet make_temp(ParticleSet*, long c, long l, long ci, bool q) { return ParticleSet(c, l, ci, q); }
static GaussianMixture make_filled(GaussianMixture*, long c, long l, long ci, bool q, long b) { GaussianMixture g(c, l, ci, q); fill_gm(g, b); return g; }
static Gaussian make_filled(Gaussian*, long, long l, long ci, bool q, long b) { Gaussian g(l, ci, q); fill_gm(g, b); return g; }
static ParticleSet make_filled(ParticleSet*, long c, long l, long ci, bool q, long b) { ParticleSet p(c, l, ci, q); fill_ps(p, b); return p; }
// what UKF-like code does: take a belief, modify a copy of it, hand it back by value
template <class B> static B augmented(const B& s, const MatrixXd& q) { B tmp(s); tmp.augmentWithNoise(q); return tmp; }
static GaussianMixture resized(const GaussianMixture& s, long c, long l, long ci) { GaussianMixture tmp(s); tmp.resize(c, l, ci); return tmp; }
static Gaussian resized(const Gaussian& s, long, long l, long ci) { Gaussian tmp(s); tmp.resize(l, ci); return tmp; }
static ParticleSet resized(const ParticleSet& s, long c, long l, long ci) { ParticleSet tmp(s); tmp.resize(c, l, ci); return tmp; }

static std::vector<std::string> fields(const std::string& s) {
    std::vector<std::string> v; std::stringstream ss(s); std::string t;
    while (std::getline(ss, t, ',')) v.push_back(t);
    return v;
}

// The special member functions between the objects of the pool and from temporaries, for all three classes.
// Returns 0 if the token is not one of them, 1 if it was executed (focus = its target), -1 if the sequence stops.
template <class X>
static int pool_op(const vf::Case& c, const std::string& tok, int k, Pool<X>& pl, int& ret) {
    typedef typename BaseOf<X>::type B;
    B* const tag = nullptr;
    const std::string rest = tok.substr(1);
    switch (tok[0]) {
    case '@': { auto v = ints(rest); pl.at(v.at(0)); pl.cur = v[0]; return 1; }
    case 'c': {                                                       // X n(s), replacing t
        auto v = ints(rest);
        std::unique_ptr<X> n;
        { vf::Entry e("copy-constructor"); n.reset(new X(pl.at(v.at(1)))); }
        pl.put(v.at(0), std::move(n)); pl.cur = v[0]; return 1;
    }
    case 'm': {                                                       // X n(std::move(s)), replacing t
        auto v = ints(rest);
        std::unique_ptr<X> n;
        { vf::Entry e("move-constructor"); n.reset(new X(std::move(pl.at(v.at(1))))); }
        pl.put(v.at(0), std::move(n)); pl.cur = v[0]; return 1;
    }
    case 's': {                                                       // t = s (t == s: self-assignment)
        auto v = ints(rest);
        B& T = pl.at(v.at(0)); const B& Sx = pl.at(v.at(1));
        vf::Entry e("copy-assignment");
        B& r = (T = Sx); ret = (&r == &T) ? 1 : -1;
        pl.cur = v[0]; return 1;
    }
    case 'v': {                                                       // t = std::move(s)
        auto v = ints(rest);
        B& T = pl.at(v.at(0)); B& Sx = pl.at(v.at(1));
        vf::Entry e("move-assignment");
        B& r = (T = std::move(Sx)); ret = (&r == &T) ? 1 : -1;
        pl.cur = v[0]; return 1;
    }
    case 't': {                                                       // t = X(...) / t = f() returning a filled object
        auto v = ints(rest);
        B& T = pl.at(v.at(0));
        vf::Entry e("assignment-from-temporary");
        B& r = v.at(5) < 0 ? (T = make_temp(tag, v.at(1), v.at(2), v.at(3), v.at(4) != 0))
                           : (T = make_filled(tag, v.at(1), v.at(2), v.at(3), v.at(4) != 0, v.at(5)));
        ret = (&r == &T) ? 1 : -1;
        pl.cur = v[0]; return 1;
    }
    case 'n': {                                                       // X n(f()), replacing t
        auto v = ints(rest);
        std::unique_ptr<X> n;
        { vf::Entry e("construction-from-temporary");
          if (v.at(5) < 0) n.reset(new X(make_temp(tag, v.at(1), v.at(2), v.at(3), v.at(4) != 0)));
          else n.reset(new X(make_filled(tag, v.at(1), v.at(2), v.at(3), v.at(4) != 0, v.at(5)))); }
        pl.put(v.at(0), std::move(n)); pl.cur = v[0]; return 1;
    }
    case 'f': case 'a': {                                             // t = augmented(s, Q) / named augmented copy, t = copy
        auto f = fields(rest);
        const long t = std::stol(f.at(0)), sidx = std::stol(f.at(1));
        MatrixXd q = getq(c, f.at(2));
        B& T = pl.at(t); const B& Sx = pl.at(sidx);
        if (augment_outside(Sx, q)) { vf::out_int("skipped", k); return -1; }
        if (tok[0] == 'f') { vf::Entry e("assignment-from-function-result"); B& r = (T = augmented<B>(Sx, q)); ret = (&r == &T) ? 1 : -1; }
        else { B tmp(Sx); tmp.augmentWithNoise(q); vf::Entry e("copy-assignment"); B& r = (T = tmp); ret = (&r == &T) ? 1 : -1; }
        pl.cur = t; return 1;
    }
    case 'g': case 'b': {                                             // t = resized(s, ...) / named resized copy, t = copy
        auto v = ints(rest);
        B& T = pl.at(v.at(0)); const B& Sx = pl.at(v.at(1));
        if (tok[0] == 'g') { vf::Entry e("assignment-from-function-result"); B& r = (T = resized(Sx, v.at(2), v.at(3), v.at(4))); ret = (&r == &T) ? 1 : -1; }
        else { B tmp(resized(Sx, v.at(2), v.at(3), v.at(4))); vf::Entry e("copy-assignment"); B& r = (T = tmp); ret = (&r == &T) ? 1 : -1; }
        pl.cur = v[0]; return 1;
    }
    default: return 0;
    }
}

// a mixture assigned from objects of the derived classes (the GaussianMixture part is copied / moved)
static int cross_op(const std::string& tok, Pool<XGM>& pl, int& ret) {
    const std::string rest = tok.substr(1);
    if (tok[0] == 'x') {                                              // t = Gaussian(l, ci, q) / t = named Gaussian
        auto v = ints(rest);
        GaussianMixture& T = pl.at(v.at(0));
        if (v.at(4) != 0) { Gaussian g(v.at(1), v.at(2), v.at(3) != 0); vf::Entry e("copy-assignment(GaussianMixture = Gaussian)");
                            GaussianMixture& r = (T = g); ret = (&r == &T) ? 1 : -1; }
        else { vf::Entry e("assignment-from-temporary(GaussianMixture = Gaussian)");
               GaussianMixture& r = (T = Gaussian(v.at(1), v.at(2), v.at(3) != 0)); ret = (&r == &T) ? 1 : -1; }
        pl.cur = v[0]; return 1;
    }
    if (tok[0] == 'y') {                                              // t = f() returning a filled ParticleSet
        auto v = ints(rest);
        GaussianMixture& T = pl.at(v.at(0));
        vf::Entry e("assignment-from-temporary(GaussianMixture = ParticleSet)");
        GaussianMixture& r = (T = make_filled((ParticleSet*)nullptr, v.at(1), v.at(2), v.at(3), v.at(4) != 0, v.at(5)));
        ret = (&r == &T) ? 1 : -1;
        pl.cur = v[0]; return 1;
    }
    return 0;
}
static int cross_op(const std::string&, Pool<XG>&, int&) { return 0; }

template <class X>
static void make_pool(const vf::Case& c, Pool<X>& pl, std::unique_ptr<X> first) {
    pl.s.push_back(std::move(first));
    for (const std::string& lay : c.word("pool")) {
        auto v = ints(lay);
        vf::Entry e("constructor");
        pl.s.push_back(std::unique_ptr<X>(construct((X*)nullptr, v.at(0), v.at(1), v.at(2), v.at(3) != 0)));
    }
}

template <class X>
static void run_gm(const vf::Case& c, std::unique_ptr<X> g0, void (*extra)(int, X&)) {
    const auto& ops = c.word("ops");
    Pool<X> pl;
    make_pool(c, pl, std::move(g0));
    dump_fields(0, pl.focus(), 1);
    vf::out_int(P(0, "slot"), 0);
    bool go = dump_acc(0, pl.focus());
    if (go && extra) extra(0, pl.focus());
    for (size_t k0 = 0; go && k0 < ops.size(); k0++) {
        const std::string& tok = ops[k0];
        const int k = int(k0) + 1;
        const std::string rest = tok.substr(1);
        int ret = 1;
        bool outside = false;
        int done = pool_op(c, tok, k, pl, ret);
        if (done == 0) done = cross_op(tok, pl, ret);
        if (done < 0) return;
        std::unique_ptr<X>& g = pl.s[pl.cur];
        if (done == 0) switch (tok[0]) {
        case 'F': { vf::Entry e("fill"); fill_gm(*g, std::stol(rest)); break; }
        case 'G': { vf::Entry e("fill-through-element-accessors"); do_fill_el(*g, std::stol(rest)); break; }
        case 'H': { vf::Entry e("fill-through-block-accessors"); do_fill_blk(*g, std::stol(rest)); break; }
        case 'C': { vf::Entry e("copy-constructor"); std::unique_ptr<X> n(new X(*g)); g = std::move(n); break; }
        case 'M': { vf::Entry e("move-constructor"); std::unique_ptr<X> n(new X(std::move(*g))); g = std::move(n); break; }
        case 'S': { vf::Entry e("copy-assignment"); std::unique_ptr<X> n(new X()); *n = *g; g = std::move(n); break; }
        case 'R': do_resize(*g, ints(rest), false); break;
        case 'r': do_resize(*g, ints(rest), true); break;
        case 'B': do_base_resize(*g, ints(rest)); break;
        case 'A': {
            MatrixXd q = getq(c, rest);
            outside = augment_outside(*g, q);
            if (augment_hangs(*g, q)) { vf::out_int("skipped", k); return; }
            if (outside && !enter_outside(k, tok, false)) return;
            vf::Entry e("GaussianMixture::augmentWithNoise");
            ret = g->augmentWithNoise(q) ? 1 : 0;
            break;
        }
        case 'W': {
            GaussianMixture& b = *g;
            outside = self_augment_dangling(*g) || augment_outside(*g, g->C());
            if (augment_hangs(*g, g->C())) { vf::out_int("skipped", k); return; }
            if (outside && !enter_outside(k, tok, !augment_outside(*g, g->C()))) return;
            vf::Entry e("GaussianMixture::augmentWithNoise");
            ret = g->augmentWithNoise(b.GaussianMixture::covariance()) ? 1 : 0;
            break;
        }
        default: std::fprintf(stderr, "BFL_VERIF_HARNESS bad op %s\n", tok.c_str()); std::exit(3);
        }
        X& x = pl.focus();
        if (outside) vf::out_int(P(k, "survived"), 1);
        dump_fields(k, x, ret);
        vf::out_int(P(k, "slot"), pl.cur);
        go = dump_acc(k, x);
        if (go && extra) extra(k, x);
        if (!go) vf::out_int("stopped", k);
    }
}

static void gauss_extra(int k, XG& g) { dump_gauss_acc(k, g); }

static bool concat_mismatch(XPS& p, XPS& rhs) {
    return rhs.St().rows() != p.St().rows() || rhs.M().rows() != p.M().rows() || rhs.C().rows() != p.C().rows()
           || rhs.C().cols() != long(p.dim_covariance * rhs.components) || rhs.M().cols() != long(rhs.components)
           || rhs.St().cols() != long(rhs.components) || rhs.W().size() != long(rhs.components);
}

static void run_ps(const vf::Case& c, std::unique_ptr<XPS> p0) {
    const auto& ops = c.word("ops");
    Pool<XPS> pl;
    make_pool(c, pl, std::move(p0));
    vf::out_int(P(0, "slot"), 0);
    bool go = dump_ps(0, pl.focus(), 1);
    for (size_t k0 = 0; go && k0 < ops.size(); k0++) {
        const std::string& tok = ops[k0];
        const int k = int(k0) + 1;
        const std::string rest = tok.substr(1);
        int ret = 1;
        bool outside = false;
        int done = pool_op(c, tok, k, pl, ret);
        if (done < 0) return;
        std::unique_ptr<XPS>& p = pl.s[pl.cur];
        if (done == 0) switch (tok[0]) {
        case 'F': { vf::Entry e("fill"); fill_ps(*p, std::stol(rest)); break; }
        case 'G': { vf::Entry e("fill-through-element-accessors"); fill_el_ps(*p, std::stol(rest)); break; }
        case 'H': { vf::Entry e("fill-through-block-accessors"); fill_blk_ps(*p, std::stol(rest)); break; }
        case 'C': { vf::Entry e("copy-constructor"); std::unique_ptr<XPS> n(new XPS(*p)); p = std::move(n); break; }
        case 'M': { vf::Entry e("move-constructor"); std::unique_ptr<XPS> n(new XPS(std::move(*p))); p = std::move(n); break; }
        case 'S': { vf::Entry e("copy-assignment"); std::unique_ptr<XPS> n(new XPS()); *n = *p; p = std::move(n); break; }
        case 'R': { auto v = ints(rest); vf::Entry e("ParticleSet::resize"); p->resize(v.at(0), v.at(1), v.at(2)); break; }
        case 'r': { auto v = ints(rest); vf::Entry e("ParticleSet::resize"); p->resize(v.at(0), v.at(1)); break; }
        case 'A': {
            MatrixXd q = getq(c, rest);
            outside = augment_outside(*p, q);
            if (augment_hangs(*p, q)) { vf::out_int("skipped", k); return; }
            if (outside && !enter_outside(k, tok, false)) return;
            vf::Entry e("GaussianMixture::augmentWithNoise");
            GaussianMixture& b = *p;                 // virtual: the ParticleSet override must run
            ret = b.augmentWithNoise(q) ? 1 : 0;
            break;
        }
        case 'W': {
            outside = self_augment_dangling(*p) || augment_outside(*p, p->C());
            if (augment_hangs(*p, p->C())) { vf::out_int("skipped", k); return; }
            if (outside && !enter_outside(k, tok, !augment_outside(*p, p->C()))) return;
            vf::Entry e("GaussianMixture::augmentWithNoise");
            ret = p->augmentWithNoise(p->covariance()) ? 1 : 0;
            break;
        }
        case 'P': case 'Q': {
            auto v = ints(rest);
            XPS rhs(v.at(0), v.at(1), v.at(2), v.at(3) != 0);
            fill_ps(rhs, v.at(4));
            outside = concat_mismatch(*p, rhs);
            if (outside && !enter_outside(k, tok, false)) return;
            if (tok[0] == 'P') { vf::Entry e("ParticleSet::operator+="); ParticleSet& r = (*p += rhs); if (&r != p.get()) ret = -1; }
            else { vf::Entry e("operator+(ParticleSet,ParticleSet)"); std::unique_ptr<XPS> n(new XPS(*p + rhs)); p = std::move(n); }
            break;
        }
        case 'D': { XPS rhs(*p); vf::Entry e("ParticleSet::operator+="); *p += rhs; break; }
        case 'E': { vf::Entry e("operator+(ParticleSet,ParticleSet)"); std::unique_ptr<XPS> n(new XPS(*p + *p)); p = std::move(n); break; }
        case 'Z': {                                   // p += p: the operand is the object itself
            outside = p->components > 0;
            if (outside && !enter_outside(k, tok, false)) return;
            vf::Entry e("ParticleSet::operator+=");
            *p += *p;
            break;
        }
        case 'p': case 'w': {                         // r = a + b (existing r) / ParticleSet n(a + b) replacing r
            auto v = ints(rest);
            XPS& A = pl.at(v.at(1)); XPS& Bq = pl.at(v.at(2));
            outside = concat_mismatch(A, Bq);
            if (outside && !enter_outside(k, tok, false)) return;
            if (tok[0] == 'p') {
                ParticleSet& T = pl.at(v.at(0)); const ParticleSet& a = A; const ParticleSet& b = Bq;
                vf::Entry e("assignment-from-temporary(operator+)");
                ParticleSet& r = (T = a + b); ret = (&r == &T) ? 1 : -1;
            } else {
                std::unique_ptr<XPS> n;
                { vf::Entry e("construction-from-temporary(operator+)"); const ParticleSet& a = A; const ParticleSet& b = Bq; n.reset(new XPS(a + b)); }
                pl.put(v.at(0), std::move(n));
            }
            pl.cur = v[0];
            break;
        }
        case 'u': {                                   // t += s for another object s of the pool
            auto v = ints(rest);
            XPS& T = pl.at(v.at(0)); XPS& Sx = pl.at(v.at(1));
            outside = (&T == &Sx && T.components > 0) || concat_mismatch(T, Sx);
            if (outside && !enter_outside(k, tok, false)) return;
            { vf::Entry e("ParticleSet::operator+="); ParticleSet& r = (T += Sx); if (&r != &T) ret = -1; }
            pl.cur = v[0];
            break;
        }
        default: std::fprintf(stderr, "BFL_VERIF_HARNESS bad op %s\n", tok.c_str()); std::exit(3);
        }
        XPS& x = pl.focus();
        if (outside) vf::out_int(P(k, "survived"), 1);
        vf::out_int(P(k, "slot"), pl.cur);
        go = dump_ps(k, x, ret);
        if (!go) vf::out_int("stopped", k);
    }
}

int main() {
    vf::Case c;
    while (vf::read_case(std::cin, c)) {
        const long cc = c.mi("c"), l = c.mi("l"), ci = c.mi("ci");
        const bool q = c.mi("q") != 0;
        // full: (c, l, ci, q); noq: (c, l, ci) with the default use_quaternion; two: (c, dim) / Gaussian(l); default: ()
        const std::string ctor = c.m("ctor", "full");
        vf::out_begin(c.id);
        if (c.kind == "gm") {
            std::unique_ptr<XGM> g;
            { vf::Entry e("GaussianMixture::GaussianMixture");
              if (ctor == "default") g.reset(new XGM()); else if (ctor == "two") g.reset(new XGM(cc, l));
              else if (ctor == "noq") g.reset(new XGM(cc, l, ci)); else g.reset(new XGM(cc, l, ci, q)); }
            run_gm<XGM>(c, std::move(g), nullptr);
        } else if (c.kind == "gauss") {
            std::unique_ptr<XG> g;
            { vf::Entry e("Gaussian::Gaussian");
              if (ctor == "default") g.reset(new XG()); else if (ctor == "two") g.reset(new XG(l));
              else if (ctor == "noq") g.reset(new XG(l, ci)); else g.reset(new XG(l, ci, q)); }
            run_gm<XG>(c, std::move(g), gauss_extra);
        } else if (c.kind == "pset") {
            std::unique_ptr<XPS> p;
            { vf::Entry e("ParticleSet::ParticleSet");
              if (ctor == "default") p.reset(new XPS()); else if (ctor == "two") p.reset(new XPS(cc, l));
              else if (ctor == "noq") p.reset(new XPS(cc, l, ci)); else p.reset(new XPS(cc, l, ci, q)); }
            run_ps(c, std::move(p));
        } else {
            std::fprintf(stderr, "BFL_VERIF_HARNESS unknown kind %s\n", c.kind.c_str());
            return 3;
        }
        vf::out_end();
    }
    return 0;
}
