// h_C15.cpp — harness for C15: direct calls of the Gaussian density utilities and
// log_sum_exp of utils.h.
//   kind uvr : input (d x b), mean (d x 1), U (d x k), V (k x d), R (bs x rc),
//              cov (d x d; the covariance U V + blockdiag(R) assembled by the generator)
//              [optional int order: 0..11, the order in which the three argument forms (plain matrices, blocks of
//               larger buffers, expressions) are called and whether the log-densities come before the densities;
//               optional int probe: 0 = no re-entrancy probe for this case]
//   kind lse : x (n x 1), c (1 x 1)  [optional int matcols: also pass x reshaped as a matrix; int order, int probe]
// All cases of a run are evaluated by ONE process in the order of the case file, on the main thread: the utilities are
// pure functions, so the value of a call must not depend on the calls made before it (the generator emits chains of
// consecutive cases that share bit-identical arguments with their predecessor while other arguments change).
// Arguments of the plain calls live in persistent buffers: a case whose argument has the shape of the previous case's
// argument is passed at the SAME ADDRESS with other values.
// The re-entrancy probe (vf::concurrent_same) runs on threads of its own, so that it does not become part of the
// call history of the main thread.
#define VF_MAIN
#include "common.hpp"
#include <BayesFilters/utils.h>
#include <algorithm>

using namespace bfl;
using namespace Eigen;

// persistent argument buffers (Eigen keeps the allocation when the shape does not change)
static MatrixXd g_input, g_U, g_V, g_R, g_cov, g_x;
static VectorXd g_mean;

static MatrixXd assemble(const MatrixXd& U, const MatrixXd& V, const MatrixXd& R) {
    const long d = U.rows(), bs = R.rows();
    MatrixXd S = U * V;
    for (long i = 0; bs > 0 && i < d / bs; i++)
        S.block(i * bs, i * bs, bs, bs) += (R.cols() == bs) ? R : R.block(0, i * bs, bs, bs);
    return S;
}

int main() {
    vf::Case c;
    while (vf::read_case(std::cin, c)) {
        const long order = c.has_int("order") ? c.integer("order") : 0;
        const bool probe = !c.has_int("probe") || c.integer("probe") != 0;
        const int reps = static_cast<int>(c.mi("reps", 25));
        if (c.kind == "uvr") {
            g_input = c.mat("input"); g_mean = c.mat("mean").col(0);
            g_U = c.mat("U"); g_V = c.mat("V"); g_R = c.mat("R"); g_cov = c.mat("cov");
            const MatrixXd& input = g_input; const VectorXd& mean = g_mean;
            const MatrixXd& U = g_U; const MatrixXd& V = g_V; const MatrixXd& R = g_R; const MatrixXd& cov = g_cov;
            const MatrixXd input0 = input, U0 = U, V0 = V, R0 = R, cov0 = cov; const VectorXd mean0 = mean;
            const long d = input.rows(), b = input.cols(), k = U.cols();
            // re-entrancy: the same calls from several threads on different data of the same shapes
            bool conc = true;
            if (probe) {
                std::vector<std::function<MatrixXd()>> jobs;
                for (int t = 0; t < 3; t++) {
                    const MatrixXd Ut = U * (1.0 + 0.25 * t), Rt = R * (1.0 + 0.125 * (t + 1)), St = assemble(Ut, V, Rt);
                    const VectorXd mt = mean.array() + 0.5 * t;
                    const MatrixXd it = vf::rotate_cols(input, t) * (1.0 + 0.0625 * t);
                    const MatrixXd Vt = V;
                    jobs.push_back([=]() {
                        MatrixXd o(it.cols(), 4);
                        o.col(0) = utils::multivariate_gaussian_log_density(it, mt, St);
                        o.col(1) = utils::multivariate_gaussian_log_density_UVR(it, mt, Ut, Vt, Rt);
                        o.col(2) = utils::multivariate_gaussian_density(it, mt, St);
                        o.col(3) = utils::multivariate_gaussian_density_UVR(it, mt, Ut, Vt, Rt);
                        return o; });
                }
                std::thread th([&]() { vf::current_entry = "utils::multivariate_gaussian_(log_)density(_UVR) from several threads";
                                       conc = vf::concurrent_same(jobs, reps); });
                th.join();
            }
            // the same calls with the arguments passed as views into larger buffers (the functions are
            // templates over MatrixBase / take Eigen::Ref: blocks, strides and expressions are legal arguments)
            MatrixXd big = MatrixXd::Constant(d + 3, b + 2, 1e9);
            big.block(2, 1, d, b) = input;
            VectorXd bigmean = VectorXd::Constant(d + 2, -1e9); bigmean.segment(1, d) = mean;
            MatrixXd bigcov = MatrixXd::Constant(d + 1, d + 2, 1e9); bigcov.block(1, 2, d, d) = cov;
            MatrixXd bigU = MatrixXd::Constant(d + 2, k + 1, 1e9); bigU.block(1, 1, d, k) = U;
            MatrixXd bigV = MatrixXd::Constant(k + 1, d + 1, 1e9); bigV.block(0, 1, k, d) = V;
            MatrixXd bigR = MatrixXd::Constant(R.rows() + 1, R.cols() + 1, 1e9); bigR.block(1, 0, R.rows(), R.cols()) = R;
            VectorXd ld, dn, ldu, dnu, ldv, dnv, lduv, dnuv, lde, ldue;
            std::vector<std::function<void()>> logs[3], dens[3];
            logs[0].push_back([&]() { vf::Entry e("utils::multivariate_gaussian_log_density"); ld = utils::multivariate_gaussian_log_density(input, mean, cov); });
            logs[0].push_back([&]() { vf::Entry e("utils::multivariate_gaussian_log_density_UVR"); ldu = utils::multivariate_gaussian_log_density_UVR(input, mean, U, V, R); });
            dens[0].push_back([&]() { vf::Entry e("utils::multivariate_gaussian_density"); dn = utils::multivariate_gaussian_density(input, mean, cov); });
            dens[0].push_back([&]() { vf::Entry e("utils::multivariate_gaussian_density_UVR"); dnu = utils::multivariate_gaussian_density_UVR(input, mean, U, V, R); });
            logs[1].push_back([&]() { vf::Entry e("utils::multivariate_gaussian_log_density(views)");
                ldv = utils::multivariate_gaussian_log_density(big.block(2, 1, d, b), bigmean.segment(1, d), bigcov.block(1, 2, d, d)); });
            logs[1].push_back([&]() { vf::Entry e("utils::multivariate_gaussian_log_density_UVR(views)");
                lduv = utils::multivariate_gaussian_log_density_UVR(big.block(2, 1, d, b), bigmean.segment(1, d), bigU.block(1, 1, d, k),
                                                                    bigV.block(0, 1, k, d), bigR.block(1, 0, R.rows(), R.cols())); });
            dens[1].push_back([&]() { vf::Entry e("utils::multivariate_gaussian_density(views)");
                dnv = utils::multivariate_gaussian_density(big.block(2, 1, d, b), bigmean.segment(1, d), bigcov.block(1, 2, d, d)); });
            dens[1].push_back([&]() { vf::Entry e("utils::multivariate_gaussian_density_UVR(views)");
                dnuv = utils::multivariate_gaussian_density_UVR(big.block(2, 1, d, b), bigmean.segment(1, d), bigU.block(1, 1, d, k),
                                                                bigV.block(0, 1, k, d), bigR.block(1, 0, R.rows(), R.cols())); });
            // expression arguments: 0.5 * (x + x) has the bits of x (no overflow at the magnitudes generated)
            logs[2].push_back([&]() { vf::Entry e("utils::multivariate_gaussian_log_density(expression)");
                lde = utils::multivariate_gaussian_log_density(0.5 * (input + input), mean, cov); });
            logs[2].push_back([&]() { vf::Entry e("utils::multivariate_gaussian_log_density_UVR(expression)");
                ldue = utils::multivariate_gaussian_log_density_UVR(0.5 * (input + input), mean, U, V, R); });
            static const int perms[6][3] = {{0, 1, 2}, {1, 0, 2}, {2, 0, 1}, {0, 2, 1}, {1, 2, 0}, {2, 1, 0}};
            const int* pm = perms[order % 6];
            const bool dens_first = (order / 6) % 2 == 1;
            for (int g = 0; g < 3; g++) {
                auto& first = dens_first ? dens[pm[g]] : logs[pm[g]];
                auto& second = dens_first ? logs[pm[g]] : dens[pm[g]];
                if (dens_first) { for (auto it = first.rbegin(); it != first.rend(); ++it) (*it)(); for (auto it = second.rbegin(); it != second.rend(); ++it) (*it)(); }
                else { for (auto& f : first) f(); for (auto& f : second) f(); }
            }
            vf::out_begin(c.id);
            vf::out_mat("ld", ld); vf::out_mat("dn", dn); vf::out_mat("ldu", ldu); vf::out_mat("dnu", dnu);
            vf::out_mat("ld_views", ldv); vf::out_mat("ldu_views", lduv); vf::out_mat("dn_views", dnv); vf::out_mat("dnu_views", dnuv);
            vf::out_mat("ld_expr", lde); vf::out_mat("ldu_expr", ldue);
            vf::out_int("inputs_unchanged", vf::bit_equal(input, input0) && vf::bit_equal(mean, mean0) && vf::bit_equal(U, U0)
                                                && vf::bit_equal(V, V0) && vf::bit_equal(R, R0) && vf::bit_equal(cov, cov0) ? 1 : 0);
            if (probe) vf::out_int("concurrent_equal", conc ? 1 : 0);
            vf::out_end();
        } else if (c.kind == "lse") {
            g_x = c.mat("x");
            const VectorXd x = g_x.col(0);
            const double sh = c.mat("c")(0, 0);
            bool conc = true;
            if (probe) {
                std::vector<std::function<MatrixXd()>> jobs;
                for (int t = 0; t < 3; t++) {
                    const VectorXd xt = (vf::rotate_cols(x.transpose(), t).transpose().array() + 0.5 * t).matrix();
                    jobs.push_back([=]() { MatrixXd o(1, 1); o(0, 0) = utils::log_sum_exp(xt); return o; });
                }
                std::thread th([&]() { vf::current_entry = "utils::log_sum_exp from several threads"; conc = vf::concurrent_same(jobs, reps); });
                th.join();
            }
            double v = NAN, vs = NAN, vm = NAN, vr = NAN, vst = NAN, vex = NAN;
            VectorXd xs = (x.array() + sh).matrix();
            long mc = c.has_int("matcols") ? c.integer("matcols") : 0;
            std::vector<std::function<void()>> calls;
            calls.push_back([&]() { vf::Entry e("utils::log_sum_exp"); v = utils::log_sum_exp(x); });
            calls.push_back([&]() { vf::Entry e("utils::log_sum_exp"); vs = utils::log_sum_exp(xs); });
            if (mc > 0 && x.size() % mc == 0)
                calls.push_back([&]() { MatrixXd xm = Map<const MatrixXd>(x.data(), x.size() / mc, mc);
                                        vf::Entry e("utils::log_sum_exp"); vm = utils::log_sum_exp(xm); });
            // row vector, strided view (row of a column-major matrix), and an expression argument
            calls.push_back([&]() { RowVectorXd xr = x.transpose(); vf::Entry e("utils::log_sum_exp(row)"); vr = utils::log_sum_exp(xr); });
            calls.push_back([&]() { MatrixXd pad = MatrixXd::Constant(3, x.size(), 1e9); pad.row(1) = x.transpose();
                                    vf::Entry e("utils::log_sum_exp(strided)"); vst = utils::log_sum_exp(pad.row(1)); });
            calls.push_back([&]() { vf::Entry e("utils::log_sum_exp(expression)"); vex = utils::log_sum_exp((x.array() + sh).matrix()); });
            if (order % 2 == 1) std::reverse(calls.begin(), calls.end());
            if ((order / 2) % 2 == 1 && calls.size() > 2) std::rotate(calls.begin(), calls.begin() + 2, calls.end());
            for (auto& f : calls) f();
            vf::out_begin(c.id);
            vf::out_num("lse", v); vf::out_num("lse_shift", vs);
            vf::out_num("lse_row", vr); vf::out_num("lse_strided", vst); vf::out_num("lse_expr", vex);
            if (mc > 0) vf::out_num("lse_mat", vm);
            if (probe) vf::out_int("concurrent_equal", conc ? 1 : 0);
            vf::out_end();
        } else {
            std::fprintf(stderr, "BFL_VERIF_HARNESS unknown kind %s\n", c.kind.c_str());
            return 3;
        }
    }
    return 0;
}
