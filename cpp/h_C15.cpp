// h_C15.cpp — harness for C15: direct calls of the Gaussian density utilities and
// log_sum_exp of utils.h.
//   kind uvr : input (d x b), mean (d x 1), U (d x k), V (k x d), R (bs x rc),
//              cov (d x d; the covariance U V + blockdiag(R) assembled by the generator)
//   kind lse : x (n x 1), c (1 x 1)  [optional int matcols: also pass x reshaped as a matrix]
#define VF_MAIN
#include "common.hpp"
#include <BayesFilters/utils.h>

using namespace bfl;
using namespace Eigen;

int main() {
    vf::Case c;
    while (vf::read_case(std::cin, c)) {
        if (c.kind == "uvr") {
            const MatrixXd& input = c.mat("input");
            const VectorXd mean = c.mat("mean").col(0);
            const MatrixXd& U = c.mat("U"); const MatrixXd& V = c.mat("V"); const MatrixXd& R = c.mat("R");
            const MatrixXd& cov = c.mat("cov");
            const MatrixXd input0 = input, U0 = U, V0 = V, R0 = R, cov0 = cov; const VectorXd mean0 = mean;
            VectorXd ld, dn, ldu, dnu;
            { vf::Entry e("utils::multivariate_gaussian_log_density"); ld = utils::multivariate_gaussian_log_density(input, mean, cov); }
            { vf::Entry e("utils::multivariate_gaussian_density"); dn = utils::multivariate_gaussian_density(input, mean, cov); }
            { vf::Entry e("utils::multivariate_gaussian_log_density_UVR"); ldu = utils::multivariate_gaussian_log_density_UVR(input, mean, U, V, R); }
            { vf::Entry e("utils::multivariate_gaussian_density_UVR"); dnu = utils::multivariate_gaussian_density_UVR(input, mean, U, V, R); }
            // the same calls with the arguments passed as views into larger buffers (the functions are
            // templates over MatrixBase / take Eigen::Ref: blocks, strides and expressions are legal arguments)
            const long d = input.rows(), b = input.cols(), k = U.cols();
            MatrixXd big = MatrixXd::Constant(d + 3, b + 2, 1e9);
            big.block(2, 1, d, b) = input;
            VectorXd bigmean = VectorXd::Constant(d + 2, -1e9); bigmean.segment(1, d) = mean;
            MatrixXd bigcov = MatrixXd::Constant(d + 1, d + 2, 1e9); bigcov.block(1, 2, d, d) = cov;
            MatrixXd bigU = MatrixXd::Constant(d + 2, k + 1, 1e9); bigU.block(1, 1, d, k) = U;
            MatrixXd bigV = MatrixXd::Constant(k + 1, d + 1, 1e9); bigV.block(0, 1, k, d) = V;
            MatrixXd bigR = MatrixXd::Constant(R.rows() + 1, R.cols() + 1, 1e9); bigR.block(1, 0, R.rows(), R.cols()) = R;
            VectorXd ldv, lduv;
            { vf::Entry e("utils::multivariate_gaussian_log_density(views)");
              ldv = utils::multivariate_gaussian_log_density(big.block(2, 1, d, b), bigmean.segment(1, d), bigcov.block(1, 2, d, d)); }
            { vf::Entry e("utils::multivariate_gaussian_log_density_UVR(views)");
              lduv = utils::multivariate_gaussian_log_density_UVR(big.block(2, 1, d, b), bigmean.segment(1, d), bigU.block(1, 1, d, k),
                                                                  bigV.block(0, 1, k, d), bigR.block(1, 0, R.rows(), R.cols())); }
            vf::out_begin(c.id);
            vf::out_mat("ld", ld); vf::out_mat("dn", dn); vf::out_mat("ldu", ldu); vf::out_mat("dnu", dnu);
            vf::out_mat("ld_views", ldv); vf::out_mat("ldu_views", lduv);
            vf::out_int("inputs_unchanged", vf::bit_equal(input, input0) && vf::bit_equal(mean, mean0) && vf::bit_equal(U, U0)
                                                && vf::bit_equal(V, V0) && vf::bit_equal(R, R0) && vf::bit_equal(cov, cov0) ? 1 : 0);
            vf::out_end();
        } else if (c.kind == "lse") {
            const VectorXd x = c.mat("x").col(0);
            const double sh = c.mat("c")(0, 0);
            double v, vs, vm = NAN;
            { vf::Entry e("utils::log_sum_exp"); v = utils::log_sum_exp(x); }
            VectorXd xs = (x.array() + sh).matrix();
            { vf::Entry e("utils::log_sum_exp"); vs = utils::log_sum_exp(xs); }
            long mc = c.has_int("matcols") ? c.integer("matcols") : 0;
            if (mc > 0 && x.size() % mc == 0) {
                MatrixXd xm = Map<const MatrixXd>(x.data(), x.size() / mc, mc);
                vf::Entry e("utils::log_sum_exp"); vm = utils::log_sum_exp(xm);
            }
            // row vector, strided view (row of a column-major matrix), and an expression argument
            double vr, vst, vex;
            { RowVectorXd xr = x.transpose(); vf::Entry e("utils::log_sum_exp(row)"); vr = utils::log_sum_exp(xr); }
            { MatrixXd pad = MatrixXd::Constant(3, x.size(), 1e9); pad.row(1) = x.transpose();
              vf::Entry e("utils::log_sum_exp(strided)"); vst = utils::log_sum_exp(pad.row(1)); }
            { vf::Entry e("utils::log_sum_exp(expression)"); vex = utils::log_sum_exp((x.array() + sh).matrix()); }
            vf::out_begin(c.id);
            vf::out_num("lse", v); vf::out_num("lse_shift", vs);
            vf::out_num("lse_row", vr); vf::out_num("lse_strided", vst); vf::out_num("lse_expr", vex);
            if (mc > 0) vf::out_num("lse_mat", vm);
            vf::out_end();
        } else {
            std::fprintf(stderr, "BFL_VERIF_HARNESS unknown kind %s\n", c.kind.c_str());
            return 3;
        }
    }
    return 0;
}
