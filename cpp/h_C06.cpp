// h_C06.cpp — harness for C06: a probe subclass of SIS run by the LIBRARY's own
// filtering thread (boot(); run(); wait()): the probe's run_condition() ends the
// loop after K steps, its filtering_step() issues the step's RAW skip commands
// (ParticleFilter::skip(name, status); they stay in force), calls
// SIS::filtering_step() and dumps both particle sets; step_number() is the
// library's counter (FilteringAlgorithm.cpp: reset to 0, ++ after every step).
//
// Parts under the probe: DrawParticles over a LinearStateModel subclass (the library's
// four-way LinearStateModel::propagate decides what the skip flags of the state and
// exogenous models make the motion do), optionally an ExogenousModel attached through
// StateModel::add_exogenous_model or through the DrawParticles(state, exogenous)
// constructor; BootstrapCorrection over a scripted MeasurementModel (freeze result per
// step) and a scripted LikelihoodModel (vector or invalid per step) or the library's
// GaussianLikelihood over a linear measurement model whose H_k, R_k, measurement y_k and
// measurement size m_k change from step to step; a call-logging Resampling whose random
// offset is mirrored (same engine, seed and order of draws).
//
// Operands: init_state (d x N), init_lw (N x 1), init_mean (d x N), init_cov (d x d*N); Fs (d x K*d: transition
// of step k in block k), shift (K x d), off (1 x d: per-particle offset unit), with an exogenous model Gs (d x K*d)
// and shift2 (K x d); lik (K x N); words freeze / likvalid (K tokens 0|1), cmd (K tokens: "none" or comma-separated
// raw commands name+ / name-, names prediction state exogenous correction all and anything else), reset (K tokens 0|1:
// FilteringAlgorithm::reset() is called during that step, so the pass ends after it and the filter is initialised
// again: re-initialisation r uses the initial matrices with columns rotated by r), likfail (K tokens none|measure|
// predicted|innovation|cov: which call of the measurement model reports failure); Gaussian histories: Hs (3K x d:
// rows 3k..3k+m_k-1), Rs (3K x 3), ys (K x 3), word ms (K tokens m_k), scale (1 x 1); int seed.
// meta: exo = 0 | sm | ctor; life_pred / life_corr / life_res = fresh | moved | vector | assigned (used_target = 1: the target of the
// correction's move assignment has performed a correction of its own) (how the part handed
// to the filter was obtained: hand-written move constructors / assignments), used_* = 1: the source object was used
// before (words precmd_pred, precmd_corr: commands given to the source; int pre_draws: resampling calls on the source);
// intrude = 1: inside every callback of the subject's models a twin SIS filter (other data, same shapes) runs a
// complete prediction + filtering step (vf::intrude); conc = 1: the pure parts are evaluated from three threads.
#define VF_MAIN
#include "common.hpp"
#include <BayesFilters/BootstrapCorrection.h>
#include <BayesFilters/DrawParticles.h>
#include <BayesFilters/ExogenousModel.h>
#include <BayesFilters/GaussianLikelihood.h>
#include <BayesFilters/LikelihoodModel.h>
#include <BayesFilters/LinearStateModel.h>
#include <BayesFilters/MeasurementModel.h>
#include <BayesFilters/ParticleSetInitialization.h>
#include <BayesFilters/Resampling.h>
#include <BayesFilters/SIS.h>
#include <BayesFilters/StateModel.h>
#include <BayesFilters/utils.h>
#include <random>

using namespace bfl;
using namespace Eigen;

static long g_step = 0;              // index of the filtering step being executed (over the whole history)
static const vf::Case* g_case = nullptr;
static bool g_intrude = false;
static std::vector<std::shared_ptr<void>> g_keep;
static std::vector<std::string> g_pre_answers;   // answers to the commands given to the parts before the filter was assembled

static inline void hook() { if (g_intrude) vf::intrude(); }
static bool flag(const char* name, long k) { return g_case->word(name).at(k) == "1"; }
static std::string tok(const char* name, long k, const char* dflt) { const auto& w = g_case->word(name); return (long)w.size() > k ? w[k] : std::string(dflt); }

// Every model exists in two versions: the subject's (twin = false: the case's data, lets the intruder in) and the
// twin's (other data of the same shapes, never calls the intruder).
static MatrixXd twist(const MatrixXd& m, bool twin, double f) { return twin ? MatrixXd(vf::rotate_cols(m, 1) * f) : m; }

struct ScriptedInit : public ParticleSetInitialization {
    bool twin; long inits = 0;
    explicit ScriptedInit(bool t) : twin(t) {}
    bool initialize(ParticleSet& p) override {
        if (!twin) hook();
        const long r = inits++;
        const long d = g_case->mat("init_state").rows();
        p.state() = twist(vf::rotate_cols(g_case->mat("init_state"), r), twin, -1.25);
        p.mean() = twist(vf::rotate_cols(g_case->mat("init_mean"), r), twin, 0.5);
        p.covariance() = twist(vf::rotate_cols(g_case->mat("init_cov"), r * d), twin, 2.0);
        MatrixXd lw = vf::rotate_cols(g_case->mat("init_lw").transpose(), r).transpose();
        if (twin) lw = vf::rotate_cols(lw.transpose(), 2).transpose();
        p.weight() = lw;
        if (!twin) hook();
        return true;
    }
};

static MatrixXd block_of(const char* name, long k) {
    const MatrixXd& A = g_case->mat(name);
    const long d = A.rows();
    return A.block(0, k * d, d, d);
}

// x' = F_k x (+ exogenous part), by the library's LinearStateModel::propagate; motion adds a deterministic "noise"
struct LinState : public LinearStateModel {
    bool twin;
    explicit LinState(bool t) : twin(t) {}
    MatrixXd getStateTransitionMatrix() override {
        if (!twin) hook();
        MatrixXd F = block_of("Fs", g_step);
        if (twin) F = MatrixXd(F.transpose() * 0.8);
        return F;
    }
    void motion(const Ref<const MatrixXd>& cur, Ref<MatrixXd> mot) override {
        if (!twin) hook();
        LinearStateModel::propagate(cur, mot);
        const MatrixXd& shift = g_case->mat("shift");
        const MatrixXd& off = g_case->mat("off");
        for (long i = 0; i < cur.cols(); i++)
            for (long r = 0; r < cur.rows(); r++) {
                double v = mot(r, i);
                v = v + (twin ? -0.5 : 1.0) * shift(g_step, r);
                v = v + off(0, r) * (double)(i + 1);
                mot(r, i) = v;
            }
        if (!twin) hook();
    }
    bool setProperty(const std::string&) override { return false; }
    VectorDescription getInputDescription() override { return VectorDescription(g_case->mi("dl"), g_case->mi("dc")); }
    VectorDescription getStateDescription() override { return VectorDescription(g_case->mi("dl"), g_case->mi("dc")); }
};

struct ScriptedExo : public ExogenousModel {
    bool twin;
    explicit ScriptedExo(bool t) : twin(t) {}
    void propagate(const Ref<const MatrixXd>& cur, Ref<MatrixXd> prop) override {
        if (!twin) hook();
        MatrixXd G = block_of("Gs", g_step);
        if (twin) G = MatrixXd(G.transpose() * -0.7);
        MatrixXd p = G * cur;
        const MatrixXd& s2 = g_case->mat("shift2");
        for (long i = 0; i < p.cols(); i++) for (long r = 0; r < p.rows(); r++) p(r, i) = p(r, i) + (twin ? 2.0 : 1.0) * s2(g_step, r);
        prop = p;
        if (!twin) hook();
    }
    bool setProperty(const std::string&) override { return false; }
    VectorDescription getStateDescription() const override { return VectorDescription(g_case->mi("dl"), g_case->mi("dc")); }
};

struct ScriptedMeasurement : public MeasurementModel {
    bool twin; int freeze_calls = 0;
    explicit ScriptedMeasurement(bool t) : twin(t) {}
    bool freeze(const Data&) override { if (!twin) hook(); freeze_calls++; return twin ? true : flag("freeze", g_step); }
    std::pair<bool, Data> measure(const Data&) const override { return std::make_pair(false, Data()); }
    std::pair<bool, Data> predictedMeasure(const Ref<const MatrixXd>&) const override { return std::make_pair(false, Data()); }
    std::pair<bool, Data> innovation(const Data&, const Data&) const override { return std::make_pair(false, Data()); }
};

// linear measurement model y = H_k x + v, v ~ N(0, R_k), of size m_k, serving the case's measurements
struct GaussMeasurement : public ScriptedMeasurement {
    explicit GaussMeasurement(bool t) : ScriptedMeasurement(t) {}
    long m() const { return std::stol(g_case->word("ms").at(g_step)); }
    bool fails(const char* what) const { return !twin && tok("likfail", g_step, "none") == what; }
    std::pair<bool, Data> measure(const Data&) const override {
        if (!twin) hook();
        if (!twin && (!flag("likvalid", g_step) || fails("measure"))) return std::make_pair(false, Data());
        MatrixXd y = g_case->mat("ys").row(g_step).head(m()).transpose();
        if (twin) y = MatrixXd(y * -0.6);
        return std::make_pair(true, Data(std::move(y)));
    }
    std::pair<bool, Data> predictedMeasure(const Ref<const MatrixXd>& cur) const override {
        if (!twin) hook();
        if (fails("predicted")) return std::make_pair(false, Data());
        MatrixXd H = g_case->mat("Hs").block(3 * g_step, 0, m(), cur.rows());
        if (twin) H = MatrixXd(H * 1.5);
        MatrixXd p = H * cur;
        return std::make_pair(true, Data(std::move(p)));
    }
    std::pair<bool, Data> innovation(const Data& pred, const Data& meas) const override {
        if (!twin) hook();
        if (fails("innovation")) return std::make_pair(false, Data());
        MatrixXd inn = -(any::any_cast<MatrixXd>(pred).colwise() - any::any_cast<MatrixXd>(meas).col(0));
        return std::make_pair(true, Data(std::move(inn)));
    }
    std::pair<bool, MatrixXd> getNoiseCovarianceMatrix() const override {
        if (!twin) hook();
        if (fails("cov")) return std::make_pair(false, MatrixXd());
        MatrixXd R = g_case->mat("Rs").block(3 * g_step, 0, m(), m());
        if (twin) R = MatrixXd(R * 1.7 + MatrixXd::Identity(m(), m()) * R(0, 0) * 0.3);
        return std::make_pair(true, R);
    }
};

static int g_lik_calls = 0;
struct ScriptedLikelihood : public LikelihoodModel {
    bool twin;
    explicit ScriptedLikelihood(bool t) : twin(t) {}
    std::pair<bool, VectorXd> likelihood(const MeasurementModel&, const Ref<const MatrixXd>&) override {
        if (twin) return std::make_pair(true, VectorXd(vf::rotate_cols(g_case->mat("lik").row(g_step), 1).transpose() * 0.37 + VectorXd::Constant(g_case->mat("lik").cols(), 0.01)));
        hook();
        g_lik_calls++;
        if (!flag("likvalid", g_step)) return std::make_pair(false, VectorXd::Zero(1));
        VectorXd l = g_case->mat("lik").row(g_step).transpose();
        hook();
        return std::make_pair(true, l);
    }
};

struct CountingGaussianLikelihood : public GaussianLikelihood {
    explicit CountingGaussianLikelihood(double s) : GaussianLikelihood(s) {}
    std::pair<bool, VectorXd> likelihood(const MeasurementModel& m, const Ref<const MatrixXd>& x) override {
        g_lik_calls++;
        std::pair<bool, VectorXd> r = GaussianLikelihood::likelihood(m, x);
        hook();
        return r;
    }
};

struct LoggingResampling : public Resampling {
    std::mt19937_64 mirror;
    int resample_calls = 0, neff_calls = 0;
    double last_u1 = NAN, last_neff = NAN;
    VectorXi last_parents;
    explicit LoggingResampling(unsigned seed) : Resampling(seed), mirror(seed) {}
    LoggingResampling(LoggingResampling&&) = default;
    LoggingResampling& operator=(LoggingResampling&&) = default;
    void resample(const ParticleSet& cor, ParticleSet& res, Ref<VectorXi> parents) override {
        hook();
        resample_calls++;
        std::uniform_real_distribution<double> d(0.0, 1.0 / (int)cor.weight().rows());
        last_u1 = d(mirror);
        Resampling::resample(cor, res, parents);
        last_parents = parents;
        hook();                        // between the library's resample and its "cor_particle_ = res_particle"
    }
    double neff(const Ref<const VectorXd>& w) override { hook(); neff_calls++; last_neff = Resampling::neff(w); hook(); return last_neff; }
};

static void dump_set(const std::string& tag, long k, const ParticleSet& s) {
    const std::string sk = std::to_string(k);
    vf::out_int(tag + "n" + sk, s.components);
    vf::out_int(tag + "dl" + sk, s.dim_linear);
    vf::out_int(tag + "dc" + sk, s.dim_circular);
    vf::out_int(tag + "cols" + sk, s.state().cols());
    vf::out_mat(tag + "lw" + sk, s.weight());
    vf::out_mat(tag + "st" + sk, s.state());
    vf::out_mat(tag + "mn" + sk, s.mean());
    vf::out_mat(tag + "cv" + sk, s.covariance());
}

// issues the raw commands of a token ("none" or "name+,name-,...") through `skip`; returns one answer per command
static std::vector<std::string> issue(const std::string& cmd, const std::function<bool(const std::string&, bool)>& skip) {
    std::vector<std::string> ans;
    if (cmd == "none" || cmd.empty()) return ans;
    std::stringstream ss(cmd); std::string t;
    while (std::getline(ss, t, ',')) {
        if (t.size() < 2) continue;
        const bool on = t.back() == '+';
        try { ans.push_back(skip(t.substr(0, t.size() - 1), on) ? "1" : "0"); }
        catch (const std::exception&) { ans.push_back("T"); }
    }
    return ans;
}

struct ProbeSIS : public SIS {
    using SIS::SIS;
    long K = 0, done = 0;
    bool init_ok = false;
    ScriptedMeasurement* meas = nullptr;
    LoggingResampling* res = nullptr;
    BootstrapCorrection* bc = nullptr;
    bool run_condition() override { return done < K; }
    bool initialization_step() override {
        vf::Entry e("SIS::initialization_step");
        init_ok = SIS::initialization_step();
        return init_ok;
    }
    void filtering_step() override {
        const long k = done;
        g_step = k;
        const std::string sk = std::to_string(k);
        vf::out_int("lstep" + sk, (long)step_number());          // the library's counter, before its increment
        {
            vf::Entry e("ParticleFilter::skip");
            std::vector<std::string> ans = issue(tok("cmd", k, "none"), [this](const std::string& n, bool on) { return skip(n, on); });
            if (k == 0) {   // the commands given to the parts before they were handed to the filter are reported with step 0
                std::vector<std::string> pre = g_pre_answers;
                pre.insert(pre.end(), ans.begin(), ans.end()); ans = pre;
            }
            vf::out_word("ret" + sk, ans.empty() ? std::vector<std::string>{"-"} : ans);
        }
        StateModel& sm = prediction().getStateModel();
        vf::out_int("obsP" + sk, prediction().is_skipping() ? 1 : 0);
        vf::out_int("obsS" + sk, sm.is_skipping() ? 1 : 0);
        vf::out_int("obsE" + sk, sm.have_exogenous_model() ? (sm.exogenous_model().is_skipping() ? 1 : 0) : -1);
        const int rc0 = res->resample_calls, nc0 = res->neff_calls, lc0 = g_lik_calls, fc0 = meas->freeze_calls;
        { vf::Entry e("SIS::filtering_step"); SIS::filtering_step(); }
        dump_set("c", k, cor_particle_);
        dump_set("p", k, pred_particle_);
        vf::out_int("res" + sk, res->resample_calls - rc0);
        vf::out_int("neffcalls" + sk, res->neff_calls - nc0);
        vf::out_int("likcalls" + sk, g_lik_calls - lc0);
        vf::out_int("freezecalls" + sk, meas->freeze_calls - fc0);
        vf::out_num("neff" + sk, res->last_neff);
        if (g_lik_calls > lc0) {
            bool lvalid; VectorXd lvec;
            { vf::Entry e("BootstrapCorrection::getLikelihood"); std::tie(lvalid, lvec) = bc->getLikelihood(); }
            vf::out_int("lv" + sk, lvalid ? 1 : 0);
            if (lvalid) vf::out_mat("lik" + sk, lvec);
        }
        if (res->resample_calls > rc0) {
            vf::out_num("u1_" + sk, res->last_u1);
            vf::out_mat("par" + sk, res->last_parents.cast<double>());
        }
        if (tok("reset", k, "0") == "1") { vf::Entry e("FilteringAlgorithm::reset"); reset(); }
        ++done;
    }
};

// the intruder's filter: other data, same shapes; one call = a prediction and a complete filtering step
struct TwinSIS : public SIS {
    using SIS::SIS;
    long calls = 0;
    void start() { SIS::initialization_step(); }
    void once() {
        static const char* names[] = {"all", "correction", "prediction", "state", "exogenous"};
        skip(names[calls % 5], (calls / 5) % 2 == 0);
        prediction().predict(cor_particle_, pred_particle_);
        SIS::filtering_step();
        calls++;
    }
};

// ---- how a part was obtained ----

// T obtained from `fresh` by the hand-written move operations: moved = T(std::move(fresh)); vector = element of a
// std::vector<T> that is relocated by growth, then moved out; assigned = spare = std::move(fresh)
template <typename T>
static std::unique_ptr<T> obtain(std::unique_ptr<T> fresh, const std::string& life, bool used, const std::function<void(T&)>& use,
                                 const std::function<T*()>& make_spare) {
    if (used) use(*fresh);
    if (life == "moved") { vf::Entry e("move constructor"); return std::unique_ptr<T>(new T(std::move(*fresh))); }
    if (life == "vector") {
        vf::Entry e("std::vector growth");
        std::vector<T> v;
        v.reserve(1);
        v.emplace_back(std::move(*fresh));
        for (int i = 0; i < 3; i++) { std::unique_ptr<T> s(make_spare()); v.emplace_back(std::move(*s)); }   // relocations
        return std::unique_ptr<T>(new T(std::move(v[0])));
    }
    return fresh;
}
template <typename T>
static std::unique_ptr<T> obtain_assignable(std::unique_ptr<T> fresh, const std::string& life, bool used, const std::function<void(T&)>& use,
                                            const std::function<T*()>& make_spare) {
    if (life == "assigned") {
        if (used) use(*fresh);
        vf::Entry e("move assignment");
        std::unique_ptr<T> s(make_spare());
        *s = std::move(*fresh);
        g_keep.push_back(std::shared_ptr<T>(fresh.release()));     // the moved-from source stays alive until the end of the case
        return s;
    }
    return obtain<T>(std::move(fresh), life, used, use, make_spare);
}

int main() {
    vf::Case c;
    while (vf::read_case(std::cin, c)) {
        g_case = &c;
        const long N = c.mi("N"), dl = c.mi("dl"), dc = c.mi("dc"), K = c.mi("K");
        const unsigned seed = (unsigned)c.integer("seed");
        const bool gauss = c.m("likmodel") == "gauss";
        const std::string exo = c.m("exo", "0");
        g_step = 0; g_lik_calls = 0; g_intrude = false; g_pre_answers.clear(); g_keep.clear();
        ParticleSet dummy_prev((std::size_t)N, (std::size_t)dl, (std::size_t)dc), dummy_out((std::size_t)N, (std::size_t)dl, (std::size_t)dc);
        dummy_prev.state().setConstant(0.25);
        // the parts that accept any particle count are first used with ANOTHER count (N + 2): nothing may be left behind
        ParticleSet dummy_prev2((std::size_t)N + 2, (std::size_t)dl, (std::size_t)dc), dummy_out2((std::size_t)N + 2, (std::size_t)dl, (std::size_t)dc);
        dummy_prev2.state().setConstant(-0.5);

        // ---- prediction part ----
        auto make_pred = [&](bool twin, const std::string& how) -> DrawParticles* {
            std::unique_ptr<StateModel> sm(new LinState(twin));
            if (how == "sm") { sm->add_exogenous_model(std::unique_ptr<ExogenousModel>(new ScriptedExo(twin))); return new DrawParticles(std::move(sm)); }
            if (how == "ctor") return new DrawParticles(std::move(sm), std::unique_ptr<ExogenousModel>(new ScriptedExo(twin)));
            return new DrawParticles(std::move(sm));
        };
        std::unique_ptr<DrawParticles> pred = obtain_assignable<DrawParticles>(
            std::unique_ptr<DrawParticles>(make_pred(false, exo)), c.m("life_pred", "fresh"), c.mi("used_pred", 0) != 0,
            [&](DrawParticles& p) {
                std::vector<std::string> a = issue(tok("precmd_pred", 0, "none"), [&p](const std::string& n, bool on) { return p.skip(n, on); });
                g_pre_answers.insert(g_pre_answers.end(), a.begin(), a.end());
                p.predict(dummy_prev2, dummy_out2);
                p.predict(dummy_prev, dummy_out);
            },
            [&]() { DrawParticles* s = make_pred(true, exo); s->skip("prediction", true); return s; });

        // ---- correction part ----
        ScriptedMeasurement* meas = nullptr;
        auto make_corr = [&](bool twin, ScriptedMeasurement** mp) -> BootstrapCorrection* {
            ScriptedMeasurement* m = gauss ? new GaussMeasurement(twin) : new ScriptedMeasurement(twin);
            if (mp) *mp = m;
            std::unique_ptr<LikelihoodModel> likm;
            if (gauss) { if (twin) likm.reset(new GaussianLikelihood(c.mat("scale")(0, 0) * 3.0)); else likm.reset(new CountingGaussianLikelihood(c.mat("scale")(0, 0))); }
            else likm.reset(new ScriptedLikelihood(twin));
            return new BootstrapCorrection(std::unique_ptr<MeasurementModel>(m), std::move(likm));
        };
        // life_corr = assigned: the TARGET of the move assignment is a correction built over another, different sensor and
        // likelihood model (the twin's), with its skip flag set, fresh or (used_target = 1) after a correction of its own;
        // after  target = std::move(source)  the part handed to SIS must re-weight with the SOURCE's models
        std::unique_ptr<BootstrapCorrection> corr = obtain_assignable<BootstrapCorrection>(
            std::unique_ptr<BootstrapCorrection>(make_corr(false, &meas)), c.m("life_corr", "fresh"), c.mi("used_corr", 0) != 0,
            [&](BootstrapCorrection& b) {
                std::vector<std::string> a = issue(tok("precmd_corr", 0, "none"), [&b](const std::string&, bool on) { return b.skip(on); });
                g_pre_answers.insert(g_pre_answers.end(), a.begin(), a.end());
                // a correction on the source: its cached likelihood must not reappear on the object obtained from it
                b.correct(dummy_prev, dummy_out);
            },
            [&]() {
                BootstrapCorrection* s = make_corr(true, nullptr);
                if (c.mi("used_target", 0) != 0) { ParticleSet o((std::size_t)N, (std::size_t)dl, (std::size_t)dc); s->correct(dummy_prev, o); }
                s->skip(true);
                return s;
            });
        BootstrapCorrection* bc = corr.get();

        // ---- resampling part ----
        std::unique_ptr<LoggingResampling> resu = obtain_assignable<LoggingResampling>(
            std::unique_ptr<LoggingResampling>(new LoggingResampling(seed)), c.m("life_res", "fresh"), c.mi("used_res", 0) != 0,
            [&](LoggingResampling& r) {
                // draws on the source, alternately with N + 2 and N particles (the mirror follows the particle count it sees)
                for (long i = 0; i < c.integer("pre_draws"); i++) {
                    const long n = (i % 2 == 0) ? N + 2 : N;
                    ParticleSet a((std::size_t)n, (std::size_t)dl, (std::size_t)dc), b((std::size_t)n, (std::size_t)dl, (std::size_t)dc);
                    a.weight().setConstant(-std::log((double)n));
                    VectorXi par(n);
                    r.resample(a, b, par);
                    (void)r.neff(a.weight());
                }
                r.neff_calls = 0;
                r.resample_calls = 0;
            },
            [&]() { LoggingResampling* s = new LoggingResampling(seed + 12345u); return s; });
        LoggingResampling* res = resu.get();

        ProbeSIS sis((unsigned)N, (std::size_t)dl, (std::size_t)dc, std::unique_ptr<ParticleSetInitialization>(new ScriptedInit(false)),
                     std::unique_ptr<PFPrediction>(pred.release()), std::unique_ptr<PFCorrection>(corr.release()), std::unique_ptr<Resampling>(resu.release()));
        sis.K = K; sis.meas = meas; sis.res = res; sis.bc = bc;

        // ---- the intruder ----
        std::shared_ptr<TwinSIS> twin;
        if (c.mi("intrude", 0) != 0) {
            twin.reset(new TwinSIS((unsigned)N, (std::size_t)dl, (std::size_t)dc, std::unique_ptr<ParticleSetInitialization>(new ScriptedInit(true)),
                                   std::unique_ptr<PFPrediction>(make_pred(true, exo)), std::unique_ptr<PFCorrection>(make_corr(true, nullptr)),
                                   std::unique_ptr<Resampling>(new Resampling(seed + 7u))));
            twin->start();
            vf::set_intruder([twin]() { twin->once(); });
            g_intrude = true;
        }

        g_step = 0; g_lik_calls = 0;
        vf::out_begin(c.id);
        // the filtering thread is the only writer between boot() and wait()
        bool booted;
        { vf::Entry e("FilteringAlgorithm::boot"); booted = sis.boot(); }
        sis.run();
        sis.wait();
        g_intrude = false;
        if (twin) { vf::out_int("intruder_calls", vf::intruder_state().calls); vf::out_int("twin_steps", twin->calls); }
        vf::clear_intruder();
        vf::out_int("booted", booted ? 1 : 0);
        vf::out_int("init_ok", sis.init_ok ? 1 : 0);
        vf::out_int("steps_done", sis.done);
        vf::out_int("final_step_number", (long)sis.step_number());

        // ---- the pure parts from three threads at once (other data per thread, same shapes) ----
        if (c.mi("conc", 0) != 0) {
            std::vector<std::function<MatrixXd()>> jobs;
            for (int t = 0; t < 3; t++) {
                const MatrixXd lw = vf::rotate_cols(c.mat("init_lw").transpose(), t).transpose() * (1.0 + 0.25 * t);
                const MatrixXd X = vf::rotate_cols(c.mat("init_state"), t) * (1.0 - 0.2 * t);
                const MatrixXd H = MatrixXd::Ones(1, X.rows()) * (0.5 + t);
                const double r = 0.3 + 0.4 * t, y = 0.1 * t, N0 = (double)N;
                jobs.push_back([=]() {
                    struct M : public MeasurementModel {
                        MatrixXd H; double r, y;
                        bool freeze(const Data&) override { return true; }
                        std::pair<bool, Data> measure(const Data&) const override { return std::make_pair(true, Data(MatrixXd(MatrixXd::Constant(1, 1, y)))); }
                        std::pair<bool, Data> predictedMeasure(const Ref<const MatrixXd>& cur) const override { return std::make_pair(true, Data(MatrixXd(H * cur))); }
                        std::pair<bool, Data> innovation(const Data& p, const Data& m) const override {
                            return std::make_pair(true, Data(MatrixXd(-(any::any_cast<MatrixXd>(p).colwise() - any::any_cast<MatrixXd>(m).col(0))))); }
                        std::pair<bool, MatrixXd> getNoiseCovarianceMatrix() const override { return std::make_pair(true, MatrixXd(MatrixXd::Constant(1, 1, r))); }
                    } mm; mm.H = H; mm.r = r; mm.y = y;
                    GaussianLikelihood gl(1.0 + r);
                    VectorXd l = static_cast<LikelihoodModel&>(gl).likelihood(mm, X).second;
                    Resampling rs(11u);
                    ParticleSet a((std::size_t)N0, (std::size_t)X.rows(), 0), b((std::size_t)N0, (std::size_t)X.rows(), 0);
                    a.state() = X; a.weight() = lw - MatrixXd::Constant(lw.rows(), 1, utils::log_sum_exp(lw));
                    VectorXi par((long)N0);
                    rs.resample(a, b, par);
                    MatrixXd o(l.size(), 4);
                    o.col(0) = l; o.col(1) = par.cast<double>(); o.col(2).setConstant(rs.neff(a.weight())); o.col(3).setConstant(utils::log_sum_exp(lw));
                    return o;
                });
            }
            bool ok;
            { vf::Entry e("concurrent evaluation of GaussianLikelihood / Resampling / log_sum_exp"); ok = vf::concurrent_same(jobs, 40); }
            vf::out_int("conc_ok", ok ? 1 : 0);
        }
        vf::out_end();
    }
    return 0;
}
