// h_C06.cpp — harness for C06: a probe subclass of SIS run by the LIBRARY's own
// filtering thread (boot(); run(); wait()): the probe's run_condition() ends the
// loop after K steps, its filtering_step() sets the step's skip commands, calls
// SIS::filtering_step() and dumps both particle sets; step_number() is the
// library's counter (FilteringAlgorithm.cpp: reset to 0, ++ after every step).  With a
// scripted MeasurementModel (freeze result per step), a scripted
// LikelihoodModel (vector or invalid per step), DrawParticles over a
// deterministic StateModel, BootstrapCorrection and a call-logging Resampling
// whose random offset is mirrored (same engine, seed and order of draws).
// Operands: init_state (d x N), init_lw (N x 1), lik (K x N), shift (K x d),
// init_mean (d x N), init_cov (d x d*N), a (1 x 1), words freeze / likvalid (K tokens 0|1),
// word cmd (K tokens none|prediction|state|correction|all: the skip command in force during the step), int seed.
// Histories with meta likmodel=gauss use the library's GaussianLikelihood over a
// linear measurement model (H, Rm, measurements ys (K x m), scale (1 x 1)); there
// "likvalid" says whether measure() succeeds.  The likelihood vector of every step
// is read back through BootstrapCorrection::getLikelihood() and printed.
#define VF_MAIN
#include "common.hpp"
#include <BayesFilters/BootstrapCorrection.h>
#include <BayesFilters/DrawParticles.h>
#include <BayesFilters/GaussianLikelihood.h>
#include <BayesFilters/LikelihoodModel.h>
#include <BayesFilters/MeasurementModel.h>
#include <BayesFilters/ParticleSetInitialization.h>
#include <BayesFilters/Resampling.h>
#include <BayesFilters/SIS.h>
#include <BayesFilters/StateModel.h>
#include <random>

using namespace bfl;
using namespace Eigen;

static long g_step = 0;              // index of the filtering step being executed
static const vf::Case* g_case = nullptr;

static bool flag(const char* name, long k) { return g_case->word(name).at(k) == "1"; }

struct ScriptedInit : public ParticleSetInitialization {
    bool initialize(ParticleSet& p) override {
        p.state() = g_case->mat("init_state");
        p.mean() = g_case->mat("init_mean");
        p.covariance() = g_case->mat("init_cov");
        p.weight() = g_case->mat("init_lw");
        return true;
    }
};

// mot(r, i) = a * cur(r, i) + shift(step, r) + 0.01 * (i + 1)
struct ScriptedStateModel : public StateModel {
    void propagate(const Ref<const MatrixXd>& cur, Ref<MatrixXd> prop) override { motion(cur, prop); }
    void motion(const Ref<const MatrixXd>& cur, Ref<MatrixXd> mot) override {
        const double a = g_case->mat("a")(0, 0);
        const MatrixXd& shift = g_case->mat("shift");
        for (long i = 0; i < cur.cols(); i++)
            for (long r = 0; r < cur.rows(); r++) {
                double v = a * cur(r, i);
                v = v + shift(g_step, r);
                v = v + 0.01 * (double)(i + 1);
                mot(r, i) = v;
            }
    }
    bool setProperty(const std::string&) override { return false; }
    VectorDescription getInputDescription() override { return VectorDescription(g_case->mi("dl"), g_case->mi("dc")); }
    VectorDescription getStateDescription() override { return VectorDescription(g_case->mi("dl"), g_case->mi("dc")); }
};

struct ScriptedMeasurement : public MeasurementModel {
    int freeze_calls = 0;
    bool freeze(const Data&) override { freeze_calls++; return flag("freeze", g_step); }
    std::pair<bool, Data> measure(const Data&) const override { return std::make_pair(false, Data()); }
    std::pair<bool, Data> predictedMeasure(const Ref<const MatrixXd>&) const override { return std::make_pair(false, Data()); }
    std::pair<bool, Data> innovation(const Data&, const Data&) const override { return std::make_pair(false, Data()); }
};

// linear measurement model y = H x + v, v ~ N(0, Rm), serving the case's measurements
struct GaussMeasurement : public ScriptedMeasurement {
    std::pair<bool, Data> measure(const Data&) const override {
        if (!flag("likvalid", g_step)) return std::make_pair(false, Data());
        return std::make_pair(true, Data(MatrixXd(g_case->mat("ys").row(g_step).transpose())));
    }
    std::pair<bool, Data> predictedMeasure(const Ref<const MatrixXd>& cur) const override {
        MatrixXd p = g_case->mat("H") * cur;
        return std::make_pair(true, Data(std::move(p)));
    }
    std::pair<bool, Data> innovation(const Data& pred, const Data& meas) const override {
        MatrixXd inn = -(any::any_cast<MatrixXd>(pred).colwise() - any::any_cast<MatrixXd>(meas).col(0));
        return std::make_pair(true, Data(std::move(inn)));
    }
    std::pair<bool, MatrixXd> getNoiseCovarianceMatrix() const override { return std::make_pair(true, g_case->mat("Rm")); }
};

static int g_lik_calls = 0;
struct ScriptedLikelihood : public LikelihoodModel {
    std::pair<bool, VectorXd> likelihood(const MeasurementModel&, const Ref<const MatrixXd>&) override {
        g_lik_calls++;
        if (!flag("likvalid", g_step)) return std::make_pair(false, VectorXd::Zero(1));
        return std::make_pair(true, VectorXd(g_case->mat("lik").row(g_step).transpose()));
    }
};

struct CountingGaussianLikelihood : public GaussianLikelihood {
    explicit CountingGaussianLikelihood(double s) : GaussianLikelihood(s) {}
    std::pair<bool, VectorXd> likelihood(const MeasurementModel& m, const Ref<const MatrixXd>& x) override {
        g_lik_calls++;
        return GaussianLikelihood::likelihood(m, x);
    }
};

struct LoggingResampling : public Resampling {
    std::mt19937_64 mirror;
    int resample_calls = 0, neff_calls = 0;
    double last_u1 = NAN, last_neff = NAN;
    VectorXi last_parents;
    explicit LoggingResampling(unsigned seed) : Resampling(seed), mirror(seed) {}
    void resample(const ParticleSet& cor, ParticleSet& res, Ref<VectorXi> parents) override {
        resample_calls++;
        std::uniform_real_distribution<double> d(0.0, 1.0 / (int)cor.weight().rows());
        last_u1 = d(mirror);
        Resampling::resample(cor, res, parents);
        last_parents = parents;
    }
    double neff(const Ref<const VectorXd>& w) override { neff_calls++; last_neff = Resampling::neff(w); return last_neff; }
};

static void dump_set(const std::string& tag, long k, const ParticleSet& s) {
    const std::string sk = std::to_string(k);
    vf::out_int(tag + "n" + sk, s.components);
    vf::out_int(tag + "dl" + sk, s.dim_linear);
    vf::out_int(tag + "dc" + sk, s.dim_circular);
    vf::out_int(tag + "cols" + sk, s.state().cols());
    vf::out_mat(tag + "lw" + sk, s.weight());
    vf::out_mat(tag + "st" + sk, s.state());
    vf::out_mat(tag + "mn" + sk, s.mean());
    vf::out_mat(tag + "cv" + sk, s.covariance());
}

struct ProbeSIS : public SIS {
    using SIS::SIS;
    long K = 0, done = 0;
    bool init_ok = false;
    ScriptedMeasurement* meas = nullptr;
    LoggingResampling* res = nullptr;
    BootstrapCorrection* bc = nullptr;
    std::string cur_cmd = "none";
    bool run_condition() override { return done < K; }
    bool initialization_step() override {
        vf::Entry e("SIS::initialization_step");
        init_ok = SIS::initialization_step();
        return init_ok;
    }
    // one step: the skip command of this step is issued (the previous one withdrawn), then the library's step runs
    void filtering_step() override {
        const long k = done;
        g_step = k;
        const std::string sk = std::to_string(k);
        vf::out_int("lstep" + sk, (long)step_number());          // the library's counter, before its increment
        const std::string cmd = g_case->word("cmd").at(k);       // none | prediction | state | correction | all
        if (cmd.find('+') != std::string::npos || cmd.find('-') != std::string::npos) {
            // raw command history: "name+" / "name-" tokens separated by commas, issued in order; they stay in force
            vf::Entry e("ParticleFilter::skip");
            std::stringstream ss(cmd); std::string tok;
            while (std::getline(ss, tok, ',')) {
                if (tok.empty()) continue;
                const bool on = tok.back() == '+';
                if (!skip(tok.substr(0, tok.size() - 1), on)) vf::out_int("skip_refused" + sk, 1);
            }
        } else if (cmd != cur_cmd) {
            // older replay files: the command of this step is issued and the previous one withdrawn
            vf::Entry e("ParticleFilter::skip");
            if (cur_cmd != "none") skip(cur_cmd, false);
            if (cmd != "none") skip(cmd, true);
            cur_cmd = cmd;
        }
        const int rc0 = res->resample_calls, nc0 = res->neff_calls, lc0 = g_lik_calls, fc0 = meas->freeze_calls;
        { vf::Entry e("SIS::filtering_step"); SIS::filtering_step(); }
        dump_set("c", k, cor_particle_);
        dump_set("p", k, pred_particle_);
        vf::out_int("res" + sk, res->resample_calls - rc0);
        vf::out_int("neffcalls" + sk, res->neff_calls - nc0);
        vf::out_int("likcalls" + sk, g_lik_calls - lc0);
        vf::out_int("freezecalls" + sk, meas->freeze_calls - fc0);
        vf::out_num("neff" + sk, res->last_neff);
        if (g_lik_calls > lc0) {
            bool lvalid; VectorXd lvec;
            { vf::Entry e("BootstrapCorrection::getLikelihood"); std::tie(lvalid, lvec) = bc->getLikelihood(); }
            vf::out_int("lv" + sk, lvalid ? 1 : 0);
            if (lvalid) vf::out_mat("lik" + sk, lvec);
        }
        if (res->resample_calls > rc0) {
            vf::out_num("u1_" + sk, res->last_u1);
            vf::out_mat("par" + sk, res->last_parents.cast<double>());
        }
        ++done;
    }
};

int main() {
    vf::Case c;
    while (vf::read_case(std::cin, c)) {
        g_case = &c;
        const long N = c.mi("N"), dl = c.mi("dl"), dc = c.mi("dc"), K = c.mi("K");
        const unsigned seed = (unsigned)c.integer("seed");
        const bool gauss = c.m("likmodel") == "gauss";
        ScriptedMeasurement* meas = gauss ? new GaussMeasurement() : new ScriptedMeasurement();
        LoggingResampling* res = new LoggingResampling(seed);
        std::unique_ptr<PFPrediction> pred(new DrawParticles(std::unique_ptr<StateModel>(new ScriptedStateModel())));
        std::unique_ptr<LikelihoodModel> likm;
        if (gauss) likm.reset(new CountingGaussianLikelihood(c.mat("scale")(0, 0)));
        else likm.reset(new ScriptedLikelihood());
        BootstrapCorrection* bc = new BootstrapCorrection(std::unique_ptr<MeasurementModel>(meas), std::move(likm));
        std::unique_ptr<PFCorrection> corr(bc);
        ProbeSIS sis((unsigned)N, (std::size_t)dl, (std::size_t)dc, std::unique_ptr<ParticleSetInitialization>(new ScriptedInit()),
                     std::move(pred), std::move(corr), std::unique_ptr<Resampling>(res));
        sis.K = K; sis.meas = meas; sis.res = res; sis.bc = bc;
        g_step = 0; g_lik_calls = 0;
        vf::out_begin(c.id);
        // the filtering thread is the only writer between boot() and wait()
        bool booted;
        { vf::Entry e("FilteringAlgorithm::boot"); booted = sis.boot(); }
        sis.run();
        sis.wait();
        vf::out_int("booted", booted ? 1 : 0);
        vf::out_int("init_ok", sis.init_ok ? 1 : 0);
        vf::out_int("steps_done", sis.done);
        vf::out_int("final_step_number", (long)sis.step_number());
        vf::out_end();
    }
    return 0;
}
