// h_C09.cpp — harness for C09 (filter lifecycle): a probe subclass of
// bfl::FilteringAlgorithm driven by a deterministic scheduler through the
// BFL_VERIF schedule points (DESIGN.md Appendix B.4).
//
// kind "word": operand w = schedule word over
//     T F            grant the filtering thread one move (run_condition answers true / false)
//     Run Reset Reboot Teardown IsRunning StepNumber Wait
//   Protocol (mirrored by do_token / finish of coq/C09_Model.v):
//   * the thread parks at every point 1..9 until granted; point 2 is reached with
//     mtx_run_ held: Run/Reboot/Teardown are skipped there; the grant at point 2 is
//     followed by lock_unlock() and the wait predicate tells asleep / passed;
//   * T/F while the thread is asleep or gone, Wait before the thread has gone: skipped;
//   * a notifying command issued while the thread is asleep is followed by waiting
//     for the thread to re-park at point 3 when the wait predicate holds;
//   * end of word: leave point 2, teardown(), release the thread (run_condition = true),
//     wait() with a 2 s time-out.  A thread that does not arrive where the predicate
//     says it must, or a wait() that does not return, is reported (stuck / exited=0).
// kind "stress": free-running thread, a controller issuing random commands with random
//   pauses (meta seed, n, pfalse = per-mille of false run_condition answers); every
//   command is executed and logged atomically w.r.t. the thread's event log.
#define VF_MAIN
#include "common.hpp"
#include <BayesFilters/FilteringAlgorithm.h>

#include <unistd.h>
#include <fcntl.h>
#include <atomic>
#include <chrono>
#include <condition_variable>
#include <memory>
#include <mutex>
#include <random>
#include <thread>

using namespace bfl;

static FILE* OUT = nullptr;
// time-out for "the thread arrives at its next schedule point" and for wait(): 2 s nominal; a case that
// times out is run once more on a fresh object with 10 s before it is reported (starved machine)
static std::chrono::milliseconds TIMEOUT(2000);
static const std::chrono::milliseconds TIMEOUT_NOMINAL(2000), TIMEOUT_RETRY(10000);

// ---------------------------------------------------------------- session (one per case)
struct Session {
    enum Mode { Scheduled, Free, Stress };
    std::atomic<int> mode{Scheduled};
    std::mutex m;
    std::condition_variable cv;
    int parked_at = 0;        // 0: not parked
    unsigned long seq = 0;    // number of parks so far
    bool grant = false;
    bool answer = true;       // run_condition answer carried by the grant
    std::mutex logm;
    std::vector<std::string> log;
    int pfalse = 0;           // stress: per-mille of false answers
    int step_us = 0;          // stress: pause inside filtering_step
    std::atomic<int> free_rc{0};  // run_condition evaluations after the thread was released at the end of a word
    std::mt19937_64 thr_rng;

    void ev(const std::string& s) { std::lock_guard<std::mutex> lk(logm); log.push_back(s); }

    // called by the filtering thread at point k; returns the run_condition answer
    bool point(int k) {
        int md = mode.load();
        if (md == Stress) {
            // the final store run_ = false lies between points 5 and 6: both are logged; the driver places
            // EExit at "final5" and ignores is_running() answers obtained in the ambiguous window
            if (k == 5) ev("final5");
            if (k == 6) ev("exit");
            if (k == 9) return pfalse == 0 ? true : (int)(thr_rng() % 1000) >= pfalse;
            return true;
        }
        if (k == 6) ev("exit");
        // released at the end of a word: run_condition stays true; a conforming thread ends within 15 moves
        // (C09_bounded_exit), so the 64th evaluation only ever happens to a thread that ignores teardown
        if (md == Free) return k != 9 || ++free_rc < 64;
        std::unique_lock<std::mutex> lk(m);
        if (mode.load() == Free) return k != 9 || ++free_rc < 64;
        parked_at = k; ++seq;
        cv.notify_all();
        cv.wait(lk, [this] { return grant || mode.load() == Free; });
        bool a = grant ? answer : (k != 9 || ++free_rc < 64);
        grant = false; parked_at = 0;
        return a;
    }
    // scheduler side: wait until the thread has parked again (seq advanced past s0)
    bool wait_parked(unsigned long s0, int& where) {
        std::unique_lock<std::mutex> lk(m);
        bool ok = cv.wait_for(lk, TIMEOUT, [&] { return seq > s0 && parked_at != 0; });
        if (ok) where = parked_at;
        return ok;
    }
    unsigned long give(bool a) {
        std::lock_guard<std::mutex> lk(m);
        unsigned long s0 = seq;
        grant = true; answer = a;
        cv.notify_all();
        return s0;
    }
    unsigned long current_seq() { std::lock_guard<std::mutex> lk(m); return seq; }
    void set_free() {
        std::lock_guard<std::mutex> lk(m);
        mode.store(Free);
        cv.notify_all();
    }
};

static Session* g_session = nullptr;

struct Probe : public FilteringAlgorithm {
    Session* s;
    explicit Probe(Session* s_) : s(s_) {}
    bool skip(const std::string&, const bool) override { return false; }
protected:
    bool initialization_step() override { s->ev("init"); s->point(7); return true; }
    void filtering_step() override {
        s->ev("step" + std::to_string(step_number()));
        s->point(8);
        if (s->step_us > 0) std::this_thread::sleep_for(std::chrono::microseconds(s->step_us));
    }
    bool run_condition() override { bool a = s->point(9); s->ev(a ? "rc1" : "rc0"); return a; }
};

// ---------------------------------------------------------------- wait() with a time-out
// A persistent helper thread executes wait(); if it does not come back in time the
// helper (and the object it is blocked on) is abandoned and a new helper is made.
struct Joiner {
    struct Box {
        std::mutex m; std::condition_variable cv;
        FilteringAlgorithm* job = nullptr; bool done = false; bool result = false; bool quit = false;
    };
    std::shared_ptr<Box> box;
    std::thread th;
    void start() {
        box = std::make_shared<Box>();
        std::shared_ptr<Box> b = box;
        th = std::thread([b] {
            std::unique_lock<std::mutex> lk(b->m);
            for (;;) {
                b->cv.wait(lk, [&] { return b->job != nullptr || b->quit; });
                if (b->quit) return;
                FilteringAlgorithm* f = b->job;
                lk.unlock();
                bool r = f->wait();
                lk.lock();
                b->job = nullptr; b->result = r; b->done = true;
                b->cv.notify_all();
            }
        });
    }
    // returns 1 if wait() returned true, 0 if it returned false, -1 if it did not return in time
    int timed_wait(FilteringAlgorithm* f) {
        if (!box) start();
        std::unique_lock<std::mutex> lk(box->m);
        box->done = false; box->job = f;
        box->cv.notify_all();
        bool ok = box->cv.wait_for(lk, TIMEOUT, [&] { return box->done; });
        if (ok) return box->result ? 1 : 0;
        lk.unlock();
        th.detach(); box.reset();   // abandoned for good
        return -1;
    }
    void stop() {
        if (!box) return;
        { std::lock_guard<std::mutex> lk(box->m); box->quit = true; box->cv.notify_all(); }
        th.join(); box.reset();
    }
};
static Joiner g_joiner;

static void put_word(const char* name, const std::vector<std::string>& w) {
    std::fprintf(OUT, "word %s", name);
    for (auto& s : w) std::fprintf(OUT, " %s", s.c_str());
    std::fprintf(OUT, "\n");
}

// ---------------------------------------------------------------- scheduled word
struct WordRun {
    Session* S;
    Probe* P;
    std::string loc;     // "1".."9", "S" asleep, "X" gone, "stuck"
    bool joined_ok;

    std::string obs() { return loc + ":" + (P->is_running() ? "1" : "0") + ":" + std::to_string(P->step_number()); }

    void arrive(unsigned long s0) {
        int where = 0;
        if (S->wait_parked(s0, where)) loc = std::to_string(where); else loc = "stuck";
    }
    void thread_move(bool ans) {
        if (loc == "stuck" || loc == "X") return;
        if (loc == "S") {
            // only a thread that missed its wake-up can be here with a true predicate
            if (P->bfl_verif_wait_predicate()) arrive(S->current_seq() - 0);
            return;
        }
        if (loc == "2") {
            bool pass = P->bfl_verif_wait_predicate();
            unsigned long s0 = S->give(ans);
            if (pass) arrive(s0);
            else { P->bfl_verif_lock_unlock(); loc = "S"; }
            return;
        }
        if (loc == "6") { S->give(ans); loc = "X"; return; }
        unsigned long s0 = S->give(ans);
        arrive(s0);
    }
    // after a notifying command: a sleeping thread whose predicate now holds must come to point 3
    void after_notify(unsigned long s0) {
        if (loc == "S" && P->bfl_verif_wait_predicate()) arrive(s0);
    }
    void command(const std::string& t) {
        if (loc == "stuck") return;
        bool mutex_cmd = (t == "Run" || t == "Reboot" || t == "Teardown");
        if (mutex_cmd && loc == "2") return;
        unsigned long s0 = S->current_seq();
        if (t == "Run") { vf::Entry e("FilteringAlgorithm::run"); P->run(); S->ev("run"); after_notify(s0); }
        else if (t == "Reboot") { vf::Entry e("FilteringAlgorithm::reboot"); P->reboot(); S->ev("reboot"); after_notify(s0); }
        else if (t == "Teardown") { vf::Entry e("FilteringAlgorithm::teardown"); P->teardown(); S->ev("teardown"); after_notify(s0); }
        else if (t == "Reset") { vf::Entry e("FilteringAlgorithm::reset"); P->reset(); S->ev("reset"); }
        else if (t == "IsRunning") { S->ev(P->is_running() ? "isrun1" : "isrun0"); }
        else if (t == "StepNumber") { S->ev("stepno" + std::to_string(P->step_number())); }
        else if (t == "Wait") {
            if (loc != "X") return;
            int r = g_joiner.timed_wait(P);
            if (r == 1) { S->ev("wait"); joined_ok = true; } else { loc = "stuck"; }
        }
    }
};

static int g_hangs = 0;

static bool word_attempt(const vf::Case& c, bool last_attempt, int retried);

static void run_word(const vf::Case& c) {
    std::fprintf(OUT, "out %s\n", c.id.c_str());
    if (g_hangs >= 3) { std::fprintf(OUT, "int skipped 1\nend\n"); std::fflush(OUT); return; }
    TIMEOUT = TIMEOUT_NOMINAL;
    if (!word_attempt(c, false, 0)) {
        TIMEOUT = TIMEOUT_RETRY;
        word_attempt(c, true, 1);
        TIMEOUT = TIMEOUT_NOMINAL;
    }
}

// returns false if the attempt timed out somewhere and was not reported (to be retried)
static bool word_attempt(const vf::Case& c, bool last_attempt, int retried) {
    Session* S = new Session();
    g_session = S;
    Probe* P = new Probe(S);
    WordRun R{S, P, "?", false};
    std::vector<std::string> observations;
    // commands issued before boot(): the thread does not exist yet (reported as location 1, its first point)
    R.loc = "1";
    observations.push_back(R.obs());
    for (const std::string& t : c.word("pre")) {
        if (t != "T" && t != "F" && t != "Wait") R.command(t);
        observations.push_back(R.obs());
    }
    { vf::Entry e("FilteringAlgorithm::boot"); P->boot(); }
    R.arrive(0);
    for (const std::string& t : c.word("w")) {
        if (t == "T") R.thread_move(true);
        else if (t == "F") R.thread_move(false);
        else R.command(t);
        observations.push_back(R.obs());
    }
    // end of word
    bool stuck_in_word = (R.loc == "stuck");
    int exited = 0;
    std::string end_loc = R.loc;
    if (!stuck_in_word) {
        if (R.loc == "2") R.thread_move(true);
        end_loc = R.loc;
        if (R.loc != "X" && R.loc != "stuck") {
            unsigned long s0 = S->current_seq();
            { vf::Entry e("FilteringAlgorithm::teardown"); P->teardown(); }
            S->ev("teardown");
            R.after_notify(s0);
        }
    }
    S->set_free();
    int r = g_joiner.timed_wait(P);
    if (r == 1) { S->ev("wait"); exited = 1; }
    bool timed_out = !exited || stuck_in_word || R.loc == "stuck";
    if (timed_out && !last_attempt) { g_session = nullptr; return false; }   // abandoned; retried with the long time-out
    std::vector<std::string> trace;
    { std::lock_guard<std::mutex> lk(S->logm); trace = S->log; }
    trace.insert(trace.begin(), "|");
    std::fprintf(OUT, "int retried %d\n", retried);
    put_word("obs", observations);
    put_word("end_loc", std::vector<std::string>{end_loc});
    put_word("trace", trace);
    std::fprintf(OUT, "int exited %d\n", exited);
    std::fprintf(OUT, "int final_running %d\n", P->is_running() ? 1 : 0);
    std::fprintf(OUT, "int final_step %u\n", P->step_number());
    std::fprintf(OUT, "int stuck %d\n", (stuck_in_word || R.loc == "stuck") ? 1 : 0);
    std::fprintf(OUT, "end\n");
    std::fflush(OUT);
    if (exited) { delete P; delete S; }
    else { ++g_hangs; /* the object and its blocked thread are abandoned */ }
    g_session = nullptr;
    return true;
}

// ---------------------------------------------------------------- free-running stress
static bool stress_attempt(const vf::Case& c, bool last_attempt, int retried);

static void run_stress(const vf::Case& c) {
    std::fprintf(OUT, "out %s\n", c.id.c_str());
    if (g_hangs >= 3) { std::fprintf(OUT, "int skipped 1\nend\n"); std::fflush(OUT); return; }
    TIMEOUT = TIMEOUT_NOMINAL;
    if (!stress_attempt(c, false, 0)) {
        TIMEOUT = TIMEOUT_RETRY;
        stress_attempt(c, true, 1);
        TIMEOUT = TIMEOUT_NOMINAL;
    }
}

static bool stress_attempt(const vf::Case& c, bool last_attempt, int retried) {
    Session* S = new Session();
    S->mode.store(Session::Stress);
    S->pfalse = (int)c.mi("pfalse", 0);
    S->step_us = (int)c.mi("step_us", 20);
    unsigned long seed = (unsigned long)c.mi("seed", 1);
    S->thr_rng.seed(seed * 7919 + 13);
    g_session = S;
    Probe* P = new Probe(S);
    std::mt19937_64 rng(seed);
    long n = c.mi("n", 50);
    long maxpause = c.mi("pause_us", 100);
    bool early_run = (rng() % 4) != 0;
    P->boot();
    if (early_run) { std::lock_guard<std::mutex> lk(S->logm); P->run(); S->log.push_back("run"); }
    for (long i = 0; i < n; i++) {
        long us = (long)(rng() % (unsigned long)(maxpause + 1));
        if (us > 0 && (rng() % 3) != 0) std::this_thread::sleep_for(std::chrono::microseconds(us));
        else if (rng() % 2) std::this_thread::yield();
        int k = (int)(rng() % 100);
        std::lock_guard<std::mutex> lk(S->logm);
        if (k < 25) { P->reset(); S->log.push_back("reset"); }
        else if (k < 40) { P->reboot(); S->log.push_back("reboot"); }
        else if (k < 65) { P->run(); S->log.push_back("run"); }
        else if (k < 85) { S->log.push_back(P->is_running() ? "isrun1" : "isrun0"); }
        else if (k < 97) { S->log.push_back("stepno" + std::to_string(P->step_number())); }
        else { P->teardown(); S->log.push_back("teardown"); }
    }
    { std::lock_guard<std::mutex> lk(S->logm); P->teardown(); S->log.push_back("teardown"); }
    int r = g_joiner.timed_wait(P);
    int exited = (r == 1) ? 1 : 0;
    if (!exited && !last_attempt) { g_session = nullptr; return false; }
    std::fprintf(OUT, "int retried %d\n", retried);
    std::vector<std::string> trace;
    {
        std::lock_guard<std::mutex> lk(S->logm);
        if (exited) { S->log.push_back("wait"); S->log.push_back(P->is_running() ? "isrun1" : "isrun0"); }
        trace = S->log;
    }
    // long traces are summarised: consecutive steps after the first two of a run are dropped by the
    // monitors anyway only if they are in sequence, so the full trace is kept
    trace.insert(trace.begin(), "|");
    put_word("trace", trace);
    std::fprintf(OUT, "int exited %d\n", exited);
    std::fprintf(OUT, "int final_running %d\n", P->is_running() ? 1 : 0);
    std::fprintf(OUT, "end\n");
    std::fflush(OUT);
    if (exited) { delete P; delete S; } else { ++g_hangs; }
    g_session = nullptr;
    return true;
}

int main() {
    // the library prints warnings on stdout: keep the record stream on a private descriptor
    std::fflush(stdout);
    int fd = dup(1);
    OUT = fdopen(fd, "w");
    int nul = open("/dev/null", O_WRONLY);
    dup2(nul, 1);
    bfl::bfl_verif_hook = [](FilteringAlgorithm*, int k) { if (g_session) g_session->point(k); };
    vf::Case c;
    while (vf::read_case(std::cin, c)) {
        if (c.kind == "stress") run_stress(c); else run_word(c);
    }
    std::fflush(OUT);
    g_joiner.stop();
    std::fflush(OUT);
    _Exit(0);
}
