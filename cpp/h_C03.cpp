// h_C03.cpp — harness for C03: UTWeight, sigma_point() and every
// unscented_transform() overload, driven with harness-side affine models.
// kind weights: int n, mat params (1x3: alpha beta kappa).
// kind ut:      ints lin circ quat (input mixture), out_lin out_circ out_quat (output
//               description), aug (rows of the noise block appended by augmentWithNoise,
//               0 = none), overload (0 FunctionEvaluation, 1 StateModel, 2 AdditiveStateModel,
//               3 MeasurementModel, 4 AdditiveMeasurementModel), fail (1: the evaluation fails);
//               aug2 (optional: rows of a second noise block appended by a second augmentWithNoise), Qaug2;
//               mats params, means (d x comps), covs (dc x dc*comps), Qaug, A (p x d'), b (p x 1),
//               N (pc x pc additive noise covariance); optional G (p x d'), g (p x 1): the map is
//               x -> A x + b + g o (G x) o (G x); optional noise_means ((aug+aug2) x comps): written on the
//               noise rows of the means after the augmentation.
//               meta intrude=1: every function / model callback handed to the transform first lets an "intruder"
//               (common.hpp) run a complete unscented_transform of the same overload on an independent twin belief
//               of the same shape (other means / covariances) through another function: user code called back by the
//               library may itself use the library.  The results of the outer transform must not change.
#define VF_MAIN
#include "common.hpp"
#include <BayesFilters/AdditiveMeasurementModel.h>
#include <BayesFilters/AdditiveStateModel.h>
#include <BayesFilters/GaussianMixture.h>
#include <BayesFilters/MeasurementModel.h>
#include <BayesFilters/StateModel.h>
#include <BayesFilters/VectorDescription.h>
#include <BayesFilters/sigma_point.h>

using namespace bfl;
using namespace Eigen;

static VectorDescription desc(long lin, long circ, long noise, bool quat) {
    return VectorDescription(lin, circ, noise, quat ? VectorDescription::CircularType::Quaternion : VectorDescription::CircularType::Euler);
}

// x -> A x + b, or (quad) x -> A x + b + g o (G x) o (G x) with component-wise products
struct AffMap {
    MatrixXd A, b, G, g; bool quad = false; bool intrudes = false;
    void hook() const { if (intrudes) vf::intrude(); }
    MatrixXd operator()(const Ref<const MatrixXd>& X) const {
        hook();
        MatrixXd Y = A * X + b.replicate(1, X.cols());
        if (quad) {
            MatrixXd U = G * X;
            Y += (g.replicate(1, X.cols()).array() * (U.array() * U.array())).matrix();
        }
        return Y;
    }
};

struct HStateModel : public StateModel {
    AffMap f; VectorDescription in, out;
    HStateModel(const AffMap& f, const VectorDescription& in, const VectorDescription& out) : f(f), in(in), out(out) {}
    void propagate(const Ref<const MatrixXd>& cur, Ref<MatrixXd> prop) override { prop = f(cur); }
    void motion(const Ref<const MatrixXd>& cur, Ref<MatrixXd> mot) override { mot = f(cur); }
    bool setProperty(const std::string&) override { return false; }
    VectorDescription getInputDescription() override { f.hook(); return in; }
    VectorDescription getStateDescription() override { f.hook(); return out; }
};

struct HAdditiveStateModel : public AdditiveStateModel {
    AffMap f; VectorDescription out; MatrixXd N;
    HAdditiveStateModel(const AffMap& f, const VectorDescription& out, const MatrixXd& N) : f(f), out(out), N(N) {}
    void propagate(const Ref<const MatrixXd>& cur, Ref<MatrixXd> prop) override { prop = f(cur); }
    bool setProperty(const std::string&) override { return false; }
    VectorDescription getStateDescription() override { f.hook(); return out; }
    MatrixXd getNoiseCovarianceMatrix() override { f.hook(); return N; }
};

template <class Base>
struct HMeas : public Base {
    AffMap f; VectorDescription in, out; MatrixXd N; bool fail;
    HMeas(const AffMap& f, const VectorDescription& in, const VectorDescription& out, const MatrixXd& N, bool fail) : f(f), in(in), out(out), N(N), fail(fail) {}
    bool freeze(const Data&) override { return true; }
    std::pair<bool, Data> measure(const Data&) const override { return std::make_pair(false, Data()); }
    std::pair<bool, Data> predictedMeasure(const Ref<const MatrixXd>& cur) const override {
        if (fail) { f.hook(); return std::make_pair(false, Data()); }
        MatrixXd y = f(cur);
        return std::make_pair(true, Data(std::move(y)));
    }
    std::pair<bool, Data> innovation(const Data&, const Data&) const override { return std::make_pair(false, Data()); }
    std::pair<bool, MatrixXd> getNoiseCovarianceMatrix() const override { f.hook(); return std::make_pair(true, N); }
    VectorDescription getInputDescription() const override { f.hook(); return in; }
    VectorDescription getMeasurementDescription() const override { f.hook(); return out; }
};

// one complete transform of the given overload (used for the subject and, with other data, for the intruder)
static void run_transform(long overload, const GaussianMixture& mix, const sigma_point::UTWeight& w, const AffMap& f, bool fail,
                          const VectorDescription& din, const VectorDescription& dout, const MatrixXd& N,
                          bool& valid, GaussianMixture& out, MatrixXd& cross) {
    valid = true;
    if (overload == 0) {
        vf::Entry e("sigma_point::unscented_transform(FunctionEvaluation)");
        sigma_point::FunctionEvaluation fe = [&](const Ref<const MatrixXd>& X) -> std::tuple<bool, Data, VectorDescription> {
            if (fail) { f.hook(); return std::make_tuple(false, Data(), dout); }
            MatrixXd y = f(X);
            return std::make_tuple(true, Data(std::move(y)), dout);
        };
        std::tie(valid, out, cross) = sigma_point::unscented_transform(mix, w, fe);
    } else if (overload == 1) {
        vf::Entry e("sigma_point::unscented_transform(StateModel)");
        HStateModel m(f, din, dout);
        std::tie(out, cross) = sigma_point::unscented_transform(mix, w, static_cast<StateModel&>(m));
    } else if (overload == 2) {
        vf::Entry e("sigma_point::unscented_transform(AdditiveStateModel)");
        HAdditiveStateModel m(f, dout, N);
        std::tie(out, cross) = sigma_point::unscented_transform(mix, w, static_cast<AdditiveStateModel&>(m));
    } else if (overload == 3) {
        vf::Entry e("sigma_point::unscented_transform(MeasurementModel)");
        HMeas<MeasurementModel> m(f, din, dout, N, fail);
        std::tie(valid, out, cross) = sigma_point::unscented_transform(mix, w, static_cast<MeasurementModel&>(m));
    } else {
        vf::Entry e("sigma_point::unscented_transform(AdditiveMeasurementModel)");
        HMeas<AdditiveMeasurementModel> m(f, din, dout, N, fail);
        std::tie(valid, out, cross) = sigma_point::unscented_transform(mix, w, static_cast<AdditiveMeasurementModel&>(m));
    }
}

static void out_vec(const std::string& name, const VectorXd& v) { vf::out_mat(name, v.transpose()); }

int main() {
    vf::Case c;
    while (vf::read_case(std::cin, c)) {
        const MatrixXd& params = c.mat("params");
        const double alpha = params(0, 0), beta = params(0, 1), kappa = params(0, 2);
        if (c.kind == "weights") {
            vf::Entry e("UTWeight::UTWeight");
            sigma_point::UTWeight w(static_cast<std::size_t>(c.integer("n")), alpha, beta, kappa);
            vf::out_begin(c.id);
            out_vec("wm", w.mean); out_vec("wc", w.covariance); vf::out_num("c", w.c);
            vf::out_end();
            continue;
        }
        const long lin = c.integer("lin"), circ = c.integer("circ"); const bool quat = c.integer("quat") != 0;
        const long olin = c.integer("out_lin"), ocirc = c.integer("out_circ"); const bool oquat = c.integer("out_quat") != 0;
        const long q = c.integer("aug"), overload = c.integer("overload"); const bool fail = c.integer("fail") != 0;
        const MatrixXd& means = c.mat("means"); const MatrixXd& covs = c.mat("covs");
        const long comps = means.cols();
        GaussianMixture mix(comps, lin, circ, quat);
        mix.mean() = means; mix.covariance() = covs;
        const long q2 = c.has_int("aug2") ? c.integer("aug2") : 0;
        if (q > 0) { vf::Entry e("GaussianMixture::augmentWithNoise"); mix.augmentWithNoise(c.mat("Qaug")); }
        if (q2 > 0) { vf::Entry e("GaussianMixture::augmentWithNoise(second)"); mix.augmentWithNoise(c.mat("Qaug2")); }
        // non-zero means on the noise rows (written through the public accessor)
        if (c.has_mat("noise_means") && q + q2 > 0) mix.mean().bottomRows(q + q2) = c.mat("noise_means");
        GaussianMixture mix_copy(mix);
        VectorDescription din = desc(lin, circ, q + q2, quat), dout = desc(olin, ocirc, 0, oquat);
        vf::out_begin(c.id);
        std::unique_ptr<sigma_point::UTWeight> w;
        { vf::Entry e("UTWeight::UTWeight"); w.reset(new sigma_point::UTWeight(din, alpha, beta, kappa)); }
        out_vec("wm", w->mean); out_vec("wc", w->covariance); vf::out_num("c", w->c);
        vf::out_int("dof", din.dof_size());
        { vf::Entry e("sigma_point::sigma_point"); MatrixXd sp = sigma_point::sigma_point(mix, w->c); vf::out_mat("sp", sp); }
        AffMap f;
        if (!fail) { f.A = c.mat("A"); f.b = c.mat("b"); }
        if (!fail && c.has_mat("G")) { f.quad = true; f.G = c.mat("G"); f.g = c.mat("g"); }
        const MatrixXd& N = c.mat("N");
        bool valid = true; GaussianMixture out; MatrixXd cross;
        const bool intrude = c.mi("intrude", 0) != 0;
        f.intrudes = intrude;
        if (intrude) {
            // the twin: same shape and layout, other means (unit quaternions stay unit quaternions), other covariances,
            // another function of the same shapes (for quaternion rows -L(r) = L(-r) is again a rotation); never fails
            GaussianMixture twin(mix);
            twin.mean() = -mix.mean();
            if (lin > 0) twin.mean().topRows(lin) = (0.5 * mix.mean().topRows(lin).array() + 1.0).matrix();
            if (!quat && circ > 0) twin.mean().middleRows(lin, circ) = (mix.mean().middleRows(lin, circ).array() + 0.3).matrix();
            if (q + q2 > 0) twin.mean().bottomRows(q + q2) = (0.25 * mix.mean().bottomRows(q + q2).array() - 0.5).matrix();
            twin.covariance() = 0.5 * mix.covariance();
            AffMap f2;
            f2.A = fail ? MatrixXd::Constant(dout.total_size(), din.total_size(), 0.125) : MatrixXd(-f.A);
            f2.b = fail ? MatrixXd::Constant(dout.total_size(), 1, -0.5) : MatrixXd(0.5 * f.b);
            if (f.quad) { f2.quad = true; f2.G = 0.5 * f.G; f2.g = -f.g; }
            const MatrixXd N2 = 3.0 * N;
            sigma_point::UTWeight w2(din, alpha, beta, kappa);
            vf::set_intruder([=]() {
                bool v2; GaussianMixture o2; MatrixXd x2;
                run_transform(overload, twin, w2, f2, false, din, dout, N2, v2, o2, x2);
            });
        }
        run_transform(overload, mix, *w, f, fail, din, dout, N, valid, out, cross);
        if (intrude) vf::out_int("intruder_calls", vf::intruder_state().calls);
        vf::clear_intruder();
        vf::out_int("valid", valid ? 1 : 0);
        if (valid) {
            vf::out_int("components", out.components);
            vf::out_int("out_dim_linear", out.dim_linear); vf::out_int("out_dim_circular", out.dim_circular);
            vf::out_int("out_use_quaternion", out.use_quaternion ? 1 : 0); vf::out_int("out_dim_noise", out.dim_noise);
            const long pc = out.dim_covariance;
            vf::out_int("cross_rows", cross.rows()); vf::out_int("cross_cols", cross.cols());
            for (long i = 0; i < (long)out.components; i++) {
                vf::out_mat("mean" + std::to_string(i), out.mean(i));
                vf::out_mat("cov" + std::to_string(i), out.covariance(i));
                if (cross.cols() >= pc * (i + 1)) vf::out_mat("cross" + std::to_string(i), cross.middleCols(pc * i, pc));
            }
            out_vec("weights", out.weight());
        } else {
            // what is handed back with the failure flag
            vf::out_int("fail_components", out.components);
            vf::out_int("fail_cross_size", cross.size());
        }
        vf::out_int("input_unchanged", vf::bit_equal(mix.mean(), mix_copy.mean()) && vf::bit_equal(mix.covariance(), mix_copy.covariance())
                                           && vf::bit_equal(mix.weight(), mix_copy.weight()) ? 1 : 0);
        vf::out_end();
    }
    return 0;
}
