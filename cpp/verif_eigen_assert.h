// verif_eigen_assert.h — force-included (-include) in the "assert" build
// variants, together with -UNDEBUG: redirects Eigen's assertions to a handler
// that names the failing condition, file:line and the harness's current entry
// point, then ends the process with exit code 42.  It does not throw: many
// constructors in the library are noexcept.
#pragma once
#ifdef __cplusplus
#include <cstdio>
#include <cstdlib>
extern "C" const char* bfl_verif_current_entry() __attribute__((weak));
namespace bfl_verif {
inline void eigen_assert_fail(const char* cond, const char* file, int line, const char* func) {
    const char* e = bfl_verif_current_entry ? bfl_verif_current_entry() : "none";
    std::fprintf(stderr, "BFL_VERIF_EIGEN_ASSERT entry=%s cond=[%s] at %s:%d in %s\n", e, cond, file, line, func);
    std::fflush(stderr);
    std::fflush(stdout);
    std::_Exit(42);
}
}
#define eigen_assert(x) do { if (!(x)) bfl_verif::eigen_assert_fail(#x, __FILE__, __LINE__, __PRETTY_FUNCTION__); } while (false)
#endif
