// h_C02.cpp — harness for C02: KFPrediction over an LTIStateModel, with or
// without a harness-defined ExogenousModel u(X) = B X + c 1^T.
// kind predict:   F, Q, means (n x k), covs (n x n*k), weights (k x 1),
//                 old_means, old_covs, old_weights (content of the output object),
//                 optional B (n x n), c (n x 1); ints sp ss se (skip flags of
//                 GaussianPrediction, StateModel, ExogenousModel).
// kind propagate: F, Q, cur (n x k), old (n x k), optional B, c; ints ss se —
//                 LinearStateModel::propagate alone.
// kind sequence:  ONE KFPrediction object driven through int nsteps predicts over a harness LinearStateModel
//                 whose F, Q (and exogenous B, c) change between the calls.  Per step s: F_s, Q_s, optional B_s, c_s
//                 = the matrices the live model holds at that call; means_s, covs_s, weights_s, old_means_s,
//                 old_covs_s, old_weights_s (component count may change between steps); word steps, token s:
//                   first      first use of the fresh object
//                   same       nothing changed since the previous call
//                   set        the harness changed the model's matrices through setters
//                   time       ... through StateModel::setSamplingTime(s) of the time-varying model
//                   moveassign the (used) object was move-assigned from another, used, KFPrediction holding model s
//                   movector   a new KFPrediction was move-constructed from the (used) object; model unchanged
//                   movector+set  move-constructed, then the matrices changed
#define VF_MAIN
#include "common.hpp"
#include <BayesFilters/ExogenousModel.h>
#include <BayesFilters/GaussianMixture.h>
#include <BayesFilters/KFPrediction.h>
#include <BayesFilters/LTIStateModel.h>

using namespace bfl;
using namespace Eigen;

struct AffineExo : public ExogenousModel {
    MatrixXd B_, c_;
    long* calls_;
    AffineExo(const MatrixXd& B, const MatrixXd& c, long* calls) : B_(B), c_(c), calls_(calls) {}
    void propagate(const Ref<const MatrixXd>& cur, Ref<MatrixXd> prop) override {
        ++*calls_;
        prop = B_ * cur + c_.replicate(1, cur.cols());
    }
    bool setProperty(const std::string&) override { return false; }
    VectorDescription getStateDescription() const override { return VectorDescription(B_.rows()); }
};

// exogenous model whose parameters the harness can change between calls
struct VarExo : public ExogenousModel {
    MatrixXd B_, c_;
    VarExo(const MatrixXd& B, const MatrixXd& c) : B_(B), c_(c) {}
    void propagate(const Ref<const MatrixXd>& cur, Ref<MatrixXd> prop) override { prop = B_ * cur + c_.replicate(1, cur.cols()); }
    bool setProperty(const std::string&) override { return false; }
    VectorDescription getStateDescription() const override { return VectorDescription(B_.rows()); }
};

// a legal time-varying linear state model: F(T), Q(T) selected by setSamplingTime, or set directly
struct TimeVarying : public LinearStateModel {
    MatrixXd F_, Q_;
    std::vector<MatrixXd> Fs_, Qs_;
    TimeVarying(const MatrixXd& F, const MatrixXd& Q) : F_(F), Q_(Q) {}
    MatrixXd getStateTransitionMatrix() override { return F_; }
    MatrixXd getNoiseCovarianceMatrix() override { return Q_; }
    MatrixXd getJacobian() override { return F_; }
    bool setProperty(const std::string&) override { return false; }
    VectorDescription getStateDescription() override { return VectorDescription(F_.rows()); }
    bool setSamplingTime(const double& t) override { const std::size_t i = static_cast<std::size_t>(t); F_ = Fs_.at(i); Q_ = Qs_.at(i); return true; }
    void set(const MatrixXd& F, const MatrixXd& Q) { F_ = F; Q_ = Q; }
};

static std::string sfx(const std::string& n, long s) { return n + "_" + std::to_string(s); }

static void run_sequence(const vf::Case& c) {
    const long nsteps = c.integer("nsteps");
    const std::vector<std::string>& how = c.word("steps");
    const bool have_exo = c.has_mat("B_0");
    // the subject and its live model / exogenous model (raw observers; ownership is inside the KFPrediction)
    TimeVarying* tv = new TimeVarying(c.mat("F_0"), c.mat("Q_0"));
    VarExo* ex = nullptr;
    for (long s = 0; s < nsteps; s++) { tv->Fs_.push_back(c.mat(sfx("F", s))); tv->Qs_.push_back(c.mat(sfx("Q", s))); }
    if (have_exo) { ex = new VarExo(c.mat("B_0"), c.mat("c_0")); tv->add_exogenous_model(std::unique_ptr<ExogenousModel>(ex)); }
    std::unique_ptr<KFPrediction> kf(new KFPrediction(std::unique_ptr<LinearStateModel>(tv)));
    vf::out_begin(c.id);
    for (long s = 0; s < nsteps; s++) {
        const MatrixXd& F = c.mat(sfx("F", s)); const MatrixXd& Q = c.mat(sfx("Q", s));
        const std::string h = how[s];
        if (h == "movector" || h == "movector+set") {
            vf::Entry e("KFPrediction::KFPrediction(KFPrediction&&)");
            std::unique_ptr<KFPrediction> k2(new KFPrediction(std::move(*kf)));
            kf = std::move(k2);
        }
        if (h == "set" || h == "movector+set") { tv->set(F, Q); if (ex) { ex->B_ = c.mat(sfx("B", s)); ex->c_ = c.mat(sfx("c", s)); } }
        else if (h == "time") { kf->getStateModel().setSamplingTime(static_cast<double>(s)); if (ex) { ex->B_ = c.mat(sfx("B", s)); ex->c_ = c.mat(sfx("c", s)); } }
        else if (h == "moveassign") {
            // a donor that has already predicted once with ITS model (model s), then moved into the subject
            TimeVarying* tv2 = new TimeVarying(F, Q);
            for (long j = 0; j < nsteps; j++) { tv2->Fs_.push_back(c.mat(sfx("F", j))); tv2->Qs_.push_back(c.mat(sfx("Q", j))); }
            VarExo* ex2 = nullptr;
            if (have_exo) { ex2 = new VarExo(c.mat(sfx("B", s)), c.mat(sfx("c", s))); tv2->add_exogenous_model(std::unique_ptr<ExogenousModel>(ex2)); }
            KFPrediction donor{std::unique_ptr<LinearStateModel>(tv2)};
            const long n = F.rows();
            GaussianMixture a(2, n), b(2, n);
            a.mean().setConstant(0.5); for (int i = 0; i < 2; i++) a.covariance(i) = MatrixXd::Identity(n, n);
            donor.predict(a, b);
            { vf::Entry e("KFPrediction::operator=(KFPrediction&&)"); *kf = std::move(donor); }
            tv = tv2; ex = ex2;
        }
        const MatrixXd& means = c.mat(sfx("means", s)); const MatrixXd& covs = c.mat(sfx("covs", s));
        const long n = means.rows(), k = means.cols();
        GaussianMixture prev(k, n);
        prev.mean() = means; prev.covariance() = covs; prev.weight() = c.mat(sfx("weights", s));
        GaussianMixture prev_copy(prev);
        GaussianMixture pred(k, n);
        pred.mean() = c.mat(sfx("old_means", s)); pred.covariance() = c.mat(sfx("old_covs", s)); pred.weight() = c.mat(sfx("old_weights", s));
        { vf::Entry e("KFPrediction::predict"); kf->predict(prev, pred); }
        vf::out_int(sfx("components", s), pred.components);
        vf::out_int(sfx("dim", s), pred.dim);
        vf::out_mat(sfx("means", s), pred.mean());
        for (long i = 0; i < (long)pred.components; i++) vf::out_mat(sfx("cov" + std::to_string(i), s), pred.covariance(i));
        vf::out_mat(sfx("weights", s), pred.weight());
        vf::out_int(sfx("prev_unchanged", s), vf::bit_equal(prev.mean(), prev_copy.mean()) && vf::bit_equal(prev.covariance(), prev_copy.covariance())
                                                 && vf::bit_equal(prev.weight(), prev_copy.weight()) && prev.components == prev_copy.components ? 1 : 0);
    }
    vf::out_end();
}

struct LTI : public LTIStateModel {
    long n_;
    LTI(const MatrixXd& F, const MatrixXd& Q) : LTIStateModel(F, Q), n_(F.rows()) {}
    VectorDescription getStateDescription() override { return VectorDescription(n_); }
};

static void set_flags(GaussianPrediction* gp, StateModel& sm, const vf::Case& c, bool have_exo) {
    // skip("prediction", b) sets all three flags to b; the model-level commands then set
    // the state / exogenous flags individually without touching GaussianPrediction::skip_
    if (gp && c.has_int("sp") && c.integer("sp")) gp->skip("prediction", true);
    sm.skip("state", c.integer("ss") != 0);
    if (have_exo) sm.skip("exogenous", c.integer("se") != 0);
}

int main() {
    vf::Case c;
    while (vf::read_case(std::cin, c)) {
        if (c.kind == "sequence") { run_sequence(c); continue; }
        const MatrixXd& F = c.mat("F"); const MatrixXd& Q = c.mat("Q");
        const bool have_exo = c.has_mat("B");
        long exo_calls = 0;
        std::unique_ptr<LinearStateModel> sm(new LTI(F, Q));
        if (have_exo) sm->add_exogenous_model(std::unique_ptr<ExogenousModel>(new AffineExo(c.mat("B"), c.mat("c"), &exo_calls)));
        if (c.kind == "propagate") {
            MatrixXd cur = c.mat("cur"), out = c.mat("old");
            MatrixXd cur_copy = cur;
            set_flags(nullptr, *sm, c, have_exo);
            { vf::Entry e("LinearStateModel::propagate"); sm->propagate(cur, out); }
            vf::out_begin(c.id);
            vf::out_mat("prop", out);
            vf::out_int("exo_calls", exo_calls);
            vf::out_int("input_unchanged", vf::bit_equal(cur, cur_copy) ? 1 : 0);
            vf::out_end();
            continue;
        }
        const MatrixXd& means = c.mat("means"); const MatrixXd& covs = c.mat("covs");
        const long n = means.rows(), k = means.cols();
        GaussianMixture prev(k, n);
        prev.mean() = means; prev.covariance() = covs; prev.weight() = c.mat("weights");
        GaussianMixture prev_copy(prev);
        GaussianMixture pred(k, n);
        pred.mean() = c.mat("old_means"); pred.covariance() = c.mat("old_covs"); pred.weight() = c.mat("old_weights");
        KFPrediction kf(std::move(sm));
        set_flags(&kf, kf.getStateModel(), c, have_exo);
        { vf::Entry e("KFPrediction::predict"); kf.predict(prev, pred); }
        vf::out_begin(c.id);
        vf::out_int("components", pred.components);
        vf::out_int("dim", pred.dim);
        vf::out_mat("means", pred.mean());
        for (long i = 0; i < (long)pred.components; i++) vf::out_mat("cov" + std::to_string(i), pred.covariance(i));
        vf::out_mat("weights", pred.weight());
        vf::out_int("exo_calls", exo_calls);
        vf::out_int("skip_pred", kf.is_skipping() ? 1 : 0);
        vf::out_int("skip_state", kf.getStateModel().is_skipping() ? 1 : 0);
        vf::out_int("prev_unchanged", vf::bit_equal(prev.mean(), prev_copy.mean()) && vf::bit_equal(prev.covariance(), prev_copy.covariance())
                                          && vf::bit_equal(prev.weight(), prev_copy.weight()) && prev.components == prev_copy.components ? 1 : 0);
        vf::out_end();
    }
    return 0;
}
