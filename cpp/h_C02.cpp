// h_C02.cpp — harness for C02: KFPrediction over an LTIStateModel, with or
// without a harness-defined ExogenousModel u(X) = B X + c 1^T.
// kind predict:   F, Q, means (n x k), covs (n x n*k), weights (k x 1), optional B (n x n), c (n x 1);
//                 ints pl pc pn: the belief is GaussianMixture(k, pl, pc) [Euler angles], pn noise rows added by
//                 augmentWithNoise (n = pl + pc + pn; KFPrediction treats every row as a plain real);
//                 the output object: int odef = 1: default-constructed; else ints ok ol oc oq on (components, linear,
//                 circular, use_quaternion, noise) and its content old_means, old_covs, old_weights (of ITS sizes).
//                 ints sp ss se (skip flags of GaussianPrediction, StateModel, ExogenousModel).  The generator hands a
//                 non-skipped call only output objects with the components / dim / dim_covariance of the belief (the
//                 step writes through fixed-size views); a skipped call gets any object.
//                 Reported: components, dim, dim_linear, dim_circular, dim_covariance, dim_noise, quat, storage_ok
//                 (storage sizes agree with the descriptors), means, cov<i>, weights, prev_unchanged.
// kind propagate: F, Q, cur (n x k), old (n x k), optional B, c; ints ss se -
//                 LinearStateModel::propagate alone.
// kind sequence:  ONE KFPrediction object driven through int nsteps predicts over a harness LinearStateModel
//                 whose F, Q (and exogenous B, c) change between the calls.  Per step s: F_s, Q_s, optional B_s, c_s
//                 = the matrices the live model holds at that call; the operands of kind predict with suffix _s
//                 (component count, layouts, output object and flags change between steps); word steps, token s:
//                   first      first use of the fresh object
//                   same       nothing changed since the previous call
//                   set        the harness changed the model's matrices through setters
//                   time       ... through StateModel::setSamplingTime(s) of the time-varying model
//                   attach     an exogenous model (B_s, c_s) was attached to / replaced on the live model
//                   moveassign the (used) object was move-assigned from another, used, KFPrediction holding model s
//                              (possibly of another state dimension, with or without exogenous model)
//                   movector   a new KFPrediction was move-constructed from the (used) object; model unchanged
//                   movector+set  move-constructed, then the matrices changed
#define VF_MAIN
#include "common.hpp"
#include <BayesFilters/ExogenousModel.h>
#include <BayesFilters/GaussianMixture.h>
#include <BayesFilters/KFPrediction.h>
#include <BayesFilters/LTIStateModel.h>

using namespace bfl;
using namespace Eigen;

// Callback re-entrancy (vf::intrude, common.hpp): when the case has meta intrude=1, every callback of the subject's
// state model and exogenous model first lets an independent twin KFPrediction (its own model WITH an exogenous input,
// other F / Q / B / c / belief of the same shapes) run a complete predict(): user code called back by the library may
// itself use the library.  The subject's results must not change.
static bool g_intrude = false;
static inline void hook() { if (g_intrude) vf::intrude(); }

struct AffineExo : public ExogenousModel {
    MatrixXd B_, c_;
    long* calls_;
    AffineExo(const MatrixXd& B, const MatrixXd& c, long* calls) : B_(B), c_(c), calls_(calls) {}
    void propagate(const Ref<const MatrixXd>& cur, Ref<MatrixXd> prop) override {
        hook();
        ++*calls_;
        prop = B_ * cur + c_.replicate(1, cur.cols());
        hook();
    }
    bool setProperty(const std::string&) override { return false; }
    VectorDescription getStateDescription() const override { hook(); return VectorDescription(B_.rows()); }
};

// exogenous model whose parameters the harness can change between calls
struct VarExo : public ExogenousModel {
    MatrixXd B_, c_;
    VarExo(const MatrixXd& B, const MatrixXd& c) : B_(B), c_(c) {}
    void propagate(const Ref<const MatrixXd>& cur, Ref<MatrixXd> prop) override { hook(); prop = B_ * cur + c_.replicate(1, cur.cols()); hook(); }
    bool setProperty(const std::string&) override { return false; }
    VectorDescription getStateDescription() const override { hook(); return VectorDescription(B_.rows()); }
};

// a legal time-varying linear state model: F(T), Q(T) selected by setSamplingTime, or set directly
struct TimeVarying : public LinearStateModel {
    MatrixXd F_, Q_;
    std::vector<MatrixXd> Fs_, Qs_;
    TimeVarying(const MatrixXd& F, const MatrixXd& Q) : F_(F), Q_(Q) {}
    MatrixXd getStateTransitionMatrix() override { hook(); return F_; }
    MatrixXd getNoiseCovarianceMatrix() override { hook(); return Q_; }
    MatrixXd getJacobian() override { hook(); return F_; }
    bool setProperty(const std::string&) override { return false; }
    VectorDescription getStateDescription() override { hook(); return VectorDescription(F_.rows()); }
    bool setSamplingTime(const double& t) override { const std::size_t i = static_cast<std::size_t>(t); F_ = Fs_.at(i); Q_ = Qs_.at(i); return true; }
    void set(const MatrixXd& F, const MatrixXd& Q) { F_ = F; Q_ = Q; }
};

struct LTI : public LTIStateModel {
    long n_;
    LTI(const MatrixXd& F, const MatrixXd& Q) : LTIStateModel(F, Q), n_(F.rows()) {}
    MatrixXd getStateTransitionMatrix() override { hook(); return LTIStateModel::getStateTransitionMatrix(); }
    MatrixXd getNoiseCovarianceMatrix() override { hook(); return LTIStateModel::getNoiseCovarianceMatrix(); }
    MatrixXd getJacobian() override { hook(); return LTIStateModel::getJacobian(); }
    VectorDescription getStateDescription() override { hook(); return VectorDescription(n_); }
};

// arms the intruder for a call with transition F, noise Q on the n x k means X: a twin KFPrediction with other data of
// the same shapes and an exogenous input, running a complete predict() whenever a callback of the subject lets it in
static long g_twin_exo_calls = 0;
static void arm_intruder(bool on, const MatrixXd& F, const MatrixXd& Q, const MatrixXd& X) {
    g_intrude = on;
    if (!on) { vf::clear_intruder(); return; }
    const long n = F.rows(), k = X.cols();
    const MatrixXd F2 = -1.75 * F.array() + 0.375, Q2 = 3.0 * Q + MatrixXd::Identity(n, n);
    const MatrixXd B2 = 0.5 * F.transpose().array() - 0.25, c2 = MatrixXd::Constant(n, 1, 1.5);
    const MatrixXd m2 = 0.5 * X.array() + 1.0;
    std::unique_ptr<LinearStateModel> sm2(new LTI(F2, Q2));
    sm2->add_exogenous_model(std::unique_ptr<ExogenousModel>(new AffineExo(B2, c2, &g_twin_exo_calls)));
    std::shared_ptr<KFPrediction> twin(new KFPrediction(std::move(sm2)));
    vf::set_intruder([=]() {
        GaussianMixture p2(k, n), q2(k, n);
        p2.mean() = m2;
        for (long i = 0; i < k; i++) p2.covariance(i) = MatrixXd::Identity(n, n) * (2.0 + i);
        twin->predict(p2, q2);
    });
}
static void disarm_intruder(long s) {
    if (g_intrude) vf::out_int(s < 0 ? std::string("intruder_calls") : "intruder_calls_" + std::to_string(s), vf::intruder_state().calls);
    g_intrude = false; vf::clear_intruder();
}

static std::string sfx(const std::string& n, long s) { return s < 0 ? n : n + "_" + std::to_string(s); }

// a mixture with the given descriptors (noise rows through augmentWithNoise, as the library produces them)
static GaussianMixture make_mix(long k, long dl, long dc, bool quat, long dn) {
    GaussianMixture g(k, dl, dc, quat);
    if (dn > 0) g.augmentWithNoise(MatrixXd::Zero(dn, dn));
    return g;
}

// the belief of step s (s < 0: no suffix): layout ints pl pc pn, content means covs weights
static GaussianMixture make_prev(const vf::Case& c, long s) {
    const MatrixXd& means = c.mat(sfx("means", s));
    GaussianMixture g = make_mix(means.cols(), c.integer(sfx("pl", s)), c.integer(sfx("pc", s)), false, c.integer(sfx("pn", s)));
    g.mean() = means; g.covariance() = c.mat(sfx("covs", s)); g.weight() = c.mat(sfx("weights", s));
    return g;
}

// the output object of step s: default-constructed (odef) or with descriptors ok ol oc oq on and unrelated content
static GaussianMixture make_old(const vf::Case& c, long s) {
    if (c.integer(sfx("odef", s)) != 0) return GaussianMixture();
    GaussianMixture g = make_mix(c.integer(sfx("ok", s)), c.integer(sfx("ol", s)), c.integer(sfx("oc", s)), c.integer(sfx("oq", s)) != 0, c.integer(sfx("on", s)));
    g.mean() = c.mat(sfx("old_means", s)); g.covariance() = c.mat(sfx("old_covs", s)); g.weight() = c.mat(sfx("old_weights", s));
    return g;
}

static bool same_mix(const GaussianMixture& a, const GaussianMixture& b) {
    return a.components == b.components && a.dim == b.dim && a.dim_linear == b.dim_linear && a.dim_circular == b.dim_circular
        && a.dim_covariance == b.dim_covariance && a.dim_noise == b.dim_noise && a.use_quaternion == b.use_quaternion
        && vf::bit_equal(a.mean(), b.mean()) && vf::bit_equal(a.covariance(), b.covariance()) && vf::bit_equal(a.weight(), b.weight());
}

// what the returned object reports, and whether its storage agrees with it
static void out_mix(const GaussianMixture& g, long s) {
    vf::out_int(sfx("components", s), g.components);
    vf::out_int(sfx("dim", s), g.dim);
    vf::out_int(sfx("dim_linear", s), g.dim_linear);
    vf::out_int(sfx("dim_circular", s), g.dim_circular);
    vf::out_int(sfx("dim_covariance", s), g.dim_covariance);
    vf::out_int(sfx("dim_noise", s), g.dim_noise);
    vf::out_int(sfx("quat", s), g.use_quaternion ? 1 : 0);
    const bool ok = g.mean().rows() == (long)g.dim && g.mean().cols() == (long)g.components
                 && g.covariance().rows() == (long)g.dim_covariance && g.covariance().cols() == (long)(g.dim_covariance * g.components)
                 && g.weight().size() == (long)g.components;
    vf::out_int(sfx("storage_ok", s), ok ? 1 : 0);
    vf::out_mat(sfx("means", s), g.mean());
    if (ok) for (long i = 0; i < (long)g.components; i++) vf::out_mat(sfx("cov" + std::to_string(i), s), g.covariance(i));
    vf::out_mat(sfx("weights", s), g.weight());
}

static void run_sequence(const vf::Case& c) {
    const long nsteps = c.integer("nsteps");
    const std::vector<std::string>& how = c.word("steps");
    // the subject and its live model / exogenous model (raw observers; ownership is inside the KFPrediction)
    TimeVarying* tv = new TimeVarying(c.mat("F_0"), c.mat("Q_0"));
    VarExo* ex = nullptr;
    for (long s = 0; s < nsteps; s++) { tv->Fs_.push_back(c.mat(sfx("F", s))); tv->Qs_.push_back(c.mat(sfx("Q", s))); }
    if (c.has_mat("B_0")) { ex = new VarExo(c.mat("B_0"), c.mat("c_0")); tv->add_exogenous_model(std::unique_ptr<ExogenousModel>(ex)); }
    std::unique_ptr<KFPrediction> kf(new KFPrediction(std::unique_ptr<LinearStateModel>(tv)));
    vf::out_begin(c.id);
    for (long s = 0; s < nsteps; s++) {
        const MatrixXd& F = c.mat(sfx("F", s)); const MatrixXd& Q = c.mat(sfx("Q", s));
        const bool exo_s = c.has_mat(sfx("B", s));
        const std::string h = how[s];
        if (h == "movector" || h == "movector+set") {
            vf::Entry e("KFPrediction::KFPrediction(KFPrediction&&)");
            std::unique_ptr<KFPrediction> k2(new KFPrediction(std::move(*kf)));
            kf = std::move(k2);
        }
        if (h == "set" || h == "movector+set") { tv->set(F, Q); if (ex) { ex->B_ = c.mat(sfx("B", s)); ex->c_ = c.mat(sfx("c", s)); } }
        else if (h == "time") { kf->getStateModel().setSamplingTime(static_cast<double>(s)); if (ex) { ex->B_ = c.mat(sfx("B", s)); ex->c_ = c.mat(sfx("c", s)); } }
        else if (h == "attach") {
            // an exogenous model is attached to (or replaced on) the live model between two calls; matrices unchanged
            ex = new VarExo(c.mat(sfx("B", s)), c.mat(sfx("c", s)));
            kf->getStateModel().add_exogenous_model(std::unique_ptr<ExogenousModel>(ex));
        }
        else if (h == "moveassign") {
            // a donor that has already predicted once with ITS model (model s, possibly of another dimension), then moved into the subject
            TimeVarying* tv2 = new TimeVarying(F, Q);
            for (long j = 0; j < nsteps; j++) { tv2->Fs_.push_back(c.mat(sfx("F", j))); tv2->Qs_.push_back(c.mat(sfx("Q", j))); }
            VarExo* ex2 = nullptr;
            if (exo_s) { ex2 = new VarExo(c.mat(sfx("B", s)), c.mat(sfx("c", s))); tv2->add_exogenous_model(std::unique_ptr<ExogenousModel>(ex2)); }
            KFPrediction donor{std::unique_ptr<LinearStateModel>(tv2)};
            const long n = F.rows();
            GaussianMixture a(2, n), b(2, n);
            a.mean().setConstant(0.5); for (int i = 0; i < 2; i++) a.covariance(i) = MatrixXd::Identity(n, n);
            donor.predict(a, b);
            { vf::Entry e("KFPrediction::operator=(KFPrediction&&)"); *kf = std::move(donor); }
            tv = tv2; ex = ex2;
        }
        // the three skip flags of this call
        kf->skip("prediction", c.integer(sfx("sp", s)) != 0);
        kf->getStateModel().skip("state", c.integer(sfx("ss", s)) != 0);
        if (ex) kf->getStateModel().skip("exogenous", c.integer(sfx("se", s)) != 0);
        GaussianMixture prev = make_prev(c, s);
        GaussianMixture prev_copy(prev);
        GaussianMixture pred = make_old(c, s);
        arm_intruder(c.mi("intrude", 0) != 0, F, Q, prev.mean());
        { vf::Entry e("KFPrediction::predict"); kf->predict(prev, pred); }
        disarm_intruder(s);
        out_mix(pred, s);
        vf::out_int(sfx("prev_unchanged", s), same_mix(prev, prev_copy) ? 1 : 0);
    }
    vf::out_end();
}

static void set_flags(GaussianPrediction* gp, StateModel& sm, const vf::Case& c, bool have_exo) {
    // skip("prediction", b) sets all three flags to b; the model-level commands then set
    // the state / exogenous flags individually without touching GaussianPrediction::skip_
    if (gp && c.has_int("sp") && c.integer("sp")) gp->skip("prediction", true);
    sm.skip("state", c.integer("ss") != 0);
    if (have_exo) sm.skip("exogenous", c.integer("se") != 0);
}

int main() {
    vf::Case c;
    while (vf::read_case(std::cin, c)) {
        if (c.kind == "sequence") { run_sequence(c); continue; }
        const MatrixXd& F = c.mat("F"); const MatrixXd& Q = c.mat("Q");
        const bool have_exo = c.has_mat("B");
        long exo_calls = 0;
        std::unique_ptr<LinearStateModel> sm(new LTI(F, Q));
        if (have_exo) sm->add_exogenous_model(std::unique_ptr<ExogenousModel>(new AffineExo(c.mat("B"), c.mat("c"), &exo_calls)));
        if (c.kind == "propagate") {
            MatrixXd cur = c.mat("cur"), out = c.mat("old");
            MatrixXd cur_copy = cur;
            set_flags(nullptr, *sm, c, have_exo);
            arm_intruder(c.mi("intrude", 0) != 0, F, Q, cur);
            { vf::Entry e("LinearStateModel::propagate"); sm->propagate(cur, out); }
            vf::out_begin(c.id);
            disarm_intruder(-1);
            vf::out_mat("prop", out);
            vf::out_int("exo_calls", exo_calls);
            vf::out_int("input_unchanged", vf::bit_equal(cur, cur_copy) ? 1 : 0);
            vf::out_end();
            continue;
        }
        GaussianMixture prev = make_prev(c, -1);
        GaussianMixture prev_copy(prev);
        GaussianMixture pred = make_old(c, -1);
        KFPrediction kf(std::move(sm));
        set_flags(&kf, kf.getStateModel(), c, have_exo);
        arm_intruder(c.mi("intrude", 0) != 0, F, Q, prev.mean());
        { vf::Entry e("KFPrediction::predict"); kf.predict(prev, pred); }
        vf::out_begin(c.id);
        disarm_intruder(-1);
        out_mix(pred, -1);
        vf::out_int("exo_calls", exo_calls);
        vf::out_int("skip_pred", kf.is_skipping() ? 1 : 0);
        vf::out_int("skip_state", kf.getStateModel().is_skipping() ? 1 : 0);
        vf::out_int("prev_unchanged", same_mix(prev, prev_copy) ? 1 : 0);
        vf::out_end();
    }
    return 0;
}
