// h_C02.cpp — harness for C02: KFPrediction over an LTIStateModel, with or
// without a harness-defined ExogenousModel u(X) = B X + c 1^T.
// kind predict:   F, Q, means (n x k), covs (n x n*k), weights (k x 1),
//                 old_means, old_covs, old_weights (content of the output object),
//                 optional B (n x n), c (n x 1); ints sp ss se (skip flags of
//                 GaussianPrediction, StateModel, ExogenousModel).
// kind propagate: F, Q, cur (n x k), old (n x k), optional B, c; ints ss se —
//                 LinearStateModel::propagate alone.
#define VF_MAIN
#include "common.hpp"
#include <BayesFilters/ExogenousModel.h>
#include <BayesFilters/GaussianMixture.h>
#include <BayesFilters/KFPrediction.h>
#include <BayesFilters/LTIStateModel.h>

using namespace bfl;
using namespace Eigen;

struct AffineExo : public ExogenousModel {
    MatrixXd B_, c_;
    long* calls_;
    AffineExo(const MatrixXd& B, const MatrixXd& c, long* calls) : B_(B), c_(c), calls_(calls) {}
    void propagate(const Ref<const MatrixXd>& cur, Ref<MatrixXd> prop) override {
        ++*calls_;
        prop = B_ * cur + c_.replicate(1, cur.cols());
    }
    bool setProperty(const std::string&) override { return false; }
    VectorDescription getStateDescription() const override { return VectorDescription(B_.rows()); }
};

struct LTI : public LTIStateModel {
    long n_;
    LTI(const MatrixXd& F, const MatrixXd& Q) : LTIStateModel(F, Q), n_(F.rows()) {}
    VectorDescription getStateDescription() override { return VectorDescription(n_); }
};

static void set_flags(GaussianPrediction* gp, StateModel& sm, const vf::Case& c, bool have_exo) {
    // skip("prediction", b) sets all three flags to b; the model-level commands then set
    // the state / exogenous flags individually without touching GaussianPrediction::skip_
    if (gp && c.has_int("sp") && c.integer("sp")) gp->skip("prediction", true);
    sm.skip("state", c.integer("ss") != 0);
    if (have_exo) sm.skip("exogenous", c.integer("se") != 0);
}

int main() {
    vf::Case c;
    while (vf::read_case(std::cin, c)) {
        const MatrixXd& F = c.mat("F"); const MatrixXd& Q = c.mat("Q");
        const bool have_exo = c.has_mat("B");
        long exo_calls = 0;
        std::unique_ptr<LinearStateModel> sm(new LTI(F, Q));
        if (have_exo) sm->add_exogenous_model(std::unique_ptr<ExogenousModel>(new AffineExo(c.mat("B"), c.mat("c"), &exo_calls)));
        if (c.kind == "propagate") {
            MatrixXd cur = c.mat("cur"), out = c.mat("old");
            MatrixXd cur_copy = cur;
            set_flags(nullptr, *sm, c, have_exo);
            { vf::Entry e("LinearStateModel::propagate"); sm->propagate(cur, out); }
            vf::out_begin(c.id);
            vf::out_mat("prop", out);
            vf::out_int("exo_calls", exo_calls);
            vf::out_int("input_unchanged", vf::bit_equal(cur, cur_copy) ? 1 : 0);
            vf::out_end();
            continue;
        }
        const MatrixXd& means = c.mat("means"); const MatrixXd& covs = c.mat("covs");
        const long n = means.rows(), k = means.cols();
        GaussianMixture prev(k, n);
        prev.mean() = means; prev.covariance() = covs; prev.weight() = c.mat("weights");
        GaussianMixture prev_copy(prev);
        GaussianMixture pred(k, n);
        pred.mean() = c.mat("old_means"); pred.covariance() = c.mat("old_covs"); pred.weight() = c.mat("old_weights");
        KFPrediction kf(std::move(sm));
        set_flags(&kf, kf.getStateModel(), c, have_exo);
        { vf::Entry e("KFPrediction::predict"); kf.predict(prev, pred); }
        vf::out_begin(c.id);
        vf::out_int("components", pred.components);
        vf::out_int("dim", pred.dim);
        vf::out_mat("means", pred.mean());
        for (long i = 0; i < (long)pred.components; i++) vf::out_mat("cov" + std::to_string(i), pred.covariance(i));
        vf::out_mat("weights", pred.weight());
        vf::out_int("exo_calls", exo_calls);
        vf::out_int("skip_pred", kf.is_skipping() ? 1 : 0);
        vf::out_int("skip_state", kf.getStateModel().is_skipping() ? 1 : 0);
        vf::out_int("prev_unchanged", vf::bit_equal(prev.mean(), prev_copy.mean()) && vf::bit_equal(prev.covariance(), prev_copy.covariance())
                                          && vf::bit_equal(prev.weight(), prev_copy.weight()) && prev.components == prev_copy.components ? 1 : 0);
        vf::out_end();
    }
    return 0;
}
