// h_C16.cpp — harness for C16: the shipped models and initialisers.
// Case kinds (operands in brackets):
//   wna        [int dim 1|2|3, mat Tq 1x2, int seed, int defseed (1: the constructor without seed, i.e. seed 1),
//               word script: n<num> | m<k> (mat X<k>) | t<k> (mat P<k>, C<k>)]   (num and column counts may be 0)
//   wna_stat   [int dim, mat Tq, int seed, int N, mat x dx1]: empirical moments of N noise samples / N motions of x
//   lin_stat   [int n, word idxs, mat R, int seed, int N]: empirical second moment of N sensor noise samples
//   lti_state  [mat F, mat Q]            lti_meas [mat H, mat R]
//   linmodel   [int n, word idxs, mat R, int seed, word nums]
//   sim        [int dim, mat Tq, int seed, mat x0, int len (0: the constructor must throw), word ops: b | r | o]
//   sensor     [sim operands + word idxs, mat R, int seed2, word ops: f | r | o]
//   grid       [mat area 1x4, int nx, int ny, int np, int ctor4, mat st0 4xnp, mat w0 npx1]
//   gridseq    [two initialisers: mat area<i>, int nx<i> ny<i> ctor4_<i> (i = 0, 1; int copy1: initialiser 1 is a copy);
//               int nsets, per set s: int rows<s>, int np<s>, word layout<s> (lin | lincirc | quat | linnoise);
//               int steps, per step k: int init<k>, int set<k>, int fill<k>, mat st<k>, mat w<k>]
//               one process-lifetime pair of initialisers applied to a pool of particle sets, in any order, repeatedly
// Further operands of wna: int intrude (callback re-entrancy: an independent twin model of the same shapes runs a
//   complete cycle inside every virtual callback of the subject and between the calls), int conc (three models used
//   from three threads), mat Tq2 / int seed2 / int pre2 (the twin; also the target of a move assignment), and the
//   script operations b<k> / u<k> (motion / transition density through strided blocks of larger matrices),
//   s<k> (setSamplingTime(S<k>)), c<k> / a<k> / v<k> (the subject is replaced by the object obtained from it by move
//   construction / move assignment onto a used object with other parameters / growth of a std::vector).
// lti_state: word how (fresh | move_ctor | move_assign | self_assign | vector | chain), mat F2, Q2 (the other object).
// ltisim: a trajectory (and a sensor) over a user-defined additive linear model with linear and circular state components
//   whose noise samples are given columns (see run_ltisim).  linmodel / sim / sensor / gridseq: int conc (thread probe).
// sim / sensor: int intrude, int premove (the state model has drawn that many samples and is then move-constructed).
// The standard-normal draws the library's generators produce are mirrored here
// (same engine, same distribution object type, same seed, same order) and printed
// as `draws`; the LDLT factor of a WhiteNoiseAcceleration is private, so it is
// observed on the instance under test: its first call is probeS = getNoiseSample(d)
// = L * probeZ (probeZ the first d*d mirrored draws; `draws` are the ones after them).
#define VF_MAIN
#include "common.hpp"
#include <BayesFilters/InitSurveillanceAreaGrid.h>
#include <BayesFilters/LTIMeasurementModel.h>
#include <BayesFilters/LTIStateModel.h>
#include <BayesFilters/LinearModel.h>
#include <BayesFilters/ParticleSet.h>
#include <BayesFilters/SimulatedLinearSensor.h>
#include <BayesFilters/SimulatedStateModel.h>
#include <BayesFilters/WhiteNoiseAcceleration.h>
#include <random>
#include <sstream>
#include <sys/types.h>
#include <sys/wait.h>
#include <unistd.h>

using namespace bfl;
using namespace Eigen;

// silences what the library prints on std::cout ("Successfully reset state model.") for the lifetime of the object
struct Quiet {
    std::ostringstream sink; std::streambuf* old;
    Quiet() : old(std::cout.rdbuf(sink.rdbuf())) {}
    ~Quiet() { std::cout.rdbuf(old); }
};

struct Mirror {
    std::mt19937_64 g; std::normal_distribution<double> nd; std::vector<double> all;
    explicit Mirror(unsigned int seed) : g(std::mt19937_64(seed)), nd(0.0, 1.0) {}
    void draw(long k) { for (long i = 0; i < k; i++) all.push_back(nd(g)); }
    size_t from = 0;      // draws before `from` were used by the probe
    MatrixXd mat() const { MatrixXd m(1, (long)(all.size() - from)); for (size_t i = from; i < all.size(); i++) m(0, i - from) = all[i]; return m; }
};

static WhiteNoiseAcceleration::Dim dim_of(long k) {
    return k == 1 ? WhiteNoiseAcceleration::Dim::OneD : k == 2 ? WhiteNoiseAcceleration::Dim::TwoD : WhiteNoiseAcceleration::Dim::ThreeD;
}

// The subject's class: every virtual callback first lets the intruder (if one is set) run.
struct IntrWNA : public WhiteNoiseAcceleration {
    IntrWNA(Dim d, double T, double q) : WhiteNoiseAcceleration(d, T, q) {}
    IntrWNA(Dim d, double T, double q, unsigned int seed) : WhiteNoiseAcceleration(d, T, q, seed) {}
    IntrWNA(IntrWNA&&) = default;
    IntrWNA& operator=(IntrWNA&&) = default;
    MatrixXd getNoiseSample(const std::size_t num) override { vf::intrude(); return WhiteNoiseAcceleration::getNoiseSample(num); }
    MatrixXd getStateTransitionMatrix() override { vf::intrude(); return WhiteNoiseAcceleration::getStateTransitionMatrix(); }
    MatrixXd getNoiseCovarianceMatrix() override { vf::intrude(); return WhiteNoiseAcceleration::getNoiseCovarianceMatrix(); }
    VectorDescription getStateDescription() override { vf::intrude(); return WhiteNoiseAcceleration::getStateDescription(); }
};
struct IntrSim : public SimulatedStateModel {
    IntrSim(std::unique_ptr<StateModel> m, const Ref<const VectorXd>& x0, unsigned int len) : SimulatedStateModel(std::move(m), x0, len) {}
    bool bufferData() override { vf::intrude(); return SimulatedStateModel::bufferData(); }
    Data getData() const override { vf::intrude(); return SimulatedStateModel::getData(); }
};

// deterministic filler for the twin's data
static MatrixXd lcg_mat(long r, long c, unsigned long& st, double scale) {
    MatrixXd m(r, c);
    for (long j = 0; j < c; j++) for (long i = 0; i < r; i++) {
        st = st * 6364136223846793005UL + 1442695040888963407UL;
        m(i, j) = scale * (double((st >> 11) & 0xFFFFF) / double(0xFFFFF) - 0.5);
    }
    return m;
}

static void out_shape(const std::string& name, const MatrixXd& M) {
    std::cout << "mat " << name << " " << M.rows() << " " << M.cols();
    for (long i = 0; i < M.rows(); i++) for (long j = 0; j < M.cols(); j++) std::cout << " " << vf::fmt(M(i, j));
    std::cout << "\n";
}

static std::unique_ptr<IntrWNA> make_wna(long dim, double T, double q, unsigned int seed, bool defseed) {
    vf::Entry e("WhiteNoiseAcceleration::WhiteNoiseAcceleration");
    if (defseed) return std::unique_ptr<IntrWNA>(new IntrWNA(dim_of(dim), T, q));
    return std::unique_ptr<IntrWNA>(new IntrWNA(dim_of(dim), T, q, seed));
}

// An independent model with other parameters and other data of the same shapes; one cycle = every entry point once.
struct Twin {
    std::unique_ptr<IntrWNA> w; long d; unsigned long st; double sp, sv; long cols = 1;
    Twin(long dim, double T, double q, unsigned int seed) : w(new IntrWNA(dim_of(dim), T, q, seed)), d(2 * dim), st(seed * 2654435761UL + 12345UL),
        sp(std::sqrt(q * T * T * T / 3.0)), sv(std::sqrt(q * T)) {}
    MatrixXd data(long c) { MatrixXd m = lcg_mat(d, c, st, 6.0); for (long i = 0; i < d; i++) m.row(i) *= (i % 2 == 0 ? sp : sv); return m; }
    void cycle() {
        const long c = cols > 0 ? cols : 1;
        MatrixXd X = data(c), Y = MatrixXd::Constant(d, c, 3.25), P = data(c), C = data(c);
        w->getNoiseSample((std::size_t)c); w->motion(X, Y); w->getTransitionProbability(P, C);
        w->getStateTransitionMatrix(); w->getNoiseCovarianceMatrix();
    }
};

// see cpp/h_C18.cpp: the thread probe runs in a forked child, which reports through its exit status
static int concurrent_probe(const std::vector<std::function<MatrixXd()>>& jobs, int reps) {
    std::cout.flush(); fflush(stdout);
    const pid_t pid = fork();
    if (pid < 0) return vf::concurrent_same(jobs, reps) ? 1 : 0;
    if (pid == 0) { const bool ok = vf::concurrent_same(jobs, reps); _exit(ok ? 0 : 1); }
    int status = 0;
    if (waitpid(pid, &status, 0) != pid) return 0;
    return (WIFEXITED(status) && WEXITSTATUS(status) == 0) ? 1 : 0;
}

// observe the factor used for sampling on the instance under test (its first d*d draws), and
// reproducibility on twins: same seed -> bit-equal, other seed -> different
static void probe(WhiteNoiseAcceleration& wna, Mirror& mir, long dim, double T, double q, unsigned int seed, bool defseed, long d) {
    MatrixXd S, S2, S3;
    { vf::Entry e("WhiteNoiseAcceleration::getNoiseSample"); S = wna.getNoiseSample(d); }
    {
        std::unique_ptr<IntrWNA> twin = make_wna(dim, T, q, seed, defseed);
        std::unique_ptr<IntrWNA> other = make_wna(dim, T, q, defseed ? 2u : seed + 1u, false);
        vf::Entry e("WhiteNoiseAcceleration::getNoiseSample");
        S2 = twin->getNoiseSample(d); S3 = other->getNoiseSample(d);
    }
    long zr = S.rows() > 0 ? S.rows() : d;
    mir.draw(zr * d);
    MatrixXd Z(zr, d);
    for (long i = 0; i < zr * d; i++) *(Z.data() + i) = mir.all[i];
    mir.from = mir.all.size();
    out_shape("probeS", S); out_shape("probeZ", Z);
    vf::out_int("reproducible", vf::bit_equal(S, S2) ? 1 : 0);
    vf::out_int("seed_sensitive", vf::bit_equal(S, S3) ? 0 : 1);
}

struct ExposedLTIState : public LTIStateModel {
    ExposedLTIState(const MatrixXd& F, const MatrixXd& Q) : LTIStateModel(F, Q) {}
    VectorDescription getStateDescription() override { return VectorDescription(getStateTransitionMatrix().rows()); }
};
struct ExposedLTIMeas : public LTIMeasurementModel {
    ExposedLTIMeas(const MatrixXd& H, const MatrixXd& R) : LTIMeasurementModel(H, R) {}
    bool freeze(const Data&) override { return true; }
    std::pair<bool, Data> measure(const Data&) const override { return std::make_pair(false, Data()); }
};
struct ExposedLinearModel : public LinearModel {
    ExposedLinearModel(const LinearMatrixComponent& lmc, const MatrixXd& R, unsigned int seed) : LinearModel(lmc, R, seed) {}
    ExposedLinearModel(const LinearMatrixComponent& lmc, const MatrixXd& R) : LinearModel(lmc, R) {}
    bool freeze(const Data&) override { return true; }
    std::pair<bool, Data> measure(const Data&) const override { return std::make_pair(false, Data()); }
    MatrixXd sqrtR() const { return sqrt_R_; }
    std::pair<bool, MatrixXd> noise(int num) const { return getNoiseSample(num); }
};
struct ExposedSensor : public SimulatedLinearSensor {
    ExposedSensor(std::unique_ptr<SimulatedStateModel> s, const LinearMatrixComponent& lmc, const MatrixXd& R, unsigned int seed)
        : SimulatedLinearSensor(std::move(s), lmc, R, seed) {}
    ExposedSensor(std::unique_ptr<SimulatedStateModel> s, const LinearMatrixComponent& lmc, const MatrixXd& R)
        : SimulatedLinearSensor(std::move(s), lmc, R) {}
    MatrixXd sqrtR() const { return sqrt_R_; }
};

static std::string classify(const std::string& what) {
    auto has = [&](const char* s) { return what.find(s) != std::string::npos; };
    if (has("State transition matrix dimensions cannot be 0")) return "FEmpty";
    if (has("LTISTATEMODEL") && has("Noise covariance matrix dimensions cannot be 0")) return "QEmpty";
    if (has("State transition matrix must be a square")) return "FNotSquare";
    if (has("LTISTATEMODEL") && has("Noise covariance matrix must be a square")) return "QNotSquare";
    if (has("LTISTATEMODEL") && has("must be the same as the size")) return "FQMismatch";
    if (has("Measurement matrix dimensions cannot be 0")) return "HEmpty";
    if (has("LTIMEASUREMENTMODEL") && has("Noise covariance matrix dimensions cannot be 0")) return "REmpty";
    if (has("LTIMEASUREMENTMODEL") && has("Noise covariance matrix must be a square")) return "RNotSquare";
    if (has("LTIMEASUREMENTMODEL") && has("must be the same as the size")) return "HRMismatch";
    if (has("Index component out of bound")) return "Index";
    return "other";
}

static std::vector<std::size_t> indices(const std::vector<std::string>& w) {
    std::vector<std::size_t> v; for (auto& s : w) v.push_back((std::size_t)std::stoul(s)); return v;
}

// a d x c matrix placed inside a (d+2) x (c+3) frame: block(1, 2, d, c) is a strided view (outer stride d+2)
static MatrixXd framed(const MatrixXd& X, double fill) {
    MatrixXd big = MatrixXd::Constant(X.rows() + 2, X.cols() + 3, fill);
    big.block(1, 2, X.rows(), X.cols()) = X;
    return big;
}
static bool frame_kept(const MatrixXd& big, long r, long c, double fill) {
    for (long i = 0; i < big.rows(); i++) for (long j = 0; j < big.cols(); j++) {
        const bool inside = i >= 1 && i < 1 + r && j >= 2 && j < 2 + c;
        if (!inside && big(i, j) != fill) return false;
    }
    return true;
}

static void run_wna(const vf::Case& c) {
    const long dim = c.integer("dim"); const double T = c.mat("Tq")(0, 0), q = c.mat("Tq")(0, 1);
    const bool defseed = c.has_int("defseed") && c.integer("defseed") != 0;
    const unsigned int seed = defseed ? 1u : (unsigned int)c.integer("seed");
    const long d = 2 * dim;
    const bool intrude = c.has_int("intrude") && c.integer("intrude") != 0;
    const double T2 = c.has_mat("Tq2") ? c.mat("Tq2")(0, 0) : 2.0 * T, q2 = c.has_mat("Tq2") ? c.mat("Tq2")(0, 1) : 0.5 * q;
    const unsigned int seed2 = c.has_int("seed2") ? (unsigned int)c.integer("seed2") : seed + 17u;
    const long pre2 = c.has_int("pre2") ? c.integer("pre2") : 0;
    const long dim2 = c.has_int("dim2") ? c.integer("dim2") : dim;
    // reference: an object built from the same arguments that receives the same calls but is never moved and is used
    // while no other object is; the subject's results must equal its results bit for bit
    std::vector<MatrixXd> ref_out;
    {
        std::unique_ptr<IntrWNA> ref = make_wna(dim, T, q, seed, defseed);
        { vf::Entry e("WhiteNoiseAcceleration::getNoiseSample"); ref->getNoiseSample((std::size_t)d); }
        for (const std::string& op : c.word("script")) {
            const long arg = std::stol(op.substr(1));
            MatrixXd r;
            if (op[0] == 'n') { vf::Entry e("WhiteNoiseAcceleration::getNoiseSample"); r = ref->getNoiseSample((std::size_t)arg); }
            else if (op[0] == 'm' || op[0] == 'b') { vf::Entry e("WhiteNoiseAcceleration::motion"); const MatrixXd& X = c.mat("X" + std::to_string(arg)); r = MatrixXd::Zero(X.rows(), X.cols()); ref->motion(X, r); }
            else if (op[0] == 't' || op[0] == 'u') { vf::Entry e("WhiteNoiseAcceleration::getTransitionProbability"); r = ref->getTransitionProbability(c.mat("P" + std::to_string(arg)), c.mat("C" + std::to_string(arg))); }
            else if (op[0] == 's') ref->setSamplingTime(c.mat("S" + std::to_string(arg))(0, 0));
            ref_out.push_back(r);
        }
    }
    long ref_diff_at = -1;
    // the subject lives on the heap, or (after a v operation) in a vector
    std::unique_ptr<IntrWNA> heap = make_wna(dim, T, q, seed, defseed);
    std::vector<IntrWNA> vec;
    IntrWNA* subj = heap.get();
    Mirror mir(seed);
    MatrixXd F, Q; long ssize;
    { vf::Entry e("WhiteNoiseAcceleration::getStateTransitionMatrix"); F = subj->getStateTransitionMatrix(); }
    { vf::Entry e("WhiteNoiseAcceleration::getNoiseCovarianceMatrix"); Q = subj->getNoiseCovarianceMatrix(); }
    { vf::Entry e("WhiteNoiseAcceleration::getStateDescription"); ssize = (long)subj->getStateDescription().total_size(); }
    vf::out_mat("F", F); vf::out_mat("Q", Q); vf::out_int("state_size", ssize);
    vf::out_int("set_property", subj->setProperty("reset") ? 1 : 0);
    probe(*subj, mir, dim, T, q, seed, defseed, d);
    Twin twin(dim, T2, q2, seed2);
    if (intrude) vf::set_intruder([&twin]() { twin.cycle(); });
    auto getters = [&](const std::string& name) {
        MatrixXd F1, Q1; long s1;
        { vf::Entry e("WhiteNoiseAcceleration::getStateTransitionMatrix"); F1 = subj->getStateTransitionMatrix(); }
        { vf::Entry e("WhiteNoiseAcceleration::getNoiseCovarianceMatrix"); Q1 = subj->getNoiseCovarianceMatrix(); }
        { vf::Entry e("WhiteNoiseAcceleration::getStateDescription"); s1 = (long)subj->getStateDescription().total_size(); }
        vf::out_mat(name + "_F", F1); vf::out_mat(name + "_Q", Q1); vf::out_int(name + "_ss", s1);
    };
    long k = 0;
    for (const std::string& op : c.word("script")) {
        const std::string name = "r" + std::to_string(k);
        const long arg = std::stol(op.substr(1));
        if (op[0] == 'n') {
            twin.cols = arg;
            MatrixXd s;
            { vf::Entry e("WhiteNoiseAcceleration::getNoiseSample"); s = subj->getNoiseSample((std::size_t)arg); }
            mir.draw(d * arg);
            out_shape(name, s);
            if (ref_diff_at < 0 && !vf::bit_equal(s, ref_out[(std::size_t)k])) ref_diff_at = k;
        } else if (op[0] == 'm') {
            const MatrixXd& X = c.mat("X" + std::to_string(arg));
            twin.cols = X.cols();
            MatrixXd Y = MatrixXd::Constant(X.rows(), X.cols(), -7.5);
            MatrixXd Xc = X;
            { vf::Entry e("WhiteNoiseAcceleration::motion"); subj->motion(Xc, Y); }
            mir.draw(d * X.cols());
            out_shape(name, Y);
            vf::out_int(name + "_input_kept", vf::bit_equal(X, Xc) ? 1 : 0);
            if (ref_diff_at < 0 && !vf::bit_equal(Y, ref_out[(std::size_t)k])) ref_diff_at = k;
        } else if (op[0] == 'b') {
            // the same through strided views: input and output are blocks of larger matrices (what
            // SimulatedStateModel does with the columns of target_); the frames must stay as they were
            const MatrixXd& X = c.mat("X" + std::to_string(arg));
            twin.cols = X.cols();
            MatrixXd bigX = framed(X, 11.5), bigY = MatrixXd::Constant(X.rows() + 2, X.cols() + 3, -7.5);
            const MatrixXd bigX0 = bigX;
            { vf::Entry e("WhiteNoiseAcceleration::motion[Block]"); subj->motion(bigX.block(1, 2, X.rows(), X.cols()), bigY.block(1, 2, X.rows(), X.cols())); }
            mir.draw(d * X.cols());
            out_shape(name, MatrixXd(bigY.block(1, 2, X.rows(), X.cols())));
            vf::out_int(name + "_input_kept", vf::bit_equal(bigX, bigX0) ? 1 : 0);
            vf::out_int(name + "_frame_kept", frame_kept(bigY, X.rows(), X.cols(), -7.5) ? 1 : 0);
            if (ref_diff_at < 0 && !vf::bit_equal(MatrixXd(bigY.block(1, 2, X.rows(), X.cols())), ref_out[(std::size_t)k])) ref_diff_at = k;
        } else if (op[0] == 't' || op[0] == 'u') {
            const MatrixXd& P = c.mat("P" + std::to_string(arg)); const MatrixXd& C = c.mat("C" + std::to_string(arg));
            twin.cols = P.cols();
            VectorXd v;
            if (op[0] == 't') { vf::Entry e("WhiteNoiseAcceleration::getTransitionProbability"); v = subj->getTransitionProbability(P, C); }
            else {
                MatrixXd bigP = framed(P, 4.5), bigC = framed(C, -2.5);
                const MatrixXd bigP0 = bigP, bigC0 = bigC;
                { vf::Entry e("WhiteNoiseAcceleration::getTransitionProbability[Block]");
                  v = subj->getTransitionProbability(bigP.block(1, 2, P.rows(), P.cols()), bigC.block(1, 2, C.rows(), C.cols())); }
                vf::out_int(name + "_input_kept", vf::bit_equal(bigP, bigP0) && vf::bit_equal(bigC, bigC0) ? 1 : 0);
            }
            out_shape(name, v);
            if (ref_diff_at < 0 && !vf::bit_equal(MatrixXd(v), ref_out[(std::size_t)k])) ref_diff_at = k;
        } else if (op[0] == 's') {
            bool r;
            { vf::Entry e("StateModel::setSamplingTime"); r = subj->setSamplingTime(c.mat("S" + std::to_string(arg))(0, 0)); }
            vf::out_int(name + "_ret", r ? 1 : 0);
            getters(name);
        } else if (op[0] == 'c') {
            // move construction from the current subject (fresh or used); the moved-from object is destroyed at once
            std::unique_ptr<IntrWNA> nw;
            { vf::Entry e("WhiteNoiseAcceleration::WhiteNoiseAcceleration(WhiteNoiseAcceleration&&)"); nw.reset(new IntrWNA(std::move(*subj))); }
            vec.clear(); heap = std::move(nw); subj = heap.get();
            getters(name);
        } else if (op[0] == 'a') {
            // move assignment onto an object with other parameters that has already been used
            std::unique_ptr<IntrWNA> other = make_wna(dim2, T2, q2, seed2 + 3u, false);
            { vf::Entry e("WhiteNoiseAcceleration::getNoiseSample"); if (pre2 > 0) other->getNoiseSample((std::size_t)pre2); }
            { vf::Entry e("WhiteNoiseAcceleration::operator=(WhiteNoiseAcceleration&&)"); *other = std::move(*subj); }
            vec.clear(); heap = std::move(other); subj = heap.get();
            getters(name);
        } else if (op[0] == 'v') {
            // the subject becomes the first element of a vector that then grows (reallocation moves the elements)
            std::vector<IntrWNA> nv;
            { vf::Entry e("std::vector<WhiteNoiseAcceleration>::push_back");
              nv.push_back(std::move(*subj));
              for (unsigned int i = 0; i < 4; i++) nv.push_back(IntrWNA(dim_of(dim2), T2 * (1.0 + i), q2, seed2 + 5u + i)); }
            vec = std::move(nv); heap.reset(); subj = &vec[0];
            getters(name);
        }
        if (intrude) twin.cycle();      // and between the calls
        k++;
    }
    vf::clear_intruder();
    vf::out_int("intruder_calls", intrude ? (long)vf::intruder_state().calls : 0);
    vf::out_int("ref_diff_at", ref_diff_at);
    vf::out_mat("draws", mir.mat());
    if (c.has_int("conc") && c.integer("conc") != 0) {
        // three models with other parameters and data of the same shapes, one thread each: every result must be the
        // sequential one, bit for bit
        std::vector<std::function<MatrixXd()>> jobs;
        for (int t = 0; t < 3; t++) {
            const double Tt = T * (1.0 + 0.37 * t), qt = q * (1.0 + 0.61 * t); const unsigned int st = seed + 101u * (unsigned int)t;
            jobs.push_back([dim, d, Tt, qt, st]() {
                WhiteNoiseAcceleration w(dim_of(dim), Tt, qt, st);
                Twin data(dim, Tt, qt, st);
                MatrixXd X = data.data(3), Y = MatrixXd::Zero(d, 3), P = data.data(3), C = P + 0.3 * data.data(3);
                MatrixXd out = MatrixXd::Zero(d + 3, 10);
                out.topRows(d).leftCols(3) = w.getNoiseSample(3);
                w.motion(X, Y); out.topRows(d).middleCols(3, 3) = Y;
                VectorXd tp = w.getTransitionProbability(P, C);
                out.col(6).head(3) = tp;
                out.topRows(d).middleCols(7, 3) = w.getStateTransitionMatrix().leftCols(1).replicate(1, 3) + w.getNoiseCovarianceMatrix().leftCols(1).replicate(1, 3);
                return out;
            });
        }
        vf::out_int("concurrent_ok", concurrent_probe(jobs, 12));
    }
}

static void run_lti_state(const vf::Case& c) {
    const MatrixXd& F = c.mat("F"); const MatrixXd& Q = c.mat("Q");
    const std::string how = c.has_word("how") && !c.word("how").empty() ? c.word("how")[0] : "move_ctor";
    try {
        std::unique_ptr<ExposedLTIState> m;
        { vf::Entry e("LTIStateModel::LTIStateModel"); m.reset(new ExposedLTIState(F, Q)); }
        vf::out_str("result", "ok");
        // how the subject is obtained from the constructed object (hand-written move constructor / move assignment)
        std::unique_ptr<ExposedLTIState> other; std::vector<ExposedLTIState> vec;
        ExposedLTIState* subj = m.get();
        auto make_other = [&]() { return new ExposedLTIState(c.mat("F2"), c.mat("Q2")); };
        if (how == "move_ctor") {
            vf::Entry e("LTIStateModel::LTIStateModel(LTIStateModel&&)");
            other.reset(new ExposedLTIState(std::move(*m))); m.reset(); subj = other.get();
        } else if (how == "move_assign") {
            other.reset(make_other());
            vf::out_int("other_rows_before", other->getStateTransitionMatrix().rows());
            vf::Entry e("LTIStateModel::operator=(LTIStateModel&&)");
            *other = std::move(*m); m.reset(); subj = other.get();
        } else if (how == "self_assign") {
            vf::Entry e("LTIStateModel::operator=(LTIStateModel&&)");
            ExposedLTIState& self = *m; *m = std::move(self);
        } else if (how == "vector") {
            vf::Entry e("std::vector<LTIStateModel>::push_back");
            vec.push_back(std::move(*m)); m.reset();
            for (int i = 0; i < 4; i++) vec.push_back(ExposedLTIState(c.mat("F2"), c.mat("Q2")));
            subj = &vec[0];
        } else if (how == "chain") {
            vf::Entry e("LTIStateModel::operator=(LTIStateModel&&)");
            ExposedLTIState a(std::move(*m)); m.reset();
            other.reset(make_other()); *other = std::move(a);
            m.reset(new ExposedLTIState(std::move(*other))); other.reset(); subj = m.get();
        }
        out_shape("F", subj->getStateTransitionMatrix()); out_shape("Q", subj->getNoiseCovarianceMatrix()); out_shape("J", subj->getJacobian());
        vf::out_int("moved_same", vf::bit_equal(subj->getStateTransitionMatrix(), F) && vf::bit_equal(subj->getNoiseCovarianceMatrix(), Q) ? 1 : 0);
        // the base-class setSamplingTime / setProperty leave a time-invariant model as it is
        vf::out_int("sst_ret", subj->setSamplingTime(2.5) ? 1 : 0);
        vf::out_int("prop_ret", subj->setProperty("reset") ? 1 : 0);
        out_shape("F_after", subj->getStateTransitionMatrix()); out_shape("Q_after", subj->getNoiseCovarianceMatrix());
    } catch (const std::runtime_error& ex) { vf::out_str("result", classify(ex.what())); }
}

static void run_lti_meas(const vf::Case& c) {
    const MatrixXd& H = c.mat("H"); const MatrixXd& R = c.mat("R");
    try {
        vf::Entry e("LTIMeasurementModel::LTIMeasurementModel");
        ExposedLTIMeas m(H, R);
        vf::out_str("result", "ok");
        out_shape("H", m.getMeasurementMatrix());
        bool ok; MatrixXd R2; std::tie(ok, R2) = m.getNoiseCovarianceMatrix();
        out_shape("R", R2); vf::out_int("R_valid", ok ? 1 : 0);
    } catch (const std::runtime_error& ex) { vf::out_str("result", classify(ex.what())); }
}

static void index_error(const std::string& what) {
    // "... Provided: <v>. Index bound: <n>."
    auto p = what.find("Provided: "); auto b = what.find("Index bound: ");
    if (p != std::string::npos) vf::out_int("err_value", std::stol(what.substr(p + 10)));
    if (b != std::string::npos) vf::out_int("err_bound", std::stol(what.substr(b + 13)));
}

static void run_linmodel(const vf::Case& c) {
    const long n = c.integer("n"); const MatrixXd& R = c.mat("R");
    const bool defseed = c.has_int("defseed") && c.integer("defseed") != 0;
    const unsigned int seed = defseed ? 1u : (unsigned int)c.integer("seed");
    LinearModel::LinearMatrixComponent lmc{(std::size_t)n, indices(c.word("idxs"))};
    try {
        std::unique_ptr<ExposedLinearModel> m;
        {
            vf::Entry e("LinearModel::LinearModel");
            if (defseed) m.reset(new ExposedLinearModel(lmc, R)); else m.reset(new ExposedLinearModel(lmc, R, seed));
        }
        {
            // reproducibility: a twin with the same seed draws the same sample, another seed a different one
            ExposedLinearModel twin(lmc, R, seed), twin2(lmc, R, seed), other(lmc, R, defseed ? 2u : seed + 1u);
            vf::Entry e("LinearModel::getNoiseSample");
            MatrixXd a = twin.noise(3).second, b = twin2.noise(3).second, o = other.noise(3).second;
            vf::out_int("reproducible", vf::bit_equal(a, b) ? 1 : 0);
            vf::out_int("seed_sensitive", vf::bit_equal(a, o) ? 0 : 1);
        }
        vf::out_str("result", "ok");
        out_shape("H", m->getMeasurementMatrix());
        bool ok; MatrixXd R2; std::tie(ok, R2) = m->getNoiseCovarianceMatrix();
        out_shape("R", R2); vf::out_int("R_valid", ok ? 1 : 0);
        out_shape("sqrtR", m->sqrtR());
        Mirror mir(seed);
        // interleave = 1: an independent model over the same components with another covariance and seed draws between
        // the subject's calls (a generator or a work matrix shared between objects would show)
        std::unique_ptr<ExposedLinearModel> tw;
        if (c.has_int("interleave") && c.integer("interleave") != 0) tw.reset(new ExposedLinearModel(lmc, MatrixXd(3.0 * R + MatrixXd::Identity(R.rows(), R.cols())), seed + 9u));
        long k = 0;
        for (const std::string& s : c.word("nums")) {
            const int num = std::stoi(s);
            bool v; MatrixXd w;
            if (tw) { vf::Entry e("LinearModel::getNoiseSample"); tw->noise(num + 1); }
            { vf::Entry e("LinearModel::getNoiseSample"); std::tie(v, w) = m->noise(num); }
            mir.draw(m->sqrtR().cols() * num);
            out_shape("r" + std::to_string(k), w); vf::out_int("r" + std::to_string(k) + "_valid", v ? 1 : 0);
            k++;
        }
        vf::out_mat("draws", mir.mat());
        if (c.has_int("conc") && c.integer("conc") != 0) {
            // three sensor models with their own covariances and seeds, one thread each
            std::vector<std::function<MatrixXd()>> jobs;
            for (int t = 0; t < 3; t++) {
                const MatrixXd Rt = (1.0 + 0.5 * t) * R; const unsigned int st = seed + 13u * (unsigned int)t;
                jobs.push_back([lmc, Rt, st]() { ExposedLinearModel w(lmc, Rt, st); MatrixXd a = w.noise(3).second, b = w.noise(2).second; MatrixXd o(a.rows(), 5); o << a, b; return o; });
            }
            vf::out_int("concurrent_ok", concurrent_probe(jobs, 12));
        }
    } catch (const std::runtime_error& ex) {
        vf::out_str("result", classify(ex.what())); index_error(ex.what());
    }
}

static void out_data(const std::string& name, const Data& dt) {
    if (!dt.has_value()) { vf::out_int(name + "_empty", 1); return; }
    vf::out_int(name + "_empty", 0);
    out_shape(name, any::any_cast<MatrixXd>(dt));
}

static void run_sim(const vf::Case& c, bool with_sensor) {
    const long dim = c.integer("dim"); const double T = c.mat("Tq")(0, 0), q = c.mat("Tq")(0, 1);
    const bool defseed = c.has_int("defseed") && c.integer("defseed") != 0;
    const unsigned int seed = defseed ? 1u : (unsigned int)c.integer("seed");
    const long d = 2 * dim; const long len = c.integer("len");
    const MatrixXd& x0 = c.mat("x0");
    const long premove = c.has_int("premove") ? c.integer("premove") : -1;
    // reference: the same pipeline built from the same arguments, its state model never moved, used while no other object
    // is, serving the same call sequence; the subject must return the same values bit for bit
    std::vector<long> ref_ret; std::vector<MatrixXd> ref_val;
    if (len > 0) {
        vf::Entry e("SimulatedStateModel::SimulatedStateModel");
        Quiet quiet;
        std::unique_ptr<IntrWNA> rw = make_wna(dim, T, q, seed, defseed);
        rw->getNoiseSample((std::size_t)d);
        if (premove > 0) rw->getNoiseSample((std::size_t)premove);
        std::unique_ptr<StateModel> rsm(std::move(rw));
        VectorXd v0 = x0.col(0);
        std::unique_ptr<SimulatedStateModel> rsim(new SimulatedStateModel(std::move(rsm), v0, (unsigned int)len));
        SimulatedStateModel* rp = rsim.get();
        std::unique_ptr<SimulatedLinearSensor> rsens;
        if (with_sensor) {
            LinearModel::LinearMatrixComponent lmc{(std::size_t)d, indices(c.word("idxs"))};
            const bool ds2 = c.has_int("defseed2") && c.integer("defseed2") != 0;
            if (ds2) rsens.reset(new SimulatedLinearSensor(std::move(rsim), lmc, c.mat("R")));
            else rsens.reset(new SimulatedLinearSensor(std::move(rsim), lmc, c.mat("R"), (unsigned int)c.integer("seed2")));
        }
        for (const std::string& op : c.word("ops")) {
            bool r;
            if (op == "b") { vf::Entry e2("SimulatedStateModel::bufferData"); r = rp->bufferData(); }
            else if (op == "f") { vf::Entry e2("SimulatedLinearSensor::freeze"); r = rsens->freeze(); }
            else if (op == "r") r = rp->setProperty("reset"); else r = rp->setProperty("other");
            ref_ret.push_back(r ? 1 : 0);
            if (with_sensor) ref_val.push_back(any::any_cast<MatrixXd>(rsens->measure().second));
            else { Data dt = rp->getData(); ref_val.push_back(dt.has_value() ? any::any_cast<MatrixXd>(dt) : MatrixXd()); }
        }
    }
    long ref_diff_at = -1;
    std::unique_ptr<SimulatedStateModel> sim;
    Mirror mir(seed);
    std::unique_ptr<IntrWNA> wnap = make_wna(dim, T, q, seed, defseed);
    probe(*wnap, mir, dim, T, q, seed, defseed, d);
    // premove >= 0: the state model draws that many further samples and is then obtained by move construction
    if (premove >= 0) {
        { vf::Entry e("WhiteNoiseAcceleration::getNoiseSample"); if (premove > 0) wnap->getNoiseSample((std::size_t)premove); }
        mir.draw(d * premove); mir.from = mir.all.size();
        vf::Entry e("WhiteNoiseAcceleration::WhiteNoiseAcceleration(WhiteNoiseAcceleration&&)");
        std::unique_ptr<IntrWNA> nw(new IntrWNA(std::move(*wnap))); wnap = std::move(nw);
    }
    // intrude = 1: inside every virtual callback of the subject's state model / simulated model, and between the calls,
    // an independent twin (model, trajectory with its own cursor, sensor) of the same shapes is used
    const bool intrude = c.has_int("intrude") && c.integer("intrude") != 0;
    Twin twin(dim, 1.7 * T, 0.4 * q, seed + 29u);
    std::unique_ptr<SimulatedStateModel> twin_sim_owner; SimulatedStateModel* twin_sim = nullptr;
    std::unique_ptr<SimulatedLinearSensor> twin_sensor;
    long twin_calls = 0;
    if (intrude) {
        std::unique_ptr<StateModel> tw(new WhiteNoiseAcceleration(dim_of(dim), 0.6 * T, 2.5 * q, seed + 31u));
        VectorXd t0 = -2.0 * x0.col(0);
        twin_sim_owner.reset(new SimulatedStateModel(std::move(tw), t0, 4u)); twin_sim = twin_sim_owner.get();
        if (with_sensor) {
            LinearModel::LinearMatrixComponent tl{(std::size_t)d, indices(c.word("idxs"))};
            const MatrixXd& R = c.mat("R");
            twin_sensor.reset(new SimulatedLinearSensor(std::move(twin_sim_owner), tl, MatrixXd(2.0 * R), (unsigned int)c.integer("seed2") + 3u));
        }
        vf::set_intruder([&]() {
            Quiet quiet;
            twin.cycle();
            twin_calls++;
            if (twin_calls % 3 == 0) twin_sim->setProperty("reset");
            if (twin_sensor) { vf::Entry e("SimulatedLinearSensor::freeze"); twin_sensor->freeze(); twin_sensor->measure(); }
            else { vf::Entry e("SimulatedStateModel::bufferData"); twin_sim->bufferData(); twin_sim->getData(); }
        });
    }
    struct ClearIntruder { ~ClearIntruder() { vf::clear_intruder(); } } clear_intruder_at_exit;
    try {
        vf::Entry e("SimulatedStateModel::SimulatedStateModel");
        std::unique_ptr<StateModel> wna(std::move(wnap));
        VectorXd v0 = x0.col(0);
        sim.reset(new IntrSim(std::move(wna), v0, (unsigned int)len));
    } catch (const std::runtime_error& ex) {
        const std::string what = ex.what();
        vf::out_str("ctor", what.find("SIMULATEDSTATEMODEL::CTOR") != std::string::npos && what.find("at least 1") != std::string::npos ? "throws_empty" : "throws_other");
        return;
    }
    vf::out_str("ctor", "ok");
    mir.draw(d * (len - 1));
    SimulatedStateModel* simp = sim.get();
    vf::out_mat("draws", mir.mat());
    if (!with_sensor) {
        out_data("data_init", simp->getData());
        long k = 0;
        for (const std::string& op : c.word("ops")) {
            bool r = false;
            {
                Quiet quiet;
                if (op == "b") { vf::Entry e("SimulatedStateModel::bufferData"); r = simp->bufferData(); }
                else if (op == "r") { vf::Entry e("SimulatedStateModel::setProperty"); r = simp->setProperty("reset"); }
                else { vf::Entry e("SimulatedStateModel::setProperty"); r = simp->setProperty("other"); }
            }
            vf::out_int("ret" + std::to_string(k), r ? 1 : 0);
            Data dnow = simp->getData();
            out_data("data" + std::to_string(k), dnow);
            if (ref_diff_at < 0 && (ref_ret[(std::size_t)k] != (r ? 1 : 0) ||
                                    !vf::bit_equal(dnow.has_value() ? any::any_cast<MatrixXd>(dnow) : MatrixXd(), ref_val[(std::size_t)k]))) ref_diff_at = k;
            vf::intrude();
            k++;
        }
        vf::out_int("intruder_calls", intrude ? (long)vf::intruder_state().calls : 0);
        vf::out_int("ref_diff_at", ref_diff_at);
    } else {
        const MatrixXd& R = c.mat("R");
        const bool defseed2 = c.has_int("defseed2") && c.integer("defseed2") != 0;
        const unsigned int seed2 = defseed2 ? 1u : (unsigned int)c.integer("seed2");
        LinearModel::LinearMatrixComponent lmc{(std::size_t)d, indices(c.word("idxs"))};
        std::unique_ptr<ExposedSensor> sens;
        {
            vf::Entry e("SimulatedLinearSensor::SimulatedLinearSensor");
            if (defseed2) sens.reset(new ExposedSensor(std::move(sim), lmc, R));
            else sens.reset(new ExposedSensor(std::move(sim), lmc, R, seed2));
        }
        Mirror mir2(seed2);
        out_shape("H", sens->getMeasurementMatrix()); out_shape("sqrtR", sens->sqrtR());
        vf::out_int("meas_size", (long)sens->getMeasurementDescription().total_size());
        vf::out_int("meas_lin", (long)sens->getMeasurementDescription().linear_components());
        vf::out_int("meas_circ", (long)sens->getMeasurementDescription().circular_components());
        vf::out_int("input_size", (long)sens->getInputDescription().total_size());
        vf::out_int("input_noise", (long)sens->getInputDescription().noise_components());
        {
            bool ok; Data dt; std::tie(ok, dt) = sens->measure();
            MatrixXd mm = any::any_cast<MatrixXd>(dt);
            vf::out_int("meas_init_valid", ok ? 1 : 0); out_shape("meas_init", mm);
        }
        long k = 0;
        for (const std::string& op : c.word("ops")) {
            bool r = false;
            {
                Quiet quiet;
                if (op == "f") {
                    { vf::Entry e("SimulatedLinearSensor::freeze"); r = sens->freeze(); }
                    if (r) mir2.draw(sens->sqrtR().cols());
                }
                else if (op == "r") { vf::Entry e("SimulatedStateModel::setProperty"); r = simp->setProperty("reset"); }
                else { vf::Entry e("SimulatedStateModel::setProperty"); r = simp->setProperty("other"); }
            }
            vf::out_int("ret" + std::to_string(k), r ? 1 : 0);
            bool ok; Data dt;
            { vf::Entry e("SimulatedLinearSensor::measure"); std::tie(ok, dt) = sens->measure(); }
            vf::out_int("meas" + std::to_string(k) + "_valid", ok ? 1 : 0);
            out_shape("meas" + std::to_string(k), any::any_cast<MatrixXd>(dt));
            if (ref_diff_at < 0 && (ref_ret[(std::size_t)k] != (r ? 1 : 0) || !vf::bit_equal(any::any_cast<MatrixXd>(dt), ref_val[(std::size_t)k]))) ref_diff_at = k;
            vf::intrude();
            k++;
        }
        vf::out_int("intruder_calls", intrude ? (long)vf::intruder_state().calls : 0);
        vf::out_int("ref_diff_at", ref_diff_at);
        vf::out_mat("draws2", mir2.mat());
    }
    if (c.has_int("conc") && c.integer("conc") != 0) {
        // three pipelines (model, trajectory of length 4 with a reset in the middle, sensor) with their own parameters, one thread each
        vf::clear_intruder();
        std::vector<std::function<MatrixXd()>> jobs;
        const std::vector<std::size_t> ix = with_sensor ? indices(c.word("idxs")) : std::vector<std::size_t>{0};
        const MatrixXd Rs = with_sensor ? c.mat("R") : MatrixXd::Identity(1, 1);
        for (int t = 0; t < 3; t++) {
            const double Tt = T * (1.0 + 0.41 * t), qt = q * (1.0 + 0.23 * t); const unsigned int st = seed + 7u * (unsigned int)t;
            const VectorXd xt = (1.0 + t) * x0.col(0);
            jobs.push_back([dim, d, Tt, qt, st, xt, ix, Rs, t]() {
                std::unique_ptr<StateModel> w(new WhiteNoiseAcceleration(dim_of(dim), Tt, qt, st));
                std::unique_ptr<SimulatedStateModel> sm(new SimulatedStateModel(std::move(w), xt, 4u));
                SimulatedStateModel* p = sm.get();
                LinearModel::LinearMatrixComponent lmc{(std::size_t)d, ix};
                SimulatedLinearSensor sens(std::move(sm), lmc, MatrixXd((1.0 + t) * Rs), st + 1u);
                MatrixXd out = MatrixXd::Zero(d + (long)ix.size(), 6);
                for (int k = 0; k < 6; k++) {
                    if (!sens.freeze()) continue;
                    out.col(k).head(d) = any::any_cast<MatrixXd>(p->getData());
                    out.col(k).tail((long)ix.size()) = any::any_cast<MatrixXd>(sens.measure().second);
                }
                return out;
            });
        }
        vf::out_int("concurrent_ok", concurrent_probe(jobs, 8));
    }
}

static void run_grid(const vf::Case& c) {
    const MatrixXd& a = c.mat("area"); const long nx = c.integer("nx"), ny = c.integer("ny"), np = c.integer("np");
    ParticleSet ps((std::size_t)np, 4);
    ps.state() = c.mat("st0"); ps.weight() = c.mat("w0").col(0);
    std::unique_ptr<InitSurveillanceAreaGrid> g;
    if (c.integer("ctor4")) g.reset(new InitSurveillanceAreaGrid(a(0, 1), a(0, 3), (unsigned int)nx, (unsigned int)ny));
    else g.reset(new InitSurveillanceAreaGrid(a(0, 0), a(0, 1), a(0, 2), a(0, 3), (unsigned int)nx, (unsigned int)ny));
    bool r;
    { vf::Entry e("InitSurveillanceAreaGrid::initialize"); r = g->initialize(ps); }
    vf::out_int("ret", r ? 1 : 0);
    out_shape("state", ps.state()); out_shape("weight", ps.weight());
    vf::out_int("components", (long)ps.components);
}

// A user-defined additive linear model: an LTIStateModel whose state has linear and circular (Euler) components and
// whose getNoiseSample serves the columns of a given matrix in order (no random numbers).
struct UserLTI : public LTIStateModel {
    VectorDescription desc; MatrixXd W; long next = 0;
    UserLTI(const MatrixXd& F, const MatrixXd& Q, std::size_t lin, std::size_t circ, const MatrixXd& W_) : LTIStateModel(F, Q), desc(lin, circ), W(W_) {}
    UserLTI(UserLTI&&) = default;
    UserLTI& operator=(UserLTI&&) = default;
    VectorDescription getStateDescription() override { vf::intrude(); return desc; }
    MatrixXd getNoiseSample(const std::size_t num) override {
        vf::intrude();
        MatrixXd w = MatrixXd::Zero(W.rows(), (long)num);
        for (long j = 0; j < (long)num; j++) if (next + j < W.cols()) w.col(j) = W.col(next + j);
        next += (long)num;
        return w;
    }
};

//   ltisim [int lin, int circ, mat F, mat Q, mat W n x (len-1), mat x0, int len, word how (fresh | move_ctor | move_assign),
//           mat F2 Q2 (the other object), word ops (b|f / r / o), int sensor, word idxs, mat R, int seed2]
static void run_ltisim(const vf::Case& c) {
    const long lin = c.integer("lin"), circ = c.integer("circ"), n = lin + circ, len = c.integer("len");
    const bool with_sensor = c.integer("sensor") != 0;
    const std::string how = c.word("how").empty() ? "fresh" : c.word("how")[0];
    std::unique_ptr<UserLTI> um(new UserLTI(c.mat("F"), c.mat("Q"), (std::size_t)lin, (std::size_t)circ, c.mat("W")));
    if (how == "move_ctor") { std::unique_ptr<UserLTI> nw(new UserLTI(std::move(*um))); um = std::move(nw); }
    else if (how == "move_assign") {
        std::unique_ptr<UserLTI> other(new UserLTI(c.mat("F2"), c.mat("Q2"), 1, 0, MatrixXd::Constant(c.mat("F2").rows(), 2, 0.5)));
        other->getNoiseSample(1);
        *other = std::move(*um); um = std::move(other);
    }
    std::unique_ptr<StateModel> sm(std::move(um));
    VectorXd v0 = c.mat("x0").col(0);
    std::unique_ptr<SimulatedStateModel> sim;
    { vf::Entry e("SimulatedStateModel::SimulatedStateModel"); sim.reset(new IntrSim(std::move(sm), v0, (unsigned int)len)); }
    SimulatedStateModel* simp = sim.get();
    std::unique_ptr<ExposedSensor> sens;
    Mirror mir2((unsigned int)c.integer("seed2"));
    if (with_sensor) {
        LinearModel::LinearMatrixComponent lmc{(std::size_t)n, indices(c.word("idxs"))};
        { vf::Entry e("SimulatedLinearSensor::SimulatedLinearSensor"); sens.reset(new ExposedSensor(std::move(sim), lmc, c.mat("R"), (unsigned int)c.integer("seed2"))); }
        out_shape("H", sens->getMeasurementMatrix()); out_shape("sqrtR", sens->sqrtR());
        vf::out_int("meas_size", (long)sens->getMeasurementDescription().total_size());
        vf::out_int("meas_lin", (long)sens->getMeasurementDescription().linear_components());
        vf::out_int("meas_circ", (long)sens->getMeasurementDescription().circular_components());
        vf::out_int("input_size", (long)sens->getInputDescription().total_size());
        vf::out_int("input_lin", (long)sens->getInputDescription().linear_components());
        vf::out_int("input_circ", (long)sens->getInputDescription().circular_components());
        vf::out_int("input_noise", (long)sens->getInputDescription().noise_components());
    }
    long k = 0;
    for (const std::string& op : c.word("ops")) {
        bool r = false;
        {
            Quiet quiet;
            if (op == "b") { vf::Entry e("SimulatedStateModel::bufferData"); r = simp->bufferData(); }
            else if (op == "f") { { vf::Entry e("SimulatedLinearSensor::freeze"); r = sens->freeze(); } if (r) mir2.draw(sens->sqrtR().cols()); }
            else if (op == "r") { vf::Entry e("SimulatedStateModel::setProperty"); r = simp->setProperty("reset"); }
            else { vf::Entry e("SimulatedStateModel::setProperty"); r = simp->setProperty("other"); }
        }
        vf::out_int("ret" + std::to_string(k), r ? 1 : 0);
        out_data("data" + std::to_string(k), simp->getData());
        if (with_sensor) out_shape("meas" + std::to_string(k), any::any_cast<MatrixXd>(sens->measure().second));
        k++;
    }
    if (with_sensor) vf::out_mat("draws2", mir2.mat());
}

// two initialisers alive at the same time, applied in any order and repeatedly to a pool of particle sets of several
// sizes / row counts / layouts; a set keeps whatever the previous call (or the previous fill) left in it
static void run_gridseq(const vf::Case& c) {
    std::vector<std::unique_ptr<InitSurveillanceAreaGrid>> inits;
    for (int i = 0; i < 2; i++) {
        const std::string t = std::to_string(i);
        const MatrixXd& a = c.mat("area" + t); const unsigned int nx = (unsigned int)c.integer("nx" + t), ny = (unsigned int)c.integer("ny" + t);
        std::unique_ptr<InitSurveillanceAreaGrid> g;
        if (c.integer("ctor4_" + t)) g.reset(new InitSurveillanceAreaGrid(a(0, 1), a(0, 3), nx, ny));
        else g.reset(new InitSurveillanceAreaGrid(a(0, 0), a(0, 1), a(0, 2), a(0, 3), nx, ny));
        if (i == 1 && c.has_int("copy1") && c.integer("copy1")) {      // obtained by copy construction, the original destroyed
            std::unique_ptr<InitSurveillanceAreaGrid> cp(new InitSurveillanceAreaGrid(*g)); g = std::move(cp);
        }
        inits.push_back(std::move(g));
    }
    std::vector<std::unique_ptr<ParticleSet>> sets;
    for (long s_ = 0; s_ < c.integer("nsets"); s_++) {
        const std::string t = std::to_string(s_);
        const std::size_t rows = (std::size_t)c.integer("rows" + t), np = (std::size_t)c.integer("np" + t);
        const std::string layout = c.word("layout" + t).empty() ? "lin" : c.word("layout" + t)[0];
        std::unique_ptr<ParticleSet> ps;
        if (layout == "lincirc" && rows >= 1) ps.reset(new ParticleSet(np, rows - 1, 1, false));
        else if (layout == "quat" && rows >= 4) ps.reset(new ParticleSet(np, rows - 4, 1, true));
        else if (layout == "linnoise" && rows >= 3) { ps.reset(new ParticleSet(np, rows - 2)); ps->augmentWithNoise(MatrixXd::Identity(2, 2)); }
        else ps.reset(new ParticleSet(np, rows));
        sets.push_back(std::move(ps));
    }
    for (long k = 0; k < c.integer("steps"); k++) {
        const std::string t = std::to_string(k);
        ParticleSet& ps = *sets[(std::size_t)c.integer("set" + t)];
        if (c.integer("fill" + t)) { ps.state() = c.mat("st" + t); ps.weight() = c.mat("w" + t).col(0); }
        out_shape("pre_state" + t, ps.state()); out_shape("pre_weight" + t, ps.weight());
        bool r;
        { vf::Entry e("InitSurveillanceAreaGrid::initialize"); r = inits[(std::size_t)c.integer("init" + t)]->initialize(ps); }
        vf::out_int("ret" + t, r ? 1 : 0);
        out_shape("state" + t, ps.state()); out_shape("weight" + t, ps.weight());
        vf::out_int("components" + t, (long)ps.components);
    }
    if (c.has_int("conc") && c.integer("conc") != 0) {
        // three initialisers over their own areas and particle sets (same sizes), one thread each
        std::vector<std::function<MatrixXd()>> jobs;
        const MatrixXd a = c.mat("area0"); const unsigned int nx = (unsigned int)c.integer("nx0"), ny = (unsigned int)c.integer("ny0");
        for (int t = 0; t < 3; t++)
            jobs.push_back([a, nx, ny, t]() {
                InitSurveillanceAreaGrid g(a(0, 0) - t, a(0, 1) + 2.0 * t, a(0, 2) + t, a(0, 3) + 3.0 * t, nx, ny);
                ParticleSet ps((std::size_t)(nx * ny), 4);
                ps.state().setConstant(1.5 + t);
                g.initialize(ps);
                MatrixXd o(5, (long)(nx * ny)); o.topRows(4) = ps.state(); o.row(4) = ps.weight().transpose();
                return o;
            });
        vf::out_int("concurrent_ok", concurrent_probe(jobs, 12));
    }
}

// empirical moments: the property "samples have covariance Q / R" observed without the RNG mirror
static void run_wna_stat(const vf::Case& c) {
    const long dim = c.integer("dim"); const double T = c.mat("Tq")(0, 0), q = c.mat("Tq")(0, 1);
    const unsigned int seed = (unsigned int)c.integer("seed");
    const long N = c.integer("N"); const MatrixXd& x = c.mat("x");
    std::unique_ptr<WhiteNoiseAcceleration> wna = make_wna(dim, T, q, seed, false);
    MatrixXd W;
    { vf::Entry e("WhiteNoiseAcceleration::getNoiseSample"); W = wna->getNoiseSample((std::size_t)N); }
    vf::out_int("noise_rows", W.rows()); vf::out_int("noise_cols", W.cols());
    out_shape("noise_mean", W.rowwise().mean());
    out_shape("noise_second_moment", (W * W.transpose()) / double(N));
    MatrixXd X = x.col(0).replicate(1, N), Y = MatrixXd::Zero(X.rows(), N);
    { vf::Entry e("WhiteNoiseAcceleration::motion"); wna->motion(X, Y); }
    VectorXd mu = Y.rowwise().mean();
    MatrixXd Yc = Y.colwise() - mu;
    out_shape("motion_mean", mu);
    out_shape("motion_cov", (Yc * Yc.transpose()) / double(N));
}

static void run_lin_stat(const vf::Case& c) {
    const long n = c.integer("n"); const MatrixXd& R = c.mat("R"); const long N = c.integer("N");
    LinearModel::LinearMatrixComponent lmc{(std::size_t)n, indices(c.word("idxs"))};
    ExposedLinearModel m(lmc, R, (unsigned int)c.integer("seed"));
    MatrixXd W;
    { vf::Entry e("LinearModel::getNoiseSample"); W = m.noise((int)N).second; }
    vf::out_int("noise_rows", W.rows()); vf::out_int("noise_cols", W.cols());
    out_shape("noise_mean", W.rowwise().mean());
    out_shape("noise_second_moment", (W * W.transpose()) / double(N));
    out_shape("sqrtR", m.sqrtR());
    // the same sensor over a simulated trajectory: measure() - H x_k over many freezes
    const long Ns = N / 4, dim = n / 2;
    std::unique_ptr<StateModel> wna(new WhiteNoiseAcceleration(dim_of(dim), 1.0, 1.0, (unsigned int)c.integer("seed") + 7u));
    VectorXd x0 = VectorXd::Zero(n);
    std::unique_ptr<SimulatedStateModel> sim(new SimulatedStateModel(std::move(wna), x0, (unsigned int)Ns));
    SimulatedStateModel* simp = sim.get();
    ExposedSensor sens(std::move(sim), lmc, R, (unsigned int)c.integer("seed") + 11u);
    MatrixXd Res(W.rows(), Ns); long failures = 0;
    for (long k = 0; k < Ns; k++) {
        bool ok;
        { vf::Entry e("SimulatedLinearSensor::freeze"); ok = sens.freeze(); }
        if (!ok) { failures++; Res.col(k).setZero(); continue; }
        MatrixXd y = any::any_cast<MatrixXd>(sens.measure().second);
        MatrixXd xk = any::any_cast<MatrixXd>(simp->getData());
        Res.col(k) = y - sens.getMeasurementMatrix() * xk;
    }
    bool past; { vf::Entry e("SimulatedLinearSensor::freeze"); past = sens.freeze(); }
    vf::out_int("resid_count", Ns); vf::out_int("freeze_failures", failures); vf::out_int("freeze_past_end", past ? 1 : 0);
    out_shape("resid_mean", Res.rowwise().mean());
    out_shape("resid_second_moment", (Res * Res.transpose()) / double(Ns));
}

int main() {
    vf::Case c;
    while (vf::read_case(std::cin, c)) {
        vf::out_begin(c.id);
        if (c.kind == "wna") run_wna(c);
        else if (c.kind == "wna_stat") run_wna_stat(c);
        else if (c.kind == "lin_stat") run_lin_stat(c);
        else if (c.kind == "lti_state") run_lti_state(c);
        else if (c.kind == "lti_meas") run_lti_meas(c);
        else if (c.kind == "linmodel") run_linmodel(c);
        else if (c.kind == "sim") run_sim(c, false);
        else if (c.kind == "sensor") run_sim(c, true);
        else if (c.kind == "grid") run_grid(c);
        else if (c.kind == "gridseq") run_gridseq(c);
        else if (c.kind == "ltisim") run_ltisim(c);
        vf::out_end();
    }
    return 0;
}
