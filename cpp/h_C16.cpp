// h_C16.cpp — harness for C16: the shipped models and initialisers.
// Case kinds (operands in brackets):
//   wna        [int dim 1|2|3, mat Tq 1x2, int seed, word script: n<num> | m<k> (mat X<k>) | t<k> (mat P<k>, C<k>)]
//   lti_state  [mat F, mat Q]            lti_meas [mat H, mat R]
//   linmodel   [int n, word idxs, mat R, int seed, word nums]
//   sim        [int dim, mat Tq, int seed, mat x0, int len (0: the constructor must throw), word ops: b | r | o]
//   sensor     [sim operands + word idxs, mat R, int seed2, word ops: f | r | o]
//   grid       [mat area 1x4, int nx, int ny, int np, int ctor4, mat st0 4xnp, mat w0 npx1]
// The standard-normal draws the library's generators produce are mirrored here
// (same engine, same distribution object type, same seed, same order) and printed
// as `draws`; the LDLT factor of a WhiteNoiseAcceleration is private, so it is
// observed through a twin instance: probeS = getNoiseSample(d) = L * probeZ.
#define VF_MAIN
#include "common.hpp"
#include <BayesFilters/InitSurveillanceAreaGrid.h>
#include <BayesFilters/LTIMeasurementModel.h>
#include <BayesFilters/LTIStateModel.h>
#include <BayesFilters/LinearModel.h>
#include <BayesFilters/ParticleSet.h>
#include <BayesFilters/SimulatedLinearSensor.h>
#include <BayesFilters/SimulatedStateModel.h>
#include <BayesFilters/WhiteNoiseAcceleration.h>
#include <random>
#include <sstream>

using namespace bfl;
using namespace Eigen;

// silences what the library prints on std::cout ("Successfully reset state model.") for the lifetime of the object
struct Quiet {
    std::ostringstream sink; std::streambuf* old;
    Quiet() : old(std::cout.rdbuf(sink.rdbuf())) {}
    ~Quiet() { std::cout.rdbuf(old); }
};

struct Mirror {
    std::mt19937_64 g; std::normal_distribution<double> nd; std::vector<double> all;
    explicit Mirror(unsigned int seed) : g(std::mt19937_64(seed)), nd(0.0, 1.0) {}
    void draw(long k) { for (long i = 0; i < k; i++) all.push_back(nd(g)); }
    MatrixXd mat() const { MatrixXd m(1, (long)all.size()); for (size_t i = 0; i < all.size(); i++) m(0, i) = all[i]; return m; }
};

static WhiteNoiseAcceleration::Dim dim_of(long k) {
    return k == 1 ? WhiteNoiseAcceleration::Dim::OneD : k == 2 ? WhiteNoiseAcceleration::Dim::TwoD : WhiteNoiseAcceleration::Dim::ThreeD;
}

static void out_shape(const std::string& name, const MatrixXd& M) {
    std::cout << "mat " << name << " " << M.rows() << " " << M.cols();
    for (long i = 0; i < M.rows(); i++) for (long j = 0; j < M.cols(); j++) std::cout << " " << vf::fmt(M(i, j));
    std::cout << "\n";
}

// observe the factor used for sampling through a twin instance
static void probe(long dim, double T, double q, long d) {
    const unsigned int pseed = 424242u;
    WhiteNoiseAcceleration twin(dim_of(dim), T, q, pseed), twin2(dim_of(dim), T, q, pseed), other(dim_of(dim), T, q, pseed + 1);
    Mirror mz(pseed);
    MatrixXd S, S2, S3;
    { vf::Entry e("WhiteNoiseAcceleration::getNoiseSample"); S = twin.getNoiseSample(d); S2 = twin2.getNoiseSample(d); S3 = other.getNoiseSample(d); }
    long zr = S.rows() > 0 ? S.rows() : d;
    mz.draw(zr * d);
    MatrixXd Z(zr, d);
    for (long i = 0; i < zr * d; i++) *(Z.data() + i) = mz.all[i];
    out_shape("probeS", S); out_shape("probeZ", Z);
    vf::out_int("reproducible", vf::bit_equal(S, S2) ? 1 : 0);
    vf::out_int("seed_sensitive", vf::bit_equal(S, S3) ? 0 : 1);
}

struct ExposedLTIState : public LTIStateModel {
    ExposedLTIState(const MatrixXd& F, const MatrixXd& Q) : LTIStateModel(F, Q) {}
    VectorDescription getStateDescription() override { return VectorDescription(getStateTransitionMatrix().rows()); }
};
struct ExposedLTIMeas : public LTIMeasurementModel {
    ExposedLTIMeas(const MatrixXd& H, const MatrixXd& R) : LTIMeasurementModel(H, R) {}
    bool freeze(const Data&) override { return true; }
    std::pair<bool, Data> measure(const Data&) const override { return std::make_pair(false, Data()); }
};
struct ExposedLinearModel : public LinearModel {
    ExposedLinearModel(const LinearMatrixComponent& lmc, const MatrixXd& R, unsigned int seed) : LinearModel(lmc, R, seed) {}
    bool freeze(const Data&) override { return true; }
    std::pair<bool, Data> measure(const Data&) const override { return std::make_pair(false, Data()); }
    MatrixXd sqrtR() const { return sqrt_R_; }
    std::pair<bool, MatrixXd> noise(int num) const { return getNoiseSample(num); }
};
struct ExposedSensor : public SimulatedLinearSensor {
    ExposedSensor(std::unique_ptr<SimulatedStateModel> s, const LinearMatrixComponent& lmc, const MatrixXd& R, unsigned int seed)
        : SimulatedLinearSensor(std::move(s), lmc, R, seed) {}
    MatrixXd sqrtR() const { return sqrt_R_; }
};

static std::string classify(const std::string& what) {
    auto has = [&](const char* s) { return what.find(s) != std::string::npos; };
    if (has("State transition matrix dimensions cannot be 0")) return "FEmpty";
    if (has("LTISTATEMODEL") && has("Noise covariance matrix dimensions cannot be 0")) return "QEmpty";
    if (has("State transition matrix must be a square")) return "FNotSquare";
    if (has("LTISTATEMODEL") && has("Noise covariance matrix must be a square")) return "QNotSquare";
    if (has("LTISTATEMODEL") && has("must be the same as the size")) return "FQMismatch";
    if (has("Measurement matrix dimensions cannot be 0")) return "HEmpty";
    if (has("LTIMEASUREMENTMODEL") && has("Noise covariance matrix dimensions cannot be 0")) return "REmpty";
    if (has("LTIMEASUREMENTMODEL") && has("Noise covariance matrix must be a square")) return "RNotSquare";
    if (has("LTIMEASUREMENTMODEL") && has("must be the same as the size")) return "HRMismatch";
    if (has("Index component out of bound")) return "Index";
    return "other";
}

static std::vector<std::size_t> indices(const std::vector<std::string>& w) {
    std::vector<std::size_t> v; for (auto& s : w) v.push_back((std::size_t)std::stoul(s)); return v;
}

static void run_wna(const vf::Case& c) {
    const long dim = c.integer("dim"); const double T = c.mat("Tq")(0, 0), q = c.mat("Tq")(0, 1);
    const unsigned int seed = (unsigned int)c.integer("seed");
    const long d = 2 * dim;
    WhiteNoiseAcceleration wna(dim_of(dim), T, q, seed);
    Mirror mir(seed);
    MatrixXd F, Q; long ssize;
    { vf::Entry e("WhiteNoiseAcceleration::getStateTransitionMatrix"); F = wna.getStateTransitionMatrix(); }
    { vf::Entry e("WhiteNoiseAcceleration::getNoiseCovarianceMatrix"); Q = wna.getNoiseCovarianceMatrix(); }
    { vf::Entry e("WhiteNoiseAcceleration::getStateDescription"); ssize = (long)wna.getStateDescription().total_size(); }
    vf::out_mat("F", F); vf::out_mat("Q", Q); vf::out_int("state_size", ssize);
    vf::out_int("set_property", wna.setProperty("reset") ? 1 : 0);
    probe(dim, T, q, d);
    long k = 0;
    for (const std::string& op : c.word("script")) {
        const std::string name = "r" + std::to_string(k);
        const long arg = std::stol(op.substr(1));
        if (op[0] == 'n') {
            MatrixXd s;
            { vf::Entry e("WhiteNoiseAcceleration::getNoiseSample"); s = wna.getNoiseSample((std::size_t)arg); }
            mir.draw(d * arg);
            out_shape(name, s);
        } else if (op[0] == 'm') {
            const MatrixXd& X = c.mat("X" + std::to_string(arg));
            MatrixXd Y = MatrixXd::Constant(X.rows(), X.cols(), -7.5);
            MatrixXd Xc = X;
            { vf::Entry e("WhiteNoiseAcceleration::motion"); wna.motion(Xc, Y); }
            mir.draw(d * X.cols());
            out_shape(name, Y);
            vf::out_int(name + "_input_kept", vf::bit_equal(X, Xc) ? 1 : 0);
        } else if (op[0] == 't') {
            const MatrixXd& P = c.mat("P" + std::to_string(arg)); const MatrixXd& C = c.mat("C" + std::to_string(arg));
            VectorXd v;
            { vf::Entry e("WhiteNoiseAcceleration::getTransitionProbability"); v = wna.getTransitionProbability(P, C); }
            out_shape(name, v);
        }
        k++;
    }
    vf::out_mat("draws", mir.mat());
}

static void run_lti_state(const vf::Case& c) {
    const MatrixXd& F = c.mat("F"); const MatrixXd& Q = c.mat("Q");
    try {
        vf::Entry e("LTIStateModel::LTIStateModel");
        ExposedLTIState m(F, Q);
        vf::out_str("result", "ok");
        out_shape("F", m.getStateTransitionMatrix()); out_shape("Q", m.getNoiseCovarianceMatrix()); out_shape("J", m.getJacobian());
        // the move constructor keeps the matrices too
        ExposedLTIState m2(std::move(m));
        vf::out_int("moved_same", vf::bit_equal(m2.getStateTransitionMatrix(), F) && vf::bit_equal(m2.getNoiseCovarianceMatrix(), Q) ? 1 : 0);
    } catch (const std::runtime_error& ex) { vf::out_str("result", classify(ex.what())); }
}

static void run_lti_meas(const vf::Case& c) {
    const MatrixXd& H = c.mat("H"); const MatrixXd& R = c.mat("R");
    try {
        vf::Entry e("LTIMeasurementModel::LTIMeasurementModel");
        ExposedLTIMeas m(H, R);
        vf::out_str("result", "ok");
        out_shape("H", m.getMeasurementMatrix());
        bool ok; MatrixXd R2; std::tie(ok, R2) = m.getNoiseCovarianceMatrix();
        out_shape("R", R2); vf::out_int("R_valid", ok ? 1 : 0);
    } catch (const std::runtime_error& ex) { vf::out_str("result", classify(ex.what())); }
}

static void index_error(const std::string& what) {
    // "... Provided: <v>. Index bound: <n>."
    auto p = what.find("Provided: "); auto b = what.find("Index bound: ");
    if (p != std::string::npos) vf::out_int("err_value", std::stol(what.substr(p + 10)));
    if (b != std::string::npos) vf::out_int("err_bound", std::stol(what.substr(b + 13)));
}

static void run_linmodel(const vf::Case& c) {
    const long n = c.integer("n"); const MatrixXd& R = c.mat("R");
    const unsigned int seed = (unsigned int)c.integer("seed");
    LinearModel::LinearMatrixComponent lmc{(std::size_t)n, indices(c.word("idxs"))};
    try {
        std::unique_ptr<ExposedLinearModel> m;
        { vf::Entry e("LinearModel::LinearModel"); m.reset(new ExposedLinearModel(lmc, R, seed)); }
        vf::out_str("result", "ok");
        out_shape("H", m->getMeasurementMatrix());
        bool ok; MatrixXd R2; std::tie(ok, R2) = m->getNoiseCovarianceMatrix();
        out_shape("R", R2); vf::out_int("R_valid", ok ? 1 : 0);
        out_shape("sqrtR", m->sqrtR());
        Mirror mir(seed);
        long k = 0;
        for (const std::string& s : c.word("nums")) {
            const int num = std::stoi(s);
            bool v; MatrixXd w;
            { vf::Entry e("LinearModel::getNoiseSample"); std::tie(v, w) = m->noise(num); }
            mir.draw(m->sqrtR().cols() * num);
            out_shape("r" + std::to_string(k), w); vf::out_int("r" + std::to_string(k) + "_valid", v ? 1 : 0);
            k++;
        }
        vf::out_mat("draws", mir.mat());
    } catch (const std::runtime_error& ex) {
        vf::out_str("result", classify(ex.what())); index_error(ex.what());
    }
}

static void out_data(const std::string& name, const Data& dt) {
    if (!dt.has_value()) { vf::out_int(name + "_empty", 1); return; }
    vf::out_int(name + "_empty", 0);
    out_shape(name, any::any_cast<MatrixXd>(dt));
}

static void run_sim(const vf::Case& c, bool with_sensor) {
    const long dim = c.integer("dim"); const double T = c.mat("Tq")(0, 0), q = c.mat("Tq")(0, 1);
    const unsigned int seed = (unsigned int)c.integer("seed");
    const long d = 2 * dim; const long len = c.integer("len");
    const MatrixXd& x0 = c.mat("x0");
    std::unique_ptr<SimulatedStateModel> sim;
    try {
        vf::Entry e("SimulatedStateModel::SimulatedStateModel");
        std::unique_ptr<StateModel> wna(new WhiteNoiseAcceleration(dim_of(dim), T, q, seed));
        VectorXd v0 = x0.col(0);
        sim.reset(new SimulatedStateModel(std::move(wna), v0, (unsigned int)len));
    } catch (const std::runtime_error& ex) {
        const std::string what = ex.what();
        vf::out_str("ctor", what.find("SIMULATEDSTATEMODEL::CTOR") != std::string::npos && what.find("at least 1") != std::string::npos ? "throws_empty" : "throws_other");
        return;
    }
    vf::out_str("ctor", "ok");
    Mirror mir(seed); mir.draw(d * (len - 1));
    SimulatedStateModel* simp = sim.get();
    probe(dim, T, q, d);
    vf::out_mat("draws", mir.mat());
    if (!with_sensor) {
        out_data("data_init", simp->getData());
        long k = 0;
        for (const std::string& op : c.word("ops")) {
            bool r = false;
            {
                Quiet quiet;
                if (op == "b") { vf::Entry e("SimulatedStateModel::bufferData"); r = simp->bufferData(); }
                else if (op == "r") { vf::Entry e("SimulatedStateModel::setProperty"); r = simp->setProperty("reset"); }
                else { vf::Entry e("SimulatedStateModel::setProperty"); r = simp->setProperty("other"); }
            }
            vf::out_int("ret" + std::to_string(k), r ? 1 : 0);
            out_data("data" + std::to_string(k), simp->getData());
            k++;
        }
    } else {
        const MatrixXd& R = c.mat("R"); const unsigned int seed2 = (unsigned int)c.integer("seed2");
        LinearModel::LinearMatrixComponent lmc{(std::size_t)d, indices(c.word("idxs"))};
        std::unique_ptr<ExposedSensor> sens;
        { vf::Entry e("SimulatedLinearSensor::SimulatedLinearSensor"); sens.reset(new ExposedSensor(std::move(sim), lmc, R, seed2)); }
        Mirror mir2(seed2);
        out_shape("H", sens->getMeasurementMatrix()); out_shape("sqrtR", sens->sqrtR());
        vf::out_int("meas_size", (long)sens->getMeasurementDescription().total_size());
        vf::out_int("input_size", (long)sens->getInputDescription().total_size());
        {
            bool ok; Data dt; std::tie(ok, dt) = sens->measure();
            MatrixXd mm = any::any_cast<MatrixXd>(dt);
            vf::out_int("meas_init_valid", ok ? 1 : 0); out_shape("meas_init", mm);
        }
        long k = 0;
        for (const std::string& op : c.word("ops")) {
            bool r = false;
            {
                Quiet quiet;
                if (op == "f") {
                    { vf::Entry e("SimulatedLinearSensor::freeze"); r = sens->freeze(); }
                    if (r) mir2.draw(sens->sqrtR().cols());
                }
                else if (op == "r") { vf::Entry e("SimulatedStateModel::setProperty"); r = simp->setProperty("reset"); }
                else { vf::Entry e("SimulatedStateModel::setProperty"); r = simp->setProperty("other"); }
            }
            vf::out_int("ret" + std::to_string(k), r ? 1 : 0);
            bool ok; Data dt;
            { vf::Entry e("SimulatedLinearSensor::measure"); std::tie(ok, dt) = sens->measure(); }
            vf::out_int("meas" + std::to_string(k) + "_valid", ok ? 1 : 0);
            out_shape("meas" + std::to_string(k), any::any_cast<MatrixXd>(dt));
            k++;
        }
        vf::out_mat("draws2", mir2.mat());
    }
}

static void run_grid(const vf::Case& c) {
    const MatrixXd& a = c.mat("area"); const long nx = c.integer("nx"), ny = c.integer("ny"), np = c.integer("np");
    ParticleSet ps((std::size_t)np, 4);
    ps.state() = c.mat("st0"); ps.weight() = c.mat("w0").col(0);
    std::unique_ptr<InitSurveillanceAreaGrid> g;
    if (c.integer("ctor4")) g.reset(new InitSurveillanceAreaGrid(a(0, 1), a(0, 3), (unsigned int)nx, (unsigned int)ny));
    else g.reset(new InitSurveillanceAreaGrid(a(0, 0), a(0, 1), a(0, 2), a(0, 3), (unsigned int)nx, (unsigned int)ny));
    bool r;
    { vf::Entry e("InitSurveillanceAreaGrid::initialize"); r = g->initialize(ps); }
    vf::out_int("ret", r ? 1 : 0);
    out_shape("state", ps.state()); out_shape("weight", ps.weight());
    vf::out_int("components", (long)ps.components);
}

int main() {
    vf::Case c;
    while (vf::read_case(std::cin, c)) {
        vf::out_begin(c.id);
        if (c.kind == "wna") run_wna(c);
        else if (c.kind == "lti_state") run_lti_state(c);
        else if (c.kind == "lti_meas") run_lti_meas(c);
        else if (c.kind == "linmodel") run_linmodel(c);
        else if (c.kind == "sim") run_sim(c, false);
        else if (c.kind == "sensor") run_sim(c, true);
        else if (c.kind == "grid") run_grid(c);
        vf::out_end();
    }
    return 0;
}
