// h_C16.cpp — harness for C16: the shipped models and initialisers.
// Case kinds (operands in brackets):
//   wna        [int dim 1|2|3, mat Tq 1x2, int seed, int defseed (1: the constructor without seed, i.e. seed 1),
//               word script: n<num> | m<k> (mat X<k>) | t<k> (mat P<k>, C<k>)]   (num and column counts may be 0)
//   wna_stat   [int dim, mat Tq, int seed, int N, mat x dx1]: empirical moments of N noise samples / N motions of x
//   lin_stat   [int n, word idxs, mat R, int seed, int N]: empirical second moment of N sensor noise samples
//   lti_state  [mat F, mat Q]            lti_meas [mat H, mat R]
//   linmodel   [int n, word idxs, mat R, int seed, word nums]
//   sim        [int dim, mat Tq, int seed, mat x0, int len (0: the constructor must throw), word ops: b | r | o]
//   sensor     [sim operands + word idxs, mat R, int seed2, word ops: f | r | o]
//   grid       [mat area 1x4, int nx, int ny, int np, int ctor4, mat st0 4xnp, mat w0 npx1]
// The standard-normal draws the library's generators produce are mirrored here
// (same engine, same distribution object type, same seed, same order) and printed
// as `draws`; the LDLT factor of a WhiteNoiseAcceleration is private, so it is
// observed on the instance under test: its first call is probeS = getNoiseSample(d)
// = L * probeZ (probeZ the first d*d mirrored draws; `draws` are the ones after them).
#define VF_MAIN
#include "common.hpp"
#include <BayesFilters/InitSurveillanceAreaGrid.h>
#include <BayesFilters/LTIMeasurementModel.h>
#include <BayesFilters/LTIStateModel.h>
#include <BayesFilters/LinearModel.h>
#include <BayesFilters/ParticleSet.h>
#include <BayesFilters/SimulatedLinearSensor.h>
#include <BayesFilters/SimulatedStateModel.h>
#include <BayesFilters/WhiteNoiseAcceleration.h>
#include <random>
#include <sstream>

using namespace bfl;
using namespace Eigen;

// silences what the library prints on std::cout ("Successfully reset state model.") for the lifetime of the object
struct Quiet {
    std::ostringstream sink; std::streambuf* old;
    Quiet() : old(std::cout.rdbuf(sink.rdbuf())) {}
    ~Quiet() { std::cout.rdbuf(old); }
};

struct Mirror {
    std::mt19937_64 g; std::normal_distribution<double> nd; std::vector<double> all;
    explicit Mirror(unsigned int seed) : g(std::mt19937_64(seed)), nd(0.0, 1.0) {}
    void draw(long k) { for (long i = 0; i < k; i++) all.push_back(nd(g)); }
    size_t from = 0;      // draws before `from` were used by the probe
    MatrixXd mat() const { MatrixXd m(1, (long)(all.size() - from)); for (size_t i = from; i < all.size(); i++) m(0, i - from) = all[i]; return m; }
};

static WhiteNoiseAcceleration::Dim dim_of(long k) {
    return k == 1 ? WhiteNoiseAcceleration::Dim::OneD : k == 2 ? WhiteNoiseAcceleration::Dim::TwoD : WhiteNoiseAcceleration::Dim::ThreeD;
}

static void out_shape(const std::string& name, const MatrixXd& M) {
    std::cout << "mat " << name << " " << M.rows() << " " << M.cols();
    for (long i = 0; i < M.rows(); i++) for (long j = 0; j < M.cols(); j++) std::cout << " " << vf::fmt(M(i, j));
    std::cout << "\n";
}

static std::unique_ptr<WhiteNoiseAcceleration> make_wna(long dim, double T, double q, unsigned int seed, bool defseed) {
    vf::Entry e("WhiteNoiseAcceleration::WhiteNoiseAcceleration");
    if (defseed) return std::unique_ptr<WhiteNoiseAcceleration>(new WhiteNoiseAcceleration(dim_of(dim), T, q));
    return std::unique_ptr<WhiteNoiseAcceleration>(new WhiteNoiseAcceleration(dim_of(dim), T, q, seed));
}

// observe the factor used for sampling on the instance under test (its first d*d draws), and
// reproducibility on twins: same seed -> bit-equal, other seed -> different
static void probe(WhiteNoiseAcceleration& wna, Mirror& mir, long dim, double T, double q, unsigned int seed, bool defseed, long d) {
    MatrixXd S, S2, S3;
    { vf::Entry e("WhiteNoiseAcceleration::getNoiseSample"); S = wna.getNoiseSample(d); }
    {
        std::unique_ptr<WhiteNoiseAcceleration> twin = make_wna(dim, T, q, seed, defseed);
        std::unique_ptr<WhiteNoiseAcceleration> other = make_wna(dim, T, q, defseed ? 2u : seed + 1u, false);
        vf::Entry e("WhiteNoiseAcceleration::getNoiseSample");
        S2 = twin->getNoiseSample(d); S3 = other->getNoiseSample(d);
    }
    long zr = S.rows() > 0 ? S.rows() : d;
    mir.draw(zr * d);
    MatrixXd Z(zr, d);
    for (long i = 0; i < zr * d; i++) *(Z.data() + i) = mir.all[i];
    mir.from = mir.all.size();
    out_shape("probeS", S); out_shape("probeZ", Z);
    vf::out_int("reproducible", vf::bit_equal(S, S2) ? 1 : 0);
    vf::out_int("seed_sensitive", vf::bit_equal(S, S3) ? 0 : 1);
}

struct ExposedLTIState : public LTIStateModel {
    ExposedLTIState(const MatrixXd& F, const MatrixXd& Q) : LTIStateModel(F, Q) {}
    VectorDescription getStateDescription() override { return VectorDescription(getStateTransitionMatrix().rows()); }
};
struct ExposedLTIMeas : public LTIMeasurementModel {
    ExposedLTIMeas(const MatrixXd& H, const MatrixXd& R) : LTIMeasurementModel(H, R) {}
    bool freeze(const Data&) override { return true; }
    std::pair<bool, Data> measure(const Data&) const override { return std::make_pair(false, Data()); }
};
struct ExposedLinearModel : public LinearModel {
    ExposedLinearModel(const LinearMatrixComponent& lmc, const MatrixXd& R, unsigned int seed) : LinearModel(lmc, R, seed) {}
    ExposedLinearModel(const LinearMatrixComponent& lmc, const MatrixXd& R) : LinearModel(lmc, R) {}
    bool freeze(const Data&) override { return true; }
    std::pair<bool, Data> measure(const Data&) const override { return std::make_pair(false, Data()); }
    MatrixXd sqrtR() const { return sqrt_R_; }
    std::pair<bool, MatrixXd> noise(int num) const { return getNoiseSample(num); }
};
struct ExposedSensor : public SimulatedLinearSensor {
    ExposedSensor(std::unique_ptr<SimulatedStateModel> s, const LinearMatrixComponent& lmc, const MatrixXd& R, unsigned int seed)
        : SimulatedLinearSensor(std::move(s), lmc, R, seed) {}
    ExposedSensor(std::unique_ptr<SimulatedStateModel> s, const LinearMatrixComponent& lmc, const MatrixXd& R)
        : SimulatedLinearSensor(std::move(s), lmc, R) {}
    MatrixXd sqrtR() const { return sqrt_R_; }
};

static std::string classify(const std::string& what) {
    auto has = [&](const char* s) { return what.find(s) != std::string::npos; };
    if (has("State transition matrix dimensions cannot be 0")) return "FEmpty";
    if (has("LTISTATEMODEL") && has("Noise covariance matrix dimensions cannot be 0")) return "QEmpty";
    if (has("State transition matrix must be a square")) return "FNotSquare";
    if (has("LTISTATEMODEL") && has("Noise covariance matrix must be a square")) return "QNotSquare";
    if (has("LTISTATEMODEL") && has("must be the same as the size")) return "FQMismatch";
    if (has("Measurement matrix dimensions cannot be 0")) return "HEmpty";
    if (has("LTIMEASUREMENTMODEL") && has("Noise covariance matrix dimensions cannot be 0")) return "REmpty";
    if (has("LTIMEASUREMENTMODEL") && has("Noise covariance matrix must be a square")) return "RNotSquare";
    if (has("LTIMEASUREMENTMODEL") && has("must be the same as the size")) return "HRMismatch";
    if (has("Index component out of bound")) return "Index";
    return "other";
}

static std::vector<std::size_t> indices(const std::vector<std::string>& w) {
    std::vector<std::size_t> v; for (auto& s : w) v.push_back((std::size_t)std::stoul(s)); return v;
}

static void run_wna(const vf::Case& c) {
    const long dim = c.integer("dim"); const double T = c.mat("Tq")(0, 0), q = c.mat("Tq")(0, 1);
    const bool defseed = c.has_int("defseed") && c.integer("defseed") != 0;
    const unsigned int seed = defseed ? 1u : (unsigned int)c.integer("seed");
    const long d = 2 * dim;
    std::unique_ptr<WhiteNoiseAcceleration> wnap = make_wna(dim, T, q, seed, defseed);
    WhiteNoiseAcceleration& wna = *wnap;
    Mirror mir(seed);
    MatrixXd F, Q; long ssize;
    { vf::Entry e("WhiteNoiseAcceleration::getStateTransitionMatrix"); F = wna.getStateTransitionMatrix(); }
    { vf::Entry e("WhiteNoiseAcceleration::getNoiseCovarianceMatrix"); Q = wna.getNoiseCovarianceMatrix(); }
    { vf::Entry e("WhiteNoiseAcceleration::getStateDescription"); ssize = (long)wna.getStateDescription().total_size(); }
    vf::out_mat("F", F); vf::out_mat("Q", Q); vf::out_int("state_size", ssize);
    vf::out_int("set_property", wna.setProperty("reset") ? 1 : 0);
    probe(wna, mir, dim, T, q, seed, defseed, d);
    long k = 0;
    for (const std::string& op : c.word("script")) {
        const std::string name = "r" + std::to_string(k);
        const long arg = std::stol(op.substr(1));
        if (op[0] == 'n') {
            MatrixXd s;
            { vf::Entry e("WhiteNoiseAcceleration::getNoiseSample"); s = wna.getNoiseSample((std::size_t)arg); }
            mir.draw(d * arg);
            out_shape(name, s);
        } else if (op[0] == 'm') {
            const MatrixXd& X = c.mat("X" + std::to_string(arg));
            MatrixXd Y = MatrixXd::Constant(X.rows(), X.cols(), -7.5);
            MatrixXd Xc = X;
            { vf::Entry e("WhiteNoiseAcceleration::motion"); wna.motion(Xc, Y); }
            mir.draw(d * X.cols());
            out_shape(name, Y);
            vf::out_int(name + "_input_kept", vf::bit_equal(X, Xc) ? 1 : 0);
        } else if (op[0] == 't') {
            const MatrixXd& P = c.mat("P" + std::to_string(arg)); const MatrixXd& C = c.mat("C" + std::to_string(arg));
            VectorXd v;
            { vf::Entry e("WhiteNoiseAcceleration::getTransitionProbability"); v = wna.getTransitionProbability(P, C); }
            out_shape(name, v);
        }
        k++;
    }
    vf::out_mat("draws", mir.mat());
}

static void run_lti_state(const vf::Case& c) {
    const MatrixXd& F = c.mat("F"); const MatrixXd& Q = c.mat("Q");
    try {
        vf::Entry e("LTIStateModel::LTIStateModel");
        ExposedLTIState m(F, Q);
        vf::out_str("result", "ok");
        out_shape("F", m.getStateTransitionMatrix()); out_shape("Q", m.getNoiseCovarianceMatrix()); out_shape("J", m.getJacobian());
        // the move constructor keeps the matrices too
        ExposedLTIState m2(std::move(m));
        vf::out_int("moved_same", vf::bit_equal(m2.getStateTransitionMatrix(), F) && vf::bit_equal(m2.getNoiseCovarianceMatrix(), Q) ? 1 : 0);
    } catch (const std::runtime_error& ex) { vf::out_str("result", classify(ex.what())); }
}

static void run_lti_meas(const vf::Case& c) {
    const MatrixXd& H = c.mat("H"); const MatrixXd& R = c.mat("R");
    try {
        vf::Entry e("LTIMeasurementModel::LTIMeasurementModel");
        ExposedLTIMeas m(H, R);
        vf::out_str("result", "ok");
        out_shape("H", m.getMeasurementMatrix());
        bool ok; MatrixXd R2; std::tie(ok, R2) = m.getNoiseCovarianceMatrix();
        out_shape("R", R2); vf::out_int("R_valid", ok ? 1 : 0);
    } catch (const std::runtime_error& ex) { vf::out_str("result", classify(ex.what())); }
}

static void index_error(const std::string& what) {
    // "... Provided: <v>. Index bound: <n>."
    auto p = what.find("Provided: "); auto b = what.find("Index bound: ");
    if (p != std::string::npos) vf::out_int("err_value", std::stol(what.substr(p + 10)));
    if (b != std::string::npos) vf::out_int("err_bound", std::stol(what.substr(b + 13)));
}

static void run_linmodel(const vf::Case& c) {
    const long n = c.integer("n"); const MatrixXd& R = c.mat("R");
    const bool defseed = c.has_int("defseed") && c.integer("defseed") != 0;
    const unsigned int seed = defseed ? 1u : (unsigned int)c.integer("seed");
    LinearModel::LinearMatrixComponent lmc{(std::size_t)n, indices(c.word("idxs"))};
    try {
        std::unique_ptr<ExposedLinearModel> m;
        {
            vf::Entry e("LinearModel::LinearModel");
            if (defseed) m.reset(new ExposedLinearModel(lmc, R)); else m.reset(new ExposedLinearModel(lmc, R, seed));
        }
        {
            // reproducibility: a twin with the same seed draws the same sample, another seed a different one
            ExposedLinearModel twin(lmc, R, seed), twin2(lmc, R, seed), other(lmc, R, defseed ? 2u : seed + 1u);
            vf::Entry e("LinearModel::getNoiseSample");
            MatrixXd a = twin.noise(3).second, b = twin2.noise(3).second, o = other.noise(3).second;
            vf::out_int("reproducible", vf::bit_equal(a, b) ? 1 : 0);
            vf::out_int("seed_sensitive", vf::bit_equal(a, o) ? 0 : 1);
        }
        vf::out_str("result", "ok");
        out_shape("H", m->getMeasurementMatrix());
        bool ok; MatrixXd R2; std::tie(ok, R2) = m->getNoiseCovarianceMatrix();
        out_shape("R", R2); vf::out_int("R_valid", ok ? 1 : 0);
        out_shape("sqrtR", m->sqrtR());
        Mirror mir(seed);
        long k = 0;
        for (const std::string& s : c.word("nums")) {
            const int num = std::stoi(s);
            bool v; MatrixXd w;
            { vf::Entry e("LinearModel::getNoiseSample"); std::tie(v, w) = m->noise(num); }
            mir.draw(m->sqrtR().cols() * num);
            out_shape("r" + std::to_string(k), w); vf::out_int("r" + std::to_string(k) + "_valid", v ? 1 : 0);
            k++;
        }
        vf::out_mat("draws", mir.mat());
    } catch (const std::runtime_error& ex) {
        vf::out_str("result", classify(ex.what())); index_error(ex.what());
    }
}

static void out_data(const std::string& name, const Data& dt) {
    if (!dt.has_value()) { vf::out_int(name + "_empty", 1); return; }
    vf::out_int(name + "_empty", 0);
    out_shape(name, any::any_cast<MatrixXd>(dt));
}

static void run_sim(const vf::Case& c, bool with_sensor) {
    const long dim = c.integer("dim"); const double T = c.mat("Tq")(0, 0), q = c.mat("Tq")(0, 1);
    const bool defseed = c.has_int("defseed") && c.integer("defseed") != 0;
    const unsigned int seed = defseed ? 1u : (unsigned int)c.integer("seed");
    const long d = 2 * dim; const long len = c.integer("len");
    const MatrixXd& x0 = c.mat("x0");
    std::unique_ptr<SimulatedStateModel> sim;
    Mirror mir(seed);
    std::unique_ptr<WhiteNoiseAcceleration> wnap = make_wna(dim, T, q, seed, defseed);
    probe(*wnap, mir, dim, T, q, seed, defseed, d);
    try {
        vf::Entry e("SimulatedStateModel::SimulatedStateModel");
        std::unique_ptr<StateModel> wna(std::move(wnap));
        VectorXd v0 = x0.col(0);
        sim.reset(new SimulatedStateModel(std::move(wna), v0, (unsigned int)len));
    } catch (const std::runtime_error& ex) {
        const std::string what = ex.what();
        vf::out_str("ctor", what.find("SIMULATEDSTATEMODEL::CTOR") != std::string::npos && what.find("at least 1") != std::string::npos ? "throws_empty" : "throws_other");
        return;
    }
    vf::out_str("ctor", "ok");
    mir.draw(d * (len - 1));
    SimulatedStateModel* simp = sim.get();
    vf::out_mat("draws", mir.mat());
    if (!with_sensor) {
        out_data("data_init", simp->getData());
        long k = 0;
        for (const std::string& op : c.word("ops")) {
            bool r = false;
            {
                Quiet quiet;
                if (op == "b") { vf::Entry e("SimulatedStateModel::bufferData"); r = simp->bufferData(); }
                else if (op == "r") { vf::Entry e("SimulatedStateModel::setProperty"); r = simp->setProperty("reset"); }
                else { vf::Entry e("SimulatedStateModel::setProperty"); r = simp->setProperty("other"); }
            }
            vf::out_int("ret" + std::to_string(k), r ? 1 : 0);
            out_data("data" + std::to_string(k), simp->getData());
            k++;
        }
    } else {
        const MatrixXd& R = c.mat("R");
        const bool defseed2 = c.has_int("defseed2") && c.integer("defseed2") != 0;
        const unsigned int seed2 = defseed2 ? 1u : (unsigned int)c.integer("seed2");
        LinearModel::LinearMatrixComponent lmc{(std::size_t)d, indices(c.word("idxs"))};
        std::unique_ptr<ExposedSensor> sens;
        {
            vf::Entry e("SimulatedLinearSensor::SimulatedLinearSensor");
            if (defseed2) sens.reset(new ExposedSensor(std::move(sim), lmc, R));
            else sens.reset(new ExposedSensor(std::move(sim), lmc, R, seed2));
        }
        Mirror mir2(seed2);
        out_shape("H", sens->getMeasurementMatrix()); out_shape("sqrtR", sens->sqrtR());
        vf::out_int("meas_size", (long)sens->getMeasurementDescription().total_size());
        vf::out_int("meas_lin", (long)sens->getMeasurementDescription().linear_components());
        vf::out_int("meas_circ", (long)sens->getMeasurementDescription().circular_components());
        vf::out_int("input_size", (long)sens->getInputDescription().total_size());
        vf::out_int("input_noise", (long)sens->getInputDescription().noise_components());
        {
            bool ok; Data dt; std::tie(ok, dt) = sens->measure();
            MatrixXd mm = any::any_cast<MatrixXd>(dt);
            vf::out_int("meas_init_valid", ok ? 1 : 0); out_shape("meas_init", mm);
        }
        long k = 0;
        for (const std::string& op : c.word("ops")) {
            bool r = false;
            {
                Quiet quiet;
                if (op == "f") {
                    { vf::Entry e("SimulatedLinearSensor::freeze"); r = sens->freeze(); }
                    if (r) mir2.draw(sens->sqrtR().cols());
                }
                else if (op == "r") { vf::Entry e("SimulatedStateModel::setProperty"); r = simp->setProperty("reset"); }
                else { vf::Entry e("SimulatedStateModel::setProperty"); r = simp->setProperty("other"); }
            }
            vf::out_int("ret" + std::to_string(k), r ? 1 : 0);
            bool ok; Data dt;
            { vf::Entry e("SimulatedLinearSensor::measure"); std::tie(ok, dt) = sens->measure(); }
            vf::out_int("meas" + std::to_string(k) + "_valid", ok ? 1 : 0);
            out_shape("meas" + std::to_string(k), any::any_cast<MatrixXd>(dt));
            k++;
        }
        vf::out_mat("draws2", mir2.mat());
    }
}

static void run_grid(const vf::Case& c) {
    const MatrixXd& a = c.mat("area"); const long nx = c.integer("nx"), ny = c.integer("ny"), np = c.integer("np");
    ParticleSet ps((std::size_t)np, 4);
    ps.state() = c.mat("st0"); ps.weight() = c.mat("w0").col(0);
    std::unique_ptr<InitSurveillanceAreaGrid> g;
    if (c.integer("ctor4")) g.reset(new InitSurveillanceAreaGrid(a(0, 1), a(0, 3), (unsigned int)nx, (unsigned int)ny));
    else g.reset(new InitSurveillanceAreaGrid(a(0, 0), a(0, 1), a(0, 2), a(0, 3), (unsigned int)nx, (unsigned int)ny));
    bool r;
    { vf::Entry e("InitSurveillanceAreaGrid::initialize"); r = g->initialize(ps); }
    vf::out_int("ret", r ? 1 : 0);
    out_shape("state", ps.state()); out_shape("weight", ps.weight());
    vf::out_int("components", (long)ps.components);
}

// empirical moments: the property "samples have covariance Q / R" observed without the RNG mirror
static void run_wna_stat(const vf::Case& c) {
    const long dim = c.integer("dim"); const double T = c.mat("Tq")(0, 0), q = c.mat("Tq")(0, 1);
    const unsigned int seed = (unsigned int)c.integer("seed");
    const long N = c.integer("N"); const MatrixXd& x = c.mat("x");
    std::unique_ptr<WhiteNoiseAcceleration> wna = make_wna(dim, T, q, seed, false);
    MatrixXd W;
    { vf::Entry e("WhiteNoiseAcceleration::getNoiseSample"); W = wna->getNoiseSample((std::size_t)N); }
    vf::out_int("noise_rows", W.rows()); vf::out_int("noise_cols", W.cols());
    out_shape("noise_mean", W.rowwise().mean());
    out_shape("noise_second_moment", (W * W.transpose()) / double(N));
    MatrixXd X = x.col(0).replicate(1, N), Y = MatrixXd::Zero(X.rows(), N);
    { vf::Entry e("WhiteNoiseAcceleration::motion"); wna->motion(X, Y); }
    VectorXd mu = Y.rowwise().mean();
    MatrixXd Yc = Y.colwise() - mu;
    out_shape("motion_mean", mu);
    out_shape("motion_cov", (Yc * Yc.transpose()) / double(N));
}

static void run_lin_stat(const vf::Case& c) {
    const long n = c.integer("n"); const MatrixXd& R = c.mat("R"); const long N = c.integer("N");
    LinearModel::LinearMatrixComponent lmc{(std::size_t)n, indices(c.word("idxs"))};
    ExposedLinearModel m(lmc, R, (unsigned int)c.integer("seed"));
    MatrixXd W;
    { vf::Entry e("LinearModel::getNoiseSample"); W = m.noise((int)N).second; }
    vf::out_int("noise_rows", W.rows()); vf::out_int("noise_cols", W.cols());
    out_shape("noise_mean", W.rowwise().mean());
    out_shape("noise_second_moment", (W * W.transpose()) / double(N));
    out_shape("sqrtR", m.sqrtR());
    // the same sensor over a simulated trajectory: measure() - H x_k over many freezes
    const long Ns = N / 4, dim = n / 2;
    std::unique_ptr<StateModel> wna(new WhiteNoiseAcceleration(dim_of(dim), 1.0, 1.0, (unsigned int)c.integer("seed") + 7u));
    VectorXd x0 = VectorXd::Zero(n);
    std::unique_ptr<SimulatedStateModel> sim(new SimulatedStateModel(std::move(wna), x0, (unsigned int)Ns));
    SimulatedStateModel* simp = sim.get();
    ExposedSensor sens(std::move(sim), lmc, R, (unsigned int)c.integer("seed") + 11u);
    MatrixXd Res(W.rows(), Ns); long failures = 0;
    for (long k = 0; k < Ns; k++) {
        bool ok;
        { vf::Entry e("SimulatedLinearSensor::freeze"); ok = sens.freeze(); }
        if (!ok) { failures++; Res.col(k).setZero(); continue; }
        MatrixXd y = any::any_cast<MatrixXd>(sens.measure().second);
        MatrixXd xk = any::any_cast<MatrixXd>(simp->getData());
        Res.col(k) = y - sens.getMeasurementMatrix() * xk;
    }
    bool past; { vf::Entry e("SimulatedLinearSensor::freeze"); past = sens.freeze(); }
    vf::out_int("resid_count", Ns); vf::out_int("freeze_failures", failures); vf::out_int("freeze_past_end", past ? 1 : 0);
    out_shape("resid_mean", Res.rowwise().mean());
    out_shape("resid_second_moment", (Res * Res.transpose()) / double(Ns));
}

int main() {
    vf::Case c;
    while (vf::read_case(std::cin, c)) {
        vf::out_begin(c.id);
        if (c.kind == "wna") run_wna(c);
        else if (c.kind == "wna_stat") run_wna_stat(c);
        else if (c.kind == "lin_stat") run_lin_stat(c);
        else if (c.kind == "lti_state") run_lti_state(c);
        else if (c.kind == "lti_meas") run_lti_meas(c);
        else if (c.kind == "linmodel") run_linmodel(c);
        else if (c.kind == "sim") run_sim(c, false);
        else if (c.kind == "sensor") run_sim(c, true);
        else if (c.kind == "grid") run_grid(c);
        vf::out_end();
    }
    return 0;
}
