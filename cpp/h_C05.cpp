// h_C05.cpp — harness for C05: SUKFCorrection (reduced and full noise-covariance
// constructors) and UKFCorrection (additive constructor) on the same inputs, over a
// harness AdditiveMeasurementModel computing one of a small family of measurement
// functions h (the same family is implemented by C05_Model.h_family):
//   hkind 0: h(x) = H x + b
//   hkind 1: h(x)_i = (H x + b)_i + g_i sin((G x)_i)
//   hkind 2: h(x)_i = (H x + b)_i + g_i (G x)_i (G2 x)_i
// Operands: H G G2 (m x n), b g y (m x 1), Rfull (m x m), Rblock (s x s, present when
// the reduced constructor is to be run), params (1 x 3: alpha beta kappa),
// means (n x comps), covs (n x n*comps), weights (comps x 1), int s, int hkind.
// kind "sukf": one correct() on fresh objects (plus a second, size-mismatching, call on the same SUKF object).
// kind "sukf_seq": int steps = T; the operands H G G2 b g y Rfull [Rblock] means covs weights hkind carry a
// suffix _1 .. _T; ONE SUKFCorrection object per constructor flag and ONE UKFCorrection object are driven through
// the T calls, the harness measurement model being re-programmed between the calls (R, y, h, sizes) and the
// predicted belief replaced; every call's outputs are printed with the prefix t<step>_.
#define VF_MAIN
#include "common.hpp"
#include <BayesFilters/AdditiveMeasurementModel.h>
#include <BayesFilters/GaussianMixture.h>
#include <BayesFilters/SUKFCorrection.h>
#include <BayesFilters/UKFCorrection.h>
#include <BayesFilters/sigma_point.h>
#include <BayesFilters/utils.h>
#include <Eigen/SVD>

using namespace bfl;
using namespace Eigen;

struct Family {
    long kind; MatrixXd H, G, G2, b, g;
    // same operation order as the list instance of the model: dot products accumulate from 0, left to right
    static double dot(const MatrixXd& A, long i, const Ref<const MatrixXd>& X, long col) {
        double acc = 0.0;
        for (long k = 0; k < A.cols(); k++) acc = acc + A(i, k) * X(k, col);
        return acc;
    }
    MatrixXd eval(const Ref<const MatrixXd>& X) const {
        MatrixXd out(H.rows(), X.cols());
        for (long c = 0; c < X.cols(); c++)
            for (long i = 0; i < H.rows(); i++) {
                double lin = dot(H, i, X, c) + b(i, 0);
                if (kind == 0) out(i, c) = lin;
                else if (kind == 1) out(i, c) = lin + g(i, 0) * std::sin(dot(G, i, X, c));
                else out(i, c) = lin + (g(i, 0) * dot(G, i, X, c)) * dot(G2, i, X, c);
            }
        return out;
    }
};

struct FamilyModel : public AdditiveMeasurementModel {
    Family f; MatrixXd R, y; long n, m;
    long nc = 0;     // trailing circular (Euler) rows of the state
    long mc = 0;     // trailing circular (Euler) rows of the measurement description
    long m_report;   // the measurement size the model reports (harness switch for the second, mismatching, step)
    mutable long noise_calls = 0;
    FamilyModel(const Family& f_, const MatrixXd& R_, const MatrixXd& y_, long n_, long m_) : f(f_), R(R_), y(y_), n(n_), m(m_), m_report(m_) {}
    bool freeze(const Data&) override { return true; }
    std::pair<bool, Data> measure(const Data&) const override { return std::make_pair(true, Data(y)); }
    std::pair<bool, Data> predictedMeasure(const Ref<const MatrixXd>& cur_states) const override {
        MatrixXd p = f.eval(cur_states);
        return std::make_pair(true, Data(std::move(p)));
    }
    std::pair<bool, Data> innovation(const Data& predicted_measurements, const Data& measurements) const override {
        MatrixXd innovation = -(any::any_cast<MatrixXd>(predicted_measurements).colwise() - any::any_cast<MatrixXd>(measurements).col(0));
        return std::make_pair(true, Data(std::move(innovation)));
    }
    std::pair<bool, MatrixXd> getNoiseCovarianceMatrix() const override { noise_calls++; return std::make_pair(true, R); }
    VectorDescription getInputDescription() const override { return VectorDescription(n - nc, nc, m); }
    VectorDescription getMeasurementDescription() const override { return VectorDescription(m_report - mc, mc); }
};

struct Step {
    Family fam; MatrixXd y, Rfull, Rblock, means, covs, weights; bool has_block;
};
static Step load(const vf::Case& c, const std::string& suf) {
    Step st;
    st.fam.kind = c.integer("hkind" + suf);
    st.fam.H = c.mat("H" + suf); st.fam.G = c.mat("G" + suf); st.fam.G2 = c.mat("G2" + suf);
    st.fam.b = c.mat("b" + suf); st.fam.g = c.mat("g" + suf);
    st.y = c.mat("y" + suf); st.Rfull = c.mat("Rfull" + suf);
    st.has_block = c.has_mat("Rblock" + suf);
    if (st.has_block) st.Rblock = c.mat("Rblock" + suf);
    st.means = c.mat("means" + suf); st.covs = c.mat("covs" + suf); st.weights = c.mat("weights" + suf);
    return st;
}
static void program(FamilyModel* mp, const Step& st, const MatrixXd& R) {
    mp->f = st.fam; mp->R = R; mp->y = st.y; mp->m = st.fam.H.rows(); mp->m_report = mp->m;
}
static GaussianMixture belief(const Step& st, long nc) {
    GaussianMixture pred(st.means.cols(), st.means.rows() - nc, nc);
    pred.mean() = st.means; pred.covariance() = st.covs; pred.weight() = st.weights;
    return pred;
}
static GaussianMixture filler(long comps, long n, long nc) {
    GaussianMixture corr(comps, n - nc, nc);
    corr.mean().setConstant(7.25); corr.covariance().setConstant(-3.5); corr.weight().setConstant(0.125);
    return corr;
}

// one correct() + getLikelihood() of an existing SUKFCorrection whose model has been programmed for this call
static void call_sukf(const std::string& pre, SUKFCorrection& sukf, FamilyModel* mp, const GaussianMixture& pred, long s, bool second, long outcomps) {
    const long n = pred.dim, comps = pred.components, m = mp->m, nc = mp->nc;
    GaussianMixture pred_copy(pred);
    GaussianMixture corr = filler(outcomps, n, nc);
    {
        vf::Entry e("SUKFCorrection::correct");
        sukf.freeze_measurements();
        sukf.correct(pred, corr);
    }
    bool ok; VectorXd lik;
    { vf::Entry e("SUKFCorrection::getLikelihood"); std::tie(ok, lik) = sukf.getLikelihood(); }
    vf::out_int(pre + "components", corr.components);
    vf::out_int(pre + "dim", corr.dim);
    for (long i = 0; i < (long)corr.components; i++) {
        vf::out_mat(pre + "mean" + std::to_string(i), corr.mean(i));
        vf::out_mat(pre + "cov" + std::to_string(i), corr.covariance(i));
        vf::out_num(pre + "lik" + std::to_string(i), ok && i < lik.size() ? lik(i) : NAN);
    }
    vf::out_mat(pre + "weights", corr.weight());
    vf::out_int(pre + "lik_valid", ok ? 1 : 0);
    vf::out_int(pre + "lik_size", lik.size());
    vf::out_int(pre + "pred_unchanged", vf::bit_equal(pred.mean(), pred_copy.mean()) && vf::bit_equal(pred.covariance(), pred_copy.covariance())
                                            && vf::bit_equal(pred.weight(), pred_copy.weight()) ? 1 : 0);
    vf::out_int(pre + "out_equals_pred", corr.components == pred.components && corr.dim == pred.dim && vf::bit_equal(corr.mean(), pred.mean())
                                             && vf::bit_equal(corr.covariance(), pred.covariance()) && vf::bit_equal(corr.weight(), pred.weight()) ? 1 : 0);
    // single cases: a second call on the SAME object with a measurement size that is not a multiple of s:
    // output = input, and no likelihood may be reported (the first call's innovations must not survive)
    if (second && s >= 2 && m % s == 0) {
        mp->m_report = m + 1;
        GaussianMixture corr2 = filler(comps, n, nc);
        { vf::Entry e("SUKFCorrection::correct#2"); sukf.correct(pred, corr2); }
        bool ok2; VectorXd lik2;
        { vf::Entry e("SUKFCorrection::getLikelihood#2"); std::tie(ok2, lik2) = sukf.getLikelihood(); }
        vf::out_int(pre + "2_lik_valid", ok2 ? 1 : 0);
        vf::out_int(pre + "2_out_equals_pred", corr2.components == pred.components && corr2.dim == pred.dim && vf::bit_equal(corr2.mean(), pred.mean())
                                                   && vf::bit_equal(corr2.covariance(), pred.covariance()) && vf::bit_equal(corr2.weight(), pred.weight()) ? 1 : 0);
        mp->m_report = m;
    }
}

static void call_ukf(const std::string& pre, UKFCorrection& ukf, const GaussianMixture& pred, long nc, long outcomps) {
    const long n = pred.dim, comps = pred.components;
    GaussianMixture corr = filler(outcomps, n, nc);
    {
        vf::Entry e("UKFCorrection::correct");
        ukf.freeze_measurements();
        ukf.correct(pred, corr);
    }
    bool ok; VectorXd lik;
    { vf::Entry e("UKFCorrection::getLikelihood"); std::tie(ok, lik) = ukf.getLikelihood(); }
    for (long i = 0; i < comps; i++) {
        vf::out_mat(pre + "u_mean" + std::to_string(i), corr.mean(i));
        vf::out_mat(pre + "u_cov" + std::to_string(i), corr.covariance(i));
        vf::out_num(pre + "u_lik" + std::to_string(i), ok && i < lik.size() ? lik(i) : NAN);
    }
    vf::out_int(pre + "u_lik_valid", ok ? 1 : 0);
}

int main() {
    vf::Case c;
    while (vf::read_case(std::cin, c)) {
        const bool seq = c.kind == "sukf_seq";
        const long T = seq ? c.integer("steps") : 1;
        std::vector<Step> steps;
        for (long t = 1; t <= T; t++) steps.push_back(load(c, seq ? "_" + std::to_string(t) : ""));
        const MatrixXd& params = c.mat("params");
        const double alpha = params(0, 0), beta = params(0, 1), kappa = params(0, 2);
        const long n = steps[0].means.rows(), s = c.integer("s");
        bool all_block = true;
        for (auto& st : steps) all_block = all_block && st.has_block;
        // optional layout / shape variations (single-call cases)
        const long nc = c.has_int("nc") ? c.integer("nc") : 0, mc = c.has_int("mc") ? c.integer("mc") : 0;
        const long outcomps = c.has_int("outcomps") ? c.integer("outcomps") : -1;

        vf::out_begin(c.id);
#ifdef NDEBUG
        // an output object with FEWER components than the predicted belief is written out of bounds:
        // only run where Eigen's assertions are on (they end the process with the redirected assert)
        if (outcomps >= 0 && outcomps < (long)steps[0].means.cols()) { vf::out_int("skipped", 1); vf::out_end(); continue; }
#endif
        // unscented weights as the library computes them
        {
            vf::Entry e("UTWeight");
            sigma_point::UTWeight w(static_cast<std::size_t>(n), alpha, beta, kappa);
            vf::out_mat("wm", w.mean); vf::out_mat("wc", w.covariance); vf::out_num("c", w.c);
        }
        // the objects live for the whole case; their measurement models are owned by them and re-programmed per call
        const Step& s0 = steps[0];
        FamilyModel *mpr = nullptr, *mpf = nullptr, *mpu = nullptr;
        std::unique_ptr<SUKFCorrection> sukf_r, sukf_f;
        if (all_block) {
            mpr = new FamilyModel(s0.fam, s0.Rblock, s0.y, n, s0.fam.H.rows());
            sukf_r.reset(new SUKFCorrection(std::unique_ptr<AdditiveMeasurementModel>(mpr), alpha, beta, kappa, s, true));
        }
        mpf = new FamilyModel(s0.fam, s0.Rfull, s0.y, n, s0.fam.H.rows());
        sukf_f.reset(new SUKFCorrection(std::unique_ptr<AdditiveMeasurementModel>(mpf), alpha, beta, kappa, s, false));
        mpu = new FamilyModel(s0.fam, s0.Rfull, s0.y, n, s0.fam.H.rows());
        for (FamilyModel* mp : {mpr, mpf, mpu}) if (mp) { mp->nc = nc; mp->mc = mc; }
        UKFCorrection ukf(std::unique_ptr<AdditiveMeasurementModel>(mpu), alpha, beta, kappa);

        for (long t = 1; t <= T; t++) {
            const Step& st = steps[t - 1];
            const std::string tp = seq ? "t" + std::to_string(t) + "_" : "";
            GaussianMixture pred = belief(st, nc);
            const long oc = outcomps >= 0 ? outcomps : (long)pred.components;
            // the SVD factor sigma_point() uses (same Eigen call; the model takes it as its square-root oracle)
            for (long i = 0; i < (long)pred.components; i++) {
                MatrixXd P = pred.covariance(i);
                JacobiSVD<MatrixXd> svd = P.jacobiSvd(ComputeThinU);
                MatrixXd A = svd.matrixU() * svd.singularValues().cwiseSqrt().asDiagonal();
                vf::out_mat(tp + "A" + std::to_string(i), A);
            }
            if (all_block) { program(mpr, st, st.Rblock); call_sukf(tp + "r_", *sukf_r, mpr, pred, s, !seq, oc); }
            program(mpf, st, st.Rfull); call_sukf(tp + "f_", *sukf_f, mpf, pred, s, !seq, oc);
            program(mpu, st, st.Rfull); call_ukf(tp, ukf, pred, nc, oc);
        }
        vf::out_end();
    }
    return 0;
}
