// h_C05.cpp — harness for C05: SUKFCorrection (reduced and full noise-covariance
// constructors) and UKFCorrection (additive constructor) on the same inputs, over a
// harness AdditiveMeasurementModel computing one of a small family of measurement
// functions h (the same family is implemented by C05_Model.h_family):
//   hkind 0: h(x) = H x + b
//   hkind 1: h(x)_i = (H x + b)_i + g_i sin((G x)_i)
//   hkind 2: h(x)_i = (H x + b)_i + g_i (G x)_i (G2 x)_i
// Operands: H G G2 (m x n), b g y (m x 1), Rfull (m x m), Rblock (s x s, present when
// the reduced constructor is to be run), params (1 x 3: alpha beta kappa),
// means (n x comps), covs (n x n*comps), weights (comps x 1), int s, int hkind.
#define VF_MAIN
#include "common.hpp"
#include <BayesFilters/AdditiveMeasurementModel.h>
#include <BayesFilters/GaussianMixture.h>
#include <BayesFilters/SUKFCorrection.h>
#include <BayesFilters/UKFCorrection.h>
#include <BayesFilters/sigma_point.h>
#include <BayesFilters/utils.h>
#include <Eigen/SVD>

using namespace bfl;
using namespace Eigen;

struct Family {
    long kind; MatrixXd H, G, G2, b, g;
    // same operation order as the list instance of the model: dot products accumulate from 0, left to right
    static double dot(const MatrixXd& A, long i, const Ref<const MatrixXd>& X, long col) {
        double acc = 0.0;
        for (long k = 0; k < A.cols(); k++) acc = acc + A(i, k) * X(k, col);
        return acc;
    }
    MatrixXd eval(const Ref<const MatrixXd>& X) const {
        MatrixXd out(H.rows(), X.cols());
        for (long c = 0; c < X.cols(); c++)
            for (long i = 0; i < H.rows(); i++) {
                double lin = dot(H, i, X, c) + b(i, 0);
                if (kind == 0) out(i, c) = lin;
                else if (kind == 1) out(i, c) = lin + g(i, 0) * std::sin(dot(G, i, X, c));
                else out(i, c) = lin + (g(i, 0) * dot(G, i, X, c)) * dot(G2, i, X, c);
            }
        return out;
    }
};

struct FamilyModel : public AdditiveMeasurementModel {
    Family f; MatrixXd R, y; long n, m;
    long m_report;   // the measurement size the model reports (harness switch for the second, mismatching, step)
    mutable long noise_calls = 0;
    FamilyModel(const Family& f_, const MatrixXd& R_, const MatrixXd& y_, long n_, long m_) : f(f_), R(R_), y(y_), n(n_), m(m_), m_report(m_) {}
    bool freeze(const Data&) override { return true; }
    std::pair<bool, Data> measure(const Data&) const override { return std::make_pair(true, Data(y)); }
    std::pair<bool, Data> predictedMeasure(const Ref<const MatrixXd>& cur_states) const override {
        MatrixXd p = f.eval(cur_states);
        return std::make_pair(true, Data(std::move(p)));
    }
    std::pair<bool, Data> innovation(const Data& predicted_measurements, const Data& measurements) const override {
        MatrixXd innovation = -(any::any_cast<MatrixXd>(predicted_measurements).colwise() - any::any_cast<MatrixXd>(measurements).col(0));
        return std::make_pair(true, Data(std::move(innovation)));
    }
    std::pair<bool, MatrixXd> getNoiseCovarianceMatrix() const override { noise_calls++; return std::make_pair(true, R); }
    VectorDescription getInputDescription() const override { return VectorDescription(n, 0, m); }
    VectorDescription getMeasurementDescription() const override { return VectorDescription(m_report); }
};

static void run_sukf(const std::string& pre, const vf::Case& c, const Family& fam, const MatrixXd& R, bool reduced,
                     const GaussianMixture& pred, long s, double alpha, double beta, double kappa) {
    const long n = pred.dim, comps = pred.components, m = fam.H.rows();
    GaussianMixture pred_copy(pred);
    GaussianMixture corr(comps, n);
    corr.mean().setConstant(7.25); corr.covariance().setConstant(-3.5); corr.weight().setConstant(0.125);
    FamilyModel* mp = new FamilyModel(fam, R, c.mat("y"), n, m);   // owned by the SUKFCorrection below
    SUKFCorrection sukf(std::unique_ptr<AdditiveMeasurementModel>(mp), alpha, beta, kappa, s, reduced);
    {
        vf::Entry e("SUKFCorrection::correct");
        sukf.freeze_measurements();
        sukf.correct(pred, corr);
    }
    bool ok; VectorXd lik;
    { vf::Entry e("SUKFCorrection::getLikelihood"); std::tie(ok, lik) = sukf.getLikelihood(); }
    vf::out_int(pre + "components", corr.components);
    vf::out_int(pre + "dim", corr.dim);
    for (long i = 0; i < (long)corr.components; i++) {
        vf::out_mat(pre + "mean" + std::to_string(i), corr.mean(i));
        vf::out_mat(pre + "cov" + std::to_string(i), corr.covariance(i));
        vf::out_num(pre + "lik" + std::to_string(i), ok && i < lik.size() ? lik(i) : NAN);
    }
    vf::out_mat(pre + "weights", corr.weight());
    vf::out_int(pre + "lik_valid", ok ? 1 : 0);
    vf::out_int(pre + "lik_size", lik.size());
    vf::out_int(pre + "pred_unchanged", vf::bit_equal(pred.mean(), pred_copy.mean()) && vf::bit_equal(pred.covariance(), pred_copy.covariance())
                                            && vf::bit_equal(pred.weight(), pred_copy.weight()) ? 1 : 0);
    vf::out_int(pre + "out_equals_pred", corr.components == pred.components && corr.dim == pred.dim && vf::bit_equal(corr.mean(), pred.mean())
                                             && vf::bit_equal(corr.covariance(), pred.covariance()) && vf::bit_equal(corr.weight(), pred.weight()) ? 1 : 0);
    // second step on the SAME object with a measurement size that is not a multiple of s:
    // output = input, and no likelihood may be reported (the first step's innovations must not survive)
    if (s >= 2 && m % s == 0) {
        mp->m_report = m + 1;
        GaussianMixture corr2(comps, n);
        corr2.mean().setConstant(7.25); corr2.covariance().setConstant(-3.5); corr2.weight().setConstant(0.125);
        { vf::Entry e("SUKFCorrection::correct#2"); sukf.correct(pred, corr2); }
        bool ok2; VectorXd lik2;
        { vf::Entry e("SUKFCorrection::getLikelihood#2"); std::tie(ok2, lik2) = sukf.getLikelihood(); }
        vf::out_int(pre + "2_lik_valid", ok2 ? 1 : 0);
        vf::out_int(pre + "2_out_equals_pred", corr2.components == pred.components && corr2.dim == pred.dim && vf::bit_equal(corr2.mean(), pred.mean())
                                                   && vf::bit_equal(corr2.covariance(), pred.covariance()) && vf::bit_equal(corr2.weight(), pred.weight()) ? 1 : 0);
    }
}

int main() {
    vf::Case c;
    while (vf::read_case(std::cin, c)) {
        Family fam;
        fam.kind = c.integer("hkind");
        fam.H = c.mat("H"); fam.G = c.mat("G"); fam.G2 = c.mat("G2"); fam.b = c.mat("b"); fam.g = c.mat("g");
        const MatrixXd& means = c.mat("means"); const MatrixXd& covs = c.mat("covs");
        const MatrixXd& params = c.mat("params");
        const double alpha = params(0, 0), beta = params(0, 1), kappa = params(0, 2);
        const long n = means.rows(), comps = means.cols(), m = fam.H.rows(), s = c.integer("s");
        GaussianMixture pred(comps, n);
        pred.mean() = means; pred.covariance() = covs; pred.weight() = c.mat("weights");

        vf::out_begin(c.id);
        // unscented weights as the library computes them
        {
            vf::Entry e("UTWeight");
            sigma_point::UTWeight w(static_cast<std::size_t>(n), alpha, beta, kappa);
            vf::out_mat("wm", w.mean); vf::out_mat("wc", w.covariance); vf::out_num("c", w.c);
        }
        // the SVD factor sigma_point() uses (same Eigen call; the model takes it as its square-root oracle)
        for (long i = 0; i < comps; i++) {
            MatrixXd P = pred.covariance(i);
            JacobiSVD<MatrixXd> svd = P.jacobiSvd(ComputeThinU);
            MatrixXd A = svd.matrixU() * svd.singularValues().cwiseSqrt().asDiagonal();
            vf::out_mat("A" + std::to_string(i), A);
        }
        if (c.has_mat("Rblock")) run_sukf("r_", c, fam, c.mat("Rblock"), true, pred, s, alpha, beta, kappa);
        run_sukf("f_", c, fam, c.mat("Rfull"), false, pred, s, alpha, beta, kappa);
        // standard additive UKF on the same inputs
        {
            GaussianMixture corr(comps, n);
            corr.mean().setConstant(7.25); corr.covariance().setConstant(-3.5); corr.weight().setConstant(0.125);
            UKFCorrection ukf(std::unique_ptr<AdditiveMeasurementModel>(new FamilyModel(fam, c.mat("Rfull"), c.mat("y"), n, m)), alpha, beta, kappa);
            {
                vf::Entry e("UKFCorrection::correct");
                ukf.freeze_measurements();
                ukf.correct(pred, corr);
            }
            bool ok; VectorXd lik;
            { vf::Entry e("UKFCorrection::getLikelihood"); std::tie(ok, lik) = ukf.getLikelihood(); }
            for (long i = 0; i < comps; i++) {
                vf::out_mat("u_mean" + std::to_string(i), corr.mean(i));
                vf::out_mat("u_cov" + std::to_string(i), corr.covariance(i));
                vf::out_num("u_lik" + std::to_string(i), ok && i < lik.size() ? lik(i) : NAN);
            }
            vf::out_int("u_lik_valid", ok ? 1 : 0);
        }
        vf::out_end();
    }
    return 0;
}
