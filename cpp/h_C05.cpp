// h_C05.cpp — harness for C05: SUKFCorrection (reduced and full noise-covariance
// constructors) and UKFCorrection (additive constructor) on the same inputs, over a
// harness AdditiveMeasurementModel computing one of a small family of measurement
// functions h (the same family is implemented by C05_Model.h_family):
//   hkind 0: h(x) = H x + b
//   hkind 1: h(x)_i = (H x + b)_i + g_i sin((G x)_i)
//   hkind 2: h(x)_i = (H x + b)_i + g_i (G x)_i (G2 x)_i
// Operands: H G G2 (m x n), b g y (m x 1), Rfull (m x m), Rblock (s x s, present when
// the reduced constructor is to be run), params (1 x 3: alpha beta kappa),
// means (n x comps), covs (n x n*comps), weights (comps x 1), int s, int hkind.
// (unit_L, unit_e: the physical units the generator applied to the operands; used by the plug-in's tolerances only, not read here.)
// kind "sukf": one correct() on fresh objects (plus a second, size-mismatching, call on the same SUKF object).
// kind "sukf_seq": int steps = T; the operands H G G2 b g y Rfull [Rblock] means covs weights hkind carry a
// suffix _1 .. _T; ONE SUKFCorrection object per constructor flag and ONE UKFCorrection object are driven through
// the T calls, the harness measurement model being re-programmed between the calls (R, y, h, sizes) and the
// predicted belief replaced; every call's outputs are printed with the prefix t<step>_.
// OBJECT LIFETIME (word lifetime = fresh | moved | moved_after_use | vector, int reloc_at, int assign): the property is about every
// SUKFCorrection / UKFCorrection object however it was obtained.  The classes have hand-written noexcept move constructors
// (copying is deleted in GaussianCorrection; no move assignment exists because the move constructor is user-declared, UKFCorrection
// also has const members), so an object is also obtained by  T b(std::move(a))  and by relocation of the elements of a
// std::vector<T> that grows.  `reloc_at` = number of complete correct()+getLikelihood() calls made on the object before it is
// relocated (single cases: 1 = a warm-up call on other data of the same shapes; sequences: the relocation happens between call
// reloc_at and call reloc_at + 1).  moved*: the subject is replaced by an object move-constructed from it (move-ASSIGNED onto a
// spare object built on other data when `assign` = 1 and the class offers move assignment: compile-time dispatch, reported in
// move_assignable); vector: the subject is element 0 of a std::vector<T> that is grown by emplace_back of spare objects until it
// reallocates.  The moved-from object is destroyed and never used again.
// CALLBACK RE-ENTRANCY (int intrude = 1): inside every callback of the subjects' measurement models independent twin objects
// (a SUKFCorrection per constructor flag and a UKFCorrection, own models, OTHER data of the same shapes) run a complete
// correct() + getLikelihood() (vf::intrude, common.hpp); the subjects' results must not change.
#define VF_MAIN
#include "common.hpp"
#include <BayesFilters/AdditiveMeasurementModel.h>
#include <BayesFilters/GaussianMixture.h>
#include <BayesFilters/SUKFCorrection.h>
#include <BayesFilters/UKFCorrection.h>
#include <BayesFilters/sigma_point.h>
#include <BayesFilters/utils.h>
#include <Eigen/SVD>
#include <functional>
#include <memory>
#include <type_traits>

using namespace bfl;
using namespace Eigen;

struct Family {
    long kind; MatrixXd H, G, G2, b, g;
    // same operation order as the list instance of the model: dot products accumulate from 0, left to right
    static double dot(const MatrixXd& A, long i, const Ref<const MatrixXd>& X, long col) {
        double acc = 0.0;
        for (long k = 0; k < A.cols(); k++) acc = acc + A(i, k) * X(k, col);
        return acc;
    }
    MatrixXd eval(const Ref<const MatrixXd>& X) const {
        MatrixXd out(H.rows(), X.cols());
        for (long c = 0; c < X.cols(); c++)
            for (long i = 0; i < H.rows(); i++) {
                double lin = dot(H, i, X, c) + b(i, 0);
                if (kind == 0) out(i, c) = lin;
                else if (kind == 1) out(i, c) = lin + g(i, 0) * std::sin(dot(G, i, X, c));
                else out(i, c) = lin + (g(i, 0) * dot(G, i, X, c)) * dot(G2, i, X, c);
            }
        return out;
    }
};

struct FamilyModel : public AdditiveMeasurementModel {
    Family f; MatrixXd R, y; long n, m;
    long nc = 0;     // trailing circular (Euler) rows of the state
    long mc = 0;     // trailing circular (Euler) rows of the measurement description
    long m_report;   // the measurement size the model reports (harness switch for the second, mismatching, step)
    mutable long noise_calls = 0;
    bool intrudes = false;   // every callback first lets the intruder (common.hpp) run complete corrections on the twin objects
    void hook() const { if (intrudes) vf::intrude(); }
    FamilyModel(const Family& f_, const MatrixXd& R_, const MatrixXd& y_, long n_, long m_) : f(f_), R(R_), y(y_), n(n_), m(m_), m_report(m_) {}
    bool freeze(const Data&) override { hook(); return true; }
    std::pair<bool, Data> measure(const Data&) const override { hook(); return std::make_pair(true, Data(y)); }
    std::pair<bool, Data> predictedMeasure(const Ref<const MatrixXd>& cur_states) const override {
        hook();
        MatrixXd p = f.eval(cur_states);
        return std::make_pair(true, Data(std::move(p)));
    }
    std::pair<bool, Data> innovation(const Data& predicted_measurements, const Data& measurements) const override {
        hook();
        MatrixXd innovation = -(any::any_cast<MatrixXd>(predicted_measurements).colwise() - any::any_cast<MatrixXd>(measurements).col(0));
        return std::make_pair(true, Data(std::move(innovation)));
    }
    std::pair<bool, MatrixXd> getNoiseCovarianceMatrix() const override { hook(); noise_calls++; return std::make_pair(true, R); }
    VectorDescription getInputDescription() const override { hook(); return VectorDescription(n - nc, nc, m); }
    VectorDescription getMeasurementDescription() const override { hook(); return VectorDescription(m_report - mc, mc); }
};

struct Step {
    Family fam; MatrixXd y, Rfull, Rblock, means, covs, weights; bool has_block;
};
static Step load(const vf::Case& c, const std::string& suf) {
    Step st;
    st.fam.kind = c.integer("hkind" + suf);
    st.fam.H = c.mat("H" + suf); st.fam.G = c.mat("G" + suf); st.fam.G2 = c.mat("G2" + suf);
    st.fam.b = c.mat("b" + suf); st.fam.g = c.mat("g" + suf);
    st.y = c.mat("y" + suf); st.Rfull = c.mat("Rfull" + suf);
    st.has_block = c.has_mat("Rblock" + suf);
    if (st.has_block) st.Rblock = c.mat("Rblock" + suf);
    st.means = c.mat("means" + suf); st.covs = c.mat("covs" + suf); st.weights = c.mat("weights" + suf);
    return st;
}
static void program(FamilyModel* mp, const Step& st, const MatrixXd& R) {
    mp->f = st.fam; mp->R = R; mp->y = st.y; mp->m = st.fam.H.rows(); mp->m_report = mp->m;
}
static GaussianMixture belief(const Step& st, long nc) {
    GaussianMixture pred(st.means.cols(), st.means.rows() - nc, nc);
    pred.mean() = st.means; pred.covariance() = st.covs; pred.weight() = st.weights;
    return pred;
}
static GaussianMixture filler(long comps, long n, long nc) {
    GaussianMixture corr(comps, n - nc, nc);
    corr.mean().setConstant(7.25); corr.covariance().setConstant(-3.5); corr.weight().setConstant(0.125);
    return corr;
}

// other data of the same shapes (warm-up calls before a relocation, spare objects, the intruder's twins); homogeneous, so it
// stays in the units of the case
static Step twin_of(const Step& st) {
    Step t = st;
    t.fam.H *= -1.75; t.fam.G *= 0.5; t.fam.G2 *= -0.75; t.fam.b *= 0.25; t.fam.g *= -1.5;
    t.y *= 0.5; t.Rfull *= 3.0; if (t.has_block) t.Rblock *= 3.0;
    t.means *= 0.5; t.covs *= 2.0;
    return t;
}

// a complete correct() + getLikelihood() whose results are discarded
static void discard_call(GaussianCorrection& g, const GaussianMixture& pred) {
    GaussianMixture corr = pred;
    g.freeze_measurements(); g.correct(pred, corr); g.getLikelihood();
}

template <typename T> typename std::enable_if<std::is_move_assignable<T>::value, bool>::type
move_assign_if_possible(T& dst, T& src) { dst = std::move(src); return true; }
template <typename T> typename std::enable_if<!std::is_move_assignable<T>::value, bool>::type
move_assign_if_possible(T&, T&) { return false; }

// The object under test and how it came to be (see OBJECT LIFETIME above).
template <typename T> struct Subject {
    std::unique_ptr<T> p; std::vector<T> vec; bool in_vec = false;
    long relocations = 0, assigned = 0;
    std::function<T*(FamilyModel*)> make;                          // new T over the given model (ownership passes to the object)
    std::function<void(std::vector<T>&, FamilyModel*)> emplace;    // vec.emplace_back(the same constructor arguments)
    T& get() { return in_vec ? vec.front() : *p; }
    void create(bool vector, FamilyModel* mp) {
        in_vec = vector;
        if (in_vec) { vec.reserve(1); emplace(vec, mp); } else p.reset(make(mp));
    }
    void relocate(bool assign, const std::function<FamilyModel*()>& spare_model) {
        if (in_vec) {
            const std::size_t cap = vec.capacity();
            while (vec.capacity() == cap) emplace(vec, spare_model());    // growth: the elements are relocated with the move constructor
        } else {
            std::unique_ptr<T> q;
            if (assign) {
                q.reset(make(spare_model()));
                if (move_assign_if_possible(*q, *p)) assigned++; else q.reset();
            }
            if (!q) q.reset(new T(std::move(*p)));
            p = std::move(q);                                              // the moved-from object is destroyed here
        }
        relocations++;
    }
};

// one correct() + getLikelihood() of an existing SUKFCorrection whose model has been programmed for this call
static void call_sukf(const std::string& pre, SUKFCorrection& sukf, FamilyModel* mp, const GaussianMixture& pred, long s, bool second, long outcomps) {
    const long n = pred.dim, comps = pred.components, m = mp->m, nc = mp->nc;
    GaussianMixture pred_copy(pred);
    GaussianMixture corr = filler(outcomps, n, nc);
    {
        vf::Entry e("SUKFCorrection::correct");
        sukf.freeze_measurements();
        sukf.correct(pred, corr);
    }
    bool ok; VectorXd lik;
    { vf::Entry e("SUKFCorrection::getLikelihood"); std::tie(ok, lik) = sukf.getLikelihood(); }
    vf::out_int(pre + "components", corr.components);
    vf::out_int(pre + "dim", corr.dim);
    for (long i = 0; i < (long)corr.components; i++) {
        vf::out_mat(pre + "mean" + std::to_string(i), corr.mean(i));
        vf::out_mat(pre + "cov" + std::to_string(i), corr.covariance(i));
        vf::out_num(pre + "lik" + std::to_string(i), ok && i < lik.size() ? lik(i) : NAN);
    }
    vf::out_mat(pre + "weights", corr.weight());
    vf::out_int(pre + "lik_valid", ok ? 1 : 0);
    vf::out_int(pre + "lik_size", lik.size());
    vf::out_int(pre + "pred_unchanged", vf::bit_equal(pred.mean(), pred_copy.mean()) && vf::bit_equal(pred.covariance(), pred_copy.covariance())
                                            && vf::bit_equal(pred.weight(), pred_copy.weight()) ? 1 : 0);
    vf::out_int(pre + "out_equals_pred", corr.components == pred.components && corr.dim == pred.dim && vf::bit_equal(corr.mean(), pred.mean())
                                             && vf::bit_equal(corr.covariance(), pred.covariance()) && vf::bit_equal(corr.weight(), pred.weight()) ? 1 : 0);
    // single cases: a second call on the SAME object with a measurement size that is not a multiple of s:
    // output = input, and no likelihood may be reported (the first call's innovations must not survive)
    if (second && s >= 2 && m % s == 0) {
        mp->m_report = m + 1;
        GaussianMixture corr2 = filler(comps, n, nc);
        { vf::Entry e("SUKFCorrection::correct#2"); sukf.correct(pred, corr2); }
        bool ok2; VectorXd lik2;
        { vf::Entry e("SUKFCorrection::getLikelihood#2"); std::tie(ok2, lik2) = sukf.getLikelihood(); }
        vf::out_int(pre + "2_lik_valid", ok2 ? 1 : 0);
        vf::out_int(pre + "2_out_equals_pred", corr2.components == pred.components && corr2.dim == pred.dim && vf::bit_equal(corr2.mean(), pred.mean())
                                                   && vf::bit_equal(corr2.covariance(), pred.covariance()) && vf::bit_equal(corr2.weight(), pred.weight()) ? 1 : 0);
        mp->m_report = m;
    }
}

static void call_ukf(const std::string& pre, UKFCorrection& ukf, const GaussianMixture& pred, long nc, long outcomps) {
    const long n = pred.dim, comps = pred.components;
    GaussianMixture corr = filler(outcomps, n, nc);
    {
        vf::Entry e("UKFCorrection::correct");
        ukf.freeze_measurements();
        ukf.correct(pred, corr);
    }
    bool ok; VectorXd lik;
    { vf::Entry e("UKFCorrection::getLikelihood"); std::tie(ok, lik) = ukf.getLikelihood(); }
    for (long i = 0; i < comps; i++) {
        vf::out_mat(pre + "u_mean" + std::to_string(i), corr.mean(i));
        vf::out_mat(pre + "u_cov" + std::to_string(i), corr.covariance(i));
        vf::out_num(pre + "u_lik" + std::to_string(i), ok && i < lik.size() ? lik(i) : NAN);
    }
    vf::out_int(pre + "u_lik_valid", ok ? 1 : 0);
}

int main() {
    vf::Case c;
    while (vf::read_case(std::cin, c)) {
        const bool seq = c.kind == "sukf_seq";
        const long T = seq ? c.integer("steps") : 1;
        std::vector<Step> steps;
        for (long t = 1; t <= T; t++) steps.push_back(load(c, seq ? "_" + std::to_string(t) : ""));
        const MatrixXd& params = c.mat("params");
        const double alpha = params(0, 0), beta = params(0, 1), kappa = params(0, 2);
        const long n = steps[0].means.rows(), s = c.integer("s");
        bool all_block = true;
        for (auto& st : steps) all_block = all_block && st.has_block;
        // optional layout / shape variations (single-call cases)
        const long nc = c.has_int("nc") ? c.integer("nc") : 0, mc = c.has_int("mc") ? c.integer("mc") : 0;
        const long outcomps = c.has_int("outcomps") ? c.integer("outcomps") : -1;

        vf::out_begin(c.id);
#ifdef NDEBUG
        // an output object with FEWER components than the predicted belief is written out of bounds:
        // only run where Eigen's assertions are on (they end the process with the redirected assert)
        if (outcomps >= 0 && outcomps < (long)steps[0].means.cols()) { vf::out_int("skipped", 1); vf::out_end(); continue; }
#endif
        // unscented weights as the library computes them
        {
            vf::Entry e("UTWeight");
            sigma_point::UTWeight w(static_cast<std::size_t>(n), alpha, beta, kappa);
            vf::out_mat("wm", w.mean); vf::out_mat("wc", w.covariance); vf::out_num("c", w.c);
        }
        // the objects live for the whole case; their measurement models are owned by them and re-programmed per call
        const Step& s0 = steps[0];
        const Step w0 = twin_of(s0);
        auto model_on = [&](const Step& st, const MatrixXd& R) {
            FamilyModel* mp = new FamilyModel(st.fam, R, st.y, n, st.fam.H.rows());
            mp->nc = nc; mp->mc = mc;
            return mp;
        };
        // how the subjects are obtained
        const std::string lifetime = c.has_word("lifetime") ? c.word("lifetime")[0] : "fresh";
        const bool in_vec = lifetime == "vector";
        const long reloc_at = lifetime == "fresh" ? -1 : (c.has_int("reloc_at") ? c.integer("reloc_at") : 0);
        const bool assign = c.has_int("assign") && c.integer("assign") != 0;
        const bool intrude = c.has_int("intrude") && c.integer("intrude") != 0;
        auto sukf_subject = [&](bool reduced) {
            Subject<SUKFCorrection> sub;
            sub.make = [=](FamilyModel* mp) { return new SUKFCorrection(std::unique_ptr<AdditiveMeasurementModel>(mp), alpha, beta, kappa, s, reduced); };
            sub.emplace = [=](std::vector<SUKFCorrection>& v, FamilyModel* mp) { v.emplace_back(std::unique_ptr<AdditiveMeasurementModel>(mp), alpha, beta, kappa, s, reduced); };
            return sub;
        };
        Subject<SUKFCorrection> sukf_r = sukf_subject(true), sukf_f = sukf_subject(false);
        Subject<UKFCorrection> ukf;
        ukf.make = [=](FamilyModel* mp) { return new UKFCorrection(std::unique_ptr<AdditiveMeasurementModel>(mp), alpha, beta, kappa); };
        ukf.emplace = [=](std::vector<UKFCorrection>& v, FamilyModel* mp) { v.emplace_back(std::unique_ptr<AdditiveMeasurementModel>(mp), alpha, beta, kappa); };
        FamilyModel *mpr = nullptr, *mpf = nullptr, *mpu = nullptr;
        if (all_block) { mpr = model_on(s0, s0.Rblock); sukf_r.create(in_vec, mpr); }
        mpf = model_on(s0, s0.Rfull); sukf_f.create(in_vec, mpf);
        mpu = model_on(s0, s0.Rfull); ukf.create(in_vec, mpu);
        // the intruder's twins (constructed like the subjects, never relocated)
        FamilyModel *tmr = nullptr, *tmf = nullptr, *tmu = nullptr;
        std::unique_ptr<SUKFCorrection> twin_r, twin_f; std::unique_ptr<UKFCorrection> twin_u;
        if (intrude) {
            if (all_block) { tmr = model_on(w0, w0.Rblock); twin_r.reset(sukf_r.make(tmr)); }
            tmf = model_on(w0, w0.Rfull); twin_f.reset(sukf_f.make(tmf));
            tmu = model_on(w0, w0.Rfull); twin_u.reset(ukf.make(tmu));
            for (FamilyModel* mp : {mpr, mpf, mpu}) if (mp) mp->intrudes = true;
        }

        for (long t = 1; t <= T; t++) {
            const Step& st = steps[t - 1];
            const std::string tp = seq ? "t" + std::to_string(t) + "_" : "";
            GaussianMixture pred = belief(st, nc);
            const long oc = outcomps >= 0 ? outcomps : (long)pred.components;
            const Step tw = twin_of(st);
            const GaussianMixture pred_tw = belief(tw, nc);
            if (intrude)
                vf::set_intruder([&]() {
                    if (twin_r) { program(tmr, tw, tw.Rblock); discard_call(*twin_r, pred_tw); }
                    program(tmf, tw, tw.Rfull); discard_call(*twin_f, pred_tw);
                    program(tmu, tw, tw.Rfull); discard_call(*twin_u, pred_tw);
                });
            // relocation of the subjects (move construction / move assignment / vector growth) after reloc_at complete calls
            if (reloc_at >= 0 && ((seq && reloc_at == t - 1) || !seq)) {
                vf::Entry e("relocation");
                if (!seq && reloc_at >= 1) {
                    // single-call case: the use before the relocation is a warm-up call on other data of the same shapes
                    if (all_block) { program(mpr, tw, tw.Rblock); discard_call(sukf_r.get(), pred_tw); }
                    program(mpf, tw, tw.Rfull); discard_call(sukf_f.get(), pred_tw);
                    program(mpu, tw, tw.Rfull); discard_call(ukf.get(), pred_tw);
                }
                if (all_block) sukf_r.relocate(assign, [&]() { return model_on(tw, tw.Rblock); });
                sukf_f.relocate(assign, [&]() { return model_on(tw, tw.Rfull); });
                ukf.relocate(assign, [&]() { return model_on(tw, tw.Rfull); });
            }
            // the SVD factor sigma_point() uses (same Eigen call; the model takes it as its square-root oracle)
            for (long i = 0; i < (long)pred.components; i++) {
                MatrixXd P = pred.covariance(i);
                JacobiSVD<MatrixXd> svd = P.jacobiSvd(ComputeThinU);
                MatrixXd A = svd.matrixU() * svd.singularValues().cwiseSqrt().asDiagonal();
                vf::out_mat(tp + "A" + std::to_string(i), A);
            }
            if (all_block) { program(mpr, st, st.Rblock); call_sukf(tp + "r_", sukf_r.get(), mpr, pred, s, !seq, oc); }
            program(mpf, st, st.Rfull); call_sukf(tp + "f_", sukf_f.get(), mpf, pred, s, !seq, oc);
            program(mpu, st, st.Rfull); call_ukf(tp, ukf.get(), pred, nc, oc);
            vf::clear_intruder();
        }
        vf::out_int("relocations", sukf_f.relocations + ukf.relocations + sukf_r.relocations);
        vf::out_int("move_assigned", sukf_f.assigned + ukf.assigned + sukf_r.assigned);
        vf::out_int("move_assignable", (std::is_move_assignable<SUKFCorrection>::value ? 1 : 0) + (std::is_move_assignable<UKFCorrection>::value ? 2 : 0));
        if (intrude) vf::out_int("intruder_calls", vf::intruder_state().calls);
        vf::out_end();
    }
    return 0;
}
