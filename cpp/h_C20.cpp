// h_C20.cpp — harness for C20: drives bfl::Data (= bfl::any::any) through an
// operation word over a pool of containers and prints, after every operation,
// what the public interface reports for every container (has_value, type, every
// any_cast form for every held type) and the instance counters of two probe types.
// Case: int pool N; word ops tok ...  (token syntax: props/C20.py).  Output per
// step k: word r<k> <result> <slot 0> ... <slot N-1> L<probe live>,<mprobe live>
#define VF_MAIN
#include "common.hpp"
#include <BayesFilters/Data.h>
#include <BayesFilters/any.h>
#include <string>
#include <typeinfo>
#include <utility>
#include <fcntl.h>
#include <sstream>
#include <sys/types.h>
#include <sys/wait.h>
#include <unistd.h>
#if defined(__SANITIZE_ADDRESS__)
#include <sanitizer/lsan_interface.h>
#endif

using bfl::Data;
using Eigen::MatrixXd;
namespace ba = bfl::any;

// ---- probe types: count live instances, constructions, destructions; a magic
// word tells a live object from a destroyed / never constructed one
static const unsigned GOOD = 0x600DF00Du, GONE = 0xDEADDEADu;

struct Probe {   // no move operations: moving a Probe copies it
    static long live, ctors, dtors, bad, copies;
    int v; unsigned magic;
    explicit Probe(int x) : v(x), magic(GOOD) { live++; ctors++; }
    Probe(const Probe& o) : v(o.v), magic(GOOD) { if (o.magic != GOOD) bad++; live++; ctors++; copies++; }
    Probe& operator=(const Probe& o) { if (o.magic != GOOD || magic != GOOD) bad++; v = o.v; return *this; }
    ~Probe() { if (magic != GOOD) bad++; magic = GONE; live--; dtors++; }
};
long Probe::live = 0, Probe::ctors = 0, Probe::dtors = 0, Probe::bad = 0, Probe::copies = 0;

// move-aware: a moved-from instance is marked and no longer decodes
struct MProbe {
    static long live, ctors, dtors, bad, moves, copies;
    int v; bool moved_from; unsigned magic;
    explicit MProbe(int x) : v(x), moved_from(false), magic(GOOD) { live++; ctors++; }
    MProbe(const MProbe& o) : v(o.v), moved_from(o.moved_from), magic(GOOD) { if (o.magic != GOOD) bad++; live++; ctors++; copies++; }
    MProbe(MProbe&& o) noexcept : v(o.v), moved_from(o.moved_from), magic(GOOD) { if (o.magic != GOOD) bad++; o.v = -777; o.moved_from = true; live++; ctors++; moves++; }
    MProbe& operator=(const MProbe& o) { if (o.magic != GOOD || magic != GOOD) bad++; v = o.v; moved_from = o.moved_from; return *this; }
    MProbe& operator=(MProbe&& o) noexcept { if (o.magic != GOOD || magic != GOOD) bad++; v = o.v; moved_from = o.moved_from; o.v = -777; o.moved_from = true; return *this; }
    ~MProbe() { if (magic != GOOD) bad++; magic = GONE; live--; dtors++; }
};
long MProbe::live = 0, MProbe::ctors = 0, MProbe::dtors = 0, MProbe::bad = 0, MProbe::moves = 0, MProbe::copies = 0;

// copy constructor throws while armed (strong exception guarantee of the assignments); no move operations
struct CopyThrows {};
struct TProbe {
    static long live, ctors, dtors, bad, copies;
    static bool armed;
    int v; unsigned magic;
    explicit TProbe(int x) : v(x), magic(GOOD) { live++; ctors++; }
    TProbe(const TProbe& o) : v(o.v), magic(GOOD) { if (armed) throw CopyThrows(); if (o.magic != GOOD) bad++; live++; ctors++; copies++; }
    TProbe& operator=(const TProbe& o) { if (o.magic != GOOD || magic != GOOD) bad++; v = o.v; return *this; }
    ~TProbe() { if (magic != GOOD) bad++; magic = GONE; live--; dtors++; }
};
long TProbe::live = 0, TProbe::ctors = 0, TProbe::dtors = 0, TProbe::bad = 0, TProbe::copies = 0;
bool TProbe::armed = false;

// ---- value <-> small integer code, per held type
template <class T> struct Codec;
template <> struct Codec<int> {
    static int make(long v) { return static_cast<int>(v); }
    static int blank() { return 0; }
    static bool moved(const int&) { return false; }
    static bool decode(const int& x, long& v) { v = x; return true; }
};
template <> struct Codec<double> {
    static double make(long v) { return static_cast<double>(v) + 0.5; }
    static double blank() { return 0.0; }
    static bool moved(const double&) { return false; }
    static bool decode(const double& x, long& v) { v = static_cast<long>(std::floor(x)); return static_cast<double>(v) + 0.5 == x; }
};
template <> struct Codec<std::string> {
    // longer than any small-string buffer, so that the characters live on the heap
    static std::string make(long v) { return "value=" + std::to_string(v) + ";" + std::string(40, 'x'); }
    static std::string blank() { return std::string(); }
    static bool moved(const std::string& s) { return s.empty(); }   // what a moved-from std::string is in libstdc++
    static bool decode(const std::string& s, long& v) {
        if (s.size() < 48 || s.compare(0, 6, "value=") != 0) return false;
        std::size_t semi = s.find(';');
        if (semi == std::string::npos || s.size() != semi + 41) return false;
        try { v = std::stol(s.substr(6, semi - 6)); } catch (...) { return false; }
        return s == make(v);
    }
};
template <> struct Codec<MatrixXd> {
    static MatrixXd make(long v) {
        long r = (v < 0 ? -v : v) % 3 + 1;
        MatrixXd M(r, 2);
        for (long i = 0; i < r; i++) for (long j = 0; j < 2; j++) M(i, j) = static_cast<double>(v) + 0.25 * static_cast<double>(2 * i + j);
        return M;
    }
    static MatrixXd blank() { return MatrixXd(); }
    static bool moved(const MatrixXd& M) { return M.size() == 0; }   // moved-from / swapped with an empty matrix
    static bool decode(const MatrixXd& M, long& v) {
        if (M.cols() != 2 || M.rows() < 1 || M.rows() > 3) return false;
        v = static_cast<long>(M(0, 0));
        MatrixXd E = make(v);
        return E.rows() == M.rows() && vf::bit_equal(E, M);
    }
};
template <> struct Codec<Probe> {
    static Probe make(long v) { return Probe(static_cast<int>(v)); }
    static Probe blank() { return Probe(0); }
    static bool moved(const Probe&) { return false; }
    static bool decode(const Probe& p, long& v) { v = p.v; return p.magic == GOOD; }
};
template <> struct Codec<MProbe> {
    static MProbe make(long v) { return MProbe(static_cast<int>(v)); }
    static MProbe blank() { return MProbe(0); }
    static bool moved(const MProbe& p) { return p.magic == GOOD && p.moved_from; }
    static bool decode(const MProbe& p, long& v) { v = p.v; return p.magic == GOOD && !p.moved_from; }
};
template <> struct Codec<TProbe> {
    static TProbe make(long v) { return TProbe(static_cast<int>(v)); }
    static TProbe blank() { return TProbe(0); }
    static bool moved(const TProbe&) { return false; }
    static bool decode(const TProbe& p, long& v) { v = p.v; return p.magic == GOOD; }
};

static const int NTYPES = 7;
template <class F> void with_type(int t, F& f) {
    switch (t) {
        case 0: f.template run<int>(); break;
        case 1: f.template run<double>(); break;
        case 2: f.template run<std::string>(); break;
        case 3: f.template run<MatrixXd>(); break;
        case 4: f.template run<Probe>(); break;
        case 5: f.template run<MProbe>(); break;
        case 6: f.template run<TProbe>(); break;
        default: std::fprintf(stderr, "BFL_VERIF_HARNESS bad type index %d\n", t); std::exit(3);
    }
}

static std::string type_name(const std::type_info& ti) {
    if (ti == typeid(void)) return "void";
    if (ti == typeid(int)) return "0";
    if (ti == typeid(double)) return "1";
    if (ti == typeid(std::string)) return "2";
    if (ti == typeid(MatrixXd)) return "3";
    if (ti == typeid(Probe)) return "4";
    if (ti == typeid(MProbe)) return "5";
    if (ti == typeid(TProbe)) return "6";
    return "other";
}

// the value code of an object; "m" for a moved-from object; "?" for anything else
template <class T> std::string dec(const T& x) {
    long v;
    if (Codec<T>::moved(x)) return "m";
    return Codec<T>::decode(x, v) ? std::to_string(v) : std::string("?");
}

// ---- the six observation casts of one held type on one container:
// T*, const T* (const any*), const T* via any_cast<const T>(any*), T by value, const T& (const any&), const T& (any&)
struct Observe {
    Data* a; std::string out;
    template <class T> void run() {
        { vf::Entry e("any_cast<T>(any*)"); T* p = ba::any_cast<T>(a); out += p ? dec<T>(*p) : std::string("n"); }
        out += ",";
        { vf::Entry e("any_cast<T>(const any*)"); const T* p = ba::any_cast<T>(static_cast<const Data*>(a)); out += p ? dec<T>(*p) : std::string("n"); }
        out += ",";
        { vf::Entry e("any_cast<const T>(any*)"); const T* p = ba::any_cast<const T>(a); out += p ? dec<T>(*p) : std::string("n"); }
        out += ",";
        { vf::Entry e("any_cast<T>(any&)");
          try { T x = ba::any_cast<T>(*a); out += dec<T>(x); } catch (const ba::bad_any_cast&) { out += "x"; } }
        out += ",";
        { vf::Entry e("any_cast<const T&>(const any&)");
          try { const T& x = ba::any_cast<const T&>(static_cast<const Data&>(*a)); out += dec<T>(x); } catch (const ba::bad_any_cast&) { out += "x"; } }
        out += ",";
        { vf::Entry e("any_cast<const T&>(any&)");
          try { const T& x = ba::any_cast<const T&>(*a); out += dec<T>(x); } catch (const ba::bad_any_cast&) { out += "x"; } }
    }
};

static std::string slot_tok(Data* a) {
    if (!a) return "D";
    std::string s = std::string("h") + (a->has_value() ? "1" : "0") + ".t" + type_name(a->type()) + ".";
    for (int t = 0; t < NTYPES; t++) {
        Observe o{a, std::string()};
        with_type(t, o);
        if (t) s += "/";
        s += o.out;
    }
    return s;
}

// ---- operations that depend on the held type
struct ValueCtor {  // any(const T&) / any(T&) / any(T&&)
    Data*& slot; long v; bool mv;
    template <class T> void run() {
        T x = Codec<T>::make(v);
        if (mv) { vf::Entry e("any::any(T&&)"); slot = new Data(std::move(x)); }
        else if (v % 2 == 0) { vf::Entry e("any::any(const T&)"); const T& cx = x; slot = new Data(cx); }
        else { vf::Entry e("any::any(T&)"); slot = new Data(x); }
    }
};
struct ValueAssign {  // operator=(T&&) with T deduced const T& / T& / T
    Data* a; long v; bool mv;
    template <class T> void run() {
        T x = Codec<T>::make(v);
        if (mv) { vf::Entry e("any::operator=(T&&)"); *a = std::move(x); }
        else if (v % 2 == 0) { vf::Entry e("any::operator=(const T&)"); const T& cx = x; *a = cx; }
        else { vf::Entry e("any::operator=(T&)"); *a = x; }
    }
};
struct ThrowingValue {  // any(const T&) / operator=(const T&) while T's copy constructor throws
    Data*& slot; long v; bool assign; std::string res;
    template <class T> void run() { std::fprintf(stderr, "BFL_VERIF_HARNESS valx/vasx need type 6\n"); std::exit(3); }
};
template <> void ThrowingValue::run<TProbe>() {
    TProbe x = Codec<TProbe>::make(v);
    const TProbe& cx = x;
    TProbe::armed = true;
    try {
        if (assign) { vf::Entry e("any::operator=(const T&) throwing"); *slot = cx; }
        else { vf::Entry e("any::any(const T&) throwing"); slot = new Data(cx); }
        res = "unit";
    } catch (const CopyThrows&) { res = "exn"; }
    TProbe::armed = false;
}
struct CastOp {
    Data* a; int form; std::string res;   // 0 ptr, 1 const ptr, 2 value, 3 T&, 4 const value, 5 rvalue, 6 const T ptr, 7 const T&, 8/9 T&&
    template <class T> void run() {
        try {
            switch (form) {
                case 0: { vf::Entry e("any_cast<T>(any*)"); T* p = ba::any_cast<T>(a); res = p ? "p" + dec<T>(*p) : std::string("pnull"); break; }
                case 1: { vf::Entry e("any_cast<T>(const any*)"); const T* p = ba::any_cast<T>(static_cast<const Data*>(a)); res = p ? "p" + dec<T>(*p) : std::string("pnull"); break; }
                case 2: { vf::Entry e("any_cast<T>(any&)"); T x = ba::any_cast<T>(*a); res = "v" + dec<T>(x); break; }
                case 3: { vf::Entry e("any_cast<T&>(any&)"); T& r = ba::any_cast<T&>(*a); res = "v" + dec<T>(r); break; }
                case 4: { vf::Entry e("any_cast<T>(const any&)"); T x = ba::any_cast<T>(static_cast<const Data&>(*a)); res = "v" + dec<T>(x); break; }
                case 5: { vf::Entry e("any_cast<T>(any&&)"); T x = ba::any_cast<T>(std::move(*a)); res = "v" + dec<T>(x); break; }
                case 6: { vf::Entry e("any_cast<const T>(any*)"); const T* p = ba::any_cast<const T>(a); res = p ? "p" + dec<T>(*p) : std::string("pnull"); break; }
                case 7: { vf::Entry e("any_cast<const T&>(any&)"); const T& r = ba::any_cast<const T&>(*a); res = "v" + dec<T>(r); break; }
                // the form the library uses: move-construct / move-assign from the rvalue reference to the held object
                case 8: { vf::Entry e("any_cast<T&&>(any&&) construct"); T x = ba::any_cast<T&&>(std::move(*a)); res = "v" + dec<T>(x); break; }
                case 9: { vf::Entry e("any_cast<T&&>(any&&) assign"); T y = Codec<T>::blank(); y = ba::any_cast<T&&>(std::move(*a)); res = "v" + dec<T>(y); break; }
            }
        } catch (const ba::bad_any_cast& ex) {
            res = std::string(ex.what()) == "bad any_cast" ? "throw" : "throw-what";
        }
    }
};
struct SetOp {
    Data* a; long v; bool by_ref; std::string res;
    template <class T> void run() {
        if (!by_ref) {
            vf::Entry e("any_cast<T>(any*) write");
            if (T* p = ba::any_cast<T>(a)) { *p = Codec<T>::make(v); res = "b1"; } else res = "b0";
        } else {
            vf::Entry e("any_cast<T&>(any&) write");
            try { ba::any_cast<T&>(*a) = Codec<T>::make(v); res = "unit"; } catch (const ba::bad_any_cast&) { res = "throw"; }
        }
    }
};

static std::vector<std::string> split(const std::string& s, char c) {
    std::vector<std::string> out; std::string cur;
    for (char ch : s) { if (ch == c) { out.push_back(cur); cur.clear(); } else cur += ch; }
    out.push_back(cur);
    return out;
}

// runs one word and prints its record (without the closing `end`)
static void run_case(const vf::Case& c) {
    {
        const long N = c.integer("pool");
        std::vector<Data*> slot(N, nullptr);
        const long p0 = Probe::live, m0 = MProbe::live, t0 = TProbe::live;
        const long pc0 = Probe::ctors, pd0 = Probe::dtors, mc0 = MProbe::ctors, md0 = MProbe::dtors;
        const long bad0 = Probe::bad + MProbe::bad + TProbe::bad;
        vf::out_begin(c.id);
        size_t step = 0;
        for (const std::string& tok : c.word("ops")) {
            std::vector<std::string> p = split(tok, ':');
            const std::string& k = p[0];
            auto idx = [&](size_t i) { return std::stol(p.at(i)); };
            auto ok = [&](long d) { return d >= 0 && d < N; };
            auto live = [&](long d) { return ok(d) && slot[d] != nullptr; };
            auto isfree = [&](long d) { return ok(d) && slot[d] == nullptr; };
            std::string res = "skip";
            const long kc4 = Probe::copies, kc5 = MProbe::copies, km5 = MProbe::moves, kc6 = TProbe::copies;
            if (k == "def") {
                long d = idx(1);
                if (isfree(d)) { vf::Entry e("any::any()"); slot[d] = new Data(); res = "unit"; }
            } else if (k == "val" || k == "valmv") {
                long d = idx(1);
                if (isfree(d)) { ValueCtor f{slot[d], idx(3), k == "valmv"}; with_type(static_cast<int>(idx(2)), f); res = "unit"; }
            } else if (k == "cpy" || k == "cpyn") {
                long d = idx(1), s = idx(2);
                if (isfree(d) && live(s)) {
                    vf::Entry e("any::any(const any&)");
                    if (k == "cpy") { const Data& src = *slot[s]; slot[d] = new Data(src); } else { Data& src = *slot[s]; slot[d] = new Data(src); }
                    res = "unit";
                }
            } else if (k == "mov") {
                long d = idx(1), s = idx(2);
                if (isfree(d) && live(s)) { vf::Entry e("any::any(any&&)"); slot[d] = new Data(std::move(*slot[s])); res = "unit"; }
            } else if (k == "cas" || k == "casn") {
                long d = idx(1), s = idx(2);
                if (live(d) && live(s)) {
                    vf::Entry e("any::operator=(const any&)");
                    if (k == "cas") { const Data& src = *slot[s]; *slot[d] = src; } else { Data& src = *slot[s]; *slot[d] = src; }
                    res = "unit";
                }
            } else if (k == "mas") {
                long d = idx(1), s = idx(2);
                if (live(d) && live(s)) { vf::Entry e("any::operator=(any&&)"); Data& src = *slot[s]; *slot[d] = std::move(src); res = "unit"; }
            } else if (k == "vas" || k == "vasmv") {
                long d = idx(1);
                if (live(d)) { ValueAssign f{slot[d], idx(3), k == "vasmv"}; with_type(static_cast<int>(idx(2)), f); res = "unit"; }
            } else if (k == "rst") {
                long d = idx(1);
                if (live(d)) { vf::Entry e("any::reset"); slot[d]->reset(); res = "unit"; }
            } else if (k == "swp" || k == "swpf") {
                long d = idx(1), s = idx(2);
                if (live(d) && live(s)) {
                    vf::Entry e("any::swap");
                    if (k == "swp") slot[d]->swap(*slot[s]); else ba::swap(*slot[d], *slot[s]);
                    res = "unit";
                }
            } else if (k == "del") {
                long d = idx(1);
                if (live(d)) { vf::Entry e("any::~any"); delete slot[d]; slot[d] = nullptr; res = "unit"; }
            } else if (k == "has") {
                long d = idx(1);
                if (live(d)) { vf::Entry e("any::has_value"); res = slot[d]->has_value() ? "b1" : "b0"; }
            } else if (k == "typ") {
                long d = idx(1);
                if (live(d)) { vf::Entry e("any::type"); std::string n = type_name(slot[d]->type()); res = n == "void" ? "tvoid" : "t" + n; }
            } else if (k == "valx" || k == "vasx") {
                long d = idx(1);
                if (k == "valx" ? isfree(d) : live(d)) { ThrowingValue f{slot[d], idx(3), k == "vasx", ""}; with_type(static_cast<int>(idx(2)), f); res = f.res; }
            } else if (k == "cpyx" || k == "casx") {
                long d = idx(1), s = idx(2);
                if (idx(3) != 6) { std::fprintf(stderr, "BFL_VERIF_HARNESS cpyx/casx need type 6\n"); std::exit(3); }
                if ((k == "cpyx" ? isfree(d) : live(d)) && live(s)) {
                    const Data& src = *slot[s];
                    TProbe::armed = true;
                    try {
                        if (k == "cpyx") { vf::Entry e("any::any(const any&) throwing"); slot[d] = new Data(src); }
                        else { vf::Entry e("any::operator=(const any&) throwing"); *slot[d] = src; }
                        res = "unit";
                    } catch (const CopyThrows&) { res = "exn"; }
                    TProbe::armed = false;
                }
            } else if (k == "cp" || k == "ccp" || k == "cv" || k == "cr" || k == "ccv" || k == "crv" || k == "cpq" || k == "crq" || k == "xv" || k == "xa") {
                long d = idx(1);
                int form = k == "cp" ? 0 : k == "ccp" ? 1 : k == "cv" ? 2 : k == "cr" ? 3 : k == "ccv" ? 4 : k == "crv" ? 5 : k == "cpq" ? 6 : k == "crq" ? 7 : k == "xv" ? 8 : 9;
                // the pointer forms accept a null operand (no container at this index)
                if ((form <= 1 || form == 6) ? true : live(d)) { CastOp f{ok(d) ? slot[d] : nullptr, form, ""}; with_type(static_cast<int>(idx(2)), f); res = f.res; }
            } else if (k == "setp") {
                long d = idx(1);
                SetOp f{ok(d) ? slot[d] : nullptr, idx(3), false, ""}; with_type(static_cast<int>(idx(2)), f); res = f.res;
            } else if (k == "setr") {
                long d = idx(1);
                if (live(d)) { SetOp f{slot[d], idx(3), true, ""}; with_type(static_cast<int>(idx(2)), f); res = f.res; }
            } else {
                std::fprintf(stderr, "BFL_VERIF_HARNESS bad op token %s\n", tok.c_str()); std::exit(3);
            }
            // constructions of probe objects during the operation itself (before the observation casts)
            const std::string ktok = "K" + std::to_string(Probe::copies - kc4) + "," + std::to_string(MProbe::copies - kc5) + "," +
                                     std::to_string(MProbe::moves - km5) + "," + std::to_string(TProbe::copies - kc6);
            std::vector<std::string> line;
            line.push_back(res);
            for (long i = 0; i < N; i++) line.push_back(slot_tok(slot[i]));
            line.push_back("L" + std::to_string(Probe::live - p0) + "," + std::to_string(MProbe::live - m0) + "," + std::to_string(TProbe::live - t0));
            line.push_back(ktok);
            vf::out_word("r" + std::to_string(step++), line);
        }
        // end of the pool's scope: every container is destroyed
        { vf::Entry e("any::~any (end of scope)"); for (long i = 0; i < N; i++) { delete slot[i]; slot[i] = nullptr; } }
        vf::out_int("probe_live_end", Probe::live - p0);
        vf::out_int("mprobe_live_end", MProbe::live - m0);
        vf::out_int("probe_ctor_minus_dtor", (Probe::ctors - pc0) - (Probe::dtors - pd0));
        vf::out_int("mprobe_ctor_minus_dtor", (MProbe::ctors - mc0) - (MProbe::dtors - md0));
        vf::out_int("tprobe_live_end", TProbe::live - t0);
        vf::out_int("probe_bad_lifetime_events", Probe::bad + MProbe::bad + TProbe::bad - bad0);
    }
}

// The words run in forked children, a batch at a time, so that a memory error in one word
// cannot disturb the others.  A batch child buffers its records and prints them only if it
// ended normally and (sanitizer build) LeakSanitizer finds nothing leaked.  A failing batch
// is re-run one word per child; such a child streams its observation lines, and if it dies
// the parent closes the record with `int crashed <status>` and `word sanitizer <kind>`
// (classified from the child's stderr), so the oracle sees how far the word got.
// (A leak check per word in one process would be exact too, but costs ~50 ms per word.)
static int leak_check() {
#if defined(__SANITIZE_ADDRESS__)
    return __lsan_do_recoverable_leak_check() ? 1 : 0;
#else
    return 0;
#endif
}

static int wait_status(pid_t pid) {
    int status = 0;
    if (waitpid(pid, &status, 0) < 0) { std::perror("waitpid"); std::exit(3); }
    return WIFEXITED(status) ? WEXITSTATUS(status) : 128 + (WIFSIGNALED(status) ? WTERMSIG(status) : 0);
}

static int run_batch(const std::vector<vf::Case>& cs, size_t a, size_t b) {
    std::cout.flush(); std::fflush(stdout); std::fflush(stderr);
    pid_t pid = fork();
    if (pid < 0) { std::perror("fork"); std::exit(3); }
    if (pid == 0) {
        int fd = open("/dev/null", O_WRONLY); if (fd >= 0) dup2(fd, 2);
        std::ostringstream buf;
        std::streambuf* old = std::cout.rdbuf(buf.rdbuf());
        for (size_t i = a; i < b; i++) { run_case(cs[i]); vf::out_int("leaked", 0); std::cout << "end\n"; }
        std::cout.rdbuf(old);
        if (leak_check()) std::_Exit(77);
        std::cout << buf.str(); std::cout.flush(); std::fflush(stdout);
        std::_Exit(0);
    }
    return wait_status(pid);
}

static std::string classify(const std::string& err) {
    static const char* pats[][2] = {
        {"attempting double-free", "double-free"}, {"double free", "double-free"}, {"free(): invalid", "double-free"},
        {"heap-use-after-free", "use-after-free"}, {"heap-buffer-overflow", "heap-buffer-overflow"},
        {"alloc-dealloc-mismatch", "alloc-dealloc-mismatch"}, {"stack-buffer-overflow", "stack-buffer-overflow"},
        {"SEGV", "segv"}, {"runtime error", "undefined-behaviour"}, {"terminate called", "uncaught-exception"}};
    for (auto& p : pats) if (err.find(p[0]) != std::string::npos) return p[1];
    return "none";
}

static void run_single(const vf::Case& c) {
    std::cout.flush(); std::fflush(stdout); std::fflush(stderr);
    int pe[2];
    if (pipe(pe) != 0) { std::perror("pipe"); std::exit(3); }
    pid_t pid = fork();
    if (pid < 0) { std::perror("fork"); std::exit(3); }
    if (pid == 0) {
        close(pe[0]); dup2(pe[1], 2); close(pe[1]);
        std::cout << std::unitbuf;
        run_case(c);
        vf::out_int("leaked", leak_check());
        std::cout << "end" << std::endl;
        std::fflush(stdout);
        std::_Exit(0);
    }
    close(pe[1]);
    std::string err; char b[4096]; ssize_t n;
    while ((n = read(pe[0], b, sizeof b)) > 0) err.append(b, static_cast<size_t>(n));
    close(pe[0]);
    int st = wait_status(pid);
    if (st != 0) {
        std::cout << "\nint crashed " << st << "\nword sanitizer " << classify(err) << "\nend" << std::endl;
        std::fprintf(stderr, "BFL_VERIF_HARNESS case %s: child ended with status %d: %s\n", c.id.c_str(), st,
                     err.size() > 1500 ? err.substr(0, 1500).c_str() : err.c_str());
    } else if (err.find("LeakSanitizer") != std::string::npos) {
        std::fprintf(stderr, "BFL_VERIF_HARNESS case %s: %s\n", c.id.c_str(), err.size() > 1500 ? err.substr(0, 1500).c_str() : err.c_str());
    }
}

int main() {
    std::vector<vf::Case> cs;
    { vf::Case c; while (vf::read_case(std::cin, c)) cs.push_back(c); }
    const size_t B = 256;
    for (size_t a = 0; a < cs.size(); a += B) {
        size_t b = std::min(cs.size(), a + B);
        if (run_batch(cs, a, b) == 0) continue;
        for (size_t i = a; i < b; i++) run_single(cs[i]);
    }
    return 0;
}
