// common.hpp — case-file reader/writer shared by all harnesses (DESIGN.md B.1).
// The same grammar is parsed by ocaml/caseio.ml.
#pragma once
#include <Eigen/Dense>
#include <cmath>
#include <cstdio>
#include <cstdlib>
#include <iostream>
#include <map>
#include <sstream>
#include <string>
#include <vector>
#include <atomic>
#include <functional>
#include <thread>

namespace vf {

struct Case {
    std::string id, kind;
    std::map<std::string, std::string> meta;
    std::map<std::string, Eigen::MatrixXd> mats;
    std::map<std::string, long> ints;
    std::map<std::string, std::vector<std::string>> words;
    std::vector<std::string> order;

    bool has_mat(const std::string& n) const { return mats.count(n) > 0; }
    bool has_int(const std::string& n) const { return ints.count(n) > 0; }
    bool has_word(const std::string& n) const { return words.count(n) > 0; }
    const Eigen::MatrixXd& mat(const std::string& n) const {
        auto it = mats.find(n);
        if (it == mats.end()) { std::fprintf(stderr, "BFL_VERIF_HARNESS missing mat %s in case %s\n", n.c_str(), id.c_str()); std::exit(3); }
        return it->second;
    }
    long integer(const std::string& n) const {
        auto it = ints.find(n);
        if (it == ints.end()) { std::fprintf(stderr, "BFL_VERIF_HARNESS missing int %s in case %s\n", n.c_str(), id.c_str()); std::exit(3); }
        return it->second;
    }
    const std::vector<std::string>& word(const std::string& n) const {
        static const std::vector<std::string> empty;
        auto it = words.find(n);
        if (it == words.end()) return empty;
        return it->second;
    }
    std::string m(const std::string& k, const std::string& d = "") const {
        auto it = meta.find(k);
        return it == meta.end() ? d : it->second;
    }
    long mi(const std::string& k, long d = 0) const {
        auto it = meta.find(k);
        return it == meta.end() ? d : std::stol(it->second);
    }
};

inline double parse_double(const std::string& s) {
    if (s == "inf" || s == "+inf") return INFINITY;
    if (s == "-inf") return -INFINITY;
    if (s == "nan" || s == "-nan") return NAN;
    return std::strtod(s.c_str(), nullptr);
}

inline bool read_case(std::istream& in, Case& c) {
    std::string line;
    bool in_case = false;
    c = Case();
    while (std::getline(in, line)) {
        std::istringstream ss(line);
        std::string tag;
        if (!(ss >> tag)) continue;
        if (tag == "case") {
            in_case = true;
            ss >> c.id >> c.kind;
            std::string kv;
            while (ss >> kv) {
                auto p = kv.find('=');
                if (p != std::string::npos) c.meta[kv.substr(0, p)] = kv.substr(p + 1);
            }
        } else if (!in_case) {
            continue;
        } else if (tag == "end") {
            return true;
        } else if (tag == "mat") {
            std::string name; long r, cc;
            ss >> name >> r >> cc;
            Eigen::MatrixXd M(r, cc);
            std::string tok;
            for (long i = 0; i < r; i++) for (long j = 0; j < cc; j++) { ss >> tok; M(i, j) = parse_double(tok); }
            c.mats[name] = M; c.order.push_back(name);
        } else if (tag == "int") {
            std::string name; long k; ss >> name >> k; c.ints[name] = k; c.order.push_back(name);
        } else if (tag == "word" || tag == "bits" || tag == "str") {
            std::string name, tok; ss >> name;
            std::vector<std::string> w; while (ss >> tok) w.push_back(tok);
            c.words[name] = w; c.order.push_back(name);
        }
    }
    return false;
}

inline std::string fmt(double x) {
    if (std::isnan(x)) return "nan";
    if (std::isinf(x)) return x > 0 ? "inf" : "-inf";
    char buf[64]; std::snprintf(buf, sizeof buf, "%.17g", x); return buf;
}

inline void out_begin(const std::string& id) { std::cout << "out " << id << "\n"; }
inline void out_end() { std::cout << "end" << std::endl; }
template <typename Derived>
inline void out_mat(const std::string& name, const Eigen::MatrixBase<Derived>& M) {
    std::cout << "mat " << name << " " << M.rows() << " " << M.cols();
    for (long i = 0; i < M.rows(); i++) for (long j = 0; j < M.cols(); j++) std::cout << " " << fmt(static_cast<double>(M(i, j)));
    std::cout << "\n";
}
inline void out_int(const std::string& name, long k) { std::cout << "int " << name << " " << k << "\n"; }
inline void out_num(const std::string& name, double x) { std::cout << "num " << name << " " << fmt(x) << "\n"; }
inline void out_str(const std::string& name, const std::string& s) { std::cout << "str " << name << " " << s << "\n"; }
inline void out_word(const std::string& name, const std::vector<std::string>& w) {
    std::cout << "word " << name; for (auto& s : w) std::cout << " " << s; std::cout << "\n";
}
// bitwise equality of two matrices (same shape, same bit patterns; NaN == NaN)
template <typename A, typename B>
inline bool bit_equal(const Eigen::MatrixBase<A>& a, const Eigen::MatrixBase<B>& b) {
    if (a.rows() != b.rows() || a.cols() != b.cols()) return false;
    for (long i = 0; i < a.rows(); i++) for (long j = 0; j < a.cols(); j++) {
        double x = a(i, j), y = b(i, j);
        if (std::memcmp(&x, &y, sizeof x) != 0) return false;
    }
    return true;
}

// Re-entrancy probe for the library's pure utility functions: every job is first evaluated alone (expected value), then
// all jobs run at the same time, one thread each, `reps` times; returns false when some concurrent evaluation is not
// bit-identical to the sequential one (hidden shared state: a function-local static buffer, a global cache).  Jobs should
// compute DIFFERENT values of the SAME shapes, otherwise a shared buffer holds the same numbers for every caller.
inline bool concurrent_same(const std::vector<std::function<Eigen::MatrixXd()>>& jobs, int reps) {
    std::vector<Eigen::MatrixXd> expected;
    for (auto& j : jobs) expected.push_back(j());
    std::atomic<int> ready(0); std::atomic<bool> go(false), ok(true);
    std::vector<std::thread> th;
    for (size_t t = 0; t < jobs.size(); t++)
        th.emplace_back([&, t]() {
            ready++;
            while (!go.load()) {}
            for (int k = 0; k < reps && ok.load(); k++)
                if (!bit_equal(jobs[t](), expected[t])) ok = false;
        });
    while (ready.load() < static_cast<int>(jobs.size())) {}
    go = true;
    for (auto& x : th) x.join();
    return ok.load();
}
// columns of m rotated left by k
inline Eigen::MatrixXd rotate_cols(const Eigen::MatrixXd& m, long k) {
    if (m.cols() == 0) return m;
    Eigen::MatrixXd o(m.rows(), m.cols());
    for (long j = 0; j < m.cols(); j++) o.col(j) = m.col((j + k) % m.cols());
    return o;
}

// Callback re-entrancy ("intruder"): the library calls back into user code (measurement / state / exogenous models, the
// function given to the unscented transform).  Nothing forbids that user code from using the library itself, e.g. from
// running another, unrelated filter object (or another thread doing so at that moment).  A harness sets `intruder` to a
// closure that performs a complete operation on an independent twin object with OTHER data of the same shapes and calls
// vf::intrude() from every model callback; the results of the outer operation must not change (hidden state shared
// between objects: function-local statics, globals).  Deterministic, no threads.  Recursion is cut at depth one.
struct IntruderState { std::function<void()> fn; int depth = 0; long calls = 0; };
inline IntruderState& intruder_state() { static IntruderState s; return s; }
inline void set_intruder(std::function<void()> f) { intruder_state().fn = std::move(f); intruder_state().calls = 0; }
inline void clear_intruder() { intruder_state().fn = nullptr; }
inline void intrude() {
    IntruderState& s = intruder_state();
    if (!s.fn || s.depth > 0) return;
    s.depth++; s.calls++;
    try { s.fn(); } catch (...) { s.depth--; throw; }
    s.depth--;
}

// label of the API entry point being exercised (printed by the Eigen assertion handler)
extern thread_local const char* current_entry;
struct Entry { const char* prev; explicit Entry(const char* l) : prev(current_entry) { current_entry = l; } ~Entry() { current_entry = prev; } };

}  // namespace vf

#ifdef VF_MAIN
namespace vf { thread_local const char* current_entry = "none"; }
extern "C" const char* bfl_verif_current_entry() { return vf::current_entry; }
#endif
