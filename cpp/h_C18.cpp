// h_C18.cpp — harness for C18: bfl::utils quaternion utilities.
// kinds: conv     q (4 x N), r (3 x M): log q, log(-q), exp(log q), exp r, log(exp r)
//        sumdiff  q0 (4 x 1), r (3 x N), ql (4 x M): sum(q0, r), diff(sum, q0), diff(ql, q0)
//        mean     w (N x 1), q (4 x N) [, q2 (some columns negated), w3/q3 (permuted)]
// Every template is instantiated three times: with plain MatrixXd arguments, with Block expressions cut out of
// larger matrices (M.middleRows(k, 4), M.col(j).middleRows(k, 4), W.col(j) — the way sigma_point.cpp calls them)
// and with Ref<const MatrixXd>; `via_equal` reports whether the three results are bit-identical.
#define VF_MAIN
#include "common.hpp"
#include <BayesFilters/utils.h>
#include <sys/types.h>
#include <sys/wait.h>
#include <unistd.h>

using namespace bfl;
using namespace Eigen;

// m embedded in a larger matrix: two junk rows above, one below
static MatrixXd framed(const MatrixXd& m) {
    MatrixXd big = MatrixXd::Constant(m.rows() + 3, m.cols(), 321.5);
    big.middleRows(2, m.rows()) = m;
    return big;
}
// a column vector embedded as column 1, rows 1.. of a larger matrix
static MatrixXd framed_col(const MatrixXd& v) {
    MatrixXd H = MatrixXd::Constant(v.rows() + 2, 3, -9.25);
    H.col(1).middleRows(1, v.rows()) = v.col(0);
    return H;
}

static bool via_ok = true;
static void same(const MatrixXd& a, const MatrixXd& b) { via_ok = via_ok && vf::bit_equal(a, b); }

static MatrixXd do_log(const MatrixXd& q) {
    MatrixXd r;
    { vf::Entry e("utils::quaternion_to_rotation_vector"); r = utils::quaternion_to_rotation_vector(q); }
    const MatrixXd big = framed(q); Ref<const MatrixXd> ref(q);
    { vf::Entry e("utils::quaternion_to_rotation_vector[Block]"); same(r, utils::quaternion_to_rotation_vector(big.middleRows(2, 4))); }
    { vf::Entry e("utils::quaternion_to_rotation_vector[Ref]"); same(r, utils::quaternion_to_rotation_vector(ref)); }
    return r;
}
static MatrixXd do_exp(const MatrixXd& r) {
    MatrixXd q;
    { vf::Entry e("utils::rotation_vector_to_quaternion"); q = utils::rotation_vector_to_quaternion(r); }
    const MatrixXd big = framed(r); Ref<const MatrixXd> ref(r);
    { vf::Entry e("utils::rotation_vector_to_quaternion[Block]"); same(q, utils::rotation_vector_to_quaternion(big.middleRows(2, 3))); }
    { vf::Entry e("utils::rotation_vector_to_quaternion[Ref]"); same(q, utils::rotation_vector_to_quaternion(ref)); }
    return q;
}
static MatrixXd do_sum(const MatrixXd& q0, const MatrixXd& r) {
    MatrixXd s;
    { vf::Entry e("utils::sum_quaternion_rotation_vector"); s = utils::sum_quaternion_rotation_vector(q0, r); }
    const MatrixXd H = framed_col(q0), big = framed(r); Ref<const MatrixXd> rq(q0), rr(r);
    { vf::Entry e("utils::sum_quaternion_rotation_vector[Block]"); same(s, utils::sum_quaternion_rotation_vector(H.col(1).middleRows(1, 4), big.middleRows(2, 3))); }
    { vf::Entry e("utils::sum_quaternion_rotation_vector[Ref]"); same(s, utils::sum_quaternion_rotation_vector(rq, rr)); }
    return s;
}
static MatrixXd do_diff(const MatrixXd& ql, const MatrixXd& q0) {
    MatrixXd d;
    { vf::Entry e("utils::diff_quaternion"); d = utils::diff_quaternion(ql, q0); }
    const MatrixXd H = framed_col(q0), big = framed(ql); Ref<const MatrixXd> rq(q0), rl(ql);
    { vf::Entry e("utils::diff_quaternion[Block]"); same(d, utils::diff_quaternion(big.middleRows(2, 4), H.col(1).middleRows(1, 4))); }
    { vf::Entry e("utils::diff_quaternion[Ref]"); same(d, utils::diff_quaternion(rl, rq)); }
    return d;
}
static MatrixXd do_mean(const MatrixXd& w, const MatrixXd& q) {
    MatrixXd m;
    { vf::Entry e("utils::mean_quaternion"); m = utils::mean_quaternion(w, q); }
    const MatrixXd W = framed_col(w), big = framed(q); Ref<const MatrixXd> rw(w), rq(q);
    { vf::Entry e("utils::mean_quaternion[Block]"); same(m, utils::mean_quaternion(W.col(1).middleRows(1, w.rows()), big.middleRows(2, 4))); }
    { vf::Entry e("utils::mean_quaternion[Ref]"); same(m, utils::mean_quaternion(rw, rq)); }
    return m;
}

// The re-entrancy probe runs in a forked child: code that shares hidden state between threads (a function-local static
// buffer resized by two callers) corrupts the heap, and the corruption must not reach the records this process prints
// (garbage bytes in the output, a crash after the last record).  The child reports through its exit status; a child that
// crashes or is killed counts as "callers interfere".  No thread is alive at the time of the fork.
static int concurrent_probe(const std::vector<std::function<MatrixXd()>>& jobs, int reps) {
#if defined(__SANITIZE_ADDRESS__)
    // under AddressSanitizer a fork per case is very expensive (shadow memory) and not needed: heap misuse is reported by the sanitizer itself
    return vf::concurrent_same(jobs, reps) ? 1 : 0;
#endif
    std::cout.flush(); fflush(stdout);
    const pid_t pid = fork();
    if (pid < 0) return vf::concurrent_same(jobs, reps) ? 1 : 0;
    if (pid == 0) { const bool ok = vf::concurrent_same(jobs, reps); _exit(ok ? 0 : 1); }
    int status = 0;
    if (waitpid(pid, &status, 0) != pid) return 0;
    return (WIFEXITED(status) && WEXITSTATUS(status) == 0) ? 1 : 0;
}

int main() {
    vf::Case c;
    while (vf::read_case(std::cin, c)) {
        vf::out_begin(c.id);
        via_ok = true;
        if (c.kind == "conv") {
            const MatrixXd& q = c.mat("q"); const MatrixXd& r = c.mat("r");
            MatrixXd q_copy = q, r_copy = r;
            MatrixXd log_q = do_log(q);
            MatrixXd nq = -q;
            MatrixXd log_negq = do_log(nq);
            MatrixXd exp_log_q = do_exp(log_q);
            MatrixXd exp_r = do_exp(r);
            MatrixXd log_exp_r = do_log(exp_r);
            vf::out_mat("log_q", log_q); vf::out_mat("log_negq", log_negq); vf::out_mat("exp_log_q", exp_log_q);
            vf::out_mat("exp_r", exp_r); vf::out_mat("log_exp_r", log_exp_r);
            vf::out_int("inputs_unchanged", vf::bit_equal(q, q_copy) && vf::bit_equal(r, r_copy) ? 1 : 0);
        } else if (c.kind == "sumdiff") {
            const MatrixXd& q0 = c.mat("q0"); const MatrixXd& r = c.mat("r"); const MatrixXd& ql = c.mat("ql");
            MatrixXd s = do_sum(q0, r);
            MatrixXd ds = do_diff(s, q0);
            MatrixXd d = do_diff(ql, q0);
            vf::out_mat("sum", s); vf::out_mat("diff_sum", ds); vf::out_mat("diff", d);
        } else if (c.kind == "mean") {
            const MatrixXd& w = c.mat("w"); const MatrixXd& q = c.mat("q");
            vf::out_mat("mean", do_mean(w, q));
            if (c.has_mat("q2")) vf::out_mat("mean_neg", do_mean(w, c.mat("q2")));
            if (c.has_mat("q3")) vf::out_mat("mean_perm", do_mean(c.mat("w3"), c.mat("q3")));
        }
        // the utilities are pure functions: callers in different threads (two filters in one process) must not interfere
        {
            vf::Entry e("utils::quaternion utilities from several threads");
            const int T = 3, reps = static_cast<int>(c.mi("reps", 40));
            std::vector<std::function<MatrixXd()>> jobs;
            for (int t = 0; t < T; t++) {
                if (c.kind == "conv") {
                    const MatrixXd q = vf::rotate_cols(c.mat("q"), t), r = vf::rotate_cols(c.mat("r"), t);
                    jobs.push_back([q, r]() { MatrixXd l = utils::quaternion_to_rotation_vector(q); MatrixXd x = utils::rotation_vector_to_quaternion(r);
                                              MatrixXd o(7, std::max(l.cols(), x.cols())); o.setZero(); o.topLeftCorner(3, l.cols()) = l; o.bottomLeftCorner(4, x.cols()) = x; return o; });
                } else if (c.kind == "sumdiff") {
                    const MatrixXd q0 = c.mat("q0"), r = vf::rotate_cols(c.mat("r"), t), ql = vf::rotate_cols(c.mat("ql"), t);
                    jobs.push_back([q0, r, ql]() { MatrixXd s = utils::sum_quaternion_rotation_vector(q0, r); MatrixXd ds = utils::diff_quaternion(s, q0); MatrixXd d = utils::diff_quaternion(ql, q0);
                                                   MatrixXd o(10, std::max(s.cols(), d.cols())); o.setZero(); o.topLeftCorner(4, s.cols()) = s; o.block(4, 0, 3, ds.cols()) = ds; o.bottomLeftCorner(3, d.cols()) = d; return o; });
                } else if (c.kind == "mean") {
                    const MatrixXd w = c.mat("w"), q = c.mat("q");
                    MatrixXd wt(w.rows(), 1); for (long j = 0; j < w.rows(); j++) wt(j, 0) = w((j + t) % w.rows(), 0);
                    jobs.push_back([wt, q]() { MatrixXd m = utils::mean_quaternion(wt, q); return m; });
                }
            }
            vf::out_int("concurrent_equal", concurrent_probe(jobs, reps));
        }
        vf::out_int("via_equal", via_ok ? 1 : 0);
        vf::out_end();
    }
    return 0;
}
