// h_C18.cpp — harness for C18: bfl::utils quaternion utilities.
// kinds: conv     q (4 x N), r (3 x M): log q, log(-q), exp(log q), exp r, log(exp r)
//        sumdiff  q0 (4 x 1), r (3 x N), ql (4 x M): sum(q0, r), diff(sum, q0), diff(ql, q0)
//        mean     w (N x 1), q (4 x N) [, q2 (some columns negated), w3/q3 (permuted)]
#define VF_MAIN
#include "common.hpp"
#include <BayesFilters/utils.h>

using namespace bfl;
using namespace Eigen;

int main() {
    vf::Case c;
    while (vf::read_case(std::cin, c)) {
        vf::out_begin(c.id);
        if (c.kind == "conv") {
            const MatrixXd& q = c.mat("q"); const MatrixXd& r = c.mat("r");
            MatrixXd q_copy = q, r_copy = r;
            MatrixXd log_q, log_negq, exp_log_q, exp_r, log_exp_r;
            { vf::Entry e("utils::quaternion_to_rotation_vector"); log_q = utils::quaternion_to_rotation_vector(q); }
            { vf::Entry e("utils::quaternion_to_rotation_vector"); MatrixXd nq = -q; log_negq = utils::quaternion_to_rotation_vector(nq); }
            { vf::Entry e("utils::rotation_vector_to_quaternion"); exp_log_q = utils::rotation_vector_to_quaternion(log_q); }
            { vf::Entry e("utils::rotation_vector_to_quaternion"); exp_r = utils::rotation_vector_to_quaternion(r); }
            { vf::Entry e("utils::quaternion_to_rotation_vector"); log_exp_r = utils::quaternion_to_rotation_vector(exp_r); }
            vf::out_mat("log_q", log_q); vf::out_mat("log_negq", log_negq); vf::out_mat("exp_log_q", exp_log_q);
            vf::out_mat("exp_r", exp_r); vf::out_mat("log_exp_r", log_exp_r);
            vf::out_int("inputs_unchanged", vf::bit_equal(q, q_copy) && vf::bit_equal(r, r_copy) ? 1 : 0);
        } else if (c.kind == "sumdiff") {
            const MatrixXd& q0 = c.mat("q0"); const MatrixXd& r = c.mat("r"); const MatrixXd& ql = c.mat("ql");
            MatrixXd s, ds, d;
            { vf::Entry e("utils::sum_quaternion_rotation_vector"); s = utils::sum_quaternion_rotation_vector(q0, r); }
            { vf::Entry e("utils::diff_quaternion"); ds = utils::diff_quaternion(s, q0); }
            { vf::Entry e("utils::diff_quaternion"); d = utils::diff_quaternion(ql, q0); }
            vf::out_mat("sum", s); vf::out_mat("diff_sum", ds); vf::out_mat("diff", d);
        } else if (c.kind == "mean") {
            const MatrixXd& w = c.mat("w"); const MatrixXd& q = c.mat("q");
            MatrixXd m;
            { vf::Entry e("utils::mean_quaternion"); m = utils::mean_quaternion(w, q); }
            vf::out_mat("mean", m);
            if (c.has_mat("q2")) { vf::Entry e("utils::mean_quaternion"); MatrixXd m2 = utils::mean_quaternion(w, c.mat("q2")); vf::out_mat("mean_neg", m2); }
            if (c.has_mat("q3")) { vf::Entry e("utils::mean_quaternion"); MatrixXd m3 = utils::mean_quaternion(c.mat("w3"), c.mat("q3")); vf::out_mat("mean_perm", m3); }
        }
        vf::out_end();
    }
    return 0;
}
