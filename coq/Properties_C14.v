(* Properties_C14.v — property C14: no operation reads or writes outside its
   matrices or mixes incompatible sizes.

   Statements only; each is closed by a lemma of C14_Proofs.  They are about
   the shape programs of C14_Model.v (the very definitions that are extracted
   and run against the library): for EVERY configuration satisfying the stated
   validity premise — unbounded dimensions, component counts, particle counts,
   call counts, operation sequences — no Eigen precondition of the entry point
   fails ([check_shapes ... = None]) and the library's own validation does not
   reject the configuration ([run ... = Safe], which is what the lemmas prove).
   Where the statement is false of the faithful shape program the theorem is
   [..._refuted] with a concrete configuration. *)
Require Import Arith List Bool String.
Require Import BFL.C14_Model BFL.C14_Proofs.
Import ListNotations.
Open Scope nat_scope.

(* ---- WhiteNoiseAcceleration: constructor, getNoiseSample, propagate, motion,
        getTransitionProbability; D = 1, 2, 3 are Dim::OneD/TwoD/ThreeD (the
        statement holds for every D), any number of samples / states *)
Theorem C14_WhiteNoiseAcceleration_safe D num sc pc :
  check_shapes (case_wna D num (wna_d D) sc (wna_d D) sc (wna_d D) pc (wna_d D) pc) = None.
Proof. exact (check_none_of_safe _ (case_wna_safe D num sc pc)). Qed.

(* ---- SimulatedStateModel: constructor and ANY number of bufferData calls *)
Theorem C14_SimulatedStateModel_safe D T calls : 0 < T ->
  check_shapes (case_simstate D T (wna_d D) calls) = None.
Proof. intro H. exact (check_none_of_safe _ (case_simstate_safe D T calls H)). Qed.

(* exhaustion is reported through the return value: call number k (from 0) returns true iff k < T *)
Theorem C14_bufferData_exhaustion_reported T calls k : k < calls ->
  nth k (sim_returns T calls) false = (k <? T).
Proof. exact (sim_returns_spec T calls k). Qed.

(* ---- LinearModel / SimulatedLinearSensor: any measured-component list (any
        subset, any order, repetitions, more measurements than states), any
        number of freeze calls *)
Theorem C14_SimulatedLinearSensor_safe D T ms calls num sc :
  0 < T -> ms <> [] -> Forall (fun c => c < wna_d D) ms -> 0 < D ->
  check_shapes (case_linsensor D T (wna_d D) (wna_d D) ms (List.length ms) (List.length ms) calls num (wna_d D) sc) = None.
Proof. intros. apply check_none_of_safe, case_linsensor_safe; assumption. Qed.

(* ---- HistoryBuffer: EVERY sequence of addElement / setHistorySize /
        decrease / increase / clear / getHistoryBuffer; in particular pop_back
        is never applied to an empty deque *)
Theorem C14_HistoryBuffer_safe ssz ops : adds_sized ssz ops ->
  check_shapes (case_history ssz ops) = None.
Proof. intro H. exact (check_none_of_safe _ (case_history_safe ssz ops H)). Qed.

(* ---- InitSurveillanceAreaGrid on 4-dimensional states, any grid, any particle count *)
Theorem C14_InitSurveillanceAreaGrid_safe nx ny n l : ldim l = 4 ->
  check_shapes (case_grid nx ny n l) = None.
Proof. intro H. exact (check_none_of_safe _ (case_grid_safe nx ny n l H)). Qed.

(* ---- sigma_point(): every layout (linear, circular, quaternion or not, noise), any component count *)
Theorem C14_sigma_point_safe l comps : check_shapes (case_sigma l comps) = None.
Proof. exact (check_none_of_safe _ (case_sigma_safe l comps)). Qed.

(* ---- augmentWithNoise on a particle set (once and twice, square or rejected non-square noise
        covariance), then the sigma points of the augmented set *)
Theorem C14_augmentWithNoise_safe l comps qr qc qr2 qc2 :
  check_shapes (case_psaug l comps qr qc qr2 qc2) = None.
Proof. exact (check_none_of_safe _ (case_psaug_safe l comps qr qc qr2 qc2)). Qed.

(* ---- unscented_transform: the five overloads, every input and output layout *)
Theorem C14_unscented_transform_safe variant li comps w valid pr pc lo qr qc :
  ut_valid variant li comps w valid pr pc lo qr qc ->
  check_shapes (case_ut variant li comps w valid pr pc lo qr qc) = None.
Proof. intro H. exact (check_none_of_safe _ (case_ut_safe _ _ _ _ _ _ _ _ _ _ H)). Qed.

(* in particular the additive measurement overload after a FAILED evaluation, any component count and
   measurement size (repaired by 49d7ed0; the old transcription and its witness are in C14_Regress.v) *)
Theorem C14_unscented_transform_additive_measurement_failed_safe li comps pr pc lo :
  noise lo = 0 ->
  check_shapes (case_ut 4 li comps (lcov li) false pr pc lo (lcov lo) (lcov lo)) = None.
Proof.
  intro H. apply check_none_of_safe, case_ut_safe. repeat split; try assumption; discriminate.
Qed.

(* ---- Kalman steps (beliefs without quaternions; output object of the input's shape) *)
Theorem C14_KFPrediction_safe l comps : quat l = false ->
  check_shapes (case_kfp (ldim l) l comps l comps) = None.
Proof. intro H. exact (check_none_of_safe _ (case_kfp_safe l comps H)). Qed.

Theorem C14_KFCorrection_safe m l comps yc again : quat l = false -> 0 < yc ->
  check_shapes (case_kfc m (ldim l) l comps l comps m yc again) = None.
Proof. intros H H0. exact (check_none_of_safe _ (case_kfc_safe m l comps yc again H H0)). Qed.

(* ---- UKF prediction: additive and generic (noise-augmented), every layout including quaternions *)
Theorem C14_UKFPrediction_additive_safe l comps : noise l = 0 ->
  check_shapes (case_ukfp true l comps (lcov l) l) = None.
Proof. intro H. exact (check_none_of_safe _ (case_ukfp_additive_safe l comps H)). Qed.

Theorem C14_UKFPrediction_generic_safe l comps q : noise l = 0 ->
  check_shapes (case_ukfp false l comps q l) = None.
Proof. intro H. exact (check_none_of_safe _ (case_ukfp_generic_safe l comps q H)). Qed.

(* ---- UKF correction (generic and additive): linear / Euler states, EVERY measurement layout
        (quaternion measurements included since e82207d), the evaluation
        succeeding or failing, followed by getLikelihood(); [again]: then a second correction whose
        evaluation fails and getLikelihood() once more *)
Theorem C14_UKFCorrection_safe additive lp comps r valid lm again :
  ukfc_valid additive lp r valid lm ->
  check_shapes (case_ukfc additive lp comps r valid lm (lcov lm) lp comps again) = None.
Proof. intro H. exact (check_none_of_safe _ (case_ukfc_safe additive lp comps r valid lm again H)). Qed.

(* in particular quaternion measurements (the old program and its witness are in C14_Regress.v) *)
Theorem C14_UKFCorrection_quaternion_measurement_safe additive lp comps r valid mL mC again :
  quat lp = false -> noise lp = 0 -> (additive = true -> r = lcov (Lay mL mC true 0)) ->
  check_shapes (case_ukfc additive lp comps r valid (Lay mL mC true 0) (lcov (Lay mL mC true 0)) lp comps again) = None.
Proof.
  intros H H0 H1. apply check_none_of_safe, case_ukfc_safe. repeat split; try assumption; reflexivity.
Qed.

Theorem C14_UKFCorrection_quaternion_state_refuted :
  check_shapes (case_ukfc true (Lay 2 1 true 0) 1 2 true (Lay 2 0 false 0) 2 (Lay 2 1 true 0) 1 false)
  = Some (e_ukfc, "pred.mean(i)+K*innovation"%string).
Proof. exact ukfc_quaternion_state_refuted. Qed.

(* ---- serial UKF correction on linear / Euler states, any sub-measurement size, and its likelihood *)
Theorem C14_SUKFCorrection_safe lp comps msz sub again : quat lp = false -> noise lp = 0 ->
  check_shapes (case_sukf lp comps msz sub msz msz lp comps again) = None.
Proof. intros H H0. exact (check_none_of_safe _ (case_sukf_safe lp comps msz sub again H H0)). Qed.

Theorem C14_SUKFCorrection_quaternion_state_refuted :
  check_shapes (case_sukf (Lay 2 1 true 0) 1 2 1 2 2 (Lay 2 1 true 0) 1 false)
  = Some (e_sukf, "propagated.middleCols(size_sigmas*i,size_sigmas)"%string).
Proof. exact sukf_quaternion_state_refuted. Qed.

(* ---- Resampling and ResamplingWithPrior (prior share < 1): every layout, quaternion sets included (d09c5ac) *)
Theorem C14_Resampling_safe l n : 0 < n -> check_shapes (case_resample l n l n n) = None.
Proof. intro H. exact (check_none_of_safe _ (case_resample_safe l n H)). Qed.

Theorem C14_ResamplingWithPrior_safe l n k : noise l = 0 -> k < n ->
  check_shapes (case_resprior l n k n) = None.
Proof. intros H H0. exact (check_none_of_safe _ (case_resprior_safe l n k H H0)). Qed.

Theorem C14_ResamplingWithPrior_quaternion_safe L C n k : k < n ->
  check_shapes (case_resprior (Lay L C true 0) n k n) = None.
Proof. intro H. exact (check_none_of_safe _ (case_resprior_safe (Lay L C true 0) n k eq_refl H)). Qed.

(* ---- density utilities *)
Theorem C14_gaussian_density_safe r c : check_shapes (case_density r c r r r) = None.
Proof. exact (check_none_of_safe _ (case_density_safe r c)). Qed.

Theorem C14_gaussian_density_UVR_safe r c s bs rc : 0 < bs -> (rc = bs \/ rc = r) ->
  check_shapes (case_uvr r c r r s s r bs rc) = None.
Proof. intros H H0. exact (check_none_of_safe _ (case_uvr_safe r c s bs rc H H0)). Qed.

(* ---- estimate extraction: every method, any window, any number of calls *)
Theorem C14_EstimatesExtraction_safe w calls stat avg el ec pr n wn pw ln tr tc :
  ext_valid stat el ec pr n wn pw ln tr tc ->
  check_shapes (case_extract w calls stat avg el ec pr n wn pw ln tr tc) = None.
Proof. intro H. exact (check_none_of_safe _ (case_extract_safe _ _ _ _ _ _ _ _ _ _ _ _ _ H)). Qed.

(* ---- non-vacuity: the premises hold on concrete non-trivial configurations, the programs are
        not empty, and the calculus does reject inputs outside the declared shapes *)
Example C14_nonvacuous_programs :
  List.length (case_wna 3 5 6 4 6 4 6 4 6 4) = 35 /\
  List.length (case_ut 3 (Lay 2 1 true 2) 2 7 true 5 30 (Lay 1 1 true 0) 0 0) = 94 /\
  ut_valid 3 (Lay 2 1 true 2) 2 7 true 5 30 (Lay 1 1 true 0) 0 0 /\
  ukfc_valid true (Lay 2 2 false 0) 2 false (Lay 1 1 false 0) /\
  ext_valid 2 2 1 3 4 4 4 4 4 4 /\
  adds_sized 2 [HAdd 2; HAdd 2; HAdd 2; HSet 2; HGet; HDec; HGet].
Proof.
  repeat split; try reflexivity; try (vm_compute; reflexivity); try (intros; discriminate);
    try (apply Nat.lt_0_succ);
    try (intros e [H|[H|[H|[H|[H|[H|[H|[]]]]]]]]; inversion H; reflexivity).
Qed.

Example C14_calculus_rejects_mismatched_inputs :
  (* 4-row states into the 1-D motion model *)
  check_shapes (case_wna 1 2 4 2 4 2 2 2 2 2) = Some (e_wna_prop, "F*cur_states"%string) /\
  (* an element of another size stored in a 3-dimensional history *)
  check_shapes (case_history 3 [HAdd 3; HAdd 2; HGet]) = Some (e_h_get, "col(i)=element"%string) /\
  (* an empty simulated trajectory is rejected by the constructor (an exception, not a failure) *)
  run (case_simstate 1 0 2 1) = Threw e_sim_ctor "simulation_time >= 1" /\
  (* a grid initialiser on 2-dimensional states *)
  check_shapes (case_grid 2 2 4 (Lay 2 0 false 0)) = Some (e_grid, "col<<x,0,y,0"%string) /\
  (* the library's own validation is a reported exception, not a failure *)
  run (case_linsensor 2 2 4 4 [0; 4] 2 2 1 1 4 1) = Threw e_sls_ctor "component index < state size".
Proof. repeat split; vm_compute; reflexivity. Qed.

Print Assumptions C14_WhiteNoiseAcceleration_safe.
Print Assumptions C14_SimulatedStateModel_safe.
Print Assumptions C14_bufferData_exhaustion_reported.
Print Assumptions C14_SimulatedLinearSensor_safe.
Print Assumptions C14_HistoryBuffer_safe.
Print Assumptions C14_InitSurveillanceAreaGrid_safe.
Print Assumptions C14_sigma_point_safe.
Print Assumptions C14_augmentWithNoise_safe.
Print Assumptions C14_unscented_transform_safe.
Print Assumptions C14_unscented_transform_additive_measurement_failed_safe.
Print Assumptions C14_KFPrediction_safe.
Print Assumptions C14_KFCorrection_safe.
Print Assumptions C14_UKFPrediction_additive_safe.
Print Assumptions C14_UKFPrediction_generic_safe.
Print Assumptions C14_UKFCorrection_safe.
Print Assumptions C14_UKFCorrection_quaternion_measurement_safe.
Print Assumptions C14_UKFCorrection_quaternion_state_refuted.
Print Assumptions C14_SUKFCorrection_safe.
Print Assumptions C14_SUKFCorrection_quaternion_state_refuted.
Print Assumptions C14_Resampling_safe.
Print Assumptions C14_ResamplingWithPrior_safe.
Print Assumptions C14_ResamplingWithPrior_quaternion_safe.
Print Assumptions C14_gaussian_density_safe.
Print Assumptions C14_gaussian_density_UVR_safe.
Print Assumptions C14_EstimatesExtraction_safe.
