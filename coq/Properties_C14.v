(* Properties_C14.v — property C14 (placeholder while the pipeline is brought up). *)
Require Import Arith List Bool String.
Require Import BFL.C14_Model BFL.C14_Proofs.

Theorem C14_WhiteNoiseAcceleration_safe D num sc pc :
  check_shapes (case_wna D num (wna_d D) sc (wna_d D) sc (wna_d D) pc (wna_d D) pc) = None.
Proof. apply check_none_of_safe, case_wna_safe. Qed.

Print Assumptions C14_WhiteNoiseAcceleration_safe.
