(* Properties_C14.v — property C14: no operation reads or writes outside its
   matrices or mixes incompatible sizes.

   Statements only; each is closed by a lemma of C14_Proofs.  They are about
   the shape programs of C14_Model.v (the very definitions that are extracted
   and run against the library).  Every positive theorem has the form
   [run (case_...) = Safe]: for EVERY configuration satisfying the stated
   validity premise — unbounded dimensions, component counts, particle counts,
   call counts, operation sequences — no Eigen precondition of the entry points
   fails AND the library's own validation does not reject the configuration
   ([Safe] excludes both [Fails] and [Threw]; the weaker [check_shapes = None]
   follows by [check_none_of_safe]).  Where the statement is false of the
   faithful shape program the theorem is [..._refuted : run ... = Fails e s]
   with a concrete configuration. *)
Require Import Arith List Bool String Lia.
Require Import BFL.C14_Model BFL.C14_Proofs.
Import ListNotations.
Open Scope nat_scope.

(* ---- WhiteNoiseAcceleration: constructor, getNoiseSample, propagate, motion,
        getTransitionProbability; D = 1, 2, 3 are Dim::OneD/TwoD/ThreeD (the
        statement holds for every D), any number of samples / states *)
Theorem C14_WhiteNoiseAcceleration_safe D num sc pc :
  run (case_wna D num (wna_d D) sc (wna_d D) sc (wna_d D) pc (wna_d D) pc) = Safe.
Proof. exact (case_wna_safe D num sc pc). Qed.

(* ---- SimulatedStateModel: constructor and ANY sequence of bufferData / setProperty("reset") calls *)
Theorem C14_SimulatedStateModel_safe D T ops : 0 < T ->
  run (case_simstate D T (wna_d D) ops) = Safe.
Proof. exact (case_simstate_safe D T ops). Qed.

(* exhaustion is reported through the return value: without a reset, call number k (from 0) returns
   true iff k < T — a theorem about the transcribed cursor state machine (sim_next), by induction *)
Theorem C14_bufferData_exhaustion_reported T calls k : k < calls ->
  nth k (sim_returns T calls) false = (k <? T).
Proof. exact (sim_returns_spec T calls k). Qed.

(* ---- LinearModel / SimulatedLinearSensor: any measured-component list (any
        subset, any order, repetitions, more measurements than states), any
        number of freeze calls *)
Theorem C14_SimulatedLinearSensor_safe D T ms calls num sc :
  0 < T -> ms <> [] -> Forall (fun c => c < wna_d D) ms -> 0 < D ->
  run (case_linsensor D T (wna_d D) (wna_d D) ms (List.length ms) (List.length ms) calls num (wna_d D) sc) = Safe.
Proof. exact (case_linsensor_safe D T ms calls num sc). Qed.

(* ---- HistoryBuffer: EVERY sequence of addElement / setHistorySize /
        decrease / increase / clear / getHistoryBuffer; in particular pop_back
        is never applied to an empty deque *)
Theorem C14_HistoryBuffer_safe ssz ops : adds_sized ssz ops ->
  run (case_history ssz ops) = Safe.
Proof. exact (case_history_safe ssz ops). Qed.

(* ---- InitSurveillanceAreaGrid: any grid, any particle count, states of ANY size (it returns false unless
        the count is nx * ny and the states have the 4 rows x, vx, y, vy; the old program that wrote into 2- and
        6-row states, with its witnesses, is in C14_Regress.v) *)
Theorem C14_InitSurveillanceAreaGrid_safe nx ny n l : run (case_grid nx ny n l) = Safe.
Proof. exact (case_grid_safe nx ny n l). Qed.
Theorem C14_InitSurveillanceAreaGrid_state_2d_safe nx ny n : run (case_grid nx ny n (Lay 2 0 false 0)) = Safe.
Proof. exact (case_grid_safe nx ny n (Lay 2 0 false 0)). Qed.
Theorem C14_InitSurveillanceAreaGrid_state_6d_safe nx ny n : run (case_grid nx ny n (Lay 6 0 false 0)) = Safe.
Proof. exact (case_grid_safe nx ny n (Lay 6 0 false 0)). Qed.

(* ---- sigma_point(): every layout (linear, circular, quaternion or not, noise), any component count *)
Theorem C14_sigma_point_safe l comps : run (case_sigma l comps) = Safe.
Proof. exact (case_sigma_safe l comps). Qed.

(* ---- augmentWithNoise on a particle set (once and twice, square or rejected non-square noise
        covariance), then the sigma points of the augmented set *)
Theorem C14_augmentWithNoise_safe l comps qr qc qr2 qc2 :
  run (case_psaug l comps qr qc qr2 qc2) = Safe.
Proof. exact (case_psaug_safe l comps qr qc qr2 qc2). Qed.

(* ---- UTWeight + unscented_transform: the five overloads, every input and output layout *)
Theorem C14_unscented_transform_safe variant li comps w valid pr pc lo qr qc :
  ut_valid variant li comps w valid pr pc lo qr qc ->
  run (case_ut variant li comps w valid pr pc lo qr qc) = Safe.
Proof. exact (case_ut_safe variant li comps w valid pr pc lo qr qc). Qed.

(* in particular the additive measurement overload after a FAILED evaluation, any component count and
   measurement size (repaired by 49d7ed0; the old transcription and its witness are in C14_Regress.v) *)
Theorem C14_unscented_transform_additive_measurement_failed_safe li comps pr pc lo :
  noise lo = 0 ->
  run (case_ut 4 li comps (lcov li) false pr pc lo (lcov lo) (lcov lo)) = Safe.
Proof.
  intro H. apply case_ut_safe. repeat split; try assumption; discriminate.
Qed.

(* ---- Kalman steps (beliefs without quaternions; output object of the input's shape) *)
Theorem C14_KFPrediction_safe l comps : quat l = false ->
  run (case_kfp (ldim l) l comps l comps) = Safe.
Proof. exact (case_kfp_safe l comps). Qed.

Theorem C14_KFCorrection_safe m l comps yc again : quat l = false -> 0 < yc ->
  run (case_kfc m (ldim l) l comps l comps m yc again) = Safe.
Proof. exact (case_kfc_safe m l comps yc again). Qed.

(* ---- UKF prediction: constructor (weights), additive and generic (noise-augmented) step, every layout
        including quaternions *)
Theorem C14_UKFPrediction_additive_safe l comps : noise l = 0 ->
  run (case_ukfp true l comps (lcov l) l) = Safe.
Proof. exact (case_ukfp_additive_safe l comps). Qed.

Theorem C14_UKFPrediction_generic_safe l comps q : noise l = 0 ->
  run (case_ukfp false l comps q l) = Safe.
Proof. exact (case_ukfp_generic_safe l comps q). Qed.

(* ---- UKF correction (generic — with the augmentation by the measurement noise and optionally weights
        recomputed online — and additive): linear / Euler states, EVERY measurement layout (quaternion
        measurements included since e82207d), the evaluation succeeding or failing, followed by
        getLikelihood(); [again]: then a second correction whose evaluation fails and getLikelihood() *)
Theorem C14_UKFCorrection_safe additive lp comps r valid lm again online :
  ukfc_valid additive lp r valid lm ->
  run (case_ukfc additive lp comps r valid lm (lcov lm) lp comps again online) = Safe.
Proof. exact (case_ukfc_safe additive lp comps r valid lm again online). Qed.

Theorem C14_UKFCorrection_quaternion_measurement_safe additive lp comps r valid mL mC again online :
  quat lp = false -> noise lp = 0 -> (additive = true -> r = lcov (Lay mL mC true 0)) ->
  run (case_ukfc additive lp comps r valid (Lay mL mC true 0) (lcov (Lay mL mC true 0)) lp comps again online) = Safe.
Proof.
  intros H H0 H1. apply case_ukfc_safe. repeat split; try assumption; reflexivity.
Qed.

Theorem C14_UKFCorrection_quaternion_state_refuted :
  run (case_ukfc true (Lay 2 1 true 0) 1 2 true (Lay 2 0 false 0) 2 (Lay 2 1 true 0) 1 false false)
  = Fails e_ukfc "pred.mean(i)+K*innovation".
Proof. exact ukfc_quaternion_state_refuted. Qed.

(* ---- serial UKF correction on linear / Euler states: constructor, any POSITIVE sub-measurement size,
        full or reduced noise covariance, and its likelihood *)
Theorem C14_SUKFCorrection_safe reduced lp comps msz sub again :
  quat lp = false -> noise lp = 0 -> 0 < sub ->
  run (case_sukf reduced lp comps msz sub (sukf_r reduced msz sub) msz lp comps again) = Safe.
Proof. exact (case_sukf_safe reduced lp comps msz sub again). Qed.

Theorem C14_SUKFCorrection_quaternion_state_refuted :
  run (case_sukf false (Lay 2 1 true 0) 1 2 1 2 2 (Lay 2 1 true 0) 1 false)
  = Fails e_sukf "propagated.middleCols(size_sigmas*i,size_sigmas)".
Proof. exact sukf_quaternion_state_refuted. Qed.

(* the noexcept constructor accepts a sub-measurement size of 0; the step then computes meas_size % 0 *)
Theorem C14_SUKFCorrection_zero_sub_size_refuted :
  run (case_sukf false (Lay 3 0 false 0) 1 2 0 2 2 (Lay 3 0 false 0) 1 false)
  = Fails e_sukf "meas_size % measurement_sub_size_".
Proof. exact sukf_zero_sub_size_refuted. Qed.

(* ---- Resampling (with neff) and ResamplingWithPrior (prior share < 1; including the weight copy,
        log_sum_exp, the parent mapping and the concatenation): every layout, quaternion sets included *)
Theorem C14_Resampling_safe l n : 0 < n -> run (case_resample l n l n n) = Safe.
Proof. exact (case_resample_safe l n). Qed.

Theorem C14_ResamplingWithPrior_safe l n k : noise l = 0 -> k < n ->
  run (case_resprior l n k n) = Safe.
Proof. exact (case_resprior_safe l n k). Qed.

Theorem C14_ResamplingWithPrior_quaternion_safe L C n k : k < n ->
  run (case_resprior (Lay L C true 0) n k n) = Safe.
Proof. exact (case_resprior_safe (Lay L C true 0) n k eq_refl). Qed.

(* ---- density utilities *)
Theorem C14_gaussian_density_safe r c : run (case_density r c r r r) = Safe.
Proof. exact (case_density_safe r c). Qed.

Theorem C14_gaussian_density_UVR_safe r c s bs rc : 0 < bs -> (rc = bs \/ rc = r) ->
  run (case_uvr r c r r s s r bs rc) = Safe.
Proof. exact (case_uvr_safe r c s bs rc). Qed.

Theorem C14_gaussian_density_UVR_zero_block_size_refuted :
  run (case_uvr 2 1 2 2 3 3 2 0 0) = Fails e_uvr "input_size / block_size".
Proof. exact uvr_zero_block_size_refuted. Qed.

(* ---- estimate extraction: every method, any window, any number of calls *)
Theorem C14_EstimatesExtraction_safe w calls stat avg el ec pr n wn pw ln tr tc :
  ext_valid stat el ec pr n wn pw ln tr tc ->
  run (case_extract w calls stat avg el ec pr n wn pw ln tr tc) = Safe.
Proof. exact (case_extract_safe w calls stat avg el ec pr n wn pw ln tr tc). Qed.

(* ---- estimate extraction as ONE object driven through ANY sequence of setMethod (all twelve methods) /
        setMobileAverageWindowSize (grow, shrink, clamped, refused) / clear / extract (both overloads, any particle
        count per call) operations.  The model carries the window, the stored estimates with their sizes and the
        lengths of the three cached weight vectors (sm_weights_, wm_weights_, em_weights_); nothing is assumed about
        the caches at any point of the sequence *)
Theorem C14_EstimatesExtraction_sequences_safe el ec ops :
  Forall (xop_valid el ec) ops -> run (case_extseq el ec ops) = Safe.
Proof. exact (case_extseq_safe el ec ops). Qed.

(* the weight vector a windowed call multiplies with has, after the call's own rebuild test, exactly one entry per
   stored estimate — whatever length [c] the cache had from earlier calls with other windows / methods *)
Theorem C14_EstimatesExtraction_weights_match_history avg el ec k c :
  snd (x_avg_tail avg el ec k c c) = k.
Proof. exact (x_avg_tail_len avg el ec k c). Qed.

(* ---- non-vacuity: the premises hold on concrete non-trivial configurations, the programs are
        not empty, [Safe] is not implied by "nothing fails" ([Threw] is a different verdict), and the
        calculus does reject inputs outside the declared shapes *)
Example C14_nonvacuous_programs :
  List.length (case_wna 3 5 6 4 6 4 6 4 6 4) = 35 /\
  List.length (case_ut 3 (Lay 2 1 true 2) 2 7 true 5 30 (Lay 1 1 true 0) 0 0) = 124 /\
  ut_valid 3 (Lay 2 1 true 2) 2 7 true 5 30 (Lay 1 1 true 0) 0 0 /\
  ukfc_valid true (Lay 2 2 false 0) 2 false (Lay 1 1 false 0) /\
  ext_valid 2 2 1 3 4 4 4 4 4 4 /\
  adds_sized 2 [HAdd 2; HAdd 2; HAdd 2; HSet 2; HGet; HDec; HGet].
Proof.
  repeat split; try reflexivity; try (vm_compute; reflexivity); try (intros; discriminate);
    try (apply Nat.lt_0_succ);
    try (intros e [H|[H|[H|[H|[H|[H|[H|[]]]]]]]]; inversion H; reflexivity).
Qed.

Example C14_calculus_rejects_mismatched_inputs :
  (* 4-row states into the 1-D motion model *)
  run (case_wna 1 2 4 2 4 2 2 2 2 2) = Fails e_wna_prop "F*cur_states" /\
  (* an element of another size stored in a 3-dimensional history *)
  run (case_history 3 [HAdd 3; HAdd 2; HGet]) = Fails e_h_get "col(i)=element" /\
  (* an empty simulated trajectory is rejected by the constructor: an exception, neither Safe nor a failure *)
  run (case_simstate 1 0 2 [SBuf]) = Threw e_sim_ctor "simulation_time >= 1" /\
  check_shapes (case_simstate 1 0 2 [SBuf]) = None /\
  (* after a reset the trajectory is served again *)
  sim_rets 2 0 [SBuf; SBuf; SBuf; SReset; SBuf] = [true; true; false; true] /\
  (* the library's own validation is a reported exception *)
  run (case_linsensor 2 2 4 4 [0; 4] 2 2 1 1 4 1) = Threw e_sls_ctor "component index < state size".
Proof. repeat split; vm_compute; reflexivity. Qed.

(* the operation sequence of the seeded change C14-r5 (emean x5, window 2, one wmean, emean again; 2 linear + 1 circular
   numbers, particle counts changing between calls, the five-argument overload with the map family in between): the
   premise holds, the program is not empty, the predicted return values / windows are the ones listed *)
Definition c14_ops_example : list xop :=
  [XMethod 0 3; XExtract false 3 2 2 0 0 0 0; XExtract false 3 2 2 0 0 0 0; XExtract false 3 5 5 0 0 0 0; XExtract false 3 2 2 0 0 0 0;
   XExtract false 3 2 2 0 0 0 0; XWindow 2; XMethod 0 2; XExtract false 3 4 4 0 0 0 0; XMethod 0 3; XExtract false 3 1 1 0 0 0 0;
   XMethod 2 1; XExtract false 3 2 2 0 0 0 0; XExtract true 3 2 2 5 2 2 5; XWindow 0; XClear; XMethod 1 3; XExtract true 3 6 6 4 6 6 4].
Example C14_extseq_nonvacuous :
  Forall (xop_valid 2 1) c14_ops_example /\
  List.length (case_extseq 2 1 c14_ops_example) = 198 /\
  obs_extseq 2 1 c14_ops_example = [1; 1;3; 1;3; 1;3; 1;3; 1;3; 1; 1; 1;3; 1; 1;3; 1; 0;3; 1;3; 0; 1; 1; 1;3] /\
  win_extseq 2 1 c14_ops_example = [5; 5;5;5;5;5; 2; 2; 2; 2; 2; 2; 2; 2; 2; 2; 2; 2].
Proof.
  split; [|split; [|split]]; try (vm_compute; reflexivity).
  unfold c14_ops_example. repeat constructor; discriminate.
Qed.

Print Assumptions C14_WhiteNoiseAcceleration_safe.
Print Assumptions C14_SimulatedStateModel_safe.
Print Assumptions C14_bufferData_exhaustion_reported.
Print Assumptions C14_SimulatedLinearSensor_safe.
Print Assumptions C14_HistoryBuffer_safe.
Print Assumptions C14_InitSurveillanceAreaGrid_safe.
Print Assumptions C14_InitSurveillanceAreaGrid_state_2d_safe.
Print Assumptions C14_InitSurveillanceAreaGrid_state_6d_safe.
Print Assumptions C14_sigma_point_safe.
Print Assumptions C14_augmentWithNoise_safe.
Print Assumptions C14_unscented_transform_safe.
Print Assumptions C14_unscented_transform_additive_measurement_failed_safe.
Print Assumptions C14_KFPrediction_safe.
Print Assumptions C14_KFCorrection_safe.
Print Assumptions C14_UKFPrediction_additive_safe.
Print Assumptions C14_UKFPrediction_generic_safe.
Print Assumptions C14_UKFCorrection_safe.
Print Assumptions C14_UKFCorrection_quaternion_measurement_safe.
Print Assumptions C14_UKFCorrection_quaternion_state_refuted.
Print Assumptions C14_SUKFCorrection_safe.
Print Assumptions C14_SUKFCorrection_quaternion_state_refuted.
Print Assumptions C14_SUKFCorrection_zero_sub_size_refuted.
Print Assumptions C14_Resampling_safe.
Print Assumptions C14_ResamplingWithPrior_safe.
Print Assumptions C14_ResamplingWithPrior_quaternion_safe.
Print Assumptions C14_gaussian_density_safe.
Print Assumptions C14_gaussian_density_UVR_safe.
Print Assumptions C14_gaussian_density_UVR_zero_block_size_refuted.
Print Assumptions C14_EstimatesExtraction_safe.
Print Assumptions C14_EstimatesExtraction_sequences_safe.
Print Assumptions C14_EstimatesExtraction_weights_match_history.
