(* C18_Proofs.v — lemmas about the C18 model (quaternion utilities) at the
   Coq-reals instance ROps of C19_ROps. *)
Require Import ZArith Reals Lra Lia List Permutation.
Require Import BFL.Ops BFL.C19_ROps BFL.C18_Model.
Import ListNotations.
Local Open Scope R_scope.

Notation Q := (quat ROps).
Notation V := (vec3 ROps).
Notation mkQR := (@mkQ ROps).
Notation mkVR := (@mkV ROps).

(* the code's 1e-4 *)
Definition cut : R := 1 / 10000.
Lemma cut_pos : 0 < cut. Proof. unfold cut. lra. Qed.

Lemma cutoff_R : cutoff ROps = cut.
Proof. reflexivity. Qed.
Lemma two_R : two ROps = 2.
Proof. unfold two, s2. simpl. lra. Qed.

Definition ss (v : V) : R := vx v * vx v + vy v * vy v + vz v * vz v.
Definition n3 (v : V) : R := sqrt (ss v).
Definition qnorm2 (q : Q) : R := qw q * qw q + qx q * qx q + qy q * qy q + qz q * qz q.
Definition qneg (q : Q) : Q := mkQR (- qw q) (- qx q) (- qy q) (- qz q).
Definition vneg (v : V) : V := mkVR (- vx v) (- vy v) (- vz v).
Definition vsub (a b : V) : V := mkVR (vx a - vx b) (vy a - vy b) (vz a - vz b).
Definition vdist (a b : V) : R := n3 (vsub a b).
Definition V0 : V := mkVR 0 0 0.
Definition Q1 : Q := mkQR 1 0 0 0.
(* (c * v) / n *)
Definition vsd (c : R) (v : V) (n : R) : V := mkVR (c * vx v / n) (c * vy v / n) (c * vz v / n).

Lemma norm3_R v : norm3 ROps v = n3 v.
Proof. reflexivity. Qed.

Lemma ss_nonneg v : 0 <= ss v.
Proof. unfold ss. nra. Qed.
Lemma n3_nonneg v : 0 <= n3 v.
Proof. apply sqrt_pos. Qed.
Lemma n3_sq v : n3 v * n3 v = ss v.
Proof. apply sqrt_sqrt, ss_nonneg. Qed.
Lemma n3_V0 : n3 V0 = 0.
Proof. unfold n3, ss. simpl. replace (0 * 0 + 0 * 0 + 0 * 0) with 0 by ring. apply sqrt_0. Qed.

(* norm of (c v) / |v| is |c| *)
Lemma n3_vsd c v : 0 < n3 v -> n3 (vsd c v (n3 v)) = Rabs c.
Proof.
  intros Hn. pose proof (n3_sq v) as Hs. unfold n3 at 1. unfold ss, vsd. simpl.
  replace (c * vx v / n3 v * (c * vx v / n3 v) + c * vy v / n3 v * (c * vy v / n3 v) + c * vz v / n3 v * (c * vz v / n3 v))
    with (c² * (ss v / (n3 v * n3 v))) by (unfold ss, Rsqr; field; lra).
  rewrite Hs. replace (ss v / ss v) with 1 by (field; rewrite <- Hs; nra).
  rewrite Rmult_1_r. apply sqrt_Rsqr_abs.
Qed.

(* ---------------------------------------------------------------- the two conversions, by branch *)

Lemma q_to_rv_zone (q : Q) : n3 (qvec ROps q) <= cut -> q_to_rv ROps q = V0.
Proof.
  intros H. unfold q_to_rv. rewrite norm3_R, cutoff_R.
  change (sltb ROps) with Rltb. destruct (Rltb cut (n3 (qvec ROps q))) eqn:E; [|reflexivity].
  apply Rltb_true in E. lra.
Qed.

Lemma q_to_rv_pos (q : Q) : cut < n3 (qvec ROps q) -> 0 <= qw q ->
  q_to_rv ROps q = vsd (2 * acos (qw q)) (qvec ROps q) (n3 (qvec ROps q)).
Proof.
  intros H Hw. unfold q_to_rv. rewrite norm3_R, cutoff_R, two_R.
  change (sltb ROps) with Rltb. change (s0 ROps) with 0.
  destruct (Rltb cut (n3 (qvec ROps q))) eqn:E; [|apply Rltb_false in E; lra].
  destruct (Rltb (qw q) 0) eqn:E2; [apply Rltb_true in E2; lra|]. reflexivity.
Qed.

Lemma q_to_rv_neg (q : Q) : cut < n3 (qvec ROps q) -> qw q < 0 ->
  q_to_rv ROps q = vsd (- 2 * acos (- qw q)) (qvec ROps q) (n3 (qvec ROps q)).
Proof.
  intros H Hw. unfold q_to_rv. rewrite norm3_R, cutoff_R, two_R.
  change (sltb ROps) with Rltb. change (s0 ROps) with 0.
  destruct (Rltb cut (n3 (qvec ROps q))) eqn:E; [|apply Rltb_false in E; lra].
  destruct (Rltb (qw q) 0) eqn:E2; [|apply Rltb_false in E2; lra]. reflexivity.
Qed.

Lemma rv_to_q_zone (r : V) : n3 r <= cut -> rv_to_q ROps r = Q1.
Proof.
  intros H. unfold rv_to_q. rewrite norm3_R, cutoff_R. change (sltb ROps) with Rltb.
  destruct (Rltb cut (n3 r)) eqn:E; [|reflexivity]. apply Rltb_true in E. lra.
Qed.

Lemma rv_to_q_big (r : V) : cut < n3 r ->
  rv_to_q ROps r = mkQR (cos (n3 r / 2)) (sin (n3 r / 2) * vx r / n3 r) (sin (n3 r / 2) * vy r / n3 r) (sin (n3 r / 2) * vz r / n3 r).
Proof.
  intros H. unfold rv_to_q. rewrite norm3_R, cutoff_R, two_R. change (sltb ROps) with Rltb.
  destruct (Rltb cut (n3 r)) eqn:E; [|apply Rltb_false in E; lra]. reflexivity.
Qed.

(* ---------------------------------------------------------------- exp is unit *)

Lemma exp_unit r : qnorm2 (rv_to_q ROps r) = 1.
Proof.
  destruct (Rlt_dec cut (n3 r)) as [H|H].
  - rewrite rv_to_q_big by assumption. unfold qnorm2. simpl.
    pose proof (n3_sq r) as Hs. pose proof cut_pos.
    set (n := n3 r) in *. set (s := sin (n / 2)). set (c := cos (n / 2)).
    replace (c * c + s * vx r / n * (s * vx r / n) + s * vy r / n * (s * vy r / n) + s * vz r / n * (s * vz r / n))
      with (c * c + s * s * (ss r / (n * n))) by (unfold ss; field; lra).
    rewrite Hs. replace (ss r / ss r) with 1 by (field; rewrite <- Hs; nra).
    pose proof (sin2_cos2 (n / 2)) as E. unfold Rsqr in E. fold s c in E. lra.
  - rewrite rv_to_q_zone by lra. unfold qnorm2. simpl. ring.
Qed.

(* ---------------------------------------------------------------- log (exp r) *)

Lemma half_gt_cut x : 0 <= x -> cut < sin x -> cut < x.
Proof.
  intros Hx Hs. destruct (Req_dec x 0) as [->|Hne]; [rewrite sin_0 in Hs; pose proof cut_pos; lra|].
  pose proof (sin_lt_x x). lra.
Qed.

(* vector norm of exp r is sin(|r|/2) *)
Lemma n3_exp_vec r : cut < n3 r -> n3 r <= 2 * PI ->
  n3 (qvec ROps (rv_to_q ROps r)) = sin (n3 r / 2).
Proof.
  intros H Hpi. rewrite rv_to_q_big by assumption. pose proof cut_pos.
  change (qvec ROps _) with (vsd (sin (n3 r / 2)) r (n3 r)).
  rewrite n3_vsd by lra. apply Rabs_pos_eq. apply sin_ge_0; lra.
Qed.

Lemma log_exp r : cut < sin (n3 r / 2) -> n3 r <= PI -> q_to_rv ROps (rv_to_q ROps r) = r.
Proof.
  intros Hs Hpi. pose proof cut_pos as Hc. pose proof (n3_nonneg r) as Hn0. pose proof PI_RGT_0 as Hp.
  assert (Hn : cut < n3 r) by (assert (cut < n3 r / 2) by (apply half_gt_cut; lra); lra).
  assert (Hv : n3 (qvec ROps (rv_to_q ROps r)) = sin (n3 r / 2)) by (apply n3_exp_vec; lra).
  assert (Hw : qw (rv_to_q ROps r) = cos (n3 r / 2)) by (rewrite rv_to_q_big by assumption; reflexivity).
  rewrite q_to_rv_pos; [|lra|rewrite Hw; apply cos_ge_0; lra].
  rewrite Hv, Hw, acos_cos by lra.
  rewrite rv_to_q_big by assumption. unfold vsd. simpl.
  destruct r as [x y z]. simpl. set (n := n3 _) in *. f_equal; field; lra.
Qed.

Lemma log_exp_zone r : sin (n3 r / 2) <= cut -> n3 r <= 2 * PI -> q_to_rv ROps (rv_to_q ROps r) = V0.
Proof.
  intros Hs Hpi. pose proof cut_pos. destruct (Rlt_dec cut (n3 r)) as [H1|H1].
  - apply q_to_rv_zone. rewrite n3_exp_vec by lra. exact Hs.
  - rewrite rv_to_q_zone by lra. apply q_to_rv_zone. change (qvec ROps Q1) with V0. rewrite n3_V0. lra.
Qed.

Lemma vdist_V0 r : vdist V0 r = n3 r.
Proof. unfold vdist, n3, ss, vsub. simpl. f_equal. ring. Qed.
Lemma vdist_refl r : vdist r r = 0.
Proof.
  unfold vdist, n3, ss, vsub. simpl.
  replace ((vx r - vx r) * (vx r - vx r) + (vy r - vy r) * (vy r - vy r) + (vz r - vz r) * (vz r - vz r)) with 0 by ring.
  apply sqrt_0.
Qed.

Lemma cut_range : -1 <= cut <= 1. Proof. unfold cut. lra. Qed.
Lemma asin_cut_pos : 0 < asin cut.
Proof.
  pose proof (asin_bound cut) as [H1 H2]. pose proof (sin_asin cut cut_range) as Hs. pose proof cut_pos.
  pose proof PI_RGT_0.
  destruct (Rle_dec (asin cut) 0) as [Hle|]; [|lra]. exfalso.
  destruct (Req_dec (asin cut) 0) as [E|E]; [rewrite E, sin_0 in Hs; lra|].
  assert (sin (asin cut) < 0) by (apply sin_lt_0_var; lra). lra.
Qed.

(* inside the cut-off zone |r| <= 2 asin(1e-4) *)
Lemma zone_norm_bound r : n3 r <= PI -> sin (n3 r / 2) <= cut -> n3 r <= 2 * asin cut.
Proof.
  intros Hpi Hs. pose proof (n3_nonneg r). pose proof PI_RGT_0. pose proof (asin_bound cut) as [A1 A2].
  destruct (Rle_dec (n3 r / 2) (asin cut)) as [|Hgt]; [lra|]. exfalso.
  assert (sin (asin cut) < sin (n3 r / 2)) by (apply sin_increasing_1; lra).
  rewrite sin_asin in H1 by apply cut_range. lra.
Qed.

(* the exact dichotomy, and the error bound for every |r| <= PI *)
Lemma log_exp_cases r : n3 r <= PI ->
  (cut < sin (n3 r / 2) /\ q_to_rv ROps (rv_to_q ROps r) = r) \/
  (sin (n3 r / 2) <= cut /\ n3 r <= 2 * asin cut /\ q_to_rv ROps (rv_to_q ROps r) = V0).
Proof.
  intros Hpi. pose proof PI_RGT_0. destruct (Rlt_dec cut (sin (n3 r / 2))) as [H1|H1].
  - left. split; [assumption | now apply log_exp].
  - right. split; [lra|]. split; [apply zone_norm_bound; lra | apply log_exp_zone; lra].
Qed.

Lemma log_exp_error_bound r : n3 r <= PI -> vdist (q_to_rv ROps (rv_to_q ROps r)) r <= 2 * asin cut.
Proof.
  intros Hpi. destruct (log_exp_cases r Hpi) as [[_ E]|[_ [Hb E]]]; rewrite E.
  - rewrite vdist_refl. pose proof asin_cut_pos. lra.
  - now rewrite vdist_V0.
Qed.

(* the true bound 2 asin(1e-4) is strictly above the property's 2e-4, by less than 1e-12 *)
Lemma x_lt_asin x : 0 < x <= 1 -> x < asin x.
Proof.
  intros Hx. pose proof (asin_bound x) as [A1 A2]. pose proof PI_RGT_0.
  assert (Hs : sin (asin x) = x) by (apply sin_asin; lra).
  destruct (Rle_dec (asin x) 0) as [Hle|Hgt].
  - exfalso. destruct (Req_dec (asin x) 0) as [E|E]; [rewrite E, sin_0 in Hs; lra|].
    assert (sin (asin x) < 0) by (apply sin_lt_0_var; lra). lra.
  - pose proof (sin_lt_x (asin x)). lra.
Qed.

Lemma true_bound_exceeds : 2 / 10000 < 2 * asin cut.
Proof. pose proof (x_lt_asin cut). unfold cut in *. lra. Qed.

(* numeric upper bound, from the alternating series bound sin_lb of the standard library *)
Lemma INR_fact_357 : INR (fact 1) = 1 /\ INR (fact 3) = 6 /\ INR (fact 5) = 120 /\ INR (fact 7) = 5040.
Proof.
  repeat split; try (rewrite INR_IZR_INZ).
  all: try reflexivity.
  all: try (replace (Z.of_nat (fact 5)) with 120%Z by (vm_compute; reflexivity); reflexivity).
  all: try (replace (Z.of_nat (fact 7)) with 5040%Z by (vm_compute; reflexivity); reflexivity).
Qed.

Lemma sin_lb_poly a : sin_lb a = a - a ^ 3 / 6 + a ^ 5 / 120 - a ^ 7 / 5040.
Proof.
  destruct INR_fact_357 as [F1 [F3 [F5 F7]]].
  unfold sin_lb, sin_approx, sin_term. cbn [sum_f_R0].
  change (2 * 0 + 1)%nat with 1%nat. change (2 * 1 + 1)%nat with 3%nat.
  change (2 * 2 + 1)%nat with 5%nat. change (2 * 3 + 1)%nat with 7%nat.
  rewrite F1, F3, F5, F7. simpl pow. field.
Qed.

Lemma true_bound_numeric : 2 * asin cut <= 2 / 10000 + 4 / 10 ^ 13.
Proof.
  set (y := 1 / 10000 + 2 / 10 ^ 13).
  assert (Hy : 0 < y < 1) by (unfold y; lra).
  pose proof PI2_1 as Hp. unfold PI2 in Hp. pose proof PI_RGT_0.
  assert (Hlb : cut <= sin y).
  { destruct (SIN y) as [L _]; [lra | lra |]. rewrite sin_lb_poly in L. unfold cut, y in *. lra. }
  pose proof (asin_bound cut) as [A1 A2].
  assert (asin cut <= y); [|unfold y in *; lra].
  destruct (Rle_dec (asin cut) y) as [|Hgt]; [assumption|]. exfalso.
  assert (sin y < sin (asin cut)) by (apply sin_increasing_1; lra).
  rewrite sin_asin in H0 by apply cut_range. lra.
Qed.

(* ---------------------------------------------------------------- exp (log q) *)

Lemma unit_w_range (q : Q) : qnorm2 q = 1 -> -1 <= qw q <= 1.
Proof. unfold qnorm2. intros H. split; nra. Qed.

Lemma unit_vec_norm (q : Q) : qnorm2 q = 1 -> n3 (qvec ROps q) = sqrt (1 - (qw q)²).
Proof. intros H. unfold n3. f_equal. unfold ss, qnorm2, Rsqr in *. simpl. lra. Qed.

Lemma acos_le_PI2 w : 0 <= w <= 1 -> acos w <= PI / 2.
Proof.
  intros Hw. pose proof (acos_bound w) as [A1 A2]. pose proof PI_RGT_0.
  destruct (Rle_dec (acos w) (PI / 2)) as [|Hgt]; [assumption|]. exfalso.
  assert (cos (acos w) < 0) by (apply cos_lt_0; lra). rewrite cos_acos in H0 by lra. lra.
Qed.

Lemma exp_log (q : Q) : qnorm2 q = 1 -> 0 <= qw q -> cut < n3 (qvec ROps q) ->
  rv_to_q ROps (q_to_rv ROps q) = q.
Proof.
  intros Hu Hw Hv. pose proof cut_pos as Hc. pose proof (unit_w_range q Hu) as Hr.
  set (th := acos (qw q)). set (vn := n3 (qvec ROps q)) in *.
  pose proof (acos_bound (qw q)) as [T1 T2]. fold th in T1, T2.
  assert (Hcos : cos th = qw q) by (apply cos_acos; lra).
  assert (Hsin : sin th = vn) by (unfold th, vn; rewrite sin_acos by lra; symmetry; now apply unit_vec_norm).
  assert (Hth : cut < th) by (apply half_gt_cut; lra).
  rewrite q_to_rv_pos by assumption. fold th vn.
  assert (Hn : n3 (vsd (2 * th) (qvec ROps q) vn) = 2 * th).
  { unfold vn. rewrite n3_vsd by (fold vn; lra). apply Rabs_pos_eq. lra. }
  rewrite rv_to_q_big by (rewrite Hn; lra). rewrite Hn.
  replace (2 * th / 2) with th by lra. rewrite Hcos, Hsin.
  destruct q as [w x y z]. unfold vsd. simpl in *. f_equal; field; lra.
Qed.

(* inside the cut-off the round trip returns the identity, at distance <= sqrt 2 * 1e-4 from q *)
Lemma exp_log_zone (q : Q) : n3 (qvec ROps q) <= cut -> rv_to_q ROps (q_to_rv ROps q) = Q1.
Proof. intros H. rewrite q_to_rv_zone by assumption. apply rv_to_q_zone. rewrite n3_V0. pose proof cut_pos. lra. Qed.

Lemma zone_distance (q : Q) : qnorm2 q = 1 -> 0 <= qw q -> n3 (qvec ROps q) <= cut ->
  (qw q - 1)² + (qx q)² + (qy q)² + (qz q)² <= 2 * cut².
Proof.
  intros Hu Hw Hv. pose proof (n3_sq (qvec ROps q)) as Hs. pose proof (n3_nonneg (qvec ROps q)) as Hn.
  unfold ss, qnorm2, Rsqr in *. simpl in *.
  assert (Hvv : qx q * qx q + qy q * qy q + qz q * qz q <= cut * cut) by nra.
  assert (Hw1 : qw q <= 1) by nra.
  (* 1 - w = (1 - w^2) / (1 + w) <= 1 - w^2 *)
  assert (1 - qw q <= 1 - qw q * qw q) by nra. nra.
Qed.

(* ---------------------------------------------------------------- q and -q *)

Lemma n3_qvec_neg (q : Q) : n3 (qvec ROps (qneg q)) = n3 (qvec ROps q).
Proof. unfold n3, ss. simpl. f_equal. ring. Qed.

Lemma double_cover (q : Q) : qw q <> 0 -> q_to_rv ROps (qneg q) = q_to_rv ROps q.
Proof.
  intros Hw. pose proof cut_pos as Hc. destruct (Rlt_dec cut (n3 (qvec ROps q))) as [Hv|Hv].
  - destruct (Rlt_dec (qw q) 0) as [Hn|Hp].
    + rewrite (q_to_rv_neg q) by assumption.
      rewrite (q_to_rv_pos (qneg q)) by (rewrite ?n3_qvec_neg; simpl; lra).
      rewrite n3_qvec_neg. unfold vsd. simpl. f_equal; field; lra.
    + rewrite (q_to_rv_pos q) by lra.
      rewrite (q_to_rv_neg (qneg q)) by (rewrite ?n3_qvec_neg; simpl; lra).
      rewrite n3_qvec_neg. unfold vsd. simpl. rewrite Ropp_involutive. f_equal; field; lra.
  - rewrite !q_to_rv_zone by (rewrite ?n3_qvec_neg; lra). reflexivity.
Qed.

(* real part exactly 0 (a half turn): -q gives the opposite rotation vector, the same half turn *)
Lemma double_cover_half_turn (q : Q) : qw q = 0 -> q_to_rv ROps (qneg q) = vneg (q_to_rv ROps q).
Proof.
  intros Hw. pose proof cut_pos as Hc. destruct (Rlt_dec cut (n3 (qvec ROps q))) as [Hv|Hv].
  - rewrite (q_to_rv_pos q) by lra.
    rewrite (q_to_rv_pos (qneg q)) by (rewrite ?n3_qvec_neg; simpl; lra).
    rewrite n3_qvec_neg. unfold vsd, vneg. simpl. rewrite Hw, Ropp_0. f_equal; field; lra.
  - rewrite !q_to_rv_zone by (rewrite ?n3_qvec_neg; lra). unfold vneg, V0. simpl. f_equal; ring.
Qed.

Lemma n3_vneg v : n3 (vneg v) = n3 v.
Proof. unfold n3, ss. simpl. f_equal. ring. Qed.

Lemma log_norm_le_pi (q : Q) : qnorm2 q = 1 -> n3 (q_to_rv ROps q) <= PI.
Proof.
  intros Hu. pose proof PI_RGT_0 as Hp. pose proof cut_pos. pose proof (unit_w_range q Hu) as Hr.
  destruct (Rlt_dec cut (n3 (qvec ROps q))) as [Hv|Hv].
  - destruct (Rlt_dec (qw q) 0) as [Hn|Hn].
    + rewrite q_to_rv_neg by assumption. rewrite n3_vsd by lra.
      pose proof (acos_bound (- qw q)) as [A1 _]. pose proof (acos_le_PI2 (- qw q)).
      rewrite Rabs_left1 by lra. lra.
    + rewrite q_to_rv_pos by lra. rewrite n3_vsd by lra.
      pose proof (acos_bound (qw q)) as [A1 _]. pose proof (acos_le_PI2 (qw q)).
      rewrite Rabs_pos_eq by lra. lra.
  - rewrite q_to_rv_zone by lra. rewrite n3_V0. lra.
Qed.

(* ---------------------------------------------------------------- Hamilton product, sum, difference *)

Definition qscale (k : R) (q : Q) : Q := mkQR (k * qw q) (k * qx q) (k * qy q) (k * qz q).

Lemma qmul_R (a b : Q) : qmul ROps a b =
  mkQR (qw a * qw b - qx a * qx b - qy a * qy b - qz a * qz b)
       (qw a * qx b + qx a * qw b + qy a * qz b - qz a * qy b)
       (qw a * qy b + qy a * qw b + qz a * qx b - qx a * qz b)
       (qw a * qz b + qz a * qw b + qx a * qy b - qy a * qx b).
Proof. reflexivity. Qed.

Lemma qconj_R (q : Q) : qconj ROps q = mkQR (qw q) (- qx q) (- qy q) (- qz q).
Proof. reflexivity. Qed.

Lemma qnorm2_mul a b : qnorm2 (qmul ROps a b) = qnorm2 a * qnorm2 b.
Proof. rewrite qmul_R. unfold qnorm2. simpl. ring. Qed.

Lemma qmul_assoc a b c : qmul ROps (qmul ROps a b) c = qmul ROps a (qmul ROps b c).
Proof. rewrite !qmul_R. simpl. f_equal; ring. Qed.

Lemma qmul_conj_r q : qmul ROps q (qconj ROps q) = mkQR (qnorm2 q) 0 0 0.
Proof. rewrite qmul_R, qconj_R. unfold qnorm2. simpl. f_equal; ring. Qed.

Lemma qmul_cancel_r e q : qnorm2 q = 1 -> qmul ROps (qmul ROps e q) (qconj ROps q) = e.
Proof.
  intros H. rewrite qmul_assoc, qmul_conj_r, H, qmul_R. destruct e as [w x y z]. simpl. f_equal; ring.
Qed.

Lemma sum_unit q r : qnorm2 q = 1 -> qnorm2 (qsum_one ROps q r) = 1.
Proof. intros H. unfold qsum_one. rewrite qnorm2_mul, exp_unit, H. ring. Qed.

Lemma diff_sum_one q r : qnorm2 q = 1 ->
  qdiff_one ROps (qsum_one ROps q r) q = q_to_rv ROps (rv_to_q ROps r).
Proof. intros H. unfold qdiff_one, qsum_one. now rewrite qmul_cancel_r. Qed.

Lemma diff_sum q rs : qnorm2 q = 1 ->
  qdiff ROps (qsum ROps q rs) q = map (fun r => q_to_rv ROps (rv_to_q ROps r)) rs.
Proof.
  intros H. unfold qdiff, qsum. rewrite map_map. apply map_ext. intros r. now apply diff_sum_one.
Qed.

(* adding r to q and subtracting q gives back r *)
Lemma diff_sum_round_trip q r : qnorm2 q = 1 -> cut < sin (n3 r / 2) -> n3 r <= PI ->
  qdiff_one ROps (qsum_one ROps q r) q = r.
Proof. intros H H1 H2. rewrite diff_sum_one by assumption. now apply log_exp. Qed.

Lemma diff_sum_error_bound q r : qnorm2 q = 1 -> n3 r <= PI ->
  vdist (qdiff_one ROps (qsum_one ROps q r) q) r <= 2 * asin cut.
Proof. intros H H1. rewrite diff_sum_one by assumption. now apply log_exp_error_bound. Qed.

(* a difference never exceeds PI in norm *)
Lemma diff_norm_le_pi a b : qnorm2 a = 1 -> qnorm2 b = 1 -> n3 (qdiff_one ROps a b) <= PI.
Proof.
  intros Ha Hb. unfold qdiff_one. apply log_norm_le_pi. rewrite qnorm2_mul, Ha.
  rewrite qconj_R. unfold qnorm2 in *. simpl. lra.
Qed.

(* q_left and -q_left give the same difference (as rotations) *)
Lemma qmul_neg_l a b : qmul ROps (qneg a) b = qneg (qmul ROps a b).
Proof. rewrite !qmul_R. unfold qneg. simpl. f_equal; ring. Qed.

Lemma diff_double_cover a b : qw (qmul ROps a (qconj ROps b)) <> 0 ->
  qdiff_one ROps (qneg a) b = qdiff_one ROps a b.
Proof. intros H. unfold qdiff_one. rewrite qmul_neg_l. now apply double_cover. Qed.

(* the convention: the Hamilton product is not commutative, so the order is observable *)
Lemma qmul_not_commutative :
  qmul ROps (mkQR 0 1 0 0) (mkQR 0 0 1 0) = mkQR 0 0 0 1 /\
  qmul ROps (mkQR 0 0 1 0) (mkQR 0 1 0 0) = mkQR 0 0 0 (-1).
Proof. rewrite !qmul_R. simpl. split; f_equal; ring. Qed.

(* ---------------------------------------------------------------- weighted mean *)

Notation M4 := (mat4 ROps).

(* sum_k w_k q_k[i] q_k[j] *)
Fixpoint osum (l : list (R * Q)) (i j : nat) : R :=
  match l with
  | [] => 0
  | wq :: l' => fst wq * qcomp ROps (snd wq) i * qcomp ROps (snd wq) j + osum l' i j
  end.

Lemma outer_fold l (M0 : M4) i j : fold_left (outer_acc ROps) l M0 i j = M0 i j + osum l i j.
Proof.
  revert M0. induction l as [|wq l IH]; intros M0; simpl; [lra|].
  rewrite IH. unfold outer_acc, add, mul. simpl. lra.
Qed.

Lemma outer_sum_R w qs i j : outer_sum ROps w qs i j = osum (combine w qs) i j.
Proof. unfold outer_sum. rewrite outer_fold. simpl. lra. Qed.

Lemma mat4_rows_ext (A B : M4) : (forall i j, A i j = B i j) -> mat4_rows ROps A = mat4_rows ROps B.
Proof. intros H. unfold mat4_rows. simpl. now rewrite !H. Qed.

Lemma qmean_ext eig w qs w' qs' :
  (forall i j, osum (combine w' qs') i j = osum (combine w qs) i j) ->
  qmean ROps eig w' qs' = qmean ROps eig w qs.
Proof.
  intros H. unfold qmean. f_equal. apply mat4_rows_ext. intros i j. now rewrite !outer_sum_R.
Qed.

(* sign flips of any subset of the inputs *)
Fixpoint flip (bs : list bool) (qs : list Q) : list Q :=
  match bs, qs with
  | b :: bs', q :: qs' => (if b then qneg q else q) :: flip bs' qs'
  | _, _ => qs
  end.

Lemma qcomp_neg q i : qcomp ROps (qneg q) i = - qcomp ROps q i.
Proof. destruct i as [|[|[|i]]]; reflexivity. Qed.

Lemma osum_flip bs w qs i j : osum (combine w (flip bs qs)) i j = osum (combine w qs) i j.
Proof.
  revert w qs. induction bs as [|b bs IH]; intros w qs; [destruct qs; reflexivity|].
  destruct qs as [|q qs]; [reflexivity|]. destruct w as [|x w]; [reflexivity|].
  simpl. rewrite IH. destruct b; [rewrite !qcomp_neg|]; ring.
Qed.

Lemma mean_negation_invariant eig bs w qs : qmean ROps eig w (flip bs qs) = qmean ROps eig w qs.
Proof. apply qmean_ext. intros i j. apply osum_flip. Qed.

Lemma osum_perm l l' i j : Permutation l l' -> osum l' i j = osum l i j.
Proof. induction 1; simpl; try lra. Qed.

Lemma mean_permutation_invariant eig w qs w' qs' :
  Permutation (combine w qs) (combine w' qs') -> qmean ROps eig w' qs' = qmean ROps eig w qs.
Proof. intros H. apply qmean_ext. intros i j. now apply osum_perm. Qed.

(* the eigen-solver contract *)
Definition mv (A : M4) (v : Q) (i : nat) : R := A i 0%nat * qw v + A i 1%nat * qx v + A i 2%nat * qy v + A i 3%nat * qz v.
Definition is_eigvec (A : M4) (v : Q) (lam : R) : Prop :=
  mv A v 0 = lam * qw v /\ mv A v 1 = lam * qx v /\ mv A v 2 = lam * qy v /\ mv A v 3 = lam * qz v.
(* v is a unit eigenvector for the largest eigenvalue of A *)
Definition max_eig_contract (A : M4) (v : Q) : Prop :=
  qnorm2 v = 1 /\ exists lam, is_eigvec A v lam /\
    forall u mu, qnorm2 u <> 0 -> is_eigvec A u mu -> mu <= lam.

Definition qdot (a b : Q) : R := qw a * qw b + qx a * qx b + qy a * qy b + qz a * qz b.

Lemma osum_sym l i j : osum l i j = osum l j i.
Proof. induction l; simpl; [reflexivity|]. rewrite IHl. ring. Qed.

(* M v = sum_k w_k (q_k . v) q_k *)
Fixpoint osum_v (l : list (R * Q)) (v : Q) (i : nat) : R :=
  match l with
  | [] => 0
  | wq :: l' => fst wq * qdot (snd wq) v * qcomp ROps (snd wq) i + osum_v l' v i
  end.
Lemma mv_osum l v i : mv (osum l) v i = osum_v l v i.
Proof.
  unfold mv. induction l as [|[x q] l IH]; simpl; [ring|]. rewrite <- IH. unfold qdot. simpl. ring.
Qed.

Lemma mv_ext (A B : M4) v i : (forall i j, A i j = B i j) -> mv A v i = mv B v i.
Proof. intros H. unfold mv. now rewrite !H. Qed.

(* all inputs are +-q *)
Definition all_pm (q : Q) (qs : list Q) : Prop := Forall (fun p => p = q \/ p = qneg q) qs.

Fixpoint wtot (w : list R) (qs : list Q) : R :=
  match w, qs with
  | x :: w', _ :: qs' => x + wtot w' qs'
  | _, _ => 0
  end.

Lemma osum_v_all_pm q w qs v i : all_pm q qs ->
  osum_v (combine w qs) v i = wtot w qs * qdot q v * qcomp ROps q i.
Proof.
  intros H. revert w. induction H as [|p qs Hp Hq IH]; intros [|x w]; simpl; try ring.
  rewrite IH. destruct Hp as [->| ->]; [ring|]. rewrite qcomp_neg. unfold qdot, qneg. simpl. ring.
Qed.

Lemma mean_all_equal eig w qs q :
  qnorm2 q = 1 -> all_pm q qs -> 0 < wtot w qs ->
  max_eig_contract (outer_sum ROps w qs) (qmean ROps eig w qs) ->
  qmean ROps eig w qs = q \/ qmean ROps eig w qs = qneg q.
Proof.
  intros Hq Hall HW [Hv [lam [Hev Hmax]]]. set (v := qmean ROps eig w qs) in *. set (W := wtot w qs) in *.
  assert (E : forall u i, mv (outer_sum ROps w qs) u i = W * qdot q u * qcomp ROps q i).
  { intros u i. rewrite (mv_ext _ (osum (combine w qs))) by (intros; apply outer_sum_R).
    rewrite mv_osum. now apply osum_v_all_pm. }
  (* q itself is an eigenvector with eigenvalue W, so lam >= W > 0 *)
  assert (Hlam : W <= lam).
  { apply (Hmax q); [rewrite Hq; lra|]. unfold is_eigvec. rewrite !E.
    replace (qdot q q) with 1 by (unfold qdot; unfold qnorm2 in Hq; lra). simpl. repeat split; ring. }
  destruct Hev as [E0 [E1 [E2 E3]]]. rewrite E in E0, E1, E2, E3.
  assert (HW' : 0 < lam) by lra.
  clear E Hmax Hall. clearbody v W.
  destruct v as [vw vx' vy' vz']. destruct q as [w0 x0 y0 z0].
  unfold qneg, qdot, qnorm2 in *. simpl in *.
  set (d := w0 * vw + x0 * vx' + y0 * vy' + z0 * vz') in *.
  set (c := W * d / lam).
  assert (C0 : vw = c * w0) by (unfold c; apply (Rmult_eq_reg_l lam); [|lra]; rewrite <- E0; field; lra).
  assert (C1 : vx' = c * x0) by (unfold c; apply (Rmult_eq_reg_l lam); [|lra]; rewrite <- E1; field; lra).
  assert (C2 : vy' = c * y0) by (unfold c; apply (Rmult_eq_reg_l lam); [|lra]; rewrite <- E2; field; lra).
  assert (C3 : vz' = c * z0) by (unfold c; apply (Rmult_eq_reg_l lam); [|lra]; rewrite <- E3; field; lra).
  assert (Hc2 : c * c = 1).
  { rewrite C0, C1, C2, C3 in Hv.
    replace (c * w0 * (c * w0) + c * x0 * (c * x0) + c * y0 * (c * y0) + c * z0 * (c * z0))
      with (c * c * (w0 * w0 + x0 * x0 + y0 * y0 + z0 * z0)) in Hv by ring.
    rewrite Hq in Hv. lra. }
  assert (Hc : c = 1 \/ c = -1).
  { assert (H0 : (c - 1) * (c + 1) = 0) by lra. apply Rmult_integral in H0. destruct H0; [left|right]; lra. }
  clearbody c. destruct Hc as [-> | ->]; [left|right]; f_equal; lra.
Qed.

Lemma mean_unit eig w qs :
  max_eig_contract (outer_sum ROps w qs) (qmean ROps eig w qs) -> qnorm2 (qmean ROps eig w qs) = 1.
Proof. intros [H _]. exact H. Qed.

(* ---- inputs placed symmetrically around a centre: qc, a_j * qc, conj(a_j) * qc with equal weights
   (the sigma-point layout: exp(d_j / 2) and exp(-d_j / 2) = conj(exp(d_j / 2))) *)
Definition sym_quats (qc : Q) (al : list Q) : list Q :=
  qc :: map (fun a => qmul ROps a qc) al ++ map (fun a => qmul ROps (qconj ROps a) qc) al.
Definition sym_weights (w0 : R) (ws : list R) : list R := w0 :: ws ++ ws.
Fixpoint sym_coef (ws : list R) (al : list Q) : R :=
  match ws, al with
  | x :: ws', a :: al' => x * (qw a * qw a) + sym_coef ws' al'
  | _, _ => 0
  end.

Lemma osum_v_app l l' v i : osum_v (l ++ l') v i = osum_v l v i + osum_v l' v i.
Proof. induction l; simpl; [lra|]. rewrite IHl. lra. Qed.

Lemma combine_app_eq {A B} (a a' : list A) (b b' : list B) : length a = length b ->
  combine (a ++ a') (b ++ b') = combine a b ++ combine a' b'.
Proof.
  revert b. induction a as [|x a IH]; intros [|y b] H; simpl in *; try discriminate; [reflexivity|].
  f_equal. apply IH. now injection H.
Qed.

Lemma sym_pairs ws al (qc : Q) i :
  osum_v (combine ws (map (fun a => qmul ROps a qc) al)) qc i +
  osum_v (combine ws (map (fun a => qmul ROps (qconj ROps a) qc) al)) qc i =
  2 * sym_coef ws al * qnorm2 qc * qcomp ROps qc i.
Proof.
  revert al. induction ws as [|x ws IH]; intros [|a al]; simpl; try ring.
  specialize (IH al).
  set (S1 := osum_v (combine ws (map (fun a => qmul ROps a qc) al)) qc i) in *.
  set (S2 := osum_v (combine ws (map (fun a => qmul ROps (qconj ROps a) qc) al)) qc i) in *.
  replace (2 * (x * (qw a * qw a) + sym_coef ws al) * qnorm2 qc * qcomp ROps qc i)
    with (2 * x * (qw a * qw a) * qnorm2 qc * qcomp ROps qc i + (S1 + S2)) by (rewrite IH; ring).
  clearbody S1 S2. clear IH.
  rewrite !qmul_R, qconj_R. unfold qdot, qnorm2. destruct a as [aw ax ay az]. destruct qc as [cw cx cy cz].
  destruct i as [|[|[|i]]]; simpl; ring.
Qed.

Lemma sym_centre_eigvec (qc : Q) w0 ws al : length ws = length al ->
  is_eigvec (outer_sum ROps (sym_weights w0 ws) (sym_quats qc al)) qc (qnorm2 qc * (w0 + 2 * sym_coef ws al)).
Proof.
  intros Hlen.
  assert (E : forall i, mv (outer_sum ROps (sym_weights w0 ws) (sym_quats qc al)) qc i =
                        qnorm2 qc * (w0 + 2 * sym_coef ws al) * qcomp ROps qc i).
  { intros i. rewrite (mv_ext _ (osum (combine (sym_weights w0 ws) (sym_quats qc al)))) by (intros; apply outer_sum_R).
    rewrite mv_osum. unfold sym_weights, sym_quats. simpl.
    rewrite combine_app_eq by now rewrite map_length. rewrite osum_v_app, sym_pairs.
    unfold qdot, qnorm2. ring. }
  unfold is_eigvec. rewrite !E. simpl. repeat split; ring.
Qed.

(* dominance under an explicit eigen-gap premise: every eigen-direction other than the centre's has a
   strictly smaller eigenvalue *)
Lemma mean_symmetric_partial eig (qc : Q) w0 ws al :
  qnorm2 qc = 1 -> length ws = length al ->
  let A := outer_sum ROps (sym_weights w0 ws) (sym_quats qc al) in
  let m := qmean ROps eig (sym_weights w0 ws) (sym_quats qc al) in
  max_eig_contract A m ->
  (forall u mu, is_eigvec A u mu -> (forall k, u <> qscale k qc) -> mu < w0 + 2 * sym_coef ws al) ->
  m = qc \/ m = qneg qc.
Proof.
  intros Hq Hlen A m [Hm [lam [Hev Hmax]]] Hgap.
  pose proof (sym_centre_eigvec qc w0 ws al Hlen) as Hc. fold A in Hc. rewrite Hq, Rmult_1_l in Hc.
  assert (Hle : w0 + 2 * sym_coef ws al <= lam) by (apply (Hmax qc); [rewrite Hq; lra | exact Hc]).
  assert (Hpar : exists k, m = qscale k qc).
  { destruct (Classical_Prop.classic (exists k, m = qscale k qc)) as [|Hn]; [assumption|]. exfalso.
    assert (lam < w0 + 2 * sym_coef ws al); [|lra].
    apply (Hgap m lam Hev). intros k Hk. apply Hn. now exists k. }
  destruct Hpar as [k Hk]. clearbody m. subst m.
  assert (Hk2 : k * k = 1).
  { unfold qnorm2, qscale in *. simpl in *.
    replace (k * qw qc * (k * qw qc) + k * qx qc * (k * qx qc) + k * qy qc * (k * qy qc) + k * qz qc * (k * qz qc))
      with (k * k * (qw qc * qw qc + qx qc * qx qc + qy qc * qy qc + qz qc * qz qc)) in Hm by ring.
    rewrite Hq in Hm. lra. }
  assert (Hk1 : k = 1 \/ k = -1).
  { assert (H0 : (k - 1) * (k + 1) = 0) by lra. apply Rmult_integral in H0. destruct H0; [left|right]; lra. }
  destruct qc as [cw cx cy cz]. unfold qscale, qneg. simpl.
  destruct Hk1 as [-> | ->]; [left|right]; f_equal; lra.
Qed.

(* non-vacuity: a concrete unit quaternion, rotation vector and mean configuration *)
Lemma example_unit : qnorm2 (mkQR (3/5) (4/5) 0 0) = 1.
Proof. unfold qnorm2. simpl. lra. Qed.

Lemma example_log_exp_premises : let r := mkVR 1 0 0 in cut < sin (n3 r / 2) /\ n3 r <= PI.
Proof.
  simpl. assert (E : n3 (mkVR 1 0 0) = 1).
  { unfold n3, ss. simpl. replace (1 * 1 + 0 * 0 + 0 * 0) with (1 * 1) by ring. apply sqrt_square. lra. }
  rewrite E. pose proof PI2_1 as Hp. unfold PI2 in Hp. pose proof PI_RGT_0. split; [|lra].
  (* sin(1/2) > 1e-4: sin_lb *)
  destruct (SIN (1 / 2)) as [L _]; [lra | lra |]. rewrite sin_lb_poly in L. unfold cut. lra.
Qed.

(* the eigen-solver contract is satisfiable: M = e0 e0^T, dominant unit eigenvector e0 *)
Lemma example_contract : max_eig_contract (outer_sum ROps [1] [Q1]) Q1.
Proof.
  split; [unfold qnorm2; simpl; lra|]. exists 1.
  assert (E : forall u i, mv (outer_sum ROps [1] [Q1]) u i = 1 * qdot Q1 u * qcomp ROps Q1 i).
  { intros u i. rewrite (mv_ext _ (osum (combine [1] [Q1]))) by (intros; apply outer_sum_R).
    rewrite mv_osum. simpl. ring. }
  split.
  - unfold is_eigvec. rewrite !E. unfold qdot. simpl. repeat split; ring.
  - intros u mu Hu [E0 [E1 [E2 E3]]]. rewrite E in E0, E1, E2, E3.
    destruct u as [a b c d]. unfold qdot, qnorm2 in *. simpl in *.
    destruct (Rle_dec mu 1) as [|Hgt]; [assumption|]. exfalso.
    assert (a = 0) by nra. assert (b = 0) by nra. assert (c = 0) by nra. assert (d = 0) by nra.
    subst. apply Hu. ring.
Qed.

(* the property's literal "at most 2e-4" is exceeded (by less than 4e-13) at |r| = 2 asin(1e-4) *)
Lemma bound_2e_4_refuted : exists r : V, n3 r <= PI /\ 2 / 10000 < vdist (q_to_rv ROps (rv_to_q ROps r)) r.
Proof.
  pose proof asin_cut_pos as Hp. pose proof true_bound_numeric as Hn. pose proof true_bound_exceeds as He.
  pose proof PI2_1 as H1. unfold PI2 in H1.
  exists (mkVR (2 * asin cut) 0 0).
  assert (E : n3 (mkVR (2 * asin cut) 0 0) = 2 * asin cut).
  { unfold n3, ss. simpl. replace (2 * asin cut * (2 * asin cut) + 0 * 0 + 0 * 0) with ((2 * asin cut) * (2 * asin cut)) by ring.
    apply sqrt_square. lra. }
  split; [rewrite E; lra|].
  rewrite log_exp_zone; [rewrite vdist_V0, E; lra | | rewrite E; lra].
  rewrite E. replace (2 * asin cut / 2) with (asin cut) by lra. rewrite sin_asin by apply cut_range. lra.
Qed.

(* ---------------------------------------------------------------- exp (log q) for negative real part *)

Lemma qneg_involutive (q : Q) : qneg (qneg q) = q.
Proof. destruct q as [w x y z]. unfold qneg. simpl. f_equal; ring. Qed.

Lemma qnorm2_neg (q : Q) : qnorm2 (qneg q) = qnorm2 q.
Proof. unfold qnorm2, qneg. simpl. ring. Qed.

Lemma exp_log_neg (q : Q) : qnorm2 q = 1 -> qw q < 0 -> cut < n3 (qvec ROps q) ->
  rv_to_q ROps (q_to_rv ROps q) = qneg q.
Proof.
  intros Hu Hw Hv.
  rewrite <- (qneg_involutive q) at 1. rewrite double_cover by (simpl; lra).
  apply exp_log; [now rewrite qnorm2_neg | simpl; lra | now rewrite n3_qvec_neg].
Qed.

Lemma exp_log_pm (q : Q) : qnorm2 q = 1 -> cut < n3 (qvec ROps q) ->
  rv_to_q ROps (q_to_rv ROps q) = q \/ rv_to_q ROps (q_to_rv ROps q) = qneg q.
Proof.
  intros Hu Hv. destruct (Rlt_dec (qw q) 0) as [Hn|Hp]; [right; now apply exp_log_neg | left; apply exp_log; lra || assumption].
Qed.

(* ---------------------------------------------------------------- the convention, observably *)

(* the increment is recovered in the GLOBAL frame: (exp(r/2) * q) * conj q = exp(r/2) *)
Lemma left_convention_sum (q : Q) r : qnorm2 q = 1 -> qmul ROps (qsum_one ROps q r) (qconj ROps q) = rv_to_q ROps r.
Proof. intros H. unfold qsum_one. now apply qmul_cancel_r. Qed.

Lemma left_convention_diff (e q : Q) : qnorm2 q = 1 -> qdiff_one ROps (qmul ROps e q) q = q_to_rv ROps e.
Proof. intros H. unfold qdiff_one. now rewrite qmul_cancel_r. Qed.

(* the right (body-frame) convention q * exp(r/2) is a different function: q = j, r = (PI, 0, 0) *)
Lemma right_convention_differs :
  let q := mkQR 0 0 1 0 in let r := mkVR PI 0 0 in
  qnorm2 q = 1 /\ rv_to_q ROps r = mkQR 0 1 0 0 /\
  qmul ROps (qmul ROps q (rv_to_q ROps r)) (qconj ROps q) = mkQR 0 (-1) 0 0 /\
  qmul ROps (qmul ROps q (rv_to_q ROps r)) (qconj ROps q) <> rv_to_q ROps r.
Proof.
  intros q r. pose proof PI_RGT_0 as Hp. pose proof PI2_1 as H1. unfold PI2 in H1.
  assert (En : n3 r = PI).
  { unfold r, n3, ss. simpl. replace (PI * PI + 0 * 0 + 0 * 0) with (PI * PI) by ring. apply sqrt_square. lra. }
  assert (Er : rv_to_q ROps r = mkQR 0 1 0 0).
  { rewrite rv_to_q_big by (rewrite En; unfold cut; lra). rewrite En, cos_PI2, sin_PI2. unfold r. simpl. f_equal; field; lra. }
  assert (Ep : qmul ROps (qmul ROps q (rv_to_q ROps r)) (qconj ROps q) = mkQR 0 (-1) 0 0).
  { rewrite Er, !qmul_R, qconj_R. unfold q. simpl. f_equal; ring. }
  repeat split; try assumption.
  - unfold q, qnorm2. simpl. ring.
  - rewrite Ep, Er. intros H. injection H. lra.
Qed.

(* ---------------------------------------------------------------- the eigen-gap of a symmetric set, derived *)

(* u^T M v for M = sum_k w_k q_k q_k^T *)
Fixpoint bil (l : list (R * Q)) (u v : Q) : R :=
  match l with
  | [] => 0
  | wq :: l' => fst wq * qdot (snd wq) u * qdot (snd wq) v + bil l' u v
  end.

Lemma bil_sym l u v : bil l u v = bil l v u.
Proof. induction l; simpl; [reflexivity|]. rewrite IHl. ring. Qed.
Lemma bil_app l l' u v : bil (l ++ l') u v = bil l u v + bil l' u v.
Proof. induction l; simpl; [lra|]. rewrite IHl. lra. Qed.

Lemma dot_osum_v l u (v : Q) :
  qw v * osum_v l u 0 + qx v * osum_v l u 1 + qy v * osum_v l u 2 + qz v * osum_v l u 3 = bil l u v.
Proof. induction l as [|[x q] l IH]; simpl; [ring|]. rewrite <- IH. unfold qdot. simpl. ring. Qed.

Definition qsubs (u : Q) (al : R) (c : Q) : Q :=
  mkQR (qw u - al * qw c) (qx u - al * qx c) (qy u - al * qy c) (qz u - al * qz c).

Lemma qdot_qsubs q u al c : qdot q (qsubs u al c) = qdot q u - al * qdot q c.
Proof. unfold qdot, qsubs. simpl. ring. Qed.

Lemma bil_qsubs l u al c :
  bil l (qsubs u al c) (qsubs u al c) = bil l u u - 2 * al * bil l u c + al * al * bil l c c.
Proof. induction l as [|[x q] l IH]; simpl; [ring|]. rewrite IH, !qdot_qsubs. ring. Qed.

(* Cauchy-Schwarz in R^4 through Lagrange's identity *)
Lemma cs4 (p x : Q) : qdot p x * qdot p x <= qnorm2 p * qnorm2 x.
Proof.
  destruct p as [a b c d]. destruct x as [e f g h]. unfold qdot, qnorm2. simpl.
  assert (E : (a * a + b * b + c * c + d * d) * (e * e + f * f + g * g + h * h) - (a * e + b * f + c * g + d * h) * (a * e + b * f + c * g + d * h)
              = (a * f - b * e)² + (a * g - c * e)² + (a * h - d * e)² + (b * g - c * f)² + (b * h - d * f)² + (c * h - d * g)²)
    by (unfold Rsqr; ring).
  pose proof (Rle_0_sqr (a * f - b * e)). pose proof (Rle_0_sqr (a * g - c * e)). pose proof (Rle_0_sqr (a * h - d * e)).
  pose proof (Rle_0_sqr (b * g - c * f)). pose proof (Rle_0_sqr (b * h - d * f)). pose proof (Rle_0_sqr (c * h - d * g)). lra.
Qed.

(* one symmetric pair, seen from a direction x orthogonal to the centre *)
Lemma pair_bound (a qc x : Q) : qdot qc x = 0 -> qnorm2 qc = 1 ->
  qdot (qmul ROps a qc) x * qdot (qmul ROps a qc) x +
  qdot (qmul ROps (qconj ROps a) qc) x * qdot (qmul ROps (qconj ROps a) qc) x
  <= 2 * (qnorm2 a - qw a * qw a) * qnorm2 x.
Proof.
  intros Ho Hq. set (p := qmul ROps (mkQR 0 (qx a) (qy a) (qz a)) qc).
  assert (E1 : qdot (qmul ROps a qc) x = qw a * qdot qc x + qdot p x)
    by (unfold p; rewrite !qmul_R; unfold qdot; simpl; ring).
  assert (E2 : qdot (qmul ROps (qconj ROps a) qc) x = qw a * qdot qc x - qdot p x)
    by (unfold p; rewrite !qmul_R, qconj_R; unfold qdot; simpl; ring).
  assert (Ep : qnorm2 p = (qnorm2 a - qw a * qw a) * qnorm2 qc)
    by (unfold p; rewrite qmul_R; unfold qnorm2; simpl; ring).
  rewrite E1, E2, Ho. pose proof (cs4 p x) as Hcs. rewrite Ep, Hq in Hcs. lra.
Qed.

Fixpoint vcoef (ws : list R) (al : list Q) : R :=
  match ws, al with
  | x :: ws', a :: al' => x * (qnorm2 a - qw a * qw a) + vcoef ws' al'
  | _, _ => 0
  end.

Lemma sym_rayleigh_bound ws al (qc x : Q) : qdot qc x = 0 -> qnorm2 qc = 1 -> Forall (fun w => 0 < w) ws ->
  bil (combine ws (map (fun a => qmul ROps a qc) al)) x x +
  bil (combine ws (map (fun a => qmul ROps (qconj ROps a) qc) al)) x x <= 2 * vcoef ws al * qnorm2 x.
Proof.
  intros Ho Hq Hw. revert al. induction Hw as [|w ws Hw0 Hws IH]; intros [|a al]; simpl; try lra.
  specialize (IH al). pose proof (pair_bound a qc x Ho Hq) as Hp.
  set (B1 := bil (combine ws (map (fun a => qmul ROps a qc) al)) x x) in *.
  set (B2 := bil (combine ws (map (fun a => qmul ROps (qconj ROps a) qc) al)) x x) in *.
  set (d1 := qdot (qmul ROps a qc) x) in *. set (d2 := qdot (qmul ROps (qconj ROps a) qc) x) in *.
  set (g := qnorm2 a - qw a * qw a) in *. set (X := qnorm2 x) in *. clearbody B1 B2 d1 d2 g X. nra.
Qed.

Definition tight (a : Q) : Prop := qnorm2 a = 1 /\ 1 / 2 < qw a * qw a.

Lemma coef_le ws al : Forall (fun w => 0 < w) ws -> Forall tight al -> vcoef ws al <= sym_coef ws al.
Proof.
  intros Hw. revert al. induction Hw as [|w ws Hw0 Hws IH]; intros [|a al] Ha; simpl; try lra.
  inversion Ha as [|a' al' [Hn Ht] Hal]; subst. specialize (IH al Hal). rewrite Hn. nra.
Qed.

Lemma coef_lt ws al : Forall (fun w => 0 < w) ws -> Forall tight al -> ws <> [] -> al <> [] ->
  vcoef ws al < sym_coef ws al.
Proof.
  intros Hw Ha Hne1 Hne2. destruct ws as [|w ws]; [contradiction|]. destruct al as [|a al]; [contradiction|].
  simpl. inversion Hw; subst. inversion Ha as [|a' al' [Hn Ht] Hal]; subst.
  pose proof (coef_le ws al H2 Hal). rewrite Hn. nra.
Qed.

Lemma eig_osum (w : list R) (qs : list Q) u mu : is_eigvec (outer_sum ROps w qs) u mu ->
  osum_v (combine w qs) u 0 = mu * qw u /\ osum_v (combine w qs) u 1 = mu * qx u /\
  osum_v (combine w qs) u 2 = mu * qy u /\ osum_v (combine w qs) u 3 = mu * qz u.
Proof.
  intros [E0 [E1 [E2 E3]]].
  rewrite (mv_ext _ (osum (combine w qs))), mv_osum in E0, E1, E2, E3 by (intros; apply outer_sum_R).
  auto.
Qed.

Lemma sumsq4_zero p q r s : p * p + q * q + r * r + s * s = 0 -> p = 0 /\ q = 0 /\ r = 0 /\ s = 0.
Proof. intros H. repeat split; nra. Qed.

Lemma qsubs_zero (u : Q) al (c : Q) : qnorm2 (qsubs u al c) = 0 -> u = qscale al c.
Proof.
  unfold qnorm2, qsubs. simpl. intros H. apply sumsq4_zero in H. destruct H as [H0 [H1 [H2 H3]]].
  destruct u as [a b c' d]. unfold qscale. simpl in *. f_equal; lra.
Qed.

Lemma sym_gap (qc : Q) w0 ws al :
  qnorm2 qc = 1 -> length ws = length al -> 0 <= w0 -> Forall (fun w => 0 < w) ws -> Forall tight al ->
  (0 < w0 \/ al <> []) ->
  forall u mu, is_eigvec (outer_sum ROps (sym_weights w0 ws) (sym_quats qc al)) u mu ->
               (forall k, u <> qscale k qc) -> mu < w0 + 2 * sym_coef ws al.
Proof.
  intros Hq Hlen Hw0 Hws Hal Hne u mu Hu Hnp.
  set (l := combine (sym_weights w0 ws) (sym_quats qc al)).
  set (lamc := w0 + 2 * sym_coef ws al).
  (* eigen equations for u and for the centre *)
  apply eig_osum in Hu. fold l in Hu. destruct Hu as [U0 [U1 [U2 U3]]].
  pose proof (sym_centre_eigvec qc w0 ws al Hlen) as Hc. rewrite Hq, Rmult_1_l in Hc.
  apply eig_osum in Hc. fold l lamc in Hc. destruct Hc as [C0 [C1 [C2 C3]]].
  set (alpha := qdot qc u).
  assert (Buc : bil l u qc = mu * alpha).
  { rewrite <- dot_osum_v, U0, U1, U2, U3. unfold alpha, qdot. ring. }
  assert (Bcu : bil l qc u = lamc * alpha).
  { rewrite <- dot_osum_v, C0, C1, C2, C3. unfold alpha, qdot. ring. }
  assert (Buu : bil l u u = mu * qnorm2 u).
  { rewrite <- dot_osum_v, U0, U1, U2, U3. unfold qnorm2. ring. }
  assert (Bcc : bil l qc qc = lamc).
  { rewrite <- dot_osum_v, C0, C1, C2, C3. unfold qnorm2 in Hq. replace lamc with (lamc * (qw qc * qw qc + qx qc * qx qc + qy qc * qy qc + qz qc * qz qc)) at 5 by (rewrite Hq; ring). ring. }
  assert (Hsym : mu * alpha = lamc * alpha) by (rewrite <- Buc, <- Bcu; apply bil_sym).
  set (x := qsubs u alpha qc).
  assert (Hox : qdot qc x = 0).
  { unfold x. rewrite qdot_qsubs. fold alpha. replace (qdot qc qc) with 1 by (unfold qdot; unfold qnorm2 in Hq; lra). ring. }
  assert (HX : qnorm2 x = qnorm2 u - alpha * alpha).
  { unfold x, qsubs, qnorm2. simpl. unfold qnorm2 in Hq.
    replace ((qw u - alpha * qw qc) * (qw u - alpha * qw qc) + (qx u - alpha * qx qc) * (qx u - alpha * qx qc) +
             (qy u - alpha * qy qc) * (qy u - alpha * qy qc) + (qz u - alpha * qz qc) * (qz u - alpha * qz qc))
      with (qw u * qw u + qx u * qx u + qy u * qy u + qz u * qz u - 2 * alpha * qdot qc u
            + alpha * alpha * (qw qc * qw qc + qx qc * qx qc + qy qc * qy qc + qz qc * qz qc)) by (unfold qdot; ring).
    rewrite Hq. fold alpha. ring. }
  assert (Bxx : bil l x x = mu * qnorm2 x).
  { unfold x. rewrite bil_qsubs, Buu, Buc, Bcc. fold x. rewrite HX.
    replace (alpha * alpha * lamc) with (alpha * (lamc * alpha)) by ring. rewrite <- Hsym. ring. }
  (* the Rayleigh quotient of x only sees the vector parts *)
  assert (Hb : bil l x x <= 2 * vcoef ws al * qnorm2 x).
  { unfold l, sym_weights, sym_quats. simpl. rewrite combine_app_eq by now rewrite map_length.
    rewrite bil_app, Hox. pose proof (sym_rayleigh_bound ws al qc x Hox Hq Hws). lra. }
  assert (Hxpos : 0 < qnorm2 x).
  { destruct (Req_dec (qnorm2 x) 0) as [E|E].
    - exfalso. apply (Hnp alpha). now apply qsubs_zero.
    - assert (0 <= qnorm2 x) by (unfold qnorm2; nra). lra. }
  assert (Hmu : mu <= 2 * vcoef ws al).
  { apply (Rmult_le_reg_r (qnorm2 x)); [assumption | lra]. }
  pose proof (coef_le ws al Hws Hal) as Hle. unfold lamc.
  destruct Hne as [Hp|Hp]; [lra|].
  assert (ws <> []) by (intros ->; destruct al; [contradiction | discriminate]).
  pose proof (coef_lt ws al Hws Hal H Hp). lra.
Qed.

(* full statement for non-negative weights: the mean of a symmetric set is +- its centre *)
Lemma mean_symmetric eig (qc : Q) w0 ws al :
  qnorm2 qc = 1 -> length ws = length al -> 0 <= w0 -> Forall (fun w => 0 < w) ws -> Forall tight al ->
  (0 < w0 \/ al <> []) ->
  max_eig_contract (outer_sum ROps (sym_weights w0 ws) (sym_quats qc al)) (qmean ROps eig (sym_weights w0 ws) (sym_quats qc al)) ->
  qmean ROps eig (sym_weights w0 ws) (sym_quats qc al) = qc \/
  qmean ROps eig (sym_weights w0 ws) (sym_quats qc al) = qneg qc.
Proof.
  intros Hq Hlen Hw0 Hws Hal Hne Hc. apply (mean_symmetric_partial eig qc w0 ws al Hq Hlen Hc).
  now apply sym_gap.
Qed.

(* non-vacuity of the symmetric-set premises with a non-empty list: centre 1, one pair (4/5, +-3/5, 0, 0) *)
Lemma example_symmetric_premises :
  let qc := Q1 in let al := [mkQR (4/5) (3/5) 0 0] in let ws := [1/4] in let w0 := 1/2 in
  qnorm2 qc = 1 /\ length ws = length al /\ 0 <= w0 /\ Forall (fun w => 0 < w) ws /\ Forall tight al /\ (0 < w0 \/ al <> []) /\
  sym_quats qc al = [Q1; mkQR (4/5) (3/5) 0 0; mkQR (4/5) (-(3/5)) 0 0] /\ w0 + 2 * sym_coef ws al = 41/50.
Proof.
  intros qc al ws w0. unfold qc, al, ws, w0.
  split; [unfold qnorm2; simpl; lra|]. split; [reflexivity|]. split; [lra|].
  split; [repeat constructor; lra|]. split; [repeat constructor; unfold qnorm2; simpl; lra|].
  split; [right; discriminate|]. split.
  - unfold sym_quats. cbn [map app]. rewrite !qmul_R, qconj_R. unfold Q1. simpl.
    f_equal. f_equal; [f_equal; lra|]. f_equal. f_equal; lra.
  - simpl. lra.
Qed.
