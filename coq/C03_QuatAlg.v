(* C03_QuatAlg.v — quaternion facts needed for the whole-layout theorem on quaternion blocks, on top of
   C18_Proofs (Coq reals):
     rotv r v                the rotation of the vector v by the unit quaternion r (vector part of r (0, v) conj r)
     conj_exp                r exp(v/2) (conj r) = exp(rotv r v / 2): a unit quaternion acting on the left of a sigma
                             quaternion rotates its tangent offset
     sandwich_sigma          rl (exp(p/2) q) rr = exp(rotv rl p / 2) (rl q rr)
     exp_neg                 exp(-v/2) = conj(exp(v/2)): the sigma set is C18's symmetric set
     log_pm_exp              2 log(+-exp(v/2)) = v for v = 0 or outside the cut-off zone and within a half turn
     sym_gap_resultant       the centre of a symmetric set is the strictly dominant eigen-direction of
                             sum w q q^T as soon as the weighted resultant w0 + 2 sum w_k (2 qw(a_k)^2 - 1) is
                             positive — also for a NEGATIVE central weight w0 (C18's sym_gap needs w0 >= 0)
     centre_dominant         hence a vector meeting the eigen-solver contract is +- the centre
   Axioms: the four standard axioms of Coq's Reals. *)
Require Import ZArith Reals Lra Lia List.
Require Import BFL.Ops BFL.C19_ROps BFL.C18_Model BFL.C18_Proofs.
Import ListNotations.
Local Open Scope R_scope.

Definition pureq (v : V) : Q := mkQR 0 (vx v) (vy v) (vz v).
Definition rotv (r : Q) (v : V) : V := qvec ROps (qmul ROps (qmul ROps r (pureq v)) (qconj ROps r)).

Lemma rot_pure r v : qmul ROps (qmul ROps r (pureq v)) (qconj ROps r) =
  mkQR 0 (vx (rotv r v)) (vy (rotv r v)) (vz (rotv r v)).
Proof. unfold rotv. rewrite !qmul_R, qconj_R. simpl. f_equal; ring. Qed.

Lemma ss_rotv r v : qnorm2 r = 1 -> ss (rotv r v) = ss v.
Proof.
  intros Hr. set (w := rotv r v).
  assert (E : qnorm2 (mkQR 0 (vx w) (vy w) (vz w)) = qnorm2 r * qnorm2 (pureq v) * qnorm2 (qconj ROps r)).
  { unfold w. rewrite <- rot_pure, !qnorm2_mul. reflexivity. }
  assert (Hc : qnorm2 (qconj ROps r) = qnorm2 r) by (rewrite qconj_R; unfold qnorm2; simpl; ring).
  rewrite Hc, Hr in E. clearbody w. unfold qnorm2, pureq in E. simpl in E. unfold ss. lra.
Qed.

Lemma n3_rotv r v : qnorm2 r = 1 -> n3 (rotv r v) = n3 v.
Proof. intros Hr. unfold n3. now rewrite ss_rotv. Qed.

(* r (a + s v) (conj r) = a + s (rotv r v) for a unit r *)
Lemma conj_affine (r : Q) (a s : R) (v : V) : qnorm2 r = 1 ->
  qmul ROps (qmul ROps r (mkQR a (s * vx v) (s * vy v) (s * vz v))) (qconj ROps r) =
  mkQR a (s * vx (rotv r v)) (s * vy (rotv r v)) (s * vz (rotv r v)).
Proof.
  intros Hr. unfold rotv. rewrite !qmul_R, qconj_R. unfold qnorm2 in Hr. simpl.
  f_equal; try ring.
  transitivity (a * (qw r * qw r + qx r * qx r + qy r * qy r + qz r * qz r)); [ring | rewrite Hr; ring].
Qed.

Lemma conj_exp r v : qnorm2 r = 1 ->
  qmul ROps (qmul ROps r (rv_to_q ROps v)) (qconj ROps r) = rv_to_q ROps (rotv r v).
Proof.
  intros Hr. destruct (Rlt_dec cut (n3 v)) as [H|H].
  - rewrite (rv_to_q_big v H), (rv_to_q_big (rotv r v)) by (rewrite n3_rotv; assumption).
    rewrite (n3_rotv r v Hr). pose proof cut_pos.
    replace (mkQR (cos (n3 v / 2)) (sin (n3 v / 2) * vx v / n3 v) (sin (n3 v / 2) * vy v / n3 v) (sin (n3 v / 2) * vz v / n3 v))
      with (mkQR (cos (n3 v / 2)) (sin (n3 v / 2) / n3 v * vx v) (sin (n3 v / 2) / n3 v * vy v) (sin (n3 v / 2) / n3 v * vz v))
      by (f_equal; field; lra).
    rewrite conj_affine by assumption. f_equal; field; lra.
  - rewrite (rv_to_q_zone v), (rv_to_q_zone (rotv r v)) by (rewrite ?n3_rotv by assumption; lra).
    replace Q1 with (mkQR 1 (0 * vx v) (0 * vy v) (0 * vz v)) at 1 by (unfold Q1; f_equal; ring).
    rewrite conj_affine by assumption. unfold Q1. f_equal; ring.
Qed.

Lemma qconj_unit_l r : qnorm2 r = 1 -> qmul ROps (qconj ROps r) r = Q1.
Proof. intros H. rewrite qmul_R, qconj_R. unfold Q1, qnorm2 in *. simpl. f_equal; try ring. rewrite <- H. ring. Qed.

Lemma qmul_1_l q : qmul ROps Q1 q = q.
Proof. rewrite qmul_R. destruct q. unfold Q1. simpl. f_equal; ring. Qed.
Lemma qmul_1_r q : qmul ROps q Q1 = q.
Proof. rewrite qmul_R. destruct q. unfold Q1. simpl. f_equal; ring. Qed.

(* a unit quaternion on each side of a sigma quaternion *)
Lemma sandwich_sigma rl rr q p : qnorm2 rl = 1 ->
  qmul ROps (qmul ROps rl (qsum_one ROps q p)) rr =
  qmul ROps (rv_to_q ROps (rotv rl p)) (qmul ROps (qmul ROps rl q) rr).
Proof.
  intros Hl. unfold qsum_one. rewrite <- (conj_exp rl p Hl).
  rewrite !qmul_assoc. f_equal. f_equal.
  rewrite <- !qmul_assoc. rewrite (qconj_unit_l rl Hl), qmul_1_l. reflexivity.
Qed.

Lemma exp_neg v : rv_to_q ROps (vneg v) = qconj ROps (rv_to_q ROps v).
Proof.
  destruct (Rlt_dec cut (n3 v)) as [H|H].
  - rewrite (rv_to_q_big v H), (rv_to_q_big (vneg v)) by (rewrite n3_vneg; assumption).
    rewrite n3_vneg, qconj_R. pose proof cut_pos. simpl. f_equal; field; lra.
  - rewrite (rv_to_q_zone v), (rv_to_q_zone (vneg v)) by (rewrite ?n3_vneg; lra).
    rewrite qconj_R. unfold Q1. simpl. f_equal; ring.
Qed.

Lemma rotv_neg r v : rotv r (vneg v) = vneg (rotv r v).
Proof. unfold rotv, vneg, pureq. rewrite !qmul_R, qconj_R. unfold qvec. simpl. f_equal; ring. Qed.

(* a rotation vector the exp / log pair reads back exactly: zero, or outside the cut-off zone and
   strictly within a half turn *)
Definition ok_rv (v : V) : Prop := v = V0 \/ (cut < sin (n3 v / 2) /\ n3 v < PI).

Lemma ok_rv_rotv r v : qnorm2 r = 1 -> ok_rv v -> ok_rv (rotv r v).
Proof.
  intros Hr [->|[H1 H2]].
  - left. unfold rotv, V0, pureq. rewrite !qmul_R, qconj_R. unfold qvec. simpl. f_equal; ring.
  - right. rewrite n3_rotv by assumption. auto.
Qed.

Lemma ok_rv_neg v : ok_rv v -> ok_rv (vneg v).
Proof.
  intros [->|[H1 H2]]; [left; unfold vneg, V0; simpl; f_equal; ring | right; rewrite n3_vneg; auto].
Qed.

Lemma log_pm_exp v : ok_rv v ->
  q_to_rv ROps (rv_to_q ROps v) = v /\ q_to_rv ROps (qneg (rv_to_q ROps v)) = v.
Proof.
  pose proof PI_RGT_0 as Hpi. pose proof cut_pos as Hc.
  intros [->|[H1 H2]].
  - assert (E : rv_to_q ROps V0 = Q1) by (apply rv_to_q_zone; rewrite n3_V0; lra).
    rewrite E. split; apply q_to_rv_zone.
    + change (qvec ROps Q1) with V0. rewrite n3_V0. lra.
    + rewrite n3_qvec_neg. change (qvec ROps Q1) with V0. rewrite n3_V0. lra.
  - assert (E : q_to_rv ROps (rv_to_q ROps v) = v) by (apply log_exp; lra).
    split; [exact E|]. rewrite double_cover; [exact E|].
    assert (Hn : cut < n3 v).
    { pose proof (n3_nonneg v). assert (cut < n3 v / 2) by (apply half_gt_cut; lra). lra. }
    rewrite rv_to_q_big by assumption. simpl.
    pose proof (n3_nonneg v). apply Rgt_not_eq. apply cos_gt_0; lra.
Qed.

(* real part of exp(v/2): 2 qw^2 - 1 >= cos |v| *)
Lemma exp_w_cos v : cos (n3 v) <= 2 * (qw (rv_to_q ROps v) * qw (rv_to_q ROps v)) - 1.
Proof.
  destruct (Rlt_dec cut (n3 v)) as [H|H].
  - rewrite rv_to_q_big by assumption. simpl.
    replace (n3 v) with (2 * (n3 v / 2)) at 1 by field. rewrite cos_2a_cos. lra.
  - rewrite rv_to_q_zone by lra. unfold Q1. simpl. pose proof (COS_bound (n3 v)). lra.
Qed.

(* ---------------------------------------------------------------- dominance of the centre, any sign of w0 *)
Lemma sym_gap_resultant (qc : Q) w0 ws al :
  qnorm2 qc = 1 -> length ws = length al -> Forall (fun w => 0 < w) ws ->
  2 * vcoef ws al < w0 + 2 * sym_coef ws al ->
  forall u mu, is_eigvec (outer_sum ROps (sym_weights w0 ws) (sym_quats qc al)) u mu ->
               (forall k, u <> qscale k qc) -> mu < w0 + 2 * sym_coef ws al.
Proof.
  intros Hq Hlen Hws Hres u mu Hu Hnp.
  set (l := combine (sym_weights w0 ws) (sym_quats qc al)).
  set (lamc := w0 + 2 * sym_coef ws al).
  apply eig_osum in Hu. fold l in Hu. destruct Hu as [U0 [U1 [U2 U3]]].
  pose proof (sym_centre_eigvec qc w0 ws al Hlen) as Hc. rewrite Hq, Rmult_1_l in Hc.
  apply eig_osum in Hc. fold l lamc in Hc. destruct Hc as [C0 [C1 [C2 C3]]].
  set (alpha := qdot qc u).
  assert (Buc : bil l u qc = mu * alpha).
  { rewrite <- dot_osum_v, U0, U1, U2, U3. unfold alpha, qdot. ring. }
  assert (Bcu : bil l qc u = lamc * alpha).
  { rewrite <- dot_osum_v, C0, C1, C2, C3. unfold alpha, qdot. ring. }
  assert (Buu : bil l u u = mu * qnorm2 u).
  { rewrite <- dot_osum_v, U0, U1, U2, U3. unfold qnorm2. ring. }
  assert (Bcc : bil l qc qc = lamc).
  { rewrite <- dot_osum_v, C0, C1, C2, C3. unfold qnorm2 in Hq.
    replace lamc with (lamc * (qw qc * qw qc + qx qc * qx qc + qy qc * qy qc + qz qc * qz qc)) at 5 by (rewrite Hq; ring). ring. }
  assert (Hsym : mu * alpha = lamc * alpha) by (rewrite <- Buc, <- Bcu; apply bil_sym).
  set (x := qsubs u alpha qc).
  assert (Hox : qdot qc x = 0).
  { unfold x. rewrite qdot_qsubs. fold alpha. replace (qdot qc qc) with 1 by (unfold qdot; unfold qnorm2 in Hq; lra). ring. }
  assert (HX : qnorm2 x = qnorm2 u - alpha * alpha).
  { unfold x, qsubs, qnorm2. simpl. unfold qnorm2 in Hq.
    replace ((qw u - alpha * qw qc) * (qw u - alpha * qw qc) + (qx u - alpha * qx qc) * (qx u - alpha * qx qc) +
             (qy u - alpha * qy qc) * (qy u - alpha * qy qc) + (qz u - alpha * qz qc) * (qz u - alpha * qz qc))
      with (qw u * qw u + qx u * qx u + qy u * qy u + qz u * qz u - 2 * alpha * qdot qc u
            + alpha * alpha * (qw qc * qw qc + qx qc * qx qc + qy qc * qy qc + qz qc * qz qc)) by (unfold qdot; ring).
    rewrite Hq. fold alpha. ring. }
  assert (Bxx : bil l x x = mu * qnorm2 x).
  { unfold x. rewrite bil_qsubs, Buu, Buc, Bcc. fold x. rewrite HX.
    replace (alpha * alpha * lamc) with (alpha * (lamc * alpha)) by ring. rewrite <- Hsym. ring. }
  assert (Hb : bil l x x <= 2 * vcoef ws al * qnorm2 x).
  { unfold l, sym_weights, sym_quats. simpl. rewrite combine_app_eq by now rewrite map_length.
    rewrite bil_app, Hox. pose proof (sym_rayleigh_bound ws al qc x Hox Hq Hws). lra. }
  assert (Hxpos : 0 < qnorm2 x).
  { destruct (Req_dec (qnorm2 x) 0) as [E|E].
    - exfalso. apply (Hnp alpha). now apply qsubs_zero.
    - assert (0 <= qnorm2 x) by (unfold qnorm2; nra). lra. }
  assert (Hmu : mu <= 2 * vcoef ws al).
  { apply (Rmult_le_reg_r (qnorm2 x)); [assumption | lra]. }
  unfold lamc. lra.
Qed.

(* eigen relations read only the 4 x 4 block *)
Lemma is_eigvec_ext4 (A B : M4) v lam :
  (forall i j, (i < 4)%nat -> (j < 4)%nat -> A i j = B i j) -> is_eigvec A v lam -> is_eigvec B v lam.
Proof.
  intros E. unfold is_eigvec, mv. rewrite <- !E by lia. auto.
Qed.

Lemma max_eig_contract_ext4 (A B : M4) v :
  (forall i j, (i < 4)%nat -> (j < 4)%nat -> A i j = B i j) -> max_eig_contract A v -> max_eig_contract B v.
Proof.
  intros E [Hn [lam [Hv Hmax]]]. split; [exact Hn|]. exists lam. split; [now apply (is_eigvec_ext4 A B)|].
  intros u mu Hu Hev. apply (Hmax u mu Hu). apply (is_eigvec_ext4 B A); [|exact Hev].
  intros i j Hi Hj. symmetry. now apply E.
Qed.

(* a vector that meets the eigen-solver contract for (a matrix equal on its 4 x 4 block to) the
   second-moment matrix of a symmetric set with positive resultant is +- the centre *)
Lemma centre_dominant (A : M4) (qc m : Q) w0 ws al :
  qnorm2 qc = 1 -> length ws = length al -> Forall (fun w => 0 < w) ws ->
  2 * vcoef ws al < w0 + 2 * sym_coef ws al ->
  (forall i j, (i < 4)%nat -> (j < 4)%nat -> A i j = outer_sum ROps (sym_weights w0 ws) (sym_quats qc al) i j) ->
  max_eig_contract A m -> m = qc \/ m = qneg qc.
Proof.
  intros Hq Hlen Hws Hres HA Hm.
  pose proof (max_eig_contract_ext4 A _ m HA Hm) as Hm'.
  apply (mean_symmetric_partial (fun _ => m) qc w0 ws al Hq Hlen Hm').
  now apply sym_gap_resultant.
Qed.

(* the contract is satisfiable: under the same resultant premise the centre itself meets it *)
Lemma centre_meets_contract (qc : Q) w0 ws al :
  qnorm2 qc = 1 -> length ws = length al -> Forall (fun w => 0 < w) ws ->
  2 * vcoef ws al < w0 + 2 * sym_coef ws al ->
  max_eig_contract (outer_sum ROps (sym_weights w0 ws) (sym_quats qc al)) qc.
Proof.
  intros Hq Hlen Hws Hres. split; [exact Hq|].
  set (Amat := outer_sum ROps (sym_weights w0 ws) (sym_quats qc al)).
  set (lam := w0 + 2 * sym_coef ws al).
  pose proof (sym_centre_eigvec qc w0 ws al Hlen) as Hc. rewrite Hq, Rmult_1_l in Hc. fold Amat lam in Hc.
  exists lam. split; [exact Hc|].
  intros u mu Hu Hev.
  destruct (Classical_Prop.classic (exists k, u = qscale k qc)) as [[k Hk]|Hn].
  - subst u. destruct Hc as (C0 & C1 & C2 & C3). destruct Hev as (E0 & E1 & E2 & E3).
    unfold mv, qscale in *. simpl in *.
    assert (Hk0 : k <> 0).
    { intros ->. apply Hu. unfold qnorm2. simpl. ring. }
    assert (F0 : (lam - mu) * k * qw qc = 0).
    { transitivity (k * (lam * qw qc) - mu * (k * qw qc)); [ring|]. rewrite <- C0, <- E0. ring. }
    assert (F1 : (lam - mu) * k * qx qc = 0).
    { transitivity (k * (lam * qx qc) - mu * (k * qx qc)); [ring|]. rewrite <- C1, <- E1. ring. }
    assert (F2 : (lam - mu) * k * qy qc = 0).
    { transitivity (k * (lam * qy qc) - mu * (k * qy qc)); [ring|]. rewrite <- C2, <- E2. ring. }
    assert (F3 : (lam - mu) * k * qz qc = 0).
    { transitivity (k * (lam * qz qc) - mu * (k * qz qc)); [ring|]. rewrite <- C3, <- E3. ring. }
    assert (H : (lam - mu) * k = 0).
    { unfold qnorm2 in Hq.
      replace ((lam - mu) * k) with ((lam - mu) * k * (qw qc * qw qc + qx qc * qx qc + qy qc * qy qc + qz qc * qz qc)) by (rewrite Hq; ring).
      replace ((lam - mu) * k * (qw qc * qw qc + qx qc * qx qc + qy qc * qy qc + qz qc * qz qc))
        with ((lam - mu) * k * qw qc * qw qc + (lam - mu) * k * qx qc * qx qc + (lam - mu) * k * qy qc * qy qc + (lam - mu) * k * qz qc * qz qc) by ring.
      rewrite F0, F1, F2, F3. ring. }
    apply Rmult_integral in H. destruct H; [lra | contradiction].
  - left. apply (sym_gap_resultant qc w0 ws al Hq Hlen Hws Hres u mu Hev). intros k Hk. apply Hn. now exists k.
Qed.
