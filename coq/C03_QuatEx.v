(* C03_QuatEx.v — non-vacuity of the premises of C03_Quat.quat_affine_exact: a concrete instance.
   Layout: 1 linear row, 1 quaternion, no noise (d = 5, dc = 4); output: 1 linear row, 1 quaternion.
   alpha = 1, kappa = 0 (c = 4, sqrt c = 2, w0 = 0, wi = 1/8); P = I / 4 with its diagonal factor (every
   non-zero rotation-vector block of a sigma offset is a unit axis vector: norm 1, outside the cut-off
   zone, within a half turn); mean quaternion (1, 0, 0, 0); the map y_lin = 2 x_lin + 1/2, y_quat = x_quat
   (rl = rr = 1), J = diag(2, 1, 1, 1); the eigenvector oracle returns (1, 0, 0, 0), which is shown to meet
   the eigen-solver contract (it is the strictly dominant direction).
   Axioms: the four standard axioms of Coq's Reals. *)
Require Import ZArith Reals Lra Lia List Bool Arith.
Require Import BFL.Ops BFL.C03_Model BFL.C19_ROps BFL.C18_Model BFL.C18_Proofs BFL.C03_Real.
Require Import BFL.C03_RFun BFL.C03_Euler BFL.C03_QuatAlg BFL.C03_Quat.
Import ListNotations.
Local Open Scope R_scope.

Definition exq_sq (n : nat) (P : fmx) : fmx := fun i j => if Nat.eqb i j then sqrt (P i i) else 0.
Definition exq_eg (n : nat) (M : fmx) : fmx := fun i _ => match i with 0%nat => 1 | _ => 0 end.
Definition exq_P : fmx := fun i j => if Nat.eqb i j then 1 / 4 else 0.
Definition exq_m : fmx := fun i _ => match i with 0%nat => 3 | 1%nat => 1 | _ => 0 end.
Definition exq_Am : fmx := fun i j => if Nat.eqb i j then (if Nat.eqb i 0 then 2 else 1) else 0.
Definition exq_b : fmx := fun i _ => match i with 0%nat => 1 / 2 | _ => 0 end.
Definition exq_J : fmx := fun i j => if Nat.eqb i j then (if Nat.eqb i 0 then 2 else 1) else 0.
Definition exq_r (t : nat) : Q := Q1.

Lemma sqrt_quarter : sqrt (1 / 4) = 1 / 2.
Proof. apply sqrt_lem_1; lra. Qed.
Lemma sqrt_four : sqrt 4 = 2.
Proof. apply sqrt_lem_1; lra. Qed.

Lemma rotv_Q1 v : rotv Q1 v = v.
Proof. unfold rotv, pureq, Q1. rewrite !qmul_R, qconj_R. unfold qvec. destruct v as [x y z]. simpl. f_equal; ring. Qed.

Lemma ok_axis (v : V) : ss v = 1 -> ok_rv v.
Proof.
  intros H. right. assert (E : n3 v = 1) by (unfold n3; rewrite H; apply sqrt_1). rewrite E.
  destruct example_log_exp_premises as [H1 _].
  assert (E1 : n3 (mkVR 1 0 0) = 1).
  { unfold n3, ss. simpl. replace (1 * 1 + 0 * 0 + 0 * 0) with 1 by ring. apply sqrt_1. }
  rewrite E1 in H1. split; [exact H1|]. pose proof PI2_1. unfold PI2 in *. lra.
Qed.

Section Instance.
Notation sq := exq_sq.
Notation eg := exq_eg.
Let Lin := mkLayout 1 1 true 0.
Let Lout := mkLayout 1 1 true 0.
Let d := l_dim Lin.
Let dc := l_dcov Lin.
Let p := l_dim Lout.
Let w := ut_weights (O:=RF sq eg) dc 1 2 0.
Let c := w_c w.
Let w0 := nth 0 (w_mean w) 0.
Let wi := nth 1 (w_mean w) 0.

Lemma exq_dims : d = 5%nat /\ dc = 4%nat /\ p = 5%nat.
Proof. repeat split. Qed.

Lemma exq_c : c = 4.
Proof. unfold c, w. rewrite ut_weights_R_c. simpl. lra. Qed.

Lemma exq_w : w0 = 0 /\ wi = 1 / 8.
Proof.
  unfold w0, wi, w. rewrite ut_weights_R. cbn [w_mean nth]. change dc with 4%nat. simpl. split; field.
Qed.

Lemma exq_Yf (x : fmx) i : (1 <= i)%nat -> (i < 5)%nat -> Yfq sq eg d p exq_Am exq_b x i 0%nat = x i 0%nat.
Proof.
  intros H1 H2. pose proof (affine_get sq eg 5 5 exq_Am exq_b x i H2) as E. unfold colget in E.
  change (@mget (RF sq eg) 5 1) with (fget 5 1) in E. unfold fget in E. rewrite inb_true in E by lia.
  unfold Yfq. change d with 5%nat. change p with 5%nat. rewrite E.
  destruct i as [|[|[|[|[|i]]]]]; try lia; unfold exq_Am, exq_b; simpl; ring.
Qed.

Lemma exq_map_ok : quat_map_ok sq eg 1 1 1 d dc p exq_Am exq_b exq_J exq_r exq_r.
Proof.
  assert (HQ : qnorm2 Q1 = 1) by (unfold qnorm2, Q1; simpl; ring).
  split; [intros; exact HQ|]. split; [intros; exact HQ|]. split; [|split; [|split]].
  - intros i j Hi H1 H2. assert (i = 0%nat) by lia. subst i. unfold exq_Am.
    destruct j as [|j]; [lia | reflexivity].
  - intros x t Ht. assert (t = 0%nat) by lia. subst t. unfold exq_r. rewrite qmul_1_l, qmul_1_r.
    unfold qraw. simpl. rewrite !exq_Yf by lia. reflexivity.
  - intros e i Hi. assert (i = 0%nat) by lia. subst i. change d with 5%nat. change dc with 4%nat.
    unfold qJ, es, exq_Am, exq_J. simpl. ring.
  - intros e t k Ht Hk. assert (t = 0%nat) by lia. subst t. unfold exq_r. rewrite rotv_Q1.
    change dc with 4%nat. unfold qJ, exq_J. destruct k as [|[|[|k]]]; try lia; simpl; ring.
Qed.

Lemma exq_factor : factor_ok sq dc exq_P.
Proof.
  pose proof sqrt_quarter as Hs.
  intros a b' Ha Hb. change dc with 4%nat in *. unfold exq_sq, exq_P.
  destruct a as [|[|[|[|a]]]]; try lia; destruct b' as [|[|[|[|b']]]]; try lia; simpl; rewrite ?Hs; lra.
Qed.

Lemma exq_blocks k : (k < 4)%nat ->
  blk 1 (fun j => sqrt c * sq dc exq_P j k) 0 = V0 \/ ss (blk 1 (fun j => sqrt c * sq dc exq_P j k) 0) = 1.
Proof.
  intros Hk. rewrite exq_c, sqrt_four. change dc with 4%nat. unfold blk, exq_sq, exq_P, ss.
  destruct k as [|[|[|[|k]]]]; try lia; simpl; rewrite ?sqrt_quarter.
  - left. unfold V0. f_equal; ring.
  - right. field.
  - right. field.
  - right. field.
Qed.

Lemma exq_comp_ok : quat_comp_ok sq eg 1 1 0 1 d dc p c w0 wi exq_Am exq_b (exq_m, exq_P).
Proof.
  pose proof exq_map_ok as (M1 & M2 & M3 & M4 & M5 & M6).
  assert (Hunit : forall t, (t < 1)%nat -> qnorm2 (qraw exq_m (1 + t * 4)) = 1).
  { intros t Ht. assert (t = 0%nat) by lia. subst t. unfold qnorm2, qraw, exq_m. simpl. ring. }
  assert (Hok : forall t k, (t < 1)%nat -> (k < dc)%nat -> ok_rv (blk 1 (fun j => sqrt c * sq dc exq_P j k) t)).
  { intros t k Ht Hk. assert (t = 0%nat) by lia. subst t.
    destruct (exq_blocks k Hk) as [E|E]; [left; exact E | apply ok_axis; exact E]. }
  assert (Hres : forall t, (t < 1)%nat ->
            0 < w0 + 2 * wi * rsum dc (fun k => cos (n3 (blk 1 (fun j => sqrt c * sq dc exq_P j k) t)))).
  { intros t Ht. assert (t = 0%nat) by lia. subst t. destruct exq_w as [-> ->].
    assert (Hcos : forall k, (k < 4)%nat -> 0 < cos (n3 (blk 1 (fun j => sqrt c * sq dc exq_P j k) 0))).
    { intros k Hk. destruct (exq_blocks k Hk) as [E|E].
      - rewrite E, n3_V0, cos_0. lra.
      - unfold n3. rewrite E, sqrt_1. apply cos_gt_0; pose proof PI2_1; unfold PI2 in *; lra. }
    pose proof (Hcos 0%nat ltac:(lia)) as C0. pose proof (Hcos 1%nat ltac:(lia)) as C1.
    pose proof (Hcos 2%nat ltac:(lia)) as C2. pose proof (Hcos 3%nat ltac:(lia)) as C3.
    change dc with 4%nat in C0, C1, C2, C3 |- *. simpl rsum. lra. }
  split; [exact exq_factor|]. split; [exact Hunit|]. split; [exact Hok|]. split; [exact Hres|].
  intros t Ht. cbn [fst snd].
  assert (Hc : 0 < c) by (rewrite exq_c; lra).
  assert (Hc0 : w_c w <> 0) by (fold c; lra).
  destruct (ut_weights_R_sums sq eg dc 1 2 0 ltac:(change dc with 4%nat; lia) Hc0) as [W1 W2]. fold w0 wi c in W1, W2.
  apply (oracle_centre_ok sq eg 1 1 0 1 d dc 4 p 4 eq_refl eq_refl eq_refl eq_refl eq_refl c exq_m exq_P exq_Am exq_b
           exq_r exq_r Hc Hunit M1 M2 M4 w0 wi W1 W2 ltac:(change dc with 4%nat; lia) Hres t Ht).
  assert (t = 0%nat) by lia. subst t.
  unfold mquat, qc, exq_r. rewrite qmul_1_l, qmul_1_r. unfold qraw, exq_m. simpl. reflexivity.
Qed.

Lemma quat_premises_example :
  (0 < dc)%nat /\ 0 < c /\
  quat_map_ok sq eg 1 1 1 d dc p exq_Am exq_b exq_J exq_r exq_r /\
  (forall mc, In mc [(exq_m, exq_P)] -> quat_comp_ok sq eg 1 1 0 1 d dc p c w0 wi exq_Am exq_b mc).
Proof.
  split; [change dc with 4%nat; lia|]. split; [rewrite exq_c; lra|]. split; [exact exq_map_ok|].
  intros mc [<-|[]]. exact exq_comp_ok.
Qed.
End Instance.
