(* Properties_C19.v — property C19: directional statistics respect the circle.
   Statements only; each is closed by a lemma of C19_Proofs.  The model
   functions (wrap, dir_add, dir_sub, dir_mean, mean_row, resultant of
   C19_Model) are the ones extracted and run against the library; here they are
   read at the Coq-reals instance ROps (C19_ROps), where atan2 is defined from
   atan by quadrant.  Matrices are lists of rows; all statements hold for every
   shape.  in_range x := -PI < x <= PI;  cong2pi x y := exists k:Z, y = x + 2 k PI. *)
Require Import ZArith Reals Lra List.
Require Import BFL.Ops BFL.C19_ROps BFL.C19_Model BFL.C19_Proofs.
Import ListNotations.
Local Open Scope R_scope.

(* ---- wrap = arg(exp(j x)) *)
Theorem C19_range x : - PI < wrap ROps x <= PI.
Proof. exact (wrap_range x). Qed.

Theorem C19_congruent x : exists k : Z, wrap ROps x = x + 2 * IZR k * PI.
Proof. exact (wrap_congruent x). Qed.

Theorem C19_shift_invariant x (k : Z) : wrap ROps (x + 2 * IZR k * PI) = wrap ROps x.
Proof. exact (wrap_shift x k). Qed.

(* values already in (-PI, PI] are returned unchanged; the half turn is +PI *)
Theorem C19_wrap_fixes_range x : - PI < x <= PI -> wrap ROps x = x.
Proof. exact (wrap_id x). Qed.

Theorem C19_boundary_convention : wrap ROps PI = PI /\ wrap ROps (- PI) = PI.
Proof. exact (conj wrap_PI wrap_mPI). Qed.

(* ---- directional_add / directional_sub on whole matrices *)
Theorem C19_add_range a b : Forall (Forall in_range) (dir_add ROps a b).
Proof. exact (add_range a b). Qed.

Theorem C19_add_congruent_to_sum a b :
  Forall2 (Forall2 cong2pi) (plain_add a b) (dir_add ROps a b).
Proof. exact (add_congruent a b). Qed.

Theorem C19_add_entry a b i j :
  (i < length a)%nat -> (i < length b)%nat -> (j < length (nth i a []))%nat ->
  nth j (nth i (dir_add ROps a b) []) 0 = wrap ROps (nth j (nth i a []) 0 + nth i b 0).
Proof. exact (add_entry a b i j). Qed.

Theorem C19_add_shape a b :
  length (dir_add ROps a b) = Nat.min (length a) (length b) /\
  forall i, (i < Nat.min (length a) (length b))%nat ->
    length (nth i (dir_add ROps a b) []) = length (nth i a []).
Proof. exact (add_shape a b). Qed.

(* unaffected by adding multiples of 2 PI to any entry of any argument *)
Theorem C19_add_shift_invariant a a' b b' :
  Forall2 (Forall2 cong2pi) a a' -> Forall2 cong2pi b b' -> dir_add ROps a' b' = dir_add ROps a b.
Proof. exact (add_shift_invariant a a' b b'). Qed.

Theorem C19_sub_is_add_of_opposite a b : dir_sub ROps a b = dir_add ROps a (map Ropp b).
Proof. reflexivity. Qed.

Theorem C19_sub_range a b : Forall (Forall in_range) (dir_sub ROps a b).
Proof. exact (sub_range a b). Qed.

Theorem C19_sub_congruent_to_difference a b :
  Forall2 (Forall2 cong2pi) (plain_sub a b) (dir_sub ROps a b).
Proof. exact (sub_congruent a b). Qed.

Theorem C19_sub_shift_invariant a a' b b' :
  Forall2 (Forall2 cong2pi) a a' -> Forall2 cong2pi b b' -> dir_sub ROps a' b' = dir_sub ROps a b.
Proof. exact (sub_shift_invariant a a' b b'). Qed.

(* ---- directional_mean *)
(* general branch (cols <> 1): entry i is the argument of the weighted resultant
   sum_k w_k (cos a_ik, sin a_ik) of row i *)
Theorem C19_mean_is_arg_of_resultant cols a w i : cols <> 1%nat -> (i < length a)%nat ->
  nth i (dir_mean ROps cols a w) 0 =
  atan2 (wsumf sin (nth i a []) w) (wsumf cos (nth i a []) w).
Proof. exact (mean_is_arg_of_resultant cols a w i). Qed.

(* the extracted spec-level function `resultant` is that pair of sums *)
Theorem C19_resultant_pinned row w : resultant ROps row w = (wsumf cos row w, wsumf sin row w).
Proof. exact (resultant_R row w). Qed.

Theorem C19_mean_length cols a w : length (dir_mean ROps cols a w) = length a.
Proof. exact (mean_length cols a w). Qed.

(* one-column branch, exactly as the code behaves: the column, wrapped, without looking at the weight *)
Theorem C19_mean_single_column a w : dir_mean ROps 1 a w = map (fun row => wrap ROps (nth 0 row 0)) a.
Proof. exact (mean_single_column a w). Qed.

Theorem C19_mean_shift cols a a' w : cols <> 1%nat -> Forall2 (Forall2 cong2pi) a a' ->
  dir_mean ROps cols a' w = dir_mean ROps cols a w.
Proof. exact (mean_shift_invariant cols a a' w). Qed.

(* the one-column branch is shift invariant as well *)
Theorem C19_mean_shift_single_column a a' w : Forall2 (Forall2 cong2pi) a a' ->
  dir_mean ROps 1 a' w = dir_mean ROps 1 a w.
Proof. exact (mean_single_column_shift a a' w). Qed.

(* common rotation d of all samples of a row with non-zero resultant *)
Theorem C19_mean_rotation row w d :
  (wsumf cos row w <> 0 \/ wsumf sin row w <> 0) ->
  exists k : Z, mean_row ROps (map (fun x => x + d) row) w = mean_row ROps row w + d + 2 * IZR k * PI.
Proof. exact (mean_row_rotation row w d). Qed.

(* all n samples equal to a, total weight of the first n weights positive:
   the general branch returns wrap a (= a when a is in (-PI, PI]) *)
Theorem C19_mean_all_equal a n w : 0 < wtot n w -> mean_row ROps (repeat a n) w = wrap ROps a.
Proof. exact (mean_row_all_equal a n w). Qed.

(* the same on a whole matrix whose row i holds cols copies of a_i *)
Theorem C19_mean_all_equal_matrix cols (al : list R) w : cols <> 1%nat -> 0 < wtot cols w ->
  dir_mean ROps cols (map (fun a => repeat a cols) al) w = map (wrap ROps) al.
Proof. exact (mean_all_equal_matrix cols al w). Qed.

Theorem C19_mean_all_equal_in_range a n w : 0 < wtot n w -> - PI < a <= PI ->
  mean_row ROps (repeat a n) w = a.
Proof. exact (mean_row_all_equal_in_range a n w). Qed.

(* one column, positive weight: the result is the argument of the resultant, i.e. wrap a *)
Theorem C19_mean_all_equal_single_column (a w : R) : 0 < w -> dir_mean ROps 1 [[a]] [w] = [mean_row ROps [a] [w]].
Proof. exact (single_column_positive a w). Qed.

(* positive weights, samples within an arc shorter than a half turn *)
Theorem C19_mean_in_arc row w lo hi :
  row <> [] -> length w = length row ->
  Forall (fun x => 0 < x) w -> Forall (fun a => lo <= a <= hi) row -> hi - lo < PI ->
  exists k : Z, lo <= mean_row ROps row w + 2 * IZR k * PI <= hi.
Proof. exact (mean_row_in_arc row w lo hi). Qed.

(* ---- the same three clauses on whole matrices (general branch, cols <> 1) *)
Theorem C19_mean_rotation_matrix cols a w d : cols <> 1%nat -> Forall (row_nonzero w) a ->
  Forall2 cong2pi (map (fun m => m + d) (dir_mean ROps cols a w))
                  (dir_mean ROps cols (map (map (fun x => x + d)) a) w).
Proof. exact (mean_rotation_matrix cols a w d). Qed.

(* arc_ok cols row (lo, hi): the row has cols entries, all in [lo, hi], hi - lo < PI *)
Theorem C19_mean_in_arc_matrix cols a w arcs : cols <> 1%nat -> length w = cols ->
  Forall (fun x => 0 < x) w -> Forall2 (arc_ok cols) a arcs ->
  Forall2 (fun m lh => exists k : Z, fst lh <= m + 2 * IZR k * PI <= snd lh) (dir_mean ROps cols a w) arcs.
Proof. exact (mean_in_arc_matrix cols a w arcs). Qed.

(* ---- a single column ignores its weight: a negative weight (outside the property's weight classes)
   turns the resultant by a half turn, the result does not move *)
Theorem C19_mean_single_column_weight_ignored_refuted :
  exists a w, w < 0 /\ ~ cong2pi (mean_row ROps [a] [w]) (nth 0 (dir_mean ROps 1 [[a]] [w]) 0).
Proof. exact single_column_weight_ignored_refuted. Qed.

(* non-vacuity *)
Example C19_in_arc_premises_satisfiable :
  let row := [1; 2; 3/2] in let w := [1/4; 1/4; 1/2] in
  row <> [] /\ length w = length row /\ Forall (fun x => 0 < x) w /\
  Forall (fun a => 1 <= a <= 2) row /\ 2 - 1 < PI.
Proof. exact in_arc_example_premises. Qed.

Example C19_wrap_concrete : wrap ROps (3 * PI) = PI /\ wrap ROps (PI / 2 + 2 * IZR (-5) * PI) = PI / 2.
Proof. exact wrap_concrete. Qed.

Print Assumptions C19_range.
Print Assumptions C19_congruent.
Print Assumptions C19_shift_invariant.
Print Assumptions C19_wrap_fixes_range.
Print Assumptions C19_boundary_convention.
Print Assumptions C19_add_range.
Print Assumptions C19_add_congruent_to_sum.
Print Assumptions C19_add_entry.
Print Assumptions C19_add_shape.
Print Assumptions C19_add_shift_invariant.
Print Assumptions C19_sub_is_add_of_opposite.
Print Assumptions C19_sub_range.
Print Assumptions C19_sub_congruent_to_difference.
Print Assumptions C19_sub_shift_invariant.
Print Assumptions C19_mean_is_arg_of_resultant.
Print Assumptions C19_resultant_pinned.
Print Assumptions C19_mean_length.
Print Assumptions C19_mean_single_column.
Print Assumptions C19_mean_shift.
Print Assumptions C19_mean_shift_single_column.
Print Assumptions C19_mean_rotation.
Print Assumptions C19_mean_all_equal.
Print Assumptions C19_mean_all_equal_matrix.
Print Assumptions C19_mean_all_equal_in_range.
Print Assumptions C19_mean_all_equal_single_column.
Print Assumptions C19_mean_in_arc.
Print Assumptions C19_mean_rotation_matrix.
Print Assumptions C19_mean_in_arc_matrix.
Print Assumptions C19_mean_single_column_weight_ignored_refuted.
