(* Properties_C03_Real.v — property C03 for layouts with circular rows, over Coq's reals.
   Statements only; each is closed by a lemma of C03_Euler.v / C03_Spread.v / C03_Quat.v / C03_QuatAlg.v.

   The model functions are the ones of C03_Model.v that are extracted and run (sigma_comp,
   sigma_points, ut_generic, ut_state, ut_additive_state, ut_meas, ut_additive_meas, offsets,
   out_mean ...), instantiated at the matrix instance RF sq eg of C03_RFun.v: scalars are Coq's R
   (C19's ROps: sqrt, sin, cos, atan2 defined from atan, ...), an m x n matrix is a function
   nat -> nat -> R read through its declared dimensions, sq / eg are the square-root and
   eigenvector oracles (universally quantified; the factor contract is a per-instance premise).
   Results are stated entry by entry (mget / colget of the model's outputs).

   Predicates used below (C03_Euler.v, C03_Spread.v):
     circ_row l c i            row i is one of the c circular rows that follow l linear rows
     factor_ok sq dc P         forall a b < dc, sum_k (sq dc P) a k * (sq dc P) b k = P a b
     small_spread ...          every sigma offset sqrt(c) A_jk on a circular input row and every
                               propagated offset sqrt(c) (Am A)_ik on a circular output row has
                               absolute value < PI (half turn), and every circular output row has a
                               positive weighted resultant w0 + 2 wi sum_k cos(sqrt(c) (Am A)_ik)
     small_cov ...             c P_jj < PI^2 on circular input rows; c (Am P Am^T)_ii < PI^2 and
                               (Am P Am^T)_ii < 2 on circular output rows
     mu d m Am b i             (Am m + b)_i              = sum_{j<d} Am i j * m j 0 + b i 0
     cov_image d P Am i j      (Am P Am^T)_ij            = sum_{a,b<d} Am i a * P a b * Am j b
     cross_image d P Am i j    (P Am^T)_ij               = sum_{b<d} P i b * Am j b
     euler_image ... N (m, P) u   the transformed component u has mean (Am m + b)_i on linear rows
                               and arg(exp(j (Am m + b)_i)) on circular rows, covariance
                               Am P Am^T + N and cross-covariance the non-noise rows of P Am^T
   and for quaternion layouts (C03_Quat.v, C03_QuatAlg.v; Q, V are C18's quaternion / vector records):
     qraw x o                  the quaternion in rows o .. o+3 of column x
     blk o e t                 the t-th rotation-vector block (e (o+3t), e (o+3t+1), e (o+3t+2)) of e
     rotv r v                  the vector v rotated by the unit quaternion r (vector part of r (0,v) conj r)
     ok_rv v                   v = 0, or 1e-4 < sin(|v|/2) and |v| < PI: the exp / log pair of the code
                               (with its 1e-4 cut-offs) reads v back exactly
     quat_map_ok               unit rl_t, rr_t; linear output rows do not read quaternion rows; the t-th
                               output quaternion of Am x + b is rl_t * (t-th input quaternion) * rr_t; J is
                               the matrix of the tangent map (Am on linear / noise columns for linear
                               rows, rotation by rl_t on the t-th rotation block)
     quat_comp_ok              factor_ok; unit mean quaternions; ok_rv of every rotation-vector block of
                               every sigma offset; positive weighted resultant w0 + 2 wi sum_k cos |block_k|
                               per block; eigen-solver contract (max_eig_contract of C18: unit eigenvector of
                               the largest eigenvalue) for the matrix the model hands to the oracle
     quat_image ... N (m, P) u mean (Am m + b)_i on linear rows and +- rl_t q_t rr_t on quaternion blocks
                               (the same rotation), covariance J P J^T + N, cross-covariance = the
                               non-noise rows of P J^T
   Axioms: the four standard axioms of Coq's Reals, nothing else. *)
Require Import ZArith Reals Lra Lia List Bool Arith.
Require Import BFL.Ops BFL.C03_Model BFL.C19_ROps BFL.C19_Model BFL.C19_Proofs BFL.C03_Real.
Require Import BFL.C03_RFun BFL.C03_Euler BFL.C03_Spread.
Require Import BFL.C18_Model BFL.C18_Proofs BFL.C03_QuatAlg BFL.C03_Quat BFL.C03_QuatEx BFL.C03_QuatSpread.
Import ListNotations.
Local Open Scope R_scope.

Section C03Euler.
Variables sq eg : nat -> fmx -> fmx.
Notation O := (RF sq eg).
(* input layout: lin linear rows, circ Euler angles, noise appended noise rows;
   output layout: olin linear rows, ocirc Euler angles *)
Variables lin circ noise olin ocirc : nat.
Let Lin := mkLayout lin circ false noise.
Let Lout := mkLayout olin ocirc false 0.
Let d := l_dim Lin.
Let dc := l_dcov Lin.
Let dx := l_dx Lin.
Let p := l_dim Lout.
Let pc := l_dcov Lout.
Variables alpha beta kappa : R.
Let w := ut_weights (O:=O) dc alpha beta kappa.
Let c := w_c w.
Let w0 := nth 0 (w_mean w) 0.
Let w0c := nth 0 (w_cov w) 0.
Let wi := nth 1 (w_mean w) 0.

(* Moments preserved, one component (m, P) of a layout with Euler rows and noise rows, n + lambda > 0,
   sigma offsets on the circular rows within a half turn: 2 dc + 1 sigma points; each is the mean (+) its
   tangent offset e (0, +sqrt(c) A_.k, -sqrt(c) A_.k): plain sum on linear and noise rows,
   arg(exp(j (e_j + m_j))) on circular rows, and the code's own difference operator (offsets) reads e
   back on the non-noise rows; the first sigma point is the mean (modulo 2 pi on circular rows); under the
   mean weights the offsets average to zero (the weighted mean in the chart at m is m), under the
   covariance weights their second moment is P. *)
Theorem C03_euler_sigma_moments (m P : fmx) :
  (0 < dc)%nat -> 0 < c -> factor_ok sq dc P ->
  (forall j k, circ_row lin circ j = true -> (k < dc)%nat -> Rabs (sqrt c * sq dc P j k) < PI) ->
  let Xs := sigma_comp (O:=O) Lin d dc c m P in
  let E := tangent_offsets sq dc c P in
  length Xs = (2 * dc + 1)%nat /\
  Forall2 (fun e x => is_sigma lin circ d m e x /\
                      forall i, (i < dx)%nat -> offsets (O:=O) Lin (p:=d) dx x m i 0%nat = e i) E Xs /\
  (forall x0 j, (j < d)%nat ->
     nth 0 Xs x0 j 0%nat = if circ_row lin circ j then C19_Model.wrap ROps (m j 0%nat) else m j 0%nat) /\
  (forall j, lsumR (fun q => fst q * (m j 0%nat + snd q j)) (combine (w0 :: repeat wi (2 * dc)) E) = m j 0%nat) /\
  (forall i j, (i < dc)%nat -> (j < dc)%nat ->
     lsumR (fun q => fst q * (snd q i * snd q j)) (combine (w0c :: repeat wi (2 * dc)) E) = P i j).
Proof. exact (euler_sigma_moments_main sq eg lin circ noise alpha beta kappa m P). Qed.

Variables Am b : fmx.
Variable comps : list (fmx * fmx).
Let k := length comps.
Let X := sigma_points (O:=O) Lin d dc c comps.
Let r := ut_core (O:=O) Lin Lout (d:=d) (dc:=dc) (p:=p) pc dx w comps X (affine_cols (O:=O) (d:=d) (p:=p) Am b X).

(* Exactness on affine maps, whole mixture, all five overloads.  The map is x -> Am x + b column by
   column in storage coordinates (affine_cols, the function the correspondence harness runs), where a
   linear output row does not read circular input rows and a circular output row reads circular input
   rows with integer coefficients (a rotation / offset of the circle; reals elsewhere).  Smallness is
   stated on the factor the oracle returned (small_spread). *)
Theorem C03_euler_affine_exact :
  (0 < dc)%nat -> 0 < c ->
  (forall i j, (i < olin)%nat -> circ_row lin circ j = true -> Am i j = 0) ->
  (forall i j, circ_row olin ocirc i = true -> circ_row lin circ j = true -> exists z : Z, Am i j = IZR z) ->
  (forall mc, In mc comps -> factor_ok sq dc (snd mc)) ->
  (forall mc, In mc comps -> small_spread sq lin circ olin ocirc d dc c w0 wi Am (snd mc)) ->
  ut_generic (O:=O) Lin Lout (d:=d) (dc:=dc) (p:=p) pc dx w comps
             (fun X => Some (affine_cols (O:=O) (d:=d) (p:=p) Am b X)) = Some r /\
  ut_meas (O:=O) Lin Lout (d:=d) (dc:=dc) (p:=p) pc dx w comps
          (fun X => Some (affine_cols (O:=O) (d:=d) (p:=p) Am b X)) = Some r /\
  ut_state (O:=O) Lin Lout (d:=d) (dc:=dc) (p:=p) pc dx w comps (affine_cols (O:=O) (d:=d) (p:=p) Am b) = r /\
  (forall N, ut_additive_state (O:=O) Lin Lout (d:=d) (dc:=dc) (p:=p) pc dx w comps
               (affine_cols (O:=O) (d:=d) (p:=p) Am b) N = add_noise_cov (O:=O) N r /\
             ut_additive_meas (O:=O) Lin Lout (d:=d) (dc:=dc) (p:=p) pc dx w comps
               (fun X => Some (affine_cols (O:=O) (d:=d) (p:=p) Am b X)) N = Some (add_noise_cov (O:=O) N r)) /\
  ur_weights r = repeat (1 / INR k) k /\ length (ur_comps r) = k /\
  (forall N, ur_weights (add_noise_cov (O:=O) N r) = repeat (1 / INR k) k /\
             length (ur_comps (add_noise_cov (O:=O) N r)) = k) /\
  (forall i u0 mc0, (i < k)%nat ->
     euler_image sq eg lin circ noise olin ocirc Am b (fun _ _ => 0) (nth i comps mc0) (nth i (ur_comps r) u0)) /\
  (forall N i u0 mc0, (i < k)%nat ->
     euler_image sq eg lin circ noise olin ocirc Am b N (nth i comps mc0)
                 (nth i (ur_comps (add_noise_cov (O:=O) N r)) u0)).
Proof. exact (euler_affine_exact sq eg lin circ noise olin ocirc alpha beta kappa Am b comps). Qed.

(* "spreads small enough" on the covariance alone implies the smallness of every factor with A A^T = P,
   including the positive resultant for a negative central weight *)
Theorem C03_euler_small_spread_from_covariance (P : fmx) :
  (0 < dc)%nat -> 0 < c -> factor_ok sq dc P ->
  small_cov lin circ olin ocirc d c Am P ->
  small_spread sq lin circ olin ocirc d dc c w0 wi Am P.
Proof. exact (small_spread_from_cov sq eg lin circ noise alpha beta kappa olin ocirc Am P). Qed.

(* the same exactness statement with the smallness premise on the covariances *)
Theorem C03_euler_affine_exact_small_cov :
  (0 < dc)%nat -> 0 < c ->
  (forall i j, (i < olin)%nat -> circ_row lin circ j = true -> Am i j = 0) ->
  (forall i j, circ_row olin ocirc i = true -> circ_row lin circ j = true -> exists z : Z, Am i j = IZR z) ->
  (forall mc, In mc comps -> factor_ok sq dc (snd mc)) ->
  (forall mc, In mc comps -> small_cov lin circ olin ocirc d c Am (snd mc)) ->
  ut_generic (O:=O) Lin Lout (d:=d) (dc:=dc) (p:=p) pc dx w comps
             (fun X => Some (affine_cols (O:=O) (d:=d) (p:=p) Am b X)) = Some r /\
  ut_meas (O:=O) Lin Lout (d:=d) (dc:=dc) (p:=p) pc dx w comps
          (fun X => Some (affine_cols (O:=O) (d:=d) (p:=p) Am b X)) = Some r /\
  ut_state (O:=O) Lin Lout (d:=d) (dc:=dc) (p:=p) pc dx w comps (affine_cols (O:=O) (d:=d) (p:=p) Am b) = r /\
  (forall N, ut_additive_state (O:=O) Lin Lout (d:=d) (dc:=dc) (p:=p) pc dx w comps
               (affine_cols (O:=O) (d:=d) (p:=p) Am b) N = add_noise_cov (O:=O) N r /\
             ut_additive_meas (O:=O) Lin Lout (d:=d) (dc:=dc) (p:=p) pc dx w comps
               (fun X => Some (affine_cols (O:=O) (d:=d) (p:=p) Am b X)) N = Some (add_noise_cov (O:=O) N r)) /\
  ur_weights r = repeat (1 / INR k) k /\ length (ur_comps r) = k /\
  (forall N, ur_weights (add_noise_cov (O:=O) N r) = repeat (1 / INR k) k /\
             length (ur_comps (add_noise_cov (O:=O) N r)) = k) /\
  (forall i u0 mc0, (i < k)%nat ->
     euler_image sq eg lin circ noise olin ocirc Am b (fun _ _ => 0) (nth i comps mc0) (nth i (ur_comps r) u0)) /\
  (forall N i u0 mc0, (i < k)%nat ->
     euler_image sq eg lin circ noise olin ocirc Am b N (nth i comps mc0)
                 (nth i (ur_comps (add_noise_cov (O:=O) N r)) u0)).
Proof. exact (euler_affine_exact_cov sq eg lin circ noise olin ocirc alpha beta kappa Am b comps). Qed.
End C03Euler.

(* what euler_image says, unfolded (so that the statement above can be read without C03_Euler.v) *)
Theorem C03_euler_image_meaning (sq eg : nat -> fmx -> fmx) (lin circ noise olin ocirc : nat) (Am b N : fmx)
        (mc : fmx * fmx) u :
  let Lin := mkLayout lin circ false noise in
  let Lout := mkLayout olin ocirc false 0 in
  let d := l_dim Lin in
  euler_image sq eg lin circ noise olin ocirc Am b N mc u <->
  (forall i, (i < l_dim Lout)%nat ->
     colget (O:=RF sq eg) (uc_mean u) i =
     if circ_row olin ocirc i
     then C19_Model.wrap ROps (rsum d (fun j => Am i j * fst mc j 0%nat) + b i 0%nat)
     else rsum d (fun j => Am i j * fst mc j 0%nat) + b i 0%nat) /\
  (forall i j, (i < l_dcov Lout)%nat -> (j < l_dcov Lout)%nat ->
     @mget (RF sq eg) (l_dcov Lout) (l_dcov Lout) (uc_cov u) i j =
     rsum d (fun a => rsum d (fun b' => Am i a * snd mc a b' * Am j b')) + N i j) /\
  (forall i j, (i < l_dx Lin)%nat -> (j < l_dcov Lout)%nat ->
     @mget (RF sq eg) (l_dx Lin) (l_dcov Lout) (uc_cross u) i j = rsum d (fun b' => snd mc i b' * Am j b')).
Proof. intros Lin Lout d. reflexivity. Qed.

(* non-vacuity: the premises of C03_euler_affine_exact_small_cov hold for a concrete instance
   (1 linear row, 1 Euler angle, 1 noise row; alpha = 1, kappa = 0, c = 3; P = I / 4 with its diagonal
   factor; y_lin = 2 x_lin + x_noise + b_0, y_circ = x_lin / 2 + x_circ + x_noise / 3 + b_1) *)
Example C03_euler_premises (eg : nat -> fmx -> fmx) (m b : fmx) :
  let Lin := mkLayout 1 1 false 1 in
  let dc := l_dcov Lin in
  let w := ut_weights (O:=RF ex_sq eg) dc 1 2 0 in
  (0 < dc)%nat /\ 0 < w_c w /\
  (forall i j, (i < 1)%nat -> circ_row 1 1 j = true -> ex_Am i j = 0) /\
  (forall i j, circ_row 1 1 i = true -> circ_row 1 1 j = true -> exists z : Z, ex_Am i j = IZR z) /\
  (forall mc, In mc [(m, ex_P)] -> factor_ok ex_sq dc (snd mc)) /\
  (forall mc, In mc [(m, ex_P)] -> small_cov 1 1 1 1 (l_dim Lin) (w_c w) ex_Am (snd mc)).
Proof. exact (euler_premises_example eg m b). Qed.

(* ------------------------------------------------------------------ quaternion layouts *)
Section C03Quat.
Variables sq eg : nat -> fmx -> fmx.
Notation O := (RF sq eg).
(* input: lin linear rows, circ quaternions, noise rows; output: olin linear rows, circ quaternions *)
Variables lin circ noise olin : nat.
Let Lin := mkLayout lin circ true noise.
Let Lout := mkLayout olin circ true 0.
Let d := l_dim Lin.
Let dc := l_dcov Lin.
Let dx := l_dx Lin.
Let p := l_dim Lout.
Let pc := l_dcov Lout.
Variables alpha beta kappa : R.
Let w := ut_weights (O:=O) dc alpha beta kappa.
Let c := w_c w.
Let w0 := nth 0 (w_mean w) 0.
Let wi := nth 1 (w_mean w) 0.
Variables Am b J : fmx.
Variables rl rr : nat -> Q.
Variable comps : list (fmx * fmx).
Let k := length comps.
Let X := sigma_points (O:=O) Lin d dc c comps.
Let r := ut_core (O:=O) Lin Lout (d:=d) (dc:=dc) (p:=p) pc dx w comps X (affine_cols (O:=O) (d:=d) (p:=p) Am b X).

(* Exactness on affine maps for layouts with quaternion blocks, whole mixture, all five overloads: the
   map acts as x -> A x + b on the linear rows and as a rotation (unit quaternions on either side) on
   the quaternion blocks; covariances in the rotation-vector tangent space; the mean quaternion up to
   sign.  Smallness and the oracle contracts are per-component premises (quat_comp_ok). *)
Theorem C03_quat_affine_exact :
  (0 < dc)%nat -> 0 < c ->
  quat_map_ok sq eg lin circ olin d dc p Am b J rl rr ->
  (forall mc, In mc comps -> quat_comp_ok sq eg lin circ noise olin d dc p c w0 wi Am b mc) ->
  ut_generic (O:=O) Lin Lout (d:=d) (dc:=dc) (p:=p) pc dx w comps
             (fun X => Some (affine_cols (O:=O) (d:=d) (p:=p) Am b X)) = Some r /\
  ut_meas (O:=O) Lin Lout (d:=d) (dc:=dc) (p:=p) pc dx w comps
          (fun X => Some (affine_cols (O:=O) (d:=d) (p:=p) Am b X)) = Some r /\
  ut_state (O:=O) Lin Lout (d:=d) (dc:=dc) (p:=p) pc dx w comps (affine_cols (O:=O) (d:=d) (p:=p) Am b) = r /\
  (forall N, ut_additive_state (O:=O) Lin Lout (d:=d) (dc:=dc) (p:=p) pc dx w comps
               (affine_cols (O:=O) (d:=d) (p:=p) Am b) N = add_noise_cov (O:=O) N r /\
             ut_additive_meas (O:=O) Lin Lout (d:=d) (dc:=dc) (p:=p) pc dx w comps
               (fun X => Some (affine_cols (O:=O) (d:=d) (p:=p) Am b X)) N = Some (add_noise_cov (O:=O) N r)) /\
  ur_weights r = repeat (1 / INR k) k /\ length (ur_comps r) = k /\
  (forall N, ur_weights (add_noise_cov (O:=O) N r) = repeat (1 / INR k) k /\
             length (ur_comps (add_noise_cov (O:=O) N r)) = k) /\
  (forall i u0 mc0, (i < k)%nat ->
     quat_image sq eg lin circ noise olin Am b J rl rr (fun _ _ => 0) (nth i comps mc0) (nth i (ur_comps r) u0)) /\
  (forall N i u0 mc0, (i < k)%nat ->
     quat_image sq eg lin circ noise olin Am b J rl rr N (nth i comps mc0)
                (nth i (ur_comps (add_noise_cov (O:=O) N r)) u0)).
Proof. exact (quat_affine_exact sq eg lin circ noise olin alpha beta kappa Am b J rl rr comps). Qed.
End C03Quat.

(* what quat_image says, unfolded *)
Theorem C03_quat_image_meaning (sq eg : nat -> fmx -> fmx) (lin circ noise olin : nat) (Am b J N : fmx)
        (rl rr : nat -> Q) (mc : fmx * fmx) u :
  let Lin := mkLayout lin circ true noise in
  let Lout := mkLayout olin circ true 0 in
  quat_image sq eg lin circ noise olin Am b J rl rr N mc u <->
  (forall i, (i < olin)%nat ->
     colget (O:=RF sq eg) (r:=l_dim Lout) (uc_mean u) i =
     rsum (l_dim Lin) (fun j => Am i j * fst mc j 0%nat) + b i 0%nat) /\
  (forall t, (t < circ)%nat ->
     let q := C18_Model.qmul ROps (C18_Model.qmul ROps (rl t) (qraw (fst mc) (lin + t * 4))) (rr t) in
     qraw (uc_mean u) (olin + t * 4) = q \/ qraw (uc_mean u) (olin + t * 4) = qneg q) /\
  (forall i j, (i < l_dcov Lout)%nat -> (j < l_dcov Lout)%nat ->
     @mget (RF sq eg) (l_dcov Lout) (l_dcov Lout) (uc_cov u) i j =
     rsum (l_dcov Lin) (fun a => rsum (l_dcov Lin) (fun b' => J i a * snd mc a b' * J j b')) + N i j) /\
  (forall i j, (i < l_dx Lin)%nat -> (j < l_dcov Lout)%nat ->
     @mget (RF sq eg) (l_dx Lin) (l_dcov Lout) (uc_cross u) i j =
     rsum (l_dcov Lin) (fun b' => snd mc i b' * J j b')).
Proof. intros Lin Lout. reflexivity. Qed.

(* The mean quaternion of a symmetric sigma set, also for a NEGATIVE central weight (this closes what C18's
   mean clause left open, where the eigen-gap was derived for w0 >= 0 only): with equal positive weights
   ws on the pairs a_k qc, conj(a_k) qc around the unit centre qc and a positive weighted resultant
   (2 vcoef < w0 + 2 sym_coef, i.e. 0 < w0 + 2 sum_k w_k (2 qw(a_k)^2 - |a_k|^2)), any vector that meets the
   eigen-solver contract for the second-moment matrix sum w q q^T is +- the centre, and the centre itself
   meets that contract. *)
Theorem C03_symmetric_mean_any_central_weight (A : mat4 ROps) (qc m : Q) (w0 : R) (ws : list R) (al : list Q) :
  qnorm2 qc = 1 -> length ws = length al -> Forall (fun w => 0 < w) ws ->
  2 * vcoef ws al < w0 + 2 * sym_coef ws al ->
  (forall i j, (i < 4)%nat -> (j < 4)%nat -> A i j = outer_sum ROps (sym_weights w0 ws) (sym_quats qc al) i j) ->
  (max_eig_contract A m -> m = qc \/ m = qneg qc) /\
  max_eig_contract (outer_sum ROps (sym_weights w0 ws) (sym_quats qc al)) qc.
Proof.
  intros H1 H2 H3 H4 H5.
  exact (conj (centre_dominant A qc m w0 ws al H1 H2 H3 H4 H5) (centre_meets_contract qc w0 ws al H1 H2 H3 H4)).
Qed.

(* The upper half of quat_comp_ok's smallness on the covariance alone: with tr_t(P) the trace of the t-th
   rotation block of P, c tr_t(P) < PI^2 puts every rotation-vector block of every sigma offset strictly
   within a half turn and tr_t(P) < 2 makes the weighted resultant positive (also for negative w0), for
   every factor with A A^T = P.  The lower bound (a non-zero block must be outside the 1e-4 cut-off zone of
   the code's exp / log pair, rot_blocks_readable) cannot come from the covariance and stays on the factor. *)
Theorem C03_quat_spread_from_covariance (sq : nat -> fmx -> fmx) (lin circ dc : nat) (c w0 wi : R) (P : fmx) :
  (lin + circ * 3 <= dc)%nat -> 0 < c -> w0 + 2 * INR dc * wi = 1 -> 2 * wi * c = 1 -> factor_ok sq dc P ->
  (forall t, (t < circ)%nat -> c * rot_trace lin P t < PI * PI /\ rot_trace lin P t < 2) ->
  rot_blocks_readable sq lin circ dc c P ->
  (forall t k, (t < circ)%nat -> (k < dc)%nat -> ok_rv (blk lin (fun j => sqrt c * sq dc P j k) t)) /\
  (forall t, (t < circ)%nat ->
     0 < w0 + 2 * wi * rsum dc (fun k => cos (n3 (blk lin (fun j => sqrt c * sq dc P j k) t)))).
Proof. exact (rot_spread_from_cov sq lin circ dc c w0 wi P). Qed.

(* non-vacuity: the premises of C03_quat_affine_exact hold for a concrete instance (1 linear row, 1
   quaternion; alpha = 1, kappa = 0, c = 4; P = I / 4 with its diagonal factor; mean quaternion (1,0,0,0);
   y_lin = 2 x_lin + 1/2, y_quat = x_quat; the oracle returns (1,0,0,0), shown to meet its contract) *)
Example C03_quat_premises :
  let Lin := mkLayout 1 1 true 0 in
  let d := l_dim Lin in let dc := l_dcov Lin in let p := l_dim (mkLayout 1 1 true 0) in
  let w := ut_weights (O:=RF exq_sq exq_eg) dc 1 2 0 in
  let c := w_c w in let w0 := nth 0 (w_mean w) 0 in let wi := nth 1 (w_mean w) 0 in
  (0 < dc)%nat /\ 0 < c /\
  quat_map_ok exq_sq exq_eg 1 1 1 d dc p exq_Am exq_b exq_J exq_r exq_r /\
  (forall mc, In mc [(exq_m, exq_P)] -> quat_comp_ok exq_sq exq_eg 1 1 0 1 d dc p c w0 wi exq_Am exq_b mc).
Proof. exact quat_premises_example. Qed.

Print Assumptions C03_euler_sigma_moments.
Print Assumptions C03_euler_affine_exact.
Print Assumptions C03_euler_small_spread_from_covariance.
Print Assumptions C03_euler_affine_exact_small_cov.
Print Assumptions C03_euler_image_meaning.
Print Assumptions C03_quat_affine_exact.
Print Assumptions C03_quat_image_meaning.
Print Assumptions C03_symmetric_mean_any_central_weight.
Print Assumptions C03_quat_spread_from_covariance.
