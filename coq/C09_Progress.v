(* C09_Progress.v — progress: a pending reset / reboot is honoured by a NEW epoch
   (not by terminating, not by stalling).  Pure computation on the model: for every
   program point of the loop (all but: blocked in the wait, and the exit path), with reset_ up, teardown_ down, the thread
   left alone with run_condition() = true enters initialization_step() again (run_ up)
   or blocks waiting for run (run_ down, i.e. after a reboot) within 17 own moves,
   starting at most one further filtering step on the way. *)
Require Import List Bool Arith Lia.
Require Import BFL.C09_Model BFL.C09_Proofs.
Import ListNotations.

Fixpoint run_until_init (fuel : nat) (c : config) (k : nat) : config * nat :=
  match fuel with
  | 0 => (c, k)
  | S f =>
      match c_pc c with
      | PSleep => (c, k)
      | PInit => match step c (MThread true) with Some c' => (c', S k) | None => (c, k) end
      | _ => match step c (MThread true) with
             | Some c' => run_until_init f c' (S k)
             | None => (c, k)
             end
      end
  end.

(* every program point from which the thread is still going round the loop: everything except
   blocked in the wait (it needs a notify first) and the exit path *)
Definition in_loop (p : pc) : bool :=
  match p with
  | PSleep | PFinal | PDone | PExited => false
  | _ => true
  end.

Definition honour_bound : nat := 17.

Ltac strip l tr :=
  match l with
  | tr => constr:(@nil event)
  | ?e :: ?l' => let r := strip l' tr in constr:(e :: r)
  end.

Lemma reset_progress c :
  c_rst c = true -> c_td c = false -> c_mid c = false -> in_loop (c_pc c) = true ->
  exists c' k, run_until_init 20 c 0 = (c', k)
  /\ run_moves c (repeat (MThread true) k) = Some c' /\ k <= honour_bound
  /\ exists post, c_trace c' = post ++ c_trace c /\ count_steps post <= 1
     /\ ((c_pc c' = PInitBody /\ exists post', post = EInit :: post')
         \/ (c_run c = false /\ c_pc c' = PSleep /\ c_woken c' = false /\ count_init_step post <= 1))
     /\ (c_run c = true -> c_pc c' = PInitBody).
Proof.
  intros H1 H2 H3 L. destruct c as [p r s t n w d tr].
  cbv [c_rst c_td c_mid] in H1, H2, H3. subst s t d. cbv [c_pc] in L.
  destruct p; try discriminate L; destruct r.
  all: eexists; eexists; split; [vm_compute; reflexivity|].
  all: split; [vm_compute; reflexivity|].
  all: split; [unfold honour_bound; lia|].
  all: cbn [c_trace c_run c_pc c_woken].
  all: match goal with |- exists post, ?a = post ++ ?b /\ _ => let r := strip a b in exists r end.
  all: split; [reflexivity|]; split; [cbn; lia|].
  all: split; [|intros X; try discriminate X; reflexivity].
  all: first [ left; repeat split; eauto; fail | right; repeat split; cbn; auto; lia ].
Qed.

(* the premise [c_rst c = true] is what a pending reset/reboot means for a thread inside an epoch *)
Lemma pending_reset_flag c :
  reachable c -> pend (c_trace c) <> None -> inep (c_pc c) = true -> c_rst c = true.
Proof.
  intros R P E. pose proof (reachable_inv _ R) as (_ & _ & IP & _).
  destruct c as [p r s t n w d tr]. simpl in *.
  destruct (pend tr) as [k|]; [|congruence]. destruct IP as (_ & _ & X). auto.
Qed.
