(* Properties_C12.v — property C12: a correction that cannot use the measurement
   leaves the belief untouched.  Statements only; each is closed by a lemma of
   C12_Proofs / C12_ProofsKF / C12_ProofsSym.

   All statements hold for EVERY fault pattern (function site -> bool), every
   underlying measurement model (which may fail on its own), every belief,
   every previous content of the output object and of the members, and every
   choice of the numerical routines (the Section variables).  `r_out` is the
   WHOLE output object (means, covariances, weights, states, shape fields). *)
Require Import ZArith List Bool.
Require Import BFL.Ops BFL.Density BFL.C01_Model.
Require Import BFL.C12_Model BFL.C12_Proofs BFL.C12_Sym BFL.C12_ProofsSym BFL.C12_KFInst BFL.C12_ProofsKF.
Require BFL.C08_Model BFL.C12_GPFInst.
Require Import BFL.C12_Payload BFL.C12_Struct.
Import ListNotations.

Section C12.
Variables G St Y X YP NU RC PY PM PXY LK RNG GS : Type.
Notation mmodel := (mmodel Y X YP NU RC).

(* ---- numerical routines: arbitrary *)
Variable kf_px : G -> X.
Variable kf_upd : G -> NU -> RC -> G -> G * PY.
Variable kf_lik : NU -> PY -> LK.
Variable sigma_of : G -> X.
Variable ut_moments : G -> YP -> PM * PXY.
Variable pm_default : PM.
Variable pxy_empty : PXY.
Variable pm_add_noise : PM -> RC -> PM.
Variable ukf_augment : G -> RC -> G.
Variable pm_mean : PM -> YP.
Variable ukf_upd : G -> PM -> PXY -> NU -> G -> G.
Variable ukf_lik : NU -> PM -> LK.
Variable sukf_pred_mean : YP -> YP.
Variable sukf_upd : G -> X -> YP -> NU -> RC -> G -> G * YP.
Variable sukf_lik : NU -> YP -> RC -> LK.
Variable st_px : St -> X.
Variable gl_dens : NU -> RC -> LK.
Variable lk_zero1 : LK.
Variable boot_wupd : G -> LK -> G.
Variable gpf_sample : RNG -> G -> St -> St * RNG.
Variable gpf_wupd : pset G St -> LK -> pset G St -> G.
Variable sis_predict sis_correct : pset G St -> pset G St -> pset G St.
Variable sis_normalise sis_resample : pset G St -> pset G St.
Variable sis_degenerate : pset G St -> bool.

Notation KF := (kf_step kf_px kf_upd).
Notation UKF := (ukf_step sigma_of ut_moments pm_default pxy_empty pm_add_noise ukf_augment pm_mean ukf_upd).
Notation SUKF := (sukf_step sigma_of sukf_pred_mean sukf_upd).
Notation GL := (gl_likelihood st_px gl_dens).
Notation BOOT := (boot_step st_px gl_dens lk_zero1 boot_wupd).
Notation GPF := (gpf_step st_px gl_dens lk_zero1 gpf_sample gpf_wupd).
Notation LIK := (lik_eval st_px gl_dens lk_zero1).

(* ================= Kalman correction ================= *)
(* measure / predictedMeasure / innovation / getNoiseCovarianceMatrix: any subset failing *)
Theorem C12_kf_identity (p : pattern) (mm : mmodel) (pred out : G) st :
  fails_any p sites4 = true ->
  r_out (KF (inject p mm) pred out st) = pred /\ r_st (KF (inject p mm) pred out st) = mkKfSt None (kf_py st).
Proof. exact (kf_identity _ _ _ _ _ _ _ kf_px kf_upd p mm pred out st). Qed.

(* also when the sensor itself (no injected pattern) reports the failure -- premise only at the
   arguments of this very call (any value returned next to a false flag, e.g. an empty matrix, is covered) *)
Theorem C12_kf_identity_any_model (mm : mmodel) (pred out : G) st :
  (mm_measure mm = None \/ mm_predicted mm (kf_px pred) = None \/
   (forall y yp, mm_measure mm = Some y -> mm_predicted mm (kf_px pred) = Some yp -> mm_innovation mm yp y = None) \/
   fst (mm_noisecov mm) = false) ->
  r_out (KF mm pred out st) = pred /\ r_st (KF mm pred out st) = mkKfSt None (kf_py st).
Proof. exact (kf_identity_model _ _ _ _ _ _ _ kf_px kf_upd mm pred out st). Qed.

(* calls made: exactly the prefix up to the first failing call *)
Theorem C12_kf_call_log (p : pattern) (y : Y) (h : X -> YP) (inn : YP -> Y -> NU) (R : RC) (pred out : G) st :
  r_log (KF (inject p (total_mm y h inn R)) pred out st) = upto_first_failure p sites4.
Proof. exact (kf_log _ _ _ _ _ _ _ kf_px kf_upd p y h inn R pred out st). Qed.

Theorem C12_no_fault_kf (y : Y) (h : X -> YP) (inn : YP -> Y -> NU) (R : RC) (pred out : G) st :
  let nu := inn (h (kf_px pred)) y in
  KF (inject no_fault (total_mm y h inn R)) pred out st =
  mkRes (fst (kf_upd pred nu R out)) (mkKfSt (Some nu) (snd (kf_upd pred nu R out))) sites4.
Proof. exact (kf_no_fault _ _ _ _ _ _ _ kf_px kf_upd y h inn R pred out st). Qed.

(* getLikelihood after ANY correction that could not use the measurement reports failure,
   whatever preceded it (st arbitrary: in particular the members left by earlier successes) *)
Theorem C12_kf_likelihood_after_failure_reports_failure (p : pattern) (mm : mmodel) (pred out : G) st :
  fails_any p sites4 = true ->
  kf_get_lik kf_lik (r_st (KF (inject p mm) pred out st)) = None.
Proof. exact (kf_lik_after_failure_reports_failure _ _ _ _ _ _ _ _ kf_px kf_upd kf_lik p mm pred out st). Qed.

Theorem C12_kf_likelihood_after_failure_reports_failure_any_model (mm : mmodel) (pred out : G) st :
  (mm_measure mm = None \/ mm_predicted mm (kf_px pred) = None \/
   (forall y yp, mm_measure mm = Some y -> mm_predicted mm (kf_px pred) = Some yp -> mm_innovation mm yp y = None) \/
   fst (mm_noisecov mm) = false) ->
  kf_get_lik kf_lik (r_st (KF mm pred out st)) = None.
Proof. exact (kf_lik_after_failure_reports_failure_model _ _ _ _ _ _ _ _ kf_px kf_upd kf_lik mm pred out st). Qed.

Theorem C12_kf_likelihood_after_success (y : Y) (h : X -> YP) (inn : YP -> Y -> NU) (R : RC) (pred out : G) st :
  let nu := inn (h (kf_px pred)) y in
  kf_get_lik kf_lik (r_st (KF (inject no_fault (total_mm y h inn R)) pred out st)) =
  Some (kf_lik nu (snd (kf_upd pred nu R out))).
Proof. exact (kf_lik_after_success _ _ _ _ _ _ _ _ kf_px kf_upd kf_lik y h inn R pred out st). Qed.

(* ================= unscented correction, both constructors ================= *)
Theorem C12_ukf_identity (additive : bool) (p : pattern) (mm : mmodel) (pred out : G) st :
  fails_any p sites3 = true ->
  r_out (UKF additive (inject p mm) pred out st) = pred /\
  u_innov (r_st (UKF additive (inject p mm) pred out st)) = None.
Proof. exact (ukf_identity _ _ _ _ _ _ _ _ sigma_of ut_moments pm_default pxy_empty pm_add_noise ukf_augment pm_mean ukf_upd additive p mm pred out st). Qed.

Theorem C12_ukf_identity_any_model (additive : bool) (mm : mmodel) (pred out : G) st :
  let input := if additive then pred else ukf_augment pred (snd (mm_noisecov mm)) in
  let pm_of := fun yp => let pm := fst (ut_moments input yp) in
                         if additive then pm_add_noise pm (snd (mm_noisecov mm)) else pm in
  (mm_measure mm = None \/ mm_predicted mm (sigma_of input) = None \/
   (forall y yp, mm_measure mm = Some y -> mm_predicted mm (sigma_of input) = Some yp ->
                 mm_innovation mm (pm_mean (pm_of yp)) y = None)) ->
  r_out (UKF additive mm pred out st) = pred /\
  ukf_get_lik ukf_lik (r_st (UKF additive mm pred out st)) = None.
Proof. exact (ukf_identity_model _ _ _ _ _ _ _ _ _ sigma_of ut_moments pm_default pxy_empty pm_add_noise ukf_augment pm_mean ukf_upd ukf_lik additive mm pred out st). Qed.

(* the flag of getNoiseCovarianceMatrix is not consulted (the statement of C12 does not ask for it) *)
Theorem C12_ukf_noisecov_flag_ignored (additive : bool) (p : pattern) (mm : mmodel) (pred out : G) st :
  UKF additive (inject p mm) pred out st = UKF additive (inject (mask NoiseCov p) mm) pred out st.
Proof. exact (ukf_noisecov_flag_ignored _ _ _ _ _ _ _ _ sigma_of ut_moments pm_default pxy_empty pm_add_noise ukf_augment pm_mean ukf_upd additive p mm pred out st). Qed.

Theorem C12_ukf_generic_call_log (p : pattern) (y : Y) (h : X -> YP) (inn : YP -> Y -> NU) (R : RC) (pred out : G) st :
  r_log (UKF false (inject p (total_mm y h inn R)) pred out st) =
  upto_first_failure (mask NoiseCov p) [Measure; NoiseCov; Predicted; Innovation].
Proof. exact (ukf_generic_log _ _ _ _ _ _ _ _ sigma_of ut_moments pm_default pxy_empty pm_add_noise ukf_augment pm_mean ukf_upd p y h inn R pred out st). Qed.

(* additive transform: the prefix up to the first failing call as well (no call after a failed predictedMeasure) *)
Theorem C12_ukf_additive_call_log (p : pattern) (y : Y) (h : X -> YP) (inn : YP -> Y -> NU) (R : RC) (pred out : G) st :
  r_log (UKF true (inject p (total_mm y h inn R)) pred out st) =
  upto_first_failure (mask NoiseCov p) [Measure; Predicted; NoiseCov; Innovation].
Proof. exact (ukf_additive_log _ _ _ _ _ _ _ _ sigma_of ut_moments pm_default pxy_empty pm_add_noise ukf_augment pm_mean ukf_upd p y h inn R pred out st). Qed.

Theorem C12_no_fault_ukf (additive : bool) (y : Y) (h : X -> YP) (inn : YP -> Y -> NU) (R : RC) (pred out : G) st :
  let input := if additive then pred else ukf_augment pred R in
  let mo := ut_moments input (h (sigma_of input)) in
  let pm := if additive then pm_add_noise (fst mo) R else fst mo in
  let nu := inn (pm_mean pm) y in
  UKF additive (inject no_fault (total_mm y h inn R)) pred out st =
  mkRes (ukf_upd pred pm (snd mo) nu out) (mkUkfSt (Some nu) pm)
        (if additive then [Measure; Predicted; NoiseCov; Innovation] else [Measure; NoiseCov; Predicted; Innovation]).
Proof. exact (ukf_no_fault _ _ _ _ _ _ _ _ sigma_of ut_moments pm_default pxy_empty pm_add_noise ukf_augment pm_mean ukf_upd additive y h inn R pred out st). Qed.

(* members after a failed predictedMeasure: no innovations_, the default-constructed predicted_meas_ *)
Theorem C12_ukf_members_after_failed_prediction (additive : bool) (p : pattern) (y : Y) (h : X -> YP) (inn : YP -> Y -> NU) (R : RC) (pred out : G) st :
  p Measure = false -> p Predicted = true ->
  r_st (UKF additive (inject p (total_mm y h inn R)) pred out st) = mkUkfSt None pm_default.
Proof. exact (ukf_state_after_failure _ _ _ _ _ _ _ _ sigma_of ut_moments pm_default pxy_empty pm_add_noise ukf_augment pm_mean ukf_upd additive p y h inn R pred out st). Qed.

Theorem C12_ukf_likelihood_after_failure_reports_failure (additive : bool) (p : pattern) (mm : mmodel) (pred out : G) st :
  fails_any p sites3 = true ->
  ukf_get_lik ukf_lik (r_st (UKF additive (inject p mm) pred out st)) = None.
Proof. exact (ukf_lik_after_failure_reports_failure _ _ _ _ _ _ _ _ _ sigma_of ut_moments pm_default pxy_empty pm_add_noise ukf_augment pm_mean ukf_upd ukf_lik additive p mm pred out st). Qed.

(* ================= serial unscented correction ================= *)
Theorem C12_sukf_identity (sub_ok : bool) ncalls (p : pattern) (mm : mmodel) (pred out : G) st :
  fails_any p sites3 = true \/ sub_ok = false ->
  r_out (SUKF sub_ok ncalls (inject p mm) pred out st) = pred /\
  s_innov (r_st (SUKF sub_ok ncalls (inject p mm) pred out st)) = None.
Proof. exact (sukf_identity _ _ _ _ _ _ sigma_of sukf_pred_mean sukf_upd sub_ok ncalls p mm pred out st). Qed.

Theorem C12_sukf_identity_any_model (sub_ok : bool) ncalls lcalls (mm mm' : mmodel) (pred out : G) st :
  (mm_measure mm = None \/ sub_ok = false \/ mm_predicted mm (sigma_of pred) = None \/
   (forall y yp, mm_measure mm = Some y -> mm_predicted mm (sigma_of pred) = Some yp ->
                 mm_innovation mm (sukf_pred_mean yp) y = None)) ->
  r_out (SUKF sub_ok ncalls mm pred out st) = pred /\
  sukf_get_lik sukf_lik lcalls mm' (r_st (SUKF sub_ok ncalls mm pred out st)) = (None, []).
Proof. exact (sukf_identity_model _ _ _ _ _ _ _ sigma_of sukf_pred_mean sukf_upd sukf_lik sub_ok ncalls lcalls mm mm' pred out st). Qed.

Theorem C12_sukf_noisecov_flag_ignored sub_ok ncalls (p : pattern) (mm : mmodel) (pred out : G) st :
  SUKF sub_ok ncalls (inject p mm) pred out st = SUKF sub_ok ncalls (inject (mask NoiseCov p) mm) pred out st.
Proof. exact (sukf_noisecov_flag_ignored _ _ _ _ _ _ sigma_of sukf_pred_mean sukf_upd sub_ok ncalls p mm pred out st). Qed.

Theorem C12_sukf_call_log ncalls (p : pattern) (y : Y) (h : X -> YP) (inn : YP -> Y -> NU) (R : RC) (pred out : G) st :
  r_log (SUKF true ncalls (inject p (total_mm y h inn R)) pred out st) =
  if fails_any p sites3 then upto_first_failure p sites3 else sites3 ++ repeat NoiseCov ncalls.
Proof. exact (sukf_log _ _ _ _ _ _ sigma_of sukf_pred_mean sukf_upd ncalls p y h inn R pred out st). Qed.

Theorem C12_sukf_size_mismatch_call_log ncalls (p : pattern) (mm : mmodel) (pred out : G) st :
  r_log (SUKF false ncalls (inject p mm) pred out st) = [Measure].
Proof. exact (sukf_size_mismatch_log _ _ _ _ _ _ sigma_of sukf_pred_mean sukf_upd ncalls p mm pred out st). Qed.

Theorem C12_no_fault_sukf ncalls (y : Y) (h : X -> YP) (inn : YP -> Y -> NU) (R : RC) (pred out : G) st :
  let yp := h (sigma_of pred) in
  let nu := inn (sukf_pred_mean yp) y in
  let r := sukf_upd pred (sigma_of pred) yp nu R out in
  SUKF true ncalls (inject no_fault (total_mm y h inn R)) pred out st =
  mkRes (fst r) (mkSukfSt (Some nu) (Some (snd r))) (sites3 ++ repeat NoiseCov ncalls).
Proof. exact (sukf_no_fault _ _ _ _ _ _ sigma_of sukf_pred_mean sukf_upd ncalls y h inn R pred out st). Qed.

Theorem C12_sukf_members_after_failed_innovation ncalls (p : pattern) (y : Y) (h : X -> YP) (inn : YP -> Y -> NU) (R : RC) (pred out : G) st :
  p Measure = false -> p Predicted = false -> p Innovation = true ->
  r_st (SUKF true ncalls (inject p (total_mm y h inn R)) pred out st) = mkSukfSt None (Some (h (sigma_of pred))).
Proof. exact (sukf_state_after_innovation_failure _ _ _ _ _ _ sigma_of sukf_pred_mean sukf_upd ncalls p y h inn R pred out st). Qed.

(* no value and no call into the measurement model *)
Theorem C12_sukf_likelihood_after_failure_reports_failure sub_ok ncalls lcalls (p : pattern) (mm mm' : mmodel) (pred out : G) st :
  fails_any p sites3 = true \/ sub_ok = false ->
  sukf_get_lik sukf_lik lcalls mm' (r_st (SUKF sub_ok ncalls (inject p mm) pred out st)) = (None, []).
Proof. exact (sukf_lik_after_failure_reports_failure _ _ _ _ _ _ _ sigma_of sukf_pred_mean sukf_upd sukf_lik sub_ok ncalls lcalls p mm mm' pred out st). Qed.

(* ================= Gaussian likelihood ================= *)
Theorem C12_likelihood_reports_failure (p : pattern) (mm : mmodel) (s : St) :
  fails_any p sites4 = true ->
  fst (GL (inject p mm) s) = None /\ lik_pair lk_zero1 (fst (GL (inject p mm) s)) = (false, lk_zero1).
Proof. exact (gl_reports_failure _ _ _ _ _ _ _ st_px gl_dens lk_zero1 p mm s). Qed.

Theorem C12_likelihood_reports_failure_any_model (mm : mmodel) (s : St) :
  (mm_measure mm = None \/ mm_predicted mm (st_px s) = None \/
   (forall y yp, mm_measure mm = Some y -> mm_predicted mm (st_px s) = Some yp -> mm_innovation mm yp y = None) \/
   fst (mm_noisecov mm) = false) ->
  fst (GL mm s) = None.
Proof. exact (gl_reports_failure_pointwise _ _ _ _ _ _ _ st_px gl_dens mm s). Qed.

Theorem C12_likelihood_value_only_if_all_calls_succeed (p : pattern) (mm : mmodel) (s : St) lk :
  fst (GL (inject p mm) s) = Some lk -> fails_any p sites4 = false.
Proof. exact (gl_value_only_if_all_ok _ _ _ _ _ _ _ st_px gl_dens lk_zero1 p mm s lk). Qed.

Theorem C12_likelihood_call_log (p : pattern) (y : Y) (h : X -> YP) (inn : YP -> Y -> NU) (R : RC) (s : St) :
  snd (GL (inject p (total_mm y h inn R)) s) = upto_first_failure p sites4.
Proof. exact (gl_log _ _ _ _ _ _ _ st_px gl_dens p y h inn R s). Qed.

Theorem C12_no_fault_likelihood (y : Y) (h : X -> YP) (inn : YP -> Y -> NU) (R : RC) (s : St) :
  GL (inject no_fault (total_mm y h inn R)) s = (Some (gl_dens (inn (h (st_px s)) y) R), sites4).
Proof. exact (gl_no_fault _ _ _ _ _ _ _ st_px gl_dens y h inn R s). Qed.

(* ================= bootstrap correction ================= *)
(* lm: the shipped Gaussian likelihood (fails with any of the four calls) or a
   user-supplied model (its own flag, its own vector) *)
Theorem C12_bootstrap_identity (lm : likmodel St LK) (p : pattern) (mm : mmodel) (pred out : pset G St) st :
  lik_fails _ _ lm p = true ->
  r_out (BOOT (inject_lik lk_zero1 p lm) (inject p mm) pred out st) = pred /\
  pf_get_lik (r_st (BOOT (inject_lik lk_zero1 p lm) (inject p mm) pred out st)) = (false, lk_zero1).
Proof. exact (boot_identity _ _ _ _ _ _ _ _ st_px gl_dens lk_zero1 boot_wupd lm p mm pred out st). Qed.

(* any likelihood model and sensor: failure of the likelihood call at the predicted states *)
Theorem C12_bootstrap_identity_any_model (lm : likmodel St LK) (mm : mmodel) (pred out : pset G St) st :
  fst (fst (LIK lm mm (snd pred))) = false ->
  r_out (BOOT lm mm pred out st) = pred /\
  pf_get_lik (r_st (BOOT lm mm pred out st)) = fst (LIK lm mm (snd pred)).
Proof. exact (boot_identity_model _ _ _ _ _ _ _ _ st_px gl_dens lk_zero1 boot_wupd lm mm pred out st). Qed.

Theorem C12_bootstrap_identity_iff (lm : likmodel St LK) (mm : mmodel) (pred out : pset G St) st :
  r_out (BOOT lm mm pred out st) = pred <->
  (fst (fst (LIK lm mm (snd pred))) = false \/ boot_wupd (fst pred) (snd (fst (LIK lm mm (snd pred)))) = fst pred).
Proof. exact (boot_identity_iff _ _ _ _ _ _ _ _ st_px gl_dens lk_zero1 boot_wupd lm mm pred out st). Qed.

Theorem C12_bootstrap_likelihood_never_stale (lm : likmodel St LK) (mm : mmodel) (pred out : pset G St) st st' :
  r_st (BOOT lm mm pred out st) = r_st (BOOT lm mm pred out st').
Proof. exact (boot_state_fresh _ _ _ _ _ _ _ _ st_px gl_dens lk_zero1 boot_wupd lm mm pred out st st'). Qed.

Theorem C12_bootstrap_call_log (lm : likmodel St LK) (p : pattern) (y : Y) (h : X -> YP) (inn : YP -> Y -> NU) (R : RC) (pred out : pset G St) st :
  r_log (BOOT (inject_lik lk_zero1 p lm) (inject p (total_mm y h inn R)) pred out st) =
  match lm with LGauss => upto_first_failure p sites4 | LCustom _ => [Likelihood] end.
Proof. exact (boot_log _ _ _ _ _ _ _ _ st_px gl_dens lk_zero1 boot_wupd lm p y h inn R pred out st). Qed.

Theorem C12_no_fault_bootstrap (y : Y) (h : X -> YP) (inn : YP -> Y -> NU) (R : RC) (pred out : pset G St) st :
  let lk := gl_dens (inn (h (st_px (snd pred))) y) R in
  BOOT LGauss (inject no_fault (total_mm y h inn R)) pred out st =
  mkRes (boot_wupd (fst pred) lk, snd pred) (mkPfSt true lk) sites4.
Proof. exact (boot_no_fault_gauss _ _ _ _ _ _ _ _ st_px gl_dens lk_zero1 boot_wupd y h inn R pred out st). Qed.

(* ================= Gaussian particle correction ================= *)
(* gc: ANY wrapped Gaussian correction.  An invalid likelihood restores the whole predicted set
   (mixture part and states), whatever gc and the sampling have written meanwhile. *)
Theorem C12_gpf_identity (gc : G -> G -> GS -> result G GS) (lm : likmodel St LK) (p : pattern) (mm : mmodel)
        (pred out : pset G St) st :
  lik_fails _ _ lm p = true ->
  r_out (GPF gc (inject_lik lk_zero1 p lm) (inject p mm) pred out st) = pred /\
  pf_get_lik (g_pf (r_st (GPF gc (inject_lik lk_zero1 p lm) (inject p mm) pred out st))) = (false, lk_zero1).
Proof. exact (gpf_identity _ _ _ _ _ _ _ _ _ st_px gl_dens lk_zero1 _ gpf_sample gpf_wupd gc lm p mm pred out st). Qed.

Theorem C12_gpf_identity_any_model (gc : G -> G -> GS -> result G GS) (lm : likmodel St LK) (mm : mmodel)
        (pred out : pset G St) st :
  let states := gpf_states _ _ _ _ _ gpf_sample gc pred out st in
  fst (fst (LIK lm mm states)) = false ->
  r_out (GPF gc lm mm pred out st) = pred /\
  pf_get_lik (g_pf (r_st (GPF gc lm mm pred out st))) = fst (LIK lm mm states).
Proof. exact (gpf_identity_model _ _ _ _ _ _ _ _ _ st_px gl_dens lk_zero1 _ gpf_sample gpf_wupd gc lm mm pred out st). Qed.

(* POSITIVE characterisation, for every wrapped correction, likelihood model and sensor: the output is
   the predicted set exactly when the likelihood fails (or the full update reproduces the predicted set) *)
Theorem C12_gpf_identity_iff (gc : G -> G -> GS -> result G GS) (lm : likmodel St LK) (mm : mmodel)
        (pred out : pset G St) st :
  let states := gpf_states _ _ _ _ _ gpf_sample gc pred out st in
  let vl := fst (LIK lm mm states) in
  let corr := (r_out (gc (fst pred) (fst out) (g_inner st)), states) in
  r_out (GPF gc lm mm pred out st) = pred <->
  (fst vl = false \/ (gpf_wupd pred (snd vl) corr, states) = pred).
Proof. exact (gpf_identity_iff _ _ _ _ _ _ _ _ _ st_px gl_dens lk_zero1 _ gpf_sample gpf_wupd gc lm mm pred out st). Qed.

(* ... but the failed step has run the wrapped correction and consumed random numbers *)
Theorem C12_gpf_failed_step_side_effects (gc : G -> G -> GS -> result G GS) (lm : likmodel St LK) (mm : mmodel)
        (pred out : pset G St) st :
  let r := gc (fst pred) (fst out) (g_inner st) in
  g_rng (r_st (GPF gc lm mm pred out st)) = snd (gpf_sample (g_rng st) (r_out r) (snd out)) /\
  g_inner (r_st (GPF gc lm mm pred out st)) = r_st r.
Proof. exact (gpf_failed_step_side_effects _ _ _ _ _ _ _ _ _ st_px gl_dens lk_zero1 _ gpf_sample gpf_wupd gc lm mm pred out st). Qed.

(* KNOWN FINDING, explicit premise: the wrapped correction could not use the measurement (it returned the
   predicted mixture), the likelihood model reports a value: the set is re-sampled around the PREDICTED
   moments and re-weighted -- exactly this and nothing else *)
Theorem C12_gpf_inner_failure_not_detected (gc : G -> G -> GS -> result G GS) (lm : likmodel St LK) (mm : mmodel)
        (pred out : pset G St) st lk :
  r_out (gc (fst pred) (fst out) (g_inner st)) = fst pred ->
  let states := fst (gpf_sample (g_rng st) (fst pred) (snd out)) in
  fst (LIK lm mm states) = (true, lk) ->
  r_out (GPF gc lm mm pred out st) = (gpf_wupd pred lk (fst pred, states), states).
Proof. exact (gpf_inner_failure_not_detected _ _ _ _ _ _ _ _ _ st_px gl_dens lk_zero1 _ gpf_sample gpf_wupd gc lm mm pred out st lk). Qed.

(* correct(p, p): one object as predicted and corrected set.  With an invalid likelihood and a wrapped
   correction that returns its input, the object handed back carries re-drawn states *)
Theorem C12_gpf_aliased_failure_redraws (gc : G -> G -> GS -> result G GS) (lm : likmodel St LK) (mm : mmodel)
        (pred : pset G St) st :
  r_out (gc (fst pred) (fst pred) (g_inner st)) = fst pred ->
  let states := fst (gpf_sample (g_rng st) (fst pred) (snd pred)) in
  fst (fst (LIK lm mm states)) = false ->
  r_out (gpf_step_aliased st_px gl_dens lk_zero1 gpf_sample gpf_wupd gc lm mm pred st) = (fst pred, states).
Proof. exact (gpf_aliased_failure_redraws _ _ _ _ _ _ _ _ _ st_px gl_dens lk_zero1 _ gpf_sample gpf_wupd gc lm mm pred st). Qed.

Theorem C12_gpf_call_log (gc : G -> G -> GS -> result G GS) (lm : likmodel St LK) (p : pattern) (y : Y) (h : X -> YP) (inn : YP -> Y -> NU) (R : RC) (pred out : pset G St) st :
  r_log (GPF gc (inject_lik lk_zero1 p lm) (inject p (total_mm y h inn R)) pred out st) =
  r_log (gc (fst pred) (fst out) (g_inner st)) ++
  match lm with LGauss => upto_first_failure p sites4 | LCustom _ => [Likelihood] end.
Proof. exact (gpf_log _ _ _ _ _ _ _ _ _ st_px gl_dens lk_zero1 _ gpf_sample gpf_wupd gc lm p y h inn R pred out st). Qed.

Theorem C12_no_fault_gpf (gc : G -> G -> GS -> result G GS) (y : Y) (h : X -> YP) (inn : YP -> Y -> NU) (R : RC) (pred out : pset G St) st :
  let r := gc (fst pred) (fst out) (g_inner st) in
  let sr := gpf_sample (g_rng st) (r_out r) (snd out) in
  let lk := gl_dens (inn (h (st_px (fst sr))) y) R in
  GPF gc LGauss (inject no_fault (total_mm y h inn R)) pred out st =
  mkRes (gpf_wupd pred lk (r_out r, fst sr), fst sr) (mkGpfSt (mkPfSt true lk) (r_st r) (snd sr)) (r_log r ++ sites4).
Proof. exact (gpf_no_fault_gauss _ _ _ _ _ _ _ _ _ st_px gl_dens lk_zero1 _ gpf_sample gpf_wupd gc y h inn R pred out st). Qed.

(* ================= SIS ================= *)
Theorem C12_sis_skips_correction (p : pattern) (mm : mmodel) step (pc : pset G St * pset G St) :
  p Freeze = true ->
  let fr := mm_freeze (inject p mm) in
  let '(pred, cor, log) := sis_step sis_predict sis_correct sis_normalise sis_degenerate sis_resample fr step pc in
  ~ In EvCorrect log /\ ~ In EvNormalise log /\
  sis_cor_at_log sis_predict sis_correct sis_normalise fr step pc = pred /\
  (sis_degenerate pred = false -> cor = pred).
Proof. exact (sis_skips_correction _ _ _ _ _ _ _ sis_predict sis_correct sis_normalise sis_degenerate sis_resample p mm step pc). Qed.

Theorem C12_no_fault_sis (mm : mmodel) step (pc : pset G St * pset G St) :
  mm_freeze mm = true ->
  sis_cor_at_log sis_predict sis_correct sis_normalise (mm_freeze (inject no_fault mm)) step pc =
  let pred := if Nat.eqb step 0 then fst pc else sis_predict (snd pc) (fst pc) in
  sis_normalise (sis_correct pred (snd pc)).
Proof. exact (sis_no_fault _ _ _ _ _ _ _ sis_predict sis_correct sis_normalise mm step pc). Qed.
End C12.

(* GaussianCorrection::correct / PFCorrection::correct: the public entry points run the step (skip_ = false) *)
Theorem C12_public_correct_runs_the_step (B S : Type) (step : B -> B -> S -> result B S) pred out st :
  correct_wrapper false step pred out st = step pred out st.
Proof. exact (correct_wrapper_not_skipping step pred out st). Qed.

(* skip_ set (on the driven correction, or on the correction wrapped by GPF): the predicted object is
   returned, the members are untouched and NO call is made, whatever the fault pattern *)
Theorem C12_skipped_correction_makes_no_call (B S : Type) (step : B -> B -> S -> result B S) pred out st :
  correct_wrapper true step pred out st = mkRes pred st [].
Proof. exact (correct_wrapper_skipping step pred out st). Qed.

(* "no partial update of any component, mean, covariance or weight": with the belief given its
   structure -- a list of (mean, covariance, weight) components plus the shape descriptors, and for the
   particle classes the list of states -- equality of the whole object IS equality of every part *)
Theorem C12_whole_object_is_componentwise (Mn Cv Wt Sh : Type) (a b : list (Mn * Cv * Wt) * Sh) :
  a = b <->
  (length (fst a) = length (fst b) /\ snd a = snd b /\
   forall i d, fst (fst (nth i (fst a) d)) = fst (fst (nth i (fst b) d)) /\
               snd (fst (nth i (fst a) d)) = snd (fst (nth i (fst b) d)) /\
               snd (nth i (fst a) d) = snd (nth i (fst b) d)).
Proof. exact (whole_object_is_componentwise Mn Cv Wt Sh a b). Qed.

(* e.g. for the Kalman correction (the other classes: the same rewriting of their identity theorem) *)
Theorem C12_kf_no_partial_update (Mn Cv Wt Sh Y X YP NU RC PY : Type)
        (kf_px : list (Mn * Cv * Wt) * Sh -> X) kf_upd (p : pattern) (mm : mmodel Y X YP NU RC) pred out (st : kf_state NU PY) :
  fails_any p sites4 = true ->
  let o := r_out (kf_step kf_px kf_upd (inject p mm) pred out st) in
  length (fst o) = length (fst pred) /\ snd o = snd pred /\
  forall i d, fst (fst (nth i (fst o) d)) = fst (fst (nth i (fst pred) d)) /\
              snd (fst (nth i (fst o) d)) = snd (fst (nth i (fst pred) d)) /\
              snd (nth i (fst o) d) = snd (nth i (fst pred) d).
Proof. exact (kf_no_partial_update Mn Cv Wt Sh Y X YP NU RC PY kf_px kf_upd p mm pred out st). Qed.

Theorem C12_gpf_no_partial_update (Mn Cv Wt Sh Sx Y X YP NU RC LK RNG GS : Type)
        st_px gl_dens (z : LK) gpf_sample gpf_wupd (gc : _ -> _ -> GS -> result _ GS) (lm : likmodel (list Sx) LK) (p : pattern)
        (mm : mmodel Y X YP NU RC) (pred out : pset (list (Mn * Cv * Wt) * Sh) (list Sx)) (st : gpf_state LK RNG GS) :
  lik_fails _ _ lm p = true ->
  let o := r_out (gpf_step st_px gl_dens z gpf_sample gpf_wupd gc (inject_lik z p lm) (inject p mm) pred out st) in
  length (fst (fst o)) = length (fst (fst pred)) /\ snd (fst o) = snd (fst pred) /\
  (forall i d, nth i (fst (fst o)) d = nth i (fst (fst pred)) d) /\
  length (snd o) = length (snd pred) /\ (forall i d, nth i (snd o) d = nth i (snd pred) d).
Proof. exact (gpf_no_partial_update Mn Cv Wt Sh Sx Y X YP NU RC LK RNG GS st_px gl_dens z gpf_sample gpf_wupd gc lm p mm pred out st). Qed.

(* the same for the unscented, serial unscented and bootstrap corrections *)
Theorem C12_ukf_no_partial_update (Mn Cv Wt Sh Y X YP NU RC PM PXY : Type)
        (sigma_of : list (Mn * Cv * Wt) * Sh -> X) ut_moments (pm_default : PM) (pxy_empty : PXY) pm_add_noise ukf_augment pm_mean ukf_upd
        (additive : bool) (p : pattern) (mm : mmodel Y X YP NU RC) pred out (st : ukf_state NU PM) :
  fails_any p sites3 = true ->
  let o := r_out (ukf_step sigma_of ut_moments pm_default pxy_empty pm_add_noise ukf_augment pm_mean ukf_upd additive (inject p mm) pred out st) in
  length (fst o) = length (fst pred) /\ snd o = snd pred /\
  forall i d, fst (fst (nth i (fst o) d)) = fst (fst (nth i (fst pred) d)) /\
              snd (fst (nth i (fst o) d)) = snd (fst (nth i (fst pred) d)) /\
              snd (nth i (fst o) d) = snd (nth i (fst pred) d).
Proof. exact (ukf_no_partial_update Mn Cv Wt Sh Y X YP NU RC PM PXY sigma_of ut_moments pm_default pxy_empty pm_add_noise ukf_augment pm_mean ukf_upd additive p mm pred out st). Qed.

Theorem C12_sukf_no_partial_update (Mn Cv Wt Sh Y X YP NU RC : Type)
        (sigma_of : list (Mn * Cv * Wt) * Sh -> X) sukf_pred_mean sukf_upd
        (sub_ok : bool) ncalls (p : pattern) (mm : mmodel Y X YP NU RC) pred out (st : sukf_state YP NU) :
  fails_any p sites3 = true \/ sub_ok = false ->
  let o := r_out (sukf_step sigma_of sukf_pred_mean sukf_upd sub_ok ncalls (inject p mm) pred out st) in
  length (fst o) = length (fst pred) /\ snd o = snd pred /\
  forall i d, fst (fst (nth i (fst o) d)) = fst (fst (nth i (fst pred) d)) /\
              snd (fst (nth i (fst o) d)) = snd (fst (nth i (fst pred) d)) /\
              snd (nth i (fst o) d) = snd (nth i (fst pred) d).
Proof. exact (sukf_no_partial_update Mn Cv Wt Sh Y X YP NU RC sigma_of sukf_pred_mean sukf_upd sub_ok ncalls p mm pred out st). Qed.

Theorem C12_bootstrap_no_partial_update (Mn Cv Wt Sh Sx Y X YP NU RC LK : Type)
        st_px gl_dens (z : LK) boot_wupd (lm : likmodel (list Sx) LK) (p : pattern)
        (mm : mmodel Y X YP NU RC) (pred out : pset (list (Mn * Cv * Wt) * Sh) (list Sx)) (st : pf_state LK) :
  lik_fails _ _ lm p = true ->
  let o := r_out (boot_step st_px gl_dens z boot_wupd (inject_lik z p lm) (inject p mm) pred out st) in
  length (fst (fst o)) = length (fst (fst pred)) /\ snd (fst o) = snd (fst pred) /\
  (forall i d, fst (fst (nth i (fst (fst o)) d)) = fst (fst (nth i (fst (fst pred)) d)) /\
               snd (fst (nth i (fst (fst o)) d)) = snd (fst (nth i (fst (fst pred)) d)) /\
               snd (nth i (fst (fst o)) d) = snd (nth i (fst (fst pred)) d)) /\
  length (snd o) = length (snd pred) /\ (forall i d, nth i (snd o) d = nth i (snd pred) d).
Proof. exact (boot_no_partial_update Mn Cv Wt Sh Sx Y X YP NU RC LK st_px gl_dens z boot_wupd lm p mm pred out st). Qed.

(* ================= flags AND payloads (C12_Payload) =================
   The sensor interface returns a validity flag and a payload (bfl::Data / MatrixXd / VectorXd).  The steps below are
   the same code transcribed with flags, payloads, any_casts in their order, in an exception monad (Throw = bad_any_cast
   escapes correct()).  `*_payload_step_is_skeleton`: when the payloads that come with a TRUE flag at the arguments of this
   very call are matrices, the payload-level step returns normally and IS the option-level skeleton above (applied to the
   view "false flag = None"), so every theorem above is a theorem about it.  `*_payload_never_read_on_failure`: when a
   call the class honours reports unavailability the step returns normally with the predicted belief and no likelihood,
   with NO premise on any payload: what accompanies a false flag is never cast and never read. *)
Section C12_payload.
Variables G St Y X YP NU RC PY PM PXY LK RNG GS : Type.
Notation rmodel := (rmodel Y X YP NU RC).
Variable kf_px : G -> X.
Variable kf_upd : G -> NU -> RC -> G -> G * PY.
Variable sigma_of : G -> X.
Variable ut_moments : G -> YP -> PM * PXY.
Variable pm_default : PM.
Variable pxy_empty : PXY.
Variable pm_add_noise : PM -> RC -> PM.
Variable ukf_augment : G -> RC -> G.
Variable pm_mean : PM -> YP.
Variable ukf_upd : G -> PM -> PXY -> NU -> G -> G.
Variable sukf_pred_mean : YP -> YP.
Variable sukf_upd : G -> X -> YP -> NU -> RC -> G -> G * YP.
Variable st_px : St -> X.
Variable gl_dens : NU -> RC -> LK.
Variable lk_zero1 : LK.
Variable boot_wupd : G -> LK -> G.
Variable gpf_sample : RNG -> G -> St -> St * RNG.
Variable gpf_wupd : pset G St -> LK -> pset G St -> G.

Notation KFr := (kf_step_raw G Y X YP NU RC PY kf_px kf_upd).
Notation UKFr := (ukf_step_raw G Y X YP NU RC PM PXY sigma_of ut_moments pm_default pxy_empty pm_add_noise ukf_augment pm_mean ukf_upd).
Notation SUKFr := (sukf_step_raw G Y X YP NU RC sigma_of sukf_pred_mean sukf_upd).
Notation GLr := (gl_likelihood_raw St Y X YP NU RC LK st_px gl_dens).
Notation BOOTr := (boot_step_raw G St Y X YP NU RC LK st_px gl_dens lk_zero1 boot_wupd).
Notation GPFr := (gpf_step_raw G St Y X YP NU RC LK RNG GS st_px gl_dens lk_zero1 gpf_sample gpf_wupd).

Theorem C12_kf_payload_step_is_skeleton (rm : rmodel) (pred out : G) st :
  (fst (rm_innovation _ _ _ _ _ rm (snd (rm_predicted _ _ _ _ _ rm (kf_px pred))) (snd (rm_measure _ _ _ _ _ rm))) = true ->
   cast (snd (rm_innovation _ _ _ _ _ rm (snd (rm_predicted _ _ _ _ _ rm (kf_px pred))) (snd (rm_measure _ _ _ _ _ rm)))) <> None) ->
  KFr rm pred out st = Ok (kf_step kf_px kf_upd (kf_view Y X YP NU RC rm) pred out st).
Proof. exact (kf_raw_is_skeleton G Y X YP NU RC PY kf_px kf_upd rm pred out st). Qed.

Theorem C12_kf_payload_never_read_on_failure (rm : rmodel) (pred out : G) st :
  kf_fails_raw G Y X YP NU RC kf_px rm pred ->
  exists l, KFr rm pred out st = Ok (mkRes pred (mkKfSt None (kf_py st)) l).
Proof. exact (kf_raw_failure G Y X YP NU RC PY kf_px kf_upd rm pred out st). Qed.

Theorem C12_ukf_payload_step_is_skeleton (additive : bool) (rm : rmodel) (pred out : G) st :
  ukf_well_typed G Y X YP NU RC PM PXY sigma_of ut_moments pm_add_noise ukf_augment pm_mean additive rm pred ->
  UKFr additive rm pred out st =
  Ok (ukf_step sigma_of ut_moments pm_default pxy_empty pm_add_noise ukf_augment pm_mean ukf_upd additive (u_view Y X YP NU RC rm) pred out st).
Proof. exact (ukf_raw_is_skeleton G Y X YP NU RC PM PXY sigma_of ut_moments pm_default pxy_empty pm_add_noise ukf_augment pm_mean ukf_upd additive rm pred out st). Qed.

Theorem C12_ukf_payload_never_read_on_failure (additive : bool) (rm : rmodel) (pred out : G) st :
  ukf_fails_raw G Y X YP NU RC PM PXY sigma_of ut_moments pm_add_noise ukf_augment pm_mean additive rm pred ->
  exists pm l, UKFr additive rm pred out st = Ok (mkRes pred (mkUkfSt None pm) l).
Proof. exact (ukf_raw_failure G Y X YP NU RC PM PXY sigma_of ut_moments pm_default pxy_empty pm_add_noise ukf_augment pm_mean ukf_upd additive rm pred out st). Qed.

Theorem C12_sukf_payload_step_is_skeleton (sub_ok : bool) ncalls (rm : rmodel) (pred out : G) st :
  sukf_well_typed G Y X YP NU RC sigma_of sukf_pred_mean rm pred ->
  SUKFr sub_ok ncalls rm pred out st = Ok (sukf_step sigma_of sukf_pred_mean sukf_upd sub_ok ncalls (u_view Y X YP NU RC rm) pred out st).
Proof. exact (sukf_raw_is_skeleton G Y X YP NU RC sigma_of sukf_pred_mean sukf_upd sub_ok ncalls rm pred out st). Qed.

Theorem C12_sukf_payload_never_read_on_failure (sub_ok : bool) ncalls (rm : rmodel) (pred out : G) st :
  sukf_fails_raw G Y X YP NU RC sigma_of sukf_pred_mean sub_ok rm pred ->
  exists prop l, SUKFr sub_ok ncalls rm pred out st = Ok (mkRes pred (mkSukfSt None prop) l).
Proof. exact (sukf_raw_failure G Y X YP NU RC sigma_of sukf_pred_mean sukf_upd sub_ok ncalls rm pred out st). Qed.

Theorem C12_likelihood_payload_is_skeleton (rm : rmodel) (s : St) :
  gl_well_typed St Y X YP NU RC st_px rm s ->
  GLr rm s = Ok (gl_likelihood st_px gl_dens (gl_view Y X YP NU RC rm) s).
Proof. exact (gl_raw_is_skeleton St Y X YP NU RC LK st_px gl_dens rm s). Qed.

(* "reports failure rather than a value": and does not throw either *)
Theorem C12_likelihood_payload_reports_failure (rm : rmodel) (s : St) :
  gl_fails_raw St Y X YP NU RC st_px rm s -> exists l, GLr rm s = Ok (None, l).
Proof. exact (gl_raw_failure St Y X YP NU RC LK st_px gl_dens rm s). Qed.

Theorem C12_bootstrap_payload_step_is_skeleton (lm : likmodel St LK) (rm : rmodel) (pred out : pset G St) st :
  (lm = LGauss -> gl_well_typed St Y X YP NU RC st_px rm (snd pred)) ->
  BOOTr lm rm pred out st = Ok (boot_step st_px gl_dens lk_zero1 boot_wupd lm (gl_view Y X YP NU RC rm) pred out st).
Proof. exact (boot_raw_is_skeleton G St Y X YP NU RC LK st_px gl_dens lk_zero1 boot_wupd lm rm pred out st). Qed.

(* whatever vector a failing user likelihood hands back next to its false flag *)
Theorem C12_bootstrap_payload_failure_custom (f : St -> bool * LK) (rm : rmodel) (pred out : pset G St) st :
  fst (f (snd pred)) = false ->
  BOOTr (LCustom f) rm pred out st = Ok (mkRes pred (pf_state_of (f (snd pred))) [Likelihood]).
Proof. exact (boot_raw_failure_custom G St Y X YP NU RC LK st_px gl_dens lk_zero1 boot_wupd f rm pred out st). Qed.

Theorem C12_bootstrap_payload_failure_gauss (rm : rmodel) (pred out : pset G St) st :
  gl_fails_raw St Y X YP NU RC st_px rm (snd pred) ->
  exists l, BOOTr LGauss rm pred out st = Ok (mkRes pred (mkPfSt false lk_zero1) l).
Proof. exact (boot_raw_failure_gauss G St Y X YP NU RC LK st_px gl_dens lk_zero1 boot_wupd rm pred out st). Qed.

Theorem C12_gpf_payload_step_is_skeleton (gc : G -> G -> GS -> result G GS) (lm : likmodel St LK) (rm : rmodel)
        (pred out : pset G St) st :
  (lm = LGauss -> gl_well_typed St Y X YP NU RC st_px rm (gpf_states _ _ _ _ _ gpf_sample gc pred out st)) ->
  GPFr (fun a b s => Ok (gc a b s)) lm rm pred out st =
  Ok (gpf_step st_px gl_dens lk_zero1 gpf_sample gpf_wupd gc lm (gl_view Y X YP NU RC rm) pred out st).
Proof. exact (gpf_raw_is_skeleton G St Y X YP NU RC LK RNG GS st_px gl_dens lk_zero1 gpf_sample gpf_wupd gc lm rm pred out st). Qed.

(* any wrapped correction that returned normally (it may have thrown instead: then so does the step) *)
Theorem C12_gpf_payload_failure (gc : G -> G -> GS -> exn (result G GS)) (lm : likmodel St LK) (rm : rmodel)
        (pred out : pset G St) st r :
  gc (fst pred) (fst out) (g_inner st) = Ok r ->
  let states := fst (gpf_sample (g_rng st) (r_out r) (snd out)) in
  match lm with LGauss => gl_fails_raw St Y X YP NU RC st_px rm states | LCustom f => fst (f states) = false end ->
  exists st' l, GPFr gc lm rm pred out st = Ok (mkRes pred st' l) /\ pf_valid (g_pf st') = false.
Proof. exact (gpf_raw_failure G St Y X YP NU RC LK RNG GS st_px gl_dens lk_zero1 gpf_sample gpf_wupd gc lm rm pred out st r). Qed.
End C12_payload.

(* the order matters: the transcription of seeded change C12-r5 (cast the innovation, THEN test its flag) ends with an
   exception on (false, empty Data), where the transcription of the code returns the predicted belief *)
Theorem C12_cast_before_flag_refuted :
  kf_fails_raw unit unit unit unit unit unit (fun _ => tt) r5_sensor tt /\
  kf_step_cast_before_flag unit unit unit unit unit unit unit (fun _ => tt) (fun g _ _ _ => (g, tt)) r5_sensor tt tt (mkKfSt None tt) = Throw /\
  kf_step_raw unit unit unit unit unit unit unit (fun _ => tt) (fun g _ _ _ => (g, tt)) r5_sensor tt tt (mkKfSt None tt)
    = Ok (mkRes tt (mkKfSt None tt) [Measure; Predicted; Innovation]).
Proof. exact kf_cast_before_flag_refuted. Qed.

(* ================= the fault model and the algebraic model are one definition ================= *)
(* the KF skeleton, instantiated with C01's numerical routines over ANY MatOps instance, under no_fault,
   is C01's kf_correct (components, innovations, measurement covariances); the weights / shape part W of
   the output object is not written *)
Theorem C12_no_fault_kf_is_C01 (O : MatOps) (n m : nat) (W : Type) (H : M O m n) (R : M O m m) (y : M O m 1)
        (pred out : kfG O n W) st :
  let res := kf_correct H R y (fst pred) in
  c_kf_step H (inject no_fault (lin_mm H R y)) pred out st =
  mkRes (overwrite_prefix (map ko_comp res) (fst out), snd out) (mkKfSt (Some (map ko_innov res)) (map ko_Py res)) sites4.
Proof. exact (kf_skeleton_no_fault_is_C01 O n m W H R y pred out st). Qed.

Theorem C12_no_fault_kf_likelihood_is_C01 (O : MatOps) (n m : nat) (W : Type) (H : M O m n) (R : M O m m) (y : M O m 1)
        (pred out : kfG O n W) st :
  c_kf_get_lik (r_st (c_kf_step H (inject no_fault (lin_mm H R y)) pred out st)) =
  Some (map kf_likelihood (kf_correct H R y (fst pred))).
Proof. exact (kf_skeleton_likelihood_is_C01 O n m W H R y pred out st). Qed.

Theorem C12_kf_numerical_instance_identity (O : MatOps) (n m : nat) (W : Type) (H : M O m n) (R : M O m m) (y : M O m 1)
        (p : pattern) (pred out : kfG O n W) st :
  fails_any p sites4 = true -> r_out (c_kf_step H (inject p (lin_mm H R y)) pred out st) = pred.
Proof. exact (kf_skeleton_fault_is_identity O n m W H R y p pred out st). Qed.

(* the GPF skeleton, instantiated with C08's numerical routines over ANY MatOps instance (C12_GPFInst), is
   C08's gpf_correct -- for every wrapped Gaussian step, every likelihood model whether it reports a value
   or not, every transition density and every draw: particles, validity flag and likelihood vector *)
Theorem C12_gpf_skeleton_is_C08 (O : MatOps) (n : nat) (gc : C08_Model.gstep O n)
        (lik : list (M O n 1) -> bool * list (T (sc O)))
        (trans : list (M O n 1) -> list (M O n 1) -> list (T (sc O))) (zs : list (M O n 1))
        (pred corr_old : C08_Model.pset O n) :
  let r := C12_GPFInst.i_gpf_step O n gc lik trans zs pred corr_old in
  let c := C08_Model.gpf_correct gc lik trans zs pred corr_old in
  fst (r_out r) = C08_Model.cr_particles c /\
  pf_get_lik (g_pf (r_st r)) = (C08_Model.cr_valid c, C08_Model.cr_lik c).
Proof. exact (C12_GPFInst.gpf_skeleton_is_C08 O n gc lik trans zs pred corr_old). Qed.

(* ================= refuted on the faithful model (witnesses on the extracted instance) =================
   (the stale-likelihood refutations of the code before 201e1b4 live in C12_Regress.v) *)
(* "every pattern with a failing call among those GPFCorrection (through the wrapped correction) consults
   is an identity" is FALSE when the likelihood model reports a value: *)
Theorem C12_gpf_inner_failure_refuted :
  exists o, run_gpf 0 true [bad Measure] = [o] /\
    fails_any (pat_of (bad Measure)) sites4 = true /\
    tm_eqb (o_g o) (leaf (IPredG 0)) = false /\ tm_eqb (o_s o) (leaf (IPredS 0)) = false /\
    o_s o = Node FSampleS [leaf IRng; leaf (IPredG 0); leaf IOutS] /\
    o_log o = [Measure; Likelihood] /\ fst (o_lik o) = true.
Proof. exact gpf_inner_failure_witness. Qed.

(* the same with shipped components only (KFCorrection + GaussianLikelihood): measure() reports
   unavailability to the wrapped correction and a value to the likelihood *)
Theorem C12_gpf_transient_inner_failure_refuted :
  exists o, run_gpf 0 false [bad Measure ++ good6] = [o] /\
    tm_eqb (o_g o) (leaf (IPredG 0)) = false /\ tm_eqb (o_s o) (leaf (IPredS 0)) = false /\
    o_log o = [Measure; Measure; Predicted; Innovation; NoiseCov] /\ fst (o_lik o) = true.
Proof. exact gpf_transient_inner_failure_witness. Qed.

(* correct(p, p) on GPFCorrection with measure() unavailable (KFCorrection + GaussianLikelihood): the
   object is NOT what was passed in: its states are re-drawn (a precondition "pred and corr are distinct
   objects" is needed; see the report) *)
Theorem C12_gpf_aliased_refuted :
  exists o, run_gpf_cfg (mkCfg false false false true) 0 true 0 false [bad Measure] = [o] /\
    o_g o = leaf (IPredG 0) /\ tm_eqb (o_s o) (leaf (IPredS 0)) = false /\
    o_s o = Node FSampleS [leaf IRng; leaf (IPredG 0); leaf (IPredS 0)] /\ o_lik o = (false, leaf FZero1).
Proof. exact gpf_aliased_witness. Qed.

(* ================= non-vacuity ================= *)
(* all sixteen subsets of the four measurement-model calls, run on the extracted instance:
   identity exactly when some call fails, likelihood valid exactly when none does *)
Example C12_kf_all_sixteen_patterns :
  forallb (fun b => match run_kf [b] with
                    | [o] => Bool.eqb (identity_at 0 o) (fails_any (pat_of b) sites4)
                             && Bool.eqb (fst (o_lik o)) (negb (fails_any (pat_of b) sites4))
                    | _ => false end) all16 = true.
Proof. exact kf_all16. Qed.

Example C12_ukf_all_sixteen_patterns additive :
  forallb (fun b => match run_ukf additive [b] with
                    | [o] => Bool.eqb (identity_at 0 o) (fails_any (pat_of b) sites3)
                             && Bool.eqb (fst (o_lik o)) (negb (fails_any (pat_of b) sites3))
                    | _ => false end) all16 = true.
Proof. exact (ukf_all16 additive). Qed.

(* good call, then a call that cannot use the measurement, on the extracted instance:
   identity and getLikelihood = (false, empty) although step 0 had a valid likelihood *)
Example C12_kf_good_then_faulty :
  exists o0 o1, run_kf [good6; bad Measure] = [o0; o1] /\
    fst (o_lik o0) = true /\ o_g o1 = leaf (IPredG 1) /\ o_lik o1 = (false, leaf IEmpty).
Proof. exact kf_good_then_faulty. Qed.

Example C12_ukf_good_then_faulty additive :
  exists o0 o1, run_ukf additive [good6; bad Predicted] = [o0; o1] /\
    fst (o_lik o0) = true /\ o_g o1 = leaf (IPredG 1) /\ o_lik o1 = (false, leaf IEmpty) /\
    o_log o1 = if additive then [Measure; Predicted] else [Measure; NoiseCov; Predicted].
Proof. exact (ukf_good_then_faulty additive). Qed.

Example C12_sukf_good_then_faulty ncalls lcalls :
  exists o0 o1, run_sukf true ncalls lcalls [good6; bad Innovation] = [o0; o1] /\
    fst (o_lik o0) = true /\ o_g o1 = leaf (IPredG 1) /\ o_lik o1 = (false, leaf IEmpty) /\ o_liklog o1 = [].
Proof. exact (sukf_good_then_faulty ncalls lcalls). Qed.

Example C12_gpf_gaussian_likelihood_all_sixteen_patterns inner :
  forallb (fun b => match run_gpf inner false [b] with
                    | [o] => Bool.eqb (identity_at 0 o && tm_eqb (o_s o) (leaf (IPredS 0))) (fails_any (pat_of b) sites4)
                    | _ => false end) all16 = true.
Proof. exact (gpf_gauss_all16 inner). Qed.

Example C12_gpf_gaussian_likelihood_same_pattern_is_identity :
  exists o, run_gpf 0 false [bad Measure] = [o] /\
    o_g o = leaf (IPredG 0) /\ o_s o = leaf (IPredS 0) /\ o_lik o = (false, leaf FZero1) /\
    o_log o = [Measure; Measure].
Proof. exact gpf_gauss_same_pattern. Qed.

Print Assumptions C12_kf_identity.
Print Assumptions C12_kf_identity_any_model.
Print Assumptions C12_kf_call_log.
Print Assumptions C12_no_fault_kf.
Print Assumptions C12_kf_likelihood_after_failure_reports_failure.
Print Assumptions C12_kf_likelihood_after_failure_reports_failure_any_model.
Print Assumptions C12_kf_likelihood_after_success.
Print Assumptions C12_ukf_identity.
Print Assumptions C12_ukf_identity_any_model.
Print Assumptions C12_ukf_noisecov_flag_ignored.
Print Assumptions C12_ukf_generic_call_log.
Print Assumptions C12_ukf_additive_call_log.
Print Assumptions C12_no_fault_ukf.
Print Assumptions C12_ukf_members_after_failed_prediction.
Print Assumptions C12_ukf_likelihood_after_failure_reports_failure.
Print Assumptions C12_sukf_identity.
Print Assumptions C12_sukf_identity_any_model.
Print Assumptions C12_sukf_noisecov_flag_ignored.
Print Assumptions C12_sukf_call_log.
Print Assumptions C12_sukf_size_mismatch_call_log.
Print Assumptions C12_no_fault_sukf.
Print Assumptions C12_sukf_members_after_failed_innovation.
Print Assumptions C12_sukf_likelihood_after_failure_reports_failure.
Print Assumptions C12_likelihood_reports_failure.
Print Assumptions C12_likelihood_reports_failure_any_model.
Print Assumptions C12_likelihood_value_only_if_all_calls_succeed.
Print Assumptions C12_likelihood_call_log.
Print Assumptions C12_no_fault_likelihood.
Print Assumptions C12_bootstrap_identity.
Print Assumptions C12_bootstrap_identity_any_model.
Print Assumptions C12_bootstrap_identity_iff.
Print Assumptions C12_bootstrap_likelihood_never_stale.
Print Assumptions C12_bootstrap_call_log.
Print Assumptions C12_no_fault_bootstrap.
Print Assumptions C12_gpf_identity.
Print Assumptions C12_gpf_identity_any_model.
Print Assumptions C12_gpf_identity_iff.
Print Assumptions C12_gpf_failed_step_side_effects.
Print Assumptions C12_gpf_inner_failure_not_detected.
Print Assumptions C12_gpf_aliased_failure_redraws.
Print Assumptions C12_gpf_call_log.
Print Assumptions C12_no_fault_gpf.
Print Assumptions C12_sis_skips_correction.
Print Assumptions C12_no_fault_sis.
Print Assumptions C12_public_correct_runs_the_step.
Print Assumptions C12_skipped_correction_makes_no_call.
Print Assumptions C12_whole_object_is_componentwise.
Print Assumptions C12_kf_no_partial_update.
Print Assumptions C12_gpf_no_partial_update.
Print Assumptions C12_ukf_no_partial_update.
Print Assumptions C12_sukf_no_partial_update.
Print Assumptions C12_bootstrap_no_partial_update.
Print Assumptions C12_kf_payload_step_is_skeleton.
Print Assumptions C12_kf_payload_never_read_on_failure.
Print Assumptions C12_ukf_payload_step_is_skeleton.
Print Assumptions C12_ukf_payload_never_read_on_failure.
Print Assumptions C12_sukf_payload_step_is_skeleton.
Print Assumptions C12_sukf_payload_never_read_on_failure.
Print Assumptions C12_likelihood_payload_is_skeleton.
Print Assumptions C12_likelihood_payload_reports_failure.
Print Assumptions C12_bootstrap_payload_step_is_skeleton.
Print Assumptions C12_bootstrap_payload_failure_custom.
Print Assumptions C12_bootstrap_payload_failure_gauss.
Print Assumptions C12_gpf_payload_step_is_skeleton.
Print Assumptions C12_gpf_payload_failure.
Print Assumptions C12_cast_before_flag_refuted.
Print Assumptions C12_no_fault_kf_is_C01.
Print Assumptions C12_no_fault_kf_likelihood_is_C01.
Print Assumptions C12_kf_numerical_instance_identity.
Print Assumptions C12_gpf_skeleton_is_C08.
Print Assumptions C12_gpf_inner_failure_refuted.
Print Assumptions C12_gpf_transient_inner_failure_refuted.
Print Assumptions C12_gpf_aliased_refuted.
