(* C03_Spread.v — "spreads small enough" stated on the covariance alone.
   The smallness premises of C03_Euler.euler_affine_exact (half-turn bounds on every sigma offset of the
   factor the oracle returned, positive weighted resultant) are DERIVED from bounds on the input
   covariance P and the propagated covariance Am P Am^T:
     c * P_jj < PI^2                 on every circular input row j      (c = n + lambda)
     c * (Am P Am^T)_ii < PI^2       on every circular output row i
     (Am P Am^T)_ii < 2              on every circular output row i
   whatever factor A with A A^T = P the square-root oracle returns: |sqrt(c) A_jk| <= sqrt(c P_jj),
   |sqrt(c) (Am A)_ik| <= sqrt(c (Am P Am^T)_ii), and the weighted resultant is
   1 - 2 wi sum_k (1 - cos x_k) >= 1 - (Am P Am^T)_ii / 2 because 1 - cos x <= x^2 / 2; this holds
   also when the central weight w0 is negative (small alpha).
   Axioms: the four standard axioms of Coq's Reals. *)
Require Import ZArith Reals Lra Lia List Bool Arith.
Require Import BFL.Ops BFL.C03_Model BFL.C19_ROps BFL.C19_Model BFL.C19_Proofs BFL.C03_Real BFL.C03_RFun BFL.C03_Euler.
Import ListNotations.
Local Open Scope R_scope.

Lemma sin_sq_le y : sin y * sin y <= y * y.
Proof.
  destruct (Rtotal_order y 0) as [H|[->|H]].
  - pose proof (sin_gt_x y H). pose proof (SIN_bound y).
    destruct (Rle_or_lt y (-1)); [nra|].
    assert (sin y < 0). { apply sin_lt_0_var; [pose proof PI_RGT_0; pose proof PI2_1; unfold PI2 in *; lra | lra]. }
    nra.
  - rewrite sin_0. lra.
  - pose proof (sin_lt_x y H). pose proof (SIN_bound y).
    destruct (Rle_or_lt 1 y); [nra|].
    assert (0 < sin y). { apply sin_gt_0; [lra | pose proof PI2_1; unfold PI2 in *; lra]. }
    nra.
Qed.

Lemma one_minus_cos_le x : 1 - cos x <= x * x / 2.
Proof.
  replace x with (2 * (x / 2)) at 1 by field. rewrite cos_2a_sin.
  pose proof (sin_sq_le (x / 2)). nra.
Qed.

Lemma sq_lt_abs x a : 0 < a -> x * x < a * a -> Rabs x < a.
Proof. intros Ha H. apply Rabs_def1; nra. Qed.

Section Spread.
Variables sq : nat -> fmx -> fmx.
Variables lin circ noise olin ocirc : nat.
Variables d dc : nat.
Hypothesis Hd : d = (lin + circ + noise)%nat.
Hypothesis Hdc : dc = d.
Variables (c w0 wi : R) (Am P : fmx).
Hypothesis c_pos : 0 < c.
Hypothesis w_sum : w0 + 2 * INR dc * wi = 1.
Hypothesis w_i : 2 * wi * c = 1.
Hypothesis dc_pos : (0 < dc)%nat.
Hypothesis HF : factor_ok sq dc P.

Definition small_cov : Prop :=
  (forall j, circ_row lin circ j = true -> c * P j j < PI * PI) /\
  (forall i, circ_row olin ocirc i = true ->
     c * cov_image d P Am i i < PI * PI /\ cov_image d P Am i i < 2).

Let A := sq dc P.
Let s := sqrt c.

Lemma gram_diag i : rsum dc (fun k => AmA sq d dc P Am i k * AmA sq d dc P Am i k) = cov_image d P Am i i.
Proof.
  apply (gram_cov sq lin circ noise olin ocirc d dc (lin + circ) (olin + ocirc) (olin + ocirc) Hd Hdc
           eq_refl eq_refl eq_refl P Am HF dc_pos i i).
Qed.

Lemma s_sq' : s * s = c.
Proof. unfold s. apply sqrt_sqrt. lra. Qed.

Lemma cin_lt j : circ_row lin circ j = true -> (j < dc)%nat.
Proof.
  unfold circ_row. intros H. apply andb_prop in H. destruct H as [_ H]. apply Nat.ltb_lt in H. lia.
Qed.

Theorem small_cov_spread : small_cov -> small_spread sq lin circ olin ocirc d dc c w0 wi Am P.
Proof.
  intros [S1 S2]. pose proof PI_RGT_0 as Hpi. pose proof s_sq' as Hs.
  split; [|split].
  - intros j k Hj Hk. fold s. apply sq_lt_abs; [exact Hpi|].
    pose proof (cin_lt j Hj) as Hjd.
    assert (E : A j k * A j k <= P j j).
    { rewrite <- (HF j j Hjd Hjd). apply (rsum_term_le dc (fun k => A j k * A j k)); [intros; nra | exact Hk]. }
    specialize (S1 j Hj). fold A.
    replace (s * A j k * (s * A j k)) with (c * (A j k * A j k)) by (rewrite <- Hs; ring). nra.
  - intros i k Hi Hk. fold s. apply sq_lt_abs; [exact Hpi|].
    set (a := AmA sq d dc P Am i k).
    assert (E : a * a <= cov_image d P Am i i).
    { rewrite <- gram_diag. apply (rsum_term_le dc (fun k => AmA sq d dc P Am i k * AmA sq d dc P Am i k)); [intros; nra | exact Hk]. }
    destruct (S2 i Hi) as [S2a _].
    replace (s * a * (s * a)) with (c * (a * a)) by (rewrite <- Hs; ring). nra.
  - intros i Hi. fold s. destruct (S2 i Hi) as [_ S2b].
    assert (Hwi : 0 < wi) by (assert (0 < wi * c) by lra; nra).
    set (x := fun k => s * AmA sq d dc P Am i k).
    assert (E1 : rsum dc (fun k => cos (x k)) = INR dc - rsum dc (fun k => 1 - cos (x k))).
    { rewrite (rsum_ext dc (fun k => 1 - cos (x k)) (fun k => 1 + - cos (x k))) by (intros; ring).
      rewrite rsum_plus, rsum_opp, rsum_const. lra. }
    assert (E2 : rsum dc (fun k => 1 - cos (x k)) <= c * cov_image d P Am i i / 2).
    { rewrite <- gram_diag.
      apply Rle_trans with (rsum dc (fun k => c / 2 * (AmA sq d dc P Am i k * AmA sq d dc P Am i k))).
      - apply rsum_le. intros k _. pose proof (one_minus_cos_le (x k)) as H. unfold x in H |- *.
        replace (s * AmA sq d dc P Am i k * (s * AmA sq d dc P Am i k) / 2)
          with (c / 2 * (AmA sq d dc P Am i k * AmA sq d dc P Am i k)) in H by (rewrite <- Hs; field). exact H.
      - rewrite rsum_scal. lra. }
    change (fun k => cos (s * AmA sq d dc P Am i k)) with (fun k => cos (x k)). rewrite E1.
    assert (2 * wi * rsum dc (fun k => 1 - cos (x k)) <= cov_image d P Am i i / 2).
    { apply Rle_trans with (2 * wi * (c * cov_image d P Am i i / 2)); [apply Rmult_le_compat_l; lra|].
      replace (2 * wi * (c * cov_image d P Am i i / 2)) with ((2 * wi * c) * cov_image d P Am i i / 2) by field.
      rewrite w_i. lra. }
    nra.
Qed.
End Spread.

(* ------------------------------------------------------------------ the whole-layout theorem with the smallness
   premise on the covariances *)
Section EulerMain.
Variables sq eg : nat -> fmx -> fmx.
Variables lin circ noise olin ocirc : nat.
Let Lin := mkLayout lin circ false noise.
Let d := l_dim Lin.
Let dc := l_dcov Lin.
Variables alpha beta kappa : R.
Let w := ut_weights (O:=RF sq eg) dc alpha beta kappa.
Let c := w_c w.
Variables Am b : fmx.
Variable comps : list (fmx * fmx).
Hypothesis dc_pos : (0 < dc)%nat.
Hypothesis c_pos : 0 < c.
Hypothesis map_lin_structure : forall i j, (i < olin)%nat -> circ_row lin circ j = true -> Am i j = 0.
Hypothesis map_circ_structure : forall i j, circ_row olin ocirc i = true -> circ_row lin circ j = true ->
  exists z : Z, Am i j = IZR z.
Hypothesis factors : forall mc, In mc comps -> factor_ok sq dc (snd mc).
Hypothesis covs : forall mc, In mc comps -> small_cov lin circ olin ocirc d c Am (snd mc).

Theorem euler_affine_exact_cov :
  euler_exact_statement sq eg lin circ noise olin ocirc alpha beta kappa Am b comps.
Proof.
  apply euler_affine_exact; try assumption.
  intros mc Hin.
  assert (Hc : w_c w <> 0) by (fold c; lra).
  destruct (ut_weights_R_sums sq eg dc alpha beta kappa dc_pos Hc) as [W1 W2].
  apply (small_cov_spread sq lin circ noise olin ocirc d dc); try assumption.
  - unfold d, l_dim, l_cw, Lin. simpl. lia.
  - unfold dc, d, l_dcov, l_dx, l_dim, l_cw, l_tw, Lin. simpl. lia.
  - apply factors; exact Hin.
  - apply covs; exact Hin.
Qed.
End EulerMain.

(* ------------------------------------------------------------------ non-vacuity: a concrete instance
   layout: 1 linear row, 1 Euler angle, 1 noise row (d = dc = 3); output: 1 linear row, 1 Euler angle;
   alpha = 1, kappa = 0 (c = 3); P = I / 4 with the diagonal factor; the map
     y_lin  = 2 x_lin + x_noise + b_0
     y_circ = x_lin / 2 + x_circ + x_noise / 3 + b_1     (offset of the angle by a linear function) *)
Definition ex_sq (n : nat) (P : fmx) : fmx := fun i j => if Nat.eqb i j then sqrt (P i i) else 0.
Definition ex_P : fmx := fun i j => if Nat.eqb i j then 1 / 4 else 0.
Definition ex_Am : fmx := fun i j =>
  match i, j with
  | 0%nat, 0%nat => 2 | 0%nat, 2%nat => 1
  | 1%nat, 0%nat => 1 / 2 | 1%nat, 1%nat => 1 | 1%nat, 2%nat => 1 / 3
  | _, _ => 0
  end.

Lemma euler_premises_example (eg : nat -> fmx -> fmx) (m b : fmx) :
  let Lin := mkLayout 1 1 false 1 in
  let dc := l_dcov Lin in
  let w := ut_weights (O:=RF ex_sq eg) dc 1 2 0 in
  (0 < dc)%nat /\ 0 < w_c w /\
  (forall i j, (i < 1)%nat -> circ_row 1 1 j = true -> ex_Am i j = 0) /\
  (forall i j, circ_row 1 1 i = true -> circ_row 1 1 j = true -> exists z : Z, ex_Am i j = IZR z) /\
  (forall mc, In mc [(m, ex_P)] -> factor_ok ex_sq dc (snd mc)) /\
  (forall mc, In mc [(m, ex_P)] -> small_cov 1 1 1 1 (l_dim Lin) (w_c w) ex_Am (snd mc)).
Proof.
  intros Lin dc w.
  assert (Hc : w_c w = 3).
  { unfold w. rewrite ut_weights_R_c. unfold dc, Lin, l_dcov, l_dx, l_tw. simpl. lra. }
  assert (Hcr : forall j, circ_row 1 1 j = true -> j = 1%nat).
  { intros j H. unfold circ_row in H. apply andb_prop in H. destruct H as [H1 H2].
    apply Nat.leb_le in H1. apply Nat.ltb_lt in H2. lia. }
  assert (Hs : sqrt (1 / 4) * sqrt (1 / 4) = 1 / 4) by (apply sqrt_sqrt; lra).
  pose proof PI2_1 as Hpi. unfold PI2 in Hpi.
  split; [unfold dc, Lin, l_dcov, l_dx, l_tw; simpl; lia|]. split; [rewrite Hc; lra|].
  split; [intros i j Hi Hj; rewrite (Hcr j Hj); destruct i as [|i]; [reflexivity | lia]|].
  split; [intros i j Hi Hj; rewrite (Hcr i Hi), (Hcr j Hj); exists 1%Z; reflexivity|].
  split.
  - intros mc [<-|[]]. intros a b' Ha Hb. unfold dc, Lin, l_dcov, l_dx, l_tw in Ha, Hb |- *. simpl in Ha, Hb |- *.
    unfold ex_sq, ex_P.
    destruct a as [|[|[|a]]]; [| | |lia]; destruct b' as [|[|[|b']]]; try lia; simpl; lra.
  - intros mc [<-|[]]. rewrite Hc. split.
    + intros j Hj. rewrite (Hcr j Hj). unfold ex_P. simpl. nra.
    + intros i Hi. rewrite (Hcr i Hi). unfold cov_image, ex_P, ex_Am, l_dim, l_cw. simpl. split; nra.
Qed.

(* ------------------------------------------------------------------ statements in terms of the layout and of
   the weights UTWeight computes *)
Section Wrappers.
Variables sq eg : nat -> fmx -> fmx.
Variables lin circ noise : nat.
Let Lin := mkLayout lin circ false noise.
Let d := l_dim Lin.
Let dc := l_dcov Lin.
Let dx := l_dx Lin.
Variables alpha beta kappa : R.
Let w := ut_weights (O:=RF sq eg) dc alpha beta kappa.
Let c := w_c w.
Let w0 := nth 0 (w_mean w) 0.
Let w0c := nth 0 (w_cov w) 0.
Let wi := nth 1 (w_mean w) 0.

Lemma wrap_dims : d = (lin + circ + noise)%nat /\ dc = d /\ dx = (lin + circ)%nat.
Proof. unfold d, dc, dx, l_dim, l_dcov, l_dx, l_cw, l_tw, Lin. simpl. lia. Qed.

Lemma euler_sigma_moments_main (m P : fmx) :
  (0 < dc)%nat -> 0 < c -> factor_ok sq dc P ->
  (forall j k, circ_row lin circ j = true -> (k < dc)%nat -> Rabs (sqrt c * sq dc P j k) < PI) ->
  let Xs := sigma_comp (O:=RF sq eg) Lin d dc c m P in
  let E := tangent_offsets sq dc c P in
  length Xs = (2 * dc + 1)%nat /\
  Forall2 (fun e x => is_sigma lin circ d m e x /\
                      forall i, (i < dx)%nat -> offsets (O:=RF sq eg) Lin (p:=d) dx x m i 0%nat = e i) E Xs /\
  (forall x0 j, (j < d)%nat ->
     nth 0 Xs x0 j 0%nat = if circ_row lin circ j then C19_Model.wrap ROps (m j 0%nat) else m j 0%nat) /\
  (forall j, lsumR (fun q => fst q * (m j 0%nat + snd q j)) (combine (w0 :: repeat wi (2 * dc)) E) = m j 0%nat) /\
  (forall i j, (i < dc)%nat -> (j < dc)%nat ->
     lsumR (fun q => fst q * (snd q i * snd q j)) (combine (w0c :: repeat wi (2 * dc)) E) = P i j).
Proof.
  intros Hdc Hc HF Hs. destruct wrap_dims as (E1 & E2 & E3).
  assert (Hc0 : w_c w <> 0) by (fold c; lra).
  destruct (ut_weights_R_sums sq eg dc alpha beta kappa Hdc Hc0) as [W1 W2].
  exact (sigma_moments_euler sq eg lin circ noise 0 0 d dc dx 0 0 E1 E2 E3 eq_refl eq_refl c m P Hc HF Hs w0 w0c wi W1 W2).
Qed.

Variables olin ocirc : nat.
Lemma small_spread_from_cov (Am P : fmx) :
  (0 < dc)%nat -> 0 < c -> factor_ok sq dc P ->
  small_cov lin circ olin ocirc d c Am P ->
  small_spread sq lin circ olin ocirc d dc c w0 wi Am P.
Proof.
  intros Hdc Hc HF HS. destruct wrap_dims as (E1 & E2 & E3).
  assert (Hc0 : w_c w <> 0) by (fold c; lra).
  destruct (ut_weights_R_sums sq eg dc alpha beta kappa Hdc Hc0) as [W1 W2].
  exact (small_cov_spread sq lin circ noise olin ocirc d dc E1 E2 c w0 wi Am P Hc W1 W2 Hdc HF HS).
Qed.
End Wrappers.
