(* Properties_C08.v — property C08: the Gaussian particle filter propagates
   beliefs and importance weights correctly.  Statements only; each is closed by a
   lemma of C08_Struct / C08_Real / C08_Proofs.

   Part 1 holds for EVERY arithmetic instance O : MatOps (in particular for
   MathComp matrices over any real field, and for the float instance that the
   correspondence check executes), every dimension, particle count, wrapped Gaussian
   step gp / gc, likelihood and transition model, and every sequence of draws.
   Part 2 is over Coq's real numbers (ln, exp the real functions).
   Part 3 is over MathComp matrices on an arbitrary realFieldType. *)
Require Import ZArith QArith List Reals.
Require Import BFL.Ops BFL.ListOps BFL.Density BFL.C01_Model BFL.C08_Model BFL.C08_Struct BFL.C08_Real BFL.C08_Extract BFL.C08_TV.
Import ListNotations.
Close Scope Q_scope.
Close Scope R_scope.
Open Scope nat_scope.

(* ------------------------------------------------------------------ Part 1 *)
Section C08_structure.
Variable O : MatOps.
Variable n : nat.

(* prediction: positions and log-weights untouched, same number of particles,
   whatever the wrapped step does and whatever the output object contained *)
Theorem C08_predict_frame (gp : gstep O n) (prev old : pset O n) :
  map pstate (gpf_predict gp prev old) = map pstate prev /\
  map plw (gpf_predict gp prev old) = map plw prev /\
  length (gpf_predict gp prev old) = length prev.
Proof. exact (predict_frame O n gp prev old). Qed.

(* prediction: the beliefs are exactly those of the wrapped Gaussian prediction *)
Theorem C08_predict_beliefs (gp : gstep O n) (prev old : pset O n) :
  length (gp (gm_of prev) (gm_of old)) = length prev ->
  map pbelief (gpf_predict gp prev old) = map fst (gp (gm_of prev) (gm_of old)).
Proof. exact (predict_beliefs O n gp prev old). Qed.

Section Correction.
Variable gc : gstep O n.
Variable lik : list (M O n 1) -> bool * list (T (sc O)).
Variable trans : list (M O n 1) -> list (M O n 1) -> list (T (sc O)).
Variable zs : list (M O n 1).
Variables pred old : pset O n.

(* correction: the beliefs are exactly those of the wrapped Gaussian correction *)
Theorem C08_correct_beliefs :
  fst (lik (gpf_drawn gc zs pred old)) = true ->
  length (gc (gm_of pred) (gm_of old)) = length pred ->
  map pbelief (cr_particles (gpf_correct gc lik trans zs pred old)) =
  map fst (gc (gm_of pred) (gm_of old)).
Proof. exact (correct_beliefs O n gc lik trans zs pred old). Qed.

(* correction: the new positions are the draws, x_i = m_i + L_i z_i with m_i, L_i
   from the CORRECTED belief i *)
Theorem C08_correct_positions :
  fst (lik (gpf_drawn gc zs pred old)) = true ->
  map pstate (cr_particles (gpf_correct gc lik trans zs pred old)) = gpf_drawn gc zs pred old /\
  forall i d, i < length pred ->
    nth i (gpf_drawn gc zs pred old) d =
    let b := belief_at (gc (gm_of pred) (gm_of old)) i in
    madd (gmean b) (mmul (ldlt_sqrt (gcov b)) (nth i zs (mzero n 1))).
Proof. exact (correct_positions_full O n gc lik trans zs pred old). Qed.

(* the likelihood model is evaluated on the drawn positions, and its verdict and
   values are what the step reports *)
Theorem C08_correct_likelihood_on_drawn :
  (cr_valid (gpf_correct gc lik trans zs pred old), cr_lik (gpf_correct gc lik trans zs pred old))
  = lik (gpf_drawn gc zs pred old).
Proof. exact (correct_likelihood_on_drawn O n gc lik trans zs pred old). Qed.

(* lw'_i = lw_i + ln(l_i + eps) + ln(t_i + eps) - ln(q_i + eps), q_i the Gaussian
   density of the corrected belief at the drawn position, t_i the transition
   density of (previous positions, drawn positions).  Premises: the likelihood model returns
   one value per position and the transition model one value per pair (their contracts; with
   fewer values GPFCorrection.cpp:125-130 reads past the end of the vectors) *)
Theorem C08_weight_formula :
  fst (lik (gpf_drawn gc zs pred old)) = true ->
  length (snd (lik (gpf_drawn gc zs pred old))) = length pred ->
  length (trans (map pstate pred) (gpf_drawn gc zs pred old)) = length pred ->
  forall (i : nat) (d : particle O n), i < length pred ->
  plw (nth i (cr_particles (gpf_correct gc lik trans zs pred old)) d) =
  let xs := gpf_drawn gc zs pred old in
  let b := belief_at (gc (gm_of pred) (gm_of old)) i in
  gpf_weight (sc O) (plw (nth i pred (dparticle O n)))
             (nth i (snd (lik xs)) (s0 (sc O)))
             (nth i (trans (map pstate pred) xs) (s0 (sc O)))
             (density (nth i xs (mzero n 1)) (gmean b) (gcov b)).
Proof. exact (correct_weight_guarded O n gc lik trans zs pred old). Qed.

(* an invalid likelihood returns the predicted set, whole (C12's clause) *)
Theorem C08_invalid_restores :
  fst (lik (gpf_drawn gc zs pred old)) = false ->
  cr_particles (gpf_correct gc lik trans zs pred old) = pred /\
  cr_valid (gpf_correct gc lik trans zs pred old) = false.
Proof. exact (correct_invalid O n gc lik trans zs pred old). Qed.

(* the correction never changes the number of particles *)
Theorem C08_correct_count :
  length (cr_particles (gpf_correct gc lik trans zs pred old)) = length pred.
Proof. exact (correct_length O n gc lik trans zs pred old). Qed.
End Correction.

(* histories: at every step k of every history all the formulae above hold between
   the state before and after step k (step_formulae spells them out); the shape
   guard is derived from the initial buffers and shape-preserving wrapped steps *)
Theorem C08_multi_step (N : nat) (st : fstate O n) (h : list (step_in O n)) (k : nat) d :
  length (fs_pred st) = N -> length (fs_corr st) = N ->
  Forall (fun s => shape_ok O n (si_gp s) /\ shape_ok O n (si_gc s)) h ->
  k < length h ->
  step_formulae O n N (gpf_run st (firstn k h)) (nth k h d) (gpf_run st (firstn (S k) h)).
Proof. exact (gpf_multi_step O n N st h k d). Qed.

(* the trace the correspondence check runs lists exactly those states *)
Theorem C08_trace_is_run (st : fstate O n) (h : list (step_in O n)) (k : nat) d :
  k < length h -> nth k (gpf_trace st h) d = gpf_run st (firstn (S k) h).
Proof. exact (gpf_trace_run O n st h k d). Qed.

(* the Kalman steps used by the check are shape-preserving wrapped steps *)
Theorem C08_kf_steps_shape_ok m (F Q : M O n n) (H : M O m n) (R : M O m m) (y : M O m 1) v :
  shape_ok O n (kf_pred_gstep F Q) /\ shape_ok O n (kf_corr_gstep v H R y).
Proof. exact (conj (kf_pred_gstep_shape O n F Q) (kf_corr_gstep_shape O n m H R y v)). Qed.

(* ... and so are the unscented steps (C05's models over any measurement function) and a skipping step *)
Theorem C08_unscented_steps_shape_ok m v w (h : M O n 1 -> M O m 1) (R : M O m m) (y : M O m 1) :
  shape_ok O n (ukf_corr_gstep v w h R y) /\ shape_ok O n (sukf_corr_gstep v w h R y) /\ shape_ok O n (@copy_gstep O n).
Proof. exact (conj (ukf_corr_gstep_shape O n m v w h R y) (conj (sukf_corr_gstep_shape O n m v w h R y) (copy_gstep_shape O n))). Qed.

(* GaussianLikelihood honours its contract: one value per position whenever it reports valid *)
Theorem C08_gauss_lik_length m scale v1 v2 v3 v4 (h : M O n 1 -> M O m 1) R y (xs : list (M O n 1)) :
  fst (gauss_lik_h scale v1 v2 v3 v4 h R y xs) = true ->
  length (snd (gauss_lik_h scale v1 v2 v3 v4 h R y xs)) = length xs.
Proof. exact (gauss_lik_h_length O n m scale v1 v2 v3 v4 h R y xs). Qed.

(* PF-level skip flags (the check runs pf_trace): without them it is gpf_trace; a skipped
   correction returns the predicted set and keeps valid_likelihood_ / likelihood_ *)
Theorem C08_pf_trace_noskip (st : fstate O n) h :
  pf_trace st (map (fun s => (s, (false, false))) h) = gpf_trace st h.
Proof. exact (pf_trace_noskip O n st h). Qed.
Theorem C08_pf_skip_correction (st : fstate O n) s sp :
  let st' := pf_step st (s, (sp, true)) in
  fs_corr st' = fs_pred st' /\ fs_valid st' = fs_valid st /\ fs_lik st' = fs_lik st.
Proof. exact (pf_step_skip_correction O n st s sp). Qed.

(* TIME-VARYING HISTORIES.  One GPFPrediction / GPFCorrection pair driven through a history in which the state
   model (F_k, Q_k), the measurement model (size m_k, H_k, R_k, reading y_k), the scale of the likelihood and the
   transition model (Ft_k, Qt_k) change from step to step: at step k every formula is in terms of the operands OF
   STEP k (tv_step_formulae spells them out: (b) predicted beliefs F_k m, F_k P F_k^T + Q_k; (d) corrected beliefs the
   Kalman correction with H_k, R_k, y_k; (e) likelihood values s_k N(y_k - H_k x_i; 0, R_k) at the drawn positions;
   (f) positions m_i + L_i z_i and lw'_i = lw_i + ln(l_i+eps) + ln N(x_i; Ft_k xprev_i, Qt_k) - ln N(x_i; m_i, P_i)),
   the shape guard being derived.  Nothing derived from the operands of an earlier step survives. *)
Theorem C08_multi_step_time_varying (N : nat) (st : fstate O n) (ps : list (tv_ops O n)) (k : nat) d :
  length (fs_pred st) = N -> length (fs_corr st) = N -> k < length ps ->
  tv_step_formulae O n N (tv_run st (firstn k ps)) (nth k ps d) (tv_run st (firstn (S k) ps)).
Proof. exact (tv_multi_step O n N st ps k d). Qed.

(* the only memory is the state (buffers, valid_likelihood_, likelihood_): histories that reach the same state
   and continue with the same operands agree, whatever the operands of their earlier steps were *)
Theorem C08_no_hidden_memory (st : fstate O n) (h1 h1' h2 : list (tv_ops O n)) :
  tv_run st h1 = tv_run st h1' -> tv_run st (h1 ++ h2) = tv_run st (h1' ++ h2).
Proof. exact (tv_no_hidden_memory O n st h1 h1' h2). Qed.

(* the trace of a history is the trace of its first part followed by the trace of the rest started in the state
   then reached: the check runs the model one step at a time from the state reported before the step *)
Theorem C08_stepwise_trace (st : fstate O n) (h1 h2 : list (step_in O n * (bool * bool))) :
  pf_trace st (h1 ++ h2) = pf_trace st h1 ++ pf_trace (last (pf_trace st h1) st) h2.
Proof. exact (pf_trace_app O n st h1 h2). Qed.
End C08_structure.

(* the entry point the driver executes takes a measurement size and a configuration record PER STEP; it is pf_trace
   over the step inputs built from them, and with constant operands it is c08_trace *)
Theorem C08_executed_trace_time_varying (Sc : SOps) sq (n m : nat) (cf : c08_cfg Sc) pred0 corr0 valid0 lik0
        (steps : list (step_tuple Sc)) (tvsteps : list (nat * c08_cfg Sc * step_tuple Sc)) :
  c08_trace Sc sq n m cf pred0 corr0 valid0 lik0 steps =
    c08_trace_tv Sc sq n pred0 corr0 valid0 lik0 (map (fun s => (m, cf, s)) steps) /\
  c08_trace_tv Sc sq n pred0 corr0 valid0 lik0 tvsteps =
    map (fun st => (map (c08_to_tuple Sc sq n) (fs_pred st), map (c08_to_tuple Sc sq n) (fs_corr st), fs_valid st, fs_lik st))
        (pf_trace (@mkFstate (c08_O Sc sq) n (map (c08_of_tuple Sc sq n) pred0) (map (c08_of_tuple Sc sq n) corr0) valid0 lik0)
                  (map (fun mcs => c08_step_in Sc sq n (fst (fst mcs)) (snd (fst mcs)) (snd mcs)) tvsteps)).
Proof.
  exact (conj (c08_trace_const_is_tv Sc sq n m cf pred0 corr0 valid0 lik0 steps) (c08_trace_tv_is_pf_trace Sc sq n pred0 corr0 valid0 lik0 tvsteps)).
Qed.

(* ------------------------------------------------------------------ lifetime (World C)
   The random source, the validity flag and the likelihood model of a GPFCorrection across
   constructions, move constructions, move assignments, corrections, draws and destructions
   (rs_* in C08_Model.v; rs_run true = the code at HEAD).  Reproduced on the library by the
   harness kinds gpf_fresh / gpf_moved. *)
(* a live GPFCorrection draws from its own generator, whatever was moved where before *)
Theorem C08_draws_from_own_generator ops id o :
  rs_find (rs_run true ops) id = Some o -> rs_alive o = true ->
  rs_draw_source (rs_run true ops) id = Some id.
Proof. exact (draws_from_own_generator ops id o). Qed.

(* ... and a draw advances the generator of the drawing object only: objects moved from a
   common source produce independent, seed-determined sequences *)
Theorem C08_draw_touches_own_generator_only ops id j :
  j <> id -> rs_find (rs_step true (rs_run true ops) (RsDraw id)) j = rs_find (rs_run true ops) j.
Proof. exact (draw_touches_own_generator_only ops id j). Qed.

(* the move constructor continues the source's stream on the new object's own copy and
   hands over the likelihood model *)
Theorem C08_move_construct st dst src o :
  rs_find st src = Some o ->
  rs_find (rs_step true st (RsMove dst src)) dst =
  Some (mkRsObj dst true dst (rs_valid o) (rs_lik o) (rs_gen o)).
Proof. exact (move_construct_result st dst src o). Qed.

(* the move assignment transfers the likelihood model and the generator state, the
   destination reads its own generator, the source is left without a likelihood model *)
Theorem C08_move_assign_transfers_likelihood_model st dst src o d :
  dst <> src -> rs_find st src = Some o -> rs_find st dst = Some d ->
  (exists d', rs_find (rs_step true st (RsMoveAssign dst src)) dst = Some d' /\ rs_lik d' = rs_lik o /\
              rs_gen d' = rs_gen o /\ rs_target d' = dst /\ rs_valid d' = rs_valid o) /\
  (exists s', rs_find (rs_step true st (RsMoveAssign dst src)) src = Some s' /\ rs_lik s' = None).
Proof. exact (move_assign_transfers st dst src o d). Qed.

(* getLikelihood() never reads an unwritten flag; a fresh object reports (false, ...) *)
Theorem C08_fresh_reports_invalid ops id seed k :
  rs_reported_valid (rs_run true (ops ++ [RsConstruct id seed k])) id = Some false.
Proof. exact (fresh_reports_invalid ops id seed k). Qed.

Theorem C08_reported_validity_defined ops id o :
  rs_find (rs_run true ops) id = Some o -> rs_reported_valid (rs_run true ops) id <> None.
Proof. exact (reported_valid_defined ops id o). Qed.

(* ---- regression: the code before the fix commits d193577 / 57c1b76 (rs_run false) violated
   each of these statements; the witnesses are what the harness kinds replay *)
Theorem C08_pre_fix_draws_from_own_generator_refuted :
  exists ops id, rs_find (rs_run false ops) id <> None /\
                 (forall o, rs_find (rs_run false ops) id = Some o -> rs_alive o = true) /\
                 rs_draw_source (rs_run false ops) id <> Some id /\
                 rs_draw_source (rs_run false ops) id = None.
Proof. exact pre_fix_draws_from_own_generator_refuted. Qed.

Theorem C08_pre_fix_fresh_likelihood_invalid_refuted :
  exists ops id, rs_draw_source (rs_run false ops) id = Some id /\
                 rs_reported_valid (rs_run false ops) id <> Some false /\
                 rs_reported_valid (rs_run false ops) id = None.
Proof. exact pre_fix_fresh_likelihood_invalid_refuted. Qed.

(* b = move(a); a = move(c); one draw of b -- every object alive: before the fix b read a's
   generator (by then a copy of c's) and kept its old likelihood model; at HEAD it reads its own *)
Theorem C08_pre_fix_move_assign_refuted :
  let ops := [RsConstruct 0 1 10; RsConstruct 1 2 11; RsMoveAssign 1 0;
              RsConstruct 2 3 12; RsMoveAssign 0 2; RsDraw 1] in
  option_map rs_lik (rs_find (rs_run false ops) 1) = Some (Some 11) /\
  option_map rs_gen (rs_find (rs_run false ops) 1) = Some (1, 0) /\
  option_map rs_gen (rs_find (rs_run false ops) 0) = Some (3, 1) /\
  rs_draw_source (rs_run false ops) 1 = Some 0 /\
  option_map rs_lik (rs_find (rs_run true ops) 1) = Some (Some 10) /\
  option_map rs_gen (rs_find (rs_run true ops) 1) = Some (1, 1) /\
  option_map rs_gen (rs_find (rs_run true ops) 0) = Some (3, 0) /\
  rs_draw_source (rs_run true ops) 1 = Some 1.
Proof. exact pre_fix_move_assign_refuted. Qed.

(* ------------------------------------------------------------------ Part 2 *)
Section C08_reals.
Local Open Scope R_scope.

(* the guard: every logarithm of the update is taken of a positive number *)
Theorem C08_weight_log_args_positive (l t q : R) :
  0 <= l -> 0 <= t -> 0 <= q ->
  0 < l + stiny C08_ROps /\ 0 < t + stiny C08_ROps /\ 0 < q + stiny C08_ROps.
Proof. exact (weight_log_args_positive l t q). Qed.

(* product form of the scalar update *)
Theorem C08_weight_product_form (lw l t q : R) :
  0 <= l -> 0 <= t -> 0 <= q ->
  exp (gpf_weight C08_ROps lw l t q) =
  exp lw * (l + stiny C08_ROps) * (t + stiny C08_ROps) / (q + stiny C08_ROps).
Proof. exact (weight_product_form lw l t q). Qed.

(* product form inside the correction step (matrix interface at real scalars):
   q_i > 0 is derived (a Gaussian density), l_i, t_i >= 0 are the contracts of the
   likelihood and transition models *)
Theorem C08_step_weight_product_form
  (sq eg : nat -> lmx C08_ROps -> lmx C08_ROps) (n : nat)
  (gc : gstep (ListMat C08_ROps sq eg) n)
  (lik : list (M (ListMat C08_ROps sq eg) n 1) -> bool * list R)
  (trans : list (M (ListMat C08_ROps sq eg) n 1) -> list (M (ListMat C08_ROps sq eg) n 1) -> list R)
  (zs : list (M (ListMat C08_ROps sq eg) n 1)) (pred old : pset (ListMat C08_ROps sq eg) n)
  (i : nat) (d : particle (ListMat C08_ROps sq eg) n) :
  let O := ListMat C08_ROps sq eg in
  let xs := gpf_drawn gc zs pred old in
  fst (lik xs) = true -> (i < length pred)%nat ->
  length (snd (lik xs)) = length pred -> length (trans (map pstate pred) xs) = length pred ->
  let li := nth i (snd (lik xs)) 0 in
  let ti := nth i (trans (map pstate pred) xs) 0 in
  let b := belief_at (gc (gm_of pred) (gm_of old)) i in
  let qi := density (O:=O) (nth i xs (mzero n 1)) (gmean b) (gcov b) in
  0 <= li -> 0 <= ti ->
  0 < qi /\ 0 < li + stiny C08_ROps /\ 0 < ti + stiny C08_ROps /\ 0 < qi + stiny C08_ROps /\
  exp (plw (nth i (cr_particles (gpf_correct gc lik trans zs pred old)) d)) =
  exp (plw (nth i pred (dparticle O n))) * (li + stiny C08_ROps) * (ti + stiny C08_ROps)
  / (qi + stiny C08_ROps).
Proof. exact (correct_weight_product sq eg n gc lik trans zs pred old i d). Qed.

(* the contracts hold for the shipped models: GaussianLikelihood (scale >= 0) and the
   linear-Gaussian transition density return non-negative values *)
Theorem C08_shipped_models_nonneg
  (sq eg : nat -> lmx C08_ROps -> lmx C08_ROps) (n m : nat) (scale : R)
  (H : M (ListMat C08_ROps sq eg) m n) (R0 : M (ListMat C08_ROps sq eg) m m) (y : M (ListMat C08_ROps sq eg) m 1)
  (F Q : M (ListMat C08_ROps sq eg) n n) v xs ps cs (i : nat) :
  0 <= scale ->
  0 <= nth i (snd (gauss_lik (O:=ListMat C08_ROps sq eg) scale v H R0 y xs)) 0 /\
  0 <= nth i (lin_trans (O:=ListMat C08_ROps sq eg) F Q ps cs) 0.
Proof.
  exact (fun Hs => conj (gauss_lik_nonneg sq eg n m scale H R0 y v xs i Hs) (lin_trans_nonneg sq eg n F Q ps cs i)).
Qed.
(* histories: along a history whose corrections are all valid, log-weight i is the initial
   one plus the sum of the per-step increments ln(l+eps) + ln(t+eps) - ln(q+eps)
   (step_incr spells the increment of one step out; shape guard derived as in C08_multi_step) *)
Theorem C08_weights_telescope
  (sq eg : nat -> lmx C08_ROps -> lmx C08_ROps) (n N : nat)
  (h : list (step_in (ListMat C08_ROps sq eg) n)) (st : fstate (ListMat C08_ROps sq eg) n) (i : nat) :
  let O := ListMat C08_ROps sq eg in
  length (fs_pred st) = N -> length (fs_corr st) = N ->
  Forall (fun s => shape_ok O n (si_gp s) /\ shape_ok O n (si_gc s)) h ->
  all_valid sq eg n N st h -> (i < N)%nat ->
  plw (nth i (fs_corr (gpf_run st h)) (dparticle O n)) =
  plw (nth i (fs_corr st) (dparticle O n)) + incr_sum sq eg n st h i.
Proof. exact (weights_telescope sq eg n N h st i). Qed.
End C08_reals.

(* ------------------------------------------------------------------ Part 3 *)
From mathcomp Require Import all_ssreflect all_algebra.
Require Import BFL.MxOps BFL.LinAlg BFL.C01_Proofs BFL.C08_Proofs.
Import GRing.Theory.
Local Open Scope ring_scope.

Section C08_mathcomp.
Variable F : realFieldType.
Variable tr : Transc F.
Variable sq : forall n, 'M[F]_n -> 'M[F]_n.
Variable eg : forall n, 'M[F]_n -> 'M[F]_(n,1).
Let O := MxMat tr sq eg.
Variable n : nat.

(* Mahalanobis identity: for SPD P and the factor L = ldlt_sqrt P, under its contract L L^T = P, the
   drawn position x = m + L z satisfies (x-m)^T P^-1 (x-m) = z^T z *)
Theorem C08_mahalanobis (m z : M O n 1) (P : M O n n) :
  spd (P : 'M[F]_n) -> (ldlt_sqrt (O:=O) P : 'M[F]_n) *m (ldlt_sqrt (O:=O) P : 'M[F]_n)^T = P ->
  quadform (O:=O) (msub (sample_from_proposal m P z) m) (minv P) = quadform (O:=O) z (mid n)
  /\ quadform (O:=O) z (mid n) = \sum_i (z : 'cV[F]_n) i 0 ^+ 2.
Proof. exact: mahalanobis_full. Qed.

(* ... inside the correction step, for every particle of the returned set *)
Theorem C08_correct_mahalanobis (gc : gstep O n) lik trans (zs : list (M O n 1)) (pred old : pset O n)
  (i : nat) (d : particle O n) :
  fst (lik (gpf_drawn gc zs pred old)) = true -> (i < length pred)%coq_nat ->
  let P := gcov (belief_at (gc (gm_of pred) (gm_of old)) i) in
  spd (P : 'M[F]_n) -> (ldlt_sqrt (O:=O) P : 'M[F]_n) *m (ldlt_sqrt (O:=O) P : 'M[F]_n)^T = P ->
  let p := List.nth i (cr_particles (gpf_correct gc lik trans zs pred old)) d in
  quadform (O:=O) (msub (pstate p) (pmean p)) (minv (pcov p)) =
  quadform (O:=O) (List.nth i zs (mzero n 1)) (mid n).
Proof. exact: correct_mahalanobis. Qed.

(* hence the proposal log-density at the drawn position is
   -1/2 (n ln 2pi + ln det P + z^T z): it depends on the draw through |z|^2 only *)
Theorem C08_proposal_log_density (m z : M O n 1) (P : M O n n) :
  spd (P : 'M[F]_n) -> (ldlt_sqrt (O:=O) P : 'M[F]_n) *m (ldlt_sqrt (O:=O) P : 'M[F]_n)^T = P ->
  log_density (O:=O) (sample_from_proposal m P z) m P =
  smul (sc O) (sopp (sc O) (shalf (sc O)))
       (sadd (sc O) (sadd (sc O) (smul (sc O) (sofnat (sc O) n) (sln (sc O) (smul (sc O) (s2 (sc O)) (spi (sc O)))))
                               (sln (sc O) (mdet P)))
             (quadform (O:=O) z (mid n))).
Proof. exact: proposal_log_density. Qed.

(* C01 o C08: with the Kalman correction as wrapped step (usable measurement, SPD R,
   SPD predicted covariances) the corrected beliefs are the information-form posteriors *)
Theorem C08_kf_conjugate_beliefs (m : nat) (H : M O m n) (R : M O m m) (y : M O m 1)
  (spdR : spd (R : 'M[F]_m)) lik trans (zs : list (M O n 1)) (pred old : pset O n) :
  fst (lik (gpf_drawn (kf_corr_gstep true H R y) zs pred old)) = true ->
  length old = length pred ->
  List.Forall (fun p : particle O n => spd (pcov p : 'M[F]_n)) pred ->
  List.map pbelief (cr_particles (gpf_correct (kf_corr_gstep true H R y) lik trans zs pred old)) =
  List.map (fun p => info_posterior H R y (pbelief p)) pred.
Proof. exact: kf_wrapped_beliefs. Qed.

(* ... and the Mahalanobis identity holds for every particle it returns, the SPD guard
   being derived from SPD R and SPD predicted covariances (only the contract of the
   square-root oracle on the corrected covariance remains a premise) *)
Theorem C08_kf_mahalanobis (m : nat) (H : M O m n) (R : M O m m) (y : M O m 1)
  (spdR : spd (R : 'M[F]_m)) lik trans (zs : list (M O n 1)) (pred old : pset O n) (i : nat) d :
  fst (lik (gpf_drawn (kf_corr_gstep true H R y) zs pred old)) = true ->
  length old = length pred ->
  List.Forall (fun p : particle O n => spd (pcov p : 'M[F]_n)) pred ->
  (i < length pred)%coq_nat ->
  let p := List.nth i (cr_particles (gpf_correct (kf_corr_gstep true H R y) lik trans zs pred old)) d in
  (ldlt_sqrt (O:=O) (pcov p) : 'M[F]_n) *m (ldlt_sqrt (O:=O) (pcov p) : 'M[F]_n)^T = pcov p ->
  spd (pcov p : 'M[F]_n) /\
  quadform (O:=O) (msub (pstate p) (pmean p)) (minv (pcov p)) =
  quadform (O:=O) (List.nth i zs (mzero n 1)) (mid n).
Proof. exact: kf_wrapped_mahalanobis. Qed.

End C08_mathcomp.

(* ------------------------------------------------------------------ Part 3b
   The contract of the square-root factor is no longer a premise: C08_Model.ldlt_sqrt, the Gallina
   transcription of sampleFromProposal's pivoted LDL^T square root (Eigen's pivoting rule, lower
   triangle only, unscaled column on a zero pivot), is PROVED to return a factor A with A A^T = P for
   every symmetric positive definite P, over any real field with a square-root function such that
   0 <= x -> sqrt x * sqrt x = x (Num.sqrt in a real closed field: Example below).  The pivot order
   is the executed one (proved to be a permutation whatever the comparisons decide). *)
Require Import BFL.ListOpsCorrect BFL.C08_LDLTDef BFL.C08_LDLT.

Section C08_ldlt.
Variable F : realFieldType.
Variable tr : Transc F.
Hypothesis sqrt_ok : forall x : F, 0 <= x -> t_sqrt tr x * t_sqrt tr x = x.
Variable n : nat.

(* ... at the EXECUTED list instance (c08_ldlt is the extracted entry point the driver runs, with floats for F):
   for a list matrix lP whose interpretation toM lP is symmetric positive definite (a well-formed lP
   in particular: wf is not even needed, out-of-range reads are the default 0 on both sides), the
   result is a well-formed n x n list matrix A with A *m A^T = P *)
Theorem C08_ldlt_sqrt_contract (sq : nat -> lmx (FOps tr) -> lmx (FOps tr)) (lP : lmx (FOps tr)) :
  spd (toM n n lP) ->
  wf n n (c08_ldlt (FOps tr) sq n lP) /\
  toM n n (c08_ldlt (FOps tr) sq n lP) *m (toM n n (c08_ldlt (FOps tr) sq n lP))^T = toM n n lP.
Proof. exact: ldlt_sqrt_list_contract. Qed.

(* ... at the MathComp instance, the one the Mahalanobis theorems above are stated at *)
Theorem C08_ldlt_sqrt_contract_mx (sq : forall n, 'M[F]_n -> 'M[F]_n) (eg : forall n, 'M[F]_n -> 'M[F]_(n,1)) (P : 'M[F]_n) :
  spd P ->
  (ldlt_sqrt (O:=MxMat tr sq eg) P : 'M[F]_n) *m (ldlt_sqrt (O:=MxMat tr sq eg) P : 'M[F]_n)^T = P.
Proof. exact: ldlt_sqrt_mx_correct. Qed.

(* hence the Mahalanobis identity of the drawn position with NO premise on the factor *)
Theorem C08_mahalanobis_proved (sq : forall n, 'M[F]_n -> 'M[F]_n) (eg : forall n, 'M[F]_n -> 'M[F]_(n,1))
  (m z : M (MxMat tr sq eg) n 1) (P : M (MxMat tr sq eg) n n) :
  spd (P : 'M[F]_n) ->
  quadform (O:=MxMat tr sq eg) (msub (sample_from_proposal m P z) m) (minv P) = quadform (O:=MxMat tr sq eg) z (mid n)
  /\ quadform (O:=MxMat tr sq eg) z (mid n) = \sum_i (z : 'cV[F]_n) i 0 ^+ 2.
Proof. exact: mahalanobis_unconditional. Qed.

(* ... and for every particle returned by the correction with the Kalman step as wrapped step: SPD R and SPD
   predicted covariances are the only premises left *)
Theorem C08_kf_mahalanobis_proved (sq : forall n, 'M[F]_n -> 'M[F]_n) (eg : forall n, 'M[F]_n -> 'M[F]_(n,1))
  (m : nat) (H : M (MxMat tr sq eg) m n) (R : M (MxMat tr sq eg) m m) (y : M (MxMat tr sq eg) m 1)
  (spdR : spd (R : 'M[F]_m)) lik trans (zs : list (M (MxMat tr sq eg) n 1)) (pred old : pset (MxMat tr sq eg) n) (i : nat) d :
  fst (lik (gpf_drawn (kf_corr_gstep true H R y) zs pred old)) = true ->
  length old = length pred ->
  List.Forall (fun p : particle (MxMat tr sq eg) n => spd (pcov p : 'M[F]_n)) pred ->
  (i < length pred)%coq_nat ->
  let p := List.nth i (cr_particles (gpf_correct (kf_corr_gstep true H R y) lik trans zs pred old)) d in
  spd (pcov p : 'M[F]_n) /\
  quadform (O:=MxMat tr sq eg) (msub (pstate p) (pmean p)) (minv (pcov p)) =
  quadform (O:=MxMat tr sq eg) (List.nth i zs (mzero n 1)) (mid n).
Proof. exact: kf_wrapped_mahalanobis_unconditional. Qed.

End C08_ldlt.

(* non-vacuity of the premises of the four theorems above, together: over any real closed field, sqrt := Num.sqrt
   meets its contract, and the list matrix [[1,1],[1,3]] (the larger diagonal entry comes second: the pivot swap is
   taken) is well formed with a symmetric positive definite interpretation *)
Example C08_ldlt_premises_rcf (K : rcfType) :
  [/\ forall x : K, 0 <= x -> t_sqrt (ex_tr K) x * t_sqrt (ex_tr K) x = x,
      wf 2 2 (ex_P K) & spd (toM 2 2 (ex_P K))].
Proof. by split; [exact: ex_sqrt_ok | exact: ex_wf | exact: ex_spd]. Qed.

(* non-vacuity of the MathComp premises: P = I with the factor L = I *)
Example C08_premises_satisfiable (F : realFieldType) n :
  spd (1%:M : 'M[F]_n) /\ (1%:M : 'M[F]_n) *m (1%:M : 'M[F]_n)^T = 1%:M.
Proof. by split; [exact: spd1 | rewrite trmx1 mulmx1]. Qed.

(* the executable instance of the same model over exact rationals: two particles in
   dimension 2, Kalman steps as wrapped steps.  (Over Q the record's ln / exp are the identity
   and eps = 0, so the weight update reads lw + l + t - q: the structure is what is tested; the
   square root is a table on the values that occur in the LDL^T of P.)
   Checked: the pivoted LDL^T factor of P (pivot on the second diagonal entry) is [[1/2,3/2],[2,0]]
   and L L^T = P; positions and weights untouched by the prediction; predicted beliefs
   F m, F P F^T + Q; after the correction x_i = m_i + ldlt_sqrt(P_i) z_i; the Mahalanobis identity
   (x - m)^T P^-1 (x - m) = z^T z = 5 for the draw z = (1,-2); an invalid likelihood returns the
   predicted set. *)
Open Scope Q_scope.
Definition qsqrt8 (q : Q) : Q :=
  if Qeq_bool q (4#1) then 2#1 else if Qeq_bool q (9#4) then 3#2 else q.
Definition QOps8 : SOps :=
  mkSOps Q (s0 QOps) (s1 QOps) (sadd QOps) (ssub QOps) (smul QOps) (sdiv QOps) (sopp QOps) (sleb QOps) (sltb QOps)
         (sofZ QOps) qsqrt8 (sexp QOps) (sln QOps) (scos QOps) (ssin QOps) (sacos QOps) (satan2 QOps) (spi QOps) (stiny QOps).
Definition QM8 := ListMat QOps8 (fun _ A => A) (fun _ A => A).
Example C08_concrete_Q :
  let P := [:: [:: 5#2; 1#1]; [:: 1#1; 4#1]]%Q in
  let Fm := [:: [:: 1#1; 1#2]; [:: 0#1; 1#1]]%Q in
  let Qm := [:: [:: 1#3; 0#1]; [:: 0#1; 1#3]]%Q in
  let Hm := [:: [:: 1#1; 0#1]]%Q in
  let Rm := [:: [:: 1#2]]%Q in
  let ym := [:: [:: 3#1]]%Q in
  let p1 := @mkParticle QM8 2%nat [:: [:: 1#1]; [:: 2#1]]%Q [:: [:: 1#2]; [:: -1#1]]%Q P (-1#2)%Q in
  let p2 := @mkParticle QM8 2%nat [:: [:: -3#1]; [:: 1#4]]%Q [:: [:: 0#1]; [:: 2#1]]%Q P (-3#2)%Q in
  let junk := @mkParticle QM8 2%nat [:: [:: 9#1]; [:: 9#1]]%Q [:: [:: 8#1]; [:: 8#1]]%Q Fm (7#1)%Q in
  let prev := [:: p1; p2] in
  let pred := @gpf_predict QM8 2 (@kf_pred_gstep QM8 2 Fm Qm) prev [:: junk; junk] in
  let zs := [:: [:: [:: 1#1]; [:: -2#1]]; [:: [:: 1#3]; [:: 1#2]]]%Q in
  let lik ok := @scripted_lik QM8 2 ok (@gauss_lik QM8 2 1 (1#1)%Q true Hm Rm ym) in
  let tr := @lin_trans QM8 2 Fm Qm in
  let r := @gpf_correct QM8 2 (@kf_corr_gstep QM8 2 1 true Hm Rm ym) (lik true) tr zs pred prev in
  let r0 := @gpf_correct QM8 2 (@kf_corr_gstep QM8 2 1 true Hm Rm ym) (lik false) tr zs pred prev in
  let c1 := List.nth 0%nat (cr_particles r) junk in
  let m0 := [:: [:: 1#2]; [:: -1#1]]%Q in
  let z0 := [:: [:: 1#1]; [:: -2#1]]%Q in
  let x0 := @sample_from_proposal QM8 2 m0 P z0 in
  let L := @ldlt_sqrt QM8 2 P in
  qmx_eqb (List.concat (List.map pstate pred)) (List.concat (List.map pstate prev))
  && qmx_eqb [:: List.map plw pred] [:: List.map plw prev]
  && qmx_eqb (pmean (List.nth 0%nat pred junk)) [:: [:: 0#1]; [:: -1#1]]%Q
  && qmx_eqb (pcov (List.nth 0%nat pred junk)) [:: [:: 29#6; 3#1]; [:: 3#1; 13#3]]%Q
  && qmx_eqb (pstate c1) (@madd QM8 2 1 (pmean c1) (@mmul QM8 2 2 1 (@ldlt_sqrt QM8 2 (pcov c1)) (List.nth 0%nat zs [::])))
  && cr_valid r && negb (cr_valid r0)
  && qmx_eqb (List.concat (List.map pstate (cr_particles r0))) (List.concat (List.map pstate pred))
  && qmx_eqb [:: List.map plw (cr_particles r0)] [:: List.map plw pred]
  && Nat.eqb (List.length (cr_particles r)) 2%nat
  && qmx_eqb L [:: [:: 1#2; 3#2]; [:: 2#1; 0#1]]%Q
  && qmx_eqb (@mmul QM8 2 2 2 L (@mtr QM8 2 2 L)) P
  && Qeq_bool (@quadform QM8 2 (@msub QM8 2 1 x0 m0) (@minv QM8 2 P)) (5#1) = true.
Proof. vm_compute. reflexivity. Qed.

(* a time-varying history over exact rationals: two steps on one particle in dimension 2, with different state
   models, measurement matrices, noise covariances (R_0 = 1/2, R_1 = 2), readings and likelihood scales.  Checked on the
   executable instance: after step 2 the likelihood is valid, its value is s_1 N(y_1 - H_1 x; 0, R_1) at the drawn
   position and NOT the value obtained with the noise covariance R_0 of the first step; the predicted belief of step 2
   is F_1 m, F_1 P F_1^T + Q_1 of the belief corrected at step 1. *)
Example C08_time_varying_concrete_Q :
  let P := [:: [:: 5#2; 1#1]; [:: 1#1; 4#1]]%Q in
  let F0 := [:: [:: 1#1; 1#2]; [:: 0#1; 1#1]]%Q in
  let F1 := [:: [:: 1#2; 0#1]; [:: 1#3; 1#1]]%Q in
  let Q0 := [:: [:: 1#3; 0#1]; [:: 0#1; 1#3]]%Q in
  let Q1 := [:: [:: 1#1; 1#4]; [:: 1#4; 2#1]]%Q in
  let H0 := [:: [:: 1#1; 0#1]]%Q in
  let H1 := [:: [:: 1#1; 2#1]]%Q in
  let R0 := [:: [:: 1#2]]%Q in
  let R1 := [:: [:: 2#1]]%Q in
  let y0 := [:: [:: 3#1]]%Q in
  let y1 := [:: [:: -1#1]]%Q in
  let z0 := [:: [:: [:: 1#1]; [:: -2#1]]]%Q in
  let z1 := [:: [:: [:: 1#3]; [:: 1#2]]]%Q in
  let p0 := @mkTvOps QM8 2%nat 1%nat F0 Q0 H0 R0 y0 (1#1)%Q F0 Q0 z0 in
  let p1 := @mkTvOps QM8 2%nat 1%nat F1 Q1 H1 R1 y1 (3#1)%Q F1 Q1 z1 in
  let part := @mkParticle QM8 2%nat [:: [:: 1#1]; [:: 2#1]]%Q [:: [:: 1#2]; [:: -1#1]]%Q P (-1#2)%Q in
  let junk := @mkParticle QM8 2%nat [:: [:: 9#1]; [:: 9#1]]%Q [:: [:: 8#1]; [:: 8#1]]%Q F0 (7#1)%Q in
  let st0 := @mkFstate QM8 2%nat [:: junk] [:: part] false [::] in
  let st1 := @tv_run QM8 2%nat st0 [:: p0] in
  let st2 := @tv_run QM8 2%nat st0 [:: p0; p1] in
  let c1 := List.nth 0%nat (fs_corr st1) junk in
  let c2 := List.nth 0%nat (fs_corr st2) junk in
  let pr2 := List.nth 0%nat (fs_pred st2) junk in
  let lik_with R := smul QOps8 (3#1)%Q (@density QM8 1%nat (@lin_innovation QM8 1%nat (@lin_predicted QM8 1%nat 2%nat H1 (pstate c2)) y1) (@mzero QM8 1%nat 1%nat) R) in
  fs_valid st2
  && qmx_eqb [:: fs_lik st2] [:: [:: lik_with R1]]
  && negb (qmx_eqb [:: fs_lik st2] [:: [:: lik_with R0]])
  && qmx_eqb (pmean pr2) (@mmul QM8 2 2 1 F1 (pmean c1))
  && qmx_eqb (pcov pr2) (@madd QM8 2 2 (@mmul QM8 2 2 2 (@mmul QM8 2 2 2 F1 (pcov c1)) (@mtr QM8 2 2 F1)) Q1)
  && qmx_eqb (pstate pr2) (pstate c1)
  && Nat.eqb (List.length (fs_corr st2)) 1%nat = true.
Proof. vm_compute. reflexivity. Qed.

Print Assumptions C08_predict_frame.
Print Assumptions C08_predict_beliefs.
Print Assumptions C08_correct_beliefs.
Print Assumptions C08_correct_positions.
Print Assumptions C08_correct_likelihood_on_drawn.
Print Assumptions C08_weight_formula.
Print Assumptions C08_invalid_restores.
Print Assumptions C08_correct_count.
Print Assumptions C08_multi_step.
Print Assumptions C08_trace_is_run.
Print Assumptions C08_kf_steps_shape_ok.
Print Assumptions C08_unscented_steps_shape_ok.
Print Assumptions C08_gauss_lik_length.
Print Assumptions C08_pf_trace_noskip.
Print Assumptions C08_pf_skip_correction.
Print Assumptions C08_multi_step_time_varying.
Print Assumptions C08_no_hidden_memory.
Print Assumptions C08_stepwise_trace.
Print Assumptions C08_executed_trace_time_varying.
Print Assumptions C08_draws_from_own_generator.
Print Assumptions C08_draw_touches_own_generator_only.
Print Assumptions C08_move_construct.
Print Assumptions C08_move_assign_transfers_likelihood_model.
Print Assumptions C08_fresh_reports_invalid.
Print Assumptions C08_reported_validity_defined.
Print Assumptions C08_pre_fix_draws_from_own_generator_refuted.
Print Assumptions C08_pre_fix_fresh_likelihood_invalid_refuted.
Print Assumptions C08_pre_fix_move_assign_refuted.
Print Assumptions C08_weight_log_args_positive.
Print Assumptions C08_weight_product_form.
Print Assumptions C08_step_weight_product_form.
Print Assumptions C08_shipped_models_nonneg.
Print Assumptions C08_weights_telescope.
Print Assumptions C08_mahalanobis.
Print Assumptions C08_correct_mahalanobis.
Print Assumptions C08_proposal_log_density.
Print Assumptions C08_kf_conjugate_beliefs.
Print Assumptions C08_kf_mahalanobis.
Print Assumptions C08_ldlt_sqrt_contract.
Print Assumptions C08_ldlt_sqrt_contract_mx.
Print Assumptions C08_mahalanobis_proved.
Print Assumptions C08_kf_mahalanobis_proved.
