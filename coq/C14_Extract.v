(* C14_Extract.v — executable entry points of the C14 shape calculus (pure nat;
   ExtrOcamlBasic only: nat stays Peano, string stays the inductive). *)
Require Import Arith List String.
Require Import ZArith.
Require Import BFL.Ops BFL.C14_Model.
Require Import Extraction ExtrOcamlBasic.

(* ocaml/float_ops.ml (pasted in front of every driver by the build) mentions the extracted
   scalar-operations record and Z; this unused definition makes the extraction emit those types. *)
Definition c14_unused_scalar (S : SOps) (x : T S) : T S := sadd S x (sofZ S 1%Z).

Extraction "C14_model.ml" c14_unused_scalar run check_shapes ok
  case_wna obs_wna case_simstate obs_simstate case_linsensor obs_linsensor
  case_history obs_history h_init case_grid obs_grid case_sigma sigma_out case_ut obs_ut
  case_kfp obs_kfp case_kfc obs_kfc case_ukfp ukfp_out case_ukfc obs_ukfc case_sukf obs_sukf
  case_resample obs_resample case_resprior resample_prior_out case_density case_uvr
  case_extract obs_extract case_psaug obs_psaug case_extseq obs_extseq win_extseq.
