(* Properties_C20.v — property C20: the type-erased container bfl::any::any
   (= bfl::Data) is type-safe, value-semantic and leak-free.  Statements only;
   each is closed by a lemma of C20_Proofs.  They are about `step` / `run` /
   `destroy_all` of C20_Model, the functions that are extracted and run
   against the library.  All hold for every pool size n and every operation
   word w (constructor / member tokens on a wrong index are skipped by `step`). *)
Require Import ZArith List Permutation.
Require Import BFL.C20_Model BFL.C20_Proofs.
Import ListNotations.

(* Ownership: after any word, every live holder is referenced by exactly one
   live container; no container references a freed location; keys are unique. *)
Theorem C20_ownership_inv (n : nat) (w : list op) :
  let st := exec w (init n) in
  (forall l c, hget l (st_heap st) = Some c ->
     exists d, pget d st = Live (Some l) /\ forall e, pget e st = Live (Some l) -> e = d) /\
  (forall d l, pget d st = Live (Some l) ->
     (exists c, hget l (st_heap st) = Some c) /\ ~ In l (st_dlog st)) /\
  NoDup (keys (st_heap st)).
Proof. exact (c20_ownership n w). Qed.

(* the invariant behind it is inductive: it holds initially and every operation preserves it *)
Theorem C20_invariant_inductive :
  (forall n, inv (init n)) /\ (forall o st, inv st -> inv (fst (step o st))).
Proof. exact c20_inv_inductive. Qed.

(* nothing is deleted twice; what was deleted is gone; the DoubleFree branch of the model is never taken *)
Theorem C20_no_double_free (n : nat) (w : list op) :
  let st := exec w (init n) in
  NoDup (st_dlog st) /\
  (forall l, In l (st_dlog st) -> hget l (st_heap st) = None) /\
  (forall l, ~ In (DoubleFree l) (st_faults st)).
Proof. exact (c20_no_double_free n w). Qed.

(* no fault of any kind is recorded, no operation of the word answers RFault, no container dangles *)
Theorem C20_no_use_after_free (n : nat) (w : list op) :
  let st := exec w (init n) in
  st_faults st = [] /\
  (forall f, ~ In (RFault f) (snd (run w (init n)))) /\
  (forall d l, view_of d st <> VDangling l).
Proof. exact (c20_no_use_after_free n w). Qed.

(* after destroying all containers the heap is empty and the destruction log is a
   duplicate-free permutation of the allocation log: every holder destroyed exactly once *)
Theorem C20_no_leak (n : nat) (w : list op) :
  let st := destroy_all (exec w (init n)) in
  st_heap st = [] /\ Permutation (st_dlog st) (st_alog st) /\ NoDup (st_dlog st) /\ st_faults st = [].
Proof. exact (c20_no_leak n w). Qed.

(* value semantics: the heap machine is observationally a pool of plain values
   (spec_step: copy = copy of the value, move = transfer and empty source, casts
   compare the type first), result by result, and the number of live holders of
   a type is the number of containers holding that type *)
Theorem C20_value_semantics (n : nat) (w : list op) :
  views (exec w (init n)) = fst (spec_run w (repeat VDead n)) /\
  snd (run w (init n)) = snd (spec_run w (repeat VDead n)) /\
  (forall t, live_count t (exec w (init n)) = spec_count t (fst (spec_run w (repeat VDead n)))).
Proof. exact (c20_value_semantics n w). Qed.

Theorem C20_step_refines_spec (st : state) (o : op) : inv st ->
  inv (fst (step o st)) /\
  views (fst (step o st)) = fst (spec_step o (views st)) /\
  snd (step o st) = snd (spec_step o (views st)).
Proof. exact (step_refines_spec st o). Qed.

(* a cast to the stored type yields the stored object, in all eight read forms; the pointer
   and reference forms change nothing, the forms that return T by value copy-construct one T *)
Theorem C20_cast_ok (st : state) (d : cid) (t : tag) (x : hval) : view_of d st = VHolds t x ->
  step (OCastPtr d t) st = (st, RPtr (Some x)) /\ step (OCastCPtr d t) st = (st, RPtr (Some x)) /\
  step (OCastPtrCq d t) st = (st, RPtr (Some x)) /\
  step (OCastRef d t) st = (st, RVal x) /\ step (OCastRefCq d t) st = (st, RVal x) /\
  step (OCastVal d t) st = (note_ctor (t, false) st, RVal x) /\
  step (OCastCVal d t) st = (note_ctor (t, false) st, RVal x) /\
  step (OCastRVal d t) st = (note_ctor (t, false) st, RVal x).
Proof. exact (c20_cast_ok st d t x). Qed.

(* a cast to any other type fails: pointer forms null, value and reference forms throw
   (also the T&& form); a write through such a cast writes nothing (no reinterpretation) *)
Theorem C20_cast_wrong_type (st : state) (d : cid) (t : tag) (x : hval) (t' : tag) (v' : value) :
  view_of d st = VHolds t x -> t' <> t ->
  step (OCastPtr d t') st = (st, RPtr None) /\ step (OCastCPtr d t') st = (st, RPtr None) /\
  step (OCastPtrCq d t') st = (st, RPtr None) /\
  step (OCastVal d t') st = (st, RThrow) /\ step (OCastRef d t') st = (st, RThrow) /\
  step (OCastCVal d t') st = (st, RThrow) /\ step (OCastRVal d t') st = (st, RThrow) /\
  step (OCastRefCq d t') st = (st, RThrow) /\
  (forall asg mvt, step (OCastXVal asg d t' mvt) st = (st, RThrow)) /\
  step (OSetPtr d t' v') st = (st, RBool false) /\ step (OSetRef d t' v') st = (st, RThrow).
Proof. exact (c20_cast_wrong_type st d t x t' v'). Qed.

(* the pointer forms accept a null operand *)
Theorem C20_cast_null_operand (st : state) (d : cid) (t : tag) : view_of d st = VDead ->
  step (OCastPtr d t) st = (st, RPtr None) /\ step (OCastCPtr d t) st = (st, RPtr None) /\
  step (OCastPtrCq d t) st = (st, RPtr None).
Proof. exact (c20_cast_null_operand st d t). Qed.

(* the form the library itself uses, T x = any_cast<T&&>(std::move(a)) (asg: x = ... for an
   existing x): the caller receives the value; the container still has a value of the same
   type (has_value, type unchanged) which is moved-from when T's move takes the value away
   (mvt); no other container changes; nothing is allocated or destroyed; exactly one move
   construction and no copy (none at all for the assignment shape); asking again yields a
   moved-from object, not the value: the value is transferred exactly once *)
Theorem C20_rvalue_ref_cast (st : state) (asg : bool) (d : cid) (t : tag) (x : hval) (mvt : bool) :
  inv st -> view_of d st = VHolds t x ->
  let st1 := fst (step (OCastXVal asg d t mvt) st) in
  snd (step (OCastXVal asg d t mvt) st) = RVal x /\
  inv st1 /\
  view_of d st1 = VHolds t (if mvt then None else x) /\
  (forall e, e <> d -> view_of e st1 = view_of e st) /\
  step (OHasValue d) st1 = (st1, RBool true) /\ step (OType d) st1 = (st1, RType (Some t)) /\
  (mvt = true -> forall asg' mvt', snd (step (OCastXVal asg' d t mvt') st1) = RVal None) /\
  st_alog st1 = st_alog st /\ st_dlog st1 = st_dlog st /\
  st_ctors st1 = (if asg then st_ctors st else (t, true) :: st_ctors st).
Proof. exact (c20_xval st asg d t x mvt). Qed.

(* constructions of held-type objects: value construction / assignment performs exactly one,
   a move for the rvalue form (mv = true) and a copy otherwise; copying a non-empty container
   performs one copy; moves, swap, reset and the destructor perform none *)
Theorem C20_constructions (st : state) :
  (forall mv d t v, is_free d st = true ->
     st_ctors (fst (step (OValue mv d t v) st)) = (t, mv) :: st_ctors st) /\
  (forall mv d t v, is_live d st = true ->
     st_ctors (fst (step (OValueAssign mv d t v) st)) = (t, mv) :: st_ctors st) /\
  (forall d s, st_ctors (fst (step (OMoveCtor d s) st)) = st_ctors st) /\
  (forall d s, st_ctors (fst (step (OMoveAssign d s) st)) = st_ctors st) /\
  (forall b d s, st_ctors (fst (step (OSwap b d s) st)) = st_ctors st) /\
  (forall d, st_ctors (fst (step (OReset d) st)) = st_ctors st) /\
  (forall d, st_ctors (fst (step (ODestroy d) st)) = st_ctors st) /\
  (forall d s t x, is_free d st = true -> view_of s st = VHolds t x ->
     st_ctors (fst (step (OCopyCtor d s) st)) = (t, false) :: st_ctors st) /\
  (forall d s t x, is_live d st = true -> view_of s st = VHolds t x ->
     st_ctors (fst (step (OCopyAssign d s) st)) = (t, false) :: st_ctors st) /\
  (forall d s, view_of s st = VEmpty ->
     st_ctors (fst (step (OCopyCtor d s) st)) = st_ctors st /\
     st_ctors (fst (step (OCopyAssign d s) st)) = st_ctors st).
Proof. exact (c20_constructions st). Qed.

(* strong exception guarantee: when the copy constructor of the type to be copied throws
   (value construction / assignment from a const lvalue, copy construction / assignment from a
   container holding that type), the exception leaves the member and the whole state - values,
   heap, logs - is exactly what it was: nothing changed, nothing leaked *)
Theorem C20_strong_guarantee (st : state) :
  (forall d t v, is_free d st = true -> step (OValueThrow d t v) st = (st, RExn)) /\
  (forall d t v, is_live d st = true -> step (OValueAssignThrow d t v) st = (st, RExn)) /\
  (forall d s tx x, is_free d st = true -> view_of s st = VHolds tx x ->
     step (OCopyCtorArmed d s tx) st = (st, RExn)) /\
  (forall d s tx x, is_live d st = true -> view_of s st = VHolds tx x ->
     step (OCopyAssignArmed d s tx) st = (st, RExn)).
Proof. exact (c20_strong_guarantee st). Qed.

(* copies are deep and independent: the copy has its own holder, and a write through a
   cast of the copy leaves the source unchanged and vice versa (copy constructor) *)
Theorem C20_copy_independent (st : state) (d s : cid) :
  inv st -> is_free d st = true -> is_live s st = true ->
  let st1 := fst (step (OCopyCtor d s) st) in
  view_of d st1 = view_of s st /\ view_of s st1 = view_of s st /\
  (forall l, content s st1 = Some l -> content d st1 <> Some l) /\
  forall t v,
    view_of s (fst (step (OSetPtr d t v) st1)) = view_of s st /\
    view_of s (fst (step (OSetRef d t v) st1)) = view_of s st /\
    view_of d (fst (step (OSetPtr s t v) st1)) = view_of s st /\
    view_of d (fst (step (OSetRef s t v) st1)) = view_of s st.
Proof. exact (c20_copy_ctor_independent st d s). Qed.

(* the same for copy assignment between two different containers *)
Theorem C20_copy_assign_independent (st : state) (d s : cid) :
  inv st -> is_live d st = true -> is_live s st = true -> d <> s ->
  let st1 := fst (step (OCopyAssign d s) st) in
  view_of d st1 = view_of s st /\ view_of s st1 = view_of s st /\
  (forall l, content s st1 = Some l -> content d st1 <> Some l) /\
  forall t v,
    view_of s (fst (step (OSetPtr d t v) st1)) = view_of s st /\
    view_of s (fst (step (OSetRef d t v) st1)) = view_of s st /\
    view_of d (fst (step (OSetPtr s t v) st1)) = view_of s st /\
    view_of d (fst (step (OSetRef s t v) st1)) = view_of s st.
Proof. exact (c20_copy_assign_independent st d s). Qed.

(* in general a write through a cast of one container changes no other container *)
Theorem C20_write_frame (st : state) (d e : cid) (t : tag) (v : value) : inv st -> d <> e ->
  view_of e (fst (step (OSetPtr d t v) st)) = view_of e st /\
  view_of e (fst (step (OSetRef d t v) st)) = view_of e st.
Proof. exact (c20_write_frame st d e t v). Qed.

(* a moved-from container is empty and the target has the value; nothing is allocated or destroyed *)
Theorem C20_moved_from_empty (st : state) (d s : cid) :
  inv st -> is_free d st = true -> is_live s st = true ->
  let st1 := fst (step (OMoveCtor d s) st) in
  view_of s st1 = VEmpty /\ view_of d st1 = view_of s st /\
  st_alog st1 = st_alog st /\ st_dlog st1 = st_dlog st /\ st_heap st1 = st_heap st.
Proof. exact (c20_moved_from_empty_ctor st d s). Qed.

Theorem C20_move_assigned_from_empty (st : state) (d s : cid) :
  inv st -> is_live d st = true -> is_live s st = true -> d <> s ->
  let st1 := fst (step (OMoveAssign d s) st) in
  view_of s st1 = VEmpty /\ view_of d st1 = view_of s st /\ st_alog st1 = st_alog st.
Proof. exact (c20_moved_from_empty_assign st d s). Qed.

(* self-assignment is harmless: copy-assigning a container to itself keeps every value
   (and the invariant); move-assigning it to itself changes nothing at all (the
   `this == &rhs` test of any.h:170); swapping it with itself keeps every value *)
Theorem C20_self_assign_harmless (st : state) (d : cid) : inv st -> is_live d st = true ->
  (inv (fst (step (OCopyAssign d d) st)) /\ views (fst (step (OCopyAssign d d) st)) = views st /\
   snd (step (OCopyAssign d d) st) = RUnit) /\
  step (OMoveAssign d d) st = (st, RUnit) /\
  (forall b, views (fst (step (OSwap b d d) st)) = views st).
Proof. exact (c20_self_assign_harmless st d). Qed.

(* an empty container reports the void type, has no value, and every cast of it fails *)
Theorem C20_empty_type_void (st : state) (d : cid) (t : tag) : view_of d st = VEmpty ->
  step (OType d) st = (st, RType None) /\ step (OHasValue d) st = (st, RBool false) /\
  step (OCastPtr d t) st = (st, RPtr None) /\ step (OCastCPtr d t) st = (st, RPtr None) /\
  step (OCastPtrCq d t) st = (st, RPtr None) /\
  step (OCastVal d t) st = (st, RThrow) /\ step (OCastRef d t) st = (st, RThrow) /\
  step (OCastCVal d t) st = (st, RThrow) /\ step (OCastRVal d t) st = (st, RThrow) /\
  step (OCastRefCq d t) st = (st, RThrow) /\
  (forall asg mvt, step (OCastXVal asg d t mvt) st = (st, RThrow)).
Proof. exact (c20_empty_type_void st d t). Qed.

(* non-vacuity: a concrete word over a pool of 3 — value-construct a string-typed 7 in 0,
   copy it to 1, overwrite the copy through a cast pointer, self-move-assign and
   self-copy-assign 0, move 0 into 2, take the value out of 2 through the T&& cast,
   copy-assign 1 to 0 while the copy constructor throws — reaches a state that satisfies the
   hypotheses used above (inv, a live holder, an empty moved-from container, a free index). *)
Definition c20_word : list op :=
  [OValue false 0 2 7%Z; OCopyCtor 1 0; OSetPtr 1 2 9%Z; OMoveAssign 0 0; OCopyAssign 0 0; OMoveCtor 2 0;
   OCastXVal false 2 2 true; OCopyAssignArmed 0 1 2].

Example C20_concrete :
  let st := exec c20_word (init 3) in
  views st = [VEmpty; VHolds 2 (Some 9%Z); VMoved 2] /\
  snd (run c20_word (init 3)) = [RUnit; RUnit; RBool true; RUnit; RUnit; RUnit; RVal (Some 7%Z); RExn] /\
  st_ctors st = [(2, true); (2, false); (2, false); (2, false)] /\
  length (st_heap st) = 2 /\ st_dlog st = [0] /\ st_faults st = [] /\
  snd (step (OCastVal 1 2) st) = RVal (Some 9%Z) /\ snd (step (OCastRefCq 2 2) st) = RVal None /\ snd (step (OCastVal 1 0) st) = RThrow /\
  snd (step (OType 0) st) = RType None /\
  st_heap (destroy_all st) = [] /\ length (st_alog (destroy_all st)) = 3 /\
  is_free 0 (fst (step (ODestroy 0) st)) = true /\ is_live 1 st = true.
Proof. vm_compute. repeat split; reflexivity. Qed.

Example C20_inv_satisfiable : inv (exec c20_word (init 3)).
Proof. exact (exec_inv 3 c20_word). Qed.

Print Assumptions C20_ownership_inv.
Print Assumptions C20_invariant_inductive.
Print Assumptions C20_no_double_free.
Print Assumptions C20_no_use_after_free.
Print Assumptions C20_no_leak.
Print Assumptions C20_value_semantics.
Print Assumptions C20_step_refines_spec.
Print Assumptions C20_cast_ok.
Print Assumptions C20_cast_wrong_type.
Print Assumptions C20_cast_null_operand.
Print Assumptions C20_rvalue_ref_cast.
Print Assumptions C20_constructions.
Print Assumptions C20_strong_guarantee.
Print Assumptions C20_copy_independent.
Print Assumptions C20_copy_assign_independent.
Print Assumptions C20_write_frame.
Print Assumptions C20_moved_from_empty.
Print Assumptions C20_move_assigned_from_empty.
Print Assumptions C20_self_assign_harmless.
Print Assumptions C20_empty_type_void.
