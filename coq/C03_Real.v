(* C03_Real.v — the circular (Euler) rows and the quaternion blocks of the C03 model
   at the Coq-reals instance (World B).  The scalar helpers of C03_Model depend on
   their MatOps argument only through its scalar record; RM is a MatOps whose scalars
   are C19's ROps (its matrix part is a dummy and is never used here).  They are
   proved equal to C19's / C18's transcriptions of the same C++ functions, and C19's /
   C18's theorems then give:
     circular_row        one Euler row of the symmetric sigma set: the directional
                         mean is arg(exp(j m)) and every offset is recovered exactly,
                         for offsets within a half turn and a positive resultant;
     quaternion_block    diff_quaternion(sum_quaternion_rotation_vector(q, p), q) = p
                         outside the 1e-4 cut-off zone, within 2 asin(1e-4) inside it.
   Axioms: the four standard axioms of Coq's Reals. *)
Require Import ZArith Reals Lra Lia List.
Require Import BFL.Ops BFL.C03_Model BFL.C19_ROps BFL.C19_Model BFL.C19_Proofs BFL.C18_Model BFL.C18_Proofs.
Import ListNotations.
Local Open Scope R_scope.

(* scalars: reals; matrices: not used *)
Definition RM : MatOps :=
  mkMatOps ROps (fun _ _ => unit)
           (fun _ _ _ => tt) (fun _ _ _ _ _ => 0) (fun _ _ => tt) (fun _ => tt)
           (fun _ _ _ _ => tt) (fun _ _ _ _ => tt) (fun _ _ _ => tt) (fun _ _ _ _ => tt)
           (fun _ _ _ _ _ => tt) (fun _ _ _ => tt) (fun _ _ _ _ _ => tt) (fun _ _ _ _ _ => tt)
           (fun _ _ => tt) (fun _ _ => 0) (fun _ _ => tt) (fun _ _ => tt).

(* ---------------- circle: C03's helpers are C19's ---------------- *)
Lemma wrap_is_C19 x : C03_Model.wrap (O:=RM) x = C19_Model.wrap ROps x.
Proof. rewrite wrap_R; try reflexivity. Qed.

Lemma dir_add_is_wrap a b : C03_Model.dir_add (O:=RM) a b = C19_Model.wrap ROps (a + b).
Proof. unfold C03_Model.dir_add. apply wrap_is_C19. Qed.

Lemma dir_sub_is_wrap a b : C03_Model.dir_sub (O:=RM) a b = C19_Model.wrap ROps (a - b).
Proof. unfold C03_Model.dir_sub. rewrite wrap_is_C19. reflexivity. Qed.

Lemma ssum_acc (l : list R) (a : R) : fold_left Rplus l a = a + fold_left Rplus l 0.
Proof. revert a. induction l as [|x l IH]; intros a; simpl; [lra|]. rewrite IH, (IH (0 + x)). lra. Qed.

Lemma ssum_wsumf (f : R -> R) ws angles :
  ssum ROps (map (fun p => f (snd p) * fst p) (combine ws angles)) = wsumf f angles ws.
Proof.
  unfold ssum. simpl. revert angles. induction ws as [|w ws IH]; intros [|a angles]; simpl; try reflexivity.
  rewrite ssum_acc, IH. lra.
Qed.

(* one row of directional_mean with more than one column is C19's mean_row *)
Lemma dir_mean_is_C19 ws a b angles :
  C03_Model.dir_mean (O:=RM) ws (a :: b :: angles) = mean_row ROps (a :: b :: angles) ws.
Proof.
  rewrite mean_row_R. unfold C03_Model.dir_mean.
  change (satan2 (sc RM)) with atan2.
  rewrite <- (ssum_wsumf sin), <- (ssum_wsumf cos). reflexivity.
Qed.

(* ---------------- one Euler row of the symmetric sigma set ---------------- *)
Section CircularRow.
Variables (m w0 wi : R) (ps : list R).
Let n := length ps.
(* perturbations of the row: 0, +p_k, -p_k *)
Let perts := 0 :: ps ++ map Ropp ps.
(* the row of the sigma-point matrix: directional_add(perturbation, mean) *)
Let xs := map (fun p => C03_Model.dir_add (O:=RM) p m) perts.
Let ws := w0 :: repeat wi (n + n).
Hypothesis half_turn : Forall in_range ps.            (* offsets within a half turn *)
Hypothesis half_turn_neg : Forall (fun p => in_range (- p)) ps.
Hypothesis ps_nonempty : ps <> [].
(* positive weighted resultant w0 + 2 wi sum cos p_k (w0 is negative for small alpha) *)
Hypothesis resultant_pos : 0 < w0 + 2 * wi * fold_right (fun p acc => cos p + acc) 0 ps.

Lemma wsumf_app f a b wa wb : length a = length wa ->
  wsumf f (a ++ b) (wa ++ wb) = wsumf f a wa + wsumf f b wb.
Proof.
  revert wa. induction a as [|x a IH]; intros [|y wa] H; simpl in *; try discriminate; [lra|].
  rewrite IH by congruence. lra.
Qed.

Lemma wsumf_const_w f l : wsumf f l (repeat wi (length l)) = wi * fold_right (fun p acc => f p + acc) 0 l.
Proof. induction l as [|x l IH]; simpl; [lra|]. rewrite IH. lra. Qed.

Lemma fold_opp f g l : (forall p, f (- p) = g p) ->
  fold_right (fun p acc => f p + acc) 0 (map Ropp l) = fold_right (fun p acc => g p + acc) 0 l.
Proof. intros H. induction l as [|x l IH]; simpl; [reflexivity|]. rewrite IH, H. reflexivity. Qed.

Lemma perts_cos : wsumf cos perts ws = w0 + 2 * wi * fold_right (fun p acc => cos p + acc) 0 ps.
Proof.
  unfold perts, ws, n. simpl. rewrite cos_0, repeat_app, wsumf_app by (rewrite repeat_length; reflexivity).
  rewrite wsumf_const_w.
  replace (length ps) with (length (map Ropp ps)) at 1 by apply map_length.
  rewrite wsumf_const_w, (fold_opp cos cos) by apply cos_neg. lra.
Qed.

Lemma perts_sin : wsumf sin perts ws = 0.
Proof.
  unfold perts, ws, n. simpl. rewrite sin_0, repeat_app, wsumf_app by (rewrite repeat_length; reflexivity).
  rewrite wsumf_const_w.
  replace (length ps) with (length (map Ropp ps)) at 1 by apply map_length.
  rewrite wsumf_const_w, (fold_opp sin (fun p => - sin p)) by apply sin_neg.
  assert (E : forall l, fold_right (fun p acc => - sin p + acc) 0 l = - fold_right (fun p acc => sin p + acc) 0 l).
  { induction l as [|x l IH]; simpl; [lra|]. rewrite IH. lra. }
  rewrite E. lra.
Qed.

Lemma xs_cong : Forall2 cong2pi (map (fun p => p + m) perts) xs.
Proof.
  unfold xs. induction perts as [|p l IH]; simpl; constructor; [|assumption].
  rewrite dir_add_is_wrap. apply wrap_congruent.
Qed.

(* the directional mean of the row is arg(exp(j m)) ... *)
Lemma circular_row_mean : C03_Model.dir_mean (O:=RM) ws xs = C19_Model.wrap ROps m.
Proof.
  assert (Hx : exists a b l, xs = a :: b :: l).
  { unfold xs, perts. destruct ps as [|p l]; [contradiction|]. simpl. eauto. }
  destruct Hx as (a & b & l & Hx). rewrite Hx, dir_mean_is_C19, <- Hx.
  rewrite (mean_row_shift _ _ ws xs_cong).
  assert (Hnz : wsumf cos perts ws <> 0 \/ wsumf sin perts ws <> 0) by (left; rewrite perts_cos; lra).
  pose proof (mean_row_rotation perts ws m Hnz) as Hrot.
  assert (H0 : mean_row ROps perts ws = 0).
  { rewrite mean_row_R, perts_sin, perts_cos.
    set (rho := w0 + _) in *.
    replace 0 with (rho * 0) at 1 by lra. replace rho with (rho * 1) at 2 by lra.
    rewrite atan2_scale by assumption.
    rewrite <- sin_0 at 1. rewrite <- cos_0.
    destruct (atan2_sin_cos 0) as [Hr Hc].
    symmetry. apply in_range_cong_eq; [|assumption|assumption].
    unfold in_range. pose proof PI_RGT_0. lra. }
  rewrite H0, Rplus_0_l in Hrot.
  set (mu := mean_row ROps (map (fun x => x + m) perts) ws) in *.
  assert (Hmu : in_range mu).
  { unfold mu. rewrite mean_row_R. apply atan2_polar.
    rewrite wsumf_cos_rot, wsumf_sin_rot, perts_sin, perts_cos.
    set (rho := w0 + _) in *.
    destruct (Req_dec (cos m) 0) as [Hc|Hc].
    - right. assert (sin m <> 0) by (intros Hs; pose proof (sin2_cos2 m) as E; unfold Rsqr in E; rewrite Hc, Hs in E; lra).
      nra.
    - left. nra. }
  apply in_range_cong_eq; [assumption | apply wrap_range |].
  eapply cong2pi_trans; [apply cong2pi_sym; exact Hrot | apply wrap_congruent].
Qed.

(* ... and every tangent offset directional_sub(x_j, mean) is the perturbation it came from *)
Lemma circular_row_offsets :
  map (fun x => C03_Model.dir_sub (O:=RM) x (C03_Model.dir_mean (O:=RM) ws xs)) xs = perts.
Proof.
  rewrite circular_row_mean. unfold xs. rewrite map_map.
  assert (Hp : Forall in_range perts).
  { unfold perts. constructor; [unfold in_range; pose proof PI_RGT_0; lra|].
    apply Forall_app. split; [assumption|]. apply Forall_map. assumption. }
  induction Hp as [|p l Hp _ IH]; simpl; [reflexivity|]. f_equal; [|assumption].
  rewrite dir_sub_is_wrap, dir_add_is_wrap.
  rewrite <- (wrap_id p Hp) at 2. apply wrap_cong.
  replace p with ((p + m) - m) at 1 by lra.
  apply cong2pi_plus; [apply wrap_congruent | apply cong2pi_opp, wrap_congruent].
Qed.
End CircularRow.

(* ---------------- quaternion blocks: C03's helpers are C18's ---------------- *)
Definition toQ (q : C03_Model.quat RM) : C18_Model.quat ROps :=
  let '(a, b, c, d) := q in mkQ a b c d.
Definition toV (r : C03_Model.rvec RM) : vec3 ROps := let '(x, y, z) := r in mkV x y z.

Lemma qmul_is_C18 p q : toQ (C03_Model.qmul (O:=RM) p q) = C18_Model.qmul ROps (toQ p) (toQ q).
Proof. destruct p as [[[aw ax] ay] az], q as [[[bw bx] by_] bz]. reflexivity. Qed.

Lemma qconj_is_C18 q : toQ (C03_Model.qconj (O:=RM) q) = C18_Model.qconj ROps (toQ q).
Proof. destruct q as [[[a b] c] d]. reflexivity. Qed.

Lemma rotvec_to_quat_is_C18 r : toQ (rotvec_to_quat (O:=RM) r) = rv_to_q ROps (toV r).
Proof.
  destruct r as [[x y] z]. unfold rotvec_to_quat, rv_to_q, toV.
  change (C03_Model.norm3 RM x y z) with (C18_Model.norm3 ROps (mkV x y z)).
  change (eps4 RM) with (cutoff ROps). change (sc RM) with ROps.
  match goal with |- context [if ?b then _ else _] => destruct b end; reflexivity.
Qed.

Lemma quat_to_rotvec_is_C18 q : toV (quat_to_rotvec (O:=RM) q) = q_to_rv ROps (toQ q).
Proof.
  destruct q as [[[w x] y] z]. unfold quat_to_rotvec, q_to_rv, toQ.
  change (C03_Model.norm3 RM x y z) with (C18_Model.norm3 ROps (qvec ROps (mkQ w x y z))).
  change (eps4 RM) with (cutoff ROps). change (sc RM) with ROps.
  match goal with |- context [if ?b then _ else _] => destruct b end; [|reflexivity].
  simpl qw. match goal with |- context [if ?b then _ else _] => destruct b end; reflexivity.
Qed.

Lemma qsum_is_C18 q r : toQ (C03_Model.qsum (O:=RM) q r) = qsum_one ROps (toQ q) (toV r).
Proof. unfold C03_Model.qsum, qsum_one. rewrite qmul_is_C18, rotvec_to_quat_is_C18. reflexivity. Qed.

Lemma qdiff_is_C18 a b : toV (C03_Model.qdiff (O:=RM) a b) = qdiff_one ROps (toQ a) (toQ b).
Proof. unfold C03_Model.qdiff, qdiff_one. rewrite quat_to_rotvec_is_C18, qmul_is_C18, qconj_is_C18. reflexivity. Qed.

(* a sigma quaternion built from the mean quaternion q and the tangent perturbation p is
   read back as p by diff_quaternion (this is how both the input offsets and, for maps that
   act as rotations of the tangent space, the output offsets are formed) *)
Lemma quaternion_block q p : qnorm2 (toQ q) = 1 -> n3 (toV p) <= PI ->
  (cut < sin (n3 (toV p) / 2) -> C03_Model.qdiff (O:=RM) (C03_Model.qsum (O:=RM) q p) q = p) /\
  vdist (toV (C03_Model.qdiff (O:=RM) (C03_Model.qsum (O:=RM) q p) q)) (toV p) <= 2 * asin cut.
Proof.
  intros Hq Hp. split.
  - intros Hc.
    assert (E : toV (C03_Model.qdiff (O:=RM) (C03_Model.qsum (O:=RM) q p) q) = toV p).
    { rewrite qdiff_is_C18, qsum_is_C18. now apply diff_sum_round_trip. }
    destruct (C03_Model.qdiff (O:=RM) (C03_Model.qsum (O:=RM) q p) q) as [[x y] z], p as [[x' y'] z'].
    simpl in E. inversion E. reflexivity.
  - rewrite qdiff_is_C18, qsum_is_C18. now apply diff_sum_error_bound.
Qed.

(* the sigma quaternion stays a unit quaternion *)
Lemma quaternion_block_unit q p : qnorm2 (toQ q) = 1 -> qnorm2 (toQ (C03_Model.qsum (O:=RM) q p)) = 1.
Proof. intros H. rewrite qsum_is_C18. now apply sum_unit. Qed.

Lemma scalar_helpers_link :
  (forall x, C03_Model.wrap (O:=RM) x = C19_Model.wrap ROps x) /\
  (forall ws a b l, C03_Model.dir_mean (O:=RM) ws (a :: b :: l) = mean_row ROps (a :: b :: l) ws) /\
  (forall q r, toQ (C03_Model.qsum (O:=RM) q r) = qsum_one ROps (toQ q) (toV r)) /\
  (forall a b, toV (C03_Model.qdiff (O:=RM) a b) = qdiff_one ROps (toQ a) (toQ b)).
Proof.
  split; [exact wrap_is_C19|]. split; [intros; apply dir_mean_is_C19|].
  split; [exact qsum_is_C18 | exact qdiff_is_C18].
Qed.

Lemma circular_row_premises_example :
  let ps := (1/2) :: nil in
  Forall in_range ps /\ Forall (fun p => in_range (- p)) ps /\ ps <> nil /\
  0 < -(1/2) + 2 * (3/4) * fold_right (fun p acc => cos p + acc) 0 ps.
Proof.
  pose proof PI_RGT_0 as Hpi. pose proof PI2_1 as H1. unfold PI2 in H1.
  simpl. repeat split.
  - constructor; [unfold in_range; lra | constructor].
  - constructor; [unfold in_range; lra | constructor].
  - discriminate.
  - assert (Hc : 1 / 2 < cos (1/2)).
    { destruct (pre_cos_bound (1/2) 0) as [Hl _]; try lra.
      unfold cos_approx, cos_term in Hl. simpl in Hl. lra. }
    simpl. lra.
Qed.
