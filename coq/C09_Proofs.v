(* C09_Proofs.v — invariants of the lifecycle model over ALL reachable
   configurations (all interleavings, all command sequences, all
   run_condition answers), by induction on the derivation of [reachable]. *)
Require Import List Bool Arith Lia.
Require Import BFL.C09_Model.
Import ListNotations.

(* ---------- generic case-analysis tactics ---------- *)
Ltac split_ifs H :=
  repeat match type of H with
         | context [if ?x then _ else _] => destruct x eqn:?
         end.

Ltac step_cases c m H :=
  destruct c as [p r s t n w d tr]; unfold step, step_with in H;
  destruct m as [b| |k|]; [ | | destruct k | ]; destruct p; simpl in H;
  split_ifs H; try discriminate H;
  injection H as <-; simpl in *.

(* ---------- local invariants ---------- *)
Definition cur_ok (n : nat) (lt : option event) : Prop :=
  match n with 0 => lt = Some EInit | S k => lt = Some (EStep k) end.

Definition L_epoch (p : pc) (n : nat) (lt : option event) : Prop :=
  match p with
  | PTop | PZero => lt <> Some EExit
  | PLock | PHeld | PSleep | PRecheck | PInit => n = 0 /\ lt <> Some EExit
  | PInitBody => n = 0 /\ lt = Some EInit
  | PC1a | PC1b | PC1c | PStep => cur_ok n lt
  | PStepBody | PInc => lt = Some (EStep n)
  | PAfter | PC2a | PC2b | PC2c | PC2d | PFinal => is_init_or_step lt = true
  | PDone | PExited => lt = Some EExit
  end.

Definition L_req (p : pc) (t : bool) (rq : bool) : Prop :=
  match p with
  | PC1c | PStep | PStepBody | PInc => rq = true
  | PInit | PInitBody | PC1a | PC1b => rq = true \/ t = true
  | _ => True
  end.

(* past the wait, before the final store *)
Definition postwait (p : pc) : bool :=
  match p with
  | PInit | PInitBody | PC1a | PC1b | PC1c | PStep | PStepBody | PInc | PAfter | PC2a | PC2b | PC2c | PC2d => true
  | _ => false
  end.

Definition Inv1 (c : config) : Prop :=
  let '(mk p r s t n w d tr) := c in
  (r = true -> runreq tr = true)
  /\ (p = PSleep -> w = false -> d = false -> r = false /\ t = false)
  /\ (rae tr = Some false -> r = false)
  /\ L_epoch p n (last_thr tr)
  /\ L_req p t (runreq tr)
  (* mutual exclusion on mtx_run_ *)
  /\ (d = true -> mutex_free p = true)
  (* inside the loop body one of the three flags is up; between the two stores of reboot() reset_ is *)
  /\ (postwait p = true -> (r = true \/ s = true \/ t = true) /\ (d = true -> s = true))
  /\ (p = PC2c -> s = true \/ t = true)
  (* the final store is reached only through teardown or a false run_condition *)
  /\ (p = PFinal -> t = true \/ last_rc tr = Some false).

Lemma inv1_init : Inv1 init.
Proof. simpl. repeat split; intros; try discriminate; auto. Qed.

Lemma inv1_step c m c' : Inv1 c -> step c m = Some c' -> Inv1 c'.
Proof.
  intros I H. step_cases c m H;
  destruct I as (I1 & I2 & I3 & I4 & I5 & I6 & I7 & I8 & I9);
  repeat split; intros; simpl in *;
  try discriminate; try congruence; auto;
  try (destruct I4; congruence);
  try (destruct I2; auto; congruence);
  try (destruct (rae tr) as [[|]|]; simpl in *; discriminate || auto; fail).
  all: try (destruct r, t; simpl in *; intuition congruence).
  all: try (destruct I4 as [-> I4]; simpl; auto; fail).
  all: try (destruct n; simpl in *; rewrite I4; simpl; auto; congruence).
  all: try (rewrite I4; simpl; auto; congruence).
  all: try (intro E; rewrite E in I4; discriminate).
  all: destruct w, d; simpl in *; discriminate.
Qed.

(* ---------- teardown monitor ---------- *)
Definition late (p : pc) : bool :=
  match p with
  | PInitBody | PC1a | PC1b | PStepBody | PInc | PAfter | PC2a | PC2b | PC2c | PC2d | PFinal | PDone | PExited => true
  | _ => false
  end.

Definition InvTd (c : config) : Prop :=
  let '(mk p r s t n w d tr) := c in
  match tdm tr with
  | None => t = false
  | Some k => t = true /\ k <= 1 /\ (k = 1 -> late p = true)
  end.

Lemma invtd_init : InvTd init.
Proof. reflexivity. Qed.

Lemma invtd_step c m c' : InvTd c -> step c m = Some c' -> InvTd c'.
Proof.
  intros I H. step_cases c m H;
  destruct (tdm tr) as [[|[|k]]|]; simpl in *;
  try (destruct I as (I1 & I2 & I3));
  repeat split; intros; subst; simpl in *;
  try discriminate; try congruence; auto; try lia;
  try (specialize (I3 eq_refl); discriminate).
Qed.

(* ---------- reset / reboot monitor ---------- *)
Definition inep (p : pc) : bool :=
  match p with
  | PInitBody | PC1a | PC1b | PC1c | PStep | PStepBody | PInc => true
  | _ => false
  end.

Definition InvPend (c : config) : Prop :=
  let '(mk p r s t n w d tr) := c in
  match pend tr with
  | None => True
  | Some k => k <= 1 /\ (p = PStep -> k = 0) /\ (inep p = true -> s = true)
  end.

Lemma invpend_init : InvPend init.
Proof. exact I. Qed.

Lemma invpend_step c m c' : InvPend c -> step c m = Some c' -> InvPend c'.
Proof.
  intros I H. step_cases c m H;
  destruct (pend tr) as [[|[|k]]|]; simpl in *;
  try (destruct I as (I1 & I2 & I3));
  repeat split; intros; subst; simpl in *;
  try discriminate; try congruence; auto; try lia;
  try (specialize (I2 eq_refl); lia);
  try (specialize (I3 eq_refl); congruence).
Qed.

(* ---------- reboot-without-run monitor ---------- *)
Definition prewait (p : pc) : bool :=
  match p with PTop | PZero | PLock | PHeld | PSleep | PRecheck => true | _ => false end.
Definition early_ep (p : pc) : bool :=
  match p with PInitBody | PC1a | PC1b => true | _ => false end.
Definition mid_ep (p : pc) : bool :=
  match p with PC1c | PStepBody | PInc => true | _ => false end.

Definition InvRb (c : config) : Prop :=
  let '(mk p r s t n w d tr) := c in
  (d = true -> mutex_free p = true) /\
  match rbm tr with
  | None => True
  | Some 0 => (d = false -> r = false) /\ (inep p = true -> s = true) /\ (p = PInit -> s = true \/ t = true)
  | Some 1 => (d = false -> r = false) /\ p <> PInit /\ p <> PStep
              /\ (early_ep p = true -> s = true \/ t = true)
              /\ (mid_ep p = true -> s = true)
              /\ (prewait p = true -> t = false)
  | Some _ => False
  end.

Lemma invrb_init : InvRb init.
Proof. split; [discriminate|exact I]. Qed.

Lemma invrb_step c m c' : InvRb c -> step c m = Some c' -> InvRb c'.
Proof.
  intros I H. step_cases c m H; destruct I as (M & I);
  (split; [intros; simpl in *; try discriminate; try congruence; auto;
           try (destruct w, d; simpl in *; discriminate); try (apply M; auto; fail) |]);
  destruct (rbm tr) as [[|[|k]]|]; simpl in *;
  try contradiction;
  try (destruct I as (I1 & I2 & I3 & I4 & I5 & I6));
  try (destruct I as (I1 & I2 & I3));
  repeat split; intros; subst; simpl in *;
  try discriminate; try congruence; auto.
  all: try (specialize (I2 eq_refl); congruence).
  all: try (specialize (I5 eq_refl); congruence).
  all: try (specialize (I6 eq_refl); congruence).
  all: try (destruct (I4 eq_refl); congruence).
  all: try (destruct (I3 eq_refl); congruence).
  all: destruct d; [specialize (M eq_refl); discriminate|]; rewrite (I1 eq_refl) in *; simpl in *; auto.
  all: rewrite (I6 eq_refl) in *; discriminate.
Qed.

(* ---------- answers of the queries ---------- *)
Definition zeroed (p : pc) : bool :=
  match p with PLock | PHeld | PSleep | PRecheck | PInit => true | _ => false end.
Definition stepping (p : pc) : bool :=
  match p with PStepBody | PInc => true | _ => false end.

Definition InvQ (c : config) : Prop :=
  let '(mk p r s t n w d tr) := c in
  match last_is tr with
  | Some (EStep j) => n = 0 \/ n = j \/ n = S j
  | _ => n = 0
  end
  /\ (zeroed p = true -> n = 0)
  /\ (stepping p = true -> last_is tr = Some (EStep n))
  /\ (r = false -> can_be_false tr = true)
  /\ (d = true -> can_be_false tr = true).

Lemma invq_init : InvQ init.
Proof. simpl. repeat split; auto; discriminate. Qed.

Lemma invq_step c m c' : InvQ c -> step c m = Some c' -> InvQ c'.
Proof.
  intros I H. step_cases c m H; destruct I as (I1 & I2 & I3 & I4 & I5);
  repeat split; intros; simpl in *; try discriminate; try congruence; auto.
  all: try (rewrite (I3 eq_refl) in *; auto; fail).
  all: try (rewrite (I2 eq_refl) in *; destruct (last_is tr) as [[]|]; auto; fail).
  all: try (destruct (last_is tr) as [[]|]; auto; fail).
  all: try (destruct w, d; simpl in *; discriminate).
Qed.

(* ---------- all invariants together; goodness of every history prefix ---------- *)
Definition Inv (c : config) : Prop := Inv1 c /\ InvTd c /\ InvPend c /\ InvRb c /\ InvQ c.

Lemma inv_init : Inv init.
Proof. repeat split; auto using inv1_init, invtd_init, invpend_init, invrb_init; intros; discriminate. Qed.

Lemma inv_step c m c' : Inv c -> step c m = Some c' -> Inv c'.
Proof.
  intros (A & B & C & D & E) H.
  split; [|split; [|split; [|split]]]; eauto using inv1_step, invtd_step, invpend_step, invrb_step, invq_step.
Qed.

Lemma reachable_inv c : reachable c -> Inv c.
Proof. induction 1; eauto using inv_init, inv_step. Qed.

Lemma inv_le1 c : Inv c ->
  le1 (pend (c_trace c)) = true /\ le1 (rbm (c_trace c)) = true /\ le1 (tdm (c_trace c)) = true.
Proof.
  destruct c as [p r s t n w d tr]. intros (_ & B & C & D & _). simpl in *.
  repeat split.
  - destruct (pend tr) as [[|[|k]]|]; auto. lia.
  - destruct D as (_ & D). destruct (rbm tr) as [[|[|k]]|]; auto.
  - destruct (tdm tr) as [[|[|k]]|]; auto. lia.
Qed.

Lemma eqb_refl_ev k : ev_eqb (EStep k) (EStep k) = true.
Proof. simpl. apply Nat.eqb_refl. Qed.

(* a move appends at most one event, and that event is admissible after the old trace *)
Lemma trace_step c m c' : Inv1 c -> InvTd c -> InvQ c -> step c m = Some c' ->
  c_trace c' = c_trace c \/ exists e, c_trace c' = e :: c_trace c /\ head_ok e (c_trace c) = true.
Proof.
  intros I ITd IQ H. step_cases c m H; auto; right; eexists; split; try reflexivity; simpl; auto;
  destruct I as (I1 & I2 & I3 & I4 & I5 & I6 & I7 & I8 & I9); destruct IQ as (Q1 & Q2 & Q3 & Q4 & Q5); simpl in *.
  all: try (destruct r; [rewrite (I1 eq_refl); simpl; destruct (rae tr) as [[|]|]; auto; specialize (I3 eq_refl); discriminate
                        | apply Q4; reflexivity]).
  all: try (unfold qstep_ok; destruct (last_is tr) as [[| j | | | | |]|]; subst; auto;
            destruct Q1 as [->|[->| ->]]; simpl; rewrite ?Nat.eqb_refl, ?orb_true_r; auto; fail).
  - destruct I4 as [_ I4]. destruct (last_thr tr) as [[]|]; simpl; auto.
  - rewrite I5. destruct n; simpl in I4; rewrite I4; simpl; auto. rewrite Nat.eqb_refl. auto.
  - rewrite I4. simpl. unfold exit_cause. destruct (tdm tr); auto.
    destruct (I9 eq_refl) as [X|X]; [congruence|rewrite X; auto].
Qed.

Lemma all_good_cons e tr : all_good (e :: tr) = good (e :: tr) && all_good tr.
Proof. reflexivity. Qed.

Lemma reachable_all_good c : reachable c -> all_good (c_trace c) = true.
Proof.
  induction 1 as [|c m c' R IH H]; [reflexivity|].
  pose proof (reachable_inv _ R) as Ic.
  pose proof (inv_step _ _ _ Ic H) as Ic'.
  destruct (trace_step _ _ _ (proj1 Ic) (proj1 (proj2 Ic)) (proj2 (proj2 (proj2 (proj2 Ic)))) H) as [E|(e & E & Hh)].
  - rewrite E. exact IH.
  - destruct (inv_le1 _ Ic') as (P1 & P2 & P3). rewrite E in *.
    rewrite all_good_cons, IH. unfold good. rewrite P1, P2, P3, Hh. reflexivity.
Qed.

(* ---------- from the monitors to statements about the trace ---------- *)
Lemma all_good_app pre suf : all_good (pre ++ suf) = true -> all_good suf = true.
Proof.
  induction pre as [|e pre IH]; simpl; auto.
  intros H. apply andb_true_iff in H. tauto.
Qed.

Lemma all_good_good tr : all_good tr = true -> good tr = true.
Proof. destruct tr; [reflexivity|]. rewrite all_good_cons. intros H; apply andb_true_iff in H; tauto. Qed.

Lemma good_parts tr : good tr = true ->
  le1 (pend tr) = true /\ le1 (rbm tr) = true /\ le1 (tdm tr) = true
  /\ match tr with [] => True | e :: t => head_ok e t = true end.
Proof.
  unfold good. intros H. repeat (apply andb_true_iff in H; destruct H as [H ?]).
  repeat split; auto. destruct tr; auto.
Qed.

Lemma reachable_good_suffix c pre suf : reachable c -> c_trace c = pre ++ suf -> good suf = true.
Proof.
  intros R E. apply all_good_good. apply (all_good_app pre).
  rewrite <- E. apply reachable_all_good; auto.
Qed.

Lemma runreq_In tr : runreq tr = true -> In (ECmd Run) tr.
Proof.
  induction tr as [|e tr IH]; simpl; [discriminate|].
  destruct e as [| | |[]| | |]; auto.
Qed.

Lemma opt_is_eq o e : is_thread_event e = true -> opt_is o e = true -> o = Some e.
Proof.
  destruct o as [x|]; simpl; [|discriminate].
  destruct x, e; simpl; try discriminate; auto.
  intros _ H. apply Nat.eqb_eq in H. congruence.
Qed.

(* 1. no filtering step before run is first requested *)
Lemma no_step_before_run c pre k suf :
  reachable c -> c_trace c = pre ++ EStep k :: suf -> In (ECmd Run) suf.
Proof.
  intros R E. pose proof (reachable_good_suffix _ _ _ R E) as G.
  apply good_parts in G. destruct G as (_ & _ & _ & G). simpl in G.
  apply runreq_In. destruct k; apply andb_true_iff in G; tauto.
Qed.

(* 2. epochs: the thread event preceding each thread event *)
Definition pred_ok (e : event) (before : option event) : Prop :=
  match e with
  | EInit => before <> Some EExit
  | EStep 0 => before = Some EInit
  | EStep (S k) => before = Some (EStep k)
  | EExit => before = Some EInit \/ exists k, before = Some (EStep k)
  | _ => True
  end.

Lemma epochs c pre e suf :
  reachable c -> c_trace c = pre ++ e :: suf -> pred_ok e (last_thr suf).
Proof.
  intros R E. pose proof (reachable_good_suffix _ _ _ R E) as G.
  apply good_parts in G. destruct G as (_ & _ & _ & G). simpl in G.
  destruct e as [|k| | | | |]; simpl in *; auto.
  - intros X. rewrite X in G. discriminate.
  - destruct k; apply andb_true_iff in G; destruct G as [G _]; apply opt_is_eq in G; auto.
  - destruct (last_thr suf) as [[]|]; simpl in G; try discriminate; eauto.
Qed.

(* counting *)
Fixpoint count_steps (l : list event) : nat :=
  match l with [] => 0 | EStep _ :: t => S (count_steps t) | _ :: t => count_steps t end.
Fixpoint count_init_step (l : list event) : nat :=
  match l with [] => 0 | EStep _ :: t | EInit :: t => S (count_init_step t) | _ :: t => count_init_step t end.
Fixpoint no_init_exit (l : list event) : Prop :=
  match l with [] => True | EInit :: _ | EExit :: _ => False | _ :: t => no_init_exit t end.
Fixpoint no_run_teardown (l : list event) : Prop :=
  match l with [] => True | ECmd Run :: _ | ECmd Teardown :: _ => False | _ :: t => no_run_teardown t end.

Lemma count_steps_le l : count_steps l <= count_init_step l.
Proof. induction l as [|[] l IH]; simpl; lia. Qed.

Lemma pend_seg seg k suf : (k = Reset \/ k = Reboot) -> no_init_exit seg ->
  exists n, pend (seg ++ ECmd k :: suf) = Some n /\ count_steps seg <= n.
Proof.
  intros K. induction seg as [|e seg IH]; simpl.
  - intros _. destruct K; subst; destruct (pend suf); eauto with arith.
  - destruct e as [| | |[]| | |]; simpl; try tauto; intros N;
    destruct (IH N) as (n & -> & L); simpl; eauto with arith.
Qed.

(* 3a. after reset/reboot: at most one further step before the next init or exit *)
Lemma reset_honoured c post seg k suf :
  reachable c -> c_trace c = post ++ seg ++ ECmd k :: suf -> (k = Reset \/ k = Reboot) ->
  no_init_exit seg -> count_steps seg <= 1.
Proof.
  intros R E K N. pose proof (reachable_good_suffix _ _ _ R E) as G.
  apply good_parts in G. destruct G as (G & _).
  destruct (pend_seg seg k suf K N) as (n & P & L). rewrite P in G.
  destruct n as [|[|n]]; simpl in G; try discriminate; lia.
Qed.

Lemma rbm_seg seg suf : no_run_teardown seg ->
  exists n, rbm (seg ++ ECmd Reboot :: suf) = Some n /\ count_init_step seg <= n.
Proof.
  induction seg as [|e seg IH]; simpl.
  - intros _. destruct (rbm suf); eauto with arith.
  - destruct e as [| | |[]| | |]; simpl; try tauto; intros N;
    destruct (IH N) as (n & -> & L); simpl; eauto with arith.
Qed.

(* 3b. after reboot, until run (or teardown) is requested: at most one initialisation or step at all *)
Lemma reboot_waits_for_run c post seg suf :
  reachable c -> c_trace c = post ++ seg ++ ECmd Reboot :: suf ->
  no_run_teardown seg -> count_init_step seg <= 1.
Proof.
  intros R E N. pose proof (reachable_good_suffix _ _ _ R E) as G.
  apply good_parts in G. destruct G as (_ & G & _).
  destruct (rbm_seg seg suf N) as (n & P & L). rewrite P in G.
  destruct n as [|[|n]]; simpl in G; try discriminate; lia.
Qed.

Lemma tdm_seg seg suf :
  exists n, tdm (seg ++ ECmd Teardown :: suf) = Some n /\ count_init_step seg <= n.
Proof.
  induction seg as [|e seg IH]; simpl.
  - destruct (tdm suf); eauto with arith.
  - destruct IH as (n & P & L). destruct e as [| | |[]| | |]; simpl; rewrite P; simpl; eauto with arith.
Qed.

(* 4. after teardown has been requested: at most one further initialisation or step, ever *)
Lemma teardown_one_step c post seg suf :
  reachable c -> c_trace c = post ++ seg ++ ECmd Teardown :: suf ->
  count_init_step seg <= 1 /\ count_steps seg <= 1.
Proof.
  intros R E. pose proof (reachable_good_suffix _ _ _ R E) as G.
  apply good_parts in G. destruct G as (_ & _ & G & _).
  destruct (tdm_seg seg suf) as (n & P & L). rewrite P in G.
  pose proof (count_steps_le seg).
  destruct n as [|[|n]]; simpl in G; try discriminate; lia.
Qed.

(* 5. after the thread's final store *)
Lemma after_exit_silent post suf : all_good (post ++ EExit :: suf) = true ->
  last_thr (post ++ EExit :: suf) = Some EExit /\ forall e, In e post -> is_thread_event e = false.
Proof.
  induction post as [|e post IH]; simpl.
  - intros _. split; auto. intros ? [].
  - intros H. apply andb_true_iff in H. destruct H as [G A].
    destruct (IH A) as (L & Q). apply good_parts in G. destruct G as (_ & _ & _ & G).
    destruct e as [|k| | | | |]; simpl in *; try (destruct k); try rewrite L in G; simpl in G; try discriminate;
      (split; [exact L | intros x [<-|X]; auto]).
Qed.

Lemma rae_seg post suf : rae (post ++ EExit :: suf) = Some false \/ In (ECmd Run) post.
Proof.
  induction post as [|e post IH]; simpl; auto.
  destruct IH as [IH|IH]; auto.
  destruct e as [| | |[]| | |]; simpl; auto.
Qed.

Lemma exited_quiescent c post suf :
  reachable c -> c_trace c = post ++ EExit :: suf ->
  (forall e, In e post -> is_thread_event e = false)
  /\ (c_run c = true -> In (ECmd Run) post)
  /\ (forall post2 post1, post = post2 ++ EQRun true :: post1 -> In (ECmd Run) post1).
Proof.
  intros R E. pose proof (reachable_all_good _ R) as A. rewrite E in A.
  split; [apply (after_exit_silent _ _ A)|]. split.
  - intros Hr. destruct (rae_seg post suf) as [X|X]; auto.
    pose proof (reachable_inv _ R) as (I1 & _). destruct c as [p r s t n w d tr]; simpl in *.
    destruct I1 as (_ & _ & I3 & _). subst tr. rewrite (I3 X) in Hr. discriminate.
  - intros post2 post1 ->. rewrite <- app_assoc in A. apply all_good_app in A. simpl in A.
    apply andb_true_iff in A. destruct A as [G _]. apply good_parts in G.
    destruct G as (_ & _ & _ & G). simpl in G.
    destruct (rae_seg post1 suf) as [X|X]; auto. rewrite X in G. rewrite andb_false_r in G. discriminate.
Qed.

Lemma tdm_some_In tr : tdm tr <> None -> exists seg suf, tr = seg ++ ECmd Teardown :: suf.
Proof.
  induction tr as [|e tr IH]; simpl; [congruence|].
  destruct e as [| | |k| | |]; try (intros H;
    assert (X : tdm tr <> None) by (destruct (tdm tr); simpl in *; congruence);
    destruct (IH X) as (seg & suf & ->); eexists (_ :: seg), suf; reflexivity).
  destruct k; try (intros H; destruct (IH H) as (seg & suf & ->); eexists (_ :: seg), suf; reflexivity).
  intros _. exists [], tr. reflexivity.
Qed.

(* 6. the thread ends only because teardown was requested or run_condition() answered false *)
Lemma exit_cause_ok c post suf :
  reachable c -> c_trace c = post ++ EExit :: suf ->
  In (ECmd Teardown) suf \/ last_rc suf = Some false.
Proof.
  intros R E. pose proof (reachable_good_suffix _ _ _ R E) as G.
  apply good_parts in G. destruct G as (_ & _ & _ & G). simpl in G.
  apply andb_true_iff in G. destruct G as (_ & G). unfold exit_cause in G.
  destruct (tdm suf) eqn:T.
  - left. assert (X : tdm suf <> None) by congruence.
    destruct (tdm_some_In _ X) as (seg & suf' & ->). apply in_or_app. right. left. reflexivity.
  - right. destruct (last_rc suf) as [[|]|]; auto; discriminate.
Qed.

Lemma exited_pc c : reachable c ->
  (In EExit (c_trace c) <-> (c_pc c = PDone \/ c_pc c = PExited)).
Proof.
  induction 1 as [|c m c' R IH H].
  - simpl. split; [tauto|]. intros [X|X]; discriminate.
  - revert IH. step_cases c m H; intros IH; split; intros X;
      try (destruct X as [X|X]; try discriminate X);
      try (apply IH in X; destruct X; discriminate);
      try (right; apply IH; auto; fail);
      try tauto; auto;
      try (destruct b; try destruct r; try destruct s; try destruct t; destruct X; discriminate).
Qed.

(* ---------- bounded exit ---------- *)
(* upper bound on the thread's own moves to PExited once teardown_ is set *)
Definition dist (p : pc) : nat :=
  match p with
  | PExited => 0 | PDone => 1 | PFinal => 2 | PC2d => 3 | PC2c => 4 | PC2b => 5 | PC2a => 6 | PAfter => 7
  | PC1b => 8 | PC1a => 9 | PInc => 10 | PStepBody => 11 | PStep => 12 | PC1c => 13
  | PInitBody => 10 | PInit => 11 | PHeld => 12 | PRecheck => 12 | PSleep => 13 | PLock => 13
  | PZero => 14 | PTop => 15
  end.

Definition exit_bound : nat := 15.

Lemma dist_bound p : dist p <= exit_bound.
Proof. destruct p; simpl; unfold exit_bound; lia. Qed.

Lemma dist_0 p : dist p = 0 <-> p = PExited.
Proof. destruct p; simpl; split; intros; try discriminate; auto. Qed.

Definition is_thread_move (m : move) : bool :=
  match m with MThread _ | MSpurious => true | MCmd _ | MRebootEnd => false end.

Fixpoint thread_moves (ms : list move) : nat :=
  match ms with [] => 0 | m :: t => (if is_thread_move m then 1 else 0) + thread_moves t end.

(* the thread is never disabled while teardown is requested and it has not exited
   (unless the controller is inside reboot(), which it can always complete) *)
Lemma td_thread_enabled c b : reachable c -> c_td c = true -> c_pc c <> PExited ->
  (c_mid c = false -> exists c', step c (MThread b) = Some c')
  /\ (c_mid c = true -> exists c', step c MRebootEnd = Some c' /\ c_mid c' = false).
Proof.
  intros R T N. pose proof (reachable_inv _ R) as (I1 & _).
  destruct c as [p r s t n w d tr]; simpl in *. destruct I1 as (_ & I2 & _). subst t.
  split; intros ->; [|eauto].
  destruct p; simpl; eauto; try congruence.
  - rewrite orb_true_r. eauto.
  - destruct w; simpl; eauto. destruct (I2 eq_refl eq_refl eq_refl); discriminate.
  - rewrite orb_true_r. eauto.
Qed.

Lemma td_move c m c' : c_td c = true -> step c m = Some c' ->
  c_td c' = true /\ dist (c_pc c') + (if is_thread_move m then 1 else 0) <= dist (c_pc c).
Proof.
  intros T H. step_cases c m H; subst; try discriminate; split; auto; try lia;
  try (destruct b; simpl; lia); try (destruct r; simpl; lia); try (destruct s; simpl; lia).
  all: try (rewrite orb_true_r in *; discriminate).
Qed.

Lemma run_moves_reachable c ms c' : reachable c -> run_moves c ms = Some c' -> reachable c'.
Proof.
  revert c. induction ms as [|m ms IH]; simpl; intros c R H.
  - congruence.
  - destruct (step c m) as [c1|] eqn:E; [|discriminate].
    apply (IH c1); auto. eapply R_step; eauto.
Qed.

Lemma td_run c ms c' : c_td c = true -> run_moves c ms = Some c' ->
  c_td c' = true /\ dist (c_pc c') + thread_moves ms <= dist (c_pc c).
Proof.
  revert c. induction ms as [|m ms IH]; simpl; intros c T H.
  - injection H as <-. split; auto. lia.
  - destruct (step c m) as [c1|] eqn:E; [|discriminate].
    destruct (td_move _ _ _ T E) as (T1 & D1).
    destruct (IH _ T1 H) as (T2 & D2). split; auto. lia.
Qed.

(* every move only prepends events *)
Lemma step_trace_ext c m c' : step c m = Some c' -> exists post, c_trace c' = post ++ c_trace c.
Proof.
  intros H. step_cases c m H;
  try (exists []; reflexivity); try (eexists [_]; reflexivity).
Qed.

Lemma run_trace_ext c ms c' : run_moves c ms = Some c' -> exists post, c_trace c' = post ++ c_trace c.
Proof.
  revert c. induction ms as [|m ms IH]; simpl; intros c H.
  - injection H as <-. exists []. reflexivity.
  - destruct (step c m) as [c1|] eqn:E; [|discriminate].
    destruct (step_trace_ext _ _ _ E) as (p1 & E1). destruct (IH _ H) as (p2 & E2).
    exists (p2 ++ p1). rewrite E2, E1, app_assoc. reflexivity.
Qed.

Lemma count_steps_app a b : count_steps (a ++ b) = count_steps a + count_steps b.
Proof. induction a as [|[] a IH]; simpl; lia. Qed.

(* bounded exit, clause (a): teardown requested *)
Lemma bounded_exit_teardown c ms c' :
  reachable c -> c_td c = true -> run_moves c ms = Some c' ->
  (* never disabled before it has exited (a controller inside reboot() can always complete it) *)
  (c_pc c' <> PExited -> forall b,
     (c_mid c' = false -> exists c'', step c' (MThread b) = Some c'')
     /\ (c_mid c' = true -> exists c'', step c' MRebootEnd = Some c'' /\ c_mid c'' = false))
  (* at most exit_bound own moves, and then it has exited *)
  /\ thread_moves ms <= dist (c_pc c) /\ dist (c_pc c) <= exit_bound
  /\ (dist (c_pc c) <= thread_moves ms -> c_pc c' = PExited)
  (* at most one of them starts a filtering step *)
  /\ (exists post, c_trace c' = post ++ c_trace c /\ count_steps post <= 1).
Proof.
  intros R T H. destruct (td_run _ _ _ T H) as (T' & D).
  pose proof (run_moves_reachable _ _ _ R H) as R'.
  split; [intros N b; apply td_thread_enabled; auto|].
  split; [lia|]. split; [apply dist_bound|]. split; [intros; apply dist_0; lia|].
  destruct (run_trace_ext _ _ _ H) as (post & E). exists post. split; auto.
  pose proof (reachable_inv _ R) as (_ & ITd & _).
  assert (X : tdm (c_trace c) <> None).
  { destruct c as [p r s t n w d tr]; simpl in *. destruct (tdm tr); congruence. }
  destruct (tdm_some_In _ X) as (seg & suf & Etr).
  assert (E2 : c_trace c' = [] ++ (post ++ seg) ++ ECmd Teardown :: suf).
  { rewrite E, Etr, app_assoc. reflexivity. }
  destruct (teardown_one_step _ _ _ _ R' E2) as (_ & L).
  rewrite count_steps_app in L. lia.
Qed.

(* clause (b): run_condition has turned false for good and the thread is past the wait *)
Definition distb (p : pc) : option nat :=
  match p with
  | PExited => Some 0 | PDone => Some 1 | PFinal => Some 2 | PC2a => Some 3 | PAfter => Some 4
  | PC1a => Some 5 | PInc => Some 6 | PStepBody => Some 7 | PStep => Some 8 | PC1c => Some 9 | PC1b => Some 10
  | PInitBody => Some 6 | PInit => Some 7
  | _ => None
  end.

Definition exit_bound_rc : nat := 10.

Definition rc_false (m : move) : bool :=
  match m with MThread true => false | _ => true end.

Definition may_step (p : pc) : nat :=
  match p with PC1b | PC1c | PStep => 1 | _ => 0 end.

Lemma rcf_enabled c dd : distb (c_pc c) = Some dd -> c_pc c <> PExited ->
  exists c', step c (MThread false) = Some c'.
Proof.
  destruct c as [p r s t n w d tr]; simpl. destruct p; simpl; intros; try discriminate; eauto; congruence.
Qed.

Lemma rcf_move c m c' dd : distb (c_pc c) = Some dd -> rc_false m = true -> step c m = Some c' ->
  exists d' post, distb (c_pc c') = Some d' /\ d' + (if is_thread_move m then 1 else 0) <= dd
    /\ c_trace c' = post ++ c_trace c /\ count_steps post + may_step (c_pc c') <= may_step (c_pc c).
Proof.
  intros D F H. step_cases c m H; simpl in *; try discriminate;
  injection D as <-;
  try (eexists _, []; simpl; repeat split; try reflexivity; simpl; lia);
  try (eexists _, [_]; simpl; repeat split; try reflexivity; simpl; lia);
  try (destruct s; eexists _, []; simpl; repeat split; try reflexivity; simpl; lia);
  try (destruct t; eexists _, []; simpl; repeat split; try reflexivity; simpl; lia).
Qed.

Lemma bounded_exit_rc_false c ms c' d :
  distb (c_pc c) = Some d -> forallb rc_false ms = true -> run_moves c ms = Some c' ->
  (c_pc c' <> PExited -> exists c'', step c' (MThread false) = Some c'')
  /\ thread_moves ms <= d /\ d <= exit_bound_rc
  /\ (d <= thread_moves ms -> c_pc c' = PExited)
  /\ (exists post, c_trace c' = post ++ c_trace c /\ count_steps post <= 1).
Proof.
  intros D F H.
  assert (G : exists d' post, distb (c_pc c') = Some d' /\ d' + thread_moves ms <= d
              /\ c_trace c' = post ++ c_trace c /\ count_steps post + may_step (c_pc c') <= may_step (c_pc c)).
  { revert c d D H. induction ms as [|m ms IH]; simpl; intros c d D H.
    - injection H as <-. exists d, []. simpl. repeat split; auto; lia.
    - simpl in F. apply andb_true_iff in F. destruct F as [F1 F2].
      destruct (step c m) as [c1|] eqn:E; [|discriminate].
      destruct (rcf_move _ _ _ _ D F1 E) as (d1 & p1 & D1 & L1 & E1 & S1).
      destruct (IH F2 _ _ D1 H) as (d2 & p2 & D2 & L2 & E2 & S2).
      exists d2, (p2 ++ p1). repeat split; auto; try lia.
      + rewrite E2, E1, app_assoc. reflexivity.
      + rewrite count_steps_app. lia. }
  destruct G as (d' & post & D' & L & E & S).
  split; [intros N; eapply rcf_enabled; eauto|].
  split; [lia|]. split.
  { destruct (c_pc c); simpl in D; try discriminate; injection D as <-; unfold exit_bound_rc; lia. }
  split.
  { intros X. assert (d' = 0) by lia. subst d'. destruct (c_pc c'); simpl in D'; try discriminate; auto. }
  exists post. split; auto. assert (may_step (c_pc c) <= 1) by (destruct (c_pc c); simpl; lia). lia.
Qed.

(* ---------- the executable word semantics stays inside [reachable] ---------- *)
Lemma R_thread b c c' : reachable c -> tstep b c = Some c' -> reachable c'.
Proof. intros R H. apply (R_step _ c (MThread b)); auto. Qed.

Lemma settle_reachable f c : reachable c -> reachable (settle f c).
Proof.
  revert c. induction f as [|f IH]; simpl; intros c R; auto.
  destruct (observable (c_pc c)); auto.
  destruct (tstep false c) as [c1|] eqn:E; auto.
  apply IH. eapply R_thread; eauto.
Qed.

Lemma thread_token_reachable b c : reachable c -> reachable (thread_token b c).
Proof.
  intros R. unfold thread_token. change (step c (MThread b)) with (tstep b c). destruct (tstep b c) as [c1|] eqn:E; auto.
  apply settle_reachable. eapply R_thread; eauto.
Qed.

Lemma wake_reachable c : reachable c -> reachable (wake c).
Proof.
  intros R. unfold wake. destruct (c_pc c); auto. destruct (c_woken c); auto.
  apply thread_token_reachable; auto.
Qed.

Lemma complete_reboot_reachable c : reachable c -> reachable (complete_reboot c).
Proof.
  intros R. unfold complete_reboot. destruct (c_mid c); auto.
  destruct (step c MRebootEnd) as [c1|] eqn:E; auto. eapply R_step; eauto.
Qed.

Lemma do_token_reachable c t : reachable c -> reachable (do_token c t).
Proof.
  intros R. destruct t; unfold do_token; auto using thread_token_reachable.
  destruct (step c (MCmd k)) as [c1|] eqn:E; auto.
  apply wake_reachable. apply complete_reboot_reachable. eapply R_step; eauto.
Qed.

Lemma run_word_reachable w c : reachable c -> reachable (run_word c w).
Proof.
  revert c. induction w as [|t w IH]; simpl; intros c R; auto.
  apply IH. apply do_token_reachable; auto.
Qed.

Lemma free_run_reachable f c : reachable c -> reachable (free_run f c).
Proof.
  revert c. induction f as [|f IH]; simpl; intros c R; auto.
  destruct (tstep true c) as [c1|] eqn:E; auto.
  apply IH. eapply R_thread; eauto.
Qed.

Lemma finish_reachable c : reachable c -> reachable (finish c).
Proof.
  intros R. unfold finish.
  apply do_token_reachable. apply free_run_reachable.
  set (c1 := match c_pc c with PHeld => thread_token true c | _ => c end).
  assert (R1 : reachable c1) by (unfold c1; destruct (c_pc c); auto using thread_token_reachable).
  destruct (c_pc c1); auto using do_token_reachable.
Qed.

(* a run of the executable step function is a derivation of [reachable], and conversely *)
Lemma reachable_iff_run c : reachable c <-> exists ms, run_moves init ms = Some c.
Proof.
  split.
  - induction 1 as [|c m c' R (ms & IH) H].
    + exists []. reflexivity.
    + exists (ms ++ [m]). revert IH. generalize init. induction ms as [|m0 ms IHms]; simpl; intros c0 IH.
      * injection IH as ->. unfold reachable in *. fold step in H. rewrite H. reflexivity.
      * destruct (step c0 m0); [|discriminate]. auto.
  - intros (ms & H). eapply run_moves_reachable; eauto. constructor.
Qed.

(* the thread is always brought to a schedule point; between tokens the controller is never inside reboot() *)
Definition wordstate (c : config) : Prop := observable (c_pc c) = true /\ c_mid c = false.

Lemma tstep_mid b c c' : tstep b c = Some c' -> c_mid c' = c_mid c.
Proof.
  destruct c as [p r s t n w d tr]. destruct p; simpl; intros H; split_ifs H; try discriminate H;
  injection H as <-; reflexivity.
Qed.

Lemma settle_mid f c : c_mid (settle f c) = c_mid c.
Proof.
  revert c. induction f as [|f IH]; simpl; intros c; auto.
  destruct (observable (c_pc c)); auto.
  destruct (tstep false c) as [c1|] eqn:E; auto. rewrite IH. eapply tstep_mid; eauto.
Qed.

Lemma settle_observable c : c_mid c = false -> observable (c_pc (settle 8 c)) = true.
Proof. destruct c as [p r s t n w d tr]. simpl. intros ->. destruct p, r, s, t; reflexivity. Qed.

Lemma thread_token_ws b c : wordstate c -> wordstate (thread_token b c).
Proof.
  intros (O & M). unfold thread_token. change (step c (MThread b)) with (tstep b c).
  destruct (tstep b c) as [c1|] eqn:E; [|split; auto].
  pose proof (tstep_mid _ _ _ E) as M1. rewrite M in M1.
  split; [apply settle_observable; auto | rewrite settle_mid; auto].
Qed.

Lemma cmd_pc c k c' : step c (MCmd k) = Some c' -> c_pc c' = c_pc c.
Proof.
  intros H. unfold step, step_with in H. destruct c as [p r s t n w d tr].
  destruct k, p; simpl in H; split_ifs H; try discriminate H; injection H as <-; reflexivity.
Qed.

Lemma complete_reboot_ws c : observable (c_pc c) = true -> wordstate (complete_reboot c).
Proof.
  unfold complete_reboot, wordstate. destruct c as [p r s t n w d tr]; simpl. destruct d; simpl; auto.
Qed.

Lemma wake_ws c : wordstate c -> wordstate (wake c).
Proof.
  intros W. unfold wake. destruct (c_pc c); auto. destruct (c_woken c); auto using thread_token_ws.
Qed.

Lemma do_token_ws c t : wordstate c -> wordstate (do_token c t).
Proof.
  intros W. destruct t; unfold do_token; auto using thread_token_ws.
  destruct (step c (MCmd k)) as [c1|] eqn:E; auto.
  apply wake_ws. apply complete_reboot_ws. rewrite (cmd_pc _ _ _ E). apply W.
Qed.

Lemma run_word_ws w c : wordstate c -> wordstate (run_word c w).
Proof.
  revert c. induction w as [|t w IH]; simpl; intros c O; auto using do_token_ws.
Qed.

Lemma free_run_exits f c : reachable c -> c_td c = true -> c_mid c = false -> dist (c_pc c) <= f ->
  c_pc (free_run f c) = PExited.
Proof.
  revert c. induction f as [|f IH]; simpl; intros c R T M D.
  - apply dist_0. lia.
  - change (tstep true c) with (step c (MThread true)).
    destruct (step c (MThread true)) as [c1|] eqn:E.
    + destruct (td_move _ _ _ T E) as (T1 & D1). simpl in D1.
      apply IH; auto; [eapply R_step; eauto | rewrite (tstep_mid _ _ _ E); auto | lia].
    + destruct (c_pc c) eqn:P; auto;
        destruct (td_thread_enabled c true R T) as (X & _); try congruence;
        destruct (X M) as (c2 & Y); congruence.
Qed.

Lemma free_run_exited f c : c_pc c = PExited -> free_run f c = c.
Proof. destruct f; simpl; auto. destruct c as [p r s t n w d tr]; simpl. intros ->. reflexivity. Qed.

Lemma tstep_td b c c' : tstep b c = Some c' -> c_td c' = c_td c.
Proof.
  destruct c as [p r s t n w d tr]. destruct p; simpl; intros H; split_ifs H; try discriminate H;
  injection H as <-; reflexivity.
Qed.

Lemma settle_td f c : c_td (settle f c) = c_td c.
Proof.
  revert c. induction f as [|f IH]; simpl; intros c; auto.
  destruct (observable (c_pc c)); auto.
  destruct (tstep false c) as [c1|] eqn:E; auto. rewrite IH. eapply tstep_td; eauto.
Qed.

Lemma thread_token_td b c : c_td (thread_token b c) = c_td c.
Proof.
  unfold thread_token. change (step c (MThread b)) with (tstep b c).
  destruct (tstep b c) as [c1|] eqn:E; auto. rewrite settle_td. eapply tstep_td; eauto.
Qed.

Lemma wake_td c : c_td (wake c) = c_td c.
Proof. unfold wake. destruct (c_pc c); auto. destruct (c_woken c); auto using thread_token_td. Qed.

Lemma teardown_token_td c : mutex_free (c_pc c) = true -> c_mid c = false -> c_td (do_token c (KCmd Teardown)) = true.
Proof.
  intros M N. unfold do_token. destruct c as [p r s t n w d tr]. simpl in *. subst d. rewrite M. simpl.
  rewrite wake_td. reflexivity.
Qed.

(* end of every schedule word: teardown at the point reached, then the thread
   running freely with run_condition = true, always exits; wait is enabled *)
Lemma finish_exits c : reachable c -> wordstate c ->
  c_pc (finish c) = PExited /\ exists tr, c_trace (finish c) = ECmd Wait :: tr.
Proof.
  intros R W. unfold finish.
  set (c1 := match c_pc c with PHeld => thread_token true c | _ => c end).
  assert (R1 : reachable c1) by (unfold c1; destruct (c_pc c); auto using thread_token_reachable).
  assert (W1 : wordstate c1) by (unfold c1; destruct (c_pc c); auto using thread_token_ws).
  assert (N1 : c_pc c1 <> PHeld).
  { unfold c1. destruct (c_pc c) eqn:P; try (rewrite P; discriminate).
    unfold thread_token. destruct c as [p r s t n w d tr]; simpl in *; subst p; simpl.
    destruct (r || t); simpl; discriminate. }
  assert (M2 : forall t, c_mid (do_token c1 t) = false) by (intros t; apply (proj2 (do_token_ws _ t W1))).
  destruct W1 as (O1 & M1).
  set (c2 := match c_pc c1 with PExited => c1 | _ => do_token c1 (KCmd Teardown) end).
  assert (X : reachable c2 /\ (c_pc c2 = PExited \/ c_td c2 = true)).
  { unfold c2. destruct (c_pc c1) eqn:P; try (split; [auto|left; auto]; fail);
      try discriminate O1; try congruence;
      (split; [apply do_token_reachable; auto|right]);
      apply teardown_token_td; auto; rewrite P; reflexivity. }
  destruct X as (R2 & X).
  assert (E3 : c_pc (free_run 40 c2) = PExited).
  { destruct X as [X|X]; [rewrite free_run_exited; auto|].
    apply free_run_exits; auto.
    - unfold c2. destruct (c_pc c1); auto.
    - pose proof (dist_bound (c_pc c2)). unfold exit_bound in *. lia. }
  remember (free_run 40 c2) as c3. destruct c3 as [p r s t n w d tr]; simpl in *. subst p.
  unfold do_token, step, step_with. simpl. unfold complete_reboot. simpl.
  destruct d; simpl; eauto.
Qed.

(* ---------- the relational presentation and the executable step function agree ---------- *)
Lemma sstep_step c m c' : sstep c m c' -> step c m = Some c'.
Proof.
  destruct 1; simpl; try reflexivity;
  try (destruct H as [-> | ->]; simpl; rewrite H0; reflexivity);
  try (rewrite H; reflexivity).
Qed.

Lemma step_sstep c m c' : step c m = Some c' -> sstep c m c'.
Proof.
  intros H. destruct c as [p r s t n w d tr]; unfold step, step_with in H.
  destruct m as [b| |k|]; [ | | destruct k | ]; destruct p; simpl in H;
  split_ifs H; try discriminate H; injection H as <-;
  repeat match goal with
         | X : _ && _ = true |- _ => apply andb_true_iff in X; destruct X
         | X : negb _ = true |- _ => apply negb_true_iff in X; subst
         end;
  try (constructor; auto; fail);
  try (apply (S_pass _ PHeld); auto; fail); try (apply (S_pass _ PRecheck); auto; fail);
  try (apply (S_block _ PHeld); auto; fail); try (apply (S_block _ PRecheck); auto; fail).
  all: try (apply (S_rc1 true)); try (apply (S_rc1 false)); try (apply (S_rc2 true)); try (apply (S_rc2 false)).
  all: try (apply (S_td1 b _ _ true)); try (apply (S_td1 b _ _ false)).
  all: try (apply (S_rs1 b _ true)); try (apply (S_rs1 b _ false)).
  all: try (apply (S_run2 b true)); try (apply (S_run2 b false)).
  all: try (apply (S_rs2 b _ true)); try (apply (S_rs2 b _ false)).
  all: try (apply (S_td2 b _ _ true)); try (apply (S_td2 b _ _ false)).
Qed.

Lemma sstep_iff_step c m c' : sstep c m c' <-> step c m = Some c'.
Proof. split; [apply sstep_step | apply step_sstep]. Qed.

Lemma reachable_rel_iff c : reachable_rel c <-> reachable c.
Proof.
  split.
  - induction 1 as [|c m c' R IH H]; [constructor|].
    apply (R_step _ c m); [exact IH | apply sstep_step; exact H].
  - induction 1 as [|c m c' R IH H]; [constructor|].
    apply (RR_step c m); [exact IH | apply step_sstep; exact H].
Qed.


(* ---------- answers of step_number() / is_running() against the history ---------- *)
Lemma query_answers c post e suf :
  reachable c -> c_trace c = post ++ e :: suf ->
  match e with
  | EQStep k => qstep_ok k suf = true
  | EQRun false => can_be_false suf = true
  | EQRun true => runreq suf = true /\ rae suf <> Some false
  | _ => True
  end.
Proof.
  intros R E. pose proof (reachable_good_suffix _ _ _ R E) as G.
  apply good_parts in G. destruct G as (_ & _ & _ & G). simpl in G.
  destruct e as [| | | |[|]| |]; auto.
  apply andb_true_iff in G. destruct G as (G1 & G2). split; auto.
  intros X. rewrite X in G2. discriminate.
Qed.

(* ---------- bounded exit, clause (b'): run_ is up, run_condition false from now on ---------- *)
(* own moves to PExited when run_ = true and every run_condition() answers false *)
Definition dist2 (p : pc) : nat :=
  match p with
  | PExited => 0 | PDone => 1 | PFinal => 2 | PC2a => 3 | PAfter => 4 | PC1a => 5
  | PInc => 6 | PStepBody => 7 | PStep => 8 | PC1c => 9 | PC1b => 10
  | PInitBody => 6 | PInit => 7 | PHeld => 8 | PRecheck => 8 | PLock => 9 | PSleep => 9
  | PZero => 10 | PTop => 11 | PC2d => 12 | PC2c => 13 | PC2b => 13
  end.

Definition exit_bound_running : nat := 13.

Definition may_init (p : pc) : nat :=
  match p with
  | PTop | PZero | PLock | PHeld | PSleep | PRecheck | PInit | PC2b | PC2c | PC2d => 1
  | _ => 0
  end.

Fixpoint count_inits (l : list event) : nat :=
  match l with [] => 0 | EInit :: t => S (count_inits t) | _ :: t => count_inits t end.

Lemma count_inits_app a b : count_inits (a ++ b) = count_inits a + count_inits b.
Proof. induction a as [|[] a IH]; simpl; lia. Qed.

(* continuation without reboot() and with only false run_condition answers *)
Definition quiet_rc (m : move) : bool :=
  match m with MThread true | MCmd Reboot => false | _ => true end.

Definition running_or_done (c : config) : Prop :=
  c_mid c = false /\ (c_run c = true \/ c_pc c = PDone \/ c_pc c = PExited).

Lemma rcr_move c m c' : running_or_done c -> quiet_rc m = true -> step c m = Some c' ->
  running_or_done c'
  /\ exists post, c_trace c' = post ++ c_trace c
     /\ dist2 (c_pc c') + (if is_thread_move m then 1 else 0) <= dist2 (c_pc c)
     /\ count_steps post + may_step (c_pc c') <= may_step (c_pc c)
     /\ count_inits post + may_init (c_pc c') <= may_init (c_pc c).
Proof.
  unfold running_or_done. intros (M & Rn) F H. step_cases c m H; simpl in *; subst; try discriminate;
  try (destruct Rn as [X|[X|X]]; [try discriminate X; try subst r|discriminate X|discriminate X]);
  (split; [split; auto; tauto |]);
  try (exists []; simpl; repeat split; try lia; fail);
  try (eexists [_]; simpl; repeat split; try lia; fail);
  try (destruct s; exists []; simpl; repeat split; lia);
  try (destruct t; exists []; simpl; repeat split; lia).
Qed.

Lemma rcr_enabled c : reachable c -> running_or_done c -> c_pc c <> PExited ->
  exists c', step c (MThread false) = Some c'.
Proof.
  intros R (M & Rn) N. pose proof (reachable_inv _ R) as (I1 & _).
  destruct c as [p r s t n w d tr]; simpl in *. subst d. destruct I1 as (_ & I2 & _).
  destruct p; simpl; eauto; try congruence;
  destruct Rn as [X|[X|X]]; try discriminate X; subst r; simpl; eauto.
  destruct w; simpl; eauto. destruct (I2 eq_refl eq_refl eq_refl); discriminate.
Qed.

Lemma bounded_exit_running c ms c' :
  reachable c -> c_run c = true -> c_mid c = false ->
  forallb quiet_rc ms = true -> run_moves c ms = Some c' ->
  (c_pc c' <> PExited -> exists c'', step c' (MThread false) = Some c'')
  /\ thread_moves ms <= dist2 (c_pc c) /\ dist2 (c_pc c) <= exit_bound_running
  /\ (dist2 (c_pc c) <= thread_moves ms -> c_pc c' = PExited)
  /\ exists post, c_trace c' = post ++ c_trace c
       /\ count_steps post <= may_step (c_pc c) /\ count_inits post <= may_init (c_pc c).
Proof.
  intros R Hr Hm F H.
  assert (G : running_or_done c' /\ exists post, c_trace c' = post ++ c_trace c
              /\ dist2 (c_pc c') + thread_moves ms <= dist2 (c_pc c)
              /\ count_steps post + may_step (c_pc c') <= may_step (c_pc c)
              /\ count_inits post + may_init (c_pc c') <= may_init (c_pc c)).
  { assert (RD : running_or_done c) by (split; auto). clear Hr Hm R.
    revert c RD H. induction ms as [|m ms IH]; simpl; intros c RD H.
    - injection H as <-. split; auto. exists []. simpl. repeat split; lia.
    - simpl in F. apply andb_true_iff in F. destruct F as [F1 F2].
      destruct (step c m) as [c1|] eqn:E; [|discriminate].
      destruct (rcr_move _ _ _ RD F1 E) as (RD1 & p1 & E1 & L1 & S1 & N1).
      destruct (IH F2 _ RD1 H) as (RD2 & p2 & E2 & L2 & S2 & N2).
      split; auto. exists (p2 ++ p1). rewrite count_steps_app, count_inits_app.
      repeat split; try lia. rewrite E2, E1, app_assoc. reflexivity. }
  destruct G as (RD' & post & E & L & S & N).
  split; [intros X; apply rcr_enabled; auto; eapply run_moves_reachable; eauto|].
  split; [lia|]. split; [destruct (c_pc c); simpl; unfold exit_bound_running; lia|].
  split.
  { intros X. assert (Z : dist2 (c_pc c') = 0) by lia. destruct (c_pc c'); simpl in Z; try discriminate; auto. }
  exists post. repeat split; auto; lia.
Qed.

(* ... and the carve-out is genuine: with run_ down the thread goes to sleep and stays there *)
Definition parked (c : config) : Prop :=
  c_pc c = PSleep /\ c_woken c = false /\ c_mid c = false.

Definition no_wake (m : move) : bool :=
  match m with MCmd Run | MCmd Reboot | MCmd Teardown | MSpurious | MRebootEnd => false | _ => true end.

Lemma parked_stays c m c' : parked c -> no_wake m = true -> step c m = Some c' -> parked c'.
Proof.
  destruct c as [p r s t n w d tr]. intros (P & W & M) F H. simpl in *. subst.
  destruct m as [b| |k|]; try discriminate; simpl in H; try discriminate.
  destruct k; simpl in *; try discriminate; injection H as <-; repeat split.
Qed.

Lemma parked_forever ms : forall c0 c'', parked c0 -> forallb no_wake ms = true ->
  run_moves c0 ms = Some c'' -> parked c''.
Proof.
  induction ms as [|m ms IH]; simpl; intros c0 c'' P F H.
  - injection H as <-. auto.
  - apply andb_true_iff in F. destruct F as [F1 F2].
    destruct (step c0 m) as [c1|] eqn:E; [|discriminate].
    apply (IH c1); auto. apply (parked_stays c0 m); auto.
Qed.

Lemma parked_disabled c : parked c -> (forall b, step c (MThread b) = None) /\ step c (MCmd Wait) = None.
Proof.
  destruct c as [p r s t n w d tr]. intros (P & W & M). simpl in *. subst. split; reflexivity.
Qed.

Definition asleep0 : config := mk PSleep false false false 0 false false [].

(* from the very first configuration (run_ down, no teardown) the thread, left to itself, parks in
   cv_run_.wait after 4 moves and - whatever reset()/queries follow, whatever run_condition would
   answer - never moves again and wait() is never enabled *)
Lemma not_running_sleeps :
  reachable init /\ c_run init = false /\ c_td init = false /\ distb (c_pc init) = None
  /\ run_moves init (repeat (MThread false) 4) = Some asleep0
  /\ forall ms c'', forallb no_wake ms = true -> run_moves asleep0 ms = Some c'' ->
       c_pc c'' <> PExited /\ (forall b, step c'' (MThread b) = None) /\ step c'' (MCmd Wait) = None.
Proof.
  split; [constructor|]. repeat (split; [reflexivity|]).
  intros ms c'' F H.
  assert (P : parked c'') by (apply (parked_forever ms asleep0); auto; repeat split).
  split; [destruct P as (X & _); rewrite X; discriminate | apply parked_disabled; auto].
Qed.

(* ---------- commands issued before boot() ---------- *)
(* boot() only creates the thread; a command issued before it acts on the same flags as one issued
   after it while the thread has not moved yet.  Every valuation of (run_, reset_, teardown_) a
   pre-boot command sequence can produce is reachable with the thread still at its first point. *)
Lemma preboot_valuations r s t :
  exists ks c, run_moves init ks = Some c /\ c_pc c = PTop /\ c_mid c = false
               /\ c_run c = r /\ c_rst c = s /\ c_td c = t
               /\ forallb (fun m => match m with MCmd _ | MRebootEnd => true | _ => false end) ks = true.
Proof.
  exists ((if s then [MCmd Reset] else []) ++ (if r then [MCmd Run] else []) ++ (if t then [MCmd Teardown] else [])).
  destruct r, s, t; eexists; vm_compute; repeat split; reflexivity.
Qed.
