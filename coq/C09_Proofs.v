(* C09_Proofs.v — invariants of the lifecycle model over ALL reachable
   configurations (all interleavings, all command sequences, all
   run_condition answers), by induction on the derivation of [reachable]. *)
Require Import List Bool Arith Lia.
Require Import BFL.C09_Model.
Import ListNotations.

(* ---------- generic case-analysis tactics ---------- *)
Ltac split_ifs H :=
  repeat match type of H with
         | context [if ?x then _ else _] => destruct x eqn:?
         end.

Ltac step_cases c m H :=
  destruct c as [p r s t n w tr]; unfold step, step_with in H;
  destruct m as [b| |k]; [ | | destruct k]; destruct p; simpl in H;
  split_ifs H; try discriminate H;
  injection H as <-; simpl in *.

(* ---------- local invariants ---------- *)
Definition cur_ok (n : nat) (lt : option event) : Prop :=
  match n with 0 => lt = Some EInit | S k => lt = Some (EStep k) end.

Definition L_epoch (p : pc) (n : nat) (lt : option event) : Prop :=
  match p with
  | PTop | PZero => lt <> Some EExit
  | PLock | PHeld | PSleep | PRecheck | PInit => n = 0 /\ lt <> Some EExit
  | PInitBody => n = 0 /\ lt = Some EInit
  | PC1a | PC1b | PC1c | PStep => cur_ok n lt
  | PStepBody | PInc => lt = Some (EStep n)
  | PAfter | PC2a | PC2b | PC2c | PC2d | PFinal => is_init_or_step lt = true
  | PDone | PExited => lt = Some EExit
  end.

Definition L_req (p : pc) (t : bool) (rq : bool) : Prop :=
  match p with
  | PC1c | PStep | PStepBody | PInc => rq = true
  | PInit | PInitBody | PC1a | PC1b => rq = true \/ t = true
  | _ => True
  end.

Definition Inv1 (c : config) : Prop :=
  let '(mk p r s t n w tr) := c in
  (r = true -> runreq tr = true)
  /\ (p = PSleep -> w = false -> r = false /\ t = false)
  /\ (rae tr = Some false -> r = false)
  /\ L_epoch p n (last_thr tr)
  /\ L_req p t (runreq tr).

Lemma inv1_init : Inv1 init.
Proof. simpl. repeat split; intros; try discriminate; auto. Qed.

Lemma inv1_step c m c' : Inv1 c -> step c m = Some c' -> Inv1 c'.
Proof.
  intros I H. step_cases c m H;
  destruct I as (I1 & I2 & I3 & I4 & I5);
  repeat split; intros; simpl in *;
  try discriminate; try congruence; auto;
  try (destruct I4; congruence);
  try (destruct I2; auto; congruence);
  try (destruct (rae tr) as [[|]|]; simpl in *; discriminate || auto; fail).
  all: try (destruct r, t; simpl in *; intuition congruence).
  all: try (destruct I4 as [-> I4]; simpl; auto; fail).
  all: try (destruct n; simpl in *; rewrite I4; simpl; auto; congruence).
  all: try (rewrite I4; simpl; auto; congruence).
  all: intro E; rewrite E in I4; discriminate.
Qed.

(* ---------- teardown monitor ---------- *)
Definition late (p : pc) : bool :=
  match p with
  | PInitBody | PC1a | PC1b | PStepBody | PInc | PAfter | PC2a | PC2b | PC2c | PC2d | PFinal | PDone | PExited => true
  | _ => false
  end.

Definition InvTd (c : config) : Prop :=
  let '(mk p r s t n w tr) := c in
  match tdm tr with
  | None => t = false
  | Some k => t = true /\ k <= 1 /\ (k = 1 -> late p = true)
  end.

Lemma invtd_init : InvTd init.
Proof. reflexivity. Qed.

Lemma invtd_step c m c' : InvTd c -> step c m = Some c' -> InvTd c'.
Proof.
  intros I H. step_cases c m H;
  destruct (tdm tr) as [[|[|k]]|]; simpl in *;
  try (destruct I as (I1 & I2 & I3));
  repeat split; intros; subst; simpl in *;
  try discriminate; try congruence; auto; try lia;
  try (specialize (I3 eq_refl); discriminate).
Qed.

(* ---------- reset / reboot monitor ---------- *)
Definition inep (p : pc) : bool :=
  match p with
  | PInitBody | PC1a | PC1b | PC1c | PStep | PStepBody | PInc => true
  | _ => false
  end.

Definition InvPend (c : config) : Prop :=
  let '(mk p r s t n w tr) := c in
  match pend tr with
  | None => True
  | Some k => k <= 1 /\ (p = PStep -> k = 0) /\ (inep p = true -> s = true)
  end.

Lemma invpend_init : InvPend init.
Proof. exact I. Qed.

Lemma invpend_step c m c' : InvPend c -> step c m = Some c' -> InvPend c'.
Proof.
  intros I H. step_cases c m H;
  destruct (pend tr) as [[|[|k]]|]; simpl in *;
  try (destruct I as (I1 & I2 & I3));
  repeat split; intros; subst; simpl in *;
  try discriminate; try congruence; auto; try lia;
  try (specialize (I2 eq_refl); lia);
  try (specialize (I3 eq_refl); congruence).
Qed.
