(* C17_Regress.v — the transcription of HistoryBuffer::setHistorySize BEFORE
   fix 3576481, kept so that a reintroduction of the defect is recognised.
   Not part of any property theorem, not extracted.

   C++ (snapshot 00682bb):
     if (tmp < window_ && tmp < history_buffer_.size())
         for (unsigned int i = 0; i < (window_ - tmp); ++i) history_buffer_.pop_back();
   (pop_back on an empty deque is undefined behaviour; removelast [] = [] is the
   most benign reading.) *)
Require Import ZArith List Lia.
Require Import BFL.C17_Model.
Import ListNotations.

Section Old.
Variable A : Type.

Fixpoint pop_n (k : nat) (b : list A) : list A :=
  match k with O => b | S k' => pop_n k' (removelast b) end.

Definition old_hist_set_size (w : Z) (h : hist A) : hist A :=
  if (w =? Z.of_nat (window h))%Z then h
  else let tmp := clamp_window w in
       mkHist tmp (if (Nat.ltb tmp (window h) && Nat.ltb tmp (length (buf h)))%bool
                   then pop_n (window h - tmp) (buf h) else buf h).

(* 3 stored, window 5 -> 2: nothing is left, although the 2 most recent should be kept *)
Lemma old_shrink_keeps_recent_refuted (a b c : A) :
  exists h w, length (buf h) <= window h /\ 2 <= window h <= 30 /\
    buf (old_hist_set_size w h) <> firstn (window (old_hist_set_size w h)) (buf h).
Proof.
  exists (mkHist 5 [a; b; c]), 2%Z. simpl. repeat split; try lia. discriminate.
Qed.

(* the repaired code on the same input *)
Lemma new_shrink_on_the_witness (a b c : A) :
  buf (hist_set_size 2 (mkHist 5 [a; b; c])) = [a; b].
Proof. reflexivity. Qed.
End Old.

(* ------------------------------------------------------------------ *)
(* directional_mean's single-column branch BEFORE /repo dee9c81: the one
   column was returned as it was.  EstimatesExtraction::mean (one particle)
   and every windowed variant with exactly one stored estimate therefore
   returned circular components unwrapped: congruent modulo 2 PI, but outside
   (-PI, PI] whenever the input was.  Kept so that a reintroduction is
   recognised (the check's corpus has single particles at 7.0 / -9.5 rad). *)
Require Import Reals Lra.
Require Import BFL.Ops BFL.C19_ROps BFL.C19_Model.
Local Open Scope R_scope.

Definition old_dir_mean (S : SOps) (cols : nat) (a : list (list (T S))) (w : list (T S)) : list (T S) :=
  if Nat.eqb cols 1 then map (fun row => nth 0 row (s0 S)) a
  else map (fun row => mean_row S row w) a.

(* old statement (C17_mean_circular_on_circle, first version): one particle is returned as it is ... *)
Lemma old_single_column_as_is (a : R) (w : list R) : old_dir_mean ROps 1 [[a]] w = [a].
Proof. reflexivity. Qed.

(* ... hence "every circular output lies in (-PI, PI]" was false of the old code *)
Lemma old_circular_in_range_refuted :
  exists (a : R) (w : list R), ~ (- PI < nth 0 (old_dir_mean ROps 1 [[a]] w) 0 <= PI).
Proof.
  exists 7, [1]. rewrite old_single_column_as_is. cbn [nth]. intros [_ H].
  pose proof PI_4 as P4. lra.
Qed.
