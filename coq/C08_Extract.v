(* C08_Extract.v — executable entry points of the C08 model at the list instance,
   for the correspondence check.  ExtrOcamlBasic only.  The square-root oracle
   (Eigen's LDL^T-based factor) is supplied by the driver. *)
Require Import ZArith List.
Require Import BFL.Ops BFL.ListOps BFL.Density BFL.C01_Model BFL.C08_Model.
Require Import Extraction ExtrOcamlBasic.
Import ListNotations.

Definition c08_O (S : SOps) (sq : nat -> lmx S -> lmx S) : MatOps := ListMat S sq (fun _ A => A).

(* a particle as a tuple: position, mean, covariance, log-weight *)
Definition ptuple (S : SOps) : Type := (lmx S * lmx S * lmx S * T S)%type.

Definition c08_of_tuple (S : SOps) sq (n : nat) (p : ptuple S) : particle (c08_O S sq) n :=
  let '(x, m, P, w) := p in @mkParticle (c08_O S sq) n x m P w.
Definition c08_to_tuple (S : SOps) sq (n : nat) (p : particle (c08_O S sq) n) : ptuple S :=
  (pstate p, pmean p, pcov p, plw p).

(* transition model of the correction step: 0 = linear-Gaussian N(cur; Ft prev, Qt)
   (WhiteNoiseAcceleration and the harness LTI model), 1 = harness Cauchy-like density *)
Definition c08_trans (S : SOps) sq (n : nat) (kind : nat) (Ft Qt : lmx S)
  : list (lmx S) -> list (lmx S) -> list (T S) :=
  match kind with
  | 0 => @lin_trans (c08_O S sq) n Ft Qt
  | _ => @cauchy_trans (c08_O S sq) n Ft
  end.

(* per step: measurement y, validity of measure(), scripted validity of the
   likelihood model, the draws (one n x 1 matrix per particle) *)
Definition step_tuple (S : SOps) : Type := (lmx S * bool * bool * list (lmx S))%type.

Definition c08_step_in (S : SOps) sq (n m : nat) (F Q H R : lmx S) (scale : T S)
           (tkind : nat) (Ft Qt : lmx S) (s : step_tuple S) : step_in (c08_O S sq) n :=
  let '(y, mv, lok, zs) := s in
  @mkStepIn (c08_O S sq) n
    (@kf_pred_gstep (c08_O S sq) n F Q)
    (@kf_corr_gstep (c08_O S sq) n m mv H R y)
    (@scripted_lik (c08_O S sq) n lok (@gauss_lik (c08_O S sq) n m scale mv H R y))
    (c08_trans S sq n tkind Ft Qt)
    zs.

(* result per step: predicted set, corrected set, validity, likelihood values *)
Definition c08_trace (S : SOps) sq (n m : nat) (F Q H R : lmx S) (scale : T S)
           (tkind : nat) (Ft Qt : lmx S)
           (pred0 corr0 : list (ptuple S)) (steps : list (step_tuple S))
  : list (list (ptuple S) * list (ptuple S) * bool * list (T S)) :=
  let st0 := @mkFstate (c08_O S sq) n (map (c08_of_tuple S sq n) pred0)
                       (map (c08_of_tuple S sq n) corr0) false [] in
  map (fun st => (map (c08_to_tuple S sq n) (fs_pred st), map (c08_to_tuple S sq n) (fs_corr st),
                  fs_valid st, fs_lik st))
      (gpf_trace st0 (map (c08_step_in S sq n m F Q H R scale tkind Ft Qt) steps)).

(* the per-particle ingredients of the weight update of one correction, for the
   oracle: proposal density q_i at the drawn position *)
Definition c08_proposal (S : SOps) sq (n : nat) (x m P : lmx S) : T S :=
  @evaluate_proposal (c08_O S sq) n x m P.

Extraction "C08_model.ml" c08_trace c08_proposal.
