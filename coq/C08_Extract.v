(* C08_Extract.v — executable entry points of the C08 model at the list instance,
   for the correspondence check.  ExtrOcamlBasic only.  The square root used for the
   proposal draws is the Gallina LDL^T of C08_Model (ldlt_sqrt); the record's msqrt
   oracle is only used by the unscented wrapped steps (C05's sigma points: a factor
   equivalent to Eigen's U sqrt(S)) and is supplied by the driver. *)
Require Import ZArith List.
Require Import BFL.Ops BFL.ListOps BFL.Density BFL.C01_Model BFL.C05_Model BFL.C08_Model.
Require Import Extraction ExtrOcamlBasic.
Import ListNotations.

Definition c08_O (S : SOps) (sq : nat -> lmx S -> lmx S) : MatOps := ListMat S sq (fun _ A => A).

(* a particle as a tuple: position, mean, covariance, log-weight *)
Definition ptuple (S : SOps) : Type := (lmx S * lmx S * lmx S * T S)%type.

Definition c08_of_tuple (S : SOps) sq (n : nat) (p : ptuple S) : particle (c08_O S sq) n :=
  let '(x, m, P, w) := p in @mkParticle (c08_O S sq) n x m P w.
Definition c08_to_tuple (S : SOps) sq (n : nat) (p : particle (c08_O S sq) n) : ptuple S :=
  (pstate p, pmean p, pcov p, plw p).

(* transition model of the correction step: 0 = linear-Gaussian N(cur; Ft prev, Qt)
   (WhiteNoiseAcceleration and the harness LTI model), 1 = harness Cauchy-like density *)
Definition c08_trans (S : SOps) sq (n : nat) (kind : nat) (Ft Qt : lmx S)
  : list (lmx S) -> list (lmx S) -> list (T S) :=
  match kind with
  | 0 => @lin_trans (c08_O S sq) n Ft Qt
  | _ => @cauchy_trans (c08_O S sq) n Ft
  end.

(* the fixed part of a scenario *)
Record c08_cfg (S : SOps) := mkCfg {
  cf_wrap : nat;                       (* 0 KF, 1 UKF (additive), 2 SUKF *)
  cf_ut : T S * T S * T S;             (* alpha, beta, kappa *)
  cf_hkind : nat;                      (* C05_Model.h_family *)
  cf_H : lmx S; cf_G : lmx S; cf_G2 : lmx S; cf_b : lmx S; cf_g : lmx S;
  cf_R : lmx S; cf_F : lmx S; cf_Q : lmx S;
  cf_scale : T S;
  cf_tkind : nat; cf_Ft : lmx S; cf_Qt : lmx S
}.

(* per step: measurement y; gc_usable = the wrapped correction can use the measurement;
   the four validity flags seen by GaussianLikelihood; scripted validity of the likelihood
   model; skip flags (PFPrediction, GaussianPrediction, PFCorrection, GaussianCorrection);
   the draws (one n x 1 matrix per particle) *)
Definition step_tuple (S : SOps) : Type :=
  (lmx S * bool * (bool * bool * bool * bool) * bool * (bool * bool * bool * bool) * list (lmx S))%type.

Definition c08_step_in (S : SOps) sq (n m : nat) (cf : c08_cfg S) (s : step_tuple S)
  : step_in (c08_O S sq) n * (bool * bool) :=
  let '(y, usable, (v1, v2, v3, v4), lok, (sk_pp, sk_gp, sk_pc, sk_gc), zs) := s in
  let O := c08_O S sq in
  let '(alpha, beta, kappa) := cf_ut S cf in
  let h := @h_family O n m (cf_hkind S cf) (cf_H S cf) (cf_G S cf) (cf_G2 S cf) (cf_b S cf) (cf_g S cf) in
  let w := @ut_weights O n alpha beta kappa in
  let gc : gstep O n :=
    if sk_gc then @copy_gstep O n
    else match cf_wrap S cf with
         | 0 => @kf_corr_gstep O n m usable (cf_H S cf) (cf_R S cf) y
         | 1 => @ukf_corr_gstep O n m usable w h (cf_R S cf) y
         | _ => @sukf_corr_gstep O n m usable w h (cf_R S cf) y
         end in
  let gp : gstep O n := if sk_gp then @copy_gstep O n else @kf_pred_gstep O n (cf_F S cf) (cf_Q S cf) in
  (@mkStepIn O n gp gc
     (@scripted_lik O n lok (@gauss_lik_h O n m (cf_scale S cf) v1 v2 v3 v4 h (cf_R S cf) y))
     (c08_trans S sq n (cf_tkind S cf) (cf_Ft S cf) (cf_Qt S cf))
     zs,
   (sk_pp, sk_pc)).

(* result per step: predicted set, corrected set, validity, likelihood values *)
Definition c08_trace (S : SOps) sq (n m : nat) (cf : c08_cfg S)
           (pred0 corr0 : list (ptuple S)) (valid0 : bool) (lik0 : list (T S)) (steps : list (step_tuple S))
  : list (list (ptuple S) * list (ptuple S) * bool * list (T S)) :=
  let st0 := @mkFstate (c08_O S sq) n (map (c08_of_tuple S sq n) pred0)
                       (map (c08_of_tuple S sq n) corr0) valid0 lik0 in
  map (fun st => (map (c08_to_tuple S sq n) (fs_pred st), map (c08_to_tuple S sq n) (fs_corr st),
                  fs_valid st, fs_lik st))
      (pf_trace st0 (map (c08_step_in S sq n m cf) steps)).

(* TIME-VARYING HISTORIES: every step carries its own measurement size and configuration record
   (state model F, Q; measurement function H, G, G2, b, g and noise covariance R; likelihood scale;
   transition model Ft, Qt).  This is the entry point the driver runs (one step at a time, from the
   state the implementation reported before the step); c08_trace is the special case of a constant
   configuration (C08_executed_trace_time_varying in Properties_C08.v). *)
Definition c08_step_in_tv (S : SOps) sq (n : nat) (mcs : nat * c08_cfg S * step_tuple S)
  : step_in (c08_O S sq) n * (bool * bool) :=
  let '(m, cf, s) := mcs in c08_step_in S sq n m cf s.

Definition c08_trace_tv (S : SOps) sq (n : nat)
           (pred0 corr0 : list (ptuple S)) (valid0 : bool) (lik0 : list (T S))
           (steps : list (nat * c08_cfg S * step_tuple S))
  : list (list (ptuple S) * list (ptuple S) * bool * list (T S)) :=
  let st0 := @mkFstate (c08_O S sq) n (map (c08_of_tuple S sq n) pred0)
                       (map (c08_of_tuple S sq n) corr0) valid0 lik0 in
  map (fun st => (map (c08_to_tuple S sq n) (fs_pred st), map (c08_to_tuple S sq n) (fs_corr st),
                  fs_valid st, fs_lik st))
      (pf_trace st0 (map (c08_step_in_tv S sq n) steps)).

(* proposal density and square-root factor, for the oracle / the comparison with the
   factor observed on the implementation *)
Definition c08_proposal (S : SOps) sq (n : nat) (x m P : lmx S) : T S :=
  @evaluate_proposal (c08_O S sq) n x m P.
Definition c08_ldlt (S : SOps) sq (n : nat) (P : lmx S) : lmx S := @ldlt_sqrt (c08_O S sq) n P.

Extraction "C08_model.ml" c08_trace c08_trace_tv c08_proposal c08_ldlt.
