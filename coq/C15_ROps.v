(* C15_ROps.v — scalar instances over Coq's reals for the log_sum_exp theorems
   (World B).  The plain instance ROps is the shared one of C19_ROps.v; here is
   the extension by -infinity that utils::log_sum_exp is used with (weights of
   particles with zero likelihood):

     NInf      -inf
     Fin r     a real number
     Bad       anything else an IEEE operation could return: +inf or NaN

   Bad is absorbing, so a theorem "result = Fin r" also says that neither an
   overflow nor an invalid operation (-inf - -inf, log of a negative number,
   finite - -inf = +inf, ...) happened on the way.  The operations follow IEEE
   754 on {-inf} + reals:  -inf + x = -inf, -inf - x = -inf, x - -inf = +inf,
   -inf - -inf = NaN, exp(-inf) = 0, log 0 = -inf, log(x<0) = NaN,
   -inf < x, not (-inf < -inf).  Only the fields used by lse matter
   (sadd ssub sltb sexp sln s0); the others are given their IEEE meaning where
   it stays inside the type and Bad otherwise. *)
Require Import ZArith Reals Lra.
Require Import BFL.Ops BFL.C19_ROps.
Local Open Scope R_scope.

Inductive ext : Type := NInf | Fin (r : R) | Bad.

Definition e_add (a b : ext) : ext :=
  match a, b with
  | Fin x, Fin y => Fin (x + y)
  | Bad, _ | _, Bad => Bad
  | _, _ => NInf
  end.
Definition e_sub (a b : ext) : ext :=
  match a, b with
  | Fin x, Fin y => Fin (x - y)
  | NInf, Fin _ => NInf
  | _, _ => Bad
  end.
Definition e_mul (a b : ext) : ext :=
  match a, b with Fin x, Fin y => Fin (x * y) | _, _ => Bad end.
Definition e_div (a b : ext) : ext :=
  match a, b with
  | Fin x, Fin y => if Req_EM_T y 0 then Bad else Fin (x / y)
  | _, _ => Bad
  end.
Definition e_opp (a : ext) : ext := match a with Fin x => Fin (- x) | _ => Bad end.
Definition e_leb (a b : ext) : bool :=
  match a, b with
  | NInf, NInf | NInf, Fin _ => true
  | Fin x, Fin y => Rleb x y
  | _, _ => false
  end.
Definition e_ltb (a b : ext) : bool :=
  match a, b with
  | NInf, Fin _ => true
  | Fin x, Fin y => Rltb x y
  | _, _ => false
  end.
Definition e_fun (f : R -> R) (a : ext) : ext := match a with Fin x => Fin (f x) | _ => Bad end.
Definition e_sqrt (a : ext) : ext :=
  match a with Fin x => if Rle_dec 0 x then Fin (sqrt x) else Bad | _ => Bad end.
Definition e_exp (a : ext) : ext :=
  match a with NInf => Fin 0 | Fin x => Fin (exp x) | Bad => Bad end.
Definition e_ln (a : ext) : ext :=
  match a with
  | Fin x => if Rlt_dec 0 x then Fin (ln x) else if Req_EM_T x 0 then NInf else Bad
  | _ => Bad
  end.
Definition e_atan2 (y x : ext) : ext :=
  match y, x with Fin a, Fin b => Fin (atan2 a b) | _, _ => Bad end.

Definition EOps : SOps :=
  mkSOps ext (Fin 0) (Fin 1) e_add e_sub e_mul e_div e_opp e_leb e_ltb (fun z => Fin (IZR z))
         e_sqrt e_exp e_ln (e_fun cos) (e_fun sin) (e_fun acos) e_atan2 (Fin PI)
         (Fin (/ IZR (Z.pow 2 1022))).
