(* Properties_C06.v — property C06: the SIS recursion keeps a normalised,
   fixed-size, correctly re-weighted particle set.  Statements only; each is
   closed by a lemma of C06_Proofs.  All hold over the reals (instance ROps of
   the scalar interface), for every particle count N >= 1, every layout
   (dl, dc), every type St of state columns and EVERY history: a list of events
   each carrying the skip flags in force, the result of freeze_measurements(),
   the likelihood vector (None = invalid), the prediction as a function on
   (index, state) and the resampling offset u1.  The only premise on an event
   (wf_ev) is that a valid likelihood vector has one NON-NEGATIVE entry per
   particle (GaussianLikelihood: scale_factor >= 0; a negative scale makes every
   log-weight NaN for ever in the C++ and is outside the domain).  A particle is a
   pair (state column, mean/covariance blocks): the prediction replaces the states
   only, copies and resampling carry the whole particle. *)
Require Import Reals ZArith QArith List Lra Lia.
Require Import BFL.C13_Model.
Require Import BFL.Ops BFL.ListOps BFL.C07_Model BFL.C07_ROps BFL.C07_Proofs BFL.C06_Model BFL.C06_Proofs.
Require Import BFL.C06_Cmd BFL.C06_CmdProofs.
Import ListNotations.
Local Open Scope R_scope.

Section C06.
Variables St Aux : Type.   (* state column; mean and covariance blocks of a particle *)
Variables (N dl dc : nat).
Hypothesis Npos : (0 < N)%nat.

(* N particles, layout (dl, dc), log-sum-exp of the log-weights zero *)
Definition set_ok (s : @sset ROps St Aux) : Prop :=
  (length (s_parts s) = N /\ length (s_lw s) = N /\ s_lin s = dl /\ s_circ s = dc) /\ lse ROps (s_lw s) = 0.

(* invariant after EVERY step of every history (sis_trace lists the states after each step) *)
Theorem C06_inv_every_step (evs : list (@event ROps St)) (st0 : @sis_state ROps St Aux) :
  step st0 = 0%nat -> set_ok (pred st0) -> Forall (wf_ev St N) evs ->
  Forall (fun st => set_ok (pred st) /\ set_ok (cor st)) (sis_trace N st0 evs).
Proof. exact (trace_inv_statement St Aux N dl dc Npos evs st0). Qed.

(* the same for the final state of the fold over the event list, with the step counter *)
Theorem C06_inv (evs : list (@event ROps St)) (st0 : @sis_state ROps St Aux) :
  step st0 = 0%nat -> set_ok (pred st0) -> Forall (wf_ev St N) evs -> evs <> [] ->
  (set_ok (pred (sis_run N st0 evs)) /\ set_ok (cor (sis_run N st0 evs))) /\
  step (sis_run N st0 evs) = length evs.
Proof. exact (run_inv_statement St Aux N dl dc Npos evs st0). Qed.

(* every argument handed to ln is positive when the likelihoods are non-negative:
   lik + tiny in the re-weighting, the sum inside log_sum_exp, N in -ln N *)
Theorem C06_ln_args_positive :
  (forall l, Forall (fun x => 0 <= x) l -> Forall (fun x => 0 < x) (lik_args ROps l)) /\
  (forall l, l <> [] -> exists mx, lse ROps l = mx + ln (lse_arg l) /\ 0 < lse_arg l) /\
  (log_uniform ROps N = - ln (INR N) /\ 0 < INR N).
Proof. exact (ln_args_statement N Npos). Qed.

(* measurement available, correction not skipped, likelihood valid:
   exp lw'_i = exp lw_i (l_i + tiny) / sum_k exp lw_k (l_k + tiny)  (before the resampling test) *)
Theorem C06_reweight (st : @sis_state ROps St Aux) (ev : @event ROps St) (l : list R) :
  ev_freeze ev = true -> ev_skip_corr ev = false -> ev_lik ev = Some l ->
  length l = N -> Forall (fun x => 0 <= x) l -> length (s_lw (pred (sis_mid st ev))) = N ->
  forall i, (i < N)%nat ->
  let lwp := s_lw (pred (sis_mid st ev)) in
  exp (nth i (s_lw (cor (sis_mid st ev))) 0)
  = exp (nth i lwp 0) * (nth i l 0 + Rtiny) / sumR (map (fun p => exp (fst p) * (snd p + Rtiny)) (combine lwp l)).
Proof. exact (reweight St Aux N Npos st ev l). Qed.

(* acquisition fails: the corrected set IS the predicted set *)
Theorem C06_no_measurement (st : @sis_state ROps St Aux) (ev : @event ROps St) :
  ev_freeze ev = false -> cor (sis_mid st ev) = pred (sis_mid st ev).
Proof. exact (no_measurement St Aux st ev). Qed.

(* resampling happens iff neff < N/3; then all weights are -ln N; otherwise the corrected set is kept *)
Theorem C06_resample_iff (st : @sis_state ROps St Aux) (ev : @event ROps St) :
  let m := sis_mid st ev in
  (needs_resampling N (cor m) = true <-> neff ROps (s_lw (cor m)) < INR N / 3) /\
  (needs_resampling N (cor m) = true ->
     cor (sis_step N st ev) = resampled (cor m) (ev_u1 ev) /\
     (wf_set St Aux N dl dc (cor m) -> s_lw (cor (sis_step N st ev)) = repeat (- ln (INR N)) N)) /\
  (needs_resampling N (cor m) = false -> cor (sis_step N st ev) = cor m) /\
  pred (sis_step N st ev) = pred m /\ step (sis_step N st ev) = Datatypes.S (step st).
Proof. exact (resample_iff St Aux N dl dc st ev). Qed.

(* the resampled set has the layout of the corrected set
   (false before /repo commit 356425a: C06_Proofs.old_resampling_loses_layout) *)
Theorem C06_resample_keeps_layout (c : @sset ROps St Aux) (u1 : R) :
  s_lin (resampled c u1) = s_lin c /\ s_circ (resampled c u1) = s_circ c.
Proof. exact (resampled_layout St Aux c u1). Qed.

(* the function the driver runs and prints (sis_trace_full) has sis_trace as its third components, and its
   first two are the corrected set before the resampling test and the decision taken on it *)
Theorem C06_trace_full_bridge (evs : list (@event ROps St)) (st : @sis_state ROps St Aux) :
  map snd (sis_trace_full N st evs) = sis_trace N st evs.
Proof. exact (trace_full_bridge St Aux N evs st). Qed.

(* measurement acquired but unusable (correction skipped or likelihood invalid): the corrected set is the
   predicted set, provided the predicted weights were normalised (they are, by the invariant) *)
Theorem C06_no_usable_likelihood (st : @sis_state ROps St Aux) (ev : @event ROps St) :
  ev_freeze ev = true -> (ev_skip_corr ev = true \/ ev_lik ev = None) ->
  lse ROps (s_lw (pred (sis_mid st ev))) = 0 -> cor (sis_mid st ev) = pred (sis_mid st ev).
Proof. exact (no_usable_likelihood St Aux st ev). Qed.

(* after every step no resampling is pending (neff >= N/3) ... *)
Theorem C06_settled_after_step (st : @sis_state ROps St Aux) (ev : @event ROps St) :
  wf_set St Aux N dl dc (cor (sis_mid st ev)) -> needs_resampling N (cor (sis_step N st ev)) = false.
Proof. exact (settled_after_step St Aux N dl dc Npos st ev). Qed.

(* ... hence from the second step on a failed acquisition gives cor = pred at the END of the step *)
Theorem C06_no_measurement_end_of_step (st : @sis_state ROps St Aux) (ev : @event ROps St) :
  step st <> 0%nat -> needs_resampling N (cor st) = false -> ev_freeze ev = false ->
  cor (sis_step N st ev) = pred (sis_step N st ev).
Proof. exact (no_measurement_end_of_step St Aux N st ev). Qed.

(* positivity at the ln and division sites of one step, from the invariant and a non-negative likelihood *)
Theorem C06_step_sites_positive (st : @sis_state ROps St Aux) (ev : @event ROps St) :
  PreInv St Aux N dl dc st -> wf_ev St N ev ->
  (forall l, ev_lik ev = Some l -> Forall (fun x => 0 < x) (lik_args ROps l)) /\
  (0 < lse_arg (s_lw (correct ev (pred (sis_mid st ev))))) /\
  (0 < sumR (map (fun x => exp x * exp x) (s_lw (cor (sis_mid st ev))))) /\
  0 < INR N.
Proof. exact (step_sites_positive St Aux N dl dc Npos st ev). Qed.

(* ------------------------------------------------------------------------------------------------
   THE COMMAND LEVEL (C06_Cmd.v): "for every history of measurements, failed measurement acquisitions
   and skip commands", literally.  A history is a list of items: IStep ce = the raw commands
   filter.skip(name, status) issued before a step (any names, any order, not necessarily matched
   pairs), then one filtering step whose skip flags and state-model branch are READ from the flag state
   the dispatch of C13_Model leaves (with or without exogenous model: have); IReset = FilteringAlgorithm::reset()
   followed by a new initialisation.  hist_mid / hist_after = the step after the history `its`, before its
   resampling test / at its end; hist_cmds = every raw command issued up to and including those of the step.
   rule_* = "status of the last command that touches the flag" evaluated on the raw commands.
   ------------------------------------------------------------------------------------------------ *)

(* invariant after every item: both sets are fine after every step; after a reset the predicted (= freshly
   initialised) set is, and so is the corrected set as soon as a step has run *)
Theorem C06_cmd_inv_every_step (have : bool) (st0 : @sis_state ROps St Aux) (its : list (@item ROps St Aux)) :
  step st0 = 0%nat -> set_ok (pred st0) -> Forall (wf_item St Aux N) its ->
  Forall2 (fun it cs' => (set_ok (pred (c_sis cs')) /\ (step (c_sis cs') <> 0%nat -> set_ok (cor (c_sis cs')))) /\
                         (is_step St Aux it = true -> set_ok (pred (c_sis cs')) /\ set_ok (cor (c_sis cs'))))
          its (cmd_trace N (hist_start have st0) its).
Proof. exact (fun H0 G0 => cmd_inv_statement St Aux N dl dc Npos have st0 H0 G0 its). Qed.

Theorem C06_cmd_inv_after_step (have : bool) (st0 : @sis_state ROps St Aux) (its : list (@item ROps St Aux)) (ce : @cevent ROps St) :
  step st0 = 0%nat -> set_ok (pred st0) -> Forall (wf_item St Aux N) its -> wf_cev St N ce ->
  set_ok (pred (hist_after N have st0 its ce)) /\ set_ok (cor (hist_after N have st0 its ce)).
Proof. exact (fun H0 G0 => cmd_inv_after St Aux N dl dc Npos have st0 H0 G0 its ce). Qed.

(* the flags a step runs under are the dispatch of ALL raw commands so far from a fresh filter, and they obey the rule *)
Theorem C06_cmd_flags_by_rule (have : bool) (st0 : @sis_state ROps St Aux) (its : list (@item ROps St Aux)) (ce : @cevent ROps St) :
  hist_flags N have st0 its ce = final (hist_cmds its ce) (init have) /\
  f_pred (hist_flags N have st0 its ce) = rule_pred_skipped have (hist_cmds its ce) /\
  f_corr (hist_flags N have st0 its ce) = rule_corr_skipped (hist_cmds its ce).
Proof. exact (conj (hist_flags_final St Aux N have st0 its ce) (hist_flags_rule St Aux N have st0 its ce)). Qed.

(* measurement available, the last command touching the correction (if any) says "off", likelihood valid:
   every weight is multiplied by that particle's likelihood (+ tiny) before normalisation *)
Theorem C06_cmd_reweight (have : bool) (st0 : @sis_state ROps St Aux) (its : list (@item ROps St Aux)) (ce : @cevent ROps St) (l : list R) :
  step st0 = 0%nat -> set_ok (pred st0) -> Forall (wf_item St Aux N) its ->
  rule_corr_skipped (hist_cmds its ce) = false -> ce_freeze ce = true -> ce_lik ce = Some l ->
  length l = N -> Forall (fun x => 0 <= x) l ->
  forall i, (i < N)%nat ->
  let lwp := s_lw (pred (hist_mid N have st0 its ce)) in
  exp (nth i (s_lw (cor (hist_mid N have st0 its ce))) 0)
  = exp (nth i lwp 0) * (nth i l 0 + Rtiny) / sumR (map (fun p => exp (fst p) * (snd p + Rtiny)) (combine lwp l)).
Proof. exact (fun H0 G0 => cmd_reweight St Aux N dl dc Npos have st0 H0 G0 its ce l). Qed.

(* acquisition fails: corrected = predicted, whatever has been commanded *)
Theorem C06_cmd_no_measurement (have : bool) (st0 : @sis_state ROps St Aux) (its : list (@item ROps St Aux)) (ce : @cevent ROps St) :
  ce_freeze ce = false -> cor (hist_mid N have st0 its ce) = pred (hist_mid N have st0 its ce).
Proof. exact (cmd_no_measurement St Aux N have st0 its ce). Qed.

(* measurement acquired but the correction is commanded off, or the likelihood is invalid: corrected = predicted
   (the normalisation premise of C06_no_usable_likelihood is discharged by the invariant of the history) *)
Theorem C06_cmd_no_usable_likelihood (have : bool) (st0 : @sis_state ROps St Aux) (its : list (@item ROps St Aux)) (ce : @cevent ROps St) :
  step st0 = 0%nat -> set_ok (pred st0) -> Forall (wf_item St Aux N) its -> wf_cev St N ce -> ce_freeze ce = true ->
  (rule_corr_skipped (hist_cmds its ce) = true \/ ce_lik ce = None) ->
  cor (hist_mid N have st0 its ce) = pred (hist_mid N have st0 its ce).
Proof. exact (fun H0 G0 => cmd_no_usable_likelihood St Aux N dl dc Npos have st0 H0 G0 its ce). Qed.

(* the prediction, from the commands: none at step 0; the corrected set itself when the rule says "skipped"; otherwise
   weights copied, means/covariances of the output object kept, states moved by the branch of propagate the commands select
   (state + exogenous, state only, exogenous only: the two non-writing branches are never reached) *)
Theorem C06_cmd_prediction (have : bool) (st0 : @sis_state ROps St Aux) (its : list (@item ROps St Aux)) (ce : @cevent ROps St) :
  step st0 = 0%nat -> set_ok (pred st0) -> Forall (wf_item St Aux N) its ->
  let st := c_sis (hist_state N have st0 its) in
  let cmds := hist_cmds its ce in
  (step st = 0%nat -> pred (hist_mid N have st0 its ce) = pred st) /\
  (step st <> 0%nat -> rule_pred_skipped have cmds = true -> pred (hist_mid N have st0 its ce) = cor st) /\
  (step st <> 0%nat -> rule_pred_skipped have cmds = false ->
     s_lw (pred (hist_mid N have st0 its ce)) = s_lw (cor st) /\
     map fst (s_parts (pred (hist_mid N have st0 its ce))) = mapi_from (ce_motion ce (rule_mode have cmds)) 0 (map fst (s_parts (cor st))) /\
     map snd (s_parts (pred (hist_mid N have st0 its ce))) = map snd (s_parts (pred st)) /\
     s_lin (pred (hist_mid N have st0 its ce)) = s_lin (pred st) /\ s_circ (pred (hist_mid N have st0 its ce)) = s_circ (pred st) /\
     (rule_mode have cmds = MFull \/ rule_mode have cmds = MStateOnly \/ rule_mode have cmds = MExoOnly)).
Proof. exact (fun H0 G0 => cmd_prediction St Aux N dl dc Npos have st0 H0 G0 its ce). Qed.

(* resampling runs exactly when neff < N/3 of the corrected weights, after which the weights are uniform *)
Theorem C06_cmd_resample_iff (have : bool) (st0 : @sis_state ROps St Aux) (its : list (@item ROps St Aux)) (ce : @cevent ROps St) :
  let m := hist_mid N have st0 its ce in
  (needs_resampling N (cor m) = true <-> neff ROps (s_lw (cor m)) < INR N / 3) /\
  (needs_resampling N (cor m) = true ->
     cor (hist_after N have st0 its ce) = resampled (cor m) (ce_u1 ce) /\
     (wf_set St Aux N dl dc (cor m) -> s_lw (cor (hist_after N have st0 its ce)) = repeat (- ln (INR N)) N)) /\
  (needs_resampling N (cor m) = false -> cor (hist_after N have st0 its ce) = cor m) /\
  pred (hist_after N have st0 its ce) = pred m /\
  step (hist_after N have st0 its ce) = Datatypes.S (step (c_sis (hist_state N have st0 its))).
Proof. exact (cmd_resample_iff St Aux N dl dc have st0 its ce). Qed.

Theorem C06_cmd_resampled_uniform (have : bool) (st0 : @sis_state ROps St Aux) (its : list (@item ROps St Aux)) (ce : @cevent ROps St) :
  step st0 = 0%nat -> set_ok (pred st0) -> Forall (wf_item St Aux N) its -> wf_cev St N ce ->
  needs_resampling N (cor (hist_mid N have st0 its ce)) = true ->
  s_lw (cor (hist_after N have st0 its ce)) = repeat (- ln (INR N)) N.
Proof. exact (fun H0 G0 => cmd_resampled_uniform St Aux N dl dc Npos have st0 H0 G0 its ce). Qed.

(* from the second step of a pass on (not right after a reset), a failed acquisition leaves corrected = predicted at the END of the step:
   no resampling is pending after any step of any history *)
Theorem C06_cmd_no_measurement_end_of_step (have : bool) (st0 : @sis_state ROps St Aux) (its : list (@item ROps St Aux)) (ce : @cevent ROps St) :
  step st0 = 0%nat -> set_ok (pred st0) -> Forall (wf_item St Aux N) its ->
  step (c_sis (hist_state N have st0 its)) <> 0%nat -> ce_freeze ce = false ->
  cor (hist_after N have st0 its ce) = pred (hist_after N have st0 its ce).
Proof. exact (fun H0 G0 => cmd_no_measurement_end_of_step St Aux N dl dc Npos have st0 H0 G0 its ce). Qed.

(* un-matched pairs: after skip("all", false) a step runs exactly as on a filter that never received a command,
   whatever was commanded before (skip(correction, on) ... skip(all, off) leaves nothing skipped) *)
Theorem C06_cmd_all_off_nothing_skipped (have : bool) (cs : list cmd) (ce : @cevent ROps St) :
  event_of (final (cs ++ [(NAll, false)]) (init have)) ce = event_of (init have) ce /\
  ev_skip_pred (event_of (init have) ce) = false /\ ev_skip_corr (event_of (init have) ce) = false /\
  ev_pred (event_of (init have) ce) = ce_motion ce (if have then MFull else MStateOnly).
Proof. exact (conj (cmd_all_off_event St have cs ce) (cmd_fresh_event St have ce)). Qed.

(* the function the driver runs and prints (cmd_trace_full): its second components are cmd_trace, and its k-th report
   is that of the k-th item on the state the items before it lead to *)
Theorem C06_cmd_trace_full_bridge (its : list (@item ROps St Aux)) (cs : @cstate ROps St Aux) :
  map snd (cmd_trace_full N cs its) = cmd_trace N cs its /\
  forall k r cs', nth_error (cmd_trace_full N cs its) k = Some (r, cs') ->
    exists it, nth_error its k = Some it /\
               r = step_report N (cmd_run N cs (firstn k its)) it /\ cs' = item_step N (cmd_run N cs (firstn k its)) it.
Proof. exact (conj (cmd_trace_full_bridge St Aux N its cs) (cmd_trace_full_components St Aux N its cs)). Qed.

End C06.

(* the hypotheses are satisfiable, and the executable model on exact rationals: N = 3, one linear +
   one circular component, QOps has sexp = sln = identity so only the structure is exercised:
   a failed acquisition copies the predicted set, the layout survives, the step counter advances *)
Example C06_initial_state_exists :
  let s := @mkSset ROps nat nat 1 1 [(7, 0); (8, 1); (9, 2)]%nat [- ln 3; - ln 3; - ln 3] in
  set_ok nat nat 3 1 1 s.
Proof.
  cbv zeta. unfold set_ok. cbn [s_parts s_lw s_lin s_circ length]. repeat split; auto.
  rewrite (lse_spec [- ln 3; - ln 3; - ln 3]) by congruence. simpl. rewrite exp_Ropp, exp_ln by lra.
  replace (/ 3 + (/ 3 + (/ 3 + 0))) with 1 by lra. apply ln_1.
Qed.

Example C06_concrete_Q :
  let s := @mkSset QOps nat nat 1 1 [(7, 0); (8, 1); (9, 2)]%nat [1#3; 1#3; 1#3]%Q in
  let ev := @mkEvent QOps nat false false false None (fun i x => (x + i)%nat) (1#10)%Q in
  let st := sis_step 3 (sis_step 3 (@mkSis QOps nat nat 0 s s) ev) ev in
  (step st, s_lin (cor st), s_circ (cor st), s_parts (pred st)) = (2%nat, 1%nat, 1%nat, [(7, 0); (9, 1); (11, 2)]%nat).
Proof. vm_compute. reflexivity. Qed.

(* command level on exact rationals: skip(correction, on) before step 0, skip(all, off) before step 1: the flags
   are those of a fresh filter again, every command was answered true, an unknown name is answered false *)
Example C06_cmd_concrete_Q :
  let s := @mkSset QOps nat nat 1 1 [(7, 0); (8, 1); (9, 2)]%nat [1#3; 1#3; 1#3]%Q in
  let ce c := @mkCEvent QOps nat c false None (fun _ i x => (x + i)%nat) (1#10)%Q in
  let tr := cmd_trace_full 3 (hist_start true (@mkSis QOps nat nat 0 s s))
              [IStep (ce [(NCorrection, true); (NState, true)]); IStep (ce [(NAll, false); (NOther, true)])] in
  (map (fun x => c_flags (snd x)) tr, map (fun x => option_map (fun r => fst (fst r)) (fst x)) tr)
  = ([mkFlags false false true (Some false) true; init true], [Some [Ok true; Ok true]; Some [Ok true; Ok false]]).
Proof. vm_compute. reflexivity. Qed.

Print Assumptions C06_inv_every_step.
Print Assumptions C06_inv.
Print Assumptions C06_ln_args_positive.
Print Assumptions C06_reweight.
Print Assumptions C06_no_measurement.
Print Assumptions C06_resample_iff.
Print Assumptions C06_resample_keeps_layout.
Print Assumptions C06_trace_full_bridge.
Print Assumptions C06_no_usable_likelihood.
Print Assumptions C06_settled_after_step.
Print Assumptions C06_no_measurement_end_of_step.
Print Assumptions C06_step_sites_positive.
Print Assumptions C06_cmd_inv_every_step.
Print Assumptions C06_cmd_inv_after_step.
Print Assumptions C06_cmd_flags_by_rule.
Print Assumptions C06_cmd_reweight.
Print Assumptions C06_cmd_no_measurement.
Print Assumptions C06_cmd_no_usable_likelihood.
Print Assumptions C06_cmd_prediction.
Print Assumptions C06_cmd_resample_iff.
Print Assumptions C06_cmd_resampled_uniform.
Print Assumptions C06_cmd_no_measurement_end_of_step.
Print Assumptions C06_cmd_all_off_nothing_skipped.
Print Assumptions C06_cmd_trace_full_bridge.
