(* C19_Extract.v — executable entry points of the C19 model (scalars abstract;
   IEEE doubles are supplied by the OCaml driver).  ExtrOcamlBasic only. *)
Require Import ZArith List.
Require Import BFL.Ops BFL.C19_Model.
Require Import Extraction ExtrOcamlBasic.

Definition c19_wrap (S : SOps) (x : T S) : T S := wrap S x.
Definition c19_add (S : SOps) (a : list (list (T S))) (b : list (T S)) := dir_add S a b.
Definition c19_sub (S : SOps) (a : list (list (T S))) (b : list (T S)) := dir_sub S a b.
Definition c19_mean (S : SOps) (cols : nat) (a : list (list (T S))) (w : list (T S)) := dir_mean S cols a w.
(* spec-level value: the weighted resultant of the unit phasors of one row (real, imaginary) *)
Definition c19_resultant (S : SOps) (row w : list (T S)) := resultant S row w.

Extraction "C19_model.ml" c19_wrap c19_add c19_sub c19_mean c19_resultant.
