(* C12_Proofs.v — lemmas about the control skeletons of C12_Model.
   Plain Coq (lists, booleans); no axioms. *)
Require Import List Bool Arith Lia.
Require Import BFL.C12_Model.
Import ListNotations.
Local Open Scope bool_scope.

(* the pattern with one site switched off *)
Definition mask (s : site) (p : pattern) : pattern := fun t => if site_eqb s t then false else p t.

Definition sites4 := [Measure; Predicted; Innovation; NoiseCov].
Definition sites3 := [Measure; Predicted; Innovation].

Lemma fails4 p : fails_any p sites4 = p Measure || p Predicted || p Innovation || p NoiseCov.
Proof. unfold fails_any, sites4; simpl. now rewrite orb_false_r, !orb_assoc. Qed.
Lemma fails3 p : fails_any p sites3 = p Measure || p Predicted || p Innovation.
Proof. unfold fails_any, sites3; simpl. now rewrite orb_false_r, !orb_assoc. Qed.

Lemma correct_wrapper_not_skipping {B S} (step : B -> B -> S -> result B S) pred out st :
  correct_wrapper false step pred out st = step pred out st.
Proof. reflexivity. Qed.
Lemma correct_wrapper_skipping {B S} (step : B -> B -> S -> result B S) pred out st :
  correct_wrapper true step pred out st = mkRes pred st [].
Proof. reflexivity. Qed.

Section Proofs.
Variables G St Y X YP NU RC PY PM PXY LK RNG : Type.
Notation mmodel := (mmodel Y X YP NU RC).

(* ---------------------------------------------------------------- KF *)
Section KF.
Variable kf_px : G -> X.
Variable kf_upd : G -> NU -> RC -> G -> G * PY.
Variable kf_lik : NU -> PY -> LK.
Notation kf_step_ := (kf_step kf_px kf_upd).

(* any consulted call failing: whole output object = predicted object, members untouched *)
Lemma kf_identity (p : pattern) (mm : mmodel) pred out st :
  fails_any p sites4 = true ->
  r_out (kf_step_ (inject p mm) pred out st) = pred /\
  r_st (kf_step_ (inject p mm) pred out st) = mkKfSt None (kf_py st).
Proof.
  rewrite fails4. unfold kf_step, inject; simpl.
  destruct (p Measure); simpl; [auto|].
  destruct (mm_measure mm); simpl; [|auto].
  destruct (p Predicted); simpl; [auto|].
  destruct (mm_predicted mm (kf_px pred)); simpl; [|auto].
  destruct (p Innovation); simpl; [auto|].
  destruct (mm_innovation mm y0 y); simpl; [|auto].
  destruct (p NoiseCov); simpl; [auto|discriminate].
Qed.

(* the same for a model that fails by itself (not through a pattern) *)
Lemma kf_identity_model (mm : mmodel) pred out st :
  (mm_measure mm = None \/ mm_predicted mm (kf_px pred) = None \/
   (forall y yp, mm_measure mm = Some y -> mm_predicted mm (kf_px pred) = Some yp -> mm_innovation mm yp y = None) \/
   fst (mm_noisecov mm) = false) ->
  r_out (kf_step_ mm pred out st) = pred /\ r_st (kf_step_ mm pred out st) = mkKfSt None (kf_py st).
Proof.
  unfold kf_step. intros Hf.
  destruct (mm_measure mm) eqn:E1; simpl; [|auto].
  destruct (mm_predicted mm (kf_px pred)) eqn:E2; simpl; [|auto].
  destruct (mm_innovation mm y0 y) eqn:E3; simpl; [|auto].
  destruct (mm_noisecov mm) as [okR R] eqn:E4; simpl in *.
  destruct okR; [|auto].
  destruct Hf as [Hf|[Hf|[Hf|Hf]]]; try discriminate.
  rewrite (Hf y y0 eq_refl eq_refl) in E3. discriminate.
Qed.

Lemma kf_log (p : pattern) (y : Y) (h : X -> YP) (inn : YP -> Y -> NU) (R : RC) pred out st :
  r_log (kf_step_ (inject p (total_mm y h inn R)) pred out st) = upto_first_failure p sites4.
Proof.
  unfold kf_step, inject, total_mm, sites4; simpl.
  destruct (p Measure); simpl; [reflexivity|].
  destruct (p Predicted); simpl; [reflexivity|].
  destruct (p Innovation); simpl; [reflexivity|].
  destruct (p NoiseCov); simpl; [reflexivity|].
  destruct (kf_upd _ _ _ _); reflexivity.
Qed.

Lemma kf_no_fault (y : Y) (h : X -> YP) (inn : YP -> Y -> NU) (R : RC) pred out st :
  let nu := inn (h (kf_px pred)) y in
  kf_step_ (inject no_fault (total_mm y h inn R)) pred out st =
  mkRes (fst (kf_upd pred nu R out)) (mkKfSt (Some nu) (snd (kf_upd pred nu R out))) sites4.
Proof.
  unfold kf_step, inject, total_mm, no_fault; simpl.
  destruct (kf_upd _ _ _ _); reflexivity.
Qed.

(* getLikelihood after a correction that could not use the measurement reports
   failure, whatever the members held before (in particular after earlier successes) *)
Lemma kf_lik_after_failure_reports_failure (p : pattern) (mm : mmodel) pred out st :
  fails_any p sites4 = true ->
  kf_get_lik kf_lik (r_st (kf_step_ (inject p mm) pred out st)) = None.
Proof. intros Hf. now destruct (kf_identity p mm pred out st Hf) as [_ ->]. Qed.

Lemma kf_lik_after_failure_reports_failure_model (mm : mmodel) pred out st :
  (mm_measure mm = None \/ mm_predicted mm (kf_px pred) = None \/
   (forall y yp, mm_measure mm = Some y -> mm_predicted mm (kf_px pred) = Some yp -> mm_innovation mm yp y = None) \/
   fst (mm_noisecov mm) = false) ->
  kf_get_lik kf_lik (r_st (kf_step_ mm pred out st)) = None.
Proof. intros Hf. now destruct (kf_identity_model mm pred out st Hf) as [_ ->]. Qed.

(* and after a correction that used it, it is this correction's likelihood *)
Lemma kf_lik_after_success (y : Y) (h : X -> YP) (inn : YP -> Y -> NU) (R : RC) pred out st :
  let nu := inn (h (kf_px pred)) y in
  kf_get_lik kf_lik (r_st (kf_step_ (inject no_fault (total_mm y h inn R)) pred out st)) =
  Some (kf_lik nu (snd (kf_upd pred nu R out))).
Proof. intros nu. now rewrite kf_no_fault. Qed.
End KF.

(* --------------------------------------------------------------- UKF *)
Section UKF.
Variable sigma_of : G -> X.
Variable ut_moments : G -> YP -> PM * PXY.
Variable pm_default : PM.
Variable pxy_empty : PXY.
Variable pm_add_noise : PM -> RC -> PM.
Variable ukf_augment : G -> RC -> G.
Variable pm_mean : PM -> YP.
Variable ukf_upd : G -> PM -> PXY -> NU -> G -> G.
Variable ukf_lik : NU -> PM -> LK.
Notation ukf_step_ := (ukf_step sigma_of ut_moments pm_default pxy_empty pm_add_noise ukf_augment pm_mean ukf_upd).

Lemma ukf_identity (additive : bool) (p : pattern) (mm : mmodel) pred out st :
  fails_any p sites3 = true ->
  r_out (ukf_step_ additive (inject p mm) pred out st) = pred /\
  u_innov (r_st (ukf_step_ additive (inject p mm) pred out st)) = None.
Proof.
  rewrite fails3.
  unfold ukf_step, ut_additive, ut_generic, ut_base, inject; simpl.
  destruct (p Measure); simpl; [auto|].
  destruct (mm_measure mm); simpl; [|auto].
  destruct additive; simpl.
  - destruct (p Predicted); simpl; [auto|].
    destruct (mm_predicted mm (sigma_of pred)); simpl; [|auto].
    destruct (ut_moments pred y0); simpl.
    destruct (p Innovation); simpl; [auto|discriminate].
  - destruct (p Predicted); simpl; [auto|].
    destruct (mm_predicted mm _); simpl; [|auto].
    destruct (ut_moments _ y0); simpl.
    destruct (p Innovation); simpl; [auto|discriminate].
Qed.

(* pointwise form for an arbitrary sensor: the input of the transform and the predicted
   measurement handed to innovation() are the ones of this very call *)
Definition ukf_input (additive : bool) (mm : mmodel) (pred : G) : G :=
  if additive then pred else ukf_augment pred (snd (mm_noisecov mm)).
Definition ukf_pm (additive : bool) (mm : mmodel) (pred : G) (yp : YP) : PM :=
  let pm := fst (ut_moments (ukf_input additive mm pred) yp) in
  if additive then pm_add_noise pm (snd (mm_noisecov mm)) else pm.

Lemma ukf_identity_model (additive : bool) (mm : mmodel) pred out st :
  (mm_measure mm = None \/ mm_predicted mm (sigma_of (ukf_input additive mm pred)) = None \/
   (forall y yp, mm_measure mm = Some y -> mm_predicted mm (sigma_of (ukf_input additive mm pred)) = Some yp ->
                 mm_innovation mm (pm_mean (ukf_pm additive mm pred yp)) y = None)) ->
  r_out (ukf_step_ additive mm pred out st) = pred /\
  ukf_get_lik ukf_lik (r_st (ukf_step_ additive mm pred out st)) = None.
Proof.
  unfold ukf_step, ut_additive, ut_generic, ut_base, ukf_input, ukf_pm. intros Hf.
  destruct (mm_measure mm) eqn:E1; simpl; [|auto].
  destruct additive; simpl in *.
  - destruct (mm_predicted mm (sigma_of pred)) eqn:E2; simpl; [|auto].
    destruct (ut_moments pred y0) as [pm pxy] eqn:E3; simpl in *.
    destruct (mm_innovation mm _ y) eqn:E4; simpl; [|auto].
    destruct Hf as [Hf|[Hf|Hf]]; try discriminate.
    specialize (Hf y y0 eq_refl eq_refl). rewrite E3 in Hf. simpl in Hf. rewrite Hf in E4. discriminate.
  - destruct (mm_predicted mm _) eqn:E2; simpl; [|auto].
    destruct (ut_moments _ y0) as [pm pxy] eqn:E3; simpl in *.
    destruct (mm_innovation mm _ y) eqn:E4; simpl; [|auto].
    destruct Hf as [Hf|[Hf|Hf]]; try discriminate.
    specialize (Hf y y0 eq_refl eq_refl). rewrite E3 in Hf. simpl in Hf. rewrite Hf in E4. discriminate.
Qed.

(* the validity flag of getNoiseCovarianceMatrix has no influence at all *)
Lemma ukf_noisecov_flag_ignored (additive : bool) (p : pattern) (mm : mmodel) pred out st :
  ukf_step_ additive (inject p mm) pred out st = ukf_step_ additive (inject (mask NoiseCov p) mm) pred out st.
Proof.
  unfold ukf_step, ut_additive, ut_generic, ut_base, inject, mask; simpl.
  destruct (p NoiseCov); reflexivity.
Qed.

Lemma ukf_generic_log (p : pattern) (y : Y) (h : X -> YP) (inn : YP -> Y -> NU) (R : RC) pred out st :
  r_log (ukf_step_ false (inject p (total_mm y h inn R)) pred out st) =
  upto_first_failure (mask NoiseCov p) [Measure; NoiseCov; Predicted; Innovation].
Proof.
  unfold ukf_step, ut_generic, ut_base, inject, total_mm, mask; simpl.
  destruct (p Measure); simpl; [reflexivity|].
  destruct (p Predicted); simpl; [reflexivity|].
  destruct (ut_moments _ _); simpl.
  destruct (p Innovation); reflexivity.
Qed.

(* additive: the prefix up to the first failing call here too (getNoiseCovarianceMatrix
   is not called after a failed predictedMeasure; its own flag is ignored) *)
Lemma ukf_additive_log (p : pattern) (y : Y) (h : X -> YP) (inn : YP -> Y -> NU) (R : RC) pred out st :
  r_log (ukf_step_ true (inject p (total_mm y h inn R)) pred out st) =
  upto_first_failure (mask NoiseCov p) [Measure; Predicted; NoiseCov; Innovation].
Proof.
  unfold ukf_step, ut_additive, ut_base, inject, total_mm, mask; simpl.
  destruct (p Measure); simpl; [reflexivity|].
  destruct (p Predicted); simpl; [reflexivity|].
  destruct (ut_moments _ _); simpl.
  destruct (p Innovation); reflexivity.
Qed.

Lemma ukf_no_fault (additive : bool) (y : Y) (h : X -> YP) (inn : YP -> Y -> NU) (R : RC) pred out st :
  let input := if additive then pred else ukf_augment pred R in
  let mo := ut_moments input (h (sigma_of input)) in
  let pm := if additive then pm_add_noise (fst mo) R else fst mo in
  let nu := inn (pm_mean pm) y in
  ukf_step_ additive (inject no_fault (total_mm y h inn R)) pred out st =
  mkRes (ukf_upd pred pm (snd mo) nu out) (mkUkfSt (Some nu) pm)
        (if additive then [Measure; Predicted; NoiseCov; Innovation]
         else [Measure; NoiseCov; Predicted; Innovation]).
Proof.
  unfold ukf_step, ut_additive, ut_generic, ut_base, inject, total_mm, no_fault; simpl.
  destruct additive; simpl; destruct (ut_moments _ _); reflexivity.
Qed.

(* what a failed predictedMeasure leaves behind: no innovations, the
   default-constructed predicted_meas_ of the failed transform *)
Lemma ukf_state_after_failure (additive : bool) (p : pattern) (y : Y) (h : X -> YP) (inn : YP -> Y -> NU) (R : RC) pred out st :
  p Measure = false -> p Predicted = true ->
  r_st (ukf_step_ additive (inject p (total_mm y h inn R)) pred out st) = mkUkfSt None pm_default.
Proof.
  intros H1 H2.
  unfold ukf_step, ut_additive, ut_generic, ut_base, inject, total_mm; simpl.
  rewrite H1, H2; simpl. destruct additive; simpl; destruct (p NoiseCov); reflexivity.
Qed.

Lemma ukf_lik_after_failure_reports_failure (additive : bool) (p : pattern) (mm : mmodel) pred out st :
  fails_any p sites3 = true ->
  ukf_get_lik ukf_lik (r_st (ukf_step_ additive (inject p mm) pred out st)) = None.
Proof.
  intros Hf. destruct (ukf_identity additive p mm pred out st Hf) as [_ E].
  unfold ukf_get_lik. now rewrite E.
Qed.
End UKF.

(* -------------------------------------------------------------- SUKF *)
Section SUKF.
Variable sigma_of : G -> X.
Variable sukf_pred_mean : YP -> YP.
Variable sukf_upd : G -> X -> YP -> NU -> RC -> G -> G * YP.
Variable sukf_lik : NU -> YP -> RC -> LK.
Notation sukf_step_ := (sukf_step sigma_of sukf_pred_mean sukf_upd).

Lemma sukf_identity (sub_ok : bool) ncalls (p : pattern) (mm : mmodel) pred out st :
  fails_any p sites3 = true \/ sub_ok = false ->
  r_out (sukf_step_ sub_ok ncalls (inject p mm) pred out st) = pred /\
  s_innov (r_st (sukf_step_ sub_ok ncalls (inject p mm) pred out st)) = None.
Proof.
  rewrite fails3. unfold sukf_step, inject; simpl. intros Hf.
  destruct (p Measure); simpl; [auto|].
  destruct (mm_measure mm); simpl; [|auto].
  destruct sub_ok; simpl; [|auto].
  destruct (p Predicted); simpl; [auto|].
  destruct (mm_predicted mm (sigma_of pred)); simpl; [|auto].
  destruct (p Innovation); simpl; [auto|].
  destruct Hf; discriminate.
Qed.

Lemma sukf_identity_model (sub_ok : bool) ncalls lcalls (mm mm' : mmodel) pred out st :
  (mm_measure mm = None \/ sub_ok = false \/ mm_predicted mm (sigma_of pred) = None \/
   (forall y yp, mm_measure mm = Some y -> mm_predicted mm (sigma_of pred) = Some yp ->
                 mm_innovation mm (sukf_pred_mean yp) y = None)) ->
  r_out (sukf_step_ sub_ok ncalls mm pred out st) = pred /\
  sukf_get_lik sukf_lik lcalls mm' (r_st (sukf_step_ sub_ok ncalls mm pred out st)) = (None, []).
Proof.
  unfold sukf_step, sukf_get_lik. intros Hf.
  destruct (mm_measure mm) eqn:E1; simpl; [|auto].
  destruct sub_ok; simpl; [|auto].
  destruct (mm_predicted mm (sigma_of pred)) eqn:E2; simpl; [|auto].
  destruct (mm_innovation mm _ y) eqn:E3; simpl; [|auto].
  destruct Hf as [Hf|[Hf|[Hf|Hf]]]; try discriminate.
  rewrite (Hf y y0 eq_refl eq_refl) in E3. discriminate.
Qed.

Lemma sukf_noisecov_flag_ignored sub_ok ncalls (p : pattern) (mm : mmodel) pred out st :
  sukf_step_ sub_ok ncalls (inject p mm) pred out st = sukf_step_ sub_ok ncalls (inject (mask NoiseCov p) mm) pred out st.
Proof.
  unfold sukf_step, inject, mask; simpl. destruct (p NoiseCov); reflexivity.
Qed.

Lemma sukf_log ncalls (p : pattern) (y : Y) (h : X -> YP) (inn : YP -> Y -> NU) (R : RC) pred out st :
  r_log (sukf_step_ true ncalls (inject p (total_mm y h inn R)) pred out st) =
  if fails_any p sites3 then upto_first_failure p sites3 else sites3 ++ repeat NoiseCov ncalls.
Proof.
  rewrite fails3. unfold sukf_step, inject, total_mm, sites3; simpl.
  destruct (p Measure); simpl; [reflexivity|].
  destruct (p Predicted); simpl; [reflexivity|].
  destruct (p Innovation); simpl; [reflexivity|].
  destruct (sukf_upd _ _ _ _ _ _); reflexivity.
Qed.

Lemma sukf_size_mismatch_log ncalls (p : pattern) (mm : mmodel) pred out st :
  r_log (sukf_step_ false ncalls (inject p mm) pred out st) = [Measure].
Proof. unfold sukf_step. destruct (mm_measure _); reflexivity. Qed.

Lemma sukf_no_fault ncalls (y : Y) (h : X -> YP) (inn : YP -> Y -> NU) (R : RC) pred out st :
  let yp := h (sigma_of pred) in
  let nu := inn (sukf_pred_mean yp) y in
  let r := sukf_upd pred (sigma_of pred) yp nu R out in
  sukf_step_ true ncalls (inject no_fault (total_mm y h inn R)) pred out st =
  mkRes (fst r) (mkSukfSt (Some nu) (Some (snd r))) (sites3 ++ repeat NoiseCov ncalls).
Proof.
  unfold sukf_step, inject, total_mm, no_fault; simpl.
  destruct (sukf_upd _ _ _ _ _ _); reflexivity.
Qed.

(* innovation fails: propagated_sigma_points_ already belongs to the failed call *)
Lemma sukf_state_after_innovation_failure ncalls (p : pattern) (y : Y) (h : X -> YP) (inn : YP -> Y -> NU) (R : RC) pred out st :
  p Measure = false -> p Predicted = false -> p Innovation = true ->
  r_st (sukf_step_ true ncalls (inject p (total_mm y h inn R)) pred out st) =
  mkSukfSt None (Some (h (sigma_of pred))).
Proof.
  intros H1 H2 H3. unfold sukf_step, inject, total_mm; simpl. now rewrite H1, H2, H3.
Qed.

Lemma sukf_lik_after_failure_reports_failure sub_ok ncalls lcalls (p : pattern) (mm mm' : mmodel) pred out st :
  fails_any p sites3 = true \/ sub_ok = false ->
  sukf_get_lik sukf_lik lcalls mm' (r_st (sukf_step_ sub_ok ncalls (inject p mm) pred out st)) = (None, []).
Proof.
  intros Hf. destruct (sukf_identity sub_ok ncalls p mm pred out st Hf) as [_ E].
  unfold sukf_get_lik. now rewrite E.
Qed.
End SUKF.

(* ------------------------------------------- Gaussian likelihood, PF *)
Section PF.
Variable st_px : St -> X.
Variable gl_dens : NU -> RC -> LK.
Variable lk_zero1 : LK.
Notation gl_likelihood_ := (gl_likelihood st_px gl_dens).
Notation likmodel := (likmodel St LK).

Lemma gl_reports_failure (p : pattern) (mm : mmodel) s :
  fails_any p sites4 = true ->
  fst (gl_likelihood_ (inject p mm) s) = None /\
  lik_pair lk_zero1 (fst (gl_likelihood_ (inject p mm) s)) = (false, lk_zero1).
Proof.
  rewrite fails4. intros Hf.
  assert (E : fst (gl_likelihood_ (inject p mm) s) = None).
  { unfold gl_likelihood, inject; simpl.
    destruct (p Measure); simpl; [auto|].
    destruct (mm_measure mm); simpl; [|auto].
    destruct (p Predicted); simpl; [auto|].
    destruct (mm_predicted mm (st_px s)); simpl; [|auto].
    destruct (p Innovation); simpl; [auto|].
    destruct (mm_innovation mm y0 y); simpl; [|auto].
    destruct (p NoiseCov); simpl; [auto|discriminate]. }
  now rewrite E.
Qed.

Lemma gl_log (p : pattern) (y : Y) (h : X -> YP) (inn : YP -> Y -> NU) (R : RC) s :
  snd (gl_likelihood_ (inject p (total_mm y h inn R)) s) = upto_first_failure p sites4.
Proof.
  unfold gl_likelihood, inject, total_mm, sites4; simpl.
  destruct (p Measure); simpl; [reflexivity|].
  destruct (p Predicted); simpl; [reflexivity|].
  destruct (p Innovation); simpl; [reflexivity|].
  destruct (p NoiseCov); reflexivity.
Qed.

Lemma gl_no_fault (y : Y) (h : X -> YP) (inn : YP -> Y -> NU) (R : RC) s :
  gl_likelihood_ (inject no_fault (total_mm y h inn R)) s = (Some (gl_dens (inn (h (st_px s)) y) R), sites4).
Proof. reflexivity. Qed.

(* a value is reported only if every call succeeded *)
Lemma gl_value_only_if_all_ok (p : pattern) (mm : mmodel) s lk :
  fst (gl_likelihood_ (inject p mm) s) = Some lk -> fails_any p sites4 = false.
Proof.
  intros E. destruct (fails_any p sites4) eqn:Hf; [|reflexivity].
  destruct (gl_reports_failure p mm s Hf) as [E' _]. rewrite E' in E. discriminate.
Qed.

(* pointwise form: the failure is the sensor's own, and only at the arguments actually passed *)
Lemma gl_reports_failure_pointwise (mm : mmodel) s :
  (mm_measure mm = None \/ mm_predicted mm (st_px s) = None \/
   (forall y yp, mm_measure mm = Some y -> mm_predicted mm (st_px s) = Some yp -> mm_innovation mm yp y = None) \/
   fst (mm_noisecov mm) = false) ->
  fst (gl_likelihood_ mm s) = None.
Proof.
  unfold gl_likelihood. intros Hf.
  destruct (mm_measure mm) eqn:E1; simpl; [|auto].
  destruct (mm_predicted mm (st_px s)) eqn:E2; simpl; [|auto].
  destruct (mm_innovation mm y0 y) eqn:E3; simpl; [|auto].
  destruct (mm_noisecov mm) as [okR R] eqn:E4; simpl in *.
  destruct okR; [|auto].
  destruct Hf as [Hf|[Hf|[Hf|Hf]]]; try discriminate.
  rewrite (Hf y y0 eq_refl eq_refl) in E3. discriminate.
Qed.

(* the likelihood model under a pattern: which patterns make it fail *)
Definition lik_fails (lm : likmodel) (p : pattern) : bool :=
  match lm with LGauss => fails_any p sites4 | LCustom _ => p Likelihood end.
Notation inject_lik_ := (inject_lik lk_zero1).
Notation lik_eval_ := (lik_eval st_px gl_dens lk_zero1).

Lemma lik_eval_fails (lm : likmodel) (p : pattern) (mm : mmodel) s :
  lik_fails lm p = true -> fst (lik_eval_ (inject_lik_ p lm) (inject p mm) s) = (false, lk_zero1).
Proof.
  destruct lm; simpl; intros Hf.
  - destruct (gl_reports_failure p mm s Hf) as [E _].
    destruct (gl_likelihood_ (inject p mm) s) as [o l]; simpl in *. now subst o.
  - now rewrite Hf.
Qed.

(* Bootstrap *)
Variable boot_wupd : G -> LK -> G.
Notation boot_step_ := (boot_step st_px gl_dens lk_zero1 boot_wupd).

(* general form: any likelihood model / sensor whose likelihood call reports failure *)
Lemma boot_identity_model (lm : likmodel) (mm : mmodel) pred out st :
  fst (fst (lik_eval_ lm mm (snd pred))) = false ->
  r_out (boot_step_ lm mm pred out st) = pred /\
  pf_get_lik (r_st (boot_step_ lm mm pred out st)) = fst (lik_eval_ lm mm (snd pred)).
Proof.
  intros E. unfold boot_step.
  destruct (lik_eval_ lm mm (snd pred)) as [[v lk] l]; simpl in *. subst v. simpl. auto.
Qed.

Lemma boot_identity (lm : likmodel) (p : pattern) (mm : mmodel) pred out st :
  lik_fails lm p = true ->
  r_out (boot_step_ (inject_lik_ p lm) (inject p mm) pred out st) = pred /\
  pf_get_lik (r_st (boot_step_ (inject_lik_ p lm) (inject p mm) pred out st)) = (false, lk_zero1).
Proof.
  intros Hf. pose proof (lik_eval_fails lm p mm (snd pred) Hf) as E.
  destruct (boot_identity_model (inject_lik_ p lm) (inject p mm) pred out st) as [A B]; [now rewrite E|].
  split; [exact A|]. now rewrite B, E.
Qed.

(* identity exactly when the likelihood fails (or the weight update happens to be the identity) *)
Lemma boot_identity_iff (lm : likmodel) (mm : mmodel) pred out st :
  r_out (boot_step_ lm mm pred out st) = pred <->
  (fst (fst (lik_eval_ lm mm (snd pred))) = false \/
   boot_wupd (fst pred) (snd (fst (lik_eval_ lm mm (snd pred)))) = fst pred).
Proof.
  unfold boot_step. destruct (lik_eval_ lm mm (snd pred)) as [[v lk] l]; simpl.
  destruct v; simpl; destruct pred as [g s]; simpl; split.
  - intros E. right. injection E; auto.
  - intros [E|E]; [discriminate|]. now rewrite E.
  - auto.
  - auto.
Qed.

(* getLikelihood never depends on an earlier call *)
Lemma boot_state_fresh (lm : likmodel) (mm : mmodel) pred out st st' :
  r_st (boot_step_ lm mm pred out st) = r_st (boot_step_ lm mm pred out st').
Proof. unfold boot_step. destruct (lik_eval_ _ _ _) as [[[|] lk] l]; reflexivity. Qed.

Lemma boot_no_fault_gauss (y : Y) (h : X -> YP) (inn : YP -> Y -> NU) (R : RC) pred out st :
  let lk := gl_dens (inn (h (st_px (snd pred))) y) R in
  boot_step_ LGauss (inject no_fault (total_mm y h inn R)) pred out st =
  mkRes (boot_wupd (fst pred) lk, snd pred) (mkPfSt true lk) sites4.
Proof. reflexivity. Qed.

Lemma boot_no_fault_custom f (mm : mmodel) pred out st lk :
  f (snd pred) = (true, lk) ->
  boot_step_ (inject_lik_ no_fault (LCustom f)) mm pred out st =
  mkRes (boot_wupd (fst pred) lk, snd pred) (mkPfSt true lk) [Likelihood].
Proof. intros E. unfold boot_step; simpl. now rewrite E. Qed.

Lemma boot_log (lm : likmodel) (p : pattern) (y : Y) (h : X -> YP) (inn : YP -> Y -> NU) (R : RC) pred out st :
  r_log (boot_step_ (inject_lik_ p lm) (inject p (total_mm y h inn R)) pred out st) =
  match lm with LGauss => upto_first_failure p sites4 | LCustom _ => [Likelihood] end.
Proof.
  destruct lm as [|f].
  - rewrite <- (gl_log p y h inn R (snd pred)). unfold boot_step, lik_eval, inject_lik.
    destruct (gl_likelihood _ _ _ _) as [[lk|] l]; reflexivity.
  - unfold boot_step, lik_eval, inject_lik.
    destruct (p Likelihood); [reflexivity|]. destruct (f (snd pred)) as [[|] lk]; reflexivity.
Qed.

(* GPF *)
Variable GS : Type.
Variable gpf_sample : RNG -> G -> St -> St * RNG.
Variable gpf_wupd : pset G St -> LK -> pset G St -> G.
Notation gpf_step_ := (gpf_step st_px gl_dens lk_zero1 gpf_sample gpf_wupd).
Notation gpf_step_aliased_ := (gpf_step_aliased st_px gl_dens lk_zero1 gpf_sample gpf_wupd).

(* the states on which the likelihood is evaluated *)
Definition gpf_states (gc : G -> G -> GS -> result G GS) (pred out : pset G St) (st : gpf_state LK RNG GS) : St :=
  fst (gpf_sample (g_rng st) (r_out (gc (fst pred) (fst out) (g_inner st))) (snd out)).

(* the step in one equation *)
Lemma gpf_step_spec (gc : G -> G -> GS -> result G GS) (lm : likmodel) (mm : mmodel) pred out st :
  let states := gpf_states gc pred out st in
  let vl := fst (lik_eval_ lm mm states) in
  r_out (gpf_step_ gc lm mm pred out st) =
    (if fst vl then (gpf_wupd pred (snd vl) (r_out (gc (fst pred) (fst out) (g_inner st)), states), states) else pred) /\
  pf_get_lik (g_pf (r_st (gpf_step_ gc lm mm pred out st))) = vl.
Proof.
  unfold gpf_step, gpf_states.
  destruct (gpf_sample _ _ _) as [states rng']. simpl.
  destruct (lik_eval_ lm mm states) as [[[|] lk] l]; simpl; auto.
Qed.

(* general form, for every wrapped correction, likelihood model and sensor *)
Lemma gpf_identity_model (gc : G -> G -> GS -> result G GS) (lm : likmodel) (mm : mmodel) pred out st :
  fst (fst (lik_eval_ lm mm (gpf_states gc pred out st))) = false ->
  r_out (gpf_step_ gc lm mm pred out st) = pred /\
  pf_get_lik (g_pf (r_st (gpf_step_ gc lm mm pred out st))) = fst (lik_eval_ lm mm (gpf_states gc pred out st)).
Proof.
  unfold gpf_step, gpf_states.
  destruct (gpf_sample _ _ _) as [states rng']. simpl. intros E.
  destruct (lik_eval_ lm mm states) as [[v lk] l]; simpl in *. subst v. simpl. auto.
Qed.

(* whatever the wrapped Gaussian correction did: an invalid likelihood restores
   the whole predicted set and getLikelihood reports failure *)
Lemma gpf_identity (gc : G -> G -> GS -> result G GS) (lm : likmodel) (p : pattern) (mm : mmodel) pred out st :
  lik_fails lm p = true ->
  r_out (gpf_step_ gc (inject_lik_ p lm) (inject p mm) pred out st) = pred /\
  pf_get_lik (g_pf (r_st (gpf_step_ gc (inject_lik_ p lm) (inject p mm) pred out st))) = (false, lk_zero1).
Proof.
  intros Hf. pose proof (lik_eval_fails lm p mm (gpf_states gc pred out st) Hf) as E.
  destruct (gpf_identity_model gc (inject_lik_ p lm) (inject p mm) pred out st) as [A B]; [now rewrite E|].
  split; [exact A|]. now rewrite B, E.
Qed.

(* for EVERY wrapped correction: the output is the predicted set exactly when the
   likelihood fails (or the complete update happens to reproduce the predicted set) *)
Lemma gpf_identity_iff (gc : G -> G -> GS -> result G GS) (lm : likmodel) (mm : mmodel) pred out st :
  let states := gpf_states gc pred out st in
  let vl := fst (lik_eval_ lm mm states) in
  let corr := (r_out (gc (fst pred) (fst out) (g_inner st)), states) in
  r_out (gpf_step_ gc lm mm pred out st) = pred <->
  (fst vl = false \/ (gpf_wupd pred (snd vl) corr, states) = pred).
Proof.
  unfold gpf_step, gpf_states.
  destruct (gpf_sample _ _ _) as [states rng']. simpl.
  destruct (lik_eval_ lm mm states) as [[v lk] l]; simpl.
  destruct v; simpl; split; auto.
  intros [E|E]; [discriminate|exact E].
Qed.

(* the failed step has nevertheless drawn random numbers and run the wrapped correction *)
Lemma gpf_failed_step_side_effects (gc : G -> G -> GS -> result G GS) (lm : likmodel) (mm : mmodel) pred out st :
  let r := gc (fst pred) (fst out) (g_inner st) in
  g_rng (r_st (gpf_step_ gc lm mm pred out st)) = snd (gpf_sample (g_rng st) (r_out r) (snd out)) /\
  g_inner (r_st (gpf_step_ gc lm mm pred out st)) = r_st r.
Proof.
  unfold gpf_step.
  destruct (gpf_sample _ _ _) as [states rng'].
  destruct (lik_eval_ _ _ _) as [[[|] lk] l]; simpl; auto.
Qed.

(* the wrapped correction could not use the measurement (it returned the
   predicted mixture) but the likelihood model reports a value: the set is
   re-sampled around the PREDICTED moments and re-weighted *)
Lemma gpf_inner_failure_not_detected (gc : G -> G -> GS -> result G GS) (lm : likmodel) (mm : mmodel) pred out st lk :
  r_out (gc (fst pred) (fst out) (g_inner st)) = fst pred ->
  let states := fst (gpf_sample (g_rng st) (fst pred) (snd out)) in
  fst (lik_eval_ lm mm states) = (true, lk) ->
  r_out (gpf_step_ gc lm mm pred out st) = (gpf_wupd pred lk (fst pred, states), states).
Proof.
  intros E states Ef. unfold gpf_step. rewrite E.
  fold states. destruct (gpf_sample _ _ _) as [s rng'] eqn:Es. simpl in states. subst states.
  destruct (lik_eval_ lm mm s) as [[v lk'] l]. simpl in Ef. inversion Ef; subst. reflexivity.
Qed.

(* one object as predicted and corrected set, invalid likelihood, wrapped correction
   returning its input: the "restored" object carries the re-drawn states *)
Lemma gpf_aliased_failure_redraws (gc : G -> G -> GS -> result G GS) (lm : likmodel) (mm : mmodel) pred st :
  r_out (gc (fst pred) (fst pred) (g_inner st)) = fst pred ->
  let states := fst (gpf_sample (g_rng st) (fst pred) (snd pred)) in
  fst (fst (lik_eval_ lm mm states)) = false ->
  r_out (gpf_step_aliased_ gc lm mm pred st) = (fst pred, states).
Proof.
  intros E states Ef. unfold gpf_step_aliased. rewrite E.
  fold states. destruct (gpf_sample _ _ _) as [s rng'] eqn:Es. simpl in states. subst states.
  destruct (lik_eval_ lm mm s) as [[v lk'] l]. simpl in Ef. subst v. reflexivity.
Qed.

Lemma gpf_log (gc : G -> G -> GS -> result G GS) (lm : likmodel) (p : pattern) (y : Y) (h : X -> YP) (inn : YP -> Y -> NU) (R : RC) pred out st :
  r_log (gpf_step_ gc (inject_lik_ p lm) (inject p (total_mm y h inn R)) pred out st) =
  r_log (gc (fst pred) (fst out) (g_inner st)) ++
  match lm with LGauss => upto_first_failure p sites4 | LCustom _ => [Likelihood] end.
Proof.
  unfold gpf_step.
  destruct (gpf_sample _ _ _) as [states rng'].
  destruct lm as [|f].
  - rewrite <- (gl_log p y h inn R states). unfold lik_eval, inject_lik.
    destruct (gl_likelihood _ _ _ _) as [[lk|] l]; reflexivity.
  - unfold lik_eval, inject_lik.
    destruct (p Likelihood); [reflexivity|]. destruct (f states) as [[|] lk]; reflexivity.
Qed.

Lemma gpf_no_fault_gauss (gc : G -> G -> GS -> result G GS) (y : Y) (h : X -> YP) (inn : YP -> Y -> NU) (R : RC) pred out st :
  let r := gc (fst pred) (fst out) (g_inner st) in
  let sr := gpf_sample (g_rng st) (r_out r) (snd out) in
  let lk := gl_dens (inn (h (st_px (fst sr))) y) R in
  gpf_step_ gc LGauss (inject no_fault (total_mm y h inn R)) pred out st =
  mkRes (gpf_wupd pred lk (r_out r, fst sr), fst sr) (mkGpfSt (mkPfSt true lk) (r_st r) (snd sr)) (r_log r ++ sites4).
Proof.
  unfold gpf_step. simpl.
  destruct (gpf_sample _ _ _) as [states rng']. reflexivity.
Qed.
End PF.

(* --------------------------------------------------------------- SIS *)
Section SIS.
Variable sis_predict : pset G St -> pset G St -> pset G St.
Variable sis_correct : pset G St -> pset G St -> pset G St.
Variable sis_normalise : pset G St -> pset G St.
Variable sis_degenerate : pset G St -> bool.
Variable sis_resample : pset G St -> pset G St.
Notation sis_step_ := (sis_step sis_predict sis_correct sis_normalise sis_degenerate sis_resample).
Notation sis_cor_at_log_ := (sis_cor_at_log sis_predict sis_correct sis_normalise).

Lemma sis_skips_correction (p : pattern) (mm : mmodel) step pc :
  p Freeze = true ->
  let fr := mm_freeze (inject p mm) in
  let '(pred, cor, log) := sis_step_ fr step pc in
  ~ In EvCorrect log /\ ~ In EvNormalise log /\
  sis_cor_at_log_ fr step pc = pred /\
  (sis_degenerate pred = false -> cor = pred).
Proof.
  intros Hf. simpl. rewrite Hf. destruct pc as [pred0 cor0].
  unfold sis_step, sis_cor_at_log.
  destruct (Nat.eqb step 0); simpl;
    match goal with |- context [sis_degenerate ?x] => destruct (sis_degenerate x) eqn:D end; simpl;
    intuition congruence.
Qed.

Lemma sis_no_fault (mm : mmodel) step pc :
  mm_freeze mm = true ->
  sis_cor_at_log_ (mm_freeze (inject no_fault mm)) step pc =
  let pred := if Nat.eqb step 0 then fst pc else sis_predict (snd pc) (fst pc) in
  sis_normalise (sis_correct pred (snd pc)).
Proof. intros E. destruct pc. simpl. now rewrite E. Qed.
End SIS.

End Proofs.

(* ------------------------------------------------- structured beliefs *)
Lemma nth_ext_all {A} (l l' : list A) :
  length l = length l' -> (forall i d, nth i l d = nth i l' d) -> l = l'.
Proof.
  revert l'. induction l as [|a l IH]; destruct l' as [|b l']; simpl; intros Hl Hn; try discriminate; [reflexivity|].
  f_equal.
  - exact (Hn 0 a).
  - apply IH; [now inversion Hl|]. intros i d. exact (Hn (S i) d).
Qed.

Lemma whole_object_is_componentwise (Mn Cv Wt Sh : Type) (a b : list (Mn * Cv * Wt) * Sh) :
  a = b <->
  (length (fst a) = length (fst b) /\ snd a = snd b /\
   forall i d, fst (fst (nth i (fst a) d)) = fst (fst (nth i (fst b) d)) /\
               snd (fst (nth i (fst a) d)) = snd (fst (nth i (fst b) d)) /\
               snd (nth i (fst a) d) = snd (nth i (fst b) d)).
Proof.
  split.
  - intros ->. repeat split.
  - destruct a as [ca sa], b as [cb sb]; simpl. intros [Hl [Hs Hn]]. subst sb. f_equal.
    apply nth_ext_all; [exact Hl|]. intros i d. destruct (Hn i d) as [A [B C]].
    destruct (nth i ca d) as [[m c] w], (nth i cb d) as [[m' c'] w']; simpl in *. congruence.
Qed.

Lemma kf_no_partial_update (Mn Cv Wt Sh Y X YP NU RC PY : Type)
      (kf_px : list (Mn * Cv * Wt) * Sh -> X) kf_upd (p : pattern) (mm : mmodel Y X YP NU RC) pred out (st : kf_state NU PY) :
  fails_any p sites4 = true ->
  let o := r_out (kf_step kf_px kf_upd (inject p mm) pred out st) in
  length (fst o) = length (fst pred) /\ snd o = snd pred /\
  forall i d, fst (fst (nth i (fst o) d)) = fst (fst (nth i (fst pred) d)) /\
              snd (fst (nth i (fst o) d)) = snd (fst (nth i (fst pred) d)) /\
              snd (nth i (fst o) d) = snd (nth i (fst pred) d).
Proof.
  intros Hf o. apply whole_object_is_componentwise. unfold o.
  exact (proj1 (kf_identity _ _ _ _ _ _ _ kf_px kf_upd p mm pred out st Hf)).
Qed.

Lemma gpf_no_partial_update (Mn Cv Wt Sh Sx Y X YP NU RC LK RNG GS : Type)
      st_px gl_dens (z : LK) gpf_sample gpf_wupd (gc : _ -> _ -> GS -> result _ GS) (lm : likmodel (list Sx) LK) (p : pattern)
      (mm : mmodel Y X YP NU RC) (pred out : pset (list (Mn * Cv * Wt) * Sh) (list Sx)) (st : gpf_state LK RNG GS) :
  lik_fails _ _ lm p = true ->
  let o := r_out (gpf_step st_px gl_dens z gpf_sample gpf_wupd gc (inject_lik z p lm) (inject p mm) pred out st) in
  length (fst (fst o)) = length (fst (fst pred)) /\ snd (fst o) = snd (fst pred) /\
  (forall i d, nth i (fst (fst o)) d = nth i (fst (fst pred)) d) /\
  length (snd o) = length (snd pred) /\ (forall i d, nth i (snd o) d = nth i (snd pred) d).
Proof.
  intros Hf o.
  assert (E : o = pred) by exact (proj1 (gpf_identity _ _ _ _ _ _ _ _ _ st_px gl_dens z _ gpf_sample gpf_wupd gc lm p mm pred out st Hf)).
  rewrite E. repeat split.
Qed.
