(* C10_Current.v — lemmas about [current_table], the access table that
   props/C10_translate.py regenerates from the C++ sources (C10_AccessTable.v).
   This file is hand-written; it is re-checked whenever the generated table changes.
   (The table of the sources before the skip flags were repaired, with its six racy
   variables, is kept as a regression spec in C10_Regress_PreFix.v.) *)
Require Import List String Bool Arith.
Import ListNotations.
Require Import BFL.C10_Model BFL.C10_Proofs BFL.C10_AccessTable.
Local Open Scope string_scope.

(* the checker reports no offending pair on the table of the current sources *)
Lemma current_race_free : race_freeb current_table = [].
Proof. vm_compute. reflexivity. Qed.

Lemma current_discipline : race_free current_table.
Proof. exact (race_freeb_race_free _ current_race_free). Qed.

Lemma current_no_data_race tr : valid current_table tr -> forall i j o1 o2, ~ race tr i j o1 o2.
Proof. exact (race_freeb_sound _ current_race_free tr). Qed.

Lemma current_no_adjacent_conflict tr : valid current_table tr -> forall i t1 t2 o1 o2,
  nth_error tr i = Some (t1, EAcc o1) -> nth_error tr (S i) = Some (t2, EAcc o2) -> t1 <> t2 ->
  conflicting (o_acc o1) (o_acc o2) = true -> both_atomic (o_acc o1) (o_acc o2) = true.
Proof. exact (no_adjacent_conflict _ current_race_free tr). Qed.

Lemma current_has_executions :
  validb current_table [(Ctl, EFork); (Flt, EAcq "FilteringAlgorithm::mtx_run_");
                        (Flt, ERel "FilteringAlgorithm::mtx_run_"); (Ctl, EJoin)] = true.
Proof. vm_compute. reflexivity. Qed.

(* THE TABLE IS PINNED: a translator that under-collects (clang upgrade, renamed AST field, a root that
   is no longer found) cannot produce a trivially race-free table.  The state the property is about
   must be seen as SHARED (accessed by a control method while the thread may run AND by the filtering
   thread), and the two threads must reach at least the stated numbers of method bodies. *)
Definition required_shared : list string :=
  [ "FilteringAlgorithm::run_"; "FilteringAlgorithm::reset_"; "FilteringAlgorithm::teardown_";
    "FilteringAlgorithm::filtering_step_"; "FilteringAlgorithm::mtx_run_"; "FilteringAlgorithm::cv_run_";
    "GaussianPrediction::skip_"; "GaussianCorrection::skip_"; "PFPrediction::skip_"; "PFCorrection::skip_";
    "StateModel::skip_"; "ExogenousModel::skip_"; "SkipFlag::value_" ].

Definition min_ctl_methods : nat := 20.
Definition min_flt_methods : nat := 100.

Lemma current_table_covers :
  subset_str required_shared (shared_vars current_table) = true /\
  Nat.leb min_ctl_methods (n_methods current_table Ctl) = true /\
  Nat.leb min_flt_methods (n_methods current_table Flt) = true.
Proof. vm_compute. repeat split; reflexivity. Qed.

Lemma current_required_are_shared v : In v required_shared -> In v (shared_vars current_table).
Proof.
  intros H. destruct current_table_covers as [S _]. unfold subset_str in S.
  rewrite forallb_forall in S. apply mem_str_in. apply S. exact H.
Qed.
