(* Properties_Transport.v — "executed model = theorem model" for the unscented steps.
   Every model is ONE Gallina term polymorphic in the arithmetic record MatOps (Ops.v).  The
   correspondence check extracts and runs it at the list instance
       OL = ListMat (FOps tr) sqL egL        (ListOps.v; sqL / egL: ANY list-level oracles),
   the theorems of Properties_C03 / C04 / C05 are about it at the MathComp instance
       OM = MxMat tr sq eg                   (MxOps.v).
   The theorems below say that the results at OL REPRESENT the results at OM
       repr m n l A  :=  l has m rows of n entries  /\  its entries are those of A
   over the scalars of an arbitrary realFieldType (only rounding separates the executed model
   from the theorem model), for
       C03: unscented weights, sigma points, ut_generic / ut_state / ut_additive_state /
            ut_meas / ut_additive_meas  — all layouts (linear, circular, quaternion, noise rows);
       C04: ukf_predict_additive / ukf_predict_generic / ukf_correct_additive /
            ukf_correct_generic / ukf_likelihood;
       C05: sukf_correct / sukf_likelihood (UVR density) and the spec side ukf_correct.
   Premises, all per call (never a contract no function satisfies):
     * the two square-root oracles correspond ON THE COVARIANCES ACTUALLY FACTORED
       (sq_corr / sq_corr5: repr (sqL n lP) (sq P)); eg_corr: the eigenvector oracles correspond,
       required only when the output layout has quaternions;
     * the transformed functions map corresponding columns to corresponding columns, with
       agreeing validity flags (f_corr, fopt_corr, inn_corr, h_corr);
     * every matrix inverted by Gauss-Jordan is invertible AT THE MATHCOMP INSTANCE:
       Pyy_invertible (the predicted measurement covariances; derived for linear models with SPD
       noise: Transport_C04_Pyy_invertible_linear), noise_units / Cinv_unit (derived for SPD
       noise blocks: Transport_C05_sukf_step_spd), log_arg != 0 (the argument of std::log in the
       UVR density; it implies the invertibility of everything that density inverts).
   Transport_oracle_counterpart_exists: every well-formedness-preserving list-level oracle has a
   matrix-level counterpart it corresponds to on all inputs.
   The relations (repr_utres, repr_mix, repr_corr, repr_mix5, repr_members, ...) are the
   field-wise liftings of repr, defined in C03_/C04_/C05_Transport.v.
   Statements only; each is closed by a lemma of those files.  Examples: all premises hold
   together on concrete instances over rat (identity functions as both square-root oracles on an
   identity covariance), and the theorems apply to them. *)
Require Import ZArith List Bool.
Require Import BFL.Ops BFL.ListOps BFL.Density BFL.C01_Model BFL.C03_Model BFL.C04_Model.
Require BFL.C05_Model.
From mathcomp Require Import all_ssreflect all_algebra.
Require Import BFL.MxOps BFL.LinAlg BFL.ListOpsCorrect BFL.C02_Transport BFL.UT_Transport.
Require Import BFL.C03_Transport BFL.C04_Transport BFL.C05_Transport.
Require BFL.C03_Proofs BFL.C05_Proofs.
Import GRing.Theory Num.Theory.
Local Open Scope ring_scope.

Section Transport.
Variable F : realFieldType.
Variable tr : Transc F.
Variable sq : forall n, 'M[F]_n -> 'M[F]_n.
Variable eg : forall n, 'M[F]_n -> 'M[F]_(n,1).
Variables sqL egL : nat -> lmxF F -> lmxF F.
Let S := FOps tr.
Let OL := ListMat S sqL egL.
Let OM := MxMat tr sq eg.
Notation repr m n l A := (@C02_Transport.repr F m n l A) (only parsing).
Notation rcols r := (@repr_list F r 1) (only parsing).
Notation lcomp := (lmxF F * lmxF F)%type (only parsing).

(* no list-level oracle is excluded by a correspondence premise *)
Theorem Transport_oracle_counterpart_exists (fL : nat -> lmxF F -> lmxF F) (c : nat -> nat) :
  (forall n l, wf n n l -> wf n (c n) (fL n l)) ->
  exists fM : forall n, 'M[F]_n -> 'M[F]_(n, c n),
    forall n l (A : 'M[F]_n), repr n n l A -> repr n (c n) (fL n l) (fM n A).
Proof. exact: (oracle_counterpart_exists tr sq eg sqL egL). Qed.

(* ================================ C03 ================================ *)
Theorem Transport_C03_weights (L : layout) (a b k : F) :
  [/\ w_mean (@ut_weights_of OL L a b k) = w_mean (@ut_weights_of OM L a b k),
      w_cov (@ut_weights_of OL L a b k) = w_cov (@ut_weights_of OM L a b k) &
      w_c (@ut_weights_of OL L a b k) = w_c (@ut_weights_of OM L a b k)].
Proof. exact: (ut_weights_of_transport sq eg). Qed.

Theorem Transport_C03_sigma_points (L : layout) d dc (c : F)
        (csl : list lcomp) (csm : list ('cV[F]_d * 'M[F]_dc)) :
  List.Forall2 (fun (cl : lcomp) (cm : 'cV[F]_d * 'M[F]_dc) =>
                  (repr d 1 cl.1 cm.1 /\ repr dc dc cl.2 cm.2) /\ repr dc dc (sqL dc cl.2) (sq dc cm.2)) csl csm ->
  rcols d (@sigma_points OL L d dc c csl) (@sigma_points OM L d dc c csm).
Proof. exact: (sigma_points_repr eg). Qed.

Section C03.
Variables (Lin Lout : layout) (d dc p pc dx : nat).
Variables (wl : utw OL) (wm : utw OM).
Variables (csl : list lcomp) (csm : list ('cV[F]_d * 'M[F]_dc)).
Hypothesis Heg : eg_corr eg egL Lout.
Hypothesis rw : [/\ w_mean wl = w_mean wm, w_cov wl = w_cov wm & w_c wl = w_c wm].
Hypothesis rc : List.Forall2 (fun (cl : lcomp) (cm : 'cV[F]_d * 'M[F]_dc) =>
                  (repr d 1 cl.1 cm.1 /\ repr dc dc cl.2 cm.2) /\ repr dc dc (sqL dc cl.2) (sq dc cm.2)) csl csm.

Theorem Transport_C03_ut_generic fL fM : @fopt_corr F d p fL fM ->
  repr_opt (@repr_utres F tr sq eg sqL egL p pc dx)
           (@ut_generic OL Lin Lout d dc p pc dx wl csl fL) (@ut_generic OM Lin Lout d dc p pc dx wm csm fM).
Proof. exact: ut_generic_transport. Qed.

Theorem Transport_C03_ut_state fL fM : @f_corr F d p fL fM ->
  @repr_utres F tr sq eg sqL egL p pc dx
    (@ut_state OL Lin Lout d dc p pc dx wl csl fL) (@ut_state OM Lin Lout d dc p pc dx wm csm fM).
Proof. exact: ut_state_transport. Qed.

Theorem Transport_C03_ut_additive_state fL fM lQ (Q : 'M[F]_pc) : @f_corr F d p fL fM -> repr pc pc lQ Q ->
  @repr_utres F tr sq eg sqL egL p pc dx
    (@ut_additive_state OL Lin Lout d dc p pc dx wl csl fL lQ)
    (@ut_additive_state OM Lin Lout d dc p pc dx wm csm fM Q).
Proof. exact: ut_additive_state_transport. Qed.

Theorem Transport_C03_ut_meas fL fM : @fopt_corr F d p fL fM ->
  repr_opt (@repr_utres F tr sq eg sqL egL p pc dx)
           (@ut_meas OL Lin Lout d dc p pc dx wl csl fL) (@ut_meas OM Lin Lout d dc p pc dx wm csm fM).
Proof. exact: ut_meas_transport. Qed.

Theorem Transport_C03_ut_additive_meas fL fM lR (R : 'M[F]_pc) : @fopt_corr F d p fL fM -> repr pc pc lR R ->
  repr_opt (@repr_utres F tr sq eg sqL egL p pc dx)
           (@ut_additive_meas OL Lin Lout d dc p pc dx wl csl fL lR)
           (@ut_additive_meas OM Lin Lout d dc p pc dx wm csm fM R).
Proof. exact: ut_additive_meas_transport. Qed.
End C03.

(* the harness' model functions satisfy the function premises *)
Theorem Transport_model_functions_correspond d p lA (A : 'M[F]_(p,d)) lG (G : 'M[F]_(p,d))
        lb (b : 'cV[F]_p) lg (g : 'cV[F]_p) :
  repr p d lA A -> repr p d lG G -> repr p 1 lb b -> repr p 1 lg g ->
  [/\ @f_corr F d p (@affine_cols OL d p lA lb) (@affine_cols OM d p A b),
      @f_corr F d p (@quadratic_cols OL d p lA lG lb lg) (@quadratic_cols OM d p A G b g),
      @f_corr F d p (@linear_cols OL d p lA) (@linear_cols OM d p A) &
      @inn_corr F p (@lin_innovation_cols OL p) (@lin_innovation_cols OM p)].
Proof.
move=> rA rG rb rg; split; [exact: affine_cols_corr | exact: quadratic_cols_corr | exact: linear_cols_corr |].
exact: lin_innovation_cols_corr.
Qed.

(* ================================ C04 ================================ *)
Theorem Transport_C04_ukf_predict_additive n (Lstate : layout) (a b k : F) (sp ss : bool) fL fM lQ (Q : 'M[F]_n) q
        (prevl : mixture OL n n) (prevm : mixture OM n n) :
  eg_corr eg egL (l_noiseless Lstate) -> @f_corr F n n fL fM -> repr n n lQ Q ->
  @repr_mix F tr sq eg sqL egL n n prevl prevm ->
  (sp || ss = false -> sq_corr_comps sq sqL (mx_comps prevl) (mx_comps prevm)) ->
  @repr_mix F tr sq eg sqL egL n n
    (@ukf_predict_additive OL n Lstate a b k sp ss fL lQ q prevl)
    (@ukf_predict_additive OM n Lstate a b k sp ss fM Q q prevm).
Proof. exact: ukf_predict_additive_transport. Qed.

Theorem Transport_C04_ukf_predict_generic n q (Ldesc Lstate : layout) (a b k : F) (sp ss : bool) fL fM
        lQ (Q : 'M[F]_q) (prevl : mixture OL n n) (prevm : mixture OM n n) :
  eg_corr eg egL (l_noiseless Lstate) -> @f_corr F (n + q) n fL fM -> repr q q lQ Q ->
  @repr_mix F tr sq eg sqL egL n n prevl prevm ->
  (sp || ss = false ->
   sq_corr_comps sq sqL (List.map (@augment_comp OL n n q lQ) (mx_comps prevl))
                        (List.map (@augment_comp OM n n q Q) (mx_comps prevm))) ->
  @repr_mix F tr sq eg sqL egL n n
    (@ukf_predict_generic OL n q Ldesc Lstate a b k sp ss fL lQ prevl)
    (@ukf_predict_generic OM n q Ldesc Lstate a b k sp ss fM Q prevm).
Proof. exact: ukf_predict_generic_transport. Qed.

Section C04Correct.
Variables (n m : nat) (Ldesc Lmeas : layout) (a b k : F) (skip : bool).
Variables (measl : option (lmxF F)) (measm : option 'cV[F]_m).
Variables (gL : list (lmxF F) -> lmxF F -> option (list (lmxF F)))
          (gM : list 'cV[F]_m -> 'cV[F]_m -> option (list 'cV[F]_m)).
Variables (predl corrl : mixture OL n n) (predm corrm : mixture OM n n).
Variables (stl : ukf_state OL m) (stm : ukf_state OM m).
Hypothesis Heg : eg_corr eg egL (l_noiseless Lmeas).
Hypothesis rmeas : repr_opt (fun l (y : 'cV[F]_m) => repr m 1 l y) measl measm.
Hypothesis Hg : @inn_corr F m gL gM.
Hypothesis rp : @repr_mix F tr sq eg sqL egL n n predl predm.
Hypothesis rco : @repr_mix F tr sq eg sqL egL n n corrl corrm.
Hypothesis rst : @repr_ukfst F tr sq eg sqL egL m stl stm.

(* result: (corrected mixture, kept state, per-component Kalman-style records) *)
Theorem Transport_C04_ukf_correct_additive fL fM lR (R : 'M[F]_m) :
  @fopt_corr F n m fL fM -> repr m m lR R ->
  (skip = false -> measm <> None -> sq_corr_comps sq sqL (mx_comps predl) (mx_comps predm)) ->
  (skip = false -> forall y, measm = Some y ->
     Pyy_invertible (@ut_additive_meas OM (mx_layout predm) (l_noiseless Lmeas) n n m m n
                       (@ut_weights_of OM (l_noiseless Ldesc) a b k) (mx_comps predm) fM R)) ->
  @repr_corr F tr sq eg sqL egL n m
    (@ukf_correct_additive OL n m Ldesc Lmeas a b k skip measl fL gL lR predl corrl stl)
    (@ukf_correct_additive OM n m Ldesc Lmeas a b k skip measm fM gM R predm corrm stm).
Proof. exact: ukf_correct_additive_transport. Qed.

Theorem Transport_C04_ukf_correct_generic q fL fM lRv (Rv : 'M[F]_q) :
  @fopt_corr F (n + q) m fL fM -> repr q q lRv Rv ->
  (skip = false -> measm <> None ->
   sq_corr_comps sq sqL (List.map (@augment_comp OL n n q lRv) (mx_comps predl))
                        (List.map (@augment_comp OM n n q Rv) (mx_comps predm))) ->
  (skip = false -> forall y, measm = Some y ->
     Pyy_invertible (@ut_meas OM (l_add_noise (mx_layout predm) q) (l_noiseless Lmeas) (n + q) (n + q) m m n
                       (@ut_weights_of OM Ldesc a b k) (List.map (@augment_comp OM n n q Rv) (mx_comps predm)) fM)) ->
  @repr_corr F tr sq eg sqL egL n m
    (@ukf_correct_generic OL n q m Ldesc Lmeas a b k skip measl fL gL lRv predl corrl stl)
    (@ukf_correct_generic OM n q m Ldesc Lmeas a b k skip measm fM gM Rv predm corrm stm).
Proof. exact: ukf_correct_generic_transport. Qed.
End C04Correct.

Theorem Transport_C04_ukf_likelihood m (stl : ukf_state OL m) (stm : ukf_state OM m) :
  @repr_ukfst F tr sq eg sqL egL m stl stm ->
  List.Forall (fun P : 'M[F]_m => P \in unitmx) (List.firstn (length (us_innov stm)) (us_Pyy stm)) ->
  @ukf_likelihood OL m stl = @ukf_likelihood OM m stm.
Proof. exact: ukf_likelihood_transport. Qed.

(* linear measurement model, SPD noise: the invertibility premise of the additive correction holds *)
Theorem Transport_C04_Pyy_invertible_linear n m (Ldesc Lmeas : layout) (a b k : F)
        (H : 'M[F]_(m,n)) (R : 'M[F]_m) (predm : mixture OM n n) :
  C04_Proofs.plain_layout (mx_layout predm) n ->
  l_lin Lmeas = m -> l_circ Lmeas = 0%N -> l_lin Ldesc = n -> l_circ Ldesc = 0%N ->
  w_c (@ut_weights OM n a b k) != 0 ->
  t_sqrt tr (w_c (@ut_weights OM n a b k)) * t_sqrt tr (w_c (@ut_weights OM n a b k)) = w_c (@ut_weights OM n a b k) ->
  (forall mc : 'cV[F]_n * 'M[F]_n, List.In mc (mx_comps predm) -> sq n mc.2 *m (sq n mc.2)^T = mc.2) ->
  (forall mc : 'cV[F]_n * 'M[F]_n, List.In mc (mx_comps predm) -> psd mc.2) -> spd R ->
  Pyy_invertible (@ut_additive_meas OM (mx_layout predm) (l_noiseless Lmeas) n n m m n
                    (@ut_weights_of OM (l_noiseless Ldesc) a b k) (mx_comps predm)
                    (fun X => Some (@linear_cols OM n m H X)) R).
Proof. exact: Pyy_invertible_additive_linear. Qed.

(* ================================ C05 ================================ *)
Section C05.
Variables (n m s nl ml : nat).
Variables (wl : C05_Model.utw OL) (wm : C05_Model.utw OM).
Variables (hL : lmxF F -> lmxF F) (hM : 'cV[F]_n -> 'cV[F]_m).
Variables (ly : lmxF F) (y : 'cV[F]_m).
Variables (predl corrl : C05_Model.mixture OL n) (predm corrm : C05_Model.mixture OM n).
Hypothesis rw : @repr_utw5 F tr sq eg sqL egL wl wm.
Hypothesis Hh : @h_corr F n m hL hM.
Hypothesis ry : repr m 1 ly y.
Hypothesis rp : @repr_mix5 F tr sq eg sqL egL n predl predm.
Hypothesis rco : @repr_mix5 F tr sq eg sqL egL n corrl corrm.

Theorem Transport_C05_weights (a b k : F) :
  @repr_utw5 F tr sq eg sqL egL (@C05_Model.ut_weights OL n a b k) (@C05_Model.ut_weights OM n a b k).
Proof. exact: ut_weights5_transport. Qed.

Theorem Transport_C05_sukf_correct (nzl : C05_Model.noise OL s m) (nzm : C05_Model.noise OM s m) :
  @repr_noise F tr sq eg sqL egL s m nzl nzm ->
  (Nat.modulo m s = 0%N ->
   [/\ List.Forall2 (fun (cl : lcomp) (cm : 'cV[F]_n * 'M[F]_n) => sq_corr5 sq sqL cl.2 cm.2)
                    (C05_Model.mix_comps predl) (C05_Model.mix_comps predm),
       noise_units nzm &
       List.Forall (fun c : 'cV[F]_n * 'M[F]_n => Cinv_unit nl ml wm hM y nzm c.1 c.2) (C05_Model.mix_comps predm)]) ->
  @repr_mix5 F tr sq eg sqL egL n
    (@C05_Model.sukf_correct OL n m s nl ml wl hL ly nzl predl corrl).1
    (@C05_Model.sukf_correct OM n m s nl ml wm hM y nzm predm corrm).1 /\
  @repr_members F tr sq eg sqL egL n m
    (@C05_Model.sukf_correct OL n m s nl ml wl hL ly nzl predl corrl).2
    (@C05_Model.sukf_correct OM n m s nl ml wm hM y nzm predm corrm).2.
Proof. by move=> rnz; exact: sukf_correct_transport. Qed.

Theorem Transport_C05_sukf_likelihood (nzl : C05_Model.noise OL s m) (nzm : C05_Model.noise OM s m)
        (bl : C05_Model.members OL n m) (bm : C05_Model.members OM n m) :
  @repr_noise F tr sq eg sqL egL s m nzl nzm -> @repr_members F tr sq eg sqL egL n m bl bm ->
  (forall outs, bm = Some outs -> List.Forall (fun o => log_arg nzm o != 0) outs) ->
  @C05_Model.sukf_likelihood OL n m s nzl bl = @C05_Model.sukf_likelihood OM n m s nzm bm.
Proof. exact: sukf_likelihood_transport. Qed.

(* the spec side: the standard additive unscented correction of C05_Model *)
Theorem Transport_C05_ukf_correct lR (R : 'M[F]_m) :
  repr m m lR R ->
  List.Forall2 (fun (cl : lcomp) (cm : 'cV[F]_n * 'M[F]_n) => sq_corr5 sq sqL cl.2 cm.2)
               (C05_Model.mix_comps predl) (C05_Model.mix_comps predm) ->
  List.Forall (fun c : 'cV[F]_n * 'M[F]_n =>
                 (C05_Model.uo_Pyy (@C05_Model.ukf_correct_comp_lay OM n m nl ml wm hM y R c.1 c.2) : 'M[F]_m) \in unitmx)
              (C05_Model.mix_comps predm) ->
  @repr_mix5 F tr sq eg sqL egL n
    (@C05_Model.ukf_correct OL n m nl ml wl hL ly lR predl corrl).1
    (@C05_Model.ukf_correct OM n m nl ml wm hM y R predm corrm).1 /\
  List.Forall2 (@repr_uo F tr sq eg sqL egL n m)
    (@C05_Model.ukf_correct OL n m nl ml wl hL ly lR predl corrl).2
    (@C05_Model.ukf_correct OM n m nl ml wm hM y R predm corrm).2.
Proof. by move=> rR; exact: ukf_correct_transport. Qed.

Theorem Transport_C05_ukf_likelihood (ol : C05_Model.ukf_out OL n m) (om : C05_Model.ukf_out OM n m) :
  @repr_uo F tr sq eg sqL egL n m ol om -> (C05_Model.uo_Pyy om : 'M[F]_m) \in unitmx ->
  @C05_Model.ukf_likelihood_comp OL n m ol = @C05_Model.ukf_likelihood_comp OM n m om.
Proof. exact: ukf_likelihood_comp_transport. Qed.
End C05.

(* k blocks of size s > 0 with SPD noise blocks (the premises of Properties_C05): no
   invertibility premise is left; step and likelihood *)
Theorem Transport_C05_sukf_step_spd n nl ml k s
        (nzl : C05_Model.noise OL s (k * s)) (nzm : C05_Model.noise OM s (k * s)) (Rb : nat -> 'M[F]_s)
        (wl : C05_Model.utw OL) (wm : C05_Model.utw OM) hL (hM : 'cV[F]_n -> 'cV[F]_(k * s))
        ly (y : 'cV[F]_(k * s)) (predl corrl : C05_Model.mixture OL n) (predm corrm : C05_Model.mixture OM n) :
  (0 < s)%N -> @repr_noise F tr sq eg sqL egL s (k * s) nzl nzm ->
  C05_Proofs.noise_blocks nzm Rb -> (forall j, (j < k)%N -> spd (Rb j)) ->
  @repr_utw5 F tr sq eg sqL egL wl wm -> @h_corr F n (k * s) hL hM -> repr (k * s) 1 ly y ->
  @repr_mix5 F tr sq eg sqL egL n predl predm -> @repr_mix5 F tr sq eg sqL egL n corrl corrm ->
  List.Forall2 (fun (cl : lcomp) (cm : 'cV[F]_n * 'M[F]_n) => sq_corr5 sq sqL cl.2 cm.2)
               (C05_Model.mix_comps predl) (C05_Model.mix_comps predm) ->
  [/\ @repr_mix5 F tr sq eg sqL egL n
        (@C05_Model.sukf_correct OL n (k * s) s nl ml wl hL ly nzl predl corrl).1
        (@C05_Model.sukf_correct OM n (k * s) s nl ml wm hM y nzm predm corrm).1,
      @repr_members F tr sq eg sqL egL n (k * s)
        (@C05_Model.sukf_correct OL n (k * s) s nl ml wl hL ly nzl predl corrl).2
        (@C05_Model.sukf_correct OM n (k * s) s nl ml wm hM y nzm predm corrm).2 &
      @C05_Model.sukf_likelihood OL n (k * s) s nzl (@C05_Model.sukf_correct OL n (k * s) s nl ml wl hL ly nzl predl corrl).2 =
      @C05_Model.sukf_likelihood OM n (k * s) s nzm (@C05_Model.sukf_correct OM n (k * s) s nl ml wm hM y nzm predm corrm).2].
Proof. by move=> s0 rnz Hnz Hspd; exact: (sukf_step_transport_spd nl ml s0 rnz Hnz Hspd). Qed.

End Transport.

(* ---- non-vacuity, concretely: rationals, identity functions as both square-root oracles, an
   identity covariance ---- *)
Definition trQ : Transc [realFieldType of rat] :=
  @mkTransc [realFieldType of rat] id id id id id id (fun y _ => y) 3%:R 0.

(* all premises of Transport_C04_ukf_correct_additive hold together (n = m = 2, H = R = P = I,
   alpha = 1, beta = 0, kappa = 1 - n: c = 1) *)
Example Transport_C04_premises_satisfiable_rat :
  let OL := ListMat (FOps trQ) (@id_sqL _) (@zero_egL _ trQ) in
  let OM := MxMat trQ (@id_sq _) (@zero_eg _) in
  [/\ eg_corr (@zero_eg _) (@zero_egL _ trQ) (l_noiseless (plainL 2)),
      @inn_corr _ 2 (@lin_innovation_cols OL 2) (@lin_innovation_cols OM 2),
      repr_mix (unit_mixL trQ 2) (unit_mixM trQ 2) /\
      sq_corr_comps (@id_sq _) (@id_sqL _) (mx_comps (unit_mixL trQ 2)) (mx_comps (unit_mixM trQ 2)),
      @fopt_corr _ 2 2 (fun X => Some (@linear_cols OL 2 2 (@mid OL 2) X))
                       (fun X => Some (@linear_cols OM 2 2 (1%:M : 'M[rat]_2) X)) &
      Pyy_invertible (@ut_additive_meas OM (mx_layout (unit_mixM trQ 2)) (l_noiseless (plainL 2)) 2 2 2 2 2
                        (@ut_weights_of OM (l_noiseless (plainL 2)) 1 0 (unit_kappa trQ 2)) (mx_comps (unit_mixM trQ 2))
                        (fun X => Some (@linear_cols OM 2 2 (1%:M : 'M[rat]_2) X)) (1%:M : 'M[rat]_2))].
Proof. exact: (ukf_correct_premises_satisfiable (tr:=trQ) 2 erefl). Qed.

(* ... and the executed correction of that instance represents the MathComp one *)
Example Transport_C04_instance_rat :
  let OL := ListMat (FOps trQ) (@id_sqL _) (@zero_egL _ trQ) in
  let OM := MxMat trQ (@id_sq _) (@zero_eg _) in
  repr_corr (@ukf_correct_additive OL 2 2 (plainL 2) (plainL 2) 1 0 (unit_kappa trQ 2) false (Some (@mzero OL 2 1))
               (fun X => Some (@linear_cols OL 2 2 (@mid OL 2) X)) (@lin_innovation_cols OL 2) (@mid OL 2)
               (unit_mixL trQ 2) (unit_mixL trQ 2) (@mkUkfState OL 2 nil nil))
            (@ukf_correct_additive OM 2 2 (plainL 2) (plainL 2) 1 0 (unit_kappa trQ 2) false (Some (0 : 'cV[rat]_2))
               (fun X => Some (@linear_cols OM 2 2 (1%:M : 'M[rat]_2) X)) (@lin_innovation_cols OM 2) (1%:M : 'M[rat]_2)
               (unit_mixM trQ 2) (unit_mixM trQ 2) (@mkUkfState OM 2 nil nil)).
Proof. exact: (ukf_correct_unit_instance (tr:=trQ) 2 erefl). Qed.

(* all premises of Transport_C05_sukf_step_spd hold together (n = 2, k = 2 blocks of size 1) *)
Example Transport_C05_premises_satisfiable_rat :
  let OL := ListMat (FOps trQ) (@id_sqL _) (@zero_egL _ trQ) in
  let OM := MxMat trQ (@id_sq _) (@zero_eg _) in
  [/\ @h_corr _ 2 (2 * 1) (zero_hL trQ 2 2 0) (@zero_hM _ trQ 2 2 0),
      @repr_noise _ trQ (@id_sq _) (@zero_eg _) (@id_sqL _) (@zero_egL _ trQ) 1 (2 * 1)
                  (@C05_Model.NoiseReduced OL 1 (2 * 1) (@mid OL 1))
                  (@C05_Model.NoiseReduced OM 1 (2 * 1) (1%:M : 'M[rat]_1)),
      C05_Proofs.noise_blocks (@C05_Model.NoiseReduced OM 1 (2 * 1) (1%:M : 'M[rat]_1)) (fun _ => 1%:M : 'M[rat]_1) /\
      (forall j, (j < 2)%N -> spd (1%:M : 'M[rat]_1)),
      repr_mix5 (unit_mix5L trQ 2) (unit_mix5M trQ 2) &
      List.Forall2 (fun (cl : lmxF _ * lmxF _) (cm : 'cV[rat]_2 * 'M[rat]_2) =>
                      sq_corr5 (@id_sq _) (@id_sqL _) cl.2 cm.2)
                   (C05_Model.mix_comps (unit_mix5L trQ 2)) (C05_Model.mix_comps (unit_mix5M trQ 2))].
Proof. exact: (sukf_premises_satisfiable trQ 2 2 0). Qed.

(* ... and the executed serial correction of that instance and its likelihood represent / equal
   the MathComp ones (measurement y = 0, any layout split nl / ml, any alpha, beta, kappa) *)
Example Transport_C05_instance_rat nl ml (a b kp : rat) :
  let OL := ListMat (FOps trQ) (@id_sqL _) (@zero_egL _ trQ) in
  let OM := MxMat trQ (@id_sq _) (@zero_eg _) in
  let nzl := @C05_Model.NoiseReduced OL 1 (2 * 1) (@mid OL 1) in
  let nzm := @C05_Model.NoiseReduced OM 1 (2 * 1) (1%:M : 'M[rat]_1) in
  let rl := @C05_Model.sukf_correct OL 2 (2 * 1) 1 nl ml (@C05_Model.ut_weights OL 2 a b kp) (zero_hL trQ 2 2 0)
              (@mzero OL (2 * 1) 1) nzl (unit_mix5L trQ 2) (unit_mix5L trQ 2) in
  let rm := @C05_Model.sukf_correct OM 2 (2 * 1) 1 nl ml (@C05_Model.ut_weights OM 2 a b kp) (@zero_hM _ trQ 2 2 0)
              (0 : 'cV[rat]_(2 * 1)) nzm (unit_mix5M trQ 2) (unit_mix5M trQ 2) in
  [/\ @repr_mix5 _ trQ (@id_sq _) (@zero_eg _) (@id_sqL _) (@zero_egL _ trQ) 2 rl.1 rm.1,
      @repr_members _ trQ (@id_sq _) (@zero_eg _) (@id_sqL _) (@zero_egL _ trQ) 2 (2 * 1) rl.2 rm.2 &
      @C05_Model.sukf_likelihood OL 2 (2 * 1) 1 nzl rl.2 = @C05_Model.sukf_likelihood OM 2 (2 * 1) 1 nzm rm.2].
Proof. exact: (sukf_step_unit_instance trQ 2 2 0 nl ml a b kp). Qed.

Print Assumptions Transport_oracle_counterpart_exists.
Print Assumptions Transport_C03_weights.
Print Assumptions Transport_C03_sigma_points.
Print Assumptions Transport_C03_ut_generic.
Print Assumptions Transport_C03_ut_state.
Print Assumptions Transport_C03_ut_additive_state.
Print Assumptions Transport_C03_ut_meas.
Print Assumptions Transport_C03_ut_additive_meas.
Print Assumptions Transport_model_functions_correspond.
Print Assumptions Transport_C04_ukf_predict_additive.
Print Assumptions Transport_C04_ukf_predict_generic.
Print Assumptions Transport_C04_ukf_correct_additive.
Print Assumptions Transport_C04_ukf_correct_generic.
Print Assumptions Transport_C04_ukf_likelihood.
Print Assumptions Transport_C04_Pyy_invertible_linear.
Print Assumptions Transport_C05_weights.
Print Assumptions Transport_C05_sukf_correct.
Print Assumptions Transport_C05_sukf_likelihood.
Print Assumptions Transport_C05_ukf_correct.
Print Assumptions Transport_C05_ukf_likelihood.
Print Assumptions Transport_C05_sukf_step_spd.
