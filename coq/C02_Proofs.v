(* C02_Proofs.v — the Kalman prediction model at the MathComp instance. *)
Require Import ZArith List Bool Lia.
Require Import BFL.Ops BFL.C02_Model.
From mathcomp Require Import all_ssreflect all_algebra.
Require Import BFL.MxOps BFL.LinAlg.
Set Implicit Arguments.
Unset Strict Implicit.
Unset Printing Implicit Defensive.
Import Order.Theory GRing.Theory Num.Theory.
Local Open Scope ring_scope.

Section KFP.
Variable F : realFieldType.
Variable tr : Transc F.
Variable sq : forall n, 'M[F]_n -> 'M[F]_n.
Variable eg : forall n, 'M[F]_n -> 'M[F]_(n,1).
Let O := MxMat tr sq eg.

(* ---- the structural column accessor of Ops.v is MathComp's col ---- *)
Lemma mcol_in n k (A : 'M[F]_(n,k)) (i : nat) (ik : (i < k)%N) :
  (mcol (O:=O) i A : 'cV[F]_n) = col (Ordinal ik) A.
Proof.
apply/matrixP=> r c; rewrite /mcol /= !mxE.
exact: (mx_get_ord A r (Ordinal ik)).
Qed.

Lemma mcol_out n k (A : 'M[F]_(n,k)) (i : nat) : (k <= i)%N ->
  (mcol (O:=O) i A : 'cV[F]_n) = 0.
Proof. by move=> ki; apply/matrixP=> r c; rewrite /mcol /= !mxE mx_get_out_c. Qed.

Lemma col_mulmx n p k (A : 'M[F]_(n,p)) (X : 'M[F]_(p,k)) (j : 'I_k) :
  col j (A *m X) = A *m col j X.
Proof.
by apply/matrixP=> r c; rewrite !mxE; apply: eq_bigr => l _; rewrite !mxE.
Qed.

Lemma mcol_mul n p k (A : 'M[F]_(n,p)) (X : 'M[F]_(p,k)) (i : nat) :
  (mcol (O:=O) i (A *m X : 'M[F]_(n,k)) : 'cV[F]_n) = A *m (mcol (O:=O) i X : 'cV[F]_p).
Proof.
case: (ltnP i k) => [ik|ki]; first by rewrite !(mcol_in _ ik) col_mulmx.
by rewrite !mcol_out // mulmx0.
Qed.

Lemma mcol_add n k (A B : 'M[F]_(n,k)) (i : nat) :
  (mcol (O:=O) i (A + B : 'M[F]_(n,k)) : 'cV[F]_n) = mcol (O:=O) i A + mcol (O:=O) i B.
Proof.
case: (ltnP i k) => [ik|ki]; first by rewrite !(mcol_in _ ik) linearD.
by rewrite !mcol_out // addr0.
Qed.

Variables (n k : nat).
Variables (Ft Q : 'M[F]_n).
Implicit Types (prev old : gmix O n k) (u : 'M[F]_(n,k) -> 'M[F]_(n,k)).

(* ---- means ---- *)
Lemma kfp_means_exo u prev old :
  (gm_means (kf_predict (O:=O) Ft Q (Some u) prev old) : 'M[F]_(n,k)) =
  Ft *m gm_means prev + u (gm_means prev).
Proof. by []. Qed.

Lemma kfp_means_noexo prev old :
  (gm_means (kf_predict (O:=O) Ft Q None prev old) : 'M[F]_(n,k)) = Ft *m gm_means prev.
Proof. by []. Qed.

Lemma kfp_mean_i_exo u prev old (i : nat) :
  (gm_mean_i (kf_predict (O:=O) Ft Q (Some u) prev old) i : 'cV[F]_n) =
  Ft *m gm_mean_i prev i + mcol (O:=O) i (u (gm_means prev)).
Proof. by rewrite /gm_mean_i kfp_means_exo mcol_add mcol_mul. Qed.

Lemma kfp_mean_i_noexo prev old (i : nat) :
  (gm_mean_i (kf_predict (O:=O) Ft Q None prev old) i : 'cV[F]_n) = Ft *m gm_mean_i prev i.
Proof. by rewrite /gm_mean_i kfp_means_noexo mcol_mul. Qed.

(* the spec-level function the violation search evaluates is the same formula *)
Lemma kfp_mean_i_is_spec u prev old (i : nat) :
  gm_mean_i (kf_predict (O:=O) Ft Q (Some u) prev old) i =
  spec_mean (O:=O) Ft (mcol (O:=O) i (u (gm_means prev))) (gm_mean_i prev i).
Proof. exact: kfp_mean_i_exo. Qed.

(* ---- covariances ---- *)
Lemma overwrite_prefix_nth1 A (new old : list A) i d :
  (i < length new)%coq_nat -> List.nth i (overwrite_prefix new old) d = List.nth i new d.
Proof. by move=> h; rewrite /overwrite_prefix app_nth1. Qed.

Lemma overwrite_prefix_nth2 A (new old : list A) i d :
  (length new <= i)%coq_nat -> List.nth i (overwrite_prefix new old) d = List.nth i old d.
Proof.
rewrite /overwrite_prefix; elim: new old i => [|a new IH] old i //=.
case: i => [|i] h; first by inversion h.
case: old => [|b old] /=.
  by rewrite app_nil_r nth_overflow //; lia.
by apply: IH; lia.
Qed.

Lemma overwrite_prefix_full A (new old : list A) :
  (length old <= length new)%coq_nat -> overwrite_prefix new old = new.
Proof. by move=> h; rewrite /overwrite_prefix skipn_all2 // app_nil_r. Qed.

Lemma overwrite_prefix_length A (new old : list A) :
  (length new <= length old)%coq_nat -> length (overwrite_prefix new old) = length old.
Proof.
move=> h; rewrite /overwrite_prefix app_length skipn_length.
by rewrite -Minus.le_plus_minus.
Qed.

Lemma kfp_covs exo prev old :
  gm_covs (kf_predict (O:=O) Ft Q exo prev old) =
  overwrite_prefix (List.map (kf_predict_cov (O:=O) Ft Q) (gm_covs prev)) (gm_covs old).
Proof. by []. Qed.

Lemma kfp_cov_i exo prev old (i : nat) d :
  (i < length (gm_covs prev))%coq_nat ->
  (List.nth i (gm_covs (kf_predict (O:=O) Ft Q exo prev old)) d : 'M[F]_n) =
  Ft *m List.nth i (gm_covs prev) d *m Ft^T + Q.
Proof.
move=> h; rewrite kfp_covs overwrite_prefix_nth1 ?map_length //.
by rewrite (nth_indep _ d (kf_predict_cov (O:=O) Ft Q d)) ?map_length // map_nth.
Qed.

Lemma kfp_cov_psd (P : 'M[F]_n) : psd P -> psd Q ->
  psd (kf_predict_cov (O:=O) Ft Q P : 'M[F]_n).
Proof. by move=> pP pQ; apply: psd_add => //; exact: psd_congr. Qed.

Lemma kfp_cov_i_psd exo prev old (i : nat) d :
  (i < length (gm_covs prev))%coq_nat ->
  psd (List.nth i (gm_covs prev) d : 'M[F]_n) -> psd Q ->
  psd (List.nth i (gm_covs (kf_predict (O:=O) Ft Q exo prev old)) d : 'M[F]_n).
Proof. by move=> h pP pQ; rewrite kfp_cov_i //; exact: kfp_cov_psd. Qed.

Lemma kfp_cov_i_sym exo prev old (i : nat) d :
  (i < length (gm_covs prev))%coq_nat ->
  sym (List.nth i (gm_covs prev) d : 'M[F]_n) -> sym Q ->
  sym (List.nth i (gm_covs (kf_predict (O:=O) Ft Q exo prev old)) d : 'M[F]_n).
Proof. by move=> h sP sQ; rewrite kfp_cov_i //; apply: sym_add => //; exact: sym_congr. Qed.

(* ---- component-wise, counts ---- *)
Lemma kfp_cov_count exo prev old :
  length (gm_covs old) = length (gm_covs prev) ->
  length (gm_covs (kf_predict (O:=O) Ft Q exo prev old)) = length (gm_covs prev).
Proof.
move=> e; rewrite kfp_covs overwrite_prefix_length ?map_length ?e //.
Qed.

Lemma kfp_covs_same_shape exo prev old :
  length (gm_covs old) = length (gm_covs prev) ->
  gm_covs (kf_predict (O:=O) Ft Q exo prev old) =
  List.map (kf_predict_cov (O:=O) Ft Q) (gm_covs prev).
Proof. by move=> e; rewrite kfp_covs overwrite_prefix_full // map_length e. Qed.

(* component i of the result is a function of component i of the input alone
   (given the exogenous contribution): changing the other components changes nothing *)
Lemma kfp_cov_independent exo prev prev' old old' (i : nat) d :
  (i < length (gm_covs prev))%coq_nat -> (i < length (gm_covs prev'))%coq_nat ->
  List.nth i (gm_covs prev) d = List.nth i (gm_covs prev') d ->
  List.nth i (gm_covs (kf_predict (O:=O) Ft Q exo prev old)) d =
  List.nth i (gm_covs (kf_predict (O:=O) Ft Q exo prev' old')) d.
Proof. by move=> h h' e; rewrite (kfp_cov_i _ _ _ h) (kfp_cov_i _ _ _ h') e. Qed.

Lemma kfp_mean_independent prev prev' old old' (i : nat) :
  gm_mean_i prev i = gm_mean_i prev' i ->
  gm_mean_i (kf_predict (O:=O) Ft Q None prev old) i =
  gm_mean_i (kf_predict (O:=O) Ft Q None prev' old') i.
Proof. by move=> e; rewrite !kfp_mean_i_noexo e. Qed.

(* ---- frame: what the step does not touch ---- *)
Lemma kfp_weights_kept exo prev old :
  gm_weights (kf_predict (O:=O) Ft Q exo prev old) = gm_weights old.
Proof. by []. Qed.

Lemma kfp_covs_beyond_kept exo prev old (i : nat) d :
  (length (gm_covs prev) <= i)%coq_nat ->
  List.nth i (gm_covs (kf_predict (O:=O) Ft Q exo prev old)) d = List.nth i (gm_covs old) d.
Proof. by move=> h; rewrite kfp_covs overwrite_prefix_nth2 ?map_length. Qed.

(* ---- no exogenous model = exogenous model contributing zero ---- *)
Lemma kfp_noexo_is_zero_exo sp ss se prev old :
  gaussian_predict (O:=O) Ft Q None sp ss se prev old =
  gaussian_predict (O:=O) Ft Q (Some (fun _ : 'M[F]_(n,k) => (0 : 'M[F]_(n,k)))) sp ss false prev old.
Proof.
rewrite /gaussian_predict /kf_predict_step; case: sp => //=; case: ss => //=.
by congr mkGmix; rewrite addr0.
Qed.

Lemma kfp_exo_skipped_is_noexo u sp ss prev old :
  gaussian_predict (O:=O) Ft Q (Some u) sp ss true prev old =
  gaussian_predict (O:=O) Ft Q None sp ss true prev old.
Proof. by rewrite /gaussian_predict /kf_predict_step; case: sp => //=; case: ss. Qed.

(* ---- the four branches of LinearStateModel::propagate, and the one no branch covers ---- *)
Lemma lin_propagate_cases (exo : option ('M[F]_(n,k) -> 'M[F]_(n,k))) ss se (cur old : 'M[F]_(n,k)) :
  (lin_propagate (O:=O) Ft exo ss se cur old : 'M[F]_(n,k)) =
  match exo, ss, se with
  | Some u, false, false => Ft *m cur + u cur
  | Some u, false, true => Ft *m cur
  | Some u, true, false => u cur
  | Some u, true, true => cur
  | None, false, _ => Ft *m cur
  | None, true, _ => old
  end.
Proof. by case: exo => [u|]; case: ss; case: se. Qed.

(* ---- skipped: the step is the identity (whole object, weights included) ---- *)
Lemma kfp_skipped exo sp ss se prev old :
  sp || ss -> gaussian_predict (O:=O) Ft Q exo sp ss se prev old = prev.
Proof. by rewrite /gaussian_predict /kf_predict_step; case: sp => //=; case: ss. Qed.

End KFP.
