(* C02_Proofs.v — the Kalman prediction model at the MathComp instance. *)
Require Import ZArith List Bool Lia.
Require Import BFL.Ops BFL.C02_Model.
From mathcomp Require Import all_ssreflect all_algebra.
Require Import BFL.MxOps BFL.LinAlg.
Set Implicit Arguments.
Unset Strict Implicit.
Unset Printing Implicit Defensive.
Import Order.Theory GRing.Theory Num.Theory.
Local Open Scope ring_scope.

Section KFP.
Variable F : realFieldType.
Variable tr : Transc F.
Variable sq : forall n, 'M[F]_n -> 'M[F]_n.
Variable eg : forall n, 'M[F]_n -> 'M[F]_(n,1).
Let O := MxMat tr sq eg.

(* ---- the structural column accessor of Ops.v is MathComp's col ---- *)
Lemma mcol_in n k (A : 'M[F]_(n,k)) (i : nat) (ik : (i < k)%N) :
  (mcol (O:=O) i A : 'cV[F]_n) = col (Ordinal ik) A.
Proof.
apply/matrixP=> r c; rewrite /mcol /= !mxE.
exact: (mx_get_ord A r (Ordinal ik)).
Qed.

Lemma mcol_out n k (A : 'M[F]_(n,k)) (i : nat) : (k <= i)%N ->
  (mcol (O:=O) i A : 'cV[F]_n) = 0.
Proof. by move=> ki; apply/matrixP=> r c; rewrite /mcol /= !mxE mx_get_out_c. Qed.

Lemma col_mulmx n p k (A : 'M[F]_(n,p)) (X : 'M[F]_(p,k)) (j : 'I_k) :
  col j (A *m X) = A *m col j X.
Proof.
by apply/matrixP=> r c; rewrite !mxE; apply: eq_bigr => l _; rewrite !mxE.
Qed.

Lemma mcol_mul n p k (A : 'M[F]_(n,p)) (X : 'M[F]_(p,k)) (i : nat) :
  (mcol (O:=O) i (A *m X : 'M[F]_(n,k)) : 'cV[F]_n) = A *m (mcol (O:=O) i X : 'cV[F]_p).
Proof.
case: (ltnP i k) => [ik|ki]; first by rewrite !(mcol_in _ ik) col_mulmx.
by rewrite !mcol_out // mulmx0.
Qed.

Lemma mcol_add n k (A B : 'M[F]_(n,k)) (i : nat) :
  (mcol (O:=O) i (A + B : 'M[F]_(n,k)) : 'cV[F]_n) = mcol (O:=O) i A + mcol (O:=O) i B.
Proof.
case: (ltnP i k) => [ik|ki]; first by rewrite !(mcol_in _ ik) linearD.
by rewrite !mcol_out // addr0.
Qed.

Variables (n k : nat).
Variables (Ft Q : 'M[F]_n).
Implicit Types (prev old : gmix O n k) (u : 'M[F]_(n,k) -> 'M[F]_(n,k)).

(* ---- means ---- *)
Lemma kfp_means_exo u prev old :
  (gm_means (kf_predict (O:=O) Ft Q (Some u) prev old) : 'M[F]_(n,k)) =
  Ft *m gm_means prev + u (gm_means prev).
Proof. by []. Qed.

Lemma kfp_means_noexo prev old :
  (gm_means (kf_predict (O:=O) Ft Q None prev old) : 'M[F]_(n,k)) = Ft *m gm_means prev.
Proof. by []. Qed.

Lemma kfp_mean_i_exo u prev old (i : nat) :
  (gm_mean_i (kf_predict (O:=O) Ft Q (Some u) prev old) i : 'cV[F]_n) =
  Ft *m gm_mean_i prev i + mcol (O:=O) i (u (gm_means prev)).
Proof. by rewrite /gm_mean_i kfp_means_exo mcol_add mcol_mul. Qed.

Lemma kfp_mean_i_noexo prev old (i : nat) :
  (gm_mean_i (kf_predict (O:=O) Ft Q None prev old) i : 'cV[F]_n) = Ft *m gm_mean_i prev i.
Proof. by rewrite /gm_mean_i kfp_means_noexo mcol_mul. Qed.

(* the spec-level function the violation search evaluates is the same formula *)
Lemma kfp_mean_i_is_spec u prev old (i : nat) :
  gm_mean_i (kf_predict (O:=O) Ft Q (Some u) prev old) i =
  spec_mean (O:=O) Ft (mcol (O:=O) i (u (gm_means prev))) (gm_mean_i prev i).
Proof. exact: kfp_mean_i_exo. Qed.

(* ---- covariances ---- *)
Lemma overwrite_prefix_nth1 A (new old : list A) i d :
  (i < length new)%coq_nat -> List.nth i (overwrite_prefix new old) d = List.nth i new d.
Proof. by move=> h; rewrite /overwrite_prefix app_nth1. Qed.

Lemma overwrite_prefix_nth2 A (new old : list A) i d :
  (length new <= i)%coq_nat -> List.nth i (overwrite_prefix new old) d = List.nth i old d.
Proof.
rewrite /overwrite_prefix; elim: new old i => [|a new IH] old i //=.
case: i => [|i] h; first by inversion h.
case: old => [|b old] /=.
  by rewrite app_nil_r nth_overflow //; lia.
by apply: IH; lia.
Qed.

Lemma overwrite_prefix_full A (new old : list A) :
  (length old <= length new)%coq_nat -> overwrite_prefix new old = new.
Proof. by move=> h; rewrite /overwrite_prefix skipn_all2 // app_nil_r. Qed.

Lemma overwrite_prefix_length A (new old : list A) :
  (length new <= length old)%coq_nat -> length (overwrite_prefix new old) = length old.
Proof.
move=> h; rewrite /overwrite_prefix app_length skipn_length.
by rewrite -Minus.le_plus_minus.
Qed.

Lemma kfp_covs exo prev old :
  gm_covs (kf_predict (O:=O) Ft Q exo prev old) =
  overwrite_prefix (List.map (kf_predict_cov (O:=O) Ft Q) (gm_covs prev)) (gm_covs old).
Proof. by []. Qed.

Lemma kfp_cov_i exo prev old (i : nat) d :
  (i < length (gm_covs prev))%coq_nat ->
  (List.nth i (gm_covs (kf_predict (O:=O) Ft Q exo prev old)) d : 'M[F]_n) =
  Ft *m List.nth i (gm_covs prev) d *m Ft^T + Q.
Proof.
move=> h; rewrite kfp_covs overwrite_prefix_nth1 ?map_length //.
by rewrite (nth_indep _ d (kf_predict_cov (O:=O) Ft Q d)) ?map_length // map_nth.
Qed.

Lemma kfp_cov_psd (P : 'M[F]_n) : psd P -> psd Q ->
  psd (kf_predict_cov (O:=O) Ft Q P : 'M[F]_n).
Proof. by move=> pP pQ; apply: psd_add => //; exact: psd_congr. Qed.

Lemma kfp_cov_i_psd exo prev old (i : nat) d :
  (i < length (gm_covs prev))%coq_nat ->
  psd (List.nth i (gm_covs prev) d : 'M[F]_n) -> psd Q ->
  psd (List.nth i (gm_covs (kf_predict (O:=O) Ft Q exo prev old)) d : 'M[F]_n).
Proof. by move=> h pP pQ; rewrite kfp_cov_i //; exact: kfp_cov_psd. Qed.

Lemma kfp_cov_i_sym exo prev old (i : nat) d :
  (i < length (gm_covs prev))%coq_nat ->
  sym (List.nth i (gm_covs prev) d : 'M[F]_n) -> sym Q ->
  sym (List.nth i (gm_covs (kf_predict (O:=O) Ft Q exo prev old)) d : 'M[F]_n).
Proof. by move=> h sP sQ; rewrite kfp_cov_i //; apply: sym_add => //; exact: sym_congr. Qed.

(* ---- component-wise, counts ---- *)
Lemma kfp_cov_count exo prev old :
  length (gm_covs old) = length (gm_covs prev) ->
  length (gm_covs (kf_predict (O:=O) Ft Q exo prev old)) = length (gm_covs prev).
Proof.
move=> e; rewrite kfp_covs overwrite_prefix_length ?map_length ?e //.
Qed.

Lemma kfp_covs_same_shape exo prev old :
  length (gm_covs old) = length (gm_covs prev) ->
  gm_covs (kf_predict (O:=O) Ft Q exo prev old) =
  List.map (kf_predict_cov (O:=O) Ft Q) (gm_covs prev).
Proof. by move=> e; rewrite kfp_covs overwrite_prefix_full // map_length e. Qed.

(* component i of the result is a function of component i of the input alone
   (given the exogenous contribution): changing the other components changes nothing *)
Lemma kfp_cov_independent exo prev prev' old old' (i : nat) d :
  (i < length (gm_covs prev))%coq_nat -> (i < length (gm_covs prev'))%coq_nat ->
  List.nth i (gm_covs prev) d = List.nth i (gm_covs prev') d ->
  List.nth i (gm_covs (kf_predict (O:=O) Ft Q exo prev old)) d =
  List.nth i (gm_covs (kf_predict (O:=O) Ft Q exo prev' old')) d.
Proof. by move=> h h' e; rewrite (kfp_cov_i _ _ _ h) (kfp_cov_i _ _ _ h') e. Qed.

Lemma kfp_mean_independent prev prev' old old' (i : nat) :
  gm_mean_i prev i = gm_mean_i prev' i ->
  gm_mean_i (kf_predict (O:=O) Ft Q None prev old) i =
  gm_mean_i (kf_predict (O:=O) Ft Q None prev' old') i.
Proof. by move=> e; rewrite !kfp_mean_i_noexo e. Qed.

(* ---- frame: what the step does not touch ---- *)
Lemma kfp_weights_kept exo prev old :
  gm_weights (kf_predict (O:=O) Ft Q exo prev old) = gm_weights old.
Proof. by []. Qed.

Lemma kfp_covs_beyond_kept exo prev old (i : nat) d :
  (length (gm_covs prev) <= i)%coq_nat ->
  List.nth i (gm_covs (kf_predict (O:=O) Ft Q exo prev old)) d = List.nth i (gm_covs old) d.
Proof. by move=> h; rewrite kfp_covs overwrite_prefix_nth2 ?map_length. Qed.

(* ---- no exogenous model = exogenous model contributing zero ---- *)
Lemma kfp_noexo_is_zero_exo sp ss se prev old :
  gaussian_predict (O:=O) Ft Q None sp ss se prev old =
  gaussian_predict (O:=O) Ft Q (Some (fun _ : 'M[F]_(n,k) => (0 : 'M[F]_(n,k)))) sp ss false prev old.
Proof.
rewrite /gaussian_predict /kf_predict_step; case: sp => //=; case: ss => //=.
by congr mkGmix; rewrite addr0.
Qed.

Lemma kfp_exo_skipped_is_noexo u sp ss prev old :
  gaussian_predict (O:=O) Ft Q (Some u) sp ss true prev old =
  gaussian_predict (O:=O) Ft Q None sp ss true prev old.
Proof. by rewrite /gaussian_predict /kf_predict_step; case: sp => //=; case: ss. Qed.

(* ---- the four branches of LinearStateModel::propagate, and the one no branch covers ---- *)
Lemma lin_propagate_cases (exo : option ('M[F]_(n,k) -> 'M[F]_(n,k))) ss se (cur old : 'M[F]_(n,k)) :
  (lin_propagate (O:=O) Ft exo ss se cur old : 'M[F]_(n,k)) =
  match exo, ss, se with
  | Some u, false, false => Ft *m cur + u cur
  | Some u, false, true => Ft *m cur
  | Some u, true, false => u cur
  | Some u, true, true => cur
  | None, false, _ => Ft *m cur
  | None, true, _ => old
  end.
Proof. by case: exo => [u|]; case: ss; case: se. Qed.

(* ---- skipped: the step is the identity (whole object, weights included) ---- *)
Lemma kfp_skipped exo sp ss se prev old :
  sp || ss -> gaussian_predict (O:=O) Ft Q exo sp ss se prev old = prev.
Proof. by rewrite /gaussian_predict /kf_predict_step; case: sp => //=; case: ss. Qed.

(* ---- layout: the descriptors the returned object reports ---- *)
(* a step that is not skipped does not write the descriptors of the output object (no resize) *)
Lemma kfp_layout_kept exo prev old :
  gm_layout (kf_predict (O:=O) Ft Q exo prev old) = gm_layout old.
Proof. by []. Qed.

(* with the flags: a skipped step returns the input's descriptors, whatever the output object was *)
Lemma kfp_layout_flags exo sp ss se prev old :
  gm_layout (gaussian_predict (O:=O) Ft Q exo sp ss se prev old) =
  if sp || ss then gm_layout prev else gm_layout old.
Proof. by rewrite /gaussian_predict /kf_predict_step; case: sp => //=; case: ss. Qed.

Lemma gl_same_shapeP (a b : glayout) :
  gl_same_shape a b ->
  [/\ gl_components a = gl_components b, gl_dim a = gl_dim b & gl_dim_cov a = gl_dim_cov b].
Proof.
rewrite /gl_same_shape => /andP [/andP [h1 h2] h3].
by split; apply/PeanoNat.Nat.eqb_eq.
Qed.

(* on an output object with the shape of the input (whatever its linear/circular split), the
   predicted mixture reports the component count and the sizes of the input belief *)
Lemma kfp_layout_of_input exo prev old :
  gl_same_shape (gm_layout old) (gm_layout prev) ->
  [/\ gl_components (gm_layout (kf_predict (O:=O) Ft Q exo prev old)) = gl_components (gm_layout prev),
      gl_dim (gm_layout (kf_predict (O:=O) Ft Q exo prev old)) = gl_dim (gm_layout prev) &
      gl_dim_cov (gm_layout (kf_predict (O:=O) Ft Q exo prev old)) = gl_dim_cov (gm_layout prev)].
Proof. by rewrite kfp_layout_kept; exact: gl_same_shapeP. Qed.

(* storage and descriptors stay consistent: one covariance and one weight per reported component *)
Lemma kfp_shaped exo sp ss se prev old :
  gm_shaped prev -> gm_shaped old ->
  gm_shaped (gaussian_predict (O:=O) Ft Q exo sp ss se prev old).
Proof.
move=> sp_ so; rewrite /gaussian_predict /kf_predict_step; case: sp => //=; case: ss => //=.
case: sp_ => pc [pw [pk [pn pv]]]; case: so => oc [ow [ok [on ov]]].
rewrite /gm_shaped /=; split; last by do !split.
by rewrite overwrite_prefix_length ?map_length ?oc ?pc ?ok ?pk.
Qed.

(* the whole returned object at once, on an output object with as many components as the input *)
Lemma kfp_whole exo prev old :
  length (gm_covs old) = length (gm_covs prev) ->
  kf_predict (O:=O) Ft Q exo prev old =
  mkGmix (O:=O)
    (match exo with
     | Some u => (Ft *m gm_means prev + u (gm_means prev) : 'M[F]_(n,k))
     | None => Ft *m gm_means prev
     end)
    (List.map (kf_predict_cov (O:=O) Ft Q) (gm_covs prev)) (gm_weights old) (gm_layout old).
Proof.
move=> e; rewrite /kf_predict /gaussian_predict /kf_predict_step /=.
by rewrite overwrite_prefix_full ?map_length ?e //; case: exo.
Qed.

(* ---- the component-by-component spec function the violation search evaluates ---- *)
Lemma mcol_const1 (i : nat) : (i < k)%N ->
  (mcol (O:=O) i (mconst O 1 k (1 : F)) : 'M[F]_(1,1)) = 1%:M.
Proof.
move=> ik; apply/matrixP=> r c; rewrite /mcol /mconst /= !mxE.
by rewrite mx_get_build // [r]ord1 [c]ord1 eqxx.
Qed.

Lemma mcol_affine_exo (B : 'M[F]_n) (c : 'cV[F]_n) (X : 'M[F]_(n,k)) (i : nat) : (i < k)%N ->
  (mcol (O:=O) i (affine_exo (O:=O) B c X) : 'cV[F]_n) = B *m mcol (O:=O) i X + c.
Proof.
move=> ik; rewrite /affine_exo.
rewrite [LHS](mcol_add (B *m X) (c *m (mconst O 1 k (1 : F) : 'M[F]_(1,k)))) !mcol_mul.
by rewrite mcol_const1 // mulmx1.
Qed.

Lemma kf_spec_length e (means : 'M[F]_(n,k)) (covs : list 'M[F]_n) :
  length (kf_spec (O:=O) Ft Q e means covs) = length covs.
Proof. by rewrite /kf_spec map_length combine_length seq_length PeanoNat.Nat.min_id. Qed.

Lemma kf_spec_nth e (means : 'M[F]_(n,k)) (covs : list 'M[F]_n) (i : nat) dm dc :
  (i < length covs)%coq_nat ->
  List.nth i (kf_spec (O:=O) Ft Q e means covs) (dm, dc) =
  ((match e with
    | Some (B, c) => Ft *m mcol (O:=O) i means + (B *m mcol (O:=O) i means + c)
    | None => Ft *m mcol (O:=O) i means + 0
    end : 'cV[F]_n),
   (Ft *m List.nth i covs dc *m Ft^T + Q : 'M[F]_n)).
Proof.
move=> h; rewrite /kf_spec.
set f := (fun ip : nat * _ => _).
rewrite (nth_indep _ (dm, dc) (f (0%N, dc))); last by rewrite map_length combine_length seq_length PeanoNat.Nat.min_id.
rewrite map_nth combine_nth ?seq_length // seq_nth // /f /= /spec_mean /kf_predict_cov /= {f}.
by case: e => [[B c]|].
Qed.

(* the spec function and the model agree, component by component *)
Lemma kfp_model_is_spec e prev old (i : nat) dm dc :
  (i < k)%N -> (i < length (gm_covs prev))%coq_nat ->
  (gm_mean_i (kf_predict (O:=O) Ft Q (affine_exo_opt (O:=O) e) prev old) i,
   List.nth i (gm_covs (kf_predict (O:=O) Ft Q (affine_exo_opt (O:=O) e) prev old)) dc) =
  List.nth i (kf_spec (O:=O) Ft Q e (gm_means prev) (gm_covs prev)) (dm, dc).
Proof.
move=> ik h; rewrite kf_spec_nth // kfp_cov_i //; congr pair.
case: e => [[B c]|]; rewrite /affine_exo_opt; first by rewrite kfp_mean_i_exo mcol_affine_exo.
by rewrite kfp_mean_i_noexo addr0.
Qed.

End KFP.

(* ---- one prediction object, several calls (time-varying model, flags, model replaced) ---- *)
Section KFS.
Variable F : realFieldType.
Variable tr : Transc F.
Variable sq : forall n, 'M[F]_n -> 'M[F]_n.
Variable eg : forall n, 'M[F]_n -> 'M[F]_(n,1).
Let O := MxMat tr sq eg.
Implicit Types (c : kf_call O) (calls : list (kf_call O)).

Lemma kf_seq_length calls : length (kf_predict_seq calls) = length calls.
Proof. by rewrite /kf_predict_seq map_length. Qed.

(* the answer to call s is the step on the inputs of call s *)
Lemma kf_seq_nth calls s d :
  List.nth s (kf_predict_seq calls) (kf_call_run d) = kf_call_run (List.nth s calls d).
Proof. by rewrite /kf_predict_seq map_nth. Qed.

(* no hidden memory: what came before and what comes after a call does not enter its answer *)
Lemma kf_seq_app calls1 c calls2 :
  kf_predict_seq (calls1 ++ c :: calls2) = kf_predict_seq calls1 ++ kf_call_run c :: kf_predict_seq calls2.
Proof. by rewrite /kf_predict_seq map_app. Qed.

(* each call is answered with the matrices the model holds AT THAT CALL *)
Lemma kf_call_cov c (i : nat) d :
  ~~ kc_sp c -> ~~ kc_ss c -> (i < length (gm_covs (kc_prev c)))%coq_nat ->
  (List.nth i (gm_covs (kr_mix (kf_call_run c))) d : 'M[F]_(kc_n c)) =
  kc_F c *m List.nth i (gm_covs (kc_prev c)) d *m (kc_F c)^T + kc_Q c.
Proof.
case: c d => n0 k0 F0 Q0 e0 sp ss se p o /= d; case: sp => //; case: ss => // _ _ h.
exact: kfp_cov_i.
Qed.

Lemma kf_call_means c :
  ~~ kc_sp c -> ~~ kc_ss c ->
  (gm_means (kr_mix (kf_call_run c)) : 'M[F]_(kc_n c, kc_k c)) =
  match kc_exo c, kc_se c with
  | Some u, false => kc_F c *m gm_means (kc_prev c) + u (gm_means (kc_prev c))
  | _, _ => kc_F c *m gm_means (kc_prev c)
  end.
Proof.
case: c => n0 k0 F0 Q0 e0 sp ss se p o /=; case: sp => //; case: ss => // _ _.
by rewrite /kf_call_run /= /gaussian_predict /kf_predict_step /= lin_propagate_cases; case: e0 => [u|]; case: se.
Qed.

Lemma kf_call_skipped c :
  kc_sp c || kc_ss c -> kr_mix (kf_call_run c) = kc_prev c.
Proof. by case: c => n0 k0 F0 Q0 e0 sp ss se p o /= h; exact: kfp_skipped. Qed.

End KFS.
