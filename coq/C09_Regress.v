(* C09_Regress.v — regression witness.  The transcription of teardown() as it
   was BEFORE /repo commit 5346d85 ("fix: FilteringAlgorithm::teardown wakes a
   filtering thread that is waiting for run"):

       bool FilteringAlgorithm::teardown() { teardown_ = true; return true; }

   i.e. a plain store: no mutex, no notify.  Not part of the model of the code
   as it is now; kept so that a reintroduction of the defect is recognised:
   for this transcription the bounded-exit theorem is FALSE. *)
Require Import List Bool Arith Lia.
Require Import BFL.C09_Model.
Import ListNotations.

Definition teardown_old (c : config) : option config :=
  let '(mk p r s t n w d tr) := c in
  Some (mk p r s true n w d (ECmd Teardown :: tr)).

Definition step_old : config -> move -> option config := step_with teardown_old.
Definition reachable_old : config -> Prop := reachable_with teardown_old.

Fixpoint run_moves_old (c : config) (ms : list move) : option config :=
  match ms with
  | [] => Some c
  | m :: ms' => match step_old c m with Some c' => run_moves_old c' ms' | None => None end
  end.

(* moves that deliver a wake-up: run(), reboot() (they notify) and a spurious wake-up
   (MRebootEnd is enabled only after MCmd Reboot) *)
Definition wakes (m : move) : bool :=
  match m with MCmd Run | MCmd Reboot | MSpurious => true | _ => false end.

(* boot(); the thread runs until it blocks in cv_run_.wait; teardown() *)
Definition hang : config := mk PSleep false false true 0 false false [ECmd Teardown].

Lemma hang_reachable : reachable_old hang.
Proof.
  apply (R_step _ (mk PSleep false false false 0 false false []) (MCmd Teardown)); [|reflexivity].
  apply (R_step _ (mk PHeld false false false 0 false false []) (MThread true)); [|reflexivity].
  apply (R_step _ (mk PLock false false false 0 false false []) (MThread true)); [|reflexivity].
  apply (R_step _ (mk PZero false false false 0 false false []) (MThread true)); [|reflexivity].
  apply (R_step _ init (MThread true)); [|reflexivity].
  constructor.
Qed.

Definition asleep_unwoken (c : config) : Prop :=
  c_pc c = PSleep /\ c_woken c = false /\ c_td c = true /\ c_mid c = false.

Lemma asleep_stays c m c' : asleep_unwoken c -> wakes m = false -> step_old c m = Some c' -> asleep_unwoken c'.
Proof.
  destruct c as [p r s t n w d tr]. intros (P & W & T & M) Hm H. simpl in *. subst.
  destruct m as [b| |k|]; try discriminate; simpl in H; try discriminate.
  destruct k; simpl in *; try discriminate; injection H as <-; repeat split.
Qed.

Lemma asleep_forever c ms c' : asleep_unwoken c -> forallb (fun m => negb (wakes m)) ms = true ->
  run_moves_old c ms = Some c' -> asleep_unwoken c'.
Proof.
  revert c. induction ms as [|m ms IH]; simpl; intros c A F H.
  - injection H as <-. exact A.
  - apply andb_true_iff in F. destruct F as [F1 F2]. apply negb_true_iff in F1.
    destruct (step_old c m) as [c1|] eqn:E; [|discriminate].
    apply (IH c1); auto. apply (asleep_stays c m c1); auto.
Qed.

Lemma asleep_disabled c : asleep_unwoken c ->
  (forall b, step_old c (MThread b) = None) /\ step_old c (MCmd Wait) = None.
Proof.
  destruct c as [p r s t n w d tr]. intros (P & W & T & M). simpl in *. subst. split; reflexivity.
Qed.

(* teardown requested, thread not exited, and — whatever reset(), teardown(),
   is_running(), step_number() calls follow — the thread can never move again
   and wait() is never enabled *)
Lemma teardown_hang :
  exists c, reachable_old c /\ c_td c = true /\ c_pc c <> PExited
    /\ forall ms c', forallb (fun m => negb (wakes m)) ms = true -> run_moves_old c ms = Some c' ->
         c_pc c' <> PExited /\ (forall b, step_old c' (MThread b) = None) /\ step_old c' (MCmd Wait) = None.
Proof.
  exists hang. split; [exact hang_reachable|]. split; [reflexivity|]. split; [discriminate|].
  intros ms c' F H.
  assert (A : asleep_unwoken c') by (eapply asleep_forever; eauto; repeat split).
  split; [destruct A as (P & _); rewrite P; discriminate|].
  apply asleep_disabled; auto.
Qed.

(* ------------------------------------------------------------------ *)
(* Why the ORDER of the two stores of reboot() matters (the transcription check of
   props/C09.py fails closed on it): with  run_ = false; reset_ = true;  the thread can read
   run_ = false and then reset_ = false in its unlocked do-while condition and TERMINATE
   although neither teardown was requested nor run_condition() answered false. *)
Definition step_swapped (c : config) (m : move) : option config :=
  match m with
  | MCmd Reboot =>
      let '(mk p r s t n w d tr) := c in
      if mutex_free p && negb d then Some (mk p false s t n w true (ECmd Reboot :: tr)) else None
  | MRebootEnd =>
      let '(mk p r s t n w d tr) := c in
      if d then Some (mk p r true t n (notified p w) false tr) else None
  | _ => step c m
  end.

Fixpoint run_moves_swapped (c : config) (ms : list move) : option config :=
  match ms with
  | [] => Some c
  | m :: ms' => match step_swapped c m with Some c' => run_moves_swapped c' ms' | None => None end
  end.

Definition swapped_schedule : list move :=
  [MCmd Run; MThread true; MThread true; MThread true; MThread true; MThread true; MThread true; (* PC1a *)
   MThread false; MThread true; (* PC2a *) MThread true; (* PC2b *)
   MCmd Reboot; MThread true; MThread true; (* PFinal *) MThread true; MRebootEnd].

Lemma reboot_store_order_matters :
  exists c, run_moves_swapped init swapped_schedule = Some c
    /\ c_trace c = [EExit; ECmd Reboot; ERc true; ERc false; EInit; ECmd Run]
    /\ c_td c = false.
Proof. eexists. vm_compute. repeat split; reflexivity. Qed.
