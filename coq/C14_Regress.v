(* C14_Regress.v — regression specifications for C14-relevant defects that have been
   repaired in /repo: the OLD transcription of the repaired code with its [_refuted]
   witness, so that a reintroduction is recognised for what it is.  Not part of any
   property theorem; the property theorems are about the current transcription. *)
Require Import Arith List Bool String Lia.
Require Import BFL.C14_Model BFL.C14_Proofs.
Import ListNotations.
Open Scope nat_scope.

(* ---- before 49d7ed0: the additive-measurement unscented_transform added the noise covariance to
        output.covariance(i), i < state.components, also when the evaluation had failed and the
        output was the default-constructed 1-component, 1-dimensional mixture *)
Definition p_ut_before_49d7ed0 (variant : nat) (li : layout) (comps w : nat) (valid : bool) (pr pc : nat) (lo : layout) (qr qc : nat) : prog :=
  let e := ut_entry variant in
  p_ut_core e li comps w valid pr pc lo ++
  match variant with
  | 2 => p_ut_add_noise e comps true lo qr qc
  | 4 => p_ut_add_noise e comps valid lo qr qc
  | _ => []
  end.

(* trigger: predictedMeasure fails with more than one component ... *)
Lemma ut_addmeas_failed_components_refuted :
  check_shapes (p_ut_before_49d7ed0 4 (Lay 3 0 false 0) 2 3 false 1 14 (Lay 1 0 false 0) 1 1)
  = Some (e_ut_addmeas, "output.covariance(i)"%string).
Proof. vm_compute. reflexivity. Qed.
(* ... or with a measurement size other than 1 *)
Lemma ut_addmeas_failed_size_refuted :
  check_shapes (p_ut_before_49d7ed0 4 (Lay 3 0 false 0) 1 3 false 2 7 (Lay 2 0 false 0) 2 2)
  = Some (e_ut_addmeas, "output.covariance(i)+=noise_cov"%string).
Proof. vm_compute. reflexivity. Qed.
(* the same configurations are safe for the current transcription *)
Lemma ut_addmeas_failed_now_safe :
  run (case_ut 4 (Lay 3 0 false 0) 2 3 false 1 14 (Lay 1 0 false 0) 1 1) = Safe /\
  run (case_ut 4 (Lay 3 0 false 0) 1 3 false 2 7 (Lay 2 0 false 0) 2 2) = Safe.
Proof. split; vm_compute; reflexivity. Qed.

(* ---- before 201e1b4: UKFCorrection kept the innovations (ir x comps) of the last successful step when a
        later step could not use the measurement, while predicted_meas_ had been replaced by the default
        1x1 mixture; getLikelihood() then evaluated the old innovations against it *)
Definition p_ukf_lik_stale_before_201e1b4 (comps ir : nat) : prog :=
  for_ comps (fun i => [ It e_ukfl "innovations_.col(i)" (Idx comps i);
                         It e_ukfl "predicted_meas_.covariance(i)" (Blk 1 1 0 i 1 1) ] ++
                       p_density e_ukfl ir 1 ir 1 1).
Lemma ukf_stale_likelihood_size_refuted :
  check_shapes (p_ukf_lik_stale_before_201e1b4 1 2) = Some (e_ukfl, "diff^T*covariance^-1"%string).
Proof. vm_compute. reflexivity. Qed.
Lemma ukf_stale_likelihood_components_refuted :
  check_shapes (p_ukf_lik_stale_before_201e1b4 2 1) = Some (e_ukfl, "predicted_meas_.covariance(i)"%string).
Proof. vm_compute. reflexivity. Qed.

(* ---- before e82207d: UKFCorrection sliced Pxy with meas_size = total_size() (4 per quaternion) while its
        blocks are dim_covariance (3 per quaternion) wide: xr rows, mdc*comps columns *)
Definition p_ukfc_gain_before_e82207d (xr comps : nat) (lm : layout) : prog :=
  for_ comps (fun i =>
    [ It e_ukfc "Pxy.middleCols(meas_size*i,meas_size)" (Blk xr (lcov lm * comps) 0 (ldim lm * i) xr (ldim lm));
      It e_ukfc "Pxy_i*Py^-1" (Mul xr (ldim lm) (lcov lm) (lcov lm)) ]).
Lemma ukfc_quaternion_measurement_refuted :
  check_shapes (p_ukfc_gain_before_e82207d 3 1 (Lay 0 1 true 0))
  = Some (e_ukfc, "Pxy.middleCols(meas_size*i,meas_size)"%string).
Proof. vm_compute. reflexivity. Qed.
(* without quaternions the two sizes coincide: the old program was safe there *)
Lemma ukfc_gain_old_safe_without_quaternions xr comps lm : quat lm = false ->
  run (p_ukfc_gain_before_e82207d xr comps lm) = Safe.
Proof.
  intro Hq. apply run_safe_iff. unfold p_ukfc_gain_before_e82207d.
  destruct lm as [L C q N]; simpl in Hq; subst q. lay_cbn. repeat step; finish2.
Qed.
(* the same configuration through the current transcription *)
Lemma ukfc_quaternion_measurement_now_safe :
  run (case_ukfc false (Lay 3 0 false 0) 1 2 true (Lay 0 1 true 0) 3 (Lay 3 0 false 0) 1 false false) = Safe.
Proof. vm_compute. reflexivity. Qed.

(* ---- before d09c5ac: ResamplingWithPrior built its three temporaries without use_quaternion *)
Definition p_resprior_copy_before_d09c5ac (lc : layout) (n k : nat) : prog :=
  let lt := Lay (lin lc) (circ lc) false 0 in
  for_ (n - k) (fun j => [ It e_resp "tmp.state(j)=" (Same (ldim lt) 1 (ldim lc) 1) ]).
Lemma resprior_quaternion_refuted :
  check_shapes (p_resprior_copy_before_d09c5ac (Lay 2 1 true 0) 4 2) = Some (e_resp, "tmp.state(j)="%string).
Proof. vm_compute. reflexivity. Qed.
Lemma resprior_quaternion_now_safe : run (case_resprior (Lay 2 1 true 0) 4 2 4) = Safe.
Proof. vm_compute. reflexivity. Qed.

(* ---- before c09dbd3: InitSurveillanceAreaGrid::initialize wrote x, 0, y, 0 into every state column whatever
        its size; the states of the 1-D and 3-D motion models have 2 and 6 rows *)
Definition p_grid_before_c09dbd3 (nx ny n : nat) (l : layout) : prog :=
  when (n =? nx * ny)
    (for_ nx (fun i => for_ ny (fun j =>
       [ It e_grid "state().col(i*ny+j)" (Idx n (i * ny + j));
         It e_grid "col<<x,0,y,0" (Comma (ldim l) 4) ]))).
Lemma grid_state_2d_refuted : run (p_grid_before_c09dbd3 2 2 4 (Lay 2 0 false 0)) = Fails e_grid "col<<x,0,y,0".
Proof. vm_compute. reflexivity. Qed.
Lemma grid_state_6d_refuted : run (p_grid_before_c09dbd3 1 3 3 (Lay 6 0 false 0)) = Fails e_grid "col<<x,0,y,0".
Proof. vm_compute. reflexivity. Qed.
Lemma grid_state_not_4d_now_safe :
  run (case_grid 2 2 4 (Lay 2 0 false 0)) = Safe /\ run (case_grid 1 3 3 (Lay 6 0 false 0)) = Safe /\
  obs_grid 2 2 4 (Lay 2 0 false 0) = [0] /\ obs_grid 2 2 4 (Lay 4 0 false 0) = [1].
Proof. repeat split; vm_compute; reflexivity. Qed.

(* ---- before b8dad93: getNoiseSample drew a 4 x num buffer for every Dim (LinearModel: 2 x num for every m) *)
Definition p_wna_noise_before_b8dad93 (D num : nat) : prog :=
  [ It e_wna_noise "sqrt_Q_*rand_vectors" (Mul (wna_d D) (wna_d D) 4 num) ].
Lemma wna_noise_fixed_rows_refuted :
  check_shapes (p_wna_noise_before_b8dad93 1 3) = Some (e_wna_noise, "sqrt_Q_*rand_vectors"%string) /\
  check_shapes (p_wna_noise_before_b8dad93 3 3) = Some (e_wna_noise, "sqrt_Q_*rand_vectors"%string) /\
  check_shapes (p_wna_noise_before_b8dad93 2 3) = None.
Proof. repeat split; vm_compute; reflexivity. Qed.

(* ---- before 6ed89b9: bufferData read target_.col(t-1) for every call and returned true *)
Definition p_sim_calls_before_6ed89b9 (T calls : nat) : prog :=
  for_ calls (fun k => [ It e_sim_buffer "target_.col(t-1)" (Idx T k) ]).
Lemma sim_buffer_past_end_refuted :
  check_shapes (p_sim_calls_before_6ed89b9 3 4) = Some (e_sim_buffer, "target_.col(t-1)"%string).
Proof. vm_compute. reflexivity. Qed.

(* ---- before 56b3d39: a SimulatedStateModel with simulation_time = 0 wrote column 0 of a 0-column matrix *)
Definition p_sim_ctor_before_56b3d39 (T ir : nat) : prog :=
  [ It e_sim_ctor "target_.col(0)" (Idx T 0); It e_sim_ctor "col(0)=initial_state" (Same ir 1 ir 1) ].
Lemma sim_empty_trajectory_refuted :
  check_shapes (p_sim_ctor_before_56b3d39 0 2) = Some (e_sim_ctor, "target_.col(0)"%string).
Proof. vm_compute. reflexivity. Qed.

(* ---- before 3576481: setHistorySize popped (old window - new window) elements whatever was stored *)
Definition p_h_shrink_before_3576481 (win sz tmp : nat) : prog :=
  for_ (win - tmp) (fun j => [ It e_h_set "pop_back" (Pop (sz - j)) ]).
Lemma history_shrink_pops_empty_refuted :
  check_shapes (p_h_shrink_before_3576481 30 2 2) = Some (e_h_set, "pop_back"%string).
Proof. vm_compute. reflexivity. Qed.

(* ---- a cache slip of the kind of seeded change C14-r5 (not a defect of /repo; kept as the specification of what the
        sequence model must see): exponentialAverage decides whether to rebuild em_weights_ by EXAMINING the size of
        wm_weights_ (the weighted-average cache).  Only the windowed branch of x_step differs: [probe] of x_avg_tail
        is the other family's cache for the exponential family. *)
Definition x_step_wrong_probe (el ec : nat) (s : xstate) (o : xop) : prog * xstate * list nat :=
  match o with
  | XExtract full pr n wn pw ln tr tc =>
      if (2 <=? xstat s) && negb full then ([], s, [0; el + ec])
      else
        let cur := ext_stat_rows (xstat s) el ec pr in
        let ps := p_ext_stat (xstat s) el ec pr n wn pw ln tr tc in
        match xavg s with
        | 0 => (ps, s, [1; cur])
        | avg =>
            let '(pa, h') := h_step (el + ec) (xh s) (HAdd cur) in
            let els' := firstn (hsz h') (cur :: xels s) in
            let probe := match avg with 1 => xsm s | _ => xwm s end in
            let '(pt, c') := x_avg_tail avg el ec (hsz h') probe (x_cache avg s) in
            (ps ++ relabel e_ext pa ++ p_h_get e_ext (el + ec) (hsz h') els' ++ pt, x_set_cache avg s h' els' c', [1; el + ec])
        end
  | _ => x_step el ec s o
  end.
Fixpoint x_run_wrong_probe (el ec : nat) (s : xstate) (ops : list xop) : prog :=
  match ops with
  | [] => []
  | o :: r => let '(p, s', _) := x_step_wrong_probe el ec s o in p ++ x_run_wrong_probe el ec s' r
  end.
Definition x2 (n : nat) := XExtract false 2 n n 0 0 0 0.
(* (a) emean x5, window 2, one wmean, emean: a 2-column history times the 5 weights cached before *)
Definition ops_longer_cache := [XMethod 0 3; x2 2; x2 2; x2 2; x2 2; x2 2; XWindow 2; XMethod 0 2; x2 2; XMethod 0 3; x2 2].
(* (b) emean x2, wmean x3, emean: a 5-column history times 2 weights (the over-read) *)
Definition ops_shorter_cache := [XMethod 0 3; x2 3; x2 3; XMethod 0 2; x2 3; x2 3; x2 3; XMethod 0 3; x2 3].
Lemma extseq_wrong_probe_refuted :
  run (x_run_wrong_probe 2 0 x_init ops_longer_cache) = Fails e_ext "topRows*exp(w)" /\
  run (x_run_wrong_probe 2 0 x_init ops_shorter_cache) = Fails e_ext "topRows*exp(w)" /\
  (* circular components only: the mismatch is in directional_mean *)
  run (x_run_wrong_probe 0 2 x_init ops_shorter_cache) = Fails e_ext "directional_mean:exp(a)*w".
Proof. repeat split; vm_compute; reflexivity. Qed.
(* a single windowed family never shows it (the other cache stays empty, the own one is rebuilt at every call) *)
Lemma extseq_wrong_probe_single_family_safe :
  run (x_run_wrong_probe 2 0 x_init [XMethod 1 3; x2 2; x2 2; x2 2; XWindow 2; x2 2; XClear; x2 2; XWindow 9; x2 2; x2 2]) = Safe.
Proof. vm_compute. reflexivity. Qed.
Lemma extseq_now_safe :
  run (case_extseq 2 0 ops_longer_cache) = Safe /\ run (case_extseq 2 0 ops_shorter_cache) = Safe /\
  run (case_extseq 0 2 ops_shorter_cache) = Safe.
Proof. repeat split; vm_compute; reflexivity. Qed.
