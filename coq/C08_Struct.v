(* C08_Struct.v — structural theorems about the C08 model that hold at EVERY
   arithmetic instance (any MatOps: MathComp matrices, Coq reals, and the
   float instance that is executed).  Plain Coq lists; no axioms. *)
Require Import ZArith List Bool Lia.
Require Import BFL.Ops BFL.Density BFL.C01_Model BFL.C08_Model.
Import ListNotations.

Lemma nth_map_seq {A} (f : nat -> A) (N i : nat) (d : A) :
  i < N -> nth i (map f (seq 0 N)) d = f i.
Proof.
  intros H. rewrite (nth_indep _ d (f 0)) by (rewrite map_length, seq_length; exact H).
  rewrite map_nth. rewrite seq_nth by exact H. reflexivity.
Qed.

Lemma map_nth_seq {A} (l : list A) (d : A) :
  map (fun i => nth i l d) (seq 0 (length l)) = l.
Proof.
  apply (nth_ext _ _ d d).
  - now rewrite map_length, seq_length.
  - intros i Hi. rewrite map_length, seq_length in Hi. now rewrite nth_map_seq.
Qed.

Lemma map_map_seq {A B} (g : A -> B) (f : nat -> A) (N : nat) :
  map g (map f (seq 0 N)) = map (fun i => g (f i)) (seq 0 N).
Proof. now rewrite map_map. Qed.

Lemma map_seq_ext {A} (f g : nat -> A) (N : nat) :
  (forall i, i < N -> f i = g i) -> map f (seq 0 N) = map g (seq 0 N).
Proof.
  intros H. apply map_ext_in. intros i Hi. apply in_seq in Hi. apply H. lia.
Qed.

(* ---- lifetime model (rs_* of C08_Model): HEAD = rs_run true ----------------------- *)
Lemma rs_find_id st id o : rs_find st id = Some o -> rs_id o = id.
Proof. unfold rs_find. intros H. apply find_some in H. destruct H as [_ H]. now apply Nat.eqb_eq in H. Qed.

Lemma rs_find_in st id o : rs_find st id = Some o -> In o st.
Proof. unfold rs_find. intros H. now apply find_some in H. Qed.

Lemma rs_find_upd st id f j : (forall o, rs_id (f o) = rs_id o) ->
  rs_find (rs_upd st id f) j =
  option_map (fun o => if Nat.eqb (rs_id o) id then f o else o) (rs_find st j).
Proof.
  intros Hf. unfold rs_find, rs_upd. induction st as [|a st IH]; cbn; auto.
  assert (E : rs_id (if Nat.eqb (rs_id a) id then f a else a) = rs_id a) by (destruct (Nat.eqb (rs_id a) id); auto).
  rewrite E. destruct (Nat.eqb (rs_id a) j); auto.
Qed.

(* invariant of HEAD: every closure reads the object it lives in; the flag is always written *)
Definition rs_ok (o : rs_obj) : Prop := rs_target o = rs_id o /\ rs_valid o <> None.

Lemma rs_upd_ok st id f : Forall rs_ok st -> (forall o, rs_ok o -> rs_ok (f o)) -> Forall rs_ok (rs_upd st id f).
Proof.
  intros H Hf. unfold rs_upd. apply Forall_map. eapply Forall_impl; [|exact H].
  intros o Ho. cbn. destruct (Nat.eqb (rs_id o) id); auto.
Qed.

Lemma rs_step_ok st op : Forall rs_ok st -> Forall rs_ok (rs_step true st op).
Proof.
  intros H. destruct op as [id seed k|dst src|dst src|id v|id|id]; cbn.
  - constructor; [split; cbn; [reflexivity|discriminate]|exact H].
  - destruct (rs_find st src) as [o|] eqn:E; [|exact H].
    assert (Ho : rs_ok o) by (rewrite Forall_forall in H; apply H; eapply rs_find_in; eauto).
    constructor; [split; cbn; [reflexivity|apply Ho]|].
    apply rs_upd_ok; auto; try (intros x [A B]; split; auto).
  - destruct (rs_find st src) as [o|] eqn:E; [|exact H].
    assert (Ho : rs_ok o) by (rewrite Forall_forall in H; apply H; eapply rs_find_in; eauto).
    apply rs_upd_ok; [apply rs_upd_ok; auto|].
    + intros x _. split; cbn; [reflexivity|apply Ho].
    + intros x [A B]. destruct x; split; auto.
  - apply rs_upd_ok; auto. intros x [A B]. split; cbn; [exact A|discriminate].
  - destruct (rs_find st id) as [o|]; [|exact H]. apply rs_upd_ok; auto; try (intros x [A B]; split; auto).
  - apply rs_upd_ok; auto; try (intros x [A B]; split; auto).
Qed.

Lemma rs_run_ok ops : Forall rs_ok (rs_run true ops).
Proof.
  unfold rs_run. assert (G : forall st, Forall rs_ok st -> Forall rs_ok (fold_left (rs_step true) ops st)).
  { induction ops as [|op ops IH]; intros st H; cbn; auto. apply IH. now apply rs_step_ok. }
  apply G. constructor.
Qed.

(* a live GPFCorrection draws from its own generator, after any sequence of
   constructions, move constructions, move assignments, corrections, draws, destructions *)
Lemma draws_from_own_generator ops id o :
  rs_find (rs_run true ops) id = Some o -> rs_alive o = true ->
  rs_draw_source (rs_run true ops) id = Some id.
Proof.
  intros Hf Ha. pose proof (rs_run_ok ops) as H. rewrite Forall_forall in H.
  destruct (H o (rs_find_in _ _ _ Hf)) as [Ht _]. pose proof (rs_find_id _ _ _ Hf) as Hid.
  unfold rs_draw_source. rewrite Hf, Ht, Hid, Hf, Ha. now rewrite Hid.
Qed.

(* a draw advances the generator of the drawing object only *)
Lemma draw_touches_own_generator_only ops id j :
  j <> id ->
  rs_find (rs_step true (rs_run true ops) (RsDraw id)) j = rs_find (rs_run true ops) j.
Proof.
  intros Hj. unfold rs_step. destruct (rs_find (rs_run true ops) id) as [o|] eqn:E; auto.
  pose proof (rs_run_ok ops) as H. rewrite Forall_forall in H.
  destruct (H o (rs_find_in _ _ _ E)) as [Ht _]. rewrite Ht, (rs_find_id _ _ _ E).
  rewrite rs_find_upd by reflexivity.
  destruct (rs_find (rs_run true ops) j) as [r|] eqn:Ej; cbn; auto.
  rewrite (rs_find_id _ _ _ Ej). apply Nat.eqb_neq in Hj. now rewrite Hj.
Qed.

(* getLikelihood() never reads an unwritten flag, and a fresh object reports "invalid" *)
Lemma reported_valid_defined ops id o :
  rs_find (rs_run true ops) id = Some o -> rs_reported_valid (rs_run true ops) id <> None.
Proof.
  intros Hf. pose proof (rs_run_ok ops) as H. rewrite Forall_forall in H.
  unfold rs_reported_valid. rewrite Hf. apply (H o (rs_find_in _ _ _ Hf)).
Qed.

Lemma fresh_reports_invalid ops id seed k :
  rs_reported_valid (rs_run true (ops ++ [RsConstruct id seed k])) id = Some false.
Proof.
  unfold rs_run. rewrite fold_left_app. cbn. unfold rs_reported_valid, rs_find. cbn.
  now rewrite Nat.eqb_refl.
Qed.

(* the move constructor: the new object continues the stream of the source with its own
   copy of the generator, reads that copy, and owns the source's likelihood model *)
Lemma move_construct_result st dst src o :
  rs_find st src = Some o ->
  rs_find (rs_step true st (RsMove dst src)) dst =
  Some (mkRsObj dst true dst (rs_valid o) (rs_lik o) (rs_gen o)).
Proof. intros H. cbn. rewrite H. unfold rs_find. cbn. now rewrite Nat.eqb_refl. Qed.

(* the move assignment transfers the likelihood model (and the generator state) and the
   destination reads its own generator; the source is left without a likelihood model *)
Lemma move_assign_transfers st dst src o d :
  dst <> src -> rs_find st src = Some o -> rs_find st dst = Some d ->
  let st' := rs_step true st (RsMoveAssign dst src) in
  (exists d', rs_find st' dst = Some d' /\ rs_lik d' = rs_lik o /\ rs_gen d' = rs_gen o /\
              rs_target d' = dst /\ rs_valid d' = rs_valid o) /\
  (exists s', rs_find st' src = Some s' /\ rs_lik s' = None).
Proof.
  intros Hne Hs Hd. cbv zeta. unfold rs_step. rewrite Hs.
  pose proof (rs_find_id _ _ _ Hs) as Is. pose proof (rs_find_id _ _ _ Hd) as Id.
  assert (Ne1 : Nat.eqb dst src = false) by now apply Nat.eqb_neq.
  assert (Ne2 : Nat.eqb src dst = false) by (apply Nat.eqb_neq; auto).
  split.
  - rewrite rs_find_upd by (intros x; reflexivity). rewrite rs_find_upd by reflexivity. rewrite Hd. cbn.
    rewrite Id, Nat.eqb_refl. cbn. rewrite ?Id, Ne1.
    eexists; split; [reflexivity|]. cbn. repeat split; auto.
  - rewrite rs_find_upd by (intros x; reflexivity). rewrite rs_find_upd by reflexivity. rewrite Hs. cbn.
    rewrite Is, Ne2. rewrite ?Is, Nat.eqb_refl.
    eexists; split; [reflexivity|]. reflexivity.
Qed.

(* ---- regression: the same statements are FALSE of the transcription of the code before
   the fix commits d193577 / 57c1b76 (rs_run false) -------------------------------------- *)
Lemma pre_fix_draws_from_own_generator_refuted :
  exists ops id, rs_find (rs_run false ops) id <> None /\
                 (forall o, rs_find (rs_run false ops) id = Some o -> rs_alive o = true) /\
                 rs_draw_source (rs_run false ops) id <> Some id /\
                 rs_draw_source (rs_run false ops) id = None.
Proof.
  exists [RsConstruct 0 7 0; RsCorrect 0 true; RsMove 1 0; RsDestroy 0], 1. vm_compute.
  repeat split; try discriminate. now intros o [= <-].
Qed.

Lemma pre_fix_fresh_likelihood_invalid_refuted :
  exists ops id, rs_draw_source (rs_run false ops) id = Some id /\
                 rs_reported_valid (rs_run false ops) id <> Some false /\
                 rs_reported_valid (rs_run false ops) id = None.
Proof. exists [RsConstruct 0 7 0], 0. vm_compute. repeat split; discriminate. Qed.

(* move assignment, every object alive (no undefined behaviour): b = move(a); a = move(c);
   a draw of b then read a's generator_ -- by now a copy of c's state (seed 3) -- advanced it
   and left b's own copy untouched; and b kept its old likelihood model *)
Lemma pre_fix_move_assign_refuted :
  let ops := [RsConstruct 0 1 10; RsConstruct 1 2 11; RsMoveAssign 1 0;
              RsConstruct 2 3 12; RsMoveAssign 0 2; RsDraw 1] in
  option_map rs_lik (rs_find (rs_run false ops) 1) = Some (Some 11) /\
  option_map rs_gen (rs_find (rs_run false ops) 1) = Some (1, 0) /\
  option_map rs_gen (rs_find (rs_run false ops) 0) = Some (3, 1) /\
  rs_draw_source (rs_run false ops) 1 = Some 0 /\
  (* HEAD on the same operations *)
  option_map rs_lik (rs_find (rs_run true ops) 1) = Some (Some 10) /\
  option_map rs_gen (rs_find (rs_run true ops) 1) = Some (1, 1) /\
  option_map rs_gen (rs_find (rs_run true ops) 0) = Some (3, 0) /\
  rs_draw_source (rs_run true ops) 1 = Some 1.
Proof. vm_compute. repeat split. Qed.

Section Struct.
Variable O : MatOps.
Notation S := (sc O).
Variable n : nat.

Notation dpart := (dparticle O n).
Notation dgc := (dgcomp O n).

Lemma pbelief_mk (x : M O n 1) (b : gcomp O n) (w : T S) :
  pbelief (mkParticle x (gmean b) (gcov b) w) = b.
Proof. now destruct b. Qed.

Lemma gm_of_length (ps : pset O n) : length (gm_of ps) = length ps.
Proof. apply map_length. Qed.

Lemma belief_at_map_fst (g : gmixture O n) :
  map (fun i => belief_at g i) (seq 0 (length g)) = map fst g.
Proof.
  unfold belief_at.
  rewrite <- (map_map_seq fst (fun i => nth i g (dgc, s0 S))). now rewrite map_nth_seq.
Qed.

Lemma belief_at_nth (g : gmixture O n) i : belief_at g i = nth i (map fst g) dgc.
Proof. unfold belief_at. now rewrite <- (map_nth fst). Qed.

(* a wrapped step keeps the number of components when the object it reads and
   the object it writes have the same number of components *)
Definition shape_ok (g : gstep O n) : Prop :=
  forall a b, length a = length b -> length (g a b) = length a.

(* ---------------------------------------------------------------- prediction *)
Section Predict.
Variable gp : gstep O n.
Variables prev old : pset O n.

Lemma predict_length : length (gpf_predict gp prev old) = length prev.
Proof. unfold gpf_predict. now rewrite map_length, seq_length. Qed.

Lemma predict_states : map pstate (gpf_predict gp prev old) = map pstate prev.
Proof.
  unfold gpf_predict. rewrite map_map. cbn [pstate].
  rewrite <- (map_map_seq pstate (fun i => nth i prev dpart)). now rewrite map_nth_seq.
Qed.

Lemma predict_weights : map plw (gpf_predict gp prev old) = map plw prev.
Proof.
  unfold gpf_predict. rewrite map_map. cbn [plw].
  rewrite <- (map_map_seq plw (fun i => nth i prev dpart)). now rewrite map_nth_seq.
Qed.

Lemma predict_beliefs :
  length (gp (gm_of prev) (gm_of old)) = length prev ->
  map pbelief (gpf_predict gp prev old) = map fst (gp (gm_of prev) (gm_of old)).
Proof.
  intros Hs. unfold gpf_predict. rewrite map_map.
  rewrite <- belief_at_map_fst, Hs.
  apply map_ext. intros i. apply pbelief_mk.
Qed.

(* positions and weights untouched, same count: the frame of the prediction *)
Lemma predict_frame :
  map pstate (gpf_predict gp prev old) = map pstate prev /\
  map plw (gpf_predict gp prev old) = map plw prev /\
  length (gpf_predict gp prev old) = length prev.
Proof. split; [apply predict_states | split; [apply predict_weights | apply predict_length]]. Qed.

Lemma predict_beliefs_shape :
  shape_ok gp -> length old = length prev ->
  map pbelief (gpf_predict gp prev old) = map fst (gp (gm_of prev) (gm_of old)).
Proof.
  intros Hg Hl. apply predict_beliefs. rewrite Hg; rewrite !gm_of_length; auto.
Qed.

Lemma pf_predict_skip : pf_predict true gp prev old = prev.
Proof. reflexivity. Qed.
Lemma pf_predict_noskip : pf_predict false gp prev old = gpf_predict gp prev old.
Proof. reflexivity. Qed.
End Predict.

(* ---------------------------------------------------------------- correction *)
Section Correct.
Variable gc : gstep O n.
Variable lik : list (M O n 1) -> bool * list (T S).
Variable trans : list (M O n 1) -> list (M O n 1) -> list (T S).
Variable zs : list (M O n 1).
Variables pred old : pset O n.

Let g := gc (gm_of pred) (gm_of old).
Let N := length pred.
Let xs := gpf_drawn gc zs pred old.
Let r := gpf_correct gc lik trans zs pred old.

Lemma beliefs_length : length (gpf_beliefs gc pred old) = N.
Proof. unfold gpf_beliefs. now rewrite map_length, seq_length. Qed.

Lemma beliefs_nth i d : i < N -> nth i (gpf_beliefs gc pred old) d = belief_at g i.
Proof. intros Hi. unfold gpf_beliefs. now rewrite nth_map_seq. Qed.

Lemma beliefs_wrapped : length g = N -> gpf_beliefs gc pred old = map fst g.
Proof.
  intros Hs. unfold gpf_beliefs. fold g. fold N. rewrite <- Hs. apply belief_at_map_fst.
Qed.

Lemma drawn_length : length xs = N.
Proof. unfold xs, gpf_drawn. now rewrite map_length, seq_length. Qed.

(* x_i = m_i + L_i z_i, L_i the square-root factor of the corrected covariance *)
Lemma drawn_nth i d : i < N ->
  nth i xs d =
  sample_from_proposal (gmean (belief_at g i)) (gcov (belief_at g i)) (nth i zs (mzero n 1)).
Proof.
  intros Hi. unfold xs, gpf_drawn. rewrite nth_map_seq by exact Hi.
  now rewrite beliefs_nth.
Qed.

(* the likelihood model is evaluated on the drawn positions; its verdict and its
   values are what the step keeps (valid_likelihood_, likelihood_) *)
Lemma correct_likelihood_on_drawn : (cr_valid r, cr_lik r) = lik xs.
Proof.
  unfold r, gpf_correct. fold xs. destruct (lik xs) as [v ls]. destruct v; reflexivity.
Qed.

Lemma correct_invalid : fst (lik xs) = false ->
  cr_particles r = pred /\ cr_valid r = false.
Proof.
  unfold r, gpf_correct. fold xs. destruct (lik xs) as [v ls]. cbn. intros ->. now split.
Qed.

Lemma correct_valid_flag : fst (lik xs) = true -> cr_valid r = true.
Proof.
  unfold r, gpf_correct. fold xs. destruct (lik xs) as [v ls]. cbn. now intros ->.
Qed.

Lemma correct_length : length (cr_particles r) = N.
Proof.
  unfold r, gpf_correct. destruct (lik _) as [v ls]. destruct v; cbn; auto.
  now rewrite map_length, seq_length.
Qed.

Section Valid.
Hypothesis Hvalid : fst (lik xs) = true.

Let ls := snd (lik xs).
Let ts := trans (map pstate pred) xs.

Lemma correct_particles_eq :
  cr_particles r =
  map (fun i => let b := nth i (gpf_beliefs gc pred old) dgc in
                let x := nth i xs (mzero n 1) in
                mkParticle x (gmean b) (gcov b)
                  (gpf_weight S (plw (nth i pred dpart)) (nth i ls (s0 S)) (nth i ts (s0 S))
                              (evaluate_proposal x (gmean b) (gcov b))))
      (seq 0 N).
Proof.
  unfold r, gpf_correct, ls, ts. fold xs. revert Hvalid.
  destruct (lik xs) as [v l0]. cbn. intros ->. reflexivity.
Qed.

Lemma correct_beliefs_list : map pbelief (cr_particles r) = gpf_beliefs gc pred old.
Proof.
  rewrite correct_particles_eq, map_map.
  transitivity (map (fun i => nth i (gpf_beliefs gc pred old) dgc) (seq 0 N)).
  - apply map_ext. intros i. apply pbelief_mk.
  - rewrite <- beliefs_length. apply map_nth_seq.
Qed.

(* beliefs := the wrapped Gaussian correction, for every wrapped step *)
Lemma correct_beliefs : length g = N -> map pbelief (cr_particles r) = map fst g.
Proof. intros Hs. rewrite correct_beliefs_list. now apply beliefs_wrapped. Qed.

(* positions := the draws from the corrected Gaussians *)
Lemma correct_positions : map pstate (cr_particles r) = xs.
Proof.
  rewrite correct_particles_eq, map_map. cbn [pstate].
  rewrite <- drawn_length. apply map_nth_seq.
Qed.

Lemma correct_positions_full :
  map pstate (cr_particles r) = xs /\
  forall i d, i < N ->
    nth i xs d =
    let b := belief_at g i in
    madd (gmean b) (mmul (ldlt_sqrt (gcov b)) (nth i zs (mzero n 1))).
Proof. split; [exact correct_positions | exact (fun i d => drawn_nth i d)]. Qed.

(* the weight update, particle by particle *)
Lemma correct_weight i d : i < N ->
  plw (nth i (cr_particles r) d) =
  let b := belief_at g i in
  let x := nth i xs (mzero n 1) in
  gpf_weight S (plw (nth i pred dpart)) (nth i ls (s0 S)) (nth i ts (s0 S))
             (density x (gmean b) (gcov b)).
Proof.
  intros Hi. rewrite correct_particles_eq, nth_map_seq by exact Hi. cbn.
  now rewrite beliefs_nth.
Qed.

(* the same with the contracts of the two models as explicit premises: one likelihood value per
   position and one transition value per pair, so that no out-of-range read (nth default in the
   model, likelihood_(i) / transition_probability(i) past the end in GPFCorrection.cpp:125-130)
   is involved *)
Lemma correct_weight_guarded :
  length ls = N -> length ts = N -> forall i d, i < N ->
  plw (nth i (cr_particles r) d) =
  let b := belief_at g i in
  let x := nth i xs (mzero n 1) in
  gpf_weight S (plw (nth i pred dpart)) (nth i ls (s0 S)) (nth i ts (s0 S))
             (density x (gmean b) (gcov b)).
Proof. intros _ _. exact correct_weight. Qed.

Lemma correct_particle i d : i < N ->
  nth i (cr_particles r) d =
  let b := belief_at g i in
  let x := sample_from_proposal (gmean b) (gcov b) (nth i zs (mzero n 1)) in
  mkParticle x (gmean b) (gcov b)
    (gpf_weight S (plw (nth i pred dpart)) (nth i ls (s0 S)) (nth i ts (s0 S))
                (density x (gmean b) (gcov b))).
Proof.
  intros Hi. rewrite correct_particles_eq, nth_map_seq by exact Hi. cbn.
  rewrite beliefs_nth by exact Hi. rewrite (drawn_nth i _ Hi). reflexivity.
Qed.
End Valid.
End Correct.

(* ---------------------------------------------------------------- the plugged-in models *)
Lemma kf_corr_gstep_shape m (H : M O m n) (R : M O m m) (y : M O m 1) v :
  shape_ok (kf_corr_gstep v H R y).
Proof.
  intros a b Hl. unfold kf_corr_gstep. destruct v; auto.
  rewrite combine_length, !map_length. unfold kf_correct. rewrite map_length, map_length. lia.
Qed.

Lemma kf_pred_gstep_shape (F Q : M O n n) : shape_ok (kf_pred_gstep F Q).
Proof.
  intros a b Hl. unfold kf_pred_gstep. rewrite combine_length, !map_length. lia.
Qed.

Lemma kf_corr_gstep_beliefs m (H : M O m n) (R : M O m m) (y : M O m 1) a b :
  length a = length b ->
  map fst (kf_corr_gstep true H R y a b) = map (fun c => ko_comp (kf_correct_one H R y c)) (map fst a).
Proof.
  intros Hl. unfold kf_corr_gstep, kf_correct.
  rewrite map_map.
  set (l1 := map _ (map fst a)). set (l2 := map snd b).
  assert (Hlen : length l1 = length l2) by (unfold l1, l2; rewrite !map_length; exact Hl).
  clearbody l1 l2. revert l2 Hlen. induction l1 as [|x l1 IH]; intros [|y2 l2] Hlen; cbn in *; try discriminate; auto.
  f_equal. apply IH. lia.
Qed.

Lemma kf_pred_gstep_beliefs (F Q : M O n n) a b :
  length a = length b ->
  map fst (kf_pred_gstep F Q a b) = map (kf_pred_comp F Q) (map fst a).
Proof.
  intros Hl. unfold kf_pred_gstep.
  set (l1 := map _ (map fst a)). set (l2 := map snd b).
  assert (Hlen : length l1 = length l2) by (unfold l1, l2; rewrite !map_length; exact Hl).
  clearbody l1 l2. revert l2 Hlen. induction l1 as [|x l1 IH]; intros [|y2 l2] Hlen; cbn in *; try discriminate; auto.
  f_equal. apply IH. lia.
Qed.

Lemma combine_map_length {A B C D} (f : A -> B) (g : C -> D) (a : list A) (c : list C) :
  length a = length c -> length (combine (map f a) (map g c)) = length a.
Proof. intros H. rewrite combine_length, !map_length. lia. Qed.

Lemma ukf_corr_gstep_shape m v w (h : M O n 1 -> M O m 1) (R : M O m m) (y : M O m 1) :
  shape_ok (ukf_corr_gstep v w h R y).
Proof.
  intros a b Hl. unfold ukf_corr_gstep. destruct v; auto.
  rewrite combine_length, !map_length. lia.
Qed.
Lemma sukf_corr_gstep_shape m v w (h : M O n 1 -> M O m 1) (R : M O m m) (y : M O m 1) :
  shape_ok (sukf_corr_gstep v w h R y).
Proof.
  intros a b Hl. unfold sukf_corr_gstep. destruct v; auto.
  rewrite combine_length, !map_length. lia.
Qed.
Lemma copy_gstep_shape : shape_ok (@copy_gstep O n).
Proof. intros a b Hl. reflexivity. Qed.

(* the likelihood model returns one value per position whenever it reports valid *)
Lemma gauss_lik_h_length m scale v1 v2 v3 v4 (h : M O n 1 -> M O m 1) R y (xs : list (M O n 1)) :
  fst (gauss_lik_h scale v1 v2 v3 v4 h R y xs) = true ->
  length (snd (gauss_lik_h scale v1 v2 v3 v4 h R y xs)) = length xs.
Proof.
  unfold gauss_lik_h. destruct v1, v2, v3, v4; cbn; try discriminate. intros _. apply map_length.
Qed.

Lemma gauss_lik_length m scale (H : M O m n) R y (xs : list (M O n 1)) :
  length (snd (gauss_lik scale true H R y xs)) = length xs.
Proof. cbn. apply map_length. Qed.

Lemma lin_trans_length (F Q : M O n n) ps cs :
  length ps = length cs -> length (lin_trans F Q ps cs) = length cs.
Proof. intros Hl. unfold lin_trans. rewrite map_length, combine_length. lia. Qed.

Lemma lin_trans_nth (F Q : M O n n) ps cs i d :
  i < length cs -> length ps = length cs ->
  nth i (lin_trans F Q ps cs) d =
  density (msub (nth i cs (mzero n 1)) (mmul F (nth i ps (mzero n 1)))) (mzero n 1) Q.
Proof.
  intros Hi Hl. unfold lin_trans.
  set (f := fun pc : M O n 1 * M O n 1 => density (msub (snd pc) (mmul F (fst pc))) (mzero n 1) Q).
  rewrite (nth_indep _ d (f (mzero n 1, mzero n 1))) by (rewrite map_length, combine_length; lia).
  rewrite (map_nth f). rewrite combine_nth by exact Hl. reflexivity.
Qed.

(* ---------------------------------------------------------------- histories *)
(* what one filtering step establishes between the state before and after it *)
Definition step_formulae (N : nat) (st1 : fstate O n) (s : step_in O n) (st2 : fstate O n) : Prop :=
  let gP := si_gp s (gm_of (fs_corr st1)) (gm_of (fs_pred st1)) in
  let gC := si_gc s (gm_of (fs_pred st2)) (gm_of (fs_corr st1)) in
  let xs := gpf_drawn (si_gc s) (si_zs s) (fs_pred st2) (fs_corr st1) in
  length (fs_pred st2) = N /\ length (fs_corr st2) = N /\
  (* prediction: positions and weights of the previous corrected set, beliefs of the wrapped step *)
  map pstate (fs_pred st2) = map pstate (fs_corr st1) /\
  map plw (fs_pred st2) = map plw (fs_corr st1) /\
  map pbelief (fs_pred st2) = map fst gP /\
  (* correction *)
  (fs_valid st2, fs_lik st2) = si_lik s xs /\
  (fs_valid st2 = false -> fs_corr st2 = fs_pred st2) /\
  (fs_valid st2 = true ->
     map pbelief (fs_corr st2) = map fst gC /\
     map pstate (fs_corr st2) = xs /\
     (* contracts of the likelihood / transition models: one value per position / pair *)
     (length (fs_lik st2) = N -> length (si_trans s (map pstate (fs_pred st2)) xs) = N ->
     forall i, i < N ->
       nth i xs (mzero n 1) =
         sample_from_proposal (gmean (belief_at gC i)) (gcov (belief_at gC i)) (nth i (si_zs s) (mzero n 1)) /\
       plw (nth i (fs_corr st2) dpart) =
         gpf_weight S (plw (nth i (fs_pred st2) dpart)) (nth i (fs_lik st2) (s0 S))
                    (nth i (si_trans s (map pstate (fs_pred st2)) xs) (s0 S))
                    (density (nth i xs (mzero n 1)) (gmean (belief_at gC i)) (gcov (belief_at gC i))))).

Lemma gpf_step_formulae N st s :
  length (fs_pred st) = N -> length (fs_corr st) = N ->
  shape_ok (si_gp s) -> shape_ok (si_gc s) ->
  step_formulae N st s (gpf_step st s).
Proof.
  intros Lp Lc Sp Sc. unfold step_formulae, gpf_step. cbn [fs_pred fs_corr fs_valid fs_lik].
  set (pred := gpf_predict (si_gp s) (fs_corr st) (fs_pred st)).
  assert (LP : length pred = N) by (unfold pred; rewrite predict_length; exact Lc).
  assert (SC : length (si_gc s (gm_of pred) (gm_of (fs_corr st))) = length pred).
  { rewrite Sc; rewrite !gm_of_length; congruence. }
  split; [exact LP|]. split; [rewrite correct_length; exact LP|].
  split; [apply predict_states|]. split; [apply predict_weights|].
  split; [apply predict_beliefs_shape; [exact Sp | congruence]|].
  split; [apply correct_likelihood_on_drawn|].
  pose proof (correct_likelihood_on_drawn (si_gc s) (si_lik s) (si_trans s) (si_zs s) pred (fs_corr st)) as HL.
  split.
  - intros Hv. apply correct_invalid. rewrite <- HL. exact Hv.
  - intros Hv.
    assert (Hvalid : fst (si_lik s (gpf_drawn (si_gc s) (si_zs s) pred (fs_corr st))) = true) by (rewrite <- HL; exact Hv).
    split; [apply correct_beliefs; assumption|].
    split; [apply correct_positions; assumption|].
    intros _ _ i Hi. split.
    + apply drawn_nth. congruence.
    + rewrite (correct_weight _ _ _ _ _ _ Hvalid i dpart) by congruence. cbn zeta.
      replace (cr_lik _) with (snd (si_lik s (gpf_drawn (si_gc s) (si_zs s) pred (fs_corr st)))) by (rewrite <- HL; reflexivity).
      reflexivity.
Qed.

Lemma gpf_run_app (st : fstate O n) h1 h2 : gpf_run (gpf_run st h1) h2 = gpf_run st (h1 ++ h2).
Proof. unfold gpf_run. now rewrite fold_left_app. Qed.

Lemma gpf_run_lengths N st h :
  length (fs_pred st) = N -> length (fs_corr st) = N ->
  Forall (fun s => shape_ok (si_gp s) /\ shape_ok (si_gc s)) h ->
  length (fs_pred (gpf_run st h)) = N /\ length (fs_corr (gpf_run st h)) = N.
Proof.
  intros Lp Lc HF. revert st Lp Lc. induction HF as [|s h [Sp Sc] HF IH]; intros st Lp Lc; cbn; auto.
  destruct (gpf_step_formulae N st s Lp Lc Sp Sc) as (L1 & L2 & _). apply IH; assumption.
Qed.

(* the formulae hold at every step of every history: the shape invariant that
   guards them is derived, not assumed, beyond the first step *)
Lemma gpf_multi_step N st h k d :
  length (fs_pred st) = N -> length (fs_corr st) = N ->
  Forall (fun s => shape_ok (si_gp s) /\ shape_ok (si_gc s)) h ->
  k < length h ->
  step_formulae N (gpf_run st (firstn k h)) (nth k h d) (gpf_run st (firstn (Datatypes.S k) h)).
Proof.
  intros Lp Lc HF Hk.
  assert (E : firstn (Datatypes.S k) h = firstn k h ++ [nth k h d]).
  { clear -Hk. revert k Hk. induction h as [|a h IH]; intros k Hk; cbn in Hk; [lia|].
    destruct k; cbn; [reflexivity|]. f_equal. apply IH. lia. }
  rewrite E, <- gpf_run_app. cbn [gpf_run fold_left].
  assert (HFk : Forall (fun s => shape_ok (si_gp s) /\ shape_ok (si_gc s)) (firstn k h)).
  { apply Forall_forall. intros x Hx. rewrite Forall_forall in HF. apply HF.
    rewrite <- (firstn_skipn k h). apply in_or_app. now left. }
  destruct (gpf_run_lengths N st (firstn k h) Lp Lc HFk) as [L1 L2].
  rewrite Forall_forall in HF. destruct (HF (nth k h d) (nth_In _ _ Hk)) as [Sp Sc].
  apply gpf_step_formulae; assumption.
Qed.

(* the trace computed by the correspondence check lists exactly these states *)
Lemma gpf_trace_run (st : fstate O n) h k d : k < length h ->
  nth k (gpf_trace st h) d = gpf_run st (firstn (Datatypes.S k) h).
Proof.
  revert st k. induction h as [|s h IH]; intros st k Hk; cbn in Hk; [lia|].
  destruct k; cbn [gpf_trace nth firstn gpf_run fold_left]; [reflexivity|].
  rewrite IH by lia. reflexivity.
Qed.

(* PF-level skip flags: without them pf_trace is gpf_trace; a skipped prediction copies the
   previous set; a skipped correction copies the predicted set and keeps the likelihood members *)
Lemma pf_step_noskip (st : fstate O n) s : pf_step st (s, (false, false)) = gpf_step st s.
Proof. reflexivity. Qed.
Lemma pf_trace_noskip (st : fstate O n) h :
  pf_trace st (map (fun s => (s, (false, false))) h) = gpf_trace st h.
Proof. revert st. induction h as [|s h IH]; intros st; cbn [map pf_trace gpf_trace]; [reflexivity|]. now rewrite pf_step_noskip, IH. Qed.
Lemma pf_step_skip_prediction (st : fstate O n) s sc : fs_pred (pf_step st (s, (true, sc))) = fs_corr st.
Proof. unfold pf_step. destruct sc; reflexivity. Qed.
Lemma pf_step_skip_correction (st : fstate O n) s sp :
  let st' := pf_step st (s, (sp, true)) in
  fs_corr st' = fs_pred st' /\ fs_valid st' = fs_valid st /\ fs_lik st' = fs_lik st.
Proof. unfold pf_step. cbn. auto. Qed.

Lemma gpf_trace_length (st : fstate O n) h : length (gpf_trace st h) = length h.
Proof. revert st. induction h as [|s h IH]; intros st; cbn; auto. Qed.

End Struct.
