(* C12_Sym.v — the symbolic instance of the C12 skeletons: every datum is a
   first-order term over the inputs of a run (predicted beliefs, measurements,
   previous content of the output object, fresh members) and the numerical
   routines are free constructors.  "The output is the predicted belief" is
   then literally "the output term is the input term pred_k", and stale members
   are visible as terms mentioning an earlier step.  This instance is what is
   extracted and run against the library; the refutation witnesses are
   computed on it.  No proofs in this file. *)
Require Import List Bool Arith.
Require Import BFL.C12_Model.
Import ListNotations.
Local Open Scope bool_scope.

Inductive con :=
  (* inputs of a run *)
  | IPredG (k : nat) | IPredS (k : nat) | IY (k : nat) | IR | IOutG | IOutS | IRng
  | IPy0 | IPm0 | IEmpty | IGarbageR
  | IOutGk (k : nat) | IOutSk (k : nat) | ILikJunk
  (* measurement model *)
  | FH | FInn | FCustomLik
  (* KF *)
  | FKfPx | FKfUpdG | FKfUpdPy | FKfLik
  (* UT / UKF *)
  | FSigma | FUtPm | FUtPxy | FPmDefault | FPxyEmpty | FPmAddNoise | FAugment | FPmMean | FUkfUpd | FUkfLik
  (* SUKF *)
  | FSukfMean | FSukfUpdG | FSukfUpdYp | FSukfLik
  (* PF *)
  | FStPx | FGlDens | FZero1 | FBootW | FSampleS | FSampleRng | FGpfW
  (* SIS *)
  | FSisPredG | FSisPredS | FSisCorG | FSisCorS | FSisNormG | FSisNormS | FSisResG | FSisResS.

Inductive tm := Node (c : con) (args : list tm).
Definition leaf (c : con) : tm := Node c [].
Definition ap1 c a := Node c [a].
Definition ap2 c a b := Node c [a; b].

Definition nat_of_site (s : site) : nat :=
  match s with Measure => 0 | Predicted => 1 | Innovation => 2 | NoiseCov => 3 | Freeze => 4 | Likelihood => 5 end.
(* bits in the order measure, predictedMeasure, innovation, getNoiseCovarianceMatrix, freeze, likelihood *)
Definition pat_of (bits : list bool) : pattern := fun s => nth (nat_of_site s) bits false.

Definition smm (k : nat) : mmodel tm tm tm tm tm :=
  total_mm (leaf (IY k)) (ap1 FH) (ap2 FInn) (leaf IR).

(* the numerical routines as free constructors *)
Definition s_kf_upd (pred nu R out : tm) : tm * tm :=
  (Node FKfUpdG [pred; nu; R; out], Node FKfUpdPy [pred; nu; R]).
Definition s_ut_moments (input yp : tm) : tm * tm := (ap2 FUtPm input yp, ap2 FUtPxy input yp).
Definition s_ukf_upd (pred pm pxy nu out : tm) : tm := Node FUkfUpd [pred; pm; pxy; nu; out].
Definition s_sukf_upd (pred sp yp nu R out : tm) : tm * tm :=
  (Node FSukfUpdG [pred; sp; yp; nu; R; out], Node FSukfUpdYp [yp; nu]).
Definition s_sample (rng g s : tm) : tm * tm := (Node FSampleS [rng; g; s], Node FSampleRng [rng; g]).
Definition s_gpf_wupd (pred : tm * tm) (lk : tm) (corr : tm * tm) : tm :=
  Node FGpfW [fst pred; snd pred; lk; fst corr; snd corr].

Definition s_kf_step := @kf_step tm tm tm tm tm tm tm (ap1 FKfPx) s_kf_upd.
Definition s_kf_get_lik := @kf_get_lik tm tm tm (ap2 FKfLik).
Definition s_ukf_step := @ukf_step tm tm tm tm tm tm tm tm (ap1 FSigma) s_ut_moments (leaf FPmDefault) (leaf FPxyEmpty)
                                   (ap2 FPmAddNoise) (ap2 FAugment) (ap1 FPmMean) s_ukf_upd.
Definition s_ukf_get_lik := @ukf_get_lik tm tm tm (ap2 FUkfLik).
Definition s_sukf_step := @sukf_step tm tm tm tm tm tm (ap1 FSigma) (ap1 FSukfMean) s_sukf_upd.
Definition s_sukf_get_lik := @sukf_get_lik tm tm tm tm tm tm (fun nu yp R => Node FSukfLik [nu; yp; R]).
Definition s_gl := @gl_likelihood tm tm tm tm tm tm tm (ap1 FStPx) (ap2 FGlDens).
Definition s_boot_step := @boot_step tm tm tm tm tm tm tm tm (ap1 FStPx) (ap2 FGlDens) (leaf FZero1) (ap2 FBootW).
Definition s_gpf_step (GS : Type) := @gpf_step tm tm tm tm tm tm tm tm tm (ap1 FStPx) (ap2 FGlDens) (leaf FZero1) GS s_sample s_gpf_wupd.

(* ------------------------------------------------------------------ runs *)
(* one observed step: output object (mixture part, state part or IEmpty),
   call log of correct(), result of getLikelihood() and its call log *)
Record obs := mkObs { o_g : tm; o_s : tm; o_log : list site; o_lik : bool * tm; o_liklog : list site }.

Definition opt_pair (o : option tm) : bool * tm :=
  match o with Some l => (true, l) | None => (false, leaf IEmpty) end.

(* run configuration, constant over a run: skip_ of the driven correction, skip_ of the correction
   wrapped by GPF, whether a failing getNoiseCovarianceMatrix returns an empty matrix next to its
   false flag, whether one object is passed as predicted and corrected belief *)
Record cfg := mkCfg { c_skip : bool; c_iskip : bool; c_emptyR : bool; c_alias : bool }.
Definition cfg0 := mkCfg false false false false.

(* configuration of ONE step of a run (histories: the skip flags in force after the commands issued
   so far, the payload classes of this step's failing calls, the sizes of this step's belief and
   measurement):
     sc_skip / sc_iskip   skip_ of the driven / wrapped correction during this step
     sc_garbR             a failing getNoiseCovarianceMatrix hands back a matrix that is not the noise
                          covariance (empty, another shape) next to its false flag
     sc_fresh             the output object of this step is a new object (not the one the previous step wrote)
     sc_sub_ok, sc_ncalls, sc_lcalls   SUKF: size test, number of getNoiseCovarianceMatrix calls (they
                          depend on this step's measurement size and component count)
     sc_lpay              what a failing user likelihood model returns next to its false flag:
                          0 = Zero(1), 1 = an empty vector, otherwise some other vector *)
Record scfg := mkSCfg { sc_skip : bool; sc_iskip : bool; sc_garbR : bool; sc_fresh : bool;
                        sc_sub_ok : bool; sc_ncalls : nat; sc_lcalls : nat; sc_lpay : nat }.
Definition scfg_of (c : cfg) (sub_ok : bool) (ncalls lcalls : nat) : scfg :=
  mkSCfg (c_skip c) (c_iskip c) (c_emptyR c) false sub_ok ncalls lcalls 0.
Definition const_steps (sc : scfg) (pats : list (list bool)) : list (scfg * list bool) := map (fun b => (sc, b)) pats.

Definition ssinj (sc : scfg) (p : pattern) (k : nat) : mmodel tm tm tm tm tm :=
  if sc_garbR sc then inject_g (leaf IGarbageR) p (smm k) else inject p (smm k).
Definition sinj (c : cfg) (p : pattern) (k : nat) : mmodel tm tm tm tm tm := ssinj (scfg_of c true 0 0) p k.

Definition lik_pay (n : nat) : tm :=
  match n with 0 => leaf FZero1 | 1 => leaf IEmpty | _ => leaf ILikJunk end.

(* a Gaussian correction object driven through a sequence of steps; the output object of step k is the
   in-out argument of step k+1 unless that step brings a new one (aliased: the predicted object itself) *)
Section GaussRun.
Variable GS : Type.
Variable step : scfg -> pattern -> nat -> tm -> tm -> GS -> result tm GS.
Variable getlik : scfg -> pattern -> nat -> GS -> option tm * list site.

Fixpoint gauss_run_steps (alias : bool) (steps : list (scfg * list bool)) (k : nat) (out : tm) (st : GS) : list obs :=
  match steps with
  | [] => []
  | (sc, b) :: rest =>
    let p := pat_of b in
    let pred := leaf (IPredG k) in
    let out' := if sc_fresh sc then leaf (IOutGk k) else out in
    let r := correct_wrapper (sc_skip sc) (step sc p k) pred (if alias then pred else out') st in
    let '(lk, ll) := getlik sc p k (r_st r) in
    mkObs (r_out r) (leaf IEmpty) (r_log r) (opt_pair lk) ll :: gauss_run_steps alias rest (S k) (r_out r) (r_st r)
  end.
End GaussRun.

(* the same with one configuration for the whole run *)
Definition gauss_run_cfg (GS : Type) (step : pattern -> nat -> tm -> tm -> GS -> result tm GS)
           (getlik : pattern -> nat -> GS -> option tm * list site)
           (c : cfg) (pats : list (list bool)) (k : nat) (out : tm) (st : GS) : list obs :=
  gauss_run_steps GS (fun _ => step) (fun _ => getlik) (c_alias c) (const_steps (scfg_of c true 0 0) pats) k out st.
Definition gauss_run (GS : Type) step getlik := gauss_run_cfg GS step getlik cfg0.

Definition kf_st0 : kf_state tm tm := mkKfSt None (leaf IPy0).
Definition ukf_st0 : ukf_state tm tm := mkUkfSt None (leaf IPm0).
Definition sukf_st0 : sukf_state tm tm := mkSukfSt None None.

Definition run_kf_steps (alias : bool) (steps : list (scfg * list bool)) : list obs :=
  gauss_run_steps _ (fun sc p k => s_kf_step (ssinj sc p k)) (fun _ _ _ st => (s_kf_get_lik st, []))
                  alias steps 0 (leaf IOutG) kf_st0.
Definition run_kf_cfg (c : cfg) (pats : list (list bool)) : list obs :=
  run_kf_steps (c_alias c) (const_steps (scfg_of c true 0 0) pats).
Definition run_kf := run_kf_cfg cfg0.

Definition run_ukf_steps (additive alias : bool) (steps : list (scfg * list bool)) : list obs :=
  gauss_run_steps _ (fun sc p k => s_ukf_step additive (ssinj sc p k)) (fun _ _ _ st => (s_ukf_get_lik st, []))
                  alias steps 0 (leaf IOutG) ukf_st0.
Definition run_ukf_cfg (c : cfg) (additive : bool) (pats : list (list bool)) : list obs :=
  run_ukf_steps additive (c_alias c) (const_steps (scfg_of c true 0 0) pats).
Definition run_ukf := run_ukf_cfg cfg0.

Definition run_sukf_steps (alias : bool) (steps : list (scfg * list bool)) : list obs :=
  gauss_run_steps _ (fun sc p k => s_sukf_step (sc_sub_ok sc) (sc_ncalls sc) (ssinj sc p k))
                  (fun sc p k st => s_sukf_get_lik (sc_lcalls sc) (ssinj sc p k) st) alias steps 0 (leaf IOutG) sukf_st0.
Definition run_sukf_cfg (c : cfg) (sub_ok : bool) (ncalls lcalls : nat) (pats : list (list bool)) : list obs :=
  run_sukf_steps (c_alias c) (const_steps (scfg_of c sub_ok ncalls lcalls) pats).
Definition run_sukf := run_sukf_cfg cfg0.

(* GaussianLikelihood::likelihood on its own *)
Definition run_gl_steps (steps : list (scfg * list bool)) : list obs :=
  let fix go steps k :=
    match steps with
    | [] => []
    | (sc, b) :: rest =>
      let '(o, l) := s_gl (ssinj sc (pat_of b) k) (leaf (IPredS k)) in
      mkObs (leaf IEmpty) (leaf IEmpty) l (lik_pair (leaf FZero1) o) [] :: go rest (S k)
    end in go steps 0.
Definition run_gl_cfg (c : cfg) (pats : list (list bool)) : list obs := run_gl_steps (const_steps (scfg_of c true 0 0) pats).
Definition run_gl := run_gl_cfg cfg0.

Definition s_lm (custom : bool) (k : nat) : likmodel tm tm :=
  if custom then LCustom (fun s => (true, ap2 FCustomLik s (leaf (IY k)))) else LGauss.
Definition s_inject_lik_z (z : tm) := @inject_lik tm tm z.
Definition s_inject_lik := s_inject_lik_z (leaf FZero1).

(* GPFCorrection makes its calls in two phases: the wrapped Gaussian correction,
   then the likelihood.  A 6-bit pattern applies to both; with 12 bits the second
   six are the pattern seen during the likelihood phase (the same measurement
   model object may answer differently at the later calls). *)
Definition pat2_of (bits : list bool) : pattern := fun s => nth (6 + nat_of_site s) bits (pat_of bits s).

Section PfRun.
Variable GS : Type.
Variable step : scfg -> list bool -> nat -> tm * tm -> tm * tm -> GS -> result (tm * tm) GS.
Variable getlik : GS -> bool * tm.

Fixpoint pf_run_steps (alias : bool) (steps : list (scfg * list bool)) (k : nat) (out : tm * tm) (st : GS) : list obs :=
  match steps with
  | [] => []
  | (sc, b) :: rest =>
    let pred := (leaf (IPredG k), leaf (IPredS k)) in
    let out' := if sc_fresh sc then (leaf (IOutGk k), leaf (IOutSk k)) else out in
    let r := correct_wrapper (sc_skip sc) (step sc b k) pred (if alias then pred else out') st in
    mkObs (fst (r_out r)) (snd (r_out r)) (r_log r) (getlik (r_st r)) [] :: pf_run_steps alias rest (S k) (r_out r) (r_st r)
  end.
End PfRun.

Definition pf_st0 : pf_state tm := mkPfSt false (leaf IEmpty).

Definition run_boot_steps (custom alias : bool) (steps : list (scfg * list bool)) : list obs :=
  pf_run_steps _ (fun sc b k => s_boot_step (s_inject_lik_z (lik_pay (sc_lpay sc)) (pat_of b) (s_lm custom k)) (ssinj sc (pat_of b) k))
               pf_get_lik alias steps 0 (leaf IOutG, leaf IOutS) pf_st0.
Definition run_boot_cfg (c : cfg) (custom : bool) (pats : list (list bool)) : list obs :=
  run_boot_steps custom (c_alias c) (const_steps (scfg_of c true 0 0) pats).
Definition run_boot := run_boot_cfg cfg0.

Definition s_gpf_step_aliased (GS : Type) :=
  @gpf_step_aliased tm tm tm tm tm tm tm tm tm (ap1 FStPx) (ap2 FGlDens) (leaf FZero1) GS s_sample s_gpf_wupd.

Definition run_gpf_with (GS : Type) (gc : scfg -> pattern -> nat -> tm -> tm -> GS -> result tm GS) (gs0 : GS)
           (custom alias : bool) (steps : list (scfg * list bool)) : list obs :=
  pf_run_steps _ (fun sc b k pred out st =>
                    let gcw := correct_wrapper (sc_iskip sc) (gc sc (pat_of b) k) in
                    let lm := s_inject_lik_z (lik_pay (sc_lpay sc)) (pat2_of b) (s_lm custom k) in
                    let mm := ssinj sc (pat2_of b) k in
                    if alias then s_gpf_step_aliased GS gcw lm mm pred st
                    else s_gpf_step GS gcw lm mm pred out st)
               (fun st => pf_get_lik (g_pf st)) alias steps 0 (leaf IOutG, leaf IOutS) (mkGpfSt pf_st0 gs0 (leaf IRng)).

(* inner: 0 = KF, 1 = UKF generic, 2 = UKF additive, 3 = SUKF *)
Definition run_gpf_steps (inner : nat) (custom alias : bool) (steps : list (scfg * list bool)) : list obs :=
  match inner with
  | 0 => run_gpf_with _ (fun sc p k => s_kf_step (ssinj sc p k)) kf_st0 custom alias steps
  | 1 => run_gpf_with _ (fun sc p k => s_ukf_step false (ssinj sc p k)) ukf_st0 custom alias steps
  | 2 => run_gpf_with _ (fun sc p k => s_ukf_step true (ssinj sc p k)) ukf_st0 custom alias steps
  | _ => run_gpf_with _ (fun sc p k => s_sukf_step (sc_sub_ok sc) (sc_ncalls sc) (ssinj sc p k)) sukf_st0 custom alias steps
  end.
Definition run_gpf_cfg (c : cfg) (inner : nat) (sub_ok : bool) (ncalls : nat) (custom : bool) (pats : list (list bool)) : list obs :=
  run_gpf_steps inner custom (c_alias c) (const_steps (scfg_of c sub_ok ncalls 0) pats).
Definition run_gpf (inner : nat) (custom : bool) := run_gpf_cfg cfg0 inner true 0 custom.

(* SIS::filtering_step, one call (step 0, no resampling): kept for the examples *)
Definition pr2 (cg cs : con) (a b : tm * tm) : tm * tm :=
  (Node cg [fst a; snd a; fst b; snd b], Node cs [fst a; snd a; fst b; snd b]).
Definition pr1 (cg cs : con) (a : tm * tm) : tm * tm := (Node cg [fst a; snd a], Node cs [fst a; snd a]).

Definition s_sis_step := @sis_step tm tm (pr2 FSisPredG FSisPredS) (pr2 FSisCorG FSisCorS) (pr1 FSisNormG FSisNormS)
                                   (fun _ => false) (pr1 FSisResG FSisResS).

Definition run_sis (bits : list bool) (step : nat) : (tm * tm) * (tm * tm) * list sis_event :=
  s_sis_step (mm_freeze (inject (pat_of bits) (smm 0))) step ((leaf (IPredG 0), leaf (IPredS 0)), (leaf IOutG, leaf IOutS)).

(* SIS driven through several filtering steps with a BootstrapCorrection over the
   GaussianLikelihood as correction.  Per step: the pattern; whether the resampling test fires (an
   input: it depends on the numerical weights); whether skip_ of the correction is in force
   (ParticleFilter::skip("correction", .) issued before the step); whether reset() is called during
   the step (the filtering thread then leaves its loop, runs the initialization again and restarts at
   step number 0: pred_particle_ is the initial set, cor_particle_ keeps what this step left).
   Events: the filter's own (predict, freeze, correct, normalise, resample) with the
   measurement-model calls of the correction after EvCorrect; a skipped correction runs no correctStep. *)
Record sis_obs := mkSisObs { so_pred : tm * tm; so_cor_at_log : tm * tm; so_cor : tm * tm;
                             so_events : list (sis_event + site) }.
Record sis_in := mkSisIn { si_bits : list bool; si_deg : bool; si_skip : bool; si_reset : bool }.

Definition sis_init : tm * tm := (leaf (IPredG 0), leaf (IPredS 0)).

Fixpoint sis_run (steps : list sis_in) (k stepno : nat) (pc : (tm * tm) * (tm * tm)) : list sis_obs :=
  match steps with
  | [] => []
  | i :: rest =>
    let p := pat_of (si_bits i) in
    let mm := inject p (smm k) in
    let cstep := correct_wrapper (si_skip i) (s_boot_step LGauss mm) in
    let correct := fun pred cor => r_out (cstep pred cor pf_st0) in
    let deg := si_deg i in
    let '(pred, cor, evs) :=
      @sis_step tm tm (pr2 FSisPredG FSisPredS) correct (pr1 FSisNormG FSisNormS) (fun _ => deg)
                (pr1 FSisResG FSisResS) (mm_freeze mm) stepno pc in
    let at_log := @sis_cor_at_log tm tm (pr2 FSisPredG FSisPredS) correct (pr1 FSisNormG FSisNormS) (mm_freeze mm) stepno pc in
    let clog := r_log (cstep pred (snd pc) pf_st0) in
    let evs' := flat_map (fun e => match e with
                                   | EvCorrect => if si_skip i then [] else inl EvCorrect :: map inr clog
                                   | _ => [inl e] end) evs in
    mkSisObs pred at_log cor evs' ::
      (if si_reset i then sis_run rest (S k) 0 (sis_init, cor) else sis_run rest (S k) (S stepno) (pred, cor))
  end.
Definition run_sis_steps (steps : list sis_in) : list sis_obs := sis_run steps 0 0 (sis_init, (leaf IOutG, leaf IOutS)).
Definition run_sis_seq (steps : list (list bool * bool)) : list sis_obs :=
  run_sis_steps (map (fun s => mkSisIn (fst s) (snd s) false false) steps).

(* term equality, for the examples *)
Definition con_code (c : con) : nat * nat :=
  match c with
  | IPredG k => (0, k) | IPredS k => (1, k) | IY k => (2, k) | IR => (3, 0) | IOutG => (4, 0) | IOutS => (5, 0)
  | IRng => (6, 0) | IPy0 => (7, 0) | IPm0 => (8, 0) | IEmpty => (9, 0)
  | FH => (10, 0) | FInn => (11, 0) | FCustomLik => (12, 0)
  | FKfPx => (13, 0) | FKfUpdG => (14, 0) | FKfUpdPy => (15, 0) | FKfLik => (16, 0)
  | FSigma => (17, 0) | FUtPm => (18, 0) | FUtPxy => (19, 0) | FPmDefault => (20, 0) | FPxyEmpty => (21, 0)
  | FPmAddNoise => (22, 0) | FAugment => (23, 0) | FPmMean => (24, 0) | FUkfUpd => (25, 0) | FUkfLik => (26, 0)
  | FSukfMean => (27, 0) | FSukfUpdG => (28, 0) | FSukfUpdYp => (29, 0) | FSukfLik => (30, 0)
  | FStPx => (31, 0) | FGlDens => (32, 0) | FZero1 => (33, 0) | FBootW => (34, 0) | FSampleS => (35, 0)
  | FSampleRng => (36, 0) | FGpfW => (37, 0)
  | FSisPredG => (38, 0) | FSisPredS => (39, 0) | FSisCorG => (40, 0) | FSisCorS => (41, 0)
  | FSisNormG => (42, 0) | FSisNormS => (43, 0) | FSisResG => (44, 0) | FSisResS => (45, 0)
  | IGarbageR => (46, 0)
  | IOutGk k => (47, k) | IOutSk k => (48, k) | ILikJunk => (49, 0)
  end.
Definition con_eqb (a b : con) : bool :=
  Nat.eqb (fst (con_code a)) (fst (con_code b)) && Nat.eqb (snd (con_code a)) (snd (con_code b)).

Fixpoint tm_eqb (a b : tm) : bool :=
  match a, b with
  | Node c l, Node d m =>
    con_eqb c d &&
    (fix go (l m : list tm) : bool :=
       match l, m with
       | [], [] => true
       | x :: l', y :: m' => tm_eqb x y && go l' m'
       | _, _ => false
       end) l m
  end.
