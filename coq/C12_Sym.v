(* C12_Sym.v — the symbolic instance of the C12 skeletons: every datum is a
   first-order term over the inputs of a run (predicted beliefs, measurements,
   previous content of the output object, fresh members) and the numerical
   routines are free constructors.  "The output is the predicted belief" is
   then literally "the output term is the input term pred_k", and stale members
   are visible as terms mentioning an earlier step.  This instance is what is
   extracted and run against the library; the refutation witnesses are
   computed on it.  No proofs in this file. *)
Require Import List Bool Arith.
Require Import BFL.C12_Model.
Import ListNotations.
Local Open Scope bool_scope.

Inductive con :=
  (* inputs of a run *)
  | IPredG (k : nat) | IPredS (k : nat) | IY (k : nat) | IR | IOutG | IOutS | IRng
  | IPy0 | IPm0 | IEmpty | IGarbageR
  (* measurement model *)
  | FH | FInn | FCustomLik
  (* KF *)
  | FKfPx | FKfUpdG | FKfUpdPy | FKfLik
  (* UT / UKF *)
  | FSigma | FUtPm | FUtPxy | FPmDefault | FPxyEmpty | FPmAddNoise | FAugment | FPmMean | FUkfUpd | FUkfLik
  (* SUKF *)
  | FSukfMean | FSukfUpdG | FSukfUpdYp | FSukfLik
  (* PF *)
  | FStPx | FGlDens | FZero1 | FBootW | FSampleS | FSampleRng | FGpfW
  (* SIS *)
  | FSisPredG | FSisPredS | FSisCorG | FSisCorS | FSisNormG | FSisNormS | FSisResG | FSisResS.

Inductive tm := Node (c : con) (args : list tm).
Definition leaf (c : con) : tm := Node c [].
Definition ap1 c a := Node c [a].
Definition ap2 c a b := Node c [a; b].

Definition nat_of_site (s : site) : nat :=
  match s with Measure => 0 | Predicted => 1 | Innovation => 2 | NoiseCov => 3 | Freeze => 4 | Likelihood => 5 end.
(* bits in the order measure, predictedMeasure, innovation, getNoiseCovarianceMatrix, freeze, likelihood *)
Definition pat_of (bits : list bool) : pattern := fun s => nth (nat_of_site s) bits false.

Definition smm (k : nat) : mmodel tm tm tm tm tm :=
  total_mm (leaf (IY k)) (ap1 FH) (ap2 FInn) (leaf IR).

(* the numerical routines as free constructors *)
Definition s_kf_upd (pred nu R out : tm) : tm * tm :=
  (Node FKfUpdG [pred; nu; R; out], Node FKfUpdPy [pred; nu; R]).
Definition s_ut_moments (input yp : tm) : tm * tm := (ap2 FUtPm input yp, ap2 FUtPxy input yp).
Definition s_ukf_upd (pred pm pxy nu out : tm) : tm := Node FUkfUpd [pred; pm; pxy; nu; out].
Definition s_sukf_upd (pred sp yp nu R out : tm) : tm * tm :=
  (Node FSukfUpdG [pred; sp; yp; nu; R; out], Node FSukfUpdYp [yp; nu]).
Definition s_sample (rng g s : tm) : tm * tm := (Node FSampleS [rng; g; s], Node FSampleRng [rng; g]).
Definition s_gpf_wupd (pred : tm * tm) (lk : tm) (corr : tm * tm) : tm :=
  Node FGpfW [fst pred; snd pred; lk; fst corr; snd corr].

Definition s_kf_step := @kf_step tm tm tm tm tm tm tm (ap1 FKfPx) s_kf_upd.
Definition s_kf_get_lik := @kf_get_lik tm tm tm (ap2 FKfLik).
Definition s_ukf_step := @ukf_step tm tm tm tm tm tm tm tm (ap1 FSigma) s_ut_moments (leaf FPmDefault) (leaf FPxyEmpty)
                                   (ap2 FPmAddNoise) (ap2 FAugment) (ap1 FPmMean) s_ukf_upd.
Definition s_ukf_get_lik := @ukf_get_lik tm tm tm (ap2 FUkfLik).
Definition s_sukf_step := @sukf_step tm tm tm tm tm tm (ap1 FSigma) (ap1 FSukfMean) s_sukf_upd.
Definition s_sukf_get_lik := @sukf_get_lik tm tm tm tm tm tm (fun nu yp R => Node FSukfLik [nu; yp; R]).
Definition s_gl := @gl_likelihood tm tm tm tm tm tm tm (ap1 FStPx) (ap2 FGlDens).
Definition s_boot_step := @boot_step tm tm tm tm tm tm tm tm (ap1 FStPx) (ap2 FGlDens) (leaf FZero1) (ap2 FBootW).
Definition s_gpf_step (GS : Type) := @gpf_step tm tm tm tm tm tm tm tm tm (ap1 FStPx) (ap2 FGlDens) (leaf FZero1) GS s_sample s_gpf_wupd.

(* ------------------------------------------------------------------ runs *)
(* one observed step: output object (mixture part, state part or IEmpty),
   call log of correct(), result of getLikelihood() and its call log *)
Record obs := mkObs { o_g : tm; o_s : tm; o_log : list site; o_lik : bool * tm; o_liklog : list site }.

Definition opt_pair (o : option tm) : bool * tm :=
  match o with Some l => (true, l) | None => (false, leaf IEmpty) end.

(* run configuration: skip_ of the driven correction, skip_ of the correction wrapped by
   GPF, whether a failing getNoiseCovarianceMatrix returns an empty matrix next to its false
   flag, whether one object is passed as predicted and corrected belief *)
Record cfg := mkCfg { c_skip : bool; c_iskip : bool; c_emptyR : bool; c_alias : bool }.
Definition cfg0 := mkCfg false false false false.

Definition sinj (c : cfg) (p : pattern) (k : nat) : mmodel tm tm tm tm tm :=
  if c_emptyR c then inject_g (leaf IGarbageR) p (smm k) else inject p (smm k).

(* a Gaussian correction object driven through a sequence of patterns; the
   output object of step k is the in-out argument of step k+1 (aliased: the
   predicted object itself) *)
Section GaussRun.
Variable GS : Type.
Variable step : pattern -> nat -> tm -> tm -> GS -> result tm GS.
Variable getlik : pattern -> nat -> GS -> option tm * list site.

Fixpoint gauss_run_cfg (c : cfg) (pats : list (list bool)) (k : nat) (out : tm) (st : GS) : list obs :=
  match pats with
  | [] => []
  | b :: rest =>
    let p := pat_of b in
    let pred := leaf (IPredG k) in
    let r := correct_wrapper (c_skip c) (step p k) pred (if c_alias c then pred else out) st in
    let '(lk, ll) := getlik p k (r_st r) in
    mkObs (r_out r) (leaf IEmpty) (r_log r) (opt_pair lk) ll :: gauss_run_cfg c rest (S k) (r_out r) (r_st r)
  end.
Definition gauss_run := gauss_run_cfg cfg0.
End GaussRun.

Definition kf_st0 : kf_state tm tm := mkKfSt None (leaf IPy0).
Definition ukf_st0 : ukf_state tm tm := mkUkfSt None (leaf IPm0).
Definition sukf_st0 : sukf_state tm tm := mkSukfSt None None.

Definition run_kf_cfg (c : cfg) (pats : list (list bool)) : list obs :=
  gauss_run_cfg _ (fun p k => s_kf_step (sinj c p k)) (fun _ _ st => (s_kf_get_lik st, [])) c pats 0 (leaf IOutG) kf_st0.
Definition run_kf := run_kf_cfg cfg0.

Definition run_ukf_cfg (c : cfg) (additive : bool) (pats : list (list bool)) : list obs :=
  gauss_run_cfg _ (fun p k => s_ukf_step additive (sinj c p k)) (fun _ _ st => (s_ukf_get_lik st, []))
            c pats 0 (leaf IOutG) ukf_st0.
Definition run_ukf := run_ukf_cfg cfg0.

Definition run_sukf_cfg (c : cfg) (sub_ok : bool) (ncalls lcalls : nat) (pats : list (list bool)) : list obs :=
  gauss_run_cfg _ (fun p k => s_sukf_step sub_ok ncalls (sinj c p k))
            (fun p k st => s_sukf_get_lik lcalls (sinj c p k) st) c pats 0 (leaf IOutG) sukf_st0.
Definition run_sukf := run_sukf_cfg cfg0.

(* GaussianLikelihood::likelihood on its own *)
Definition run_gl_cfg (c : cfg) (pats : list (list bool)) : list obs :=
  let fix go pats k :=
    match pats with
    | [] => []
    | b :: rest =>
      let '(o, l) := s_gl (sinj c (pat_of b) k) (leaf (IPredS k)) in
      mkObs (leaf IEmpty) (leaf IEmpty) l (lik_pair (leaf FZero1) o) [] :: go rest (S k)
    end in go pats 0.
Definition run_gl := run_gl_cfg cfg0.

Definition s_lm (custom : bool) (k : nat) : likmodel tm tm :=
  if custom then LCustom (fun s => (true, ap2 FCustomLik s (leaf (IY k)))) else LGauss.
Definition s_inject_lik := @inject_lik tm tm (leaf FZero1).

(* GPFCorrection makes its calls in two phases: the wrapped Gaussian correction,
   then the likelihood.  A 6-bit pattern applies to both; with 12 bits the second
   six are the pattern seen during the likelihood phase (the same measurement
   model object may answer differently at the later calls). *)
Definition pat2_of (bits : list bool) : pattern := fun s => nth (6 + nat_of_site s) bits (pat_of bits s).

Section PfRun.
Variable GS : Type.
Variable step : list bool -> nat -> tm * tm -> tm * tm -> GS -> result (tm * tm) GS.
Variable getlik : GS -> bool * tm.

Fixpoint pf_run_cfg (c : cfg) (pats : list (list bool)) (k : nat) (out : tm * tm) (st : GS) : list obs :=
  match pats with
  | [] => []
  | b :: rest =>
    let pred := (leaf (IPredG k), leaf (IPredS k)) in
    let r := correct_wrapper (c_skip c) (step b k) pred (if c_alias c then pred else out) st in
    mkObs (fst (r_out r)) (snd (r_out r)) (r_log r) (getlik (r_st r)) [] :: pf_run_cfg c rest (S k) (r_out r) (r_st r)
  end.
End PfRun.

Definition pf_st0 : pf_state tm := mkPfSt false (leaf IEmpty).

Definition run_boot_cfg (c : cfg) (custom : bool) (pats : list (list bool)) : list obs :=
  pf_run_cfg _ (fun b k => s_boot_step (s_inject_lik (pat_of b) (s_lm custom k)) (sinj c (pat_of b) k)) pf_get_lik
         c pats 0 (leaf IOutG, leaf IOutS) pf_st0.
Definition run_boot := run_boot_cfg cfg0.

Definition s_gpf_step_aliased (GS : Type) :=
  @gpf_step_aliased tm tm tm tm tm tm tm tm tm (ap1 FStPx) (ap2 FGlDens) (leaf FZero1) GS s_sample s_gpf_wupd.

Definition run_gpf_with (GS : Type) (gc : pattern -> nat -> tm -> tm -> GS -> result tm GS) (gs0 : GS)
           (c : cfg) (custom : bool) (pats : list (list bool)) : list obs :=
  pf_run_cfg _ (fun b k pred out st =>
                  let gcw := correct_wrapper (c_iskip c) (gc (pat_of b) k) in
                  let lm := s_inject_lik (pat2_of b) (s_lm custom k) in
                  let mm := sinj c (pat2_of b) k in
                  if c_alias c then s_gpf_step_aliased GS gcw lm mm pred st
                  else s_gpf_step GS gcw lm mm pred out st)
         (fun st => pf_get_lik (g_pf st)) c pats 0 (leaf IOutG, leaf IOutS) (mkGpfSt pf_st0 gs0 (leaf IRng)).

(* inner: 0 = KF, 1 = UKF generic, 2 = UKF additive, 3 = SUKF *)
Definition run_gpf_cfg (c : cfg) (inner : nat) (sub_ok : bool) (ncalls : nat) (custom : bool) (pats : list (list bool)) : list obs :=
  match inner with
  | 0 => run_gpf_with _ (fun p k => s_kf_step (sinj c p k)) kf_st0 c custom pats
  | 1 => run_gpf_with _ (fun p k => s_ukf_step false (sinj c p k)) ukf_st0 c custom pats
  | 2 => run_gpf_with _ (fun p k => s_ukf_step true (sinj c p k)) ukf_st0 c custom pats
  | _ => run_gpf_with _ (fun p k => s_sukf_step sub_ok ncalls (sinj c p k)) sukf_st0 c custom pats
  end.
Definition run_gpf (inner : nat) (custom : bool) := run_gpf_cfg cfg0 inner true 0 custom.

(* SIS::filtering_step, one call (step 0, no resampling): kept for the examples *)
Definition pr2 (cg cs : con) (a b : tm * tm) : tm * tm :=
  (Node cg [fst a; snd a; fst b; snd b], Node cs [fst a; snd a; fst b; snd b]).
Definition pr1 (cg cs : con) (a : tm * tm) : tm * tm := (Node cg [fst a; snd a], Node cs [fst a; snd a]).

Definition s_sis_step := @sis_step tm tm (pr2 FSisPredG FSisPredS) (pr2 FSisCorG FSisCorS) (pr1 FSisNormG FSisNormS)
                                   (fun _ => false) (pr1 FSisResG FSisResS).

Definition run_sis (bits : list bool) (step : nat) : (tm * tm) * (tm * tm) * list sis_event :=
  s_sis_step (mm_freeze (inject (pat_of bits) (smm 0))) step ((leaf (IPredG 0), leaf (IPredS 0)), (leaf IOutG, leaf IOutS)).

(* SIS driven through several filtering steps with a BootstrapCorrection over the
   GaussianLikelihood as correction: per step the pattern and whether the
   resampling test fires (an input: it depends on the numerical weights).
   Events: the filter's own (predict, freeze, correct, normalise, resample) with the
   measurement-model calls of the correction after EvCorrect. *)
Record sis_obs := mkSisObs { so_pred : tm * tm; so_cor_at_log : tm * tm; so_cor : tm * tm;
                             so_events : list (sis_event + site) }.

Fixpoint sis_run (steps : list (list bool * bool)) (k : nat) (pc : (tm * tm) * (tm * tm)) : list sis_obs :=
  match steps with
  | [] => []
  | (b, deg) :: rest =>
    let p := pat_of b in
    let mm := inject p (smm k) in
    let correct := fun pred cor => r_out (s_boot_step LGauss mm pred cor pf_st0) in
    let '(pred, cor, evs) :=
      @sis_step tm tm (pr2 FSisPredG FSisPredS) correct (pr1 FSisNormG FSisNormS) (fun _ => deg)
                (pr1 FSisResG FSisResS) (mm_freeze mm) k pc in
    let at_log := @sis_cor_at_log tm tm (pr2 FSisPredG FSisPredS) correct (pr1 FSisNormG FSisNormS) (mm_freeze mm) k pc in
    let clog := r_log (s_boot_step LGauss mm pred (snd pc) pf_st0) in
    let evs' := flat_map (fun e => match e with
                                   | EvCorrect => inl EvCorrect :: map inr clog
                                   | _ => [inl e] end) evs in
    mkSisObs pred at_log cor evs' :: sis_run rest (S k) (pred, cor)
  end.
Definition run_sis_seq (steps : list (list bool * bool)) : list sis_obs :=
  sis_run steps 0 ((leaf (IPredG 0), leaf (IPredS 0)), (leaf IOutG, leaf IOutS)).

(* term equality, for the examples *)
Definition con_code (c : con) : nat * nat :=
  match c with
  | IPredG k => (0, k) | IPredS k => (1, k) | IY k => (2, k) | IR => (3, 0) | IOutG => (4, 0) | IOutS => (5, 0)
  | IRng => (6, 0) | IPy0 => (7, 0) | IPm0 => (8, 0) | IEmpty => (9, 0)
  | FH => (10, 0) | FInn => (11, 0) | FCustomLik => (12, 0)
  | FKfPx => (13, 0) | FKfUpdG => (14, 0) | FKfUpdPy => (15, 0) | FKfLik => (16, 0)
  | FSigma => (17, 0) | FUtPm => (18, 0) | FUtPxy => (19, 0) | FPmDefault => (20, 0) | FPxyEmpty => (21, 0)
  | FPmAddNoise => (22, 0) | FAugment => (23, 0) | FPmMean => (24, 0) | FUkfUpd => (25, 0) | FUkfLik => (26, 0)
  | FSukfMean => (27, 0) | FSukfUpdG => (28, 0) | FSukfUpdYp => (29, 0) | FSukfLik => (30, 0)
  | FStPx => (31, 0) | FGlDens => (32, 0) | FZero1 => (33, 0) | FBootW => (34, 0) | FSampleS => (35, 0)
  | FSampleRng => (36, 0) | FGpfW => (37, 0)
  | FSisPredG => (38, 0) | FSisPredS => (39, 0) | FSisCorG => (40, 0) | FSisCorS => (41, 0)
  | FSisNormG => (42, 0) | FSisNormS => (43, 0) | FSisResG => (44, 0) | FSisResS => (45, 0)
  | IGarbageR => (46, 0)
  end.
Definition con_eqb (a b : con) : bool :=
  Nat.eqb (fst (con_code a)) (fst (con_code b)) && Nat.eqb (snd (con_code a)) (snd (con_code b)).

Fixpoint tm_eqb (a b : tm) : bool :=
  match a, b with
  | Node c l, Node d m =>
    con_eqb c d &&
    (fix go (l m : list tm) : bool :=
       match l, m with
       | [], [] => true
       | x :: l', y :: m' => tm_eqb x y && go l' m'
       | _, _ => false
       end) l m
  end.
