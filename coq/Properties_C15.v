(* Properties_C15.v — property C15: the Gaussian density utilities agree with
   their definition and with each other; log-sum-exp.  Statements only; each is
   closed by a lemma of C15_RProofs (log_sum_exp, over Coq's reals: the four
   standard real-number axioms) or C15_Proofs (densities, over any
   realFieldType with ln/exp/pi uninterpreted: no axioms). *)
Require Import ZArith QArith Reals List.
Require Import BFL.Ops BFL.ListOps BFL.Density BFL.C15_Model.
Require Import BFL.C19_ROps BFL.C15_ROps BFL.C15_RProofs.

(* ================================================================== *)
(* World B: utils::log_sum_exp (utils.h:71-77), the model function lse  *)
Section C15_lse.
Import ListNotations.
Local Open Scope R_scope.
Variables (x0 : R) (l : list R).       (* the data: a non-empty vector x0 :: l *)

(* log_sum_exp(x) = ln (sum_i exp x_i) *)
Theorem C15_lse_spec : lse (Sc:=ROps) x0 l = ln (sumR (map exp (x0 :: l))).
Proof. exact (lse_spec x0 l). Qed.

(* adding a constant to every entry adds it to the result *)
Theorem C15_lse_shift (c : R) :
  lse (Sc:=ROps) (x0 + c) (map (fun a => a + c) l) = lse (Sc:=ROps) x0 l + c.
Proof. exact (lse_shift x0 l c). Qed.

(* the value subtracted (data.maxCoeff()) is an entry and dominates every entry *)
Theorem C15_lse_max_is_entry :
  In (smaxl ROps x0 l) (x0 :: l) /\ forall a, In a (x0 :: l) -> a <= smaxl ROps x0 l.
Proof. exact (smaxl_R_spec x0 l). Qed.

(* no overflow, whatever the magnitude of the entries: every argument of exp is
   <= 0, one of them is 0, so the argument of ln lies in [1, n] *)
Theorem C15_lse_no_overflow :
  let sh := lse_shifted (Sc:=ROps) x0 l in
  (forall e, In e sh -> e <= 0) /\ In 0 sh /\
  1 <= sumR (map exp sh) <= INR (length (x0 :: l)) /\
  lse (Sc:=ROps) x0 l = smaxl ROps x0 l + ln (sumR (map exp sh)).
Proof. exact (lse_no_overflow x0 l). Qed.
End C15_lse.

(* entries -inf (NInf) beside at least one finite entry: the same model function at
   the extended instance EOps returns the finite value ln (sum over the finite
   entries of exp x_i); "= Fin _" excludes +inf and NaN (Bad is absorbing), and
   every argument of exp is -inf or a real <= 0 *)
Theorem C15_lse_neginf (e0 : ext) (el : list ext) :
  no_bad (e0 :: el) -> fins (e0 :: el) <> nil ->
  lse (Sc:=EOps) e0 el = Fin (ln (sumR (map exp (fins (e0 :: el))))) /\
  forall e, In e (lse_shifted (Sc:=EOps) e0 el) ->
            e = NInf \/ exists r, e = Fin r /\ (r <= 0)%R.
Proof. exact (lse_neginf e0 el). Qed.

(* shift law with -inf entries present (finite shift c; -inf + c = -inf) *)
Theorem C15_lse_neginf_shift (e0 : ext) (el : list ext) (c : R) :
  no_bad (e0 :: el) -> fins (e0 :: el) <> nil ->
  lse (Sc:=EOps) (e_add e0 (Fin c)) (map (fun a => e_add a (Fin c)) el)
  = e_add (lse (Sc:=EOps) e0 el) (Fin c).
Proof. exact (lse_neginf_shift e0 el c). Qed.

(* the premise "at least one finite entry" cannot be dropped: all -inf gives NaN *)
Theorem C15_lse_all_neginf_is_nan (el : list ext) :
  (forall a, In a el -> a = NInf) -> lse (Sc:=EOps) NInf el = Bad.
Proof. exact (lse_all_neginf el). Qed.

Example C15_lse_premises_satisfiable :
  no_bad (NInf :: Fin 1 :: NInf :: Fin (-10000) :: nil) /\
  fins (NInf :: Fin 1 :: NInf :: Fin (-10000) :: nil) = (1 :: (-10000) :: nil)%R.
Proof. split; [intros a [<-|[<-|[<-|[<-|[]]]]]; discriminate | reflexivity]. Qed.

(* ================================================================== *)
(* World A: the density utilities (utils.h:296-450)                     *)
From mathcomp Require Import all_ssreflect all_algebra.
Require Import BFL.MxOps BFL.LinAlg BFL.C15_Proofs.
Import GRing.Theory.
Local Open Scope ring_scope.

Section C15_algebra.
Variable F : realFieldType.
Variables (d k : nat) (R : 'M[F]_d) (U : 'M[F]_(d,k)) (V : 'M[F]_(k,d)).
Hypothesis uR : R \in unitmx.

(* matrix determinant lemma, general U : d x k, V : k x d *)
Theorem C15_det_lemma : \det (U *m V + R) = \det R * \det (1%:M + V *m invmx R *m U).
Proof. exact: det_lemma. Qed.

Hypothesis uS : U *m V + R \in unitmx.

(* derived: the k x k matrix the code inverts is invertible *)
Theorem C15_capacitance_invertible : 1%:M + V *m invmx R *m U \in unitmx.
Proof. exact: capacitance_unit. Qed.

(* Woodbury identity, as a quadratic form *)
Theorem C15_woodbury (x : 'cV[F]_d) :
  x^T *m invmx (U *m V + R) *m x =
  x^T *m invmx R *m (1%:M - U *m invmx (1%:M + V *m invmx R *m U) *m (V *m invmx R)) *m x.
Proof. exact: woodbury_quadform. Qed.
End C15_algebra.

Section C15_density.
Variable F : realFieldType.
Variable tr : Transc F.
Variable sq : forall n, 'M[F]_n -> 'M[F]_n.
Variable eg : forall n, 'M[F]_n -> 'M[F]_(n,1).
Let O := MxMat tr sq eg.

(* num_blocks nb, block_size bs > 0, input size d = nb * bs, k columns of U, batch b *)
Variables (bs nb k b : nat).
Hypothesis bs0 : (0 < bs)%N.
Notation d := (nb * bs)%N.
Variables (input : M O d b) (mean : M O d 1) (U : M O d k) (V : M O k d).

(* block t of R as the code reads it (C15_Proofs.blk): R itself when R.cols() = block_size,
   else R.block(0, bs*t, bs, bs) *)
Notation blk R := (blk (tr:=tr) (sq:=sq) (eg:=eg) R).

(* what the assembled block-diagonal matrix is, entry by entry *)
Theorem C15_blockdiag_entries rc (R : M O bs rc) (i j : 'I_d) :
  (blockdiag (O:=O) d R : 'M[F]_d) i j =
  if (i %/ bs == j %/ bs)%N then mx_get (blk R (i %/ bs)%N) (i %% bs)%N (j %% bs)%N else 0.
Proof. exact: blockdiag_entry. Qed.

(* its inverse is assembled from the code's inv_R (same side-by-side layout) *)
Theorem C15_blockdiag_inverse rc (R : M O bs rc) :
  (forall t, (t < nb)%N -> blk R t \in unitmx) ->
  (blockdiag (O:=O) d R : 'M[F]_d) \in unitmx /\
  invmx (blockdiag (O:=O) d R : 'M[F]_d) = blockdiag (O:=O) d (uvr_inv_R (O:=O) d nb R).
Proof. exact: blockdiag_inverse. Qed.

(* its determinant is the code's det_R (pow for a shared block, running product otherwise) *)
Theorem C15_blockdiag_det rc (R : M O bs rc) :
  \det (blockdiag (O:=O) d R : 'M[F]_d) = uvr_det_R (O:=O) nb R.
Proof. exact: blockdiag_det. Qed.

(* det_S of the factorised form is det (U V + blockdiag R) *)
Theorem C15_uvr_det rc (R : M O bs rc) :
  (forall t, (t < nb)%N -> blk R t \in unitmx) ->
  uvr_det_S (O:=O) U V R = \det (assembled_S (O:=O) U V R : 'M[F]_d).
Proof. move=> uB; exact: uvr_det_S_eq. Qed.

(* the factorised log-density equals the direct one on the assembled covariance,
   per evaluation point, for any width rc of R *)
Theorem C15_uvr_eq_direct rc (R : M O bs rc) :
  (forall t, (t < nb)%N -> blk R t \in unitmx) ->
  (assembled_S (O:=O) U V R : 'M[F]_d) \in unitmx ->
  forall i, (i < b)%N ->
    List.nth i (log_density_uvr (O:=O) input mean U V R) 0 =
    log_density (O:=O) (mcol (O:=O) i input) mean (assembled_S (O:=O) U V R).
Proof. move=> uB uS i ib; exact: uvr_eq_direct. Qed.

(* R = all diagonal blocks side by side (bs x nb*bs) *)
Theorem C15_uvr_eq_direct_per_block (R : M O bs d) :
  (forall t, (t < nb)%N -> (uvr_R_block (O:=O) R t : 'M[F]_bs) \in unitmx) ->
  (assembled_S (O:=O) U V R : 'M[F]_d) \in unitmx ->
  forall i, (i < b)%N ->
    List.nth i (log_density_uvr (O:=O) input mean U V R) 0 =
    log_density (O:=O) (mcol (O:=O) i input) mean (assembled_S (O:=O) U V R).
Proof. exact: uvr_eq_direct_per_block. Qed.

(* R = one block shared by all diagonal positions (bs x bs) *)
Theorem C15_uvr_eq_direct_shared (R : M O bs bs) :
  (R : 'M[F]_bs) \in unitmx ->
  (assembled_S (O:=O) U V R : 'M[F]_d) \in unitmx ->
  forall i, (i < b)%N ->
    List.nth i (log_density_uvr (O:=O) input mean U V R) 0 =
    log_density (O:=O) (mcol (O:=O) i input) mean (assembled_S (O:=O) U V R).
Proof. exact: uvr_eq_direct_shared. Qed.

(* the common use, V = U^T with symmetric positive definite blocks (any encoding):
   the assembled covariance is SPD and every premise above is derived *)
Theorem C15_sym_factor_assembled_spd rc (R : M O bs rc) :
  (forall t, (t < nb)%N -> spd (blk R t)) ->
  spd (assembled_S (O:=O) U (mtr (m:=d) (n:=k) U) R : 'M[F]_d).
Proof. exact: assembled_sym_factor_spd. Qed.

Theorem C15_uvr_eq_direct_sym_factor rc (R : M O bs rc) :
  (forall t, (t < nb)%N -> spd (blk R t)) ->
  forall i, (i < b)%N ->
    List.nth i (log_density_uvr (O:=O) input mean U (mtr (m:=d) (n:=k) U) R) 0 =
    log_density (O:=O) (mcol (O:=O) i input) mean (assembled_S (O:=O) U (mtr (m:=d) (n:=k) U) R).
Proof. exact: uvr_eq_direct_sym_factor. Qed.

(* the k x k matrix the factorised form inverts is invertible (derived) *)
Theorem C15_uvr_capacitance_invertible rc (R : M O bs rc) :
  (forall t, (t < nb)%N -> blk R t \in unitmx) ->
  (assembled_S (O:=O) U V R : 'M[F]_d) \in unitmx ->
  (uvr_I_V_inv_R_U (O:=O) (uvr_V_inv_R (O:=O) V (uvr_inv_R (O:=O) d nb R)) U : 'M[F]_k) \in unitmx.
Proof. move=> uB uS; exact: uvr_capacitance_unit. Qed.

(* the arguments of ln are positive, derived from positive definiteness (ln itself is
   uninterpreted here; in the float/real reading it is applied inside its domain):
   direct form, factorised form, det_R, and the V = U^T case with no premise on S *)
Theorem C15_direct_logdet_guard (cov : M O d d) : spd (cov : 'M[F]_d) -> 0 < (mdet cov : F).
Proof. exact: direct_logdet_guard. Qed.

Theorem C15_uvr_logdet_guard rc (R : M O bs rc) :
  (forall t, (t < nb)%N -> blk R t \in unitmx) ->
  spd (assembled_S (O:=O) U V R : 'M[F]_d) -> 0 < (uvr_det_S (O:=O) U V R : F).
Proof. exact: uvr_logdet_guard. Qed.

Theorem C15_uvr_det_R_guard rc (R : M O bs rc) :
  (forall t, (t < nb)%N -> spd (blk R t)) -> 0 < (uvr_det_R (O:=O) nb R : F).
Proof. exact: uvr_det_R_guard. Qed.

Theorem C15_uvr_logdet_guard_sym_factor rc (R : M O bs rc) :
  (forall t, (t < nb)%N -> spd (blk R t)) ->
  0 < (uvr_det_S (O:=O) U (mtr (m:=d) (n:=k) U) R : F).
Proof. exact: uvr_logdet_guard_sym_factor. Qed.

(* the clause as worded: the factorised variants return the same values as the direct
   ones for the assembled S -- densities per evaluation point, log-densities as whole lists *)
Theorem C15_density_uvr_eq_direct rc (R : M O bs rc) :
  (forall t, (t < nb)%N -> blk R t \in unitmx) ->
  (assembled_S (O:=O) U V R : 'M[F]_d) \in unitmx ->
  forall i, (i < b)%N ->
    List.nth i (density_uvr (O:=O) input mean U V R) (t_exp tr 0) =
    List.nth i (density_mat (O:=O) input mean (assembled_S (O:=O) U V R)) (t_exp tr 0).
Proof. exact: density_uvr_eq_direct. Qed.

Theorem C15_log_density_uvr_eq_direct_batch rc (R : M O bs rc) :
  (forall t, (t < nb)%N -> blk R t \in unitmx) ->
  (assembled_S (O:=O) U V R : 'M[F]_d) \in unitmx ->
  log_density_uvr (O:=O) input mean U V R =
  log_density_mat (O:=O) input mean (assembled_S (O:=O) U V R).
Proof. exact: log_density_uvr_eq_mat. Qed.

(* densities are the exponentials of the log-densities, entry by entry, one per evaluation point *)
Theorem C15_density_uvr_exp rc (R : M O bs rc) i :
  List.nth i (density_uvr (O:=O) input mean U V R) (t_exp tr 0) =
  t_exp tr (List.nth i (log_density_uvr (O:=O) input mean U V R) 0).
Proof. exact: density_uvr_exp. Qed.

Theorem C15_density_exp (cov : M O d d) i :
  List.nth i (density_mat (O:=O) input mean cov) (t_exp tr 0) =
  t_exp tr (List.nth i (log_density_mat (O:=O) input mean cov) 0).
Proof. exact: density_mat_exp. Qed.

Theorem C15_batch_lengths rc (R : M O bs rc) (cov : M O d d) :
  length (log_density_uvr (O:=O) input mean U V R) = b /\
  length (log_density_mat (O:=O) input mean cov) = b /\
  length (density_uvr (O:=O) input mean U V R) = b /\
  length (density_mat (O:=O) input mean cov) = b.
Proof. exact: batch_lengths. Qed.

(* the direct log-density is -1/2 (d ln 2pi + ln det S + delta^T S^-1 delta), column by column *)
Theorem C15_logdensity_def (cov : M O d d) i (lt : (i < b)%N) :
  let delta := col (Ordinal lt) (input : 'M[F]_(d,b)) - (mean : 'cV[F]_d) in
  List.nth i (log_density_mat (O:=O) input mean cov) 0 =
  - 2%:R^-1 * (d%:R * t_ln tr (2%:R * t_pi tr) + t_ln tr (\det (cov : 'M[F]_d))
               + (delta^T *m invmx (cov : 'M[F]_d) *m delta) 0 0).
Proof. exact: log_density_mat_def. Qed.

(* non-vacuity: identity blocks with U = V = 0 satisfy the premises in every shape *)
Example C15_premises_satisfiable :
  ((1%:M : 'M[F]_bs) \in unitmx) /\
  ((assembled_S (O:=O) (0 : 'M[F]_(d,k)) (0 : 'M[F]_(k,d)) (1%:M : 'M[F]_bs) : 'M[F]_d) \in unitmx).
Proof. exact: premises_example. Qed.

End C15_density.

(* ================================================================== *)
(* The EXECUTED model is the theorem-level model (C15_Transport.v): the list instance
   that is extracted and run (ListOps.v: lists of rows, Gauss-Jordan inverse and
   determinant), over the scalars of any realFieldType, returns on well-formed inputs
   (repr: m rows of n entries, read as the MathComp matrix) exactly the values of the
   MathComp instance the theorems above are about.  Every matrix the factorised form
   inverts -- each diagonal block of R, I + V R^-1 U -- and the assembled S of the direct
   form is proved invertible from the positive-definiteness premises; nothing about the
   Gauss-Jordan routine is assumed (ListGauss.v).                                      *)
Require Import BFL.ListOpsCorrect BFL.C02_Transport BFL.C15_Transport.

Section C15_executed.
Variable F : realFieldType.
Variable tr : Transc F.
Variable sq : forall n, 'M[F]_n -> 'M[F]_n.
Variable eg : forall n, 'M[F]_n -> 'M[F]_(n,1).
Let OL := ListMat (FOps tr) (fun _ X => X) (fun _ X => X).    (* = C15_Extract.c15_O (FOps tr) *)
Let OM := MxMat tr sq eg.
Notation repr m n l A := (@C02_Transport.repr F m n l A) (only parsing).
Variables (bs nb k b : nat).
Hypothesis bs0 : (0 < bs)%N.
Notation d := (nb * bs)%N.
Variables (li : lmxF F) (input : 'M[F]_(d,b)) (lm : lmxF F) (mean : 'cV[F]_d).
Variables (lU : lmxF F) (U : 'M[F]_(d,k)) (lV : lmxF F) (V : 'M[F]_(k,d)).
Hypothesis ri : repr d b li input.
Hypothesis rm : repr d 1 lm mean.
Hypothesis rU : repr d k lU U.
Hypothesis rV : repr k d lV V.
Notation blk R := (blk (tr:=tr) (sq:=sq) (eg:=eg) R).

(* factorised log-density and density, any width rc of R: whole result lists *)
Theorem C15_executed_uvr_is_theorem_model rc lR (R : 'M[F]_(bs,rc)) :
  repr bs rc lR R ->
  (forall t, (t < nb)%N -> spd (blk (R : M OM bs rc) t)) ->
  spd (assembled_S (O:=OM) U V (R : M OM bs rc) : 'M[F]_d) ->
  @log_density_uvr OL d b k bs rc li lm lU lV lR = @log_density_uvr OM d b k bs rc input mean U V R /\
  @density_uvr OL d b k bs rc li lm lU lV lR = @density_uvr OM d b k bs rc input mean U V R.
Proof. move=> rR sB sS; exact: uvr_executed_is_model. Qed.

(* R in full: all diagonal blocks side by side (bs x nb*bs) *)
Theorem C15_executed_uvr_full_R_is_theorem_model lR (R : 'M[F]_(bs,d)) :
  repr bs d lR R ->
  (forall t, (t < nb)%N -> spd (uvr_R_block (O:=OM) (R : M OM bs d) t : 'M[F]_bs)) ->
  spd (assembled_S (O:=OM) U V (R : M OM bs d) : 'M[F]_d) ->
  @log_density_uvr OL d b k bs d li lm lU lV lR = @log_density_uvr OM d b k bs d input mean U V R /\
  @density_uvr OL d b k bs d li lm lU lV lR = @density_uvr OM d b k bs d input mean U V R.
Proof. move=> rR sB sS; exact: uvr_executed_is_model_full_R. Qed.

(* R as one block shared by all diagonal positions (bs x bs) *)
Theorem C15_executed_uvr_shared_R_is_theorem_model lR (R : 'M[F]_bs) :
  repr bs bs lR R -> spd R ->
  spd (assembled_S (O:=OM) U V (R : M OM bs bs) : 'M[F]_d) ->
  @log_density_uvr OL d b k bs bs li lm lU lV lR = @log_density_uvr OM d b k bs bs input mean U V R /\
  @density_uvr OL d b k bs bs li lm lU lV lR = @density_uvr OM d b k bs bs input mean U V R.
Proof. move=> rR sR sS; exact: uvr_executed_is_model_shared_R. Qed.

(* V = U^T: positive definite blocks are the only premise (S is then SPD, derived) *)
Theorem C15_executed_uvr_sym_factor_is_theorem_model rc lR (R : 'M[F]_(bs,rc)) :
  repr bs rc lR R ->
  (forall t, (t < nb)%N -> spd (blk (R : M OM bs rc) t)) ->
  @log_density_uvr OL d b k bs rc li lm lU (@mtr OL d k lU) lR
  = @log_density_uvr OM d b k bs rc input mean U (@mtr OM d k U) R /\
  @density_uvr OL d b k bs rc li lm lU (@mtr OL d k lU) lR
  = @density_uvr OM d b k bs rc input mean U (@mtr OM d k U) R.
Proof. move=> rR sB; exact: uvr_executed_is_model_sym_factor. Qed.

(* end to end: the executed factorised log-density, and the executed direct one applied to the
   executed assembly of S, are the theorem-level direct log-density of S = U V + blockdiag(R)
   (C15_logdensity_def: -1/2 (d ln 2pi + ln det S + delta^T S^-1 delta)), per evaluation point *)
Theorem C15_executed_uvr_is_direct_definition rc lR (R : 'M[F]_(bs,rc)) i :
  repr bs rc lR R ->
  (forall t, (t < nb)%N -> spd (blk (R : M OM bs rc) t)) ->
  spd (assembled_S (O:=OM) U V (R : M OM bs rc) : 'M[F]_d) ->
  (i < b)%N ->
  List.nth i (@log_density_uvr OL d b k bs rc li lm lU lV lR) 0 =
  @log_density OM d (@mcol OM d b i input) mean (@assembled_S OM d k bs rc U V R) /\
  List.nth i (@log_density_mat OL d b li lm (@assembled_S OL d k bs rc lU lV lR)) 0 =
  @log_density OM d (@mcol OM d b i input) mean (@assembled_S OM d k bs rc U V R).
Proof. move=> rR sB sS ib; exact: uvr_executed_is_direct_definition. Qed.

(* the direct forms on a batch, any SPD covariance *)
Theorem C15_executed_direct_is_theorem_model lc (cov : 'M[F]_d) :
  repr d d lc cov -> spd cov ->
  @log_density_mat OL d b li lm lc = @log_density_mat OM d b input mean cov /\
  @density_mat OL d b li lm lc = @density_mat OM d b input mean cov.
Proof. move=> rc sc; exact: direct_executed_is_model. Qed.

End C15_executed.

(* non-vacuity of the premises above, in every shape: identity block, U = V = 0 *)
Example C15_executed_premises_satisfiable (F : realFieldType) (tr : Transc F)
        (sq : forall n, 'M[F]_n -> 'M[F]_n) (eg : forall n, 'M[F]_n -> 'M[F]_(n,1)) bs nb k (bs0 : (0 < bs)%N) :
  let OL := ListMat (FOps tr) (fun _ X => X) (fun _ X => X) in
  let OM := MxMat tr sq eg in
  [/\ @C02_Transport.repr F bs bs (@mid OL bs) (1%:M : 'M[F]_bs),
      @C02_Transport.repr F (nb * bs) k (@mzero OL (nb * bs) k) (0 : 'M[F]_(nb * bs, k)),
      spd (1%:M : 'M[F]_bs) &
      spd (@assembled_S OM (nb * bs) k bs bs (0 : 'M[F]_(nb * bs, k)) (0 : 'M[F]_(k, nb * bs)) (1%:M : 'M[F]_bs) : 'M[F]_(nb * bs))].
Proof. exact: uvr_transport_premises_satisfiable. Qed.

(* the executable instance of the same model over exact rationals (ln, exp are
   the identity there, pi = 3: only congruence matters): factorised = direct on
   the assembled S, with two different 2x2 blocks, V <> U^T, a batch of two points *)
Definition QM := ListMat QOps (fun _ A => A) (fun _ A => A).
Fixpoint qlist_eqb (a b : list Q) : bool :=
  match a, b with
  | nil, nil => true
  | x :: a', y :: b' => Qeq_bool x y && qlist_eqb a' b'
  | _, _ => false
  end.

Example C15_concrete_per_block_Q :
  let input := [:: [:: 1#1; 0#1]; [:: 2#1; -1#1]; [:: 0#1; 3#1]; [:: -1#2; 1#1]]%Q in
  let mean := [:: [:: 1#2]; [:: 1#1]; [:: 0#1]; [:: -1#1]]%Q in
  let Um := [:: [:: 1#1]; [:: 2#1]; [:: 0#1]; [:: -1#1]]%Q in
  let Vm := [:: [:: 1#1; 1#2; 0#1; 1#3]]%Q in
  let Rm := [:: [:: 2#1; 1#1; 3#1; 0#1]; [:: 1#1; 3#1; 0#1; 5#1]]%Q in
  let S := @assembled_S QM 4 1 2 4 Um Vm Rm in
  qmx_eqb S [:: [:: 3#1; 3#2; 0#1; 1#3]; [:: 3#1; 4#1; 0#1; 2#3];
                [:: 0#1; 0#1; 3#1; 0#1]; [:: -1#1; -1#2; 0#1; 14#3]]%Q
  && qlist_eqb (@log_density_uvr QM 4 2 1 2 4 input mean Um Vm Rm)
               (@log_density_mat QM 4 2 input mean S) = true.
Proof. vm_compute. reflexivity. Qed.

(* shared encoding: one 2x2 block for three diagonal positions, k = 2 *)
Example C15_concrete_shared_Q :
  let input := [:: [:: 1#1]; [:: 0#1]; [:: 2#1]; [:: -1#1]; [:: 1#3]; [:: 0#1]]%Q in
  let mean := [:: [:: 0#1]; [:: 1#1]; [:: 1#1]; [:: 0#1]; [:: 0#1]; [:: 2#1]]%Q in
  let Um := [:: [:: 1#1; 0#1]; [:: 0#1; 1#1]; [:: 1#1; 1#1]; [:: 0#1; 0#1]; [:: 2#1; 0#1]; [:: 0#1; -1#1]]%Q in
  let Vm := [:: [:: 1#1; 0#1; 1#1; 0#1; 2#1; 0#1]; [:: 0#1; 1#1; 1#1; 0#1; 0#1; -1#1]]%Q in
  let Rm := [:: [:: 2#1; 1#1]; [:: 1#1; 1#1]]%Q in
  let S := @assembled_S QM 6 2 2 2 Um Vm Rm in
  qlist_eqb (@log_density_uvr QM 6 1 2 2 2 input mean Um Vm Rm)
            (@log_density_mat QM 6 1 input mean S) = true.
Proof. vm_compute. reflexivity. Qed.

(* the executable inverse / determinant of the list instance (Gauss-Jordan with partial
   pivoting, ListOps.linv / ldet -- what the correspondence check runs in doubles) against
   exact rational results, sizes 1..6, with zero leading entries so that rows are swapped *)
Example C15_gauss_jordan_exact_Q :
  let A1 := [:: [:: -1#1]]%Q in
  let A2 := [:: [:: 0#1; -2#1]; [:: -4#1; -1#1]]%Q in
  let A3 := [:: [:: 0#1; 1#3; 1#2]; [:: 1#1; 0#1; -1#2]; [:: 1#1; 0#1; -1#3]]%Q in
  let A4 := [:: [:: 0#1; -1#1; 1#3; 1#3]; [:: 2#1; 0#1; -1#1; 4#1]; [:: -2#1; 4#3; -2#1; -1#1]; [:: -4#1; 3#2; 2#1; -1#1]]%Q in
  let A5 := [:: [:: 0#1; 0#1; -1#1; 2#3; 1#3]; [:: -3#2; 0#1; -1#1; 2#3; -2#1]; [:: -3#2; -3#1; 3#1; 0#1; 1#1]; [:: 3#1; 4#1; 3#1; 3#1; 3#2]; [:: -3#1; -2#1; 2#3; 1#1; 0#1]]%Q in
  let A6 := [:: [:: 0#1; 2#3; -2#1; 2#1; -1#1; -1#3]; [:: 2#1; 0#1; 1#3; 1#1; 1#1; 1#1]; [:: -2#1; 1#1; -1#1; -3#2; 1#3; 4#3]; [:: -1#1; -4#1; -2#3; -2#1; 2#1; 1#3]; [:: -1#1; 4#3; -1#1; 1#1; -2#1; 1#1]; [:: 0#1; -2#1; 3#1; -3#1; 0#1; -1#1]]%Q in
  let ok n A D := qmx_eqb (lmul QOps n n n A (linv QOps n A)) (lid QOps n)
                  && qmx_eqb (lmul QOps n n n (linv QOps n A) A) (lid QOps n)
                  && Qeq_bool (ldet QOps n A) D in
  ok 1%N A1 (-1#1)%Q && ok 2%N A2 (-8#1)%Q && ok 3%N A3 (-1#18)%Q && ok 4%N A4 (-376#9)%Q
  && ok 5%N A5 (-2419#36)%Q && ok 6%N A6 (2299#27)%Q = true.
Proof. vm_compute. reflexivity. Qed.

Print Assumptions C15_lse_spec.
Print Assumptions C15_lse_shift.
Print Assumptions C15_lse_max_is_entry.
Print Assumptions C15_lse_no_overflow.
Print Assumptions C15_lse_neginf.
Print Assumptions C15_lse_neginf_shift.
Print Assumptions C15_lse_all_neginf_is_nan.
Print Assumptions C15_det_lemma.
Print Assumptions C15_capacitance_invertible.
Print Assumptions C15_woodbury.
Print Assumptions C15_blockdiag_entries.
Print Assumptions C15_blockdiag_inverse.
Print Assumptions C15_blockdiag_det.
Print Assumptions C15_uvr_det.
Print Assumptions C15_uvr_eq_direct.
Print Assumptions C15_uvr_eq_direct_per_block.
Print Assumptions C15_uvr_eq_direct_shared.
Print Assumptions C15_sym_factor_assembled_spd.
Print Assumptions C15_uvr_eq_direct_sym_factor.
Print Assumptions C15_uvr_capacitance_invertible.
Print Assumptions C15_direct_logdet_guard.
Print Assumptions C15_uvr_logdet_guard.
Print Assumptions C15_uvr_det_R_guard.
Print Assumptions C15_uvr_logdet_guard_sym_factor.
Print Assumptions C15_density_uvr_eq_direct.
Print Assumptions C15_log_density_uvr_eq_direct_batch.
Print Assumptions C15_density_uvr_exp.
Print Assumptions C15_density_exp.
Print Assumptions C15_batch_lengths.
Print Assumptions C15_logdensity_def.
Print Assumptions C15_executed_uvr_is_theorem_model.
Print Assumptions C15_executed_uvr_full_R_is_theorem_model.
Print Assumptions C15_executed_uvr_shared_R_is_theorem_model.
Print Assumptions C15_executed_uvr_sym_factor_is_theorem_model.
Print Assumptions C15_executed_uvr_is_direct_definition.
Print Assumptions C15_executed_direct_is_theorem_model.
