(* C12_Struct.v — "no partial update of any component, mean, covariance or weight", spelled out for the
   classes C12_Proofs states it for by remark only (unscented, serial unscented, bootstrap): with the belief given its
   structure -- a list of (mean, covariance, weight) components plus the shape descriptors, for the particle classes
   also the list of states -- the identity theorems say that every part of every component is the predicted one. *)
Require Import List Bool.
Require Import BFL.C12_Model BFL.C12_Proofs.
Import ListNotations.

Lemma ukf_no_partial_update (Mn Cv Wt Sh Y X YP NU RC PM PXY : Type)
      (sigma_of : list (Mn * Cv * Wt) * Sh -> X) ut_moments (pm_default : PM) (pxy_empty : PXY) pm_add_noise ukf_augment pm_mean ukf_upd
      (additive : bool) (p : pattern) (mm : mmodel Y X YP NU RC) pred out (st : ukf_state NU PM) :
  fails_any p sites3 = true ->
  let o := r_out (ukf_step sigma_of ut_moments pm_default pxy_empty pm_add_noise ukf_augment pm_mean ukf_upd additive (inject p mm) pred out st) in
  length (fst o) = length (fst pred) /\ snd o = snd pred /\
  forall i d, fst (fst (nth i (fst o) d)) = fst (fst (nth i (fst pred) d)) /\
              snd (fst (nth i (fst o) d)) = snd (fst (nth i (fst pred) d)) /\
              snd (nth i (fst o) d) = snd (nth i (fst pred) d).
Proof.
  intros Hf o. apply whole_object_is_componentwise. unfold o.
  exact (proj1 (ukf_identity _ _ _ _ _ _ _ _ sigma_of ut_moments pm_default pxy_empty pm_add_noise ukf_augment pm_mean ukf_upd additive p mm pred out st Hf)).
Qed.

Lemma sukf_no_partial_update (Mn Cv Wt Sh Y X YP NU RC : Type)
      (sigma_of : list (Mn * Cv * Wt) * Sh -> X) sukf_pred_mean sukf_upd
      (sub_ok : bool) ncalls (p : pattern) (mm : mmodel Y X YP NU RC) pred out (st : sukf_state YP NU) :
  fails_any p sites3 = true \/ sub_ok = false ->
  let o := r_out (sukf_step sigma_of sukf_pred_mean sukf_upd sub_ok ncalls (inject p mm) pred out st) in
  length (fst o) = length (fst pred) /\ snd o = snd pred /\
  forall i d, fst (fst (nth i (fst o) d)) = fst (fst (nth i (fst pred) d)) /\
              snd (fst (nth i (fst o) d)) = snd (fst (nth i (fst pred) d)) /\
              snd (nth i (fst o) d) = snd (nth i (fst pred) d).
Proof.
  intros Hf o. apply whole_object_is_componentwise. unfold o.
  exact (proj1 (sukf_identity _ _ _ _ _ _ sigma_of sukf_pred_mean sukf_upd sub_ok ncalls p mm pred out st Hf)).
Qed.

(* bootstrap: every component, the shape descriptors, every weight and every particle state *)
Lemma boot_no_partial_update (Mn Cv Wt Sh Sx Y X YP NU RC LK : Type)
      st_px gl_dens (z : LK) boot_wupd (lm : likmodel (list Sx) LK) (p : pattern)
      (mm : mmodel Y X YP NU RC) (pred out : pset (list (Mn * Cv * Wt) * Sh) (list Sx)) (st : pf_state LK) :
  lik_fails _ _ lm p = true ->
  let o := r_out (boot_step st_px gl_dens z boot_wupd (inject_lik z p lm) (inject p mm) pred out st) in
  length (fst (fst o)) = length (fst (fst pred)) /\ snd (fst o) = snd (fst pred) /\
  (forall i d, fst (fst (nth i (fst (fst o)) d)) = fst (fst (nth i (fst (fst pred)) d)) /\
               snd (fst (nth i (fst (fst o)) d)) = snd (fst (nth i (fst (fst pred)) d)) /\
               snd (nth i (fst (fst o)) d) = snd (nth i (fst (fst pred)) d)) /\
  length (snd o) = length (snd pred) /\ (forall i d, nth i (snd o) d = nth i (snd pred) d).
Proof.
  intros Hf o.
  assert (E : o = pred) by exact (proj1 (boot_identity _ _ _ _ _ _ _ _ st_px gl_dens z boot_wupd lm p mm pred out st Hf)).
  rewrite E. repeat split.
Qed.
