(* C02_TransportEntry.v — every extracted entry point of the C02 model
   (C02_Entry.v: c02_run, c02_propagate, c02_spec, c02_seq), run on lists with
   the scalars of an arbitrary realFieldType, computes a representation of what
   the same model function computes at the MathComp instance, the instance the
   C02 theorems are about: all branches of LinearStateModel::propagate with the
   harness' affine exogenous model u(X) = B X + c 1^T, the three skip flags,
   the descriptors of the returned object, whole sequences of calls on one
   object with per-call matrices / flags / dimensions, and the spec function
   of the violation search.  A skipped call is moreover insensitive to the
   output object it is handed (no well-formedness needed for it).  Built on
   ListOpsCorrect.v and C02_Transport.v; axiom-free. *)
Require Import ZArith List Bool.
Require Import BFL.Ops BFL.ListOps BFL.C02_Model BFL.C02_Entry.
From mathcomp Require Import all_ssreflect all_algebra.
Require Import BFL.MxOps BFL.ListOpsCorrect BFL.C02_Transport.
Set Implicit Arguments.
Unset Strict Implicit.
Unset Printing Implicit Defensive.
Import GRing.Theory.
Local Open Scope ring_scope.

(* a skipped call returns the belief it was given, for ANY scalars and ANY output object *)
Lemma c02_run_skipped (S : SOps) n k (lF lQ : lmx S) e sp ss se (prev old : rawmix S) :
  sp || ss -> c02_run S n k lF lQ e sp ss se prev old = prev.
Proof.
case: prev => [[[pm pc] pw] pl].
by rewrite /c02_run /gaussian_predict /kf_predict_step; case: sp => //=; case: ss.
Qed.

Section E.
Variable F : realFieldType.
Variable tr : Transc F.
Variable sq : forall n, 'M[F]_n -> 'M[F]_n.
Variable eg : forall n, 'M[F]_n -> 'M[F]_(n,1).
Let S := FOps tr.
Let OL := c02_O S.
Let OM := MxMat tr sq eg.
Notation repr m n l A := (@C02_Transport.repr F m n l A) (only parsing).

(* a raw mixture (lists + descriptors) represents a mixture of the theorem model *)
Definition repr_raw n k (r : rawmix S) (g : gmix OM n k) : Prop :=
  @repr_gmix F tr sq eg n k (c02_mix S n k r) g.

(* the parameters of the affine exogenous model, attached or not *)
Definition repr_aff n (le : option (lmxF F * lmxF F)) (me : option ('M[F]_n * 'cV[F]_n)) : Prop :=
  match le, me with
  | None, None => True
  | Some lBc, Some Bc => repr n n lBc.1 Bc.1 /\ repr n 1 lBc.2 Bc.2
  | _, _ => False
  end.

Lemma repr_mconst m n (c : F) : repr m n (mconst OL m n c) (mconst OM m n c : 'M[F]_(m,n)).
Proof. by split; [exact: lbuild_wf | exact: toM_lbuild]. Qed.

Lemma repr_mzero0 m n : repr m n (@mzero OL m n) (0 : 'M[F]_(m,n)).
Proof. by split; [exact: lbuild_wf | exact: toM_mzero]. Qed.

Lemma repr_affine n k lB (B : 'M[F]_n) lc (c : 'cV[F]_n) lX (X : 'M[F]_(n,k)) :
  repr n n lB B -> repr n 1 lc c -> repr n k lX X ->
  repr n k (@affine_exo OL n k lB lc lX) (@affine_exo OM n k B c X : 'M[F]_(n,k)).
Proof.
move=> rB rc rX; rewrite /affine_exo.
apply: (@repr_add F tr); first exact: (@repr_mul F tr _ _ _ _ _ _ _ rB rX).
exact: (@repr_mul F tr _ _ _ _ _ _ _ rc (repr_mconst 1 k 1)).
Qed.

Lemma repr_aff_exo n k le me :
  repr_aff le me -> @repr_exo F n k (c02_exo S n k le) (@affine_exo_opt OM n k me).
Proof.
case: le me => [[lB lc]|] [[B c]|] //= [rB rc] l A rA.
exact: repr_affine.
Qed.

(* ---- c02_run: GaussianPrediction::predict, any flags ---- *)
Theorem c02_run_transport n k lF (Fm : 'M[F]_n) lQ (Q : 'M[F]_n) le me sp ss se
        (rprev rold : rawmix S) (prevm oldm : gmix OM n k) :
  repr n n lF Fm -> repr n n lQ Q -> repr_aff le me ->
  repr_raw rprev prevm -> repr_raw rold oldm ->
  repr_raw (c02_run S n k lF lQ le sp ss se rprev rold)
           (@gaussian_predict OM n k Fm Q (affine_exo_opt (O:=OM) me) sp ss se prevm oldm).
Proof.
move=> rF rQ rE rP rO; rewrite /repr_raw /c02_run.
have -> : forall g : gmix OL n k, c02_mix S n k (c02_unmix S n k g) = g by case.
exact: (@kf_predict_transport F tr sq eg n k lF Fm lQ Q _ _ _ _ _ _ sp ss se rF rQ (repr_aff_exo k rE) rP rO).
Qed.

(* a skipped call: the output object need not represent anything (default-constructed, of
   another component count, dimension or layout) *)
Theorem c02_run_skipped_transport n k (lF lQ : lmxF F) (Fm Q : 'M[F]_n) le me sp ss se
        (rprev rold : rawmix S) (prevm oldm : gmix OM n k) :
  sp || ss -> repr_raw rprev prevm ->
  repr_raw (c02_run S n k lF lQ le sp ss se rprev rold)
           (@gaussian_predict OM n k Fm Q me sp ss se prevm oldm).
Proof.
move=> sk rP; rewrite c02_run_skipped //.
by rewrite /gaussian_predict /kf_predict_step; case: sp sk => //=; case: ss.
Qed.

(* ---- c02_propagate: LinearStateModel::propagate alone ---- *)
Theorem c02_propagate_transport n k lF (Fm : 'M[F]_n) le me ss se lcur (cur : 'M[F]_(n,k)) lold (old : 'M[F]_(n,k)) :
  repr n n lF Fm -> repr_aff le me -> repr n k lcur cur -> repr n k lold old ->
  repr n k (c02_propagate S n k lF le ss se lcur lold)
           (@lin_propagate OM n k Fm (affine_exo_opt (O:=OM) me) ss se cur old : 'M[F]_(n,k)).
Proof.
move=> rF rE rC rO.
exact: (@lin_propagate_transport F tr sq eg n k lF Fm _ _ ss se lcur cur lold old rF (repr_aff_exo k rE) rC rO).
Qed.

(* ---- c02_spec: the component-by-component spec ---- *)
Lemma repr_mcol n k l (A : 'M[F]_(n,k)) (i : nat) :
  repr n k l A -> repr n 1 (@mcol OL n k i l) (@mcol OM n k i A : 'cV[F]_n).
Proof.
move=> [w <-]; split; first exact: lbuild_wf.
rewrite /mcol [LHS]toM_lbuild; apply: mx_build_ext => r c rn _ /=.
case: (ltnP i k) => [ik|ki].
  by rewrite -(toM_lget tr (n:=k) l (Ordinal rn) (Ordinal ik)) -(mx_get_ord (toM n k l) (Ordinal rn) (Ordinal ik)).
rewrite mx_get_out_c // /lget List.nth_overflow //.
by rewrite (wf_nth_row w rn); apply/leP.
Qed.

Definition repr_comp n (lp : lmxF F * lmxF F) (mp : 'cV[F]_n * 'M[F]_n) : Prop :=
  repr n 1 lp.1 mp.1 /\ repr n n lp.2 mp.2.

Lemma kf_spec_transport_from (a : nat) n k lF (Fm : 'M[F]_n) lQ (Q : 'M[F]_n) le me lmeans (means : 'M[F]_(n,k)) lcovs (covs : list 'M[F]_n) :
  repr n n lF Fm -> repr n n lQ Q -> repr_aff le me -> repr n k lmeans means -> repr_covs lcovs covs ->
  List.Forall2 (@repr_comp n)
    (List.map (fun ip : nat * lmxF F =>
                 let x := @mcol OL n k ip.1 lmeans in
                 let u := match le with
                          | Some (B, c) => @madd OL n 1 (@mmul OL n n 1 B x) c
                          | None => @mzero OL n 1
                          end in
                 (@spec_mean OL n lF u x, @kf_predict_cov OL n lF lQ ip.2))
              (List.combine (List.seq a (length lcovs)) lcovs))
    (List.map (fun ip : nat * 'M[F]_n =>
                 let x := @mcol OM n k ip.1 means in
                 let u := match me with
                          | Some (B, c) => @madd OM n 1 (@mmul OM n n 1 B x) c
                          | None => @mzero OM n 1
                          end in
                 (@spec_mean OM n Fm u x, @kf_predict_cov OM n Fm Q ip.2))
              (List.combine (List.seq a (length covs)) covs)).
Proof.
move=> rF rQ rE rM rC.
elim: rC a => [|lP P ls As rP _ IH] a /=; first exact: List.Forall2_nil.
apply: List.Forall2_cons; last exact: IH.
move=> {IH}; split=> /=; last exact: repr_cov_step.
rewrite /spec_mean; apply: (@repr_add F tr).
  exact: (@repr_mul F tr _ _ _ _ _ _ _ rF (repr_mcol a rM)).
case: le me rE => [[lB lc]|] [[B c]|] //= => [[rB rc]|_]; last exact: repr_mzero0.
by apply: (@repr_add F tr) => //; exact: (@repr_mul F tr _ _ _ _ _ _ _ rB (repr_mcol a rM)).
Qed.

Theorem c02_spec_transport n k lF (Fm : 'M[F]_n) lQ (Q : 'M[F]_n) le me lmeans (means : 'M[F]_(n,k)) lcovs (covs : list 'M[F]_n) :
  repr n n lF Fm -> repr n n lQ Q -> repr_aff le me -> repr n k lmeans means -> repr_covs lcovs covs ->
  List.Forall2 (@repr_comp n) (c02_spec S n k lF lQ le lmeans lcovs) (@kf_spec OM n k Fm Q me means covs).
Proof. by move=> rF rQ rE rM rC; exact: (kf_spec_transport_from 0 rF rQ rE rM rC). Qed.

(* ---- c02_seq: one object, several calls ---- *)
Definition repr_call (rc : c02_call S) (cm : kf_call OM) : Prop :=
  [/\ rc_n rc = kc_n cm, rc_k rc = kc_k cm,
      repr (kc_n cm) (kc_n cm) (rc_F rc) (kc_F cm : 'M[F]_(kc_n cm)) /\
      repr (kc_n cm) (kc_n cm) (rc_Q rc) (kc_Q cm : 'M[F]_(kc_n cm)),
      (exists2 me, repr_aff (rc_exo rc) me & kc_exo cm = affine_exo_opt (O:=OM) me) &
      [/\ rc_sp rc = kc_sp cm, rc_ss rc = kc_ss cm & rc_se rc = kc_se cm] /\
      (repr_raw (rc_prev rc) (kc_prev cm) /\
       (kc_sp cm || kc_ss cm \/ repr_raw (rc_old rc) (kc_old cm)))].

Definition repr_ret (r : rawmix S) (m : kf_ret OM) : Prop := repr_raw r (kr_mix m).

Lemma c02_call_transport rc cm :
  repr_call rc cm -> repr_ret (c02_unpack S (kf_call_run (c02_pack S rc))) (kf_call_run cm).
Proof.
case: rc => rn rk lF lQ le sp ss se rp ro; case: cm => n k Fm Q um sp' ss' se' pm om /=.
case=> /= en ek [rF rQ] [me rE eU] [[esp ess ese] [rP rO]]; subst rn rk sp ss se um.
rewrite /repr_ret /c02_unpack /kf_call_run /c02_pack /=.
case: rO => [sk|rO]; first exact: (@c02_run_skipped_transport n k lF lQ Fm Q le _ sp' ss' se' rp ro pm om sk rP).
exact: (@c02_run_transport n k lF Fm lQ Q le me sp' ss' se' rp ro pm om rF rQ rE rP rO).
Qed.

Theorem c02_seq_transport (rcs : list (c02_call S)) (cms : list (kf_call OM)) :
  List.Forall2 repr_call rcs cms ->
  List.Forall2 repr_ret (c02_seq S rcs) (kf_predict_seq cms).
Proof.
rewrite /c02_seq /kf_predict_seq.
elim=> [|rc cm rcs' cms' r1 _ IH] /=; first exact: List.Forall2_nil.
by apply: List.Forall2_cons => //; exact: c02_call_transport.
Qed.

End E.

Print Assumptions c02_run_transport.
Print Assumptions c02_seq_transport.
Print Assumptions c02_spec_transport.
