(* C03_Proofs.v — the unscented-transform model at the MathComp instance. *)
Require Import ZArith List Bool Lia.
Require Import BFL.Ops BFL.C03_Model.
From mathcomp Require Import all_ssreflect all_algebra.
Require Import BFL.MxOps BFL.LinAlg.
Set Implicit Arguments.
Unset Strict Implicit.
Unset Printing Implicit Defensive.
Import Order.Theory GRing.Theory Num.Theory.
Local Open Scope ring_scope.

(* ------------------------------------------------------------------ *)
(* lists: folds as sums, chunks of a concatenation, indexed maps       *)
Section ListSums.
Variable V : zmodType.
Variable A : Type.

Definition lsum (g : A -> V) (l : list A) : V := fold_left (fun acc p => acc + g p) l 0.

Lemma fold_left_acc (g : A -> V) l a :
  fold_left (fun acc p => acc + g p) l a = a + lsum g l.
Proof.
rewrite /lsum; elim: l a => [|x l IH] a /=; first by rewrite addr0.
by rewrite IH [in RHS]IH add0r addrA.
Qed.

Lemma lsum_nil g : lsum g [::] = 0. Proof. by []. Qed.
Lemma lsum_cons g x l : lsum g (x :: l) = g x + lsum g l.
Proof. by rewrite /lsum /= fold_left_acc add0r. Qed.

Lemma lsumE g l : lsum g l = \sum_(x <- l) g x.
Proof. by elim: l => [|x l IH]; rewrite ?lsum_nil ?big_nil // lsum_cons big_cons IH. Qed.
End ListSums.

Section ListFacts.
Lemma seq_iota a n : List.seq a n = iota a n.
Proof. by elim: n a => [|n IH] a //=; rewrite IH. Qed.

Lemma lmap_map A B (f : A -> B) l : List.map f l = map f l.
Proof. by elim: l => [|x l IH] //=; rewrite IH. Qed.

Lemma app_cat A (l1 l2 : list A) : (l1 ++ l2)%list = l1 ++ l2.
Proof. by elim: l1 => [|x l IH] //=; rewrite IH. Qed.

Lemma combine_repeat_map A B (w : A) (h : nat -> B) a n :
  combine (repeat w n) (List.map h (List.seq a n)) = [seq (w, h k) | k <- iota a n].
Proof. by elim: n a => [|n IH] a //=; rewrite IH. Qed.

Lemma combine_app A B (a1 a2 : list A) (b1 b2 : list B) :
  length a1 = length b1 ->
  combine (a1 ++ a2)%list (b1 ++ b2)%list = (combine a1 b1 ++ combine a2 b2)%list.
Proof.
elim: a1 b1 => [|x a1 IH] [|y b1] //= [E]; by rewrite IH.
Qed.

Lemma combine_map2 A B C (f : A -> B) (g : A -> C) l :
  combine (List.map f l) (List.map g l) = List.map (fun x => (f x, g x)) l.
Proof. by elim: l => [|x l IH] //=; rewrite IH. Qed.

Lemma combine_map_r A B C (g : B -> C) (ws : list A) l :
  combine ws (List.map g l) = List.map (fun p => (p.1, g p.2)) (combine ws l).
Proof. by elim: ws l => [|w ws IH] [|x l] //=; rewrite IH. Qed.

(* middleCols(base * i, base) of a concatenation of blocks of width base *)
Lemma chunk_concat A (b : nat) (ls : list (list A)) (i : nat) :
  (forall l, In l ls -> length l = b) -> (i < length ls)%coq_nat ->
  chunk b i (concat ls) = List.nth i ls [::].
Proof.
rewrite /chunk; elim: ls i => [|l ls IH] i Hl /=; first by move=> /Nat.nlt_0_r.
have Ll : length l = b by apply: Hl; left.
case: i => [|i] Hi.
  rewrite Nat.mul_0_r /= firstn_app Ll Nat.sub_diag /= app_nil_r.
  by rewrite -Ll firstn_all.
have -> : Nat.mul b i.+1 = Nat.add (length l) (Nat.mul b i) by rewrite Ll; lia.
rewrite skipn_app.
have -> : Nat.sub (Nat.add (length l) (Nat.mul b i)) (length l) = Nat.mul b i by lia.
have -> : skipn (Nat.add (length l) (Nat.mul b i)) l = [::].
  by apply: skipn_all2; lia.
rewrite /=; apply: IH; last by lia.
by move=> l' In'; apply: Hl; right.
Qed.

Lemma map_indexed A B (h : nat -> A -> B) (g : A -> B) (l : list A) (d : A) :
  (forall i, (i < length l)%coq_nat -> h i (List.nth i l d) = g (List.nth i l d)) ->
  List.map (fun ic : nat * A => h ic.1 ic.2) (combine (List.seq 0 (length l)) l) = List.map g l.
Proof.
have gen : forall a, (forall i, (i < length l)%coq_nat -> h (a + i)%coq_nat (List.nth i l d) = g (List.nth i l d)) ->
   List.map (fun ic : nat * A => h ic.1 ic.2) (combine (List.seq a (length l)) l) = List.map g l.
  elim: l => [|x l IH] a H //=.
  rewrite -(H 0%N) /=; last by lia.
  rewrite Nat.add_0_r IH // => i Hi.
  by have := H i.+1; rewrite /= Nat.add_succ_r; apply; lia.
by move=> H; apply: gen => i Hi; rewrite Nat.add_0_l; apply: H.
Qed.
End ListFacts.

(* ------------------------------------------------------------------ *)
(* a failed function evaluation is reported as failure, whatever the instance *)
Section Generic.
Variable O : MatOps.
Lemma ut_generic_failure Lin Lout d dc p pc dx (w : utw O) (comps : list (M O d 1 * M O dc dc))
      (f : list (M O d 1) -> option (list (M O p 1))) :
  f (sigma_points Lin d dc (w_c w) comps) = None ->
  ut_generic Lin Lout pc dx w comps f = None.
Proof. by rewrite /ut_generic => ->. Qed.

Lemma ut_generic_success Lin Lout d dc p pc dx (w : utw O) (comps : list (M O d 1 * M O dc dc))
      (f : list (M O d 1) -> option (list (M O p 1))) Y :
  f (sigma_points Lin d dc (w_c w) comps) = Some Y ->
  ut_generic Lin Lout pc dx w comps f =
  Some (ut_core Lin Lout pc dx w comps (sigma_points Lin d dc (w_c w) comps) Y).
Proof. by rewrite /ut_generic => ->. Qed.

Lemma ut_meas_failure Lin Lout d dc p pc dx (w : utw O) (comps : list (M O d 1 * M O dc dc))
      (f : list (M O d 1) -> option (list (M O p 1))) :
  f (sigma_points Lin d dc (w_c w) comps) = None ->
  ut_meas Lin Lout pc dx w comps f = None.
Proof. exact: ut_generic_failure. Qed.

Lemma ut_additive_meas_failure Lin Lout d dc p pc dx (w : utw O) (comps : list (M O d 1 * M O dc dc))
      (f : list (M O d 1) -> option (list (M O p 1))) R :
  f (sigma_points Lin d dc (w_c w) comps) = None ->
  ut_additive_meas Lin Lout pc dx w comps f R = None.
Proof. by move=> H; rewrite /ut_additive_meas ut_generic_failure. Qed.

Lemma ut_failure_all Lin Lout d dc p pc dx (w : utw O) (comps : list (M O d 1 * M O dc dc))
      (f : list (M O d 1) -> option (list (M O p 1))) R :
  f (sigma_points Lin d dc (w_c w) comps) = None ->
  [/\ ut_generic Lin Lout pc dx w comps f = None,
      ut_meas Lin Lout pc dx w comps f = None &
      ut_additive_meas Lin Lout pc dx w comps f R = None].
Proof.
by move=> H; split; [exact: ut_generic_failure | exact: ut_meas_failure | exact: ut_additive_meas_failure].
Qed.
End Generic.

(* ------------------------------------------------------------------ *)
Section UTMx.
Variable F : realFieldType.
Variable tr : Transc F.
Variable sq : forall n, 'M[F]_n -> 'M[F]_n.
Variable eg : forall n, 'M[F]_n -> 'M[F]_(n,1).
Let O := MxMat tr sq eg.
Let S := FOps tr.

(* ---- scalars ---- *)
Lemma Z_to_int_nat n : Z_to_int (Z.of_nat n) = n%:Z.
Proof. by case: n => [|n] //=; rewrite SuccNat2Pos.id_succ. Qed.

Lemma ZnatE n : (Z_to_int (Z.of_nat n))%:~R = n%:R :> F.
Proof. by rewrite Z_to_int_nat -pmulrn. Qed.

Lemma sofnatE n : sofnat S n = n%:R.
Proof. by rewrite /sofnat /= ZnatE. Qed.

Lemma s2E : s2 S = 2%:R. Proof. by rewrite /s2 /= -mulr2n. Qed.

Lemma ssumE (l : list F) : ssum S l = \sum_(x <- l) x.
Proof. by rewrite /ssum -[RHS](lsumE (fun x => x)) /lsum. Qed.

Lemma sum_repeat (x : F) k : \sum_(y <- repeat x k) y = x *+ k.
Proof. by elim: k => [|k IH]; rewrite /= ?big_nil ?mulr0n // big_cons IH mulrS. Qed.

(* ---- weights ---- *)
Section Weights.
Variables (n : nat) (alpha beta kappa : F).
Let lam := alpha * alpha * (n%:R + kappa) - n%:R.
Let c := n%:R + lam.

Lemma ut_lambdaE : ut_lambda (O:=O) n alpha kappa = lam.
Proof. by rewrite /ut_lambda /= !ZnatE. Qed.

Lemma ut_weights_c : w_c (ut_weights (O:=O) n alpha beta kappa) = c.
Proof. by rewrite /ut_weights /= -/(ut_lambda (O:=O) n alpha kappa) ut_lambdaE ZnatE. Qed.

Lemma ut_weights_c_alt : c = alpha * alpha * (n%:R + kappa).
Proof. by rewrite /c /lam addrC subrK. Qed.

Lemma ut_weights_mean :
  w_mean (ut_weights (O:=O) n alpha beta kappa) = (lam / c) :: repeat (1 / (2%:R * c)) (2 * n).
Proof. by rewrite /ut_weights [LHS]/= -/(ut_lambda (O:=O) n alpha kappa) ut_lambdaE ZnatE -mulr2n. Qed.

Lemma ut_weights_cov :
  w_cov (ut_weights (O:=O) n alpha beta kappa) =
  (lam / c + (1 - alpha * alpha + beta)) :: repeat (1 / (2%:R * c)) (2 * n).
Proof. by rewrite /ut_weights [LHS]/= -/(ut_lambda (O:=O) n alpha kappa) ut_lambdaE ZnatE -mulr2n. Qed.

Lemma ut_weights_sum : c != 0 ->
  ssum S (w_mean (ut_weights (O:=O) n alpha beta kappa)) = 1.
Proof.
move=> c0; rewrite ssumE ut_weights_mean big_cons sum_repeat.
have h2 : (2%:R : F) != 0 by rewrite pnatr_eq0.
rewrite -[X in _ + X]mulr_natr natrM mul1r invfM mulrACA mulVf // mul1r.
by rewrite mulrC -mulrDl [lam + _]addrC divff.
Qed.

Lemma ut_weights_lengths :
  length (w_mean (ut_weights (O:=O) n alpha beta kappa)) = Nat.add (Nat.mul 2 n) 1 /\
  length (w_cov (ut_weights (O:=O) n alpha beta kappa)) = Nat.add (Nat.mul 2 n) 1.
Proof. by rewrite /ut_weights /= !repeat_length; split; lia. Qed.

Lemma ut_weights_shape :
  [/\ length (w_mean (ut_weights (O:=O) n alpha beta kappa)) = Nat.add (Nat.mul 2 n) 1,
      length (w_cov (ut_weights (O:=O) n alpha beta kappa)) = Nat.add (Nat.mul 2 n) 1 &
      w_c (ut_weights (O:=O) n alpha beta kappa) = alpha * alpha * (n%:R + kappa)].
Proof. by case: ut_weights_lengths => H1 H2; split=> //; rewrite ut_weights_c ut_weights_c_alt. Qed.
End Weights.

(* ---- weighted sums over lists of columns ---- *)
Lemma lsum_map (V : zmodType) A B (g : B -> V) (h : A -> B) l :
  lsum g (List.map h l) = lsum (fun x => g (h x)) l.
Proof. by rewrite !lsumE lmap_map big_map. Qed.

Definition M0 d (ws : list F) (xs : list 'cV[F]_d) : F := lsum (fun p => p.1) (combine ws xs).
Definition M2 d (ws : list F) (xs : list 'cV[F]_d) (m : 'cV[F]_d) : 'M[F]_d :=
  lsum (fun p => p.1 *: ((p.2 - m) *m (p.2 - m)^T)) (combine ws xs).

Lemma wsumE d (ws : list F) (xs : list 'cV[F]_d) :
  wsum (O:=O) ws xs = lsum (fun p => p.1 *: p.2) (combine ws xs).
Proof. by []. Qed.

Lemma wouterE a b (ws : list F) (us : list 'cV[F]_a) (vs : list 'cV[F]_b) :
  wouter (O:=O) ws us vs = lsum (fun p => p.1 *: (p.2.1 *m p.2.2^T)) (combine ws (combine us vs)).
Proof. by []. Qed.

Lemma wsum_affine d p (Am : 'M[F]_(p,d)) (b : 'cV[F]_p) ws (xs : list 'cV[F]_d) :
  wsum (O:=O) ws (List.map (fun x => Am *m x + b) xs) =
  Am *m wsum (O:=O) ws xs + M0 ws xs *: b.
Proof.
rewrite !wsumE /M0 combine_map_r lsum_map !lsumE /=.
rewrite mulmx_sumr scaler_suml -big_split /=; apply: eq_bigr => q _.
by rewrite scalerDr scalemxAr.
Qed.

Lemma wouter_maps d a b (fu : 'cV[F]_d -> 'cV[F]_a) (fv : 'cV[F]_d -> 'cV[F]_b) ws (xs : list 'cV[F]_d) :
  wouter (O:=O) ws (List.map fu xs) (List.map fv xs) =
  lsum (fun p => p.1 *: (fu p.2 *m (fv p.2)^T)) (combine ws xs).
Proof. by rewrite wouterE combine_map2 combine_map_r lsum_map. Qed.

Lemma wouter_affine d a b (Cu : 'M[F]_(a,d)) (Cv : 'M[F]_(b,d)) (m : 'cV[F]_d) ws (xs : list 'cV[F]_d) :
  wouter (O:=O) ws (List.map (fun x => Cu *m (x - m)) xs) (List.map (fun x => Cv *m (x - m)) xs) =
  Cu *m M2 ws xs m *m Cv^T.
Proof.
rewrite wouter_maps /M2 !lsumE mulmx_sumr mulmx_suml; apply: eq_bigr => q _.
by rewrite trmx_mul -scalemxAr -scalemxAl !mulmxA.
Qed.

(* ---- the symmetric sigma set as three sums ---- *)
Lemma sigma_sum (V : zmodType) d (g : F * 'cV[F]_d -> V) w0 wi x0
      (f : 'cV[F]_d -> 'cV[F]_d) (g1 g2 : nat -> 'cV[F]_d) n :
  lsum g (combine (w0 :: repeat wi (2 * n))
                  (x0 :: List.map f (List.map g1 (List.seq 0 n) ++ List.map g2 (List.seq 0 n))%list)) =
  g (w0, x0) + (\sum_(k < n) g (wi, f (g1 k)) + \sum_(k < n) g (wi, f (g2 k))).
Proof.
rewrite [combine _ _]/= lsum_cons; congr (_ + _).
rewrite mul2n -addnn -plusE repeat_app map_app combine_app; last first.
  by rewrite repeat_length !map_length seq_length.
rewrite !map_map !combine_repeat_map lsumE app_cat big_cat !big_map /=.
rewrite -(big_mkord xpredT (fun k => g (wi, f (g1 k)))) -(big_mkord xpredT (fun k => g (wi, f (g2 k)))).
by rewrite /index_iota subn0.
Qed.

Lemma mcolE d e (B : 'M[F]_(d,e)) (k : 'I_e) : mcol (O:=O) k B = col k B.
Proof. by apply/matrixP=> i j; rewrite /mcol /= !mxE (mx_get_ord B i k). Qed.

Lemma sum_col_outer d e (B : 'M[F]_(d,e)) : \sum_(k < e) col k B *m (col k B)^T = B *m B^T.
Proof.
apply/matrixP=> i j; rewrite summxE !mxE; apply: eq_bigr => k _.
by rewrite !mxE big_ord1 !mxE.
Qed.

(* ---- linear layout (+ appended noise rows): the per-row code is plain matrix algebra ---- *)
Definition linear_layout (L : layout) (d : nat) : Prop :=
  l_circ L = 0%N /\ Nat.add (l_lin L) (l_noise L) = d.

Section LinearRows.
Variables (L : layout) (d : nat).
Hypothesis HL : linear_layout L d.

Lemma mx_get_col r (x : 'cV[F]_r) (i : 'I_r) : mx_get x i 0 = x i 0.
Proof. exact: (mx_get_ord x i 0). Qed.

Lemma colget_ord r (x : 'cV[F]_r) (i : 'I_r) : colget (O:=O) x i = x i 0.
Proof. by rewrite /colget /=; exact: mx_get_col. Qed.

Lemma add_mean_linear central (m p : 'cV[F]_d) : add_mean (O:=O) L d d central m p = p + m.
Proof.
case: HL => Lc Ld.
apply/matrixP=> i j; rewrite /add_mean /= !mxE /add_mean_row Lc /= Nat.add_0_r !mx_get_col !ord1.
case: Nat.ltb_spec => // Hi.
have -> : (Nat.sub d (l_noise L) <=? i)%coq_nat = true by apply/Nat.leb_le; lia.
have -> : Nat.sub i (Nat.sub d d) = i by lia.
by rewrite mx_get_col.
Qed.

(* rows [0, dx) of a vector: E *m x with E the selector *)
Definition sel (dx : nat) : 'M[F]_(dx, d) := \matrix_(i, j) ((i : nat) == j)%:R.

Lemma sel_mul dx (x : 'cV[F]_d) (i : 'I_dx) (Hd : (dx <= d)%N) :
  (sel dx *m x) i 0 = x (widen_ord Hd i) 0.
Proof.
rewrite mxE (bigD1 (widen_ord Hd i)) //= mxE eqxx mul1r big1 ?addr0 // => j Hj.
rewrite mxE; case: eqP => [E|_]; last by rewrite mul0r.
by case/eqP: Hj; apply: val_inj.
Qed.

Lemma offsets_linear_in dx (x m : 'cV[F]_d) : l_lin L = dx ->
  offsets (O:=O) L dx x m = sel dx *m (x - m).
Proof.
case: HL => Lc Ld Ldx.
have Hd : (dx <= d)%N by apply/ssrnat.leP; lia.
apply/matrixP=> i j; rewrite /offsets /= mxE ord1 (sel_mul _ _ Hd) /offset_row.
have -> : (i <? l_lin L)%coq_nat = true by apply/Nat.ltb_lt; rewrite Ldx; apply/ssrnat.ltP.
rewrite /colget /= !mxE.
have Hi : (i < d)%N by apply: leq_trans Hd.
rewrite /mx_get !insubT /=.
by congr (x _ _ - m _ _); apply: val_inj.
Qed.
End LinearRows.

Section LinearOut.
Variables (L : layout) (p : nat).
Hypothesis HL : l_lin L = p.

Lemma out_mean_linear wm (Ys : list 'cV[F]_p) : out_mean (O:=O) L p wm Ys = wsum (O:=O) wm Ys.
Proof.
apply/matrixP=> i j; rewrite /out_mean /= mxE ord1.
have -> : (i <? l_lin L)%coq_nat = true by apply/Nat.ltb_lt; rewrite HL; apply/ssrnat.ltP.
exact: colget_ord.
Qed.

Lemma offsets_linear_out (y ref : 'cV[F]_p) : offsets (O:=O) L p y ref = y - ref.
Proof.
apply/matrixP=> i j; rewrite /offsets /= !mxE ord1 /offset_row.
have -> : (i <? l_lin L)%coq_nat = true by apply/Nat.ltb_lt; rewrite HL; apply/ssrnat.ltP.
by rewrite !colget_ord.
Qed.
End LinearOut.

(* ---- the sigma points of one component, linear layout ---- *)
Local Opaque mcol.
Section SigmaMoments.
Variables (L : layout) (d : nat).
Hypothesis HL : linear_layout L d.
Variables (c : F) (m : 'cV[F]_d) (P : 'M[F]_d).
Let s := t_sqrt tr c.
Let B : 'M[F]_d := s *: sq P.

Lemma sigma_comp_linear :
  sigma_comp (O:=O) L d d c m P =
  m :: List.map (fun p => p + m)
         (List.map (fun k => mcol (O:=O) k B) (List.seq 0 d) ++
          List.map (fun k => mcol (O:=O) k (- B)) (List.seq 0 d))%list.
Proof.
rewrite /sigma_comp (add_mean_linear HL) [mzero _ _]/= add0r; congr (_ :: _).
rewrite /perturbations [mscale _ _]/= [mscale _ _]/= scaleNr -/s -/B.
by apply: map_ext => p; rewrite (add_mean_linear HL).
Qed.

Lemma sigma_comp_length : length (sigma_comp (O:=O) L d d c m P) = Nat.add (Nat.mul 2 d) 1.
Proof. by rewrite sigma_comp_linear /= map_length app_length !map_length !seq_length; lia. Qed.

Lemma sigma_comp_first x : List.nth 0 (sigma_comp (O:=O) L d d c m P) x = m.
Proof. by rewrite sigma_comp_linear. Qed.

Variables (w0 wi : F).
Let ws := w0 :: repeat wi (2 * d).

Lemma sigma_M0 : M0 ws (sigma_comp (O:=O) L d d c m P) = w0 + wi *+ (2 * d).
Proof.
rewrite /M0 sigma_comp_linear sigma_sum /= !sumr_const card_ord -mulrnDr.
by rewrite addnn mul2n.
Qed.

Lemma sigma_M1 : wsum (O:=O) ws (sigma_comp (O:=O) L d d c m P) = (w0 + wi *+ (2 * d)) *: m.
Proof.
rewrite wsumE sigma_comp_linear sigma_sum /= -big_split /=.
rewrite (eq_bigr (fun _ => wi *: (m + m))); last first.
  move=> k _; rewrite !mcolE linearN /= -scalerDr; congr (_ *: _).
  by rewrite addrACA subrr add0r.
rewrite sumr_const card_ord scalerDl; congr (_ + _).
by rewrite -mulr2n scalerMnr -mulrnA -scalerMnr scalerMnl.
Qed.

Lemma sigma_M2 : s * s = c -> sq P *m (sq P)^T = P ->
  M2 ws (sigma_comp (O:=O) L d d c m P) m = (wi *+ 2 * c) *: P.
Proof.
move=> Hs HA.
rewrite /M2 sigma_comp_linear sigma_sum /= subrr mul0mx scaler0 add0r.
rewrite (eq_bigr (fun k : 'I_d => wi *: (col k B *m (col k B)^T))); last first.
  by move=> k _; rewrite mcolE addrK.
rewrite [X in _ + X](eq_bigr (fun k : 'I_d => wi *: (col k B *m (col k B)^T))); last first.
  by move=> k _; rewrite mcolE addrK linearN /= linearN /= mulNmx mulmxN opprK.
rewrite -!scaler_sumr sum_col_outer -scalerDl -mulr2n.
have -> : B *m B^T = (s * s) *: (sq P *m (sq P)^T).
  by rewrite /B [(s *: _)^T]linearZ /= -scalemxAl -scalemxAr scalerA.
by rewrite HA Hs scalerA.
Qed.
End SigmaMoments.

(* ---- one component through an affine map ---- *)
Section AffineComponent.
Variables (Lin Lout : layout) (d dx p : nat).
Hypothesis HLin : linear_layout Lin d.
Hypothesis Hdx : l_lin Lin = dx.
Hypothesis HLout : l_lin Lout = p.
Variable w : utw O.
Variables (w0 w0c wi : F).
Hypothesis Hwm : w_mean w = w0 :: repeat wi (2 * d).
Hypothesis Hwc : w_cov w = w0c :: repeat wi (2 * d).
Hypothesis Hsum : w0 + wi *+ (2 * d) = 1.
Hypothesis Hwi : wi *+ 2 * w_c w = 1.
Hypothesis Hsqrt : t_sqrt tr (w_c w) * t_sqrt tr (w_c w) = w_c w.
Variables (Am : 'M[F]_(p,d)) (b : 'cV[F]_p).
Variables (m : 'cV[F]_d) (P : 'M[F]_d).
Hypothesis HA : sq P *m (sq P)^T = P.
Let Xs := sigma_comp (O:=O) Lin d d (w_c w) m P.

Lemma ut_component_affine :
  ut_component (O:=O) Lin Lout p dx w m Xs (List.map (fun x => Am *m x + b) Xs) =
  mkUtComp (O:=O) (Am *m m + b : 'cV[F]_p) (Am *m P *m Am^T) (sel d dx *m P *m Am^T).
Proof.
rewrite /ut_component (out_mean_linear HLout) wsum_affine Hwm.
rewrite /Xs (sigma_M1 HLin) (sigma_M0 HLin) Hsum !scale1r -/Xs.
rewrite map_map.
rewrite (map_ext _ (fun x => Am *m (x - m))); last first.
  by move=> x; rewrite (offsets_linear_out HLout) mulmxBr opprD addrACA subrr addr0.
rewrite (map_ext (fun x : 'cV[F]_d => offsets (O:=O) Lin dx x m) (fun x => sel d dx *m (x - m))); last first.
  by move=> x; rewrite (offsets_linear_in HLin).
rewrite Hwc !wouter_affine /Xs (sigma_M2 HLin _ _ _ Hsqrt HA) Hwi scale1r.
by [].
Qed.
End AffineComponent.

Lemma chunk_map A B (f : A -> B) b i l : chunk b i (List.map f l) = List.map f (chunk b i l).
Proof. by rewrite /chunk skipn_map firstn_map. Qed.

(* ---- the whole mixture through an affine map ---- *)
Section AffineMixture.
Variables (Lin Lout : layout) (d dx p : nat).
Hypothesis HLin : linear_layout Lin d.
Hypothesis Hdx : l_lin Lin = dx.
Hypothesis HLout : l_lin Lout = p.
Variables (alpha beta kappa : F).
Let w := ut_weights (O:=O) d alpha beta kappa.
(* per-instance oracle premises: c = n + lambda is not zero, the scalar square root is a
   square root of c, the matrix oracle returned a factor of each covariance *)
Hypothesis c_ne0 : w_c w != 0.
Hypothesis sqrt_c : t_sqrt tr (w_c w) * t_sqrt tr (w_c w) = w_c w.
Variables (Am : 'M[F]_(p,d)) (b : 'cV[F]_p).
Variable comps : list ('cV[F]_d * 'M[F]_d).
Hypothesis factor_ok : forall mc, In mc comps -> sq mc.2 *m (sq mc.2)^T = mc.2.

Definition affine_image (N : 'M[F]_p) (mc : 'cV[F]_d * 'M[F]_d) : ut_comp O p p dx :=
  mkUtComp (O:=O) (Am *m mc.1 + b : 'cV[F]_p) (Am *m mc.2 *m Am^T + N) (sel d dx *m mc.2 *m Am^T).

Let X := sigma_points (O:=O) Lin d d (w_c w) comps.

Lemma sigma_points_length : length X = Nat.mul (Nat.add (Nat.mul 2 d) 1) (length comps).
Proof.
rewrite /X /sigma_points; elim: comps => [|mc cs IH]; first by rewrite /=; lia.
rewrite List.map_cons concat_cons app_length IH (sigma_comp_length HLin) [length (_ :: _)]/=; lia.
Qed.

Lemma sigma_points_chunk i (d0 : 'cV[F]_d * 'M[F]_d) : (i < length comps)%coq_nat ->
  chunk (Nat.add (Nat.mul 2 d) 1) i X =
  sigma_comp (O:=O) Lin d d (w_c w) (List.nth i comps d0).1 (List.nth i comps d0).2.
Proof.
move=> Hi; rewrite /X /sigma_points chunk_concat; last by rewrite map_length.
  rewrite (nth_indep _ _ (sigma_comp (O:=O) Lin d d (w_c w) d0.1 d0.2)) ?map_length //.
  by rewrite (map_nth (fun mc => sigma_comp (O:=O) Lin d d (w_c w) mc.1 mc.2)).
by move=> l /in_map_iff [mc [<- _]]; rewrite (sigma_comp_length HLin).
Qed.

Lemma w_c_neq0 : w_c w != 0. Proof. exact: c_ne0. Qed.

Lemma ut_core_affine :
  ut_core (O:=O) Lin Lout p dx w comps X (affine_cols (O:=O) Am b X) =
  mkUtResult (O:=O) (List.map (affine_image 0) comps)
             (repeat (1 / (length comps)%:R) (length comps)).
Proof.
rewrite /ut_core; congr mkUtResult; last by rewrite /= ZnatE.
pose h (i : nat) (mc : 'cV[F]_d * 'M[F]_d) : ut_comp O p p dx :=
  ut_component (O:=O) Lin Lout p dx w mc.1 (chunk (Nat.add (Nat.mul 2 d) 1) i X)
               (chunk (Nat.add (Nat.mul 2 d) 1) i (affine_cols (O:=O) Am b X)).
apply: (@map_indexed _ _ h (affine_image 0) comps (0, 0)) => i Hi.
rewrite /h /affine_cols chunk_map (sigma_points_chunk (0, 0) Hi).
have h2 : (2%:R : F) != 0 by rewrite pnatr_eq0.
have c0 : d%:R + (alpha * alpha * (d%:R + kappa) - d%:R) != 0.
  by rewrite -(ut_weights_c d alpha beta kappa); exact: w_c_neq0.
rewrite /affine_image addr0.
apply: (@ut_component_affine Lin Lout d dx p HLin Hdx HLout w _ _ _
          (ut_weights_mean d alpha beta kappa) (ut_weights_cov d alpha beta kappa)).
- have := ut_weights_sum beta c0.
  by rewrite ssumE ut_weights_mean big_cons sum_repeat.
- rewrite ut_weights_c; set cc := d%:R + _ in c0 *.
  by rewrite -[_ *+ 2]mulr_natl mul1r invfM mulrA mulfV // mul1r mulVf.
- exact: sqrt_c.
- apply: factor_ok; exact: nth_In.
Qed.

Lemma ut_generic_affine :
  ut_generic (O:=O) Lin Lout p dx w comps (fun X => Some (affine_cols (O:=O) Am b X)) =
  Some (mkUtResult (O:=O) (List.map (affine_image 0) comps)
                   (repeat (1 / (length comps)%:R) (length comps))).
Proof. by rewrite /ut_generic ut_core_affine. Qed.

Lemma ut_state_affine :
  ut_state (O:=O) Lin Lout p dx w comps (affine_cols (O:=O) Am b) =
  mkUtResult (O:=O) (List.map (affine_image 0) comps)
             (repeat (1 / (length comps)%:R) (length comps)).
Proof. by rewrite /ut_state ut_core_affine. Qed.

Lemma add_noise_affine N :
  add_noise_cov (O:=O) N (mkUtResult (O:=O) (List.map (affine_image 0) comps)
                            (repeat (1 / (length comps)%:R) (length comps))) =
  mkUtResult (O:=O) (List.map (affine_image N) comps)
             (repeat (1 / (length comps)%:R) (length comps)).
Proof.
rewrite /add_noise_cov /= map_map; congr mkUtResult.
by apply: map_ext => mc; rewrite /affine_image /= addr0.
Qed.

Lemma ut_additive_state_affine Q :
  ut_additive_state (O:=O) Lin Lout p dx w comps (affine_cols (O:=O) Am b) Q =
  mkUtResult (O:=O) (List.map (affine_image Q) comps)
             (repeat (1 / (length comps)%:R) (length comps)).
Proof. by rewrite /ut_additive_state ut_state_affine add_noise_affine. Qed.

Lemma ut_meas_affine :
  ut_meas (O:=O) Lin Lout p dx w comps (fun X => Some (affine_cols (O:=O) Am b X)) =
  Some (mkUtResult (O:=O) (List.map (affine_image 0) comps)
                   (repeat (1 / (length comps)%:R) (length comps))).
Proof. exact: ut_generic_affine. Qed.

Lemma ut_additive_meas_affine R :
  ut_additive_meas (O:=O) Lin Lout p dx w comps (fun X => Some (affine_cols (O:=O) Am b X)) R =
  Some (mkUtResult (O:=O) (List.map (affine_image R) comps)
                   (repeat (1 / (length comps)%:R) (length comps))).
Proof. by rewrite /ut_additive_meas ut_generic_affine add_noise_affine. Qed.

Lemma ut_models_affine :
  let r := mkUtResult (O:=O) (List.map (affine_image 0) comps)
                      (repeat (1 / (length comps)%:R) (length comps)) in
  ut_state (O:=O) Lin Lout p dx w comps (affine_cols (O:=O) Am b) = r /\
  ut_meas (O:=O) Lin Lout p dx w comps (fun X => Some (affine_cols (O:=O) Am b X)) = Some r.
Proof. by split; [exact: ut_state_affine | exact: ut_meas_affine]. Qed.

Lemma ut_additive_affine N :
  let r := mkUtResult (O:=O) (List.map (affine_image N) comps)
                      (repeat (1 / (length comps)%:R) (length comps)) in
  ut_additive_state (O:=O) Lin Lout p dx w comps (affine_cols (O:=O) Am b) N = r /\
  ut_additive_meas (O:=O) Lin Lout p dx w comps (fun X => Some (affine_cols (O:=O) Am b X)) N = Some r.
Proof. by split; [exact: ut_additive_state_affine | exact: ut_additive_meas_affine]. Qed.
End AffineMixture.

(* ---- the sigma points reproduce the moments they were drawn from ---- *)
Section Moments.
Variables (L : layout) (d : nat).
Hypothesis HL : linear_layout L d.
Variables (alpha beta kappa : F).
Let w := ut_weights (O:=O) d alpha beta kappa.
Hypothesis c_ne0 : w_c w != 0.
Hypothesis sqrt_c : t_sqrt tr (w_c w) * t_sqrt tr (w_c w) = w_c w.
Variables (m : 'cV[F]_d) (P : 'M[F]_d).
Hypothesis factor_ok : sq P *m (sq P)^T = P.
Let Xs := sigma_comp (O:=O) L d d (w_c w) m P.

Lemma sigma_moments_linear :
  [/\ length Xs = Nat.add (Nat.mul 2 d) 1,
      forall x, List.nth 0 Xs x = m,
      wsum (O:=O) (w_mean w) Xs = m &
      wouter (O:=O) (w_cov w) (List.map (fun x => x - m) Xs) (List.map (fun x => x - m) Xs) = P].
Proof.
have h2 : (2%:R : F) != 0 by rewrite pnatr_eq0.
have c0 : d%:R + (alpha * alpha * (d%:R + kappa) - d%:R) != 0.
  by rewrite -(ut_weights_c d alpha beta kappa).
split.
- exact: sigma_comp_length.
- by move=> x; exact: sigma_comp_first.
- rewrite /w ut_weights_mean /Xs (sigma_M1 HL).
  have := ut_weights_sum beta c0.
  by rewrite ssumE ut_weights_mean big_cons sum_repeat => ->; rewrite scale1r.
- rewrite wouter_maps -/(M2 _ _ m) /w ut_weights_cov /Xs (sigma_M2 HL).
  + rewrite ut_weights_c; set cc := d%:R + _ in c0 *.
    by rewrite -[_ *+ 2]mulr_natl mul1r invfM mulrA mulfV // mul1r mulVf // scale1r.
  + exact: sqrt_c.
  + exact: factor_ok.
Qed.
End Moments.

(* ---- block-diagonal PSD and the augmented variant ---- *)
Lemma psd_block_diag n q (P : 'M[F]_n) (Q : 'M[F]_q) :
  psd P -> psd Q -> psd (block_mx P 0 0 Q).
Proof.
case=> sP pP [sQ pQ]; split.
  by rewrite /sym tr_block_mx !trmx0 sP sQ.
move=> x; rewrite -[x]hsubmxK /qf mul_row_block !mulmx0 addr0 add0r tr_row_mx mul_row_col mxE.
by apply: addr_ge0; [exact: pP | exact: pQ].
Qed.

Lemma sel_row_mx n q : sel (n + q) n = row_mx 1%:M 0 :> 'M[F]_(n, n + q).
Proof.
apply/matrixP=> i j; rewrite !mxE; case: splitP => k Hk; rewrite !mxE Hk //.
by rewrite eqn_leq [(n + k <= i)%N]leqNgt ltn_addr // andbF.
Qed.

Section Augmented.
Variables (Lin Lout : layout) (n q p : nat).
Hypothesis HLin : linear_layout Lin (n + q).
Hypothesis Hdx : l_lin Lin = n.
Hypothesis HLout : l_lin Lout = p.
Variables (alpha beta kappa : F).
Let w := ut_weights (O:=O) (n + q) alpha beta kappa.
Hypothesis c_ne0 : w_c w != 0.
Hypothesis sqrt_c : t_sqrt tr (w_c w) * t_sqrt tr (w_c w) = w_c w.
Variables (A : 'M[F]_(p,n)) (B : 'M[F]_(p,q)) (b : 'cV[F]_p) (Q : 'M[F]_q).
Variable comps : list ('cV[F]_n * 'M[F]_n).
(* the matrix oracle returned a factor of each augmented covariance blockdiag(P, Q) *)
Hypothesis factor_ok : forall mc, In mc comps ->
  sq (block_mx mc.2 0 0 Q) *m (sq (block_mx mc.2 0 0 Q))^T = block_mx mc.2 0 0 Q.

Definition augmented_image (N : 'M[F]_p) (mc : 'cV[F]_n * 'M[F]_n) : ut_comp O p p n :=
  mkUtComp (O:=O) (A *m mc.1 + b : 'cV[F]_p) (A *m mc.2 *m A^T + B *m Q *m B^T + N) (mc.2 *m A^T).

Let acomps : list ('cV[F]_(n + q) * 'M[F]_(n + q)) := List.map (augment_comp (O:=O) Q) comps.

Lemma acomps_factor mc : In mc acomps -> sq mc.2 *m (sq mc.2)^T = mc.2.
Proof. by move=> /in_map_iff [mc0 [<- Hin]]; exact: factor_ok. Qed.

Lemma augmented_image_eq N mc :
  affine_image n (row_mx A B) b N (augment_comp (O:=O) Q mc) = augmented_image N mc.
Proof.
rewrite /affine_image /augmented_image /augment_comp /=.
rewrite sel_row_mx -![col_mx (row_mx mc.2 0) (row_mx 0 Q)]/(block_mx mc.2 0 0 Q).
rewrite mul_row_col !mul_row_block tr_row_mx !mul_row_col.
by rewrite !mulmx0 !mul0mx !mul1mx !addr0 !add0r mul0mx addr0.
Qed.

Lemma ut_generic_affine_augmented :
  ut_generic (O:=O) Lin Lout p n w acomps (fun X => Some (affine_cols (O:=O) (row_mx A B) b X)) =
  Some (mkUtResult (O:=O) (List.map (augmented_image 0) comps)
                   (repeat (1 / (length comps)%:R) (length comps))).
Proof.
rewrite (ut_generic_affine HLin Hdx HLout c_ne0 sqrt_c _ _ acomps_factor).
by rewrite /acomps map_map map_length (map_ext _ _ (augmented_image_eq 0)).
Qed.

Lemma ut_state_affine_augmented :
  ut_state (O:=O) Lin Lout p n w acomps (affine_cols (O:=O) (row_mx A B) b) =
  mkUtResult (O:=O) (List.map (augmented_image 0) comps)
             (repeat (1 / (length comps)%:R) (length comps)).
Proof.
rewrite (ut_state_affine HLin Hdx HLout c_ne0 sqrt_c _ _ acomps_factor).
by rewrite /acomps map_map map_length (map_ext _ _ (augmented_image_eq 0)).
Qed.

Lemma ut_meas_affine_augmented :
  ut_meas (O:=O) Lin Lout p n w acomps (fun X => Some (affine_cols (O:=O) (row_mx A B) b X)) =
  Some (mkUtResult (O:=O) (List.map (augmented_image 0) comps)
                   (repeat (1 / (length comps)%:R) (length comps))).
Proof. exact: ut_generic_affine_augmented. Qed.
End Augmented.

End UTMx.
