(* C03_Proofs.v — the unscented-transform model at the MathComp instance. *)
Require Import ZArith List Bool Lia.
Require Import BFL.Ops BFL.C03_Model.
From mathcomp Require Import all_ssreflect all_algebra.
Require Import BFL.MxOps BFL.LinAlg.
Set Implicit Arguments.
Unset Strict Implicit.
Unset Printing Implicit Defensive.
Import Order.Theory GRing.Theory Num.Theory.
Local Open Scope ring_scope.

(* ------------------------------------------------------------------ *)
(* lists: folds as sums, chunks of a concatenation, indexed maps       *)
Section ListSums.
Variable V : zmodType.
Variable A : Type.

Definition lsum (g : A -> V) (l : list A) : V := fold_left (fun acc p => acc + g p) l 0.

Lemma fold_left_acc (g : A -> V) l a :
  fold_left (fun acc p => acc + g p) l a = a + lsum g l.
Proof.
rewrite /lsum; elim: l a => [|x l IH] a /=; first by rewrite addr0.
by rewrite IH [in RHS]IH add0r addrA.
Qed.

Lemma lsum_nil g : lsum g [::] = 0. Proof. by []. Qed.
Lemma lsum_cons g x l : lsum g (x :: l) = g x + lsum g l.
Proof. by rewrite /lsum /= fold_left_acc add0r. Qed.

Lemma lsumE g l : lsum g l = \sum_(x <- l) g x.
Proof. by elim: l => [|x l IH]; rewrite ?lsum_nil ?big_nil // lsum_cons big_cons IH. Qed.
End ListSums.

Section ListFacts.
Lemma seq_iota a n : List.seq a n = iota a n.
Proof. by elim: n a => [|n IH] a //=; rewrite IH. Qed.

Lemma lmap_map A B (f : A -> B) l : List.map f l = map f l.
Proof. by elim: l => [|x l IH] //=; rewrite IH. Qed.

Lemma app_cat A (l1 l2 : list A) : (l1 ++ l2)%list = l1 ++ l2.
Proof. by elim: l1 => [|x l IH] //=; rewrite IH. Qed.

Lemma combine_repeat_map A B (w : A) (h : nat -> B) a n :
  combine (repeat w n) (List.map h (List.seq a n)) = [seq (w, h k) | k <- iota a n].
Proof. by elim: n a => [|n IH] a //=; rewrite IH. Qed.

Lemma combine_app A B (a1 a2 : list A) (b1 b2 : list B) :
  length a1 = length b1 ->
  combine (a1 ++ a2)%list (b1 ++ b2)%list = (combine a1 b1 ++ combine a2 b2)%list.
Proof.
elim: a1 b1 => [|x a1 IH] [|y b1] //= [E]; by rewrite IH.
Qed.

Lemma combine_map2 A B C (f : A -> B) (g : A -> C) l :
  combine (List.map f l) (List.map g l) = List.map (fun x => (f x, g x)) l.
Proof. by elim: l => [|x l IH] //=; rewrite IH. Qed.

Lemma combine_map_r A B C (g : B -> C) (ws : list A) l :
  combine ws (List.map g l) = List.map (fun p => (p.1, g p.2)) (combine ws l).
Proof. by elim: ws l => [|w ws IH] [|x l] //=; rewrite IH. Qed.

(* middleCols(base * i, base) of a concatenation of blocks of width base *)
Lemma chunk_concat A (b : nat) (ls : list (list A)) (i : nat) :
  (forall l, In l ls -> length l = b) -> (i < length ls)%coq_nat ->
  chunk b i (concat ls) = List.nth i ls [::].
Proof.
rewrite /chunk; elim: ls i => [|l ls IH] i Hl /=; first by move=> /Nat.nlt_0_r.
have Ll : length l = b by apply: Hl; left.
case: i => [|i] Hi.
  rewrite Nat.mul_0_r /= firstn_app Ll Nat.sub_diag /= app_nil_r.
  by rewrite -Ll firstn_all.
have -> : Nat.mul b i.+1 = Nat.add (length l) (Nat.mul b i) by rewrite Ll; lia.
rewrite skipn_app.
have -> : Nat.sub (Nat.add (length l) (Nat.mul b i)) (length l) = Nat.mul b i by lia.
have -> : skipn (Nat.add (length l) (Nat.mul b i)) l = [::].
  by apply: skipn_all2; lia.
rewrite /=; apply: IH; last by lia.
by move=> l' In'; apply: Hl; right.
Qed.

Lemma map_indexed A B (h : nat -> A -> B) (g : A -> B) (l : list A) (d : A) :
  (forall i, (i < length l)%coq_nat -> h i (List.nth i l d) = g (List.nth i l d)) ->
  List.map (fun ic : nat * A => h ic.1 ic.2) (combine (List.seq 0 (length l)) l) = List.map g l.
Proof.
have gen : forall a, (forall i, (i < length l)%coq_nat -> h (a + i)%coq_nat (List.nth i l d) = g (List.nth i l d)) ->
   List.map (fun ic : nat * A => h ic.1 ic.2) (combine (List.seq a (length l)) l) = List.map g l.
  elim: l => [|x l IH] a H //=.
  rewrite -(H 0%N) /=; last by lia.
  rewrite Nat.add_0_r IH // => i Hi.
  by have := H i.+1; rewrite /= Nat.add_succ_r; apply; lia.
by move=> H; apply: gen => i Hi; rewrite Nat.add_0_l; apply: H.
Qed.
End ListFacts.

(* ------------------------------------------------------------------ *)
(* a failed function evaluation is reported as failure, whatever the instance *)
Section Generic.
Variable O : MatOps.
Lemma ut_generic_failure Lin Lout d dc p pc dx (w : utw O) (comps : list (M O d 1 * M O dc dc))
      (f : list (M O d 1) -> option (list (M O p 1))) :
  f (sigma_points Lin d dc (w_c w) comps) = None ->
  ut_generic Lin Lout pc dx w comps f = None.
Proof. by rewrite /ut_generic => ->. Qed.

Lemma ut_generic_success Lin Lout d dc p pc dx (w : utw O) (comps : list (M O d 1 * M O dc dc))
      (f : list (M O d 1) -> option (list (M O p 1))) Y :
  f (sigma_points Lin d dc (w_c w) comps) = Some Y ->
  ut_generic Lin Lout pc dx w comps f =
  Some (ut_core Lin Lout pc dx w comps (sigma_points Lin d dc (w_c w) comps) Y).
Proof. by rewrite /ut_generic => ->. Qed.

Lemma ut_meas_failure Lin Lout d dc p pc dx (w : utw O) (comps : list (M O d 1 * M O dc dc))
      (f : list (M O d 1) -> option (list (M O p 1))) :
  f (sigma_points Lin d dc (w_c w) comps) = None ->
  ut_meas Lin Lout pc dx w comps f = None.
Proof. exact: ut_generic_failure. Qed.

Lemma ut_additive_meas_failure Lin Lout d dc p pc dx (w : utw O) (comps : list (M O d 1 * M O dc dc))
      (f : list (M O d 1) -> option (list (M O p 1))) R :
  f (sigma_points Lin d dc (w_c w) comps) = None ->
  ut_additive_meas Lin Lout pc dx w comps f R = None.
Proof. by move=> H; rewrite /ut_additive_meas ut_generic_failure. Qed.
End Generic.

(* ------------------------------------------------------------------ *)
Section UTMx.
Variable F : realFieldType.
Variable tr : Transc F.
Variable sq : forall n, 'M[F]_n -> 'M[F]_n.
Variable eg : forall n, 'M[F]_n -> 'M[F]_(n,1).
Let O := MxMat tr sq eg.
Let S := FOps tr.

(* ---- scalars ---- *)
Lemma Z_to_int_nat n : Z_to_int (Z.of_nat n) = n%:Z.
Proof. by case: n => [|n] //=; rewrite SuccNat2Pos.id_succ. Qed.

Lemma ZnatE n : (Z_to_int (Z.of_nat n))%:~R = n%:R :> F.
Proof. by rewrite Z_to_int_nat -pmulrn. Qed.

Lemma sofnatE n : sofnat S n = n%:R.
Proof. by rewrite /sofnat /= ZnatE. Qed.

Lemma s2E : s2 S = 2%:R. Proof. by rewrite /s2 /= -mulr2n. Qed.

Lemma ssumE (l : list F) : ssum S l = \sum_(x <- l) x.
Proof. by rewrite /ssum -[RHS](lsumE (fun x => x)) /lsum. Qed.

Lemma sum_repeat (x : F) k : \sum_(y <- repeat x k) y = x *+ k.
Proof. by elim: k => [|k IH]; rewrite /= ?big_nil ?mulr0n // big_cons IH mulrS. Qed.

(* ---- weights ---- *)
Section Weights.
Variables (n : nat) (alpha beta kappa : F).
Let lam := alpha * alpha * (n%:R + kappa) - n%:R.
Let c := n%:R + lam.

Lemma ut_lambdaE : ut_lambda (O:=O) n alpha kappa = lam.
Proof. by rewrite /ut_lambda /= !ZnatE. Qed.

Lemma ut_weights_c : w_c (ut_weights (O:=O) n alpha beta kappa) = c.
Proof. by rewrite /ut_weights /= -/(ut_lambda (O:=O) n alpha kappa) ut_lambdaE ZnatE. Qed.

Lemma ut_weights_c_alt : c = alpha * alpha * (n%:R + kappa).
Proof. by rewrite /c /lam addrC subrK. Qed.

Lemma ut_weights_mean :
  w_mean (ut_weights (O:=O) n alpha beta kappa) = (lam / c) :: repeat (1 / (2%:R * c)) (2 * n).
Proof. by rewrite /ut_weights [LHS]/= -/(ut_lambda (O:=O) n alpha kappa) ut_lambdaE ZnatE -mulr2n. Qed.

Lemma ut_weights_cov :
  w_cov (ut_weights (O:=O) n alpha beta kappa) =
  (lam / c + (1 - alpha * alpha + beta)) :: repeat (1 / (2%:R * c)) (2 * n).
Proof. by rewrite /ut_weights [LHS]/= -/(ut_lambda (O:=O) n alpha kappa) ut_lambdaE ZnatE -mulr2n. Qed.

Lemma ut_weights_sum : c != 0 ->
  ssum S (w_mean (ut_weights (O:=O) n alpha beta kappa)) = 1.
Proof.
move=> c0; rewrite ssumE ut_weights_mean big_cons sum_repeat.
have h2 : (2%:R : F) != 0 by rewrite pnatr_eq0.
rewrite -[X in _ + X]mulr_natr natrM mul1r invfM mulrACA mulVf // mul1r.
by rewrite mulrC -mulrDl [lam + _]addrC divff.
Qed.

Lemma ut_weights_lengths :
  length (w_mean (ut_weights (O:=O) n alpha beta kappa)) = (2 * n + 1)%coq_nat /\
  length (w_cov (ut_weights (O:=O) n alpha beta kappa)) = (2 * n + 1)%coq_nat.
Proof. by rewrite ut_weights_mean ut_weights_cov /= !repeat_length; split; lia. Qed.
End Weights.
