(* C12_KFInst.v — the KF skeleton of C12_Model instantiated with the numerical
   model of C01 (KFCorrection over a LinearMeasurementModel): the abstract
   data of the skeleton become component lists and matrices, the function
   parameters become the definitions of C01_Model.  With the fault pattern
   `no_fault` this instance is C01's `kf_correct` (C12_Proofs_KF); it is also
   extracted at the list instance and run.  No proofs in this file. *)
Require Import ZArith List.
Require Import BFL.Ops BFL.Density BFL.C01_Model BFL.C12_Model.
Import ListNotations.

Section KFInst.
Variable O : MatOps.
Variables n m : nat.
Variable W : Type.              (* weight_ and the shape descriptors: never written by the per-component loop *)

(* algorithm-level view of a GaussianMixture: component list + the rest *)
Definition kfG := (list (gcomp O n) * W)%type.

Definition overwrite_prefix {A} (new old : list A) : list A := new ++ skipn (length new) old.

Definition c_kf_px (g : kfG) : list (M O n 1) := map gmean (fst g).

(* LinearMeasurementModel serving y: predictedMeasure = H * columns,
   innovation = -(pred.colwise() - y) *)
Definition lin_mm (H : M O m n) (R : M O m m) (y : M O m 1)
  : mmodel (M O m 1) (list (M O n 1)) (list (M O m 1)) (list (M O m 1)) (M O m m) :=
  total_mm y (map (lin_predicted H)) (fun yp y => map (fun a => lin_innovation a y) yp) R.

(* KFCorrection.cpp:91-118 *)
Definition c_kf_upd (H : M O m n) (pred : kfG) (nus : list (M O m 1)) (R : M O m m) (out : kfG)
  : kfG * list (M O m m) :=
  let res := map (fun cn => kf_correct_comp (gcov (fst cn)) (gmean (fst cn)) H R (snd cn))
                 (combine (fst pred) nus) in
  ((overwrite_prefix (map (fun r => mkGcomp (fst (fst r)) (snd (fst r))) res) (fst out), snd out),
   map snd res).

Definition c_kf_lik (nus : list (M O m 1)) (pys : list (M O m m)) : list (T (sc O)) :=
  map (fun p => density (fst p) (mzero m 1) (snd p)) (combine nus pys).

Definition c_kf_step (H : M O m n) :=
  @kf_step kfG (M O m 1) (list (M O n 1)) (list (M O m 1)) (list (M O m 1)) (M O m m) (list (M O m m)) c_kf_px (c_kf_upd H).
Definition c_kf_get_lik := kf_get_lik c_kf_lik.
End KFInst.
Arguments c_kf_step {O n m W}. Arguments c_kf_get_lik {O m}. Arguments lin_mm {O n m}.
Arguments c_kf_px {O n W}. Arguments c_kf_upd {O n m W}. Arguments c_kf_lik {O m}.
