(* C15_Transport.v — the factorised ("UVR", Woodbury / determinant lemma) Gaussian
   log-density and density of C15_Model.v, and the batch forms of the direct
   ones, executed at the LIST instance (the one that is extracted and run), over
   the scalars of an arbitrary realFieldType, return the values the same Gallina
   terms have at the MathComp instance (the one the C15 theorems are about), on
   well-formed inputs, for R given in full (all blocks side by side) and for one
   shared block.  The list instance inverts matrices with the Gauss-Jordan
   routine of ListOps.v (proved in ListGauss.v, on invertible inputs): every
   matrix the model inverts or takes the determinant of -- each diagonal block
   of R, the capacitance matrix I + V R^-1 U, the assembled S in the direct
   form -- is proved invertible from the positive-definiteness premises
   (LinAlg.v, C15_Proofs.v), not assumed so.  Only rounding separates the
   executed model from the theorems.  Axiom-free. *)
Require Import ZArith List Bool.
Require Import BFL.Ops BFL.ListOps BFL.Density BFL.C15_Model.
From mathcomp Require Import all_ssreflect all_algebra.
Require Import BFL.MxOps BFL.LinAlg BFL.ListOpsCorrect BFL.ListGauss BFL.C02_Transport BFL.C01_Transport BFL.C15_Proofs.
Set Implicit Arguments.
Unset Strict Implicit.
Unset Printing Implicit Defensive.
Import GRing.Theory.
Local Open Scope ring_scope.

Section T.
Variable F : realFieldType.
Variable tr : Transc F.
Variable sq : forall n, 'M[F]_n -> 'M[F]_n.
Variable eg : forall n, 'M[F]_n -> 'M[F]_(n,1).
Let S := FOps tr.
Let OL := ListMat S (fun _ X => X) (fun _ X => X).
Let OM := MxMat tr sq eg.
Notation repr m n l A := (@C02_Transport.repr F m n l A) (only parsing).

(* ---- element access and mbuild: total (out of range both sides read 0) ---- *)
Lemma repr_mget m n l (A : 'M[F]_(m,n)) i j : repr m n l A ->
  @mget OL m n l i j = @mget OM m n A i j.
Proof.
move=> [[len rows] <-] /=.
case: (ltnP i m) => im; last first.
  rewrite mx_get_out_r // /lget List.nth_overflow ?List.nth_overflow //=; first exact/ssrnat.leP.
  by rewrite len; exact/ssrnat.leP.
case: (ltnP j n) => jn; last first.
  rewrite mx_get_out_c // /lget List.nth_overflow //.
  by rewrite (wf_nth_row (conj len rows) im); exact/ssrnat.leP.
have -> : i = Ordinal im by []. have -> : j = Ordinal jn by [].
by rewrite mx_get_ord mxE.
Qed.

Lemma repr_mbuild m n (f g : nat -> nat -> F) :
  (forall i j, (i < m)%N -> (j < n)%N -> f i j = g i j) ->
  repr m n (@mbuild OL m n f) (@mbuild OM m n g).
Proof.
move=> E; split; first exact: lbuild_wf.
by rewrite /= toM_lbuild; exact: mx_build_ext.
Qed.

Lemma repr_mid n : repr n n (@mid OL n) (1%:M : 'M[F]_n).
Proof. by split; [exact: lbuild_wf | exact: toM_lid]. Qed.

(* ---- the structural helpers of Ops.v / C15_Model.v ---- *)
Lemma repr_mslice m n l (A : 'M[F]_(m,n)) r0 c0 r c : repr m n l A ->
  repr r c (@mslice OL m n r0 c0 r c l) (@mslice OM m n r0 c0 r c A).
Proof. by move=> rA; apply: repr_mbuild => i j _ _; exact: repr_mget. Qed.

Lemma repr_mcol m n l (A : 'M[F]_(m,n)) j : repr m n l A ->
  repr m 1 (@mcol OL m n j l) (@mcol OM m n j A).
Proof. by move=> rA; apply: repr_mbuild => i j' _ _; exact: repr_mget. Qed.

Lemma repr_mrow m n l (A : 'M[F]_(m,n)) i : repr m n l A ->
  repr 1 n (@mrow OL m n i l) (@mrow OM m n i A).
Proof. by move=> rA; apply: repr_mbuild => i' j _ _; exact: repr_mget. Qed.

Lemma repr_mset_block m n r c lA (A : 'M[F]_(m,n)) r0 c0 lB (B : 'M[F]_(r,c)) :
  repr m n lA A -> repr r c lB B ->
  repr m n (@mset_block OL m n r c lA r0 c0 lB) (@mset_block OM m n r c A r0 c0 B).
Proof.
move=> rA rB; apply: repr_mbuild => i j _ _.
by rewrite (repr_mget _ _ rA) (repr_mget _ _ rB).
Qed.

Lemma repr_mcolwise_sub d b lX (X : 'M[F]_(d,b)) lm (mu : 'cV[F]_d) :
  repr d b lX X -> repr d 1 lm mu ->
  repr d b (@mcolwise_sub OL d b lX lm) (@mcolwise_sub OM d b X mu).
Proof.
move=> rX rm; apply: repr_mbuild => i j _ _.
by rewrite (repr_mget _ _ rX) (repr_mget _ _ rm).
Qed.

(* a loop over 0 .. cnt-1 that keeps the representation *)
Lemma repr_fold m n cnt (fl : lmxF F -> nat -> lmxF F) (fm : 'M[F]_(m,n) -> nat -> 'M[F]_(m,n)) l0 A0 :
  (forall l A t, (t < cnt)%N -> repr m n l A -> repr m n (fl l t) (fm A t)) ->
  repr m n l0 A0 ->
  repr m n (List.fold_left fl (List.seq 0 cnt) l0) (List.fold_left fm (List.seq 0 cnt) A0).
Proof.
move=> Hstep Hr0; elim: cnt Hstep => [|cnt IH] Hstep //.
rewrite List.seq_S !List.fold_left_app /=; apply: (Hstep) => //.
by apply: IH => l A t lt; apply: (Hstep); exact: ltnW.
Qed.

(* ---- the pieces of the factorised form ---- *)
Section UVR.
Variables (bs nb k b rc : nat).
Hypothesis bs0 : (0 < bs)%N.
Notation d := (nb * bs)%N.
Variables (li : lmxF F) (input : 'M[F]_(d,b)) (lm : lmxF F) (mean : 'cV[F]_d).
Variables (lU : lmxF F) (U : 'M[F]_(d,k)) (lV : lmxF F) (V : 'M[F]_(k,d)).
Variables (lR : lmxF F) (R : 'M[F]_(bs,rc)).
Hypothesis ri : repr d b li input.
Hypothesis rm : repr d 1 lm mean.
Hypothesis rU : repr d k lU U.
Hypothesis rV : repr k d lV V.
Hypothesis rR : repr bs rc lR R.
Notation blkR := (blk (tr:=tr) (sq:=sq) (eg:=eg) (R : M OM bs rc)).

(* the blocks of R are invertible: the only premise of this subsection *)
Hypothesis uB : forall t, (t < nb)%N -> blkR t \in unitmx.

Lemma blk_single : (rc == bs)%N -> forall t, (t < nb)%N ->
  (@uvr_R_single OM bs rc R : 'M[F]_bs) \in unitmx.
Proof. by move=> E t tn; have := uB tn; rewrite /blk E. Qed.

Lemma blk_block : (rc == bs)%N = false -> forall t, (t < nb)%N ->
  (@uvr_R_block OM bs rc R t : 'M[F]_bs) \in unitmx.
Proof. by move=> E t tn; have := uB tn; rewrite /blk E. Qed.

Lemma repr_inv_R :
  repr bs d (@uvr_inv_R OL d bs rc nb lR) (@uvr_inv_R OM d bs rc nb R).
Proof.
rewrite /uvr_inv_R eqb_eqn; case E: (rc == bs)%N.
- case: nb uB blk_single => [|nb'] uB' bsg; first exact: repr_mzero.
  have uS1 := bsg E 0%N (ltn0Sn _).
  apply: repr_fold; last exact: repr_mzero.
  move=> l A t _ rA; apply: repr_mset_block => //.
  by apply: repr_minv => //; exact: repr_mslice.
- apply: repr_fold; last exact: repr_mzero.
  move=> l A t tn rA; apply: repr_mset_block => //.
  by apply: repr_minv; [exact: repr_mslice | exact: blk_block].
Qed.

Lemma repr_V_inv_R liR (iR : 'M[F]_(bs,d)) : repr bs d liR iR ->
  repr k d (@uvr_V_inv_R OL k d bs lV liR) (@uvr_V_inv_R OM k d bs V iR).
Proof.
move=> riR; rewrite /uvr_V_inv_R; apply: repr_fold; last exact: repr_mzero.
move=> l A t _ rA; apply: repr_mset_block => //.
by apply: (repr_mul tr); exact: repr_mslice.
Qed.

Lemma repr_diffT_inv_R ld (df : 'M[F]_(d,b)) liR (iR : 'M[F]_(bs,d)) :
  repr d b ld df -> repr bs d liR iR ->
  repr b d (@uvr_diffT_inv_R OL d b bs nb ld liR) (@uvr_diffT_inv_R OM d b bs nb df iR).
Proof.
move=> rd riR; rewrite /uvr_diffT_inv_R; apply: repr_fold; last exact: repr_mzero.
move=> l A t _ rA; apply: repr_mset_block => //.
by apply: (repr_mul tr); [apply: (repr_tr tr); exact: repr_mslice | exact: repr_mslice].
Qed.

Lemma repr_capacitance lVR (VR : 'M[F]_(k,d)) : repr k d lVR VR ->
  repr k k (@uvr_I_V_inv_R_U OL k d lVR lU) (@uvr_I_V_inv_R_U OM k d VR U).
Proof.
by move=> rVR; rewrite /uvr_I_V_inv_R_U; apply: (repr_add tr); [exact: repr_mid | exact: (repr_mul tr)].
Qed.

Lemma det_R_transport : @uvr_det_R OL bs rc nb lR = @uvr_det_R OM bs rc nb R.
Proof.
rewrite /uvr_det_R eqb_eqn; case E: (rc == bs)%N.
- case: nb uB blk_single => [|nb'] uB' bsg //.
  have uS1 := bsg E 0%N (ltn0Sn _).
  by rewrite (repr_mdet tr (repr_mslice 0 0 bs bs rR) uS1).
- have st t : (t < nb)%N -> @mdet OL bs (@uvr_R_block OL bs rc lR t) = @mdet OM bs (@uvr_R_block OM bs rc R t).
    by move=> tn; exact: (repr_mdet tr (repr_mslice 0 (bs * t) bs bs rR) (blk_block E tn)).
  rewrite (fold_prod (fun t => @mdet OL bs (@uvr_R_block OL bs rc lR t)) nb).
  rewrite (fold_prod (fun t => @mdet OM bs (@uvr_R_block OM bs rc R t)) nb).
  by apply: eq_bigr => t _; exact: st.
Qed.

(* the capacitance matrix is invertible once S is *)
Hypothesis uS : (@assembled_S OM d k bs rc U V R : 'M[F]_d) \in unitmx.

Let uC := uvr_capacitance_unit bs0 uB uS.

Lemma weighted_diff_transport ld (df : 'M[F]_(d,b)) i :
  repr d b ld df ->
  @uvr_weighted_diff OL d b k
     (@uvr_diffT_inv_R OL d b bs nb ld (@uvr_inv_R OL d bs rc nb lR)) lU
     (@uvr_I_V_inv_R_U OL k d (@uvr_V_inv_R OL k d bs lV (@uvr_inv_R OL d bs rc nb lR)) lU)
     (@uvr_V_inv_R OL k d bs lV (@uvr_inv_R OL d bs rc nb lR)) ld i
  = @uvr_weighted_diff OM d b k
     (@uvr_diffT_inv_R OM d b bs nb df (@uvr_inv_R OM d bs rc nb R)) U
     (@uvr_I_V_inv_R_U OM k d (@uvr_V_inv_R OM k d bs V (@uvr_inv_R OM d bs rc nb R)) U)
     (@uvr_V_inv_R OM k d bs V (@uvr_inv_R OM d bs rc nb R)) df i.
Proof.
move=> rd; rewrite /uvr_weighted_diff.
have riR := repr_inv_R.
have rVR := repr_V_inv_R riR.
have rC := repr_capacitance rVR.
have rCi := repr_minv tr rC uC.
have rdT := repr_diffT_inv_R rd riR.
apply: repr_mget.
apply: (repr_mul tr); last exact: repr_mcol.
apply: (repr_mul tr); first exact: repr_mrow.
apply: (repr_msub tr); first exact: repr_mid.
by apply: (repr_mul tr) => //; apply: (repr_mul tr).
Qed.

Lemma det_S_transport :
  @smul (sc OL) (@uvr_det_R OL bs rc nb lR)
        (@mdet OL k (@uvr_I_V_inv_R_U OL k d (@uvr_V_inv_R OL k d bs lV (@uvr_inv_R OL d bs rc nb lR)) lU))
  = @smul (sc OM) (@uvr_det_R OM bs rc nb R)
        (@mdet OM k (@uvr_I_V_inv_R_U OM k d (@uvr_V_inv_R OM k d bs V (@uvr_inv_R OM d bs rc nb R)) U)).
Proof.
by rewrite det_R_transport (repr_mdet tr (repr_capacitance (repr_V_inv_R repr_inv_R)) uC).
Qed.

(* the factorised log-density and density: the same lists of values *)
Theorem log_density_uvr_transport :
  @log_density_uvr OL d b k bs rc li lm lU lV lR = @log_density_uvr OM d b k bs rc input mean U V R.
Proof.
rewrite /log_density_uvr div_mulK // det_S_transport.
apply: List.map_ext => i.
by rewrite (weighted_diff_transport i (repr_mcolwise_sub ri rm)).
Qed.

Theorem density_uvr_transport :
  @density_uvr OL d b k bs rc li lm lU lV lR = @density_uvr OM d b k bs rc input mean U V R.
Proof. by rewrite /density_uvr log_density_uvr_transport. Qed.

(* the spec-level assembly U V + blockdiag(R) (no inverse involved) *)
Lemma repr_blockdiag :
  repr d d (@blockdiag OL d bs rc lR) (@blockdiag OM d bs rc R).
Proof.
rewrite /blockdiag; apply: repr_fold; last exact: repr_mzero.
move=> l A t _ rA; apply: repr_mset_block => //.
by case: (Nat.eqb rc bs); exact: repr_mslice.
Qed.

Lemma repr_assembled :
  repr d d (@assembled_S OL d k bs rc lU lV lR) (@assembled_S OM d k bs rc U V R).
Proof. by rewrite /assembled_S; apply: (repr_add tr); [exact: (repr_mul tr) | exact: repr_blockdiag]. Qed.

End UVR.

(* ---- the direct forms on a batch ---- *)
Theorem log_density_mat_transport d b li (input : 'M[F]_(d,b)) lm (mean : 'cV[F]_d) lc (cov : 'M[F]_d) :
  repr d b li input -> repr d 1 lm mean -> repr d d lc cov -> cov \in unitmx ->
  @log_density_mat OL d b li lm lc = @log_density_mat OM d b input mean cov.
Proof.
move=> ri rm rc uc; rewrite /log_density_mat; apply: List.map_ext => i.
exact: (log_density_transport tr sq eg (repr_mcol i ri) rm rc uc).
Qed.

Theorem density_mat_transport d b li (input : 'M[F]_(d,b)) lm (mean : 'cV[F]_d) lc (cov : 'M[F]_d) :
  repr d b li input -> repr d 1 lm mean -> repr d d lc cov -> cov \in unitmx ->
  @density_mat OL d b li lm lc = @density_mat OM d b input mean cov.
Proof. by move=> ri rm rc uc; rewrite /density_mat (log_density_mat_transport ri rm rc uc). Qed.

Theorem direct_executed_is_model d b li (input : 'M[F]_(d,b)) lm (mean : 'cV[F]_d) lc (cov : 'M[F]_d) :
  repr d b li input -> repr d 1 lm mean -> repr d d lc cov -> spd cov ->
  @log_density_mat OL d b li lm lc = @log_density_mat OM d b input mean cov /\
  @density_mat OL d b li lm lc = @density_mat OM d b input mean cov.
Proof.
move=> ri rm rc sc; split.
- exact: (log_density_mat_transport ri rm rc (spd_unit sc)).
- exact: (density_mat_transport ri rm rc (spd_unit sc)).
Qed.

(* ---- statements with positive-definiteness premises only ---- *)
Section SPD.
Variables (bs nb k b rc : nat).
Hypothesis bs0 : (0 < bs)%N.
Notation d := (nb * bs)%N.
Variables (li : lmxF F) (input : 'M[F]_(d,b)) (lm : lmxF F) (mean : 'cV[F]_d).
Variables (lU : lmxF F) (U : 'M[F]_(d,k)) (lV : lmxF F) (V : 'M[F]_(k,d)).
Variables (lR : lmxF F) (R : 'M[F]_(bs,rc)).
Hypothesis ri : repr d b li input.
Hypothesis rm : repr d 1 lm mean.
Hypothesis rU : repr d k lU U.
Hypothesis rV : repr k d lV V.
Hypothesis rR : repr bs rc lR R.
Notation blkR := (blk (tr:=tr) (sq:=sq) (eg:=eg) (R : M OM bs rc)).
Hypothesis sB : forall t, (t < nb)%N -> spd (blkR t).
Hypothesis sS : spd (@assembled_S OM d k bs rc U V R : 'M[F]_d).

Let uB t (tn : (t < nb)%N) : blkR t \in unitmx := spd_unit (sB tn).
Let uS := spd_unit sS.

(* the executed factorised (log-)density is the theorem-level one *)
Theorem uvr_executed_is_model :
  @log_density_uvr OL d b k bs rc li lm lU lV lR = @log_density_uvr OM d b k bs rc input mean U V R /\
  @density_uvr OL d b k bs rc li lm lU lV lR = @density_uvr OM d b k bs rc input mean U V R.
Proof.
split.
- exact: (log_density_uvr_transport bs0 ri rm rU rV rR uB uS).
- exact: (density_uvr_transport bs0 ri rm rU rV rR uB uS).
Qed.

(* ... and equals the direct theorem-level (log-)density of the assembled covariance, per evaluation point;
   so do the executed direct forms applied to the executed assembly *)
Theorem uvr_executed_is_direct_definition i : (i < b)%N ->
  List.nth i (@log_density_uvr OL d b k bs rc li lm lU lV lR) 0 =
  @log_density OM d (@mcol OM d b i input) mean (@assembled_S OM d k bs rc U V R) /\
  List.nth i (@log_density_mat OL d b li lm (@assembled_S OL d k bs rc lU lV lR)) 0 =
  @log_density OM d (@mcol OM d b i input) mean (@assembled_S OM d k bs rc U V R).
Proof.
move=> ib; split.
- by rewrite (log_density_uvr_transport bs0 ri rm rU rV rR uB uS); exact: (uvr_eq_direct bs0 input mean uB uS ib).
- rewrite (log_density_mat_transport ri rm (repr_assembled rU rV rR) uS).
  by rewrite /log_density_mat (nth_map_seq _ _ ib).
Qed.

End SPD.

(* R in full: the diagonal blocks side by side (bs x nb*bs) *)
Theorem uvr_executed_is_model_full_R bs nb k b (bs0 : (0 < bs)%N)
        li (input : 'M[F]_(nb * bs, b)) lm (mean : 'cV[F]_(nb * bs))
        lU (U : 'M[F]_(nb * bs, k)) lV (V : 'M[F]_(k, nb * bs)) lR (R : 'M[F]_(bs, nb * bs)) :
  repr (nb * bs) b li input -> repr (nb * bs) 1 lm mean -> repr (nb * bs) k lU U -> repr k (nb * bs) lV V ->
  repr bs (nb * bs) lR R ->
  (forall t, (t < nb)%N -> spd (@uvr_R_block OM bs (nb * bs) R t : 'M[F]_bs)) ->
  spd (@assembled_S OM (nb * bs) k bs (nb * bs) U V R : 'M[F]_(nb * bs)) ->
  @log_density_uvr OL (nb * bs) b k bs (nb * bs) li lm lU lV lR = @log_density_uvr OM (nb * bs) b k bs (nb * bs) input mean U V R /\
  @density_uvr OL (nb * bs) b k bs (nb * bs) li lm lU lV lR = @density_uvr OM (nb * bs) b k bs (nb * bs) input mean U V R.
Proof.
move=> ri rm rU rV rR sB sS; apply: uvr_executed_is_model => // t tn.
by rewrite (blk_per_block (tr:=tr) (sq:=sq) (eg:=eg) bs0 R tn); exact: sB.
Qed.

(* R as one block shared by all diagonal positions (bs x bs) *)
Theorem uvr_executed_is_model_shared_R bs nb k b (bs0 : (0 < bs)%N)
        li (input : 'M[F]_(nb * bs, b)) lm (mean : 'cV[F]_(nb * bs))
        lU (U : 'M[F]_(nb * bs, k)) lV (V : 'M[F]_(k, nb * bs)) lR (R : 'M[F]_bs) :
  repr (nb * bs) b li input -> repr (nb * bs) 1 lm mean -> repr (nb * bs) k lU U -> repr k (nb * bs) lV V ->
  repr bs bs lR R ->
  spd R ->
  spd (@assembled_S OM (nb * bs) k bs bs U V R : 'M[F]_(nb * bs)) ->
  @log_density_uvr OL (nb * bs) b k bs bs li lm lU lV lR = @log_density_uvr OM (nb * bs) b k bs bs input mean U V R /\
  @density_uvr OL (nb * bs) b k bs bs li lm lU lV lR = @density_uvr OM (nb * bs) b k bs bs input mean U V R.
Proof.
move=> ri rm rU rV rR sR sS; apply: uvr_executed_is_model => // t tn.
by rewrite (blk_shared (tr:=tr) (sq:=sq) (eg:=eg) R t).
Qed.

(* the common use V = U^T (any encoding of R): positive definite blocks are the only premise *)
Theorem uvr_executed_is_model_sym_factor bs nb k b rc (bs0 : (0 < bs)%N)
        li (input : 'M[F]_(nb * bs, b)) lm (mean : 'cV[F]_(nb * bs))
        lU (U : 'M[F]_(nb * bs, k)) lR (R : 'M[F]_(bs, rc)) :
  repr (nb * bs) b li input -> repr (nb * bs) 1 lm mean -> repr (nb * bs) k lU U -> repr bs rc lR R ->
  (forall t, (t < nb)%N -> spd (blk (tr:=tr) (sq:=sq) (eg:=eg) (R : M OM bs rc) t)) ->
  @log_density_uvr OL (nb * bs) b k bs rc li lm lU (@mtr OL (nb * bs) k lU) lR
  = @log_density_uvr OM (nb * bs) b k bs rc input mean U (@mtr OM (nb * bs) k U) R /\
  @density_uvr OL (nb * bs) b k bs rc li lm lU (@mtr OL (nb * bs) k lU) lR
  = @density_uvr OM (nb * bs) b k bs rc input mean U (@mtr OM (nb * bs) k U) R.
Proof.
move=> ri rm rU rR sB; apply: uvr_executed_is_model => //; first exact: (repr_tr tr).
exact: (assembled_sym_factor_spd (tr:=tr) (sq:=sq) (eg:=eg) bs0 U sB).
Qed.

End T.

(* non-vacuity: identity blocks, U = V = 0, any points: the premises hold in every shape *)
Example uvr_transport_premises_satisfiable (F : realFieldType) (tr : Transc F)
        (sq : forall n, 'M[F]_n -> 'M[F]_n) (eg : forall n, 'M[F]_n -> 'M[F]_(n,1)) bs nb k (bs0 : (0 < bs)%N) :
  let OL := ListMat (FOps tr) (fun _ X => X) (fun _ X => X) in
  let OM := MxMat tr sq eg in
  [/\ @C02_Transport.repr F bs bs (@mid OL bs) (1%:M : 'M[F]_bs),
      @C02_Transport.repr F (nb * bs) k (@mzero OL (nb * bs) k) (0 : 'M[F]_(nb * bs, k)),
      spd (1%:M : 'M[F]_bs) &
      spd (@assembled_S OM (nb * bs) k bs bs (0 : 'M[F]_(nb * bs, k)) (0 : 'M[F]_(k, nb * bs)) (1%:M : 'M[F]_bs) : 'M[F]_(nb * bs))].
Proof.
split; [exact: repr_mid | exact: repr_mzero | exact: spd1 |].
rewrite /assembled_S /= mulmx0 add0r (blockdiag_BD (tr:=tr) (sq:=sq) (eg:=eg) nb bs0 (1%:M : 'M[F]_bs)).
rewrite (BD_ext (H:=fun _ => 1%:M)) ?BD_1; first exact: spd1.
by move=> t _; exact: blk_shared.
Qed.

Print Assumptions uvr_executed_is_model.
Print Assumptions uvr_executed_is_direct_definition.
Print Assumptions uvr_executed_is_model_full_R.
Print Assumptions uvr_executed_is_model_shared_R.
Print Assumptions uvr_executed_is_model_sym_factor.
Print Assumptions direct_executed_is_model.
