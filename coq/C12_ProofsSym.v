(* C12_ProofsSym.v — refutation witnesses, computed on the symbolic instance
   (the one that is extracted and run against the library). *)
Require Import List Bool Arith.
Require Import BFL.C12_Model BFL.C12_Proofs BFL.C12_Sym.
Import ListNotations.

Definition good6 : list bool := [false; false; false; false; false; false].
Definition bad (s : site) : list bool := map (site_eqb s) [Measure; Predicted; Innovation; NoiseCov; Freeze; Likelihood].

Lemma pat_of_bad s t : pat_of (bad s) t = site_eqb s t.
Proof. destruct s, t; reflexivity. Qed.

(* good step, then a step that cannot use the measurement: the output is the
   predicted belief of step 1 and getLikelihood reports failure (the members of
   step 0 are not reported again) *)
Lemma kf_good_then_faulty :
  exists o0 o1, run_kf [good6; bad Measure] = [o0; o1] /\
    fst (o_lik o0) = true /\ o_g o1 = leaf (IPredG 1) /\ o_lik o1 = (false, leaf IEmpty).
Proof. do 2 eexists. split; [vm_compute; reflexivity|]. repeat split. Qed.

Lemma ukf_good_then_faulty additive :
  exists o0 o1, run_ukf additive [good6; bad Predicted] = [o0; o1] /\
    fst (o_lik o0) = true /\ o_g o1 = leaf (IPredG 1) /\ o_lik o1 = (false, leaf IEmpty) /\
    o_log o1 = if additive then [Measure; Predicted] else [Measure; NoiseCov; Predicted].
Proof. destruct additive; do 2 eexists; (split; [vm_compute; reflexivity|]); repeat split. Qed.

Lemma sukf_good_then_faulty ncalls lcalls :
  exists o0 o1, run_sukf true ncalls lcalls [good6; bad Innovation] = [o0; o1] /\
    fst (o_lik o0) = true /\ o_g o1 = leaf (IPredG 1) /\ o_lik o1 = (false, leaf IEmpty) /\ o_liklog o1 = [].
Proof. do 2 eexists. split; [vm_compute; reflexivity|]. repeat split. Qed.

(* GPFCorrection over a KFCorrection and a likelihood model that reports a
   value: measure() fails, the wrapped correction returns the predicted
   mixture, yet states are re-drawn and weights recomputed *)
Lemma gpf_inner_failure_witness :
  exists o, run_gpf 0 true [bad Measure] = [o] /\
    fails_any (pat_of (bad Measure)) sites4 = true /\
    tm_eqb (o_g o) (leaf (IPredG 0)) = false /\ tm_eqb (o_s o) (leaf (IPredS 0)) = false /\
    o_s o = Node FSampleS [leaf IRng; leaf (IPredG 0); leaf IOutS] /\
    o_log o = [Measure; Likelihood] /\ fst (o_lik o) = true.
Proof. eexists. split; [vm_compute; reflexivity|]. repeat split. Qed.

(* with the shipped GaussianLikelihood the same pattern is an identity *)
Lemma gpf_gauss_same_pattern :
  exists o, run_gpf 0 false [bad Measure] = [o] /\
    o_g o = leaf (IPredG 0) /\ o_s o = leaf (IPredS 0) /\ o_lik o = (false, leaf FZero1) /\
    o_log o = [Measure; Measure].
Proof. eexists. split; [vm_compute; reflexivity|]. repeat split. Qed.

(* the same with shipped components only: the measurement is unavailable while the
   wrapped KFCorrection runs and available when GaussianLikelihood asks *)
Lemma gpf_transient_inner_failure_witness :
  exists o, run_gpf 0 false [bad Measure ++ good6] = [o] /\
    tm_eqb (o_g o) (leaf (IPredG 0)) = false /\ tm_eqb (o_s o) (leaf (IPredS 0)) = false /\
    o_log o = [Measure; Measure; Predicted; Innovation; NoiseCov] /\ fst (o_lik o) = true.
Proof. eexists. split; [vm_compute; reflexivity|]. repeat split. Qed.

(* correct(p, p) on GPF(KF, GaussianLikelihood), measure() unavailable: re-drawn states are handed back *)
Lemma gpf_aliased_witness :
  exists o, run_gpf_cfg (mkCfg false false false true) 0 true 0 false [bad Measure] = [o] /\
    o_g o = leaf (IPredG 0) /\ tm_eqb (o_s o) (leaf (IPredS 0)) = false /\
    o_s o = Node FSampleS [leaf IRng; leaf (IPredG 0); leaf (IPredS 0)] /\ o_lik o = (false, leaf FZero1).
Proof. eexists. split; [vm_compute; reflexivity|]. repeat split. Qed.

(* non-vacuity examples: all sixteen patterns of the four measurement-model calls, on the KF skeleton *)
Definition all16 : list (list bool) :=
  flat_map (fun a => flat_map (fun b => flat_map (fun c => map (fun d => [a; b; c; d; false; false]) [false; true])
                                                  [false; true]) [false; true]) [false; true].

Definition identity_at (k : nat) (o : obs) : bool := tm_eqb (o_g o) (leaf (IPredG k)).

Lemma kf_all16 :
  forallb (fun b => match run_kf [b] with
                    | [o] => Bool.eqb (identity_at 0 o) (fails_any (pat_of b) sites4)
                             && Bool.eqb (fst (o_lik o)) (negb (fails_any (pat_of b) sites4))
                    | _ => false end) all16 = true.
Proof. vm_compute. reflexivity. Qed.

Lemma ukf_all16 additive :
  forallb (fun b => match run_ukf additive [b] with
                    | [o] => Bool.eqb (identity_at 0 o) (fails_any (pat_of b) sites3)
                             && Bool.eqb (fst (o_lik o)) (negb (fails_any (pat_of b) sites3))
                    | _ => false end) all16 = true.
Proof. destruct additive; vm_compute; reflexivity. Qed.

Lemma gpf_gauss_all16 inner :
  forallb (fun b => match run_gpf inner false [b] with
                    | [o] => Bool.eqb (identity_at 0 o && tm_eqb (o_s o) (leaf (IPredS 0))) (fails_any (pat_of b) sites4)
                    | _ => false end) all16 = true.
Proof.
  destruct inner as [|[|[|i]]]; vm_compute; reflexivity.
Qed.
