(* C12_ProofsSym.v — refutation witnesses, computed on the symbolic instance
   (the one that is extracted and run against the library). *)
Require Import List Bool Arith.
Require Import BFL.C12_Model BFL.C12_Proofs BFL.C12_Sym.
Import ListNotations.

Definition good6 : list bool := [false; false; false; false; false; false].
Definition bad (s : site) : list bool := map (site_eqb s) [Measure; Predicted; Innovation; NoiseCov; Freeze; Likelihood].

Lemma pat_of_bad s t : pat_of (bad s) t = site_eqb s t.
Proof. destruct s, t; reflexivity. Qed.

(* KFCorrection: good step, then a step whose measure() fails.  The output is
   the predicted belief of step 1, and getLikelihood still reports step 0's
   likelihood as valid. *)
Lemma kf_stale_witness :
  exists o0 o1, run_kf [good6; bad Measure] = [o0; o1] /\
    fails_any (pat_of (bad Measure)) sites4 = true /\
    o_g o1 = leaf (IPredG 1) /\ fst (o_lik o1) = true /\ o_lik o1 = o_lik o0.
Proof. do 2 eexists. split; [vm_compute; reflexivity|]. repeat split. Qed.

(* UKFCorrection (generic): predictedMeasure fails in step 1: getLikelihood
   evaluates step 0's innovations against the default-constructed
   predicted_meas_ that the failed transform left behind *)
Lemma ukf_stale_witness :
  exists o0 o1 nu0, run_ukf false [good6; bad Predicted] = [o0; o1] /\
    fails_any (pat_of (bad Predicted)) sites3 = true /\
    o_g o1 = leaf (IPredG 1) /\
    o_lik o1 = (true, ap2 FUkfLik nu0 (leaf FPmDefault)) /\
    (exists pm0, snd (o_lik o0) = ap2 FUkfLik nu0 pm0).
Proof. do 3 eexists. split; [vm_compute; reflexivity|]. repeat split. eexists; reflexivity. Qed.

Lemma ukf_additive_stale_witness :
  exists o0 o1 nu0, run_ukf true [good6; bad Predicted] = [o0; o1] /\
    o_g o1 = leaf (IPredG 1) /\
    o_lik o1 = (true, ap2 FUkfLik nu0 (ap2 FPmAddNoise (leaf FPmDefault) (leaf IR))) /\
    o_log o1 = [Measure; Predicted; NoiseCov].
Proof. do 3 eexists. split; [vm_compute; reflexivity|]. repeat split. Qed.

(* SUKFCorrection: innovation fails in step 1: step 0's innovations next to
   step 1's raw propagated sigma points *)
Lemma sukf_stale_witness ncalls lcalls :
  exists o0 o1 nu0, run_sukf true ncalls lcalls [good6; bad Innovation] = [o0; o1] /\
    fails_any (pat_of (bad Innovation)) sites3 = true /\
    o_g o1 = leaf (IPredG 1) /\
    o_lik o1 = (true, Node FSukfLik [nu0; ap1 FH (ap1 FSigma (leaf (IPredG 1))); leaf IR]) /\
    (exists yp0, snd (o_lik o0) = Node FSukfLik [nu0; yp0; leaf IR]).
Proof. do 3 eexists. split; [vm_compute; reflexivity|]. repeat split. eexists; reflexivity. Qed.

(* GPFCorrection over a KFCorrection and a likelihood model that reports a
   value: measure() fails, the wrapped correction returns the predicted
   mixture, yet states are re-drawn and weights recomputed *)
Lemma gpf_inner_failure_witness :
  exists o, run_gpf 0 true [bad Measure] = [o] /\
    fails_any (pat_of (bad Measure)) sites4 = true /\
    tm_eqb (o_g o) (leaf (IPredG 0)) = false /\ tm_eqb (o_s o) (leaf (IPredS 0)) = false /\
    o_s o = Node FSampleS [leaf IRng; leaf (IPredG 0); leaf IOutS] /\
    o_log o = [Measure; Likelihood] /\ fst (o_lik o) = true.
Proof. eexists. split; [vm_compute; reflexivity|]. repeat split. Qed.

(* with the shipped GaussianLikelihood the same pattern is an identity *)
Lemma gpf_gauss_same_pattern :
  exists o, run_gpf 0 false [bad Measure] = [o] /\
    o_g o = leaf (IPredG 0) /\ o_s o = leaf (IPredS 0) /\ o_lik o = (false, leaf FZero1) /\
    o_log o = [Measure; Measure].
Proof. eexists. split; [vm_compute; reflexivity|]. repeat split. Qed.

(* non-vacuity examples: all sixteen patterns of the four measurement-model calls, on the KF skeleton *)
Definition all16 : list (list bool) :=
  flat_map (fun a => flat_map (fun b => flat_map (fun c => map (fun d => [a; b; c; d; false; false]) [false; true])
                                                  [false; true]) [false; true]) [false; true].

Definition identity_at (k : nat) (o : obs) : bool := tm_eqb (o_g o) (leaf (IPredG k)).

Lemma kf_all16 :
  forallb (fun b => match run_kf [b] with
                    | [o] => Bool.eqb (identity_at 0 o) (fails_any (pat_of b) sites4)
                             && Bool.eqb (fst (o_lik o)) (negb (fails_any (pat_of b) sites4))
                    | _ => false end) all16 = true.
Proof. vm_compute. reflexivity. Qed.

Lemma ukf_all16 additive :
  forallb (fun b => match run_ukf additive [b] with
                    | [o] => Bool.eqb (identity_at 0 o) (fails_any (pat_of b) sites3)
                    | _ => false end) all16 = true.
Proof. destruct additive; vm_compute; reflexivity. Qed.

Lemma gpf_gauss_all16 inner :
  forallb (fun b => match run_gpf inner false [b] with
                    | [o] => Bool.eqb (identity_at 0 o && tm_eqb (o_s o) (leaf (IPredS 0))) (fails_any (pat_of b) sites4)
                    | _ => false end) all16 = true.
Proof.
  destruct inner as [|[|[|i]]]; vm_compute; reflexivity.
Qed.
